import SwcVerif.Props.C09
import SwcVerif.Refine.Views
/-! # C09, tied to the source by the translator

`Gen/AlgoViews.lean` is regenerated on every run from `swcgeom/core/{node,path,tree,branch,compartment,swc}.py`
(`harness/algo_specs/70_views.py`): the indexing and window logic of `Node`, `Path`, `Tree`, `Branch`, `Compartment`, `DictSWC`, one
integer-valued column per key.  The theorems below are about those GENERATED definitions, for every column content, every index array
with entries in range and every length; `RefineViews` holds the proofs.  `T` is a tree / DictSWC, `⟨T, idx, nm⟩` a Path / Branch over it. -/
namespace C09
open Gen.Algo RefineViews

/-! ## link to the hand-written heap model: its `at?` / `fancy` are the translator's `Py.idx` / `Py.take` -/

theorem at?_eq_idx (l : List Int) (i : Int) : Views.at? l i = Py.idx l i := by
  unfold Views.at? Pop.getIdx Py.idx Py.normIdx
  by_cases h0 : 0 ≤ i
  · by_cases h1 : i.toNat < l.length
    · have : ¬ (i < -(l.length : Int) || i ≥ (l.length : Int)) = true := by simp; omega
      simp [this, h0, h1, show ¬ i < 0 by omega, List.getD]
    · have : (i < -(l.length : Int) || i ≥ (l.length : Int)) = true := by simp; omega
      simp [this, h0, h1]
  · by_cases h1 : (-i).toNat ≤ l.length
    · have : ¬ (i < -(l.length : Int) || i ≥ (l.length : Int)) = true := by simp; omega
      have e : (i + (l.length : Int)).toNat = l.length - (-i).toNat := by omega
      have e2 : l.length - (-i).toNat < l.length := by omega
      simp [this, h0, h1, show i < 0 by omega, e, List.getD, e2]
    · have : (i < -(l.length : Int) || i ≥ (l.length : Int)) = true := by simp; omega
      simp [this, h0, h1]

theorem fancy_eq_take (l idx : List Int) : Views.fancy l idx = Py.take l idx := by
  unfold Views.fancy Py.take
  congr 1; funext i; exact at?_eq_idx l i

/-- the translated `Path.get_ndata` returns what the heap model's `viewRead` returns (`Views.fancy` of the owner's array), errors alike -/
theorem generated_view_read_eq_model (T : DictSWC) (idx : List Int) (nm : SWCNames) (key : String) (col : List Int)
    (hk : Py.Dict.get? T.ndata key = some col) : path_get_ndata ⟨T, idx, nm⟩ key = Views.fancy col idx := by
  rw [path_get_ndata_eq, hk, fancy_eq_take]; rfl

/-! ## reads -/

/-- `path["x"]` / `path.get_ndata("x")` = the owner's column gathered by `idx`, in order -/
theorem generated_path_column (T : DictSWC) (idx : List Int) (nm : SWCNames) (key : String) (col : List Int)
    (hk : Py.Dict.get? T.ndata key = some col) (hr : InRange idx col.length) :
    path_getitem_str ⟨T, idx, nm⟩ key = some (gather col idx) ∧ path_get_ndata ⟨T, idx, nm⟩ key = some (gather col idx) := by
  rw [path_getitem_str_eq]; exact ⟨path_get_ndata_spec T idx nm key col hk hr, path_get_ndata_spec T idx nm key col hk hr⟩

/-- `path[k]["x"]`: IndexError outside `-n ≤ k < n`, otherwise the owner's column at row `idx[k mod n]` -/
theorem generated_path_getitem_int (T : DictSWC) (idx : List Int) (nm : SWCNames) (key : String) (col idc : List Int)
    (hid : Py.Dict.get? T.ndata nm.id = some idc) (hri : InRange idx idc.length)
    (hk : Py.Dict.get? T.ndata key = some col) (hr : InRange idx col.length) (k : Int) :
    (path_getitem_int ⟨T, idx, nm⟩ k).bind (fun n => pnode_getitem n key) =
      if k < -(idx.length : Int) ∨ k ≥ idx.length then none
      else some (col.getD (idx.getD (normKey k idx.length).toNat 0).toNat 0) :=
  path_int_read T idx nm key col idc hid hri hk hr k

/-- `tree[k]["x"]`: IndexError outside `-n ≤ k < n`, otherwise the column at row `k mod n` -/
theorem generated_tree_getitem_int (T : DictSWC) (key : String) (col idc : List Int)
    (hid : Py.Dict.get? T.ndata T.names.id = some idc) (hk : Py.Dict.get? T.ndata key = some col) (hl : col.length = idc.length) (k : Int) :
    (tree_getitem_int T k).bind (fun n => tnode_getitem n key) =
      if k < -(idc.length : Int) ∨ k ≥ idc.length then none else some (col.getD (normKey k idc.length).toNat 0) := by
  rw [tree_getitem_int_eq T idc hid k]
  by_cases h1 : k < -(idc.length : Int) ∨ k ≥ idc.length
  · simp [h1]
  · have hn := normKey_range k idc.length h1
    simp only [h1, if_false, Option.bind_some, tnode_getitem_eq, hk]
    exact idx_inrange col _ (by rw [hl]; exact hn)

/-- `path[a:b:c]`: ValueError for a zero step; otherwise the handles at the positions `range(*slice(a, b, c).indices(len(path)))`, in
order, and every one of them is a valid position `0 ≤ i < len(path)` -/
theorem generated_path_getitem_slice (T : DictSWC) (idx : List Int) (nm : SWCNames) (idc : List Int)
    (hid : Py.Dict.get? T.ndata nm.id = some idc) (hri : InRange idx idc.length) (s : Py.Slice) :
    path_getitem_slice ⟨T, idx, nm⟩ s = (slicePositions s idx.length).map (fun l => l.map fun i => (⟨⟨T, idx, nm⟩, i, nm⟩ : PNode)) ∧
    (∀ l, slicePositions s idx.length = some l → InRange l idx.length) ∧
    (slicePositions s idx.length = none ↔ s.2.2 = some 0) := by
  have hg := path_get_ndata_spec T idx nm nm.id idc hid hri
  refine ⟨by simpa using path_getitem_slice_eq ⟨T, idx, nm⟩ _ hg s, fun l h => slicePositions_inbounds s _ l h, ?_⟩
  obtain ⟨a, b, c⟩ := s
  cases c with
  | none => simp [slicePositions, Py.sliceIndices, Py.range3]
  | some c => by_cases h : c = 0 <;> simp [slicePositions, Py.sliceIndices, Py.range3, h]

/-- `tree[a:b:c]` likewise -/
theorem generated_tree_getitem_slice (T : DictSWC) (idc : List Int) (hid : Py.Dict.get? T.ndata T.names.id = some idc) (s : Py.Slice) :
    tree_getitem_slice T s = (slicePositions s idc.length).map (fun l => l.map fun i => (⟨T, i, T.names⟩ : TNode)) ∧
    (∀ l, slicePositions s idc.length = some l → InRange l idc.length) :=
  ⟨tree_getitem_slice_eq T idc hid s, fun l h => slicePositions_inbounds s _ l h⟩

/-! ## writes -/

/-- **write-through**: `tree[i]["k"] = x` (`-n ≤ i < n`) changes exactly cell `i mod n` of column `k` of the owner -/
theorem generated_node_write_through (T : DictSWC) (k : String) (col idc : List Int) (x i : Int)
    (hid : Py.Dict.get? T.ndata T.names.id = some idc) (hk : Py.Dict.get? T.ndata k = some col) (hl : col.length = idc.length)
    (hi : ¬ (i < -(idc.length : Int) ∨ i ≥ idc.length)) :
    ∃ T', (tree_getitem_int T i).bind (fun n => tnode_setitem n k x) = some (⟨T', normKey i idc.length, T.names⟩, ()) ∧
      T'.names = T.names ∧
      ∀ k', Py.Dict.get? T'.ndata k' = if k' = k then some (col.set (normKey i idc.length).toNat x) else Py.Dict.get? T.ndata k' :=
  ⟨written T k col (normKey i idc.length).toNat x, RefineViews.node_write_through T k col idc x i hid hk hl hi, rfl,
    fun k' => written_get T k k' col _ x⟩

/-- … and is read back through every view of that owner (`idx` in range): `x` at the positions that refer to the written row -/
theorem generated_write_then_view_read (T : DictSWC) (k : String) (col : List Int) (j : Nat) (x : Int) (idx : List Int) (nm : SWCNames)
    (hr : InRange idx col.length) :
    path_get_ndata ⟨written T k col j x, idx, nm⟩ k = some (idx.map fun i => if i.toNat = j then x else col.getD i.toNat 0) ∧
    ∀ k', k' ≠ k → path_get_ndata ⟨written T k col j x, idx, nm⟩ k' = path_get_ndata ⟨T, idx, nm⟩ k' :=
  ⟨RefineViews.write_then_view_read T k col j x idx nm hr, fun k' h => RefineViews.write_frame T k k' col j x idx nm h⟩

/-- a store through a node handle of a PATH / BRANCH is lost (the code that exists: `Path.get_ndata` is a fancy index, a new array) -/
theorem generated_path_node_write_lost (n : PNode) (k : String) (x : Int) (r : PNode × Unit) (h : pnode_setitem n k x = some r) : r.1 = n :=
  pnode_setitem_lost n k x r h

/-! ## detach / copy -/

/-- `path.detach()`: positions `0 .. n-1` over a new object whose id / pid are `0 .. n-1` / `-1 .. n-2` and whose every other column is
the path's column; read through the detached path, every such column is equal to what the path reported -/
theorem generated_detach (T : DictSWC) (idx : List Int) (nm : SWCNames) (idc : List Int)
    (hid : Py.Dict.get? T.ndata nm.id = some idc) (hri : InRange idx idc.length)
    (hall : ∀ k ∈ Py.Dict.keys T.ndata, (path_get_ndata ⟨T, idx, nm⟩ k).isSome) :
    ∃ D, path_detach ⟨T, idx, nm⟩ = some ⟨⟨D, nm⟩, arangeL idx.length, nm⟩ ∧
      Py.Dict.get? D nm.pid = some (pidL idx.length) ∧ (nm.id ≠ nm.pid → Py.Dict.get? D nm.id = some (arangeL idx.length)) ∧
      ∀ key gk, key ≠ nm.id → key ≠ nm.pid → path_get_ndata ⟨T, idx, nm⟩ key = some gk →
        Py.Dict.get? D key = some gk ∧ path_get_ndata ⟨⟨D, nm⟩, arangeL idx.length, nm⟩ key = some gk := by
  have hg := path_get_ndata_spec T idx nm nm.id idc hid hri
  obtain ⟨D, h1, h2⟩ := path_detach_eq ⟨T, idx, nm⟩ _ hg hall
  simp only [gather_length] at h1 h2
  refine ⟨D, h1, by simp [h2], fun hne => by simp [h2, hne], fun key gk n1 n2 hk => ?_⟩
  have hmem : key ∈ Py.Dict.keys T.ndata := by
    rw [path_get_ndata_eq] at hk
    cases hc : Py.Dict.get? T.ndata key with
    | none => simp [hc] at hk
    | some col =>
      by_cases hm : key ∈ Py.Dict.keys T.ndata
      · exact hm
      · rw [Py.Dict.get?_none_of_not_mem T.ndata key (by simpa [Py.Dict.keys] using hm)] at hc
        cases hc
  have hD : Py.Dict.get? D key = path_get_ndata ⟨T, idx, nm⟩ key := by simp [h2, n1, n2, hmem]
  exact ⟨by rw [hD, hk], detach_equal_content ⟨T, idx, nm⟩ _ D idx.length rfl rfl key gk hD hk⟩

/-- `tree.copy()` has equal content (as a value; fresh storage is the stated aliasing assumption, observed by `np.shares_memory`) -/
theorem generated_copy (T : DictSWC) : swc_copy T = some T := swc_copy_eq T

/-! ## segments -/

/-- **a branch's segments are its consecutive node pairs**: `branch.get_compartments()` has one member per position `1 .. n-1`, and for
every column the members report, in order, exactly the consecutive pairs of the branch's column -/
theorem generated_branch_segments (T : DictSWC) (idx : List Int) (nm : SWCNames) (key : String) (col idc : List Int)
    (hid : Py.Dict.get? T.ndata nm.id = some idc) (hri : InRange idx idc.length)
    (hk : Py.Dict.get? T.ndata key = some col) (hr : InRange idx col.length) :
    ∃ cs, branch_get_compartments ⟨T, idx, nm⟩ = some cs ∧
      cs.map (fun c => ppath_get_ndata c key) = ((gather col idx).zip ((gather col idx).drop 1)).map fun p => some [p.1, p.2] := by
  have hg := path_get_ndata_spec T idx nm nm.id idc hid hri
  have hgk := path_get_ndata_spec T idx nm key col hk hr
  refine ⟨_, branch_get_compartments_eq ⟨T, idx, nm⟩ _ hg, ?_⟩
  rw [← consecutive_pairs, List.map_map, List.map_map]
  simp only [gather_length]
  apply List.map_congr_left
  intro i hi
  simp only [Py.range2, List.mem_map, List.mem_range] at hi
  obtain ⟨a, ha, rfl⟩ := hi
  simp only [Function.comp]
  exact branch_compartment_read ⟨T, idx, nm⟩ key _ hgk nm _ (by simp only [gather_length]; omega)

/-- **a tree's segments are its (parent, child) pairs**: `tree.get_compartments()` has one member per row `1 .. n-1`, in order, over the
tree itself, with index array `[pid[i], id[i]]`; as pairs these are `zip(pid, id)[1:]` (what the heap model's `segments` returns) -/
theorem generated_tree_segments (T : DictSWC) (pidc idc : List Int) (hp : Py.Dict.get? T.ndata T.names.pid = some pidc)
    (hi : Py.Dict.get? T.ndata T.names.id = some idc) (hl : pidc.length = idc.length) :
    ∃ cs, tree_get_compartments T = some cs ∧ (∀ c ∈ cs, c.attach = T) ∧
      cs.map (fun c => c.idx) = ((pidc.zip idc).drop 1).map fun p => [p.1, p.2] := by
  refine ⟨_, tree_get_compartments_eq T pidc idc hp hi hl, by simp, ?_⟩
  apply List.ext_getElem
  · simp [hl]
  · intro k h1 h2
    simp at h1 h2 ⊢
    simp [List.getD, show k + 1 < pidc.length by omega, show k + 1 < idc.length by omega, Nat.add_comm 1 k]

/-! ## non-vacuity (kernel-evaluated on the generated definitions) -/
def exT : DictSWC := ⟨[("id", [0, 1, 2, 3]), ("pid", [-1, 0, 1, 1]), ("x", [5, 6, 7, 8])], ⟨"id", "pid"⟩⟩
def exP : Path := ⟨exT, [1, 3, 0], ⟨"id", "pid"⟩⟩
example : path_get_ndata exP "x" = some [6, 8, 5] := by decide +kernel
example : (path_getitem_int exP (-1)).bind (pnode_getitem · "x") = some 5 := by decide +kernel
example : path_getitem_int exP 3 = none ∧ path_getitem_int exP (-4) = none := by decide +kernel
example : (path_getitem_slice exP (none, none, some (-1))).map (·.map (·.idx)) = some [2, 1, 0] := by decide +kernel
example : (path_getitem_slice exP (some (-2), some 9, none)).map (·.map (·.idx)) = some [1, 2] := by decide +kernel
example : path_getitem_slice exP (none, none, some 0) = none := by decide +kernel
example : ((tree_getitem_int exT (-1)).bind (tnode_setitem · "x" 80)).bind (fun r => path_get_ndata ⟨r.1.attach, [1, 3, 0], ⟨"id", "pid"⟩⟩ "x")
    = some [6, 80, 5] := by decide +kernel
example : ((path_getitem_int exP 1).bind (pnode_setitem · "x" 80)).map (·.1.attach.attach) = some exT := by decide +kernel
example : (path_detach exP).bind (fun p => (path_get_ndata p "x").bind fun a => (path_get_ndata p "id").bind fun b =>
    (path_get_ndata p "pid").map fun c => (a, b, c)) = some ([6, 8, 5], [0, 1, 2], [-1, 0, 1]) := by decide +kernel
example : (branch_get_compartments exP).map (·.map (ppath_get_ndata · "id")) = some [some [1, 3], some [3, 0]] := by decide +kernel
example : (tree_get_compartments exT).map (·.map (·.idx)) = some [[0, 1], [1, 2], [1, 3]] := by decide +kernel

end C09
