import SwcVerif.Props.C18GenRepair
import SwcVerif.Refine.Ctor
/-! # C18, the spellings users call, tied to the source by the translator

`Gen.Algo.is_binary_tree`, `check_single_root` (deprecated spellings in `swc_utils/checker.py`) and the copying spellings
`mark_roots_as_somas`, `reset_index` (`swc_utils/normalizer.py`, through `_copy_and_apply`) are regenerated on every run
(`Gen/AlgoCtor.lean`).  They are proved equal to the translated cores, hence — by the theorems of `C18Gen` / `C18GenRepair` — to the model
predicates; the copying spellings return the model's columns in a NEW frame (the frame condition itself is `C03.generated_*_pure`). -/
namespace C18
open Dsu Gen.Algo RefineCtor Py

/-- **`is_binary_tree(df, exclude_root)` as translated answers the model predicate** on every table with equally long columns … -/
theorem generated_is_binary_tree_eq_model (ids pids : List Int) (hl : ids.length = pids.length) (excl : Bool) :
    is_binary_tree ids pids excl = some (isBifurcate ids pids excl) := by
  rw [is_binary_tree_eq]; exact generated_isBifurcate_eq_model ids pids hl excl

/-- … that is: `True` exactly when no node — other than the roots when they are exempt (the default) — has MORE THAN TWO children
(the source says `len(v) > 2`: a node with one child is accepted) -/
theorem generated_is_binary_tree_correct (ids pids : List Int) (hl : ids.length = pids.length) (excl : Bool) :
    ∃ b, is_binary_tree ids pids excl = some b ∧
      (b = true ↔ ∀ k : Int, k ≠ -1 → ¬ (excl = true ∧ k ∈ tableKids ids pids (-1)) → (tableKids ids pids k).length ≤ 2) :=
  ⟨_, generated_is_binary_tree_eq_model ids pids hl excl, isBifurcate_correct ids pids excl⟩

example : is_binary_tree [0, 1, 2, 3, 4] [-1, 0, 0, 0, 1] true = some true ∧ is_binary_tree [0, 1, 2, 3, 4] [-1, 0, 0, 0, 1] false = some false ∧
          is_binary_tree [0, 1, 2, 3, 4, 5] [-1, 0, 1, 1, 1, 0] true = some false := by decide +kernel

/-- **`check_single_root(df)` as translated is the model `isSingleRoot`** on every table with distinct ids -/
theorem generated_check_single_root_eq_model (ids pids : List Int) (hnd : ids.Nodup) (hl : ids.length = pids.length) :
    check_single_root (ids.length * ids.length + 2) ids pids = isSingleRoot ids pids := by
  rw [check_single_root_eq]; exact generated_isSingleRoot_eq_model ids pids hnd hl

/-- … and answers "one weakly connected component" on EVERY table whose parents name rows (cycles included) -/
theorem generated_check_single_root_total (pids : List Int) (hpos : 0 < pids.length)
    (hv : ∀ k (h : k < pids.length), pids[k] = -1 ∨ (0 ≤ pids[k] ∧ pids[k] < pids.length)) :
    ∃ b, check_single_root (pids.length * pids.length + 2) (rowIds pids.length) pids = some b ∧
      (b = true ↔ ∀ x y, x < pids.length → y < pids.length → WConn pids.length (ptr pids) x y) := by
  obtain ⟨b, hb, hiff⟩ := generated_isSingleRoot_total pids hpos hv
  exact ⟨b, by rw [check_single_root_eq]; exact hb, hiff⟩

example : check_single_root 27 (rowIds 5) [1, 2, 0, 1, -1] = some false ∧ check_single_root 27 (rowIds 5) [1, 2, 0, 1, 3] = some true := by
  decide +kernel

/-- **`mark_roots_as_somas(df, update_type)` as translated**: on a valid reference to a frame with equally long columns and a root it returns a
NEW frame (the heap is extended by one object, nothing else changes) holding the MODEL's parent and type columns — by `C18.repair_somas` a
single-rooted table that keeps the first root and every original edge; ids and radii are those of the input -/
theorem generated_mark_roots_as_somas_eq_model (heap : Frames) (df : Int) (fr : Frame) (ut : Option Int)
    (hd : Frames.get? heap df = some fr) (h1 : fr.ids.length = fr.pids.length) (hr : (-1 : Int) ∈ fr.pids) :
    mark_roots_as_somas heap df ut =
      some (heap ++ [{ fr with pids := (markRootsAsSomas fr.ids fr.pids fr.types ut).1, types := (markRootsAsSomas fr.ids fr.pids fr.types ut).2 }],
            (heap.length : Int)) := by
  rw [mark_roots_as_somas_eq, hd]
  simp only [Option.bind_some, somasP, generated_markRoots_eq_model fr.ids fr.pids fr.types ut h1 hr, Option.map_some]

/-- **`reset_index(df)` as translated**: a NEW frame with every id shifted by the first root's id and every parent too, except the `-1` of
every root; types and radii are those of the input -/
theorem generated_reset_index_copy (heap : Frames) (df : Int) (fr : Frame)
    (hd : Frames.get? heap df = some fr) (h1 : fr.ids.length = fr.pids.length) (hr : (-1 : Int) ∈ fr.pids) :
    reset_index heap df =
      some (heap ++ [{ fr with ids := fr.ids.map (fun i => i - fr.ids.getD (firstRootLoc fr.pids) 0),
                               pids := fr.pids.map (fun p => if p = -1 then -1 else p - fr.ids.getD (firstRootLoc fr.pids) 0) }],
            (heap.length : Int)) := by
  rw [reset_index_eq, hd]
  simp only [Option.bind_some, resetP, generated_resetIndex fr.ids fr.pids h1 hr, Option.map_some]

example : mark_roots_as_somas [⟨[5, 6, 7, 9], [-1, 5, -1, 7], [1, 3, 3, 3], [4, 4, 4, 4]⟩] 0 (some 1) =
    some ([⟨[5, 6, 7, 9], [-1, 5, -1, 7], [1, 3, 3, 3], [4, 4, 4, 4]⟩, ⟨[5, 6, 7, 9], [-1, 5, 5, 7], [1, 3, 3, 3], [4, 4, 4, 4]⟩], 1) := by
  decide +kernel

end C18
