import SwcVerif.Props.C19Gen
import SwcVerif.Refine.PopFront
import SwcVerif.Refine.SliceSpec
/-! # C19, the front end, tied to the source by the translator

`Gen.Algo.pop_* / nestl_* / pops_* / popsl_*` (Gen/AlgoPopFront.lean) are regenerated from `swcgeom/core/population.py` on every run:
`Population.__init__ / __getitem__ (int, slice) / __len__ / __iter__`, `NestTrees` over a lazy container, `Populations.__init__ /
__getitem__ / __len__ / to_population / from_swc`.  The theorems below are about these generated definitions. -/
namespace C19
open Pop Gen.Algo RefinePop RefinePopFront

theorem get_eq (l : Lazy) (key : Int) : l.get key = (getIdx key l.len).map fun k => (l.load k, k) := rfl

/-- **`Population[i]` as translated, for every int `i`**: on a population over `n` files (any cache state `l`), `-n ≤ i < n` returns
the tree of file `i` (of file `i + n` for a negative `i`) — the element `_get_idx i` of the container —, reading that file iff its slot
was empty; every other `i` raises IndexError and changes nothing -/
theorem generated_pop_getitem {g : LazyLoadingTrees} {l : Lazy} (h : LRep g l) (root : String) (i : Int) :
    (-(l.len : Int) ≤ i ∧ i < l.len →
      ∃ g', pop_getitem_int readLog ⟨g, root⟩ i (castL l.log) =
          some (⟨g', root⟩, castL (l.load (if i < 0 then i + l.len else i).toNat).log, some (if i < 0 then i + l.len else i)) ∧
        LRep g' (l.load (if i < 0 then i + l.len else i).toNat)) ∧
    (¬ (-(l.len : Int) ≤ i ∧ i < l.len) → pop_getitem_int readLog ⟨g, root⟩ i (castL l.log) = none) := by
  have hr := pop_getitem_int_refines h root i
  rw [get_eq] at hr
  constructor
  · intro ⟨h1, h2⟩
    have hb : (i < -(l.len : Int) || i ≥ (l.len : Int)) = false := by
      rw [Bool.or_eq_false_iff]; constructor <;> simp <;> omega
    have hg : getIdx i l.len = some (if i < 0 then i + l.len else i).toNat := by simp [getIdx, hb]
    simp only [hg, Option.map_some] at hr
    obtain ⟨g', e, r'⟩ := hr
    refine ⟨g', ?_, r'⟩
    rw [e]
    have : (((if i < 0 then i + (l.len : Int) else i).toNat : Nat) : Int) = if i < 0 then i + (l.len : Int) else i := by
      split <;> omega
    rw [this]
  · intro hn
    have hb : (i < -(l.len : Int) || i ≥ (l.len : Int)) = true := by
      rw [Bool.or_eq_true]; simp; omega
    have hg : getIdx i l.len = none := by simp [getIdx, hb]
    simpa [hg] using hr

/-! ## every history of int / slice accesses through the front end -/

/-- an access through the front end: `pop[key]`, or `pop[a:b:c][key]` -/
inductive FOp where
  | get (key : Int)
  | slice (s : Py.PF.Slice) (key : Int)
deriving Repr

/-- run a history on the GENERATED front end, threading the read log.  A slice holds THE SAME container object as the population
(Python shares it by reference); the generated definitions return updated copies, so after an access through the slice the population
continues with the slice's container.  Collects what each access returns (`none` = IndexError / ValueError). -/
def frontStep (p : Population) (log : List Int) : FOp → (Population × List Int) × Option (Option Int)
  | .get key =>
    match pop_getitem_int readLog p key log with
    | none => ((p, log), none)
    | some (p', log', t) => ((p', log'), some t)
  | .slice s key =>
    match pop_getitem_slice p s with
    | none => ((p, log), none)
    | some sl =>
      match nestl_getitem readLog sl key log with
      | none => ((p, log), none)
      | some (sl', log', t) => (({ p with trees := sl'.trees }, log'), some t)

section
attribute [local irreducible] pop_getitem_int pop_getitem_slice nestl_getitem
theorem frontStep_get (p : Population) (log : List Int) (key : Int) :
    frontStep p log (.get key) = match pop_getitem_int readLog p key log with
      | none => ((p, log), none)
      | some (p', log', t) => ((p', log'), some t) := rfl
theorem frontStep_slice (p : Population) (log : List Int) (s : Py.PF.Slice) (key : Int) :
    frontStep p log (.slice s key) = match pop_getitem_slice p s with
      | none => ((p, log), none)
      | some sl =>
        match nestl_getitem readLog sl key log with
        | none => ((p, log), none)
        | some (sl', log', t) => (({ p with trees := sl'.trees }, log'), some t) := rfl

end

def genFront (p : Population) (log : List Int) : List FOp → List (Option (Option Int)) × List Int
  | [] => ([], log)
  | op :: ops =>
    let r := frontStep p log op
    let rest := genFront r.1.1 r.1.2 ops
    (r.2 :: rest.1, rest.2)

theorem get_inv (l : Lazy) (j : Int) (l' : Lazy) (k : Nat) (h : LInv l) (hg : l.get j = some (l', k)) : LInv l' := by
  rw [get_eq] at hg
  cases hk : getIdx j l.len with
  | none => simp [hk] at hg
  | some k' =>
    simp only [hk, Option.map_some, Option.some.injEq, Prod.mk.injEq] at hg
    rw [← hg.1]; exact load_inv l k' h

/-- one access keeps the representation and the no-repetition invariant -/
theorem frontStep_inv (op : FOp) (g : LazyLoadingTrees) (root : String) (l : Lazy) (h : LRep g l) (hi : LInv l) :
    ∃ g' l', (frontStep ⟨g, root⟩ (castL l.log) op).1 = (⟨g', root⟩, castL l'.log) ∧ LRep g' l' ∧ LInv l' := by
  cases op with
  | get key =>
    have hr := pop_getitem_int_refines h root key
    cases hk : l.get key with
    | none =>
      simp only [hk] at hr
      exact ⟨g, l, by rw [frontStep_get, hr], h, hi⟩
    | some r =>
      obtain ⟨l', k⟩ := r
      simp only [hk] at hr
      obtain ⟨g', e, r'⟩ := hr
      exact ⟨g', l', by rw [frontStep_get, e], r', get_inv l key l' k hi hk⟩
  | slice s key =>
    have hs := pop_getitem_slice_refines h root s
    cases hidx : (Py.PF.sliceIndices s (l.len : Int)).bind Py.PF.range3 with
    | none =>
      rw [hidx] at hs
      simp only [Option.map_none] at hs
      exact ⟨g, l, by rw [frontStep_slice, hs], h, hi⟩
    | some idx =>
      rw [hidx] at hs
      simp only [Option.map_some] at hs
      have hn := nestl_getitem_refines h idx key
      cases hj : Py.idx idx key with
      | none =>
        simp only [hj] at hn
        exact ⟨g, l, by rw [frontStep_slice, hs]; simp only [hn], h, hi⟩
      | some j =>
        cases hk : l.get j with
        | none =>
          simp only [hj, hk] at hn
          exact ⟨g, l, by rw [frontStep_slice, hs]; simp only [hn], h, hi⟩
        | some r =>
          obtain ⟨l', k⟩ := r
          simp only [hj, hk] at hn
          obtain ⟨g', e, r'⟩ := hn
          exact ⟨g', l', by rw [frontStep_slice, hs]; simp only [e], r', get_inv l j l' k hi hk⟩

theorem genFront_nodup : ∀ (ops : List FOp) (g : LazyLoadingTrees) (root : String) (l : Lazy), LRep g l → LInv l →
    (genFront ⟨g, root⟩ (castL l.log) ops).2.Nodup := by
  intro ops
  induction ops with
  | nil =>
    intro g root l _ hi
    simp only [genFront, castL]
    exact List.Pairwise.map _ (fun a b hab c => hab (Int.ofNat.inj c)) hi.1
  | cons op ops ih =>
    intro g root l h hi
    obtain ⟨g', l', e, r', hi'⟩ := frontStep_inv op g root l h hi
    show (genFront (frontStep ⟨g, root⟩ (castL l.log) op).1.1 (frontStep ⟨g, root⟩ (castL l.log) op).1.2 ops).2.Nodup
    rw [e]
    exact ih g' root l' r' hi'

/-- **each file is read at most once through the front end, for every history — by the code as translated**: build
`Population(LazyLoadingTrees(n files))` with the generated constructor (it probes file 0), then access it through any sequence of
`pop[i]` and `pop[a:b:c][k]` (any ints, any slices, valid or not): the read log has no repetition, and the constructor read nothing but
the probe (`populationInit`) -/
theorem generated_front_load_at_most_once (n : Nat) (root : String) (p0 : Population) (ops : List FOp) :
    ∃ p, pop_init readLog p0 (genInit n) root [] = some (p, castL (populationInit n).log, ()) ∧
      (genFront p (castL (populationInit n).log) ops).2.Nodup := by
  obtain ⟨g', e, r'⟩ := pop_init_refines (genInit_rep n) p0 root
  have h0 : castL (Lazy.init n).log = [] := by simp [Lazy.init, castL]
  have hp : (if (Lazy.init n).len > 0 then (Lazy.init n).load 0 else Lazy.init n) = populationInit n := by
    simp [populationInit, init_len]
  rw [h0, hp] at e
  rw [hp] at r'
  exact ⟨⟨g', root⟩, e, genFront_nodup ops g' root _ r' (popInit_inv n)⟩

/-- non-vacuity (kernel-evaluated): 5 files; the probe, a reversed slice, a strided slice, an out-of-range slice element, ints -/
example : (pop_init readLog default (genInit 5) "" []).map (fun r =>
      genFront r.1 r.2.1 [.get 2, .slice (none, none, some (-1)) 0, .slice (some 1, some 4, some 2) 1, .slice (some 1, some 4, some 2) 5,
        .get (-1), .get 7, .slice (none, none, some 0) 0]) =
    some ([some (some 2), some (some 4), some (some 3), none, some (some 4), none, none], [0, 2, 4, 3]) := by decide +kernel

end C19

namespace C19
open Pop Gen.Algo RefinePop RefinePopFront

/-! ## slices -/

/-- the sub-sequence of `0 .. n-1` that `[a:b:c]` designates, written independently of `slice.indices` as a set-builder over
`range(n)`: for a positive step the positions `lo ≤ i < hi` with `step ∣ i - lo` in ascending order, for a negative step the positions
`hi < i ≤ lo` with `step ∣ lo - i` in descending order (`lo`, `hi`: the bounds counted from the end when negative, cut to the list) -/
def sliceSpec (n : Nat) (a b c : Option Int) : Option (List Int) :=
  let step := c.getD 1
  let norm := fun (x : Int) => if x < 0 then x + n else x
  if step = 0 then none
  else if step > 0 then
    let lo : Int := match a with | none => 0 | some a => max 0 (min n (norm a))
    let hi : Int := match b with | none => n | some b => max 0 (min n (norm b))
    some ((Py.range n).filter fun i => decide (lo ≤ i ∧ i < hi ∧ (i - lo) % step = 0))
  else
    let lo : Int := match a with | none => (n : Int) - 1 | some a => max (-1) (min ((n : Int) - 1) (norm a))
    let hi : Int := match b with | none => -1 | some b => max (-1) (min ((n : Int) - 1) (norm b))
    some (((Py.range n).filter fun i => decide (hi < i ∧ i ≤ lo ∧ (lo - i) % (-step) = 0)).reverse)

theorem clamp_pos (x n : Int) (hn : 0 ≤ n) :
    Py.PF.sliceClamp x n 0 n = max 0 (min n (if x < 0 then x + n else x)) := by
  unfold Py.PF.sliceClamp; split_ifs <;> omega

theorem clamp_neg (x n : Int) (hn : 0 ≤ n) :
    Py.PF.sliceClamp x n (-1) (n - 1) = max (-1) (min (n - 1) (if x < 0 then x + n else x)) := by
  unfold Py.PF.sliceClamp; split_ifs <;> omega

/-- **`range(*slice(a, b, c).indices(n))` is the designated sub-sequence, for EVERY length, bounds and step**: CPython's clamping
algorithm followed by the arithmetic progression equals the independent set-builder `sliceSpec` (positions between the normalised
bounds on the step lattice, ascending / descending); step 0 raises on both sides.  (`RefineSlice.up_eq` / `down_eq`: two strictly
monotone lists with the same members are equal.) -/
theorem slice_indices_eq_spec (n : Nat) (a b c : Option Int) :
    (Py.PF.sliceIndices (a, b, c) (n : Int)).bind Py.PF.range3 = sliceSpec n a b c := by
  open RefineSlice in
  have hn0 : (0 : Int) ≤ n := by omega
  simp only [Py.PF.sliceIndices, sliceSpec]
  by_cases h0 : c.getD 1 = 0
  · simp [h0]
  · have hn : ¬ ((n : Int) < 0) := by omega
    simp only [h0, hn, or_self, if_false, Option.bind_some, Py.PF.range3]
    by_cases hp : c.getD 1 > 0
    · have hneg : ¬ (c.getD 1 < 0) := by omega
      simp only [hp, hneg, if_true, if_false]
      congr 1
      cases a <;> cases b <;> simp only [clamp_pos _ _ hn0] <;> exact RefineSlice.up_eq _ _ _ _ hp (by omega) (by omega)
    · have hneg : c.getD 1 < 0 := by omega
      simp only [hp, hneg, if_true, if_false]
      congr 1
      have e : ∀ (k : Nat) (lo : Int), lo + (k : Int) * c.getD 1 = lo + (k : Int) * (-(-(c.getD 1))) := by intro k lo; ring
      cases a <;> cases b <;> simp only [clamp_neg _ _ hn0, e] <;>
        exact RefineSlice.down_eq _ _ _ _ (by omega) (by omega) (by omega)

/-- **`Population[a:b:c]` as translated**: for every population state and every slice, the result is the `NestTrees` over the
population's own container whose index list is THE SUB-SEQUENCE OF `0 .. len-1` THE SLICE DESIGNATES (`sliceSpec`, written without
`slice.indices`; ValueError for step 0), and `[k]` on it is the CONTAINER's `__getitem__` on the k-th entry (negative `k` wrap,
IndexError outside) — so every read goes through the lazy cache (`generated_front_load_at_most_once`). -/
theorem generated_pop_slice {g : LazyLoadingTrees} {l : Lazy} (h : LRep g l) (root : String) (s : Py.PF.Slice) :
    pop_getitem_slice ⟨g, root⟩ s = (sliceSpec l.len s.1 s.2.1 s.2.2).map (fun idx => ⟨g, idx⟩) ∧
    ∀ idx key, (match Py.idx idx key with
       | none => nestl_getitem readLog ⟨g, idx⟩ key (castL l.log) = none
       | some j => match l.get j with
         | none => nestl_getitem readLog ⟨g, idx⟩ key (castL l.log) = none
         | some (l', k) => ∃ g', nestl_getitem readLog ⟨g, idx⟩ key (castL l.log) = some (⟨g', idx⟩, castL l'.log, some (k : Int)) ∧ LRep g' l') := by
  refine ⟨?_, fun idx key => nestl_getitem_refines h idx key⟩
  rw [pop_getitem_slice_refines h root s]
  obtain ⟨a, b, c⟩ := s
  rw [slice_indices_eq_spec]

/-- non-vacuity (kernel-evaluated): `range(7)[5:0:-2]` and `range(7)[-100:4:3]` -/
example : sliceSpec 7 (some 5) (some 0) (some (-2)) = some [5, 3, 1] ∧ sliceSpec 7 (some (-100)) (some 4) (some 3) = some [0, 3] := by
  decide +kernel

def boxOpts : List (Option Int) := none :: ((List.range 11).map fun (k : Nat) => some ((k : Int) - 5))
def boxSteps : List (Option Int) := [none, some 1, some 2, some 3, some (-1), some (-2), some (-3), some 0]

/-- the same equality evaluated by the kernel on a box (a TEST of the two definitions, kept from before the theorem was proved) -/
example : ((List.range 5).all fun n => boxOpts.all fun a => boxOpts.all fun b => boxSteps.all fun c =>
    decide ((Py.PF.sliceIndices (a, b, c) (n : Int)).bind Py.PF.range3 = sliceSpec n a b c)) = true := by decide +kernel

/-! ## chaining: `Populations.to_population` -/

/-- **`Populations.to_population()` as translated** (populations over lists of trees): it succeeds, the chained population has length
Σ, and its `[key]` is `ChainTrees.__getitem__` over the members in order — by `generated_chain_getitem` the element the model's
(member, local index) designates, IndexError exactly when the model raises -/
theorem generated_to_population (ps : PopulationsL) :
    let trees := ps.populations.map (·.trees)
    ∃ c : PopChain, popsl_to_population (trees.length + 1) ps = some c ∧
      popc_len c = some ((chainLen (trees.map List.length) : Nat) : Int) ∧
      ∀ key, popc_getitem_int (trees.length + 1) c key =
        (chainGet (trees.map List.length) key).bind (fun mj => (trees[mj.1]?).bind (fun t => t[mj.2]?)) := by
  intro trees
  have hloop : ∀ (xs : List PopList) (v : popsl_to_population.V),
      Py.forEach popsl_to_population.for1 xs v = .next (xs.foldl (fun v x => { v with c0_ := v.c0_ ++ [x.trees], p := x }) v) :=
    Py.forEach_pure _ _ (fun _ _ => rfl)
  have hf : ∀ (xs : List PopList) (v : popsl_to_population.V),
      (xs.foldl (fun (v : popsl_to_population.V) x => { v with c0_ := v.c0_ ++ [x.trees], p := x }) v).c0_ = v.c0_ ++ xs.map (·.trees) := by
    intro xs
    induction xs with
    | nil => intro v; simp
    | cons x xs ih => intro v; simp [ih]
  let c : ChainTrees := ⟨trees, castL (Pop.cumsum (trees.map List.length))⟩
  have hinit := generated_chain_init default trees
  have hlen := generated_chain_len trees
  have hget := generated_chain_getitem trees
  -- the constructor's probe `swcs[0]` succeeds whenever the chain is not empty
  have hprobe : (chainLen (trees.map List.length) : Int) > 0 → ∃ t, chain_getitem (trees.length + 1) c 0 = some t := by
    intro hpos
    have hsum : 0 < (trees.map List.length).sum := by rw [← C19.chain_len]; exact_mod_cast hpos
    obtain ⟨m, j, e, hm, hj, _⟩ := chain_index (trees.map List.length) 0 hsum
    simp only [List.length_map] at hm
    have hj' : j < (trees[m]).length := by simpa [List.getD, hm] using hj
    refine ⟨(trees[m])[j], ?_⟩
    have := hget 0
    have e' : chainGet (trees.map List.length) 0 = some (m, j) := by simpa using e
    rw [this, e']
    simp [hm, hj']
  have hpc : popc_init (trees.length + 1) default c "" = some (⟨c, ""⟩, ()) := by
    by_cases hpos : (chainLen (trees.map List.length) : Int) > 0
    · obtain ⟨t, ht⟩ := hprobe hpos
      have hneN : ¬ chainLen (trees.map List.length) = 0 := by omega
      simp [popc_init, popc_init.body, Py.seq, Py.skip, Py.bind, c, hlen, ht, hneN, Py.finish]
    · have h0N : chainLen (trees.map List.length) = 0 := by omega
      simp [popc_init, popc_init.body, Py.seq, Py.bind, c, hlen, h0N, Py.finish]
  refine ⟨⟨c, ""⟩, ?_, ?_, ?_⟩
  · have hc0 : ([] : List (List Int)) ++ ps.populations.map (·.trees) = trees := by simp [trees]
    simp only [popsl_to_population, popsl_to_population.body, Py.seq, Py.bindS]
    rw [hloop]
    have hpc' : popc_init (trees.length + 1) default ⟨trees, castL (Pop.cumsum (trees.map List.length))⟩ "" =
        some (⟨⟨trees, castL (Pop.cumsum (trees.map List.length))⟩, ""⟩, ()) := hpc
    simp only [hf, hc0, Py.bind, hinit, hpc', Py.finish, Option.map]
    rfl
  · simp [popc_len, popc_len.body, Py.bind, c, hlen, Py.finish]
  · intro key
    simp only [popc_getitem_int, popc_getitem_int.body, Py.seq, Py.skip, Py.bind]
    rw [← hget key]
    cases chain_getitem (trees.length + 1) c key <;> simp [c, Py.finish]

/-- non-vacuity (kernel-evaluated): three populations of 2, 0, 3 trees -/
example : (popsl_to_population 4 ⟨0, [⟨[10, 11], ""⟩, ⟨[], ""⟩, ⟨[30, 31, 32], ""⟩], []⟩).map
      (fun c => (popc_len c, [0, 1, 2, 4, -1, 5, -6].map (popc_getitem_int 4 c))) =
    some (some 5, [some 10, some 11, some 30, some 32, some 32, none, none]) := by decide +kernel

end C19
