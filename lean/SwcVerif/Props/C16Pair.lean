import SwcVerif.Model.Mst
import SwcVerif.Proofs.Mst
import Mathlib.Data.List.Perm.Subperm
import Mathlib.Data.List.Nodup
import Mathlib.Tactic.Linarith
/-! # C16 — the re-assembly pairs every resampled branch with its own end node

`BranchTreeAssembler.pair` matches the branches that start at a node with that node's children greedily by
distance.  If every branch ends exactly at one child (distance 0 — the resamplers keep the end points) and
distinct children lie at distinct places (all other distances positive), the greedy loop returns exactly
that matching: every branch once, each with its own child — whatever the order of branches and children.
(Sister branches that end at the SAME point are outside this statement; there any pairing is right and the
oracle checks the result.) -/
set_option linter.unusedVariables false
namespace C16
open Mst

def pmask (s : PairSt) (i j : Nat) : Bool := s.rows.getD i false || s.cols.getD j false
def pcost (dis : List (List Rat)) (i j : Nat) : Rat := (dis.getD i []).getD j 0

theorem pairArgmin_eq (dis : List (List Rat)) (s : PairSt) (m : Nat) :
    pairArgmin dis s m = match (cells m).foldl (pick (pmask s) (pcost dis)) none with
      | none => (0, 0)
      | some (_, i, j) => (i, j) := rfl

/-- if some cell is still finite, the round picks a finite cell of least distance -/
theorem pairArgmin_spec (dis : List (List Rat)) (s : PairSt) (m : Nat)
    (hex : ∃ i j, i < m ∧ j < m ∧ pmask s i j = false) :
    (pairArgmin dis s m).1 < m ∧ (pairArgmin dis s m).2 < m ∧
    pmask s (pairArgmin dis s m).1 (pairArgmin dis s m).2 = false ∧
    ∀ i j, i < m → j < m → pmask s i j = false →
      pcost dis (pairArgmin dis s m).1 (pairArgmin dis s m).2 ≤ pcost dis i j := by
  have hg := good_foldl (pmask s) (pcost dis) (cells m) [] none (by simp [Good])
  rw [pairArgmin_eq]
  simp only [List.nil_append] at hg
  match hb : (cells m).foldl (pick (pmask s) (pcost dis)) none, hg with
  | none, hg =>
    obtain ⟨i, j, hi, hj, ho⟩ := hex
    simp only [Good] at hg
    have := hg (i, j) ((mem_cells m i j).mpr ⟨hi, hj⟩)
    simp [ho] at this
  | some (c, i, j), hg =>
    simp only [Good] at hg
    obtain ⟨h1, h2, h3, h4⟩ := hg
    have := (mem_cells m i j).mp h1
    refine ⟨this.1, this.2, h2, ?_⟩
    intro a b ha hb' ho
    have := h4 (a, b) ((mem_cells m a b).mpr ⟨ha, hb'⟩) ho
    simpa [h3] using this

/-- the loop invariant: the pairs found so far are pairs of the true matching `σ`, and exactly their rows and
columns are switched off -/
structure PInv (σ : Nat → Nat) (m k : Nat) (s : PairSt) : Prop where
  lenr : s.rows.length = m
  lenc : s.cols.length = m
  npairs : s.pairs.length = k
  graph : ∀ p ∈ s.pairs, p.1 < m ∧ p.2 = σ p.1
  rowsIff : ∀ i, i < m → (s.rows.getD i false = true ↔ i ∈ s.pairs.map Prod.fst)
  colsIff : ∀ j, j < m → (s.cols.getD j false = true ↔ j ∈ s.pairs.map Prod.snd)
  nodup : (s.pairs.map Prod.fst).Nodup

/-- a duplicate-free list of numbers below `m` that is shorter than `m` misses one of them -/
private theorem exists_missing (l : List Nat) (m : Nat) (hnd : l.Nodup) (hlt : l.length < m) :
    ∃ i, i < m ∧ i ∉ l := by
  by_contra hall
  have hall' : ∀ i, i < m → i ∈ l := by
    intro i hi
    by_contra hni
    exact hall ⟨i, hi, hni⟩
  have hsub : List.range m ⊆ l := fun i hi => hall' i (List.mem_range.mp hi)
  have := (List.subperm_of_subset List.nodup_range hsub).length_le
  simp at this
  omega

section step
variable (dis : List (List Rat)) (m : Nat) (σ : Nat → Nat)
  (hσ : ∀ i, i < m → σ i < m) (hinj : ∀ a b, a < m → b < m → σ a = σ b → a = b)
  (h0 : ∀ i, i < m → pcost dis i (σ i) = 0) (hpos : ∀ i j, i < m → j < m → j ≠ σ i → 0 < pcost dis i j)
include hσ hinj h0 hpos

theorem pair_step_inv (k : Nat) (s : PairSt) (hi : PInv σ m k s) (hk : k < m) :
    PInv σ m (k + 1) (pairStep dis m s) := by
  -- a branch that is still free, and its own child is free too
  obtain ⟨i, him, hni⟩ := exists_missing (s.pairs.map Prod.fst) m hi.nodup (by simp [hi.npairs]; exact hk)
  have hrow : s.rows.getD i false = false := by
    cases hb : s.rows.getD i false with
    | false => rfl
    | true => exact absurd ((hi.rowsIff i him).mp hb) hni
  have hcol : s.cols.getD (σ i) false = false := by
    cases hb : s.cols.getD (σ i) false with
    | false => rfl
    | true =>
      have := (hi.colsIff (σ i) (hσ i him)).mp hb
      obtain ⟨p, hp, hp2⟩ := List.mem_map.mp this
      obtain ⟨hp1, hpσ⟩ := hi.graph p hp
      have : p.1 = i := hinj p.1 i hp1 him (by rw [← hpσ, hp2])
      exact absurd (this ▸ List.mem_map_of_mem (f := Prod.fst) hp) hni
  obtain ⟨ha, hb, hfree, hmin⟩ := pairArgmin_spec dis s m ⟨i, σ i, him, hσ i him, by unfold pmask; rw [hrow, hcol]; rfl⟩
  set a := (pairArgmin dis s m).1 with ha'
  set b := (pairArgmin dis s m).2 with hb'
  -- the chosen cell is at distance 0, so it is a pair of the true matching
  have hle : pcost dis a b ≤ 0 := by
    have := hmin i (σ i) him (hσ i him) (by unfold pmask; rw [hrow, hcol]; rfl)
    rwa [h0 i him] at this
  have hbσ : b = σ a := by
    by_contra hne
    have := hpos a b ha hb hne
    linarith
  have hfa : s.rows.getD a false = false := by
    simp only [pmask, Bool.or_eq_false_iff] at hfree; exact hfree.1
  have hfb : s.cols.getD b false = false := by
    simp only [pmask, Bool.or_eq_false_iff] at hfree; exact hfree.2
  have hna : a ∉ s.pairs.map Prod.fst := fun h => by
    have := (hi.rowsIff a ha).mpr h
    rw [hfa] at this; exact absurd this (by simp)
  have hst : pairStep dis m s = ⟨s.rows.set a true, s.cols.set b true, s.pairs ++ [(a, b)]⟩ := rfl
  rw [hst]
  refine ⟨by simp [hi.lenr], by simp [hi.lenc], by simp [hi.npairs], ?_, ?_, ?_, ?_⟩
  · intro p hp
    rcases List.mem_append.mp hp with h | h
    · exact hi.graph p h
    · simp at h; subst h; exact ⟨ha, hbσ⟩
  · intro x hx
    simp only [getD_set, List.map_append, List.map_cons, List.map_nil, List.mem_append, List.mem_singleton]
    by_cases hxa : a = x
    · subst hxa; simp [hi.lenr, ha]
    · have : ¬ (a = x ∧ x < s.rows.length) := fun h => hxa h.1
      rw [if_neg this, hi.rowsIff x hx]
      constructor
      · exact Or.inl
      · rintro (h | h)
        · exact h
        · exact absurd h.symm hxa
  · intro y hy
    simp only [getD_set, List.map_append, List.map_cons, List.map_nil, List.mem_append, List.mem_singleton]
    by_cases hyb : b = y
    · subst hyb; simp [hi.lenc, hb]
    · have : ¬ (b = y ∧ y < s.cols.length) := fun h => hyb h.1
      rw [if_neg this, hi.colsIff y hy]
      constructor
      · exact Or.inl
      · rintro (h | h)
        · exact h
        · exact absurd h.symm hyb
  · rw [List.map_append, List.nodup_append]
    refine ⟨hi.nodup, by simp, ?_⟩
    intro x hx y hy
    simp at hy; subst hy
    intro e; subst e; exact hna hx

theorem pair_run_inv : ∀ (r k : Nat) (s : PairSt), PInv σ m k s → k + r ≤ m → PInv σ m (k + r) (pairRun dis m r s)
  | 0, k, s, hi, _ => hi
  | r+1, k, s, hi, hle => by
    have h1 := pair_step_inv dis m σ hσ hinj h0 hpos k s hi (by omega)
    have := pair_run_inv r (k + 1) _ h1 (by omega)
    rw [pairRun]
    have e : k + (r + 1) = k + 1 + r := by omega
    rw [e]; exact this

end step

/-- **the greedy pairing is the true matching**: if every branch ends exactly at one child (`σ`, distance 0)
and all other branch-end / child distances are positive, `pair` returns every branch exactly once, each with
its own child -/
theorem pair_exact (dis : List (List Rat)) (σ : Nat → Nat)
    (hσ : ∀ i, i < dis.length → σ i < dis.length)
    (hinj : ∀ a b, a < dis.length → b < dis.length → σ a = σ b → a = b)
    (h0 : ∀ i, i < dis.length → pcost dis i (σ i) = 0)
    (hpos : ∀ i j, i < dis.length → j < dis.length → j ≠ σ i → 0 < pcost dis i j) :
    (pairGreedy dis).length = dis.length ∧
    (∀ p ∈ pairGreedy dis, p.1 < dis.length ∧ p.2 = σ p.1) ∧
    ((pairGreedy dis).map Prod.fst).Perm (List.range dis.length) := by
  set m := dis.length with hm
  have hinit : PInv σ m 0 ⟨List.replicate m false, List.replicate m false, []⟩ := by
    refine ⟨by simp, by simp, rfl, by simp, ?_, ?_, by simp⟩
    · intro i hi; rw [getD_replicate m i false false hi]; simp
    · intro j hj; rw [getD_replicate m j false false hj]; simp
  have hfin := pair_run_inv dis m σ hσ hinj h0 hpos m 0 _ hinit (by omega)
  rw [Nat.zero_add] at hfin
  have hp : pairGreedy dis = (pairRun dis m m ⟨List.replicate m false, List.replicate m false, []⟩).pairs := rfl
  rw [hp]
  refine ⟨hfin.npairs, hfin.graph, ?_⟩
  -- a duplicate-free list of `m` numbers below `m` is a permutation of `0..m-1`
  have hsub : ∀ x ∈ (pairRun dis m m ⟨List.replicate m false, List.replicate m false, []⟩).pairs.map Prod.fst,
      x ∈ List.range m := by
    intro x hx
    obtain ⟨p, hp', rfl⟩ := List.mem_map.mp hx
    exact List.mem_range.mpr (hfin.graph p hp').1
  have hsp := List.subperm_of_subset hfin.nodup hsub
  exact hsp.perm_of_length_le (by simp [hfin.npairs])

-- non-vacuity: three branches whose ends are the children 1, 0, 2 in that order
example : pairGreedy [[4, 0, 9], [0, 5, 1], [2, 1, 0]] = [(0, 1), (1, 0), (2, 2)] := by decide +kernel

end C16
