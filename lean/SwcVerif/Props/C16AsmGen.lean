import SwcVerif.Props.C16Asm
import SwcVerif.Refine.Assemble
/-! # C16 / C03 — the assembler, tied to the source by the translator

`Gen.Algo.bt_assemble` is regenerated on every run from `swcgeom/transforms/branch_tree.py::BranchTreeAssembler.__call__` (with
`Gen.Algo.node_detach` from `swcgeom/core/node.py::Node.detach` and the translated `Tree.Node.children`): the explicit stack of
(key node, id of its copy), the trimming `br[s:e]`, the in-place re-indexing by `len(nodes) + i`, `br_nodes[0].pid = pid_new`,
`nodes.extend`, `stack.append((c, br_nodes[-1].id))`.  `RefineAsm.assemble_refines` proves that on every input that represents a
rose tree `root : Asm.BT` (`RefineAsm.Rep`: the children of every key node in the order in which the `pair` callback returns them,
the sample counts after trimming) it returns the table of the model `Asm.assemble root`.  So the theorems of `Props/C16Asm.lean`
hold for the table THE GENERATED FUNCTION builds. -/
namespace C16Asm
open Asm Gen.Algo RefineAsm

section
variable {σ : Type} [Inhabited σ] (pair : σ → List (List Int) → List Int → σ × List ((List Int) × Int))
  (dupFirst dupLast : List Int → Int → Bool) (ids pids : List Int) (branches : Py.Dict Int (List (List Int)))

/-- **generated = model**: for every branch tree (`root`, any shape), all sample counts and every pairing order, every initial state
of the (stateful) `pair` callback and every fuel ≥ number of key nodes + 1, the translated `BranchTreeAssembler.__call__` returns
the ids `0 .. n-1` and the parent list `Asm.assemble root` -/
theorem generated_assemble_eq_model (root : BT) (s0 : σ) (fuel : Nat) (hf : root.size + 1 ≤ fuel)
    (hrep : Rep pair dupFirst dupLast ids pids branches root 0) :
    ∃ s', bt_assemble pair dupFirst dupLast fuel ids pids branches s0 =
      some (s', ((List.range (assemble root).length).map (fun (k : Nat) => (k : Int)), assemble root)) := by
  obtain ⟨s', e⟩ := assemble_refines pair dupFirst dupLast ids pids branches root s0 fuel hf hrep
  refine ⟨s', ?_⟩
  rw [e, (assemble_eq root).1]
  simp [Nat.add_comm]

/-- **the table the generated assembler builds is a well-formed tree, parents before children**, with one row for the root and, for
every other key node, one for itself and one per sample kept on its branch (`assemble_wf`, `assemble_sorted`, `assemble_length`
transported to the generated function) -/
theorem generated_assemble_wf (root : BT) (s0 : σ) (fuel : Nat) (hf : root.size + 1 ≤ fuel)
    (hrep : Rep pair dupFirst dupLast ids pids branches root 0) :
    ∃ s' nid npid, bt_assemble pair dupFirst dupLast fuel ids pids branches s0 = some (s', (nid, npid)) ∧
      C07.WF npid ∧ npid.length = 1 + weight root ∧ nid = (List.range npid.length).map (fun (k : Nat) => (k : Int)) ∧
      npid.head? = some (-1) ∧ ∀ k (h : k < npid.length), 0 < k → 0 ≤ npid[k] ∧ npid[k] < (k : Int) := by
  obtain ⟨s', e⟩ := generated_assemble_eq_model pair dupFirst dupLast ids pids branches root s0 fuel hf hrep
  exact ⟨s', _, _, e, assemble_wf root, assemble_length root, rfl, (assemble_sorted root).1, (assemble_sorted root).2⟩

/-- **every branch is a chain of its samples between the copies of its two key nodes, in the generated loop** (`branch_is_chain`
transported): when the generated `while` body runs with `(h, sid)` on top of the stack, `h` representing a key node whose kids in
pairing order are `pre ++ k :: post`, and the table built so far is `out`, then it appends, after the rows of the branches to `pre`,
the `k.m + 1` consecutive rows `chainRows sid off k.m` (the first hangs off `sid`, every further one off its predecessor), and pushes
the child paired with `k` together with the id `off + k.m` of the last of these rows (the copy of `k`) -/
theorem generated_branch_is_chain (i : Int) (m : Nat) (pre post : List BT) (k : BT) (h : Int) (sid : Nat) (rest : List (Int × Int))
    (v : bt_assemble.V σ) (out : List Int)
    (hrep : Rep pair dupFirst dupLast ids pids branches (.node i m (pre ++ k :: post)) h)
    (hst : v.stack = rest ++ [(h, (sid : Int))]) (ht : Tab v.nodes out) (hfix : Fix ids pids branches v) :
    let off := out.length + (chains pre sid out.length).1.length
    ∃ prs v1, RepL pair dupFirst dupLast ids pids branches (pre ++ k :: post) h prs ∧
      bt_assemble.while4_body pair dupFirst dupLast v = .next v1 ∧
      v1.nodes.map (·.pid) = out ++ ((chains pre sid out.length).1 ++ chainRows sid off k.m ++ (chains post sid (off + k.m + 1)).1) ∧
      v1.nodes.map (·.id) = (List.range v1.nodes.length).map (fun (k : Nat) => (k : Int)) ∧
      v1.stack = rest ++ List.zip (prs.map (·.2))
        (((chains pre sid out.length).2 ++ (off + k.m) :: (chains post sid (off + k.m + 1)).2).map (fun (k : Nat) => (k : Int))) := by
  intro off
  obtain ⟨prs, v1, hL, _, hb, ht1, hs1, _⟩ := while_step pair dupFirst dupLast ids pids branches i m _ h sid rest v out hrep hst ht hfix
  obtain ⟨b1, b2⟩ := branch_is_chain pre post k sid out.length
  refine ⟨prs, v1, hL, hb, ?_, ?_, ?_⟩
  · rw [ht1.1, b1]
  · rw [ht1.2, ht1.length]
  · rw [hs1, b2]

end

/-! ### non-vacuity (kernel-evaluated): a branch tree with a furcation, three branches of different sample counts, a pairing order
that differs from the order of the children, and a branch whose last sample is NOT a duplicate of its child -/
def exIds : List Int := [0, 1, 2, 3]
def exPids : List Int := [-1, 0, 0, 2]
def exBranches : Py.Dict Int (List (List Int)) := [(0, [[10, 11, 12, 13], [20, 21, 22]]), (2, [[30, 31]])]
/-- `pair` counts its calls; at the root it returns the branch to child 2 first -/
def exPair (s : Nat) (_ : List (List Int)) (cs : List Int) : Nat × List (List Int × Int) :=
  (s + 1, if cs = [1, 2] then [([20, 21, 22], 2), ([10, 11, 12, 13], 1)] else if cs = [3] then [([30, 31], 3)] else [])
def exDupFirst (_ : List Int) (_ : Int) : Bool := true
def exDupLast (br : List Int) (_ : Int) : Bool := br != [30, 31]
def exRoot : BT := .node 0 0 [.node 2 1 [.node 3 1 []], .node 1 2 []]

example : Rep exPair exDupFirst exDupLast exIds exPids exBranches exRoot 0 := by
  simp only [exRoot, Rep, RepL]
  refine ⟨[1, 2], 0, [([20, 21, 22], 2), ([10, 11, 12, 13], 1)], by decide +kernel, by decide +kernel, fun s => rfl, by decide +kernel, ?_,
    by decide +kernel, ?_, trivial⟩
  · exact ⟨[3], 2, [([30, 31], 3)], by decide +kernel, by decide +kernel, fun s => rfl, by decide +kernel,
      ⟨[], 3, [], by decide +kernel, by decide +kernel, fun s => rfl, trivial⟩, trivial⟩
  · exact ⟨[], 1, [], by decide +kernel, by decide +kernel, fun s => rfl, trivial⟩

example : bt_assemble exPair exDupFirst exDupLast 5 exIds exPids exBranches 0 =
    some (4, ([0, 1, 2, 3, 4, 5, 6, 7], assemble exRoot)) := by decide +kernel
example : assemble exRoot = [-1, 0, 1, 0, 3, 4, 2, 6] := by decide +kernel
/-- one unit of fuel less and the generated loop runs out of fuel (an exception in the model of Python) -/
example : bt_assemble exPair exDupFirst exDupLast 4 exIds exPids exBranches 0 = none := by decide +kernel

end C16Asm
