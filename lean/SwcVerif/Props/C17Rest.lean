import SwcVerif.Props.C17Front
import SwcVerif.Props.C07Gen
import SwcVerif.Gen.AlgoMstRest
/-! # C17, the rest of `swcgeom/transforms/mst.py` tied to the source by the translator

`Gen.Algo.cuntz_init` / `Gen.Algo.mst_init` are regenerated on every run from `PointsToCuntzMST.__init__` / `PointsToMST.__init__`,
`Gen.Algo.mst_tail` from the final `if self.sort: t = sort_tree(t)` of `PointsToCuntzMST.__call__` and `Gen.Algo.sort_tree_pub` from
`core/tree_utils.py::sort_tree` (which calls the generated `_sort_tree`, `Gen.Algo.sort_tree_`).

* `generated_cuntz_init` / `generated_mst_init`: what the constructors store, for every value of their parameters.
* `generated_ctor_limit` / `generated_cuntz_ctor`: which `bf` / limit / `exclude_soma` / `sort` the LOOP then sees for every way of SPELLING
  the arguments of `PointsToMST(...)` (positional / keyword `furcations`, the deprecated kf `k_furcations`, defaults, `sort` through
  `**kwargs`) and of `PointsToCuntzMST(...)`. The binding of a spelling to the parameters (`MstArgs.bind`, `CuntzArgs.bind`: Python's call
  protocol with the DEFAULTS of the two `def`s — those are checked against the source on every run by the `defaults` field of the specs in
  harness/algo_specs/17c_mstrest.py, and the suite c17.genrest runs the real constructors under every spelling) is hand-written.
* `generated_tail_sorted` / `generated_call_sorted_spanning`: the tree the USER receives (`sort=True`, the default): the final sort succeeds on
  the parents of the generated `__call__` and returns ids `0…n-1`, a well-formed tree whose parents precede their children, of the same
  size, the type column carried along by the row permutation. -/
namespace C17
open Mst Gen.Algo RefineMst RefineMstFront SortM

/-! ## the constructors -/

/-- **`PointsToCuntzMST.__init__` as generated**: never raises; stores `np.clip(bf, 0, 1)` and the other three parameters unchanged -/
theorem generated_cuntz_init (bf : Rat) (k : Int) (ex sort : Bool) :
    cuntz_init (K := Rat) bf k ex sort = some (Py.clip bf 0 1, k, ex, sort, ()) := rfl

theorem clip_spec (bf : Rat) :
    0 ≤ Py.clip bf 0 1 ∧ Py.clip bf 0 1 ≤ 1 ∧ (0 ≤ bf → bf ≤ 1 → Py.clip bf 0 1 = bf) ∧ (bf < 0 → Py.clip bf 0 1 = 0) ∧
      (1 < bf → Py.clip bf 0 1 = 1) := by
  unfold Py.clip
  refine ⟨?_, ?_, ?_, ?_, ?_⟩ <;> intros <;> (repeat' split) <;> grind

/-- **`PointsToMST.__init__` as generated**: never raises; `bf = 0` (`np.clip(0, 0, 1)`), the limit is the deprecated kf when it is given
(a DeprecationWarning, site 0, is issued) and `furcations` otherwise, `sort` is the `**kwargs` entry when present and the default `True` of
`PointsToCuntzMST.__init__` otherwise -/
theorem generated_mst_init (k : Int) (kf : Option Int) (ex : Bool) (so : Option Bool) :
    mst_init (K := Rat) k kf ex so = some (0, kf.getD k, ex, so.getD true, (if kf.isSome then [0] else []), ()) := by
  cases kf <;> cases so <;> rfl

/-- a call `PointsToMST(...)` as WRITTEN: `furcations` positionally and / or by keyword, the alias, `exclude_soma`, `sort` (in `**kwargs`);
`none` = not written -/
structure MstArgs where
  pos : Option Int := none
  kw : Option Int := none
  kf : Option Int := none
  ex : Option Bool := none
  sort : Option Bool := none

/-- Python's binding of the written arguments to the parameters of `PointsToMST.__init__` (defaults `furcations=2`, `k_furcations=None`,
`exclude_soma=True`); `none` = TypeError (`furcations` given twice) -/
def MstArgs.bind (a : MstArgs) : Option (Int × Option Int × Bool × Option Bool) :=
  if a.pos.isSome && a.kw.isSome then none else some ((a.pos.orElse fun _ => a.kw).getD 2, a.kf, a.ex.getD true, a.sort)

/-- **which parameters the loop sees after `PointsToMST(...)`, for every spelling of the arguments**: `bf = 0`; the limit is the alias if
written, else the positional / keyword `furcations` if written, else 2; `exclude_soma` / `sort` are the written values, else `True` -/
theorem generated_ctor_limit (a : MstArgs) (h : ¬ (a.pos.isSome ∧ a.kw.isSome)) :
    ∃ p, a.bind = some p ∧
      mst_init (K := Rat) p.1 p.2.1 p.2.2.1 p.2.2.2 =
        some (0, (a.kf.orElse fun _ => a.pos.orElse fun _ => a.kw).getD 2, a.ex.getD true, a.sort.getD true,
          (if a.kf.isSome then [0] else []), ()) := by
  obtain ⟨pos, kw, kf, ex, sort⟩ := a
  have hb : (MstArgs.bind ⟨pos, kw, kf, ex, sort⟩) = some ((pos.orElse fun _ => kw).getD 2, kf, ex.getD true, sort) := by
    cases pos <;> cases kw <;> simp_all [MstArgs.bind]
  refine ⟨_, hb, ?_⟩
  rw [generated_mst_init]
  cases kf <;> cases pos <;> cases kw <;> simp_all

/-- a call `PointsToCuntzMST(...)` as written (keyword-only parameters) -/
structure CuntzArgs where
  bf : Option Rat := none
  k : Option Int := none
  ex : Option Bool := none
  sort : Option Bool := none

/-- defaults `bf=0.4`, `furcations=2`, `exclude_soma=True`, `sort=True` -/
def CuntzArgs.bind (a : CuntzArgs) : Rat × Int × Bool × Bool := (a.bf.getD (2 / 5), a.k.getD 2, a.ex.getD true, a.sort.getD true)

/-- **which parameters the loop sees after `PointsToCuntzMST(...)`**: `bf` forced into `[0, 1]` (unchanged when already there: the default
0.4 is), the others as written, else their defaults -/
theorem generated_cuntz_ctor (a : CuntzArgs) :
    ∃ bf', cuntz_init (K := Rat) a.bind.1 a.bind.2.1 a.bind.2.2.1 a.bind.2.2.2 = some (bf', a.k.getD 2, a.ex.getD true, a.sort.getD true, ()) ∧
      0 ≤ bf' ∧ bf' ≤ 1 ∧ (a.bf = none → bf' = 2 / 5) ∧ (∀ b, a.bf = some b → 0 ≤ b → b ≤ 1 → bf' = b) := by
  refine ⟨_, generated_cuntz_init _ _ _ _, (clip_spec _).1, (clip_spec _).2.1, ?_, ?_⟩
  · intro h
    simp only [CuntzArgs.bind, h, Option.getD_none]
    exact (clip_spec _).2.2.1 (by norm_num) (by norm_num)
  · intro b h h0 h1
    simp only [CuntzArgs.bind, h, Option.getD_some]
    exact (clip_spec _).2.2.1 h0 h1

/-! ## the final `if self.sort: t = sort_tree(t)` -/

theorem rootPath_ne_nil (ps : List Int) (f : Nat) (k : Int) : Redir.rootPath ps f k ≠ [] := by
  cases f with
  | zero => simp [Redir.rootPath]
  | succ f => simp only [Redir.rootPath]; split <;> simp

/-- following parents (`up`) to row 0 is the walk `rootPath` of C07 ending at row 0 -/
theorem rootPath_of_up (s : Mst.St) (n : Nat) (hlen : s.pid.length = n) (h0 : s.pid.getD 0 0 = -1)
    (hpar : ∀ j, j < n → j ≠ 0 → ∃ i, i < n ∧ s.pid.getD j 0 = (i : Int)) :
    ∀ d j, j < n → up s d j = 0 → ∀ f, d ≤ f → (Redir.rootPath s.pid f (j : Int)).getLast? = some 0 := by
  have hget : ∀ j, j < n → ∀ a b, s.pid.getD j a = s.pid.getD j b := by
    intro j hj a b
    simp [List.getD_eq_getElem?_getD, List.getElem?_eq_getElem (by omega : j < s.pid.length)]
  intro d
  induction d with
  | zero =>
    intro j hj hu f _
    have hj0 : j = 0 := by simp [up] at hu; exact_mod_cast hu
    subst hj0
    have e : s.pid.getD 0 (-1) = -1 := by rw [hget 0 hj (-1) 0]; exact h0
    cases f with
    | zero => simp [Redir.rootPath]
    | succ f =>
      simp only [Redir.rootPath, Int.toNat_natCast, e]
      simp
  | succ d ih =>
    intro j hj hu f hf
    obtain ⟨f', rfl⟩ : ∃ f', f = f' + 1 := ⟨f - 1, by omega⟩
    by_cases j0 : j = 0
    · subst j0
      have e : s.pid.getD 0 (-1) = -1 := by rw [hget 0 hj (-1) 0]; exact h0
      simp only [Redir.rootPath, Int.toNat_natCast, e]
      simp
    · obtain ⟨i, hi, hpi⟩ := hpar j hj j0
      have e : s.pid.getD j (-1) = (i : Int) := by rw [hget j hj (-1) 0]; exact hpi
      have hu' : up s d i = 0 := by
        simp only [up] at hu
        split at hu
        · omega
        · rw [e] at hu; simpa using hu
      have := ih i hi hu' f' (by omega)
      simp only [Redir.rootPath, Int.toNat_natCast, e]
      split
      · omega
      · rw [List.getLast?_cons_of_ne_nil (rootPath_ne_nil _ _ _)]
        exact this

/-- the parents the greedy loop leaves (facts of `generated_call_spanning`) form a well-formed table rooted at row 0 -/
theorem wfr_of_spanning (s : Mst.St) (n : Nat) (hn : 0 < n) (hlen : s.pid.length = n) (h0 : s.pid.getD 0 0 = -1)
    (hpar : ∀ j, j < n → j ≠ 0 → ∃ i, i < n ∧ s.pid.getD j 0 = (i : Int))
    (hreach : ∀ j, j < n → ∃ d, d ≤ n ∧ up s d j = 0) : Pipeline.WFr s.pid 0 := by
  refine ⟨?_, ?_, ?_⟩
  · have : s.pid.getD 0 0 = s.pid[0]'(by omega) := by simp [List.getD_eq_getElem?_getD, List.getElem?_eq_getElem (by omega : 0 < s.pid.length)]
    rw [List.getElem?_eq_getElem (by omega), ← this, h0]
  · intro k hk k0
    obtain ⟨i, hi, hpi⟩ := hpar k (by omega) k0
    have : s.pid.getD k 0 = s.pid[k] := by simp [List.getD_eq_getElem?_getD, List.getElem?_eq_getElem hk]
    rw [← this, hpi]; omega
  · intro k hk
    obtain ⟨d, hd, hu⟩ := hreach k (by omega)
    exact_mod_cast rootPath_of_up s n hlen h0 hpar d k (by omega) hu s.pid.length (by omega)

/-- **the final `if self.sort: t = sort_tree(t)` as generated** on the table the generated `__call__` returns (any parents with the spanning
facts, any type column of the same length): with `sort = True` the generated `sort_tree` → `_sort_tree` succeeds and returns ids
`0 … n-1`, the parents of a WELL-FORMED tree in which EVERY PARENT PRECEDES ITS CHILDREN, of the same size, and the type column carried
along by the row permutation of C05's model; with `sort = False` the columns are returned unchanged. Fuel: any `n + 1 + F`. -/
theorem generated_tail_sorted (s : Mst.St) (n : Nat) (hn : 0 < n) (hlen : s.pid.length = n) (h0 : s.pid.getD 0 0 = -1)
    (hpar : ∀ j, j < n → j ≠ 0 → ∃ i, i < n ∧ s.pid.getD j 0 = (i : Int))
    (hreach : ∀ j, j < n → ∃ d, d ≤ n ∧ up s d j = 0) (types : List Int) (hlt : types.length = n) (F : Nat) :
    (∃ res, sortNodesImpl (C07.idsOf n) s.pid = .ok res ∧
      mst_tail (n + 1 + F) (C07.idsOf n) s.pid types true =
        some (Py.range (n : Int), res.newPids, permute types res.indices, ()) ∧
      C07.WF res.newPids ∧ (∀ j (h : j < res.newPids.length), 0 < j → res.newPids[j] < (j : Int)) ∧ res.newPids.length = n) ∧
    mst_tail (n + 1 + F) (C07.idsOf n) s.pid types false = some (C07.idsOf n, s.pid, types, ()) := by
  have hw := wfr_of_spanning s n hn hlen h0 hpar hreach
  obtain ⟨res, hres, hwf, hs, hl⟩ := Pipeline.wfr_sorted _ 0 hw
  rw [hlen] at hres hl
  have hres' : sortNodesImpl (C07.idsOf n) s.pid = .ok res := hres
  have hil : (C07.idsOf n).length = n := by simp [C07.idsOf]
  have hst := RefineRedirect.sortTree_refines (C07.idsOf n) s.pid types (Represent.rangeI_nodup n) (by rw [hil, hlen]) (by rw [hil, hlt])
    res hres' F
  rw [hil] at hst
  refine ⟨⟨res, hres', ?_, hwf, hs, hl⟩, ?_⟩
  · simp [mst_tail, mst_tail.body, sort_tree_pub, sort_tree_pub.body, Py.bind, Py.finish, hst]
  · simp [mst_tail, mst_tail.body, Py.skip, Py.finish]

/-- **the tree the user receives** (`sort=True`, the default of both constructors) — the generated `__call__` followed by the generated
final sort, for every cloud of triples, optional soma triple, ANY norm, every `bf`, every limit `k = -1 ∨ 1 ≤ k`: the call returns the table
`T` over `soma :: points` (`generated_call_spanning`: one row per point, a single tree rooted at row 0), and the final sort applied to ITS
id / parent / type columns succeeds and returns ids `0 … n-1`, a well-formed tree (root at row 0 — the soma / first point is the only
parentless row and every row reaches it) in which every parent precedes its children, with as many rows as points, the types permuted
along. The coordinate columns are gathered by the same permutation in `_sort_tree` (`tree.ndata[k][id_map]` for every column): they are not
part of this 3-column instance (suite c17 compares the point set of the real sorted tree). -/
theorem generated_call_sorted_spanning (norm : List Rat → Rat) (pts : List (List Rat)) (soma : Option (List Rat))
    (hp : Rows3 pts) (hs : ∀ s, soma = some s → s.length = 3) (hn : 0 < (allPts soma pts).length)
    (bf : Rat) (k : Int) (ex : Bool) (tg ts : Int) (hk : k = -1 ∨ 1 ≤ k) (F : Nat) :
    ∃ (s : Mst.St) (T : _) (res : Result), mst_call (K := Rat) norm pts soma bf k ex tg ts = some T ∧
      T = tableWith (allPts soma pts) tg ts s.pid (disOf norm (allPts soma pts)) ∧
      mst_tail ((allPts soma pts).length + 1 + F) T.1 T.2.2.2.2.2.2.1 T.2.1 true =
        some (Py.range ((allPts soma pts).length : Int), res.newPids, permute T.2.1 res.indices, ()) ∧
      sortNodesImpl T.1 s.pid = .ok res ∧
      C07.WF res.newPids ∧ (∀ j (h : j < res.newPids.length), 0 < j → res.newPids[j] < (j : Int)) ∧
      res.newPids.length = (allPts soma pts).length ∧
      mst_tail ((allPts soma pts).length + 1 + F) T.1 T.2.2.2.2.2.2.1 T.2.1 false = some (T.1, s.pid, T.2.1, ()) := by
  obtain ⟨s, hcall, hinv, _, h0, hpar, hreach⟩ := generated_call_spanning norm pts soma hp hs hn bf k ex tg ts hk
  obtain ⟨⟨res, hres, htail, hwf, hsorted, hl⟩, hns⟩ := generated_tail_sorted s _ hn hinv.len.1 h0 hpar hreach
    ((List.replicate (allPts soma pts).length tg).set 0 ts) (by simp) F
  exact ⟨s, _, res, hcall, rfl, htail, hres, hwf, hsorted, hl, hns⟩

/-- non-vacuity (kernel-evaluated): the generated tail on a 4-row table whose parents are not in sorted order -/
example : mst_tail 5 [0, 1, 2, 3] [-1, 2, 0, 0] [1, 7, 7, 7] true = some ([0, 1, 2, 3], [-1, 0, 0, 2], [1, 7, 7, 7], ()) := by decide +kernel
example : mst_tail 5 [0, 1, 2, 3] [-1, 2, 0, 0] [1, 7, 7, 7] false = some ([0, 1, 2, 3], [-1, 2, 0, 0], [1, 7, 7, 7], ()) := by decide +kernel
example : mst_init (K := Rat) 2 (some 5) false none = some (0, 5, false, true, [0], ()) := by rw [generated_mst_init]; rfl
example : cuntz_init (K := Rat) (3 / 2) (-1) true false = some (1, -1, true, false, ()) := by rw [generated_cuntz_init]; decide +kernel
example : ({ pos := some 3, kf := some 7 } : MstArgs).bind = some (3, some 7, true, none) := by decide +kernel

end C17
