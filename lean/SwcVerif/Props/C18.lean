import SwcVerif.Proofs.Dsu
import SwcVerif.Proofs.DsuForest
import SwcVerif.Proofs.DsuConn
import SwcVerif.Proofs.DsuLink
import SwcVerif.Proofs.DsuTerm
/-! # C18 — topology diagnosis and root repair tell the truth about any parent table

Theorems about the models in `Model/Dsu.lean` (tied to the code by the `c18.dsu`, `c18.checkers`
(every parent table with n ≤ 5) and `c18.repair` correspondence suites). -/
namespace C18
open Dsu

/-- the pairs united so far by a script -/
def unions : List Op → List (Nat × Nat)
  | [] => []
  | .union a b :: t => (a, b) :: unions t
  | .same _ _ :: t => unions t

/-- "some sequence of the unions performed connects them": the equivalence closure of the pair list -/
inductive Conn (E : List (Nat × Nat)) : Nat → Nat → Prop where
  | refl (x : Nat) : Conn E x x
  | edge {a b : Nat} : (a, b) ∈ E → Conn E a b
  | symm {a b : Nat} : Conn E a b → Conn E b a
  | trans {a b c : Nat} : Conn E a b → Conn E b c → Conn E a c

def ValidOp (n : Nat) : Op → Prop
  | .union a b => a < n ∧ b < n
  | .same a b => a < n ∧ b < n

/-- the structure after a script of valid operations (queries compress paths, so they change it too) -/
def stateAfter (n : Nat) (ops : List Op) : D :=
  ops.foldl (fun d op => match stepOp d op with
    | some (d', _) => d'
    | none => d) (init n)

theorem Conn.mono {E E' : List (Nat × Nat)} (h : ∀ e ∈ E, e ∈ E') {x y : Nat} (c : Conn E x y) :
    Conn E' x y := by
  induction c with
  | refl x => exact .refl x
  | edge he => exact .edge (h _ he)
  | symm _ ih => exact .symm ih
  | trans _ _ ih1 ih2 => exact .trans ih1 ih2

theorem Conn_nil (x y : Nat) : Conn [] x y ↔ x = y := by
  constructor
  · intro c
    induction c with
    | refl x => rfl
    | edge he => simp at he
    | symm _ ih => exact ih.symm
    | trans _ _ ih1 ih2 => exact ih1.trans ih2
  · rintro rfl; exact .refl x

/-- adding one pair to the list: the new closure in terms of the old one -/
theorem Conn_add {E E' : List (Nat × Nat)} {a b : Nat} (hE : ∀ e, e ∈ E' ↔ e = (a, b) ∨ e ∈ E) (x y : Nat) :
    Conn E' x y ↔ Conn E x y ∨ (Conn E x a ∧ Conn E y b) ∨ (Conn E x b ∧ Conn E y a) := by
  have hm : ∀ {x y}, Conn E x y → Conn E' x y := fun c => Conn.mono (fun e he => (hE e).2 (Or.inr he)) c
  have hab : Conn E' a b := .edge ((hE _).2 (Or.inl rfl))
  constructor
  · intro c
    induction c with
    | refl x => exact Or.inl (.refl x)
    | edge he =>
      rcases (hE _).1 he with e | e
      · injection e with e1 e2
        subst e1; subst e2
        exact Or.inr (Or.inl ⟨.refl _, .refl _⟩)
      · exact Or.inl (.edge e)
    | symm _ ih =>
      rcases ih with h | ⟨h1, h2⟩ | ⟨h1, h2⟩
      · exact Or.inl h.symm
      · exact Or.inr (Or.inr ⟨h2, h1⟩)
      · exact Or.inr (Or.inl ⟨h2, h1⟩)
    | trans _ _ ih1 ih2 =>
      rcases ih1 with h | ⟨h1, h2⟩ | ⟨h1, h2⟩ <;> rcases ih2 with k | ⟨k1, k2⟩ | ⟨k1, k2⟩
      · exact Or.inl (h.trans k)
      · exact Or.inr (Or.inl ⟨h.trans k1, k2⟩)
      · exact Or.inr (Or.inr ⟨h.trans k1, k2⟩)
      · exact Or.inr (Or.inl ⟨h1, k.symm.trans h2⟩)
      · exact Or.inr (Or.inl ⟨h1, k2⟩)
      · exact Or.inl (h1.trans k2.symm)
      · exact Or.inr (Or.inr ⟨h1, k.symm.trans h2⟩)
      · exact Or.inl (h1.trans k2.symm)
      · exact Or.inr (Or.inr ⟨h1, k2⟩)
  · rintro (h | ⟨h1, h2⟩ | ⟨h1, h2⟩)
    · exact hm h
    · exact (hm h1).trans (hab.trans (hm h2).symm)
    · exact (hm h1).trans (hab.symm.trans (hm h2).symm)

/-- one valid `union` step of the represented relation -/
theorem union_conn {d : D} {n : Nat} {E : List (Nat × Nat)} (h : DsuInv d n (Conn E)) (a b : Nat)
    (ha : a < n) (hb : b < n) : DsuInv (union d a b) n (Conn (E ++ [(a, b)])) := by
  refine (union_inv h a b ha hb).congr (fun x y _ _ => ?_)
  exact (Conn_add (by intro e; simp [or_comm]) x y).symm

theorem foldl_inv (n : Nat) : ∀ (ops : List Op) (d : D) (E : List (Nat × Nat)),
    (∀ op ∈ ops, ValidOp n op) → DsuInv d n (Conn E) →
    DsuInv (ops.foldl (fun d op => match stepOp d op with
      | some (d', _) => d'
      | none => d) d) n (Conn (E ++ unions ops)) := by
  intro ops
  induction ops with
  | nil => intro d E _ h; simpa [unions] using h
  | cons op t ih =>
    intro d E hv h
    have hvt : ∀ op ∈ t, ValidOp n op := fun o ho => hv o (List.mem_cons_of_mem _ ho)
    have hop := hv op List.mem_cons_self
    cases op with
    | union a b =>
      obtain ⟨ha, hb⟩ := hop
      have := ih (union d a b) (E ++ [(a, b)]) hvt (union_conn h a b ha hb)
      simpa [unions, stepOp, valid, h.hn, ha, hb] using this
    | same a b =>
      obtain ⟨ha, hb⟩ := hop
      have := ih (same d a b).2 E hvt (same_inv h a b)
      simpa [unions, stepOp, valid, h.hn, ha, hb] using this

/-- **The disjoint-set structure tells the truth for every history**: after any sequence of unions and
queries on `n` elements, `is_same_set a b` answers `True` exactly when some sequence of the unions
performed so far connects `a` and `b`. -/
theorem dsu_refines_partition (n : Nat) (ops : List Op) (hv : ∀ op ∈ ops, ValidOp n op) (a b : Nat)
    (ha : a < n) (hb : b < n) :
    (same (stateAfter n ops) a b).1 = true ↔ Conn (unions ops) a b := by
  have h0 : DsuInv (init n) n (Conn []) :=
    (init_inv n).congr (fun x y _ _ => (Conn_nil x y).symm)
  have h := foldl_inv n ops (init n) [] hv h0
  rw [List.nil_append] at h
  exact same_fst h a b ha hb

/-- the answers the driver prints are exactly these queries, in order: running a script is running
`stepOp` from left to right -/
theorem runOps_cons (d : D) (op : Op) (ops : List Op) (d' : D) (ans : Option Bool) (h : stepOp d op = some (d', ans)) :
    runOps d (op :: ops) = (match op with | .same .. => [ans] | _ => []) ++ runOps d' ops := by
  cases op <;> simp [runOps, h]

/-- invalid nodes are rejected (AssertionError / IndexError), never answered -/
theorem invalid_rejected (d : D) (a b : Nat) (h : ¬ (a < d.n ∧ b < d.n)) :
    stepOp d (.union a b) = none ∧ stepOp d (.same a b) = none := by
  have : (valid d a && valid d b) = false := by
    simp only [valid, Bool.and_eq_false_iff, decide_eq_false_iff_not]
    omega
  simp [stepOp, this]

/-! ## has_cyclic -/

/-- the undirected edges `(id, pid)` of the non-root rows -/
def rowEdges : List Int → List Int → List (Nat × Nat)
  | i :: is, p :: ps => if p = -1 then rowEdges is ps else (i.toNat, p.toNat) :: rowEdges is ps
  | _, _ => []

/-- ids / parents usable as DSU nodes: `0 ≤ · < n` (parents may be `-1`) -/
def ValidTable (ids pids : List Int) : Prop :=
  ids.length = pids.length ∧ (∀ i ∈ ids, 0 ≤ i ∧ i < ids.length) ∧ (∀ p ∈ pids, p = -1 ∨ (0 ≤ p ∧ p < ids.length))

theorem hasCyclicLoop_root (d : D) (a b : Int) (as bs : List Int) (hb : b = -1) :
    hasCyclicLoop d (a :: as) (b :: bs) = hasCyclicLoop d as bs := by
  simp [hasCyclicLoop, hb]

theorem hasCyclicLoop_step (d : D) (a b : Int) (as bs : List Int) (hb : b ≠ -1)
    (ha0 : 0 ≤ a) (hb0 : 0 ≤ b) (ha : a.toNat < d.n) (hbn : b.toNat < d.n) :
    hasCyclicLoop d (a :: as) (b :: bs) =
      if (same d a.toNat b.toNat).1 then some true
      else hasCyclicLoop (union (same d a.toNat b.toNat).2 a.toNat b.toNat) as bs := by
  have e : (decide (a < 0) || decide (b < 0) || !valid d a.toNat || !valid d b.toNat) = false := by
    simp [valid, ha, hbn]; omega
  simp only [hasCyclicLoop, hb, if_false, e]
  simp

theorem hasCyclicLoop_spec (n : Nat) : ∀ (as bs : List Int) (d : D) (E : List (Nat × Nat)),
    as.length = bs.length →
    (∀ i ∈ as, 0 ≤ i ∧ i < (n : Int)) → (∀ p ∈ bs, p = -1 ∨ (0 ≤ p ∧ p < (n : Int))) →
    DsuInv d n (Conn E) →
    (hasCyclicLoop d as bs = some true ↔
      ∃ k, ∃ h1 : k < as.length, ∃ h2 : k < bs.length, bs[k] ≠ -1 ∧
        Conn (E ++ rowEdges (as.take k) (bs.take k)) as[k].toNat bs[k].toNat) ∧
    (hasCyclicLoop d as bs = some true ∨ hasCyclicLoop d as bs = some false) := by
  intro as
  induction as with
  | nil => intro bs d E _ _ _ _; simp [hasCyclicLoop]
  | cons a as ih =>
    intro bs d E hl hi hp h
    cases bs with
    | nil => simp at hl
    | cons b bs =>
      have hl' : as.length = bs.length := by simpa using hl
      have hi' : ∀ i ∈ as, 0 ≤ i ∧ i < (n : Int) := fun i hm => hi i (List.mem_cons_of_mem _ hm)
      have hp' : ∀ p ∈ bs, p = -1 ∨ (0 ≤ p ∧ p < (n : Int)) := fun p hm => hp p (List.mem_cons_of_mem _ hm)
      by_cases hb1 : b = -1
      · rw [hasCyclicLoop_root d a b as bs hb1]
        obtain ⟨ih1, ih2⟩ := ih bs d E hl' hi' hp' h
        refine ⟨ih1.trans ?_, ih2⟩
        constructor
        · rintro ⟨k, h1, h2, hne, c⟩
          refine ⟨k+1, by simp; omega, by simp; omega, ?_, ?_⟩
          · simpa using hne
          · simpa [rowEdges, hb1] using c
        · rintro ⟨k, h1, h2, hne, c⟩
          cases k with
          | zero => simp at hne; exact absurd hb1 hne
          | succ k =>
            refine ⟨k, by simpa using h1, by simpa using h2, ?_, ?_⟩
            · simpa using hne
            · simpa [rowEdges, hb1] using c
      · obtain ⟨ha0, han⟩ := hi a List.mem_cons_self
        have hbb : 0 ≤ b ∧ b < (n : Int) := by
          rcases hp b List.mem_cons_self with e | e
          · exact absurd e hb1
          · exact e
        obtain ⟨hb0, hbn⟩ := hbb
        have ha' : a.toNat < n := by omega
        have hb' : b.toNat < n := by omega
        rw [hasCyclicLoop_step d a b as bs hb1 ha0 hb0 (by rw [h.hn]; exact ha') (by rw [h.hn]; exact hb')]
        have hs := same_fst h a.toNat b.toNat ha' hb'
        by_cases hc : (same d a.toNat b.toNat).1 = true
        · rw [if_pos hc]
          refine ⟨?_, Or.inl rfl⟩
          refine ⟨fun _ => ?_, fun _ => rfl⟩
          refine ⟨0, by simp, by simp, by simpa using hb1, ?_⟩
          simpa [rowEdges] using hs.1 hc
        · rw [if_neg hc]
          have h2 := union_conn (same_inv h a.toNat b.toNat) a.toNat b.toNat ha' hb'
          obtain ⟨ih1, ih2⟩ := ih bs _ _ hl' hi' hp' h2
          refine ⟨ih1.trans ?_, ih2⟩
          constructor
          · rintro ⟨k, h1, h2, hne, c⟩
            refine ⟨k+1, by simp; omega, by simp; omega, ?_, ?_⟩
            · simpa using hne
            · simpa [rowEdges, hb1] using c
          · rintro ⟨k, h1, h2, hne, c⟩
            cases k with
            | zero =>
              exfalso
              apply hc
              apply hs.2
              simpa [rowEdges] using c
            | succ k =>
              refine ⟨k, by simpa using h1, by simpa using h2, ?_, ?_⟩
              · simpa using hne
              · simpa [rowEdges, hb1] using c

/-- **`has_cyclic` is true exactly when some row joins two nodes that the earlier rows already connect**
(i.e. the undirected graph of the table has a cycle; in a parent table, where every node has at most one
outgoing edge, that is a directed cycle). -/
theorem hasCyclic_spec (ids pids : List Int) (hv : ValidTable ids pids) :
    (hasCyclic ids pids = some true ↔
      ∃ k, ∃ h1 : k < ids.length, ∃ h2 : k < pids.length, pids[k] ≠ -1 ∧
        Conn (rowEdges (ids.take k) (pids.take k)) ids[k].toNat pids[k].toNat) ∧
    (hasCyclic ids pids = some true ∨ hasCyclic ids pids = some false) := by
  obtain ⟨hl, hi, hp⟩ := hv
  have h0 : DsuInv (init ids.length) ids.length (Conn []) :=
    (init_inv _).congr (fun x y _ _ => (Conn_nil x y).symm)
  have := hasCyclicLoop_spec ids.length ids pids (init ids.length) [] hl hi hp h0
  simpa [hasCyclic] using this

/-! ## is_bifurcate, is_sorted -/

theorem tableKids_not_mem : ∀ (ids pids : List Int) (k : Int), k ∉ pids → tableKids ids pids k = []
  | [], _, _, _ => by simp [tableKids]
  | _ :: _, [], _, _ => by simp [tableKids]
  | i :: is, p :: ps, k, h => by
    have h1 : p ≠ k := fun e => h (e ▸ List.mem_cons_self)
    have h2 : k ∉ ps := fun e => h (List.mem_cons_of_mem _ e)
    simp [tableKids, h1, tableKids_not_mem is ps k h2]

/-- **`is_bifurcate` is true exactly when no node — other than the roots when they are exempt — has more
than two children**, on every table -/
theorem isBifurcate_correct (ids pids : List Int) (excl : Bool) :
    isBifurcate ids pids excl = true ↔
      ∀ k : Int, k ≠ -1 → ¬ (excl = true ∧ k ∈ tableKids ids pids (-1)) → (tableKids ids pids k).length ≤ 2 := by
  simp only [isBifurcate, List.all_eq_true, Bool.or_eq_true, Bool.and_eq_true, decide_eq_true_eq,
    List.contains_iff_mem]
  constructor
  · intro h k hk hr
    by_cases hm : k ∈ pids
    · rcases h k hm with (e | e) | e
      · exact absurd e hk
      · exact absurd e hr
      · exact e
    · rw [tableKids_not_mem ids pids k hm]; simp
  · intro h k _
    by_cases hk : k = -1
    · exact Or.inl (Or.inl hk)
    · by_cases hr : excl = true ∧ k ∈ tableKids ids pids (-1)
      · exact Or.inl (Or.inr hr)
      · exact Or.inr (h k hk hr)

/-! ## get_dsu / is_single_root -/

/-- when the `while` loop of `get_dsu` stops, every label is a fixed point of the pointer array (so
labels name component representatives), and one more pass changes nothing -/
theorem jumpPass_stop (dsu : List Nat) (hb : ∀ x ∈ dsu, x < dsu.length) (h : (jumpPass dsu).2 = true) :
    (jumpPass dsu).1 = dsu ∧ ∀ i (hi : i < dsu.length), dsu.getD (dsu[i]) 0 = dsu[i] :=
  jumpPass_true dsu h

theorem getDsu_fixpoint (ids pids : List Int) (l : List Nat) (hl : ids.length = pids.length) (h : getDsu ids pids = some l) :
    l.length = ids.length ∧ ∀ i (hi : i < l.length), l.getD (l[i]) 0 = l[i] := by
  unfold getDsu at h
  cases h0 : dsuInit ids pids with
  | none => simp [h0] at h
  | some l0 =>
    rw [h0] at h
    obtain ⟨e, hfix⟩ := jumpLoop_spec _ l0 l h
    have := dsuInit_length ids pids l0 h0
    exact ⟨by omega, hfix⟩

/-- root of row `i` in a sorted forest table (`ids = 0..n-1`, every parent smaller than its child) -/
def rootOfSorted (pids : List Int) : Nat → Nat → Nat
  | 0, i => i
  | f+1, i => match pids.getD i (-1) with
    | -1 => i
    | p => rootOfSorted pids f p.toNat

theorem rootOfSorted_succ (pids : List Int) (f i : Nat) :
    rootOfSorted pids (f+1) i =
      if pids.getD i (-1) = -1 then i else rootOfSorted pids f (pids.getD i (-1)).toNat := by
  simp only [rootOfSorted]
  split
  · rename_i h; rw [if_pos h]
  · rename_i h; rw [if_neg]; intro e; exact h e

/-- on a sorted table: the root is above, is a root, and does not depend on the fuel -/
theorem rootOfSorted_props (pids : List Int)
    (hP : ∀ k, k < pids.length → pids.getD k (-1) = -1 ∨ (0 ≤ pids.getD k (-1) ∧ pids.getD k (-1) < (k : Int))) :
    ∀ (f i : Nat), i < f → i < pids.length →
      rootOfSorted pids f i ≤ i ∧ pids.getD (rootOfSorted pids f i) (-1) = -1 ∧
      ∀ g, i < g → rootOfSorted pids g i = rootOfSorted pids f i := by
  intro f
  induction f with
  | zero => intro i h; omega
  | succ f ih =>
    intro i hf hn
    rw [rootOfSorted_succ]
    by_cases hroot : pids.getD i (-1) = -1
    · rw [if_pos hroot]
      refine ⟨Nat.le_refl _, hroot, ?_⟩
      intro g hg
      cases g with
      | zero => omega
      | succ g => rw [rootOfSorted_succ, if_pos hroot]
    · rw [if_neg hroot]
      rcases hP i hn with e | ⟨h0, h1⟩
      · exact absurd e hroot
      · obtain ⟨a1, a2, a3⟩ := ih (pids.getD i (-1)).toNat (by omega) (by omega)
        refine ⟨by omega, a2, ?_⟩
        intro g hg
        cases g with
        | zero => omega
        | succ g => rw [rootOfSorted_succ, if_neg hroot]; exact a3 g (by omega)

theorem rootOfSorted_step (pids : List Int)
    (hP : ∀ k, k < pids.length → pids.getD k (-1) = -1 ∨ (0 ≤ pids.getD k (-1) ∧ pids.getD k (-1) < (k : Int))) :
    ∀ j, j < pids.length → rootOfSorted pids pids.length j =
      if pids.getD j (-1) = -1 then j else rootOfSorted pids pids.length (pids.getD j (-1)).toNat := by
  intro j hj
  cases hn : pids.length with
  | zero => omega
  | succ n =>
    rw [rootOfSorted_succ]
    by_cases hroot : pids.getD j (-1) = -1
    · rw [if_pos hroot, if_pos hroot]
    · rw [if_neg hroot, if_neg hroot]
      rcases hP j hj with e | ⟨h0, h1⟩
      · exact absurd e hroot
      · exact (rootOfSorted_props pids hP (n+1) (pids.getD j (-1)).toNat (by omega) (by omega)).2.2 n
          (by omega)

/-- **on a sorted forest the labelling is "root of my tree"**, so `is_single_root` is true exactly when
there is exactly one root (sorted tables: one pass suffices; `getDsu_forest` below covers every forest; tables
with cycles are covered by the exhaustive n ≤ 5 correspondence and the oracle only) -/
theorem getDsu_sorted_forest (pids : List Int)
    (hs : ∀ k (h : k < pids.length), pids[k] = -1 ∨ (0 ≤ pids[k] ∧ pids[k] < (k : Int))) :
    getDsu ((List.range pids.length).map Int.ofNat) pids
      = some ((List.range pids.length).map (rootOfSorted pids pids.length)) := by
  -- the parent column as a total function
  have hP : ∀ k, k < pids.length → pids.getD k (-1) = -1 ∨ (0 ≤ pids.getD k (-1) ∧ pids.getD k (-1) < (k : Int)) := by
    intro k hk
    have : pids.getD k (-1) = pids[k] := by simp [List.getD_eq_getElem?_getD, hk]
    rw [this]; exact hs k hk
  have hR := rootOfSorted_step pids hP
  have hRle := fun j hj => (rootOfSorted_props pids hP pids.length j hj hj).1
  have hRroot := fun j hj => (rootOfSorted_props pids hP pids.length j hj hj).2.1
  -- the initial pointer array
  have hinit : dsuInit ((List.range pids.length).map Int.ofNat) pids =
      some ((List.zip ((List.range pids.length).map Int.ofNat) pids).map
        (fun ip => (if ip.2 = -1 then ip.1 else ip.2).toNat)) := by
    unfold dsuInit
    apply mapM_option_eq_some
    intro ip hip
    obtain ⟨k, hk, e⟩ := List.getElem_of_mem hip
    have hk' : k < pids.length := by simp at hk; exact hk
    simp only [List.getElem_zip, List.getElem_map, List.getElem_range] at e
    subst e
    simp only []
    by_cases hroot : pids[k] = -1
    · rw [if_pos hroot]
      exact idxOf?_range _ k hk'
    · rw [if_neg hroot]
      rcases hs k hk' with e | ⟨h0, h1⟩
      · exact absurd e hroot
      · have := idxOf?_range pids.length pids[k].toNat (by omega)
        rw [Int.toNat_of_nonneg h0] at this
        exact this
  generalize hl0 : (List.zip ((List.range pids.length).map Int.ofNat) pids).map
        (fun ip => (if ip.2 = -1 then ip.1 else ip.2).toNat) = l0 at hinit
  have htab0 : Tab l0 pids.length (fun j => if pids.getD j (-1) = -1 then j else (pids.getD j (-1)).toNat) := by
    subst hl0
    refine ⟨by simp, ?_⟩
    intro j hj
    simp only [List.getD_eq_getElem?_getD]
    rw [List.getElem?_eq_getElem (by simpa using hj), List.getElem?_eq_getElem hj]
    simp only [List.getElem_map, List.getElem_zip, List.getElem_range, Option.getD_some]
    split <;> rfl
  -- the first pass
  have hpass := jumpFold_range_tab pids.length l0
    (fun i j => if j < i then rootOfSorted pids pids.length j
      else (if pids.getD j (-1) = -1 then j else (pids.getD j (-1)).toNat))
    (htab0.congr (fun j _ => by simp))
    (by
      intro i hi
      have hii : (if i < i then rootOfSorted pids pids.length i
          else (if pids.getD i (-1) = -1 then i else (pids.getD i (-1)).toNat)) =
          (if pids.getD i (-1) = -1 then i else (pids.getD i (-1)).toNat) := by simp
      rw [hii]
      constructor
      · split
        · exact hi
        · rcases hP i hi with e | ⟨h0, h1⟩
          · rename_i hne; exact absurd e hne
          · omega
      · intro j hj
        by_cases hji : j = i
        · subst hji
          rw [updN_same, if_pos (Nat.lt_succ_self j), hR j hj]
          by_cases hroot : pids.getD j (-1) = -1
          · rw [if_pos hroot, if_neg (Nat.lt_irrefl j), if_pos hroot, if_pos hroot]
          · rw [if_neg hroot]
            rcases hP j hj with e | ⟨h0, h1⟩
            · exact absurd e hroot
            · rw [if_pos (show (pids.getD j (-1)).toNat < j by omega), if_neg hroot]
        · rw [updN_other _ _ _ _ hji]
          by_cases hlt : j < i
          · rw [if_pos hlt, if_pos (show j < i + 1 by omega)]
          · rw [if_neg hlt, if_neg (show ¬ j < i + 1 by omega)])
    pids.length (Nat.le_refl _)
  have hlen0 : l0.length = pids.length := htab0.1
  rw [← hlen0, ← jumpPass_eq, hlen0] at hpass
  have htab : Tab (jumpPass l0).1 pids.length (rootOfSorted pids pids.length) :=
    hpass.congr (fun j hj => by simp [hj])
  have hres : (jumpPass l0).1 = (List.range pids.length).map (rootOfSorted pids pids.length) := by
    apply List.ext_getElem
    · simp [htab.1]
    · intro j h1 h2
      have := htab.2 j (by rw [← htab.1]; exact h1)
      simp [List.getD_eq_getElem?_getD, h1] at this
      simp [this]
  have hloop := jumpLoop_two (pids.length * pids.length) l0 (by
    intro i hi
    rw [htab.1] at hi
    rw [htab.2 i hi, htab.2 _ (by have := hRle i hi; omega)]
    have hr := hRroot i hi
    have hlt : rootOfSorted pids pids.length i < pids.length := by have := hRle i hi; omega
    rw [hR _ hlt, if_pos hr])
  unfold getDsu
  rw [hinit]
  simp only [List.length_map, List.length_range, Option.bind_some]
  rw [hloop, hres]

/-! ## root repair -/

/-- the initial pointer of row `j`: its parent's row, or `j` itself for a root -/
def ptr (pids : List Int) (j : Nat) : Nat := if pids.getD j (-1) = -1 then j else (pids.getD j (-1)).toNat

/-- **on ANY forest — any numbering, parents before or after their children — the labelling is "root of my
tree"**: `dp` is any depth measure that drops along every parent pointer (it exists exactly when the table is
acyclic).  The `while` loop of `get_dsu` stops within the model's `n² + 2` passes. -/
theorem getDsu_forest (pids : List Int) (dp : Nat → Nat)
    (hv : ∀ k (h : k < pids.length), pids[k] = -1 ∨ (0 ≤ pids[k] ∧ pids[k] < pids.length))
    (hd : ∀ k (h : k < pids.length), pids[k] ≠ -1 → dp (pids[k]).toNat < dp k)
    (hb : ∀ k, k < pids.length → dp k < pids.length) :
    getDsu ((List.range pids.length).map Int.ofNat) pids
      = some ((List.range pids.length).map (Forest.rootFn (ptr pids) dp)) := by
  have hget : ∀ k (h : k < pids.length), pids.getD k (-1) = pids[k] := by
    intro k hk; simp [List.getD_eq_getElem?_getD, hk]
  have hF : Forest pids.length (ptr pids) dp := by
    refine ⟨?_, ?_, hb⟩
    · intro i hi
      unfold ptr
      rw [hget i hi]
      rcases hv i hi with e | ⟨h0, h1⟩
      · rw [if_pos e]; exact hi
      · rw [if_neg (by omega)]; omega
    · intro i hi
      unfold ptr
      rw [hget i hi]
      by_cases e : pids[i] = -1
      · left; rw [if_pos e]
      · right; rw [if_neg e]; exact hd i hi e
  -- the initial pointer array
  have hinit : dsuInit ((List.range pids.length).map Int.ofNat) pids =
      some ((List.zip ((List.range pids.length).map Int.ofNat) pids).map
        (fun ip => (if ip.2 = -1 then ip.1 else ip.2).toNat)) := by
    unfold dsuInit
    apply mapM_option_eq_some
    intro ip hip
    obtain ⟨k, hk, e⟩ := List.getElem_of_mem hip
    have hk' : k < pids.length := by simp at hk; exact hk
    simp only [List.getElem_zip, List.getElem_map, List.getElem_range] at e
    subst e
    simp only []
    by_cases hroot : pids[k] = -1
    · rw [if_pos hroot]
      exact idxOf?_range _ k hk'
    · rw [if_neg hroot]
      rcases hv k hk' with e | ⟨h0, h1⟩
      · exact absurd e hroot
      · have := idxOf?_range pids.length pids[k].toNat (by omega)
        rw [Int.toNat_of_nonneg h0] at this
        exact this
  generalize hl0 : (List.zip ((List.range pids.length).map Int.ofNat) pids).map
        (fun ip => (if ip.2 = -1 then ip.1 else ip.2).toNat) = l0 at hinit
  have htab0 : Tab l0 pids.length (ptr pids) := by
    subst hl0
    refine ⟨by simp, ?_⟩
    intro j hj
    unfold ptr
    simp only [List.getD_eq_getElem?_getD]
    rw [List.getElem?_eq_getElem (by simpa using hj), List.getElem?_eq_getElem hj]
    simp only [List.getElem_map, List.getElem_zip, List.getElem_range, Option.getD_some]
    split <;> rfl
  have hanc : Anc pids.length (ptr pids) (ptr pids) := fun i _ => ⟨1, Nat.le_refl _, rfl⟩
  -- the initial total depth is below n²
  have htot : total dp (ptr pids) pids.length < pids.length * pids.length + 2 := by
    have : ∀ m, m ≤ pids.length → total dp (ptr pids) m ≤ m * pids.length := by
      intro m
      induction m with
      | zero => intro _; simp [total]
      | succ m ih =>
        intro hm
        unfold total at ih ⊢
        rw [List.range_succ, List.map_append, List.sum_append]
        simp only [List.map_cons, List.map_nil, List.sum_cons, List.sum_nil, Nat.add_zero]
        have h1 := ih (by omega)
        have h2 := hb (ptr pids m) (hF.closed m (by omega))
        have : (m + 1) * pids.length = m * pids.length + pids.length := Nat.succ_mul m pids.length
        omega
    have := this pids.length (Nat.le_refl _)
    omega
  have hloop := jumpLoop_forest hF (pids.length * pids.length + 2) l0 (ptr pids) htab0 hanc htot
  unfold getDsu
  rw [hinit]
  simp only [List.length_map, List.length_range, Option.bind_some]
  exact hloop

-- non-vacuity: a forest in which node 0 hangs from node 2 (parents after children) and there are two roots
example : getDsu ((List.range 5).map Int.ofNat) [2, -1, 1, -1, 3] = some [1, 1, 1, 3, 3] := by decide +kernel
example : (List.range 5).map (Forest.rootFn (ptr [2, -1, 1, -1, 3]) (fun k => [2, 0, 1, 0, 1].getD k 0)) = [1, 1, 1, 3, 3] := by
  decide +kernel

/-- the initial pointer array of `get_dsu` tabulates `ptr` -/
theorem dsuInit_tab (pids : List Int)
    (hv : ∀ k (h : k < pids.length), pids[k] = -1 ∨ (0 ≤ pids[k] ∧ pids[k] < pids.length)) :
    ∃ l0, dsuInit ((List.range pids.length).map Int.ofNat) pids = some l0 ∧ Tab l0 pids.length (ptr pids) := by
  refine ⟨(List.zip ((List.range pids.length).map Int.ofNat) pids).map (fun ip => (if ip.2 = -1 then ip.1 else ip.2).toNat), ?_, ?_⟩
  · unfold dsuInit
    apply mapM_option_eq_some
    intro ip hip
    obtain ⟨k, hk, e⟩ := List.getElem_of_mem hip
    have hk' : k < pids.length := by simp at hk; exact hk
    simp only [List.getElem_zip, List.getElem_map, List.getElem_range] at e
    subst e
    simp only []
    by_cases hroot : pids[k] = -1
    · rw [if_pos hroot]
      exact idxOf?_range _ k hk'
    · rw [if_neg hroot]
      rcases hv k hk' with e | ⟨h0, h1⟩
      · exact absurd e hroot
      · have := idxOf?_range pids.length pids[k].toNat (by omega)
        rw [Int.toNat_of_nonneg h0] at this
        exact this
  · refine ⟨by simp, ?_⟩
    intro j hj
    unfold ptr
    simp only [List.getD_eq_getElem?_getD]
    rw [List.getElem?_eq_getElem (by simpa using hj), List.getElem?_eq_getElem hj]
    simp only [List.getElem_map, List.getElem_zip, List.getElem_range, Option.getD_some]
    split <;> rfl

/-- **any table, cycles included — partial correctness of `get_dsu` / `is_single_root`**: whenever the pointer-jumping
loop returns, two rows carry the same label exactly when they are weakly connected in the table (by parent links in
either direction); in particular all labels are equal exactly when the whole table is connected.  (That the loop
returns within the modelled pass budget is `getDsu_forest` for every forest and `getDsu_total` below for every table.) -/
theorem getDsu_labels_are_components (pids : List Int)
    (hv : ∀ k (h : k < pids.length), pids[k] = -1 ∨ (0 ≤ pids[k] ∧ pids[k] < pids.length))
    (l : List Nat) (h : getDsu ((List.range pids.length).map Int.ofNat) pids = some l) :
    l.length = pids.length ∧
    ∀ a b, a < pids.length → b < pids.length → (l.getD a 0 = l.getD b 0 ↔ WConn pids.length (ptr pids) a b) := by
  obtain ⟨l0, hinit, htab0⟩ := dsuInit_tab pids hv
  have hcl : ∀ i, i < pids.length → ptr pids i < pids.length := by
    intro i hi
    unfold ptr
    have hget : pids.getD i (-1) = pids[i] := by simp [List.getD_eq_getElem?_getD, hi]
    rw [hget]
    rcases hv i hi with e | ⟨h0, h1⟩
    · rw [if_pos e]; exact hi
    · rw [if_neg (by omega)]; omega
  unfold getDsu at h
  rw [hinit] at h
  simp only [List.length_map, List.length_range, Option.bind_some] at h
  exact jumpLoop_conn pids.length (ptr pids) _ l0 l (ptr pids) htab0 hcl (fun _ _ => Iff.rfl) h

/-- **`get_dsu` returns on EVERY table whose parents name rows — cycles included — and its labels are the weakly
connected components**: total correctness.  (Variant: the sum of the orbit sizes of the pointer array, at most
`n²`, drops in every pass that changes anything — `Proofs/DsuTerm.lean`.) -/
theorem getDsu_total (pids : List Int)
    (hv : ∀ k (h : k < pids.length), pids[k] = -1 ∨ (0 ≤ pids[k] ∧ pids[k] < pids.length)) :
    ∃ l, getDsu ((List.range pids.length).map Int.ofNat) pids = some l ∧ l.length = pids.length ∧
      ∀ a b, a < pids.length → b < pids.length → (l.getD a 0 = l.getD b 0 ↔ WConn pids.length (ptr pids) a b) := by
  obtain ⟨l0, hinit, htab0⟩ := dsuInit_tab pids hv
  have hcl : Closed pids.length (ptr pids) := by
    intro i hi
    unfold ptr
    have hget : pids.getD i (-1) = pids[i] := by simp [List.getD_eq_getElem?_getD, hi]
    rw [hget]
    rcases hv i hi with e | ⟨h0, h1⟩
    · rw [if_pos e]; exact hi
    · rw [if_neg (by omega)]; omega
  have hb := Phi_bound pids.length (ptr pids)
  obtain ⟨l, hl⟩ := jumpLoop_terminates (pids.length * pids.length + 2) l0 (ptr pids) htab0 hcl (by omega)
  have hget : getDsu ((List.range pids.length).map Int.ofNat) pids = some l := by
    unfold getDsu
    rw [hinit]
    simpa using hl
  obtain ⟨h1, h2⟩ := getDsu_labels_are_components pids hv l hget
  exact ⟨l, hget, h1, h2⟩

theorem eraseDups_length_one (l : List Nat) :
    (l.eraseDups.length == 1) = true ↔ l ≠ [] ∧ ∀ x ∈ l, ∀ y ∈ l, x = y := by
  cases l with
  | nil => simp
  | cons a t =>
    rw [List.eraseDups_cons]
    simp only [List.length_cons, beq_iff_eq, Nat.add_eq_right, List.length_eq_zero_iff, ne_eq, reduceCtorEq,
      not_false_eq_true, true_and]
    constructor
    · intro h
      have hf : t.filter (fun b => !b == a) = [] := by
        cases hft : t.filter (fun b => !b == a) with
        | nil => rfl
        | cons c u => rw [hft, List.eraseDups_cons] at h; simp at h
      have hall : ∀ b ∈ t, b = a := by
        intro b hb
        have := List.filter_eq_nil_iff.1 hf b hb
        simpa using this
      intro x hx y hy
      have ex : x = a := by rcases List.mem_cons.1 hx with e | e; exact e; exact hall x e
      have ey : y = a := by rcases List.mem_cons.1 hy with e | e; exact e; exact hall y e
      rw [ex, ey]
    · intro h
      have hf : t.filter (fun b => !b == a) = [] := by
        apply List.filter_eq_nil_iff.2
        intro b hb
        have := h b (List.mem_cons_of_mem _ hb) a List.mem_cons_self
        simp [this]
      rw [hf]; rfl

/-- **`is_single_root` answers on every table, and answers "one weakly connected component"** -/
theorem isSingleRoot_total (pids : List Int) (hpos : 0 < pids.length)
    (hv : ∀ k (h : k < pids.length), pids[k] = -1 ∨ (0 ≤ pids[k] ∧ pids[k] < pids.length)) :
    ∃ b, isSingleRoot ((List.range pids.length).map Int.ofNat) pids = some b ∧
      (b = true ↔ ∀ x y, x < pids.length → y < pids.length → WConn pids.length (ptr pids) x y) := by
  obtain ⟨l, hget, hlen, hlab⟩ := getDsu_total pids hv
  refine ⟨l.eraseDups.length == 1, by simp [isSingleRoot, hget], ?_⟩
  rw [eraseDups_length_one]
  have hgd : ∀ x (hx : x < l.length), l.getD x 0 = l[x] := by
    intro x hx; simp [List.getD_eq_getElem?_getD, hx]
  constructor
  · rintro ⟨_, hall⟩ x y hx hy
    apply (hlab x y hx hy).1
    rw [hgd x (hlen ▸ hx), hgd y (hlen ▸ hy)]
    exact hall _ (List.getElem_mem _) _ (List.getElem_mem _)
  · intro h
    refine ⟨fun e => by rw [e] at hlen; simp at hlen; omega, ?_⟩
    intro x hx y hy
    obtain ⟨i, hi, rfl⟩ := List.getElem_of_mem hx
    obtain ⟨j, hj, rfl⟩ := List.getElem_of_mem hy
    rw [← hgd i hi, ← hgd j hj]
    exact (hlab i j (hlen ▸ hi) (hlen ▸ hj)).2 (h i j (hlen ▸ hi) (hlen ▸ hj))

-- non-vacuity: a table with a cycle (0 → 1 → 2 → 0, 3 hanging off it) and a separate root 4
example : getDsu ((List.range 5).map Int.ofNat) [1, 2, 0, 1, -1] = some [2, 2, 2, 2, 4] := by decide +kernel

/-- … so on a forest all labels are equal exactly when there is a single root -/
theorem forest_single_label_iff (n : Nat) (f dp : Nat → Nat) (hF : Forest n f dp) :
    (∀ i j, i < n → j < n → Forest.rootFn f dp i = Forest.rootFn f dp j) ↔
    (∀ a b, a < n → b < n → f a = a → f b = b → a = b) := by
  constructor
  · intro h a b ha hb ra rb
    have ea : Forest.rootFn f dp a = a := hF.iter_root a ra _
    have eb : Forest.rootFn f dp b = b := hF.iter_root b rb _
    rw [← ea, ← eb]; exact h a b ha hb
  · intro h i j hi hj
    apply h
    · exact hF.iter_lt _ i hi
    · exact hF.iter_lt _ j hj
    · exact hF.rootFn_is_root (dp i) i hi (Nat.le_refl _)
    · exact hF.rootFn_is_root (dp j) j hj (Nat.le_refl _)

theorem firstRootLoc_spec : ∀ (pids : List Int) (h : firstRootLoc pids < pids.length),
    pids[firstRootLoc pids] = -1
  | [], h => by simp at h
  | p :: ps, h => by
    by_cases e : p = -1
    · simp [firstRootLoc, e]
    · simp only [firstRootLoc, if_neg e] at h ⊢
      simpa using firstRootLoc_spec ps (by simpa using h)

/-- **`fix_roots="somas"`**: exactly the first root stays a root; every other root now hangs from it; every
row that had a parent keeps it (all original edges); no type is changed -/
theorem repair_somas (ids pids types : List Int) (ut : Option Int)
    (hl : ids.length = pids.length) (hr : firstRootLoc pids < pids.length) (hid : ∀ i ∈ ids, i ≠ -1) :
    let res := markRootsAsSomas ids pids types ut
    let loc := firstRootLoc pids
    res.1.length = pids.length ∧
    (∀ k (h : k < res.1.length), res.1[k] = -1 ↔ k = loc) ∧
    (∀ k (h : k < res.1.length) (h' : k < pids.length), pids[k] ≠ -1 → res.1[k] = pids[k]) ∧
    (∀ k (h : k < res.1.length) (h' : k < pids.length), pids[k] = -1 → k ≠ loc → res.1[k] = ids.getD loc 0) ∧
    (types.length = pids.length → res.2 = types) := by
  intro res loc
  have hloc : pids[loc]'hr = -1 := firstRootLoc_spec pids hr
  have hrid : ids.getD loc 0 ≠ -1 := by
    have hlt : loc < ids.length := by rw [hl]; exact hr
    have : ids.getD loc 0 = ids[loc] := by simp [List.getD_eq_getElem?_getD, hlt]
    rw [this]
    exact hid _ (List.getElem_mem hlt)
  have hlen : res.1.length = pids.length := by simp [res, markRootsAsSomas]
  have hget : ∀ k (h : k < res.1.length) (h' : k < pids.length),
      res.1[k] = if loc = k then -1 else (if pids[k] ≠ -1 then pids[k] else ids.getD loc 0) := by
    intro k h h'
    simp [res, markRootsAsSomas, List.getElem_set, loc]
  refine ⟨hlen, ?_, ?_, ?_, ?_⟩
  · intro k h
    have h' : k < pids.length := hlen ▸ h
    rw [hget k h h']
    by_cases e : loc = k
    · simp [e]
    · rw [if_neg e]
      constructor
      · intro hh
        split at hh
        · rename_i hne; exact absurd hh hne
        · exact absurd hh hrid
      · intro hh; exact absurd hh.symm e
  · intro k h h' hne
    rw [hget k h h']
    have e : loc ≠ k := by
      intro e; subst e; exact hne hloc
    rw [if_neg e, if_pos hne]
  · intro k h h' he hk
    rw [hget k h h', if_neg (Ne.symm hk), if_neg (by simpa using he)]
  · intro ht
    cases ut with
    | none => rfl
    | some t =>
      show (List.zip _ types).map _ = types
      have hall : ∀ pt ∈ List.zip (pids.map (fun p => if p ≠ -1 then p else ids.getD (firstRootLoc pids) 0)) types,
          (if pt.1 ≠ -1 then pt.2 else t) = pt.2 := by
        intro pt hpt
        have hm := (List.of_mem_zip (a := pt.1) (b := pt.2) hpt).1
        rw [List.mem_map] at hm
        obtain ⟨p, _, hp⟩ := hm
        have : pt.1 ≠ -1 := by
          rw [← hp]
          split
          · assumption
          · exact hrid
        rw [if_pos this]
      rw [List.map_congr_left hall]
      apply List.map_snd_zip
      simp [ht]

/-- **`fix_roots="nearest"`**, any ids: rows that had a parent keep it, the first root stays the root, every other
root is linked to (the id of) some row — partial; that the chosen row lies in another component, hence that
the result is a tree, is `repair_nearest_tree` below (row-numbered ids) -/
theorem repair_nearest_partial (ids pids : List Int) (dist2 : Nat → Nat → Int) (res : List Int)
    (hl : ids.length = pids.length) (hr : firstRootLoc pids < pids.length)
    (h : linkRootsToNearest ids pids dist2 = some res) :
    res.length = pids.length ∧
    (∀ k (h1 : k < res.length) (h2 : k < pids.length), pids[k] ≠ -1 → res[k] = pids[k]) ∧
    res.getD (firstRootLoc pids) 0 = -1 ∧
    (∀ k (h1 : k < res.length) (h2 : k < pids.length), pids[k] = -1 → k ≠ firstRootLoc pids → res[k] ∈ ids) := by
  simp only [linkRootsToNearest, Option.map_eq_some_iff] at h
  obtain ⟨dsu, _, rfl⟩ := h
  have hpos : 0 < ids.length := by omega
  have hloc : pids[firstRootLoc pids]'hr = -1 := firstRootLoc_spec pids hr
  have hmem : ∀ k, k ∈ (List.range pids.length).filter (fun k => pids.getD k 0 = -1) ↔
      k < pids.length ∧ pids.getD k 0 = -1 := by
    intro k; simp
  have hsorted : ((List.range pids.length).filter (fun k => pids.getD k 0 = -1)).Pairwise (· < ·) :=
    List.Pairwise.filter _ List.pairwise_lt_range
  have hdrop := mem_drop_one_of_sorted hsorted (m := firstRootLoc pids)
    ((hmem _).2 ⟨hr, by simp [List.getD_eq_getElem?_getD, hr, hloc]⟩)
    (fun x hx => firstRootLoc_min pids x ((hmem x).1 hx).2)
  obtain ⟨l1, l2, l3⟩ := linkLoop_spec ids dist2 hpos
    (((List.range pids.length).filter (fun k => pids.getD k 0 = -1)).drop 1) pids dsu
  refine ⟨l1, ?_, ?_, ?_⟩
  · intro k h1 h2 hne
    apply l2 k h1 h2
    intro hk
    have := ((hmem k).1 ((hdrop k).1 hk).1).2
    simp [List.getD_eq_getElem?_getD, h2] at this
    exact hne this
  · have hlt : firstRootLoc pids < (linkLoop ids dist2
        (((List.range pids.length).filter (fun k => pids.getD k 0 = -1)).drop 1) pids dsu).length := by
      rw [l1]; exact hr
    have e := l2 _ hlt hr (fun hk => ((hdrop _).1 hk).2 rfl)
    rw [hloc] at e
    rw [List.getD_eq_getElem?_getD, List.getElem?_eq_getElem hlt, Option.getD_some, e]
  · intro k h1 h2 he hk
    apply l3 k h1
    apply (hdrop k).2
    exact ⟨(hmem k).2 ⟨h2, by simp [List.getD_eq_getElem?_getD, h2, he]⟩, hk⟩

/-- **`fix_roots="nearest"` on any forest returns a single tree**: for every acyclic table (any numbering, `dp` a
measure dropping along every parent pointer) with at least one root and for every distance function, the
repair returns; exactly the first root stays a root; every row that had a parent keeps it; every parent names a
row; and some measure `dp'` drops along every parent pointer of the result — the result has no cycle, so
every row reaches the one root. -/
theorem repair_nearest_tree (pids : List Int) (dp : Nat → Nat) (dist2 : Nat → Nat → Int)
    (hv : ∀ k (h : k < pids.length), pids[k] = -1 ∨ (0 ≤ pids[k] ∧ pids[k] < pids.length))
    (hd : ∀ k (h : k < pids.length), pids[k] ≠ -1 → dp (pids[k]).toNat < dp k)
    (hb : ∀ k, k < pids.length → dp k < pids.length)
    (hr : firstRootLoc pids < pids.length) :
    ∃ (res : List Int) (dp' : Nat → Nat), linkRootsToNearest ((List.range pids.length).map Int.ofNat) pids dist2 = some res ∧
      ∃ hl : res.length = pids.length,
      (∀ k (h : k < res.length), res[k] = -1 ↔ k = firstRootLoc pids) ∧
      (∀ k (h : k < res.length), pids[k]'(hl ▸ h) ≠ -1 → res[k] = pids[k]'(hl ▸ h)) ∧
      (∀ k (h : k < res.length), res[k] ≠ -1 →
        0 ≤ res[k] ∧ res[k] < pids.length ∧ dp' (res[k]).toNat < dp' k) := by
  have hget : ∀ k (h : k < pids.length), pids.getD k (-1) = pids[k] := by
    intro k hk; simp [List.getD_eq_getElem?_getD, hk]
  have hget0 : ∀ k (h : k < pids.length), pids.getD k 0 = pids[k] := by
    intro k hk; simp [List.getD_eq_getElem?_getD, hk]
  have hF : Forest pids.length (ptr pids) dp := by
    refine ⟨?_, ?_, hb⟩
    · intro i hi
      unfold ptr
      rw [hget i hi]
      rcases hv i hi with e | ⟨h0, h1⟩
      · rw [if_pos e]; exact hi
      · rw [if_neg (by omega)]; omega
    · intro i hi
      unfold ptr
      rw [hget i hi]
      by_cases e : pids[i] = -1
      · left; rw [if_pos e]
      · right; rw [if_neg e]; exact hd i hi e
  have hdsu := getDsu_forest pids dp hv hd hb
  have hlabel : ∀ x, x < pids.length →
      ((List.range pids.length).map (Forest.rootFn (ptr pids) dp)).getD x 0 = Forest.rootFn (ptr pids) dp x := by
    intro x hx; simp [List.getD_eq_getElem?_getD, hx]
  -- the invariant holds before the loop
  have h0 : LInv pids.length pids ((List.range pids.length).map (Forest.rootFn (ptr pids) dp)) dp := by
    refine ⟨rfl, by simp, hv, hd, ?_, ?_⟩
    · intro k hk hne
      have hpn : (pids[k]).toNat < pids.length := by
        rcases hv k hk with c | ⟨c0, c1⟩
        · exact absurd c hne
        · omega
      rw [hlabel _ hpn, hlabel k hk]
      have hp : ptr pids k = (pids[k]).toNat := by
        unfold ptr; rw [hget k hk, if_neg hne]
      rw [← hp]
      have hroot := hF.rootFn_is_root (dp (ptr pids k)) (ptr pids k) (hF.closed k hk) (Nat.le_refl _)
      exact hF.root_unique k hk (dp (ptr pids k) + 1) hroot
    · intro a b ha hb' ra rb e
      rw [hlabel a ha, hlabel b hb'] at e
      have pa : ptr pids a = a := by unfold ptr; rw [hget a ha, if_pos ra]
      have pb : ptr pids b = b := by unfold ptr; rw [hget b hb', if_pos rb]
      have ea : Forest.rootFn (ptr pids) dp a = a := hF.iter_root a pa _
      have eb : Forest.rootFn (ptr pids) dp b = b := hF.iter_root b pb _
      rw [ea, eb] at e; exact e
  -- the roots to link
  have hloc : pids[firstRootLoc pids]'hr = -1 := firstRootLoc_spec pids hr
  have hmem : ∀ k, k ∈ (List.range pids.length).filter (fun k => pids.getD k 0 = -1) ↔
      k < pids.length ∧ pids.getD k 0 = -1 := by
    intro k; simp
  have hsorted : ((List.range pids.length).filter (fun k => pids.getD k 0 = -1)).Pairwise (· < ·) :=
    List.Pairwise.filter _ List.pairwise_lt_range
  have hdrop := mem_drop_one_of_sorted hsorted (m := firstRootLoc pids)
    ((hmem _).2 ⟨hr, by rw [hget0 _ hr, hloc]⟩)
    (fun x hx => firstRootLoc_min pids x ((hmem x).1 hx).2)
  have hnd : (((List.range pids.length).filter (fun k => pids.getD k 0 = -1)).drop 1).Nodup :=
    ((hsorted.imp (fun h => Nat.ne_of_lt h)).sublist (List.drop_sublist _ _))
  obtain ⟨dsu', dp', hfin⟩ := linkLoop_inv pids.length dist2 _ pids _ dp h0 hnd
    (fun i hi => by
      have := (hmem i).1 ((hdrop i).1 hi).1
      exact ⟨this.1, by rw [← hget0 i this.1]; exact this.2⟩)
    ⟨firstRootLoc pids, hr, hloc, fun e => ((hdrop _).1 e).2 rfl⟩
  have hres : linkRootsToNearest ((List.range pids.length).map Int.ofNat) pids dist2 =
      some (linkLoop ((List.range pids.length).map Int.ofNat) dist2
        (((List.range pids.length).filter (fun k => pids.getD k 0 = -1)).drop 1) pids
        ((List.range pids.length).map (Forest.rootFn (ptr pids) dp))) := by
    unfold linkRootsToNearest
    rw [hdsu]; rfl
  obtain ⟨p1, p2, p3, p4⟩ := repair_nearest_partial _ pids dist2 _ (by simp) hr hres
  refine ⟨_, dp', hres, p1, ?_, ?_, ?_⟩
  · intro k h
    have h' : k < pids.length := p1 ▸ h
    constructor
    · intro e
      apply Decidable.byContradiction
      intro hk
      by_cases c : pids[k] = -1
      · have := p4 k h h' c hk
        rw [e, List.mem_map] at this
        obtain ⟨m, _, hm⟩ := this
        have : (0 : Int) ≤ Int.ofNat m := Int.natCast_nonneg m
        omega
      · exact c ((p2 k h h' c) ▸ e)
    · intro e
      subst e
      have := p3
      rw [List.getD_eq_getElem?_getD, List.getElem?_eq_getElem h, Option.getD_some] at this
      exact this
  · intro k h hne
    exact p2 k h (p1 ▸ h) hne
  · intro k h hne
    have hk : k < (linkLoop ((List.range pids.length).map Int.ofNat) dist2
        (((List.range pids.length).filter (fun k => pids.getD k 0 = -1)).drop 1) pids
        ((List.range pids.length).map (Forest.rootFn (ptr pids) dp))).length := h
    rcases hfin.valid k hk with c | ⟨c0, c1⟩
    · exact absurd c hne
    · exact ⟨c0, c1, hfin.drop k hk hne⟩

-- non-vacuity: three fragments (roots at rows 0, 2, 4) on a line; row 2 is linked below row 4 (the nearest outside its own fragment), then row 4 below row 1: one tree
example : linkRootsToNearest ((List.range 5).map Int.ofNat) [-1, 0, -1, 2, -1]
    (fun i j => let xs : List Int := [0, 1, 5, 6, 8]; (xs.getD i 0 - xs.getD j 0) * (xs.getD i 0 - xs.getD j 0))
    = some [-1, 0, 4, 2, 1] := by decide +kernel

-- non-vacuity / concrete behaviour (kernel-evaluated)
example : runOps (init 4) [.union 0 1, .same 0 1, .same 1 2, .union 2 3, .union 1 3, .same 0 2] = [some true, some false, some true] := by
  decide +kernel
example : hasCyclic [0, 1, 2] [-1, 2, 1] = some true := by decide +kernel
example : hasCyclic [0, 1, 2] [-1, 0, 0] = some false := by decide +kernel
example : isBifurcate [0, 1, 2, 3, 4] [-1, 0, 1, 1, 1] true = false := by decide +kernel
example : isBifurcate [0, 1, 2, 3] [-1, 0, 0, 0] true = true ∧ isBifurcate [0, 1, 2, 3] [-1, 0, 0, 0] false = false := by decide +kernel
example : getDsu [0, 1, 2, 3] [-1, 0, 1, -1] = some [0, 0, 0, 3] := by decide +kernel
example : markRootsAsSomas [1, 2, 3] [-1, 1, -1] [3, 3, 2] (some 1) = ([-1, 1, 1], [3, 3, 2]) := by decide +kernel

end C18
