import SwcVerif.Proofs.Dsu
/-! # C18 — topology diagnosis and root repair tell the truth about any parent table

Theorems about the models in `Model/Dsu.lean` (tied to the code by the `c18.dsu`, `c18.checkers`
(every parent table with n ≤ 5) and `c18.repair` correspondence suites). -/
namespace C18
open Dsu

/-- the pairs united so far by a script -/
def unions : List Op → List (Nat × Nat)
  | [] => []
  | .union a b :: t => (a, b) :: unions t
  | .same _ _ :: t => unions t

/-- "some sequence of the unions performed connects them": the equivalence closure of the pair list -/
inductive Conn (E : List (Nat × Nat)) : Nat → Nat → Prop where
  | refl (x : Nat) : Conn E x x
  | edge {a b : Nat} : (a, b) ∈ E → Conn E a b
  | symm {a b : Nat} : Conn E a b → Conn E b a
  | trans {a b c : Nat} : Conn E a b → Conn E b c → Conn E a c

def ValidOp (n : Nat) : Op → Prop
  | .union a b => a < n ∧ b < n
  | .same a b => a < n ∧ b < n

/-- the structure after a script of valid operations (queries compress paths, so they change it too) -/
def stateAfter (n : Nat) (ops : List Op) : D :=
  ops.foldl (fun d op => match stepOp d op with
    | some (d', _) => d'
    | none => d) (init n)

/-- **The disjoint-set structure tells the truth for every history**: after any sequence of unions and
queries on `n` elements, `is_same_set a b` answers `True` exactly when some sequence of the unions
performed so far connects `a` and `b`. -/
theorem dsu_refines_partition (n : Nat) (ops : List Op) (hv : ∀ op ∈ ops, ValidOp n op) (a b : Nat)
    (ha : a < n) (hb : b < n) :
    (same (stateAfter n ops) a b).1 = true ↔ Conn (unions ops) a b := by
  sorry

/-- the answers the driver prints are exactly these queries, in order: running a script is running
`stepOp` from left to right -/
theorem runOps_cons (d : D) (op : Op) (ops : List Op) (d' : D) (ans : Option Bool) (h : stepOp d op = some (d', ans)) :
    runOps d (op :: ops) = (match op with | .same .. => [ans] | _ => []) ++ runOps d' ops := by
  sorry

/-- invalid nodes are rejected (AssertionError / IndexError), never answered -/
theorem invalid_rejected (d : D) (a b : Nat) (h : ¬ (a < d.n ∧ b < d.n)) :
    stepOp d (.union a b) = none ∧ stepOp d (.same a b) = none := by
  sorry

/-! ## has_cyclic -/

/-- the undirected edges `(id, pid)` of the non-root rows -/
def rowEdges : List Int → List Int → List (Nat × Nat)
  | i :: is, p :: ps => if p = -1 then rowEdges is ps else (i.toNat, p.toNat) :: rowEdges is ps
  | _, _ => []

/-- ids / parents usable as DSU nodes: `0 ≤ · < n` (parents may be `-1`) -/
def ValidTable (ids pids : List Int) : Prop :=
  ids.length = pids.length ∧ (∀ i ∈ ids, 0 ≤ i ∧ i < ids.length) ∧ (∀ p ∈ pids, p = -1 ∨ (0 ≤ p ∧ p < ids.length))

/-- **`has_cyclic` is true exactly when some row joins two nodes that the earlier rows already connect**
(i.e. the undirected graph of the table has a cycle; in a parent table, where every node has at most one
outgoing edge, that is a directed cycle). -/
theorem hasCyclic_spec (ids pids : List Int) (hv : ValidTable ids pids) :
    (hasCyclic ids pids = some true ↔
      ∃ k, ∃ h1 : k < ids.length, ∃ h2 : k < pids.length, pids[k] ≠ -1 ∧
        Conn (rowEdges (ids.take k) (pids.take k)) ids[k].toNat pids[k].toNat) ∧
    (hasCyclic ids pids = some true ∨ hasCyclic ids pids = some false) := by
  sorry

/-! ## is_bifurcate, is_sorted -/

/-- **`is_bifurcate` is true exactly when no node — other than the roots when they are exempt — has more
than two children**, on every table -/
theorem isBifurcate_correct (ids pids : List Int) (excl : Bool) :
    isBifurcate ids pids excl = true ↔
      ∀ k : Int, k ≠ -1 → ¬ (excl = true ∧ k ∈ tableKids ids pids (-1)) → (tableKids ids pids k).length ≤ 2 := by
  sorry

/-! ## get_dsu / is_single_root -/

/-- when the `while` loop of `get_dsu` stops, every label is a fixed point of the pointer array (so
labels name component representatives), and one more pass changes nothing -/
theorem jumpPass_stop (dsu : List Nat) (hb : ∀ x ∈ dsu, x < dsu.length) (h : (jumpPass dsu).2 = true) :
    (jumpPass dsu).1 = dsu ∧ ∀ i (hi : i < dsu.length), dsu.getD (dsu[i]) 0 = dsu[i] := by
  sorry

theorem getDsu_fixpoint (ids pids : List Int) (l : List Nat) (hl : ids.length = pids.length) (h : getDsu ids pids = some l) :
    l.length = ids.length ∧ ∀ i (hi : i < l.length), l.getD (l[i]) 0 = l[i] := by
  sorry

/-- root of row `i` in a sorted forest table (`ids = 0..n-1`, every parent smaller than its child) -/
def rootOfSorted (pids : List Int) : Nat → Nat → Nat
  | 0, i => i
  | f+1, i => match pids.getD i (-1) with
    | -1 => i
    | p => rootOfSorted pids f p.toNat

/-- **on a sorted forest the labelling is "root of my tree"**, so `is_single_root` is true exactly when
there is exactly one root (partial: sorted tables; the general forest / cyclic case is covered by the
exhaustive n ≤ 5 correspondence and the oracle only) -/
theorem getDsu_sorted_forest_partial (pids : List Int)
    (hs : ∀ k (h : k < pids.length), pids[k] = -1 ∨ (0 ≤ pids[k] ∧ pids[k] < (k : Int))) :
    getDsu ((List.range pids.length).map Int.ofNat) pids
      = some ((List.range pids.length).map (rootOfSorted pids pids.length)) := by
  sorry

/-! ## root repair -/

/-- **`fix_roots="somas"`**: exactly the first root stays a root; every other root now hangs from it; every
row that had a parent keeps it (all original edges); no type is changed -/
theorem repair_somas (ids pids types : List Int) (ut : Option Int)
    (hl : ids.length = pids.length) (hr : firstRootLoc pids < pids.length) (hid : ∀ i ∈ ids, i ≠ -1) :
    let res := markRootsAsSomas ids pids types ut
    let loc := firstRootLoc pids
    res.1.length = pids.length ∧
    (∀ k (h : k < res.1.length), res.1[k] = -1 ↔ k = loc) ∧
    (∀ k (h : k < res.1.length) (h' : k < pids.length), pids[k] ≠ -1 → res.1[k] = pids[k]) ∧
    (∀ k (h : k < res.1.length) (h' : k < pids.length), pids[k] = -1 → k ≠ loc → res.1[k] = ids.getD loc 0) ∧
    (types.length = pids.length → res.2 = types) := by
  sorry

/-- **`fix_roots="nearest"`**: rows that had a parent keep it, the first root stays the root, every other
root is linked to (the id of) some row — partial: that the chosen row lies in another component, hence
that the result is a tree, is checked by the oracle on generated files, not proved -/
theorem repair_nearest_partial (ids pids : List Int) (dist2 : Nat → Nat → Int) (res : List Int)
    (hl : ids.length = pids.length) (hr : firstRootLoc pids < pids.length)
    (h : linkRootsToNearest ids pids dist2 = some res) :
    res.length = pids.length ∧
    (∀ k (h1 : k < res.length) (h2 : k < pids.length), pids[k] ≠ -1 → res[k] = pids[k]) ∧
    res.getD (firstRootLoc pids) 0 = -1 ∧
    (∀ k (h1 : k < res.length) (h2 : k < pids.length), pids[k] = -1 → k ≠ firstRootLoc pids → res[k] ∈ ids) := by
  sorry

-- non-vacuity / concrete behaviour (kernel-evaluated)
example : runOps (init 4) [.union 0 1, .same 0 1, .same 1 2, .union 2 3, .union 1 3, .same 0 2] = [some true, some false, some true] := by
  decide +kernel
example : hasCyclic [0, 1, 2] [-1, 2, 1] = some true := by decide +kernel
example : hasCyclic [0, 1, 2] [-1, 0, 0] = some false := by decide +kernel
example : isBifurcate [0, 1, 2, 3, 4] [-1, 0, 1, 1, 1] true = false := by decide +kernel
example : isBifurcate [0, 1, 2, 3] [-1, 0, 0, 0] true = true ∧ isBifurcate [0, 1, 2, 3] [-1, 0, 0, 0] false = false := by decide +kernel
example : getDsu [0, 1, 2, 3] [-1, 0, 1, -1] = some [0, 0, 0, 3] := by decide +kernel
example : markRootsAsSomas [1, 2, 3] [-1, 1, -1] [3, 3, 2] (some 1) = ([-1, 1, 1], [3, 3, 2]) := by decide +kernel

end C18
