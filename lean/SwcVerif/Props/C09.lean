import SwcVerif.Model.Views
/-! # C09 — node, path, branch and segment views are faithful windows onto their tree

Theorems about the heap model `Model/Views.lean` (tied to the code by the `c09.history` correspondence on
random operation histories and by `np.shares_memory` observations). -/
namespace C09
open Views

/-! ## helper lemmas -/
/-- the column table of an object whose columns were allocated consecutively from array id `n` -/
def objCols (n : Nat) (cols : List (Col × List Int)) : List (Col × ArrId) :=
  (cols.zipIdx n).map fun p => (p.1.1, p.2)

theorem newObject_fold (cols : List (Col × List Int)) (h : Heap) (acc : List (Col × ArrId)) :
    cols.foldl (fun (acc : Heap × List (Col × ArrId)) cd =>
      let a := acc.1.alloc cd.2
      (a.1, acc.2 ++ [(cd.1, a.2)])) (h, acc) =
    ({ h with arrs := h.arrs ++ cols.map (·.2) }, acc ++ objCols h.arrs.length cols) := by
  induction cols generalizing h acc with
  | nil => simp [objCols]
  | cons cd cols ih =>
    rw [List.foldl_cons, ih]
    simp [Heap.alloc, objCols, List.zipIdx_cons]

theorem newObject_eq (h : Heap) (cols : List (Col × List Int)) :
    newObject h cols =
      (⟨h.arrs ++ cols.map (·.2), h.objs ++ [⟨objCols h.arrs.length cols⟩], h.views⟩, h.objs.length) := by
  simp [newObject, newObject_fold]

theorem objCols_length (n : Nat) (cols : List (Col × List Int)) : (objCols n cols).length = cols.length := by
  simp [objCols]

theorem objCols_getElem (n : Nat) (cols : List (Col × List Int)) (k : Nat) (hk : k < (objCols n cols).length) :
    (objCols n cols)[k] = ((cols[k]'(by simpa [objCols] using hk)).1, n + k) := by
  simp [objCols]

theorem objCols_names (n : Nat) (cols : List (Col × List Int)) :
    (objCols n cols).map (·.1) = cols.map (·.1) := by
  apply List.ext_getElem <;> simp [objCols]

theorem objCols_mem (n : Nat) (cols : List (Col × List Int)) (ca : Col × ArrId) (hm : ca ∈ objCols n cols) :
    ∃ k, ∃ (hk : k < cols.length), ca = (cols[k].1, n + k) := by
  obtain ⟨k, hk, rfl⟩ := List.mem_iff_getElem.mp hm
  exact ⟨k, by simpa [objCols] using hk, objCols_getElem n cols k hk⟩

theorem mapM_some {α β} (f : α → Option β) : ∀ (l : List α) (l' : List β), l.mapM f = some l' →
    l'.length = l.length ∧ ∀ k (h1 : k < l.length) (h2 : k < l'.length), f l[k] = some l'[k] := by
  intro l
  induction l with
  | nil => intro l' h; simp at h; subst h; simp
  | cons a l ih =>
    intro l' h
    rw [List.mapM_cons] at h
    cases hfa : f a with
    | none => simp [hfa] at h
    | some b =>
      cases hl : l.mapM f with
      | none => simp [hfa, hl] at h
      | some bs =>
        simp [hfa, hl] at h
        subst h
        obtain ⟨i1, i2⟩ := ih bs hl
        refine ⟨by simp [i1], ?_⟩
        intro k h1 h2
        cases k with
        | zero => simpa using hfa
        | succ k => simpa using i2 k (by simpa using h1) (by simpa using h2)

theorem mapM_isSome {α β} (f : α → Option β) : ∀ (l : List α), (∀ a ∈ l, (f a).isSome) → (l.mapM f).isSome := by
  intro l
  induction l with
  | nil => intro _; simp
  | cons a l ih =>
    intro h
    rw [List.mapM_cons]
    have h1 := h a (by simp)
    have h2 := ih (fun x hx => h x (by simp [hx]))
    obtain ⟨b, hb⟩ := Option.isSome_iff_exists.mp h1
    obtain ⟨bs, hbs⟩ := Option.isSome_iff_exists.mp h2
    simp [hb, hbs]

/-- every column of every object names an allocated array, and no array is named twice (by two objects or by
two columns): distinct owners have disjoint storage -/
def WFHeap (h : Heap) : Prop :=
  (∀ o (ho : o < h.objs.length), ∀ ca ∈ (h.objs[o]).cols, ca.2 < h.arrs.length) ∧
  (∀ o1 o2 (h1 : o1 < h.objs.length) (h2 : o2 < h.objs.length), ∀ ca1 ∈ (h.objs[o1]).cols, ∀ ca2 ∈ (h.objs[o2]).cols,
      ca1.2 = ca2.2 → o1 = o2 ∧ ca1.1 = ca2.1) ∧
  (∀ o (ho : o < h.objs.length), ((h.objs[o]).cols.map (·.1)).Nodup)

/-- `WFHeap` phrased with `getElem?` (easier to transport along `++`) -/
def WFHeap' (arrsLen : Nat) (objs : List Obj) : Prop :=
  (∀ (o : Nat) (ob : Obj), objs[o]? = some ob → ∀ ca ∈ ob.cols, ca.2 < arrsLen) ∧
  (∀ (o1 o2 : Nat) (ob1 ob2 : Obj), objs[o1]? = some ob1 → objs[o2]? = some ob2 → ∀ ca1 ∈ ob1.cols, ∀ ca2 ∈ ob2.cols,
      ca1.2 = ca2.2 → o1 = o2 ∧ ca1.1 = ca2.1) ∧
  (∀ (o : Nat) (ob : Obj), objs[o]? = some ob → (ob.cols.map (·.1)).Nodup)

theorem wf_iff (h : Heap) : WFHeap h ↔ WFHeap' h.arrs.length h.objs := by
  constructor
  · rintro ⟨w1, w2, w3⟩
    refine ⟨?_, ?_, ?_⟩
    · intro o ob ho
      obtain ⟨h1, rfl⟩ := List.getElem?_eq_some_iff.mp ho
      exact w1 o h1
    · intro o1 o2 ob1 ob2 ho1 ho2
      obtain ⟨h1, rfl⟩ := List.getElem?_eq_some_iff.mp ho1
      obtain ⟨h2, rfl⟩ := List.getElem?_eq_some_iff.mp ho2
      exact w2 o1 o2 h1 h2
    · intro o ob ho
      obtain ⟨h1, rfl⟩ := List.getElem?_eq_some_iff.mp ho
      exact w3 o h1
  · rintro ⟨w1, w2, w3⟩
    refine ⟨?_, ?_, ?_⟩
    · intro o ho
      exact w1 o _ (List.getElem?_eq_getElem ho)
    · intro o1 o2 h1 h2
      exact w2 o1 o2 _ _ (List.getElem?_eq_getElem h1) (List.getElem?_eq_getElem h2)
    · intro o ho
      exact w3 o _ (List.getElem?_eq_getElem ho)

theorem getElem?_snoc {α} (l : List α) (x : α) (o : Nat) (y : α) (hy : (l ++ [x])[o]? = some y) :
    l[o]? = some y ∨ (o = l.length ∧ y = x) := by
  by_cases h : o < l.length
  · left; rwa [List.getElem?_append_left h] at hy
  · right
    rw [List.getElem?_append_right (by omega)] at hy
    have : o - l.length = 0 := by
      rcases Nat.eq_zero_or_pos (o - l.length) with h0 | h0
      · exact h0
      · rw [List.getElem?_eq_none (by simp; omega)] at hy; cases hy
    rw [this] at hy
    simp at hy
    exact ⟨by omega, hy.symm⟩

theorem wf'_snoc (n : Nat) (objs : List Obj) (cols : List (Col × List Int))
    (hw : WFHeap' n objs) (hn : (cols.map (·.1)).Nodup) :
    WFHeap' (n + cols.length) (objs ++ [⟨objCols n cols⟩]) := by
  obtain ⟨w1, w2, w3⟩ := hw
  have old : ∀ o ob, objs[o]? = some ob → o < objs.length := fun o ob ho =>
    (List.getElem?_eq_some_iff.mp ho).1
  refine ⟨?_, ?_, ?_⟩
  · intro o ob ho ca hca
    rcases getElem?_snoc _ _ _ _ ho with ho | ⟨-, rfl⟩
    · have : @LT.lt Nat _ ca.2 n := w1 o ob ho ca hca
      show @LT.lt Nat _ ca.2 (n + cols.length)
      omega
    · obtain ⟨k, hk, rfl⟩ := objCols_mem _ _ _ hca
      simp; omega
  · intro o1 o2 ob1 ob2 ho1 ho2 ca1 hca1 ca2 hca2 e
    rcases getElem?_snoc _ _ _ _ ho1 with ho1 | ⟨rfl, rfl⟩ <;>
      rcases getElem?_snoc _ _ _ _ ho2 with ho2 | ⟨rfl, rfl⟩
    · exact w2 o1 o2 ob1 ob2 ho1 ho2 ca1 hca1 ca2 hca2 e
    · exfalso
      have : @LT.lt Nat _ ca1.2 n := w1 o1 ob1 ho1 ca1 hca1
      obtain ⟨k, hk, rfl⟩ := objCols_mem _ _ _ hca2
      have e' : @Eq Nat ca1.2 (n + k) := e
      omega
    · exfalso
      have : @LT.lt Nat _ ca2.2 n := w1 o2 ob2 ho2 ca2 hca2
      obtain ⟨k, hk, rfl⟩ := objCols_mem _ _ _ hca1
      have e' : @Eq Nat (n + k) ca2.2 := e
      omega
    · obtain ⟨k1, hk1, rfl⟩ := objCols_mem _ _ _ hca1
      obtain ⟨k2, hk2, rfl⟩ := objCols_mem _ _ _ hca2
      simp at e
      subst e
      exact ⟨rfl, rfl⟩
  · intro o ob ho
    rcases getElem?_snoc _ _ _ _ ho with ho | ⟨-, rfl⟩
    · exact w3 o ob ho
    · rw [objCols_names]; exact hn

theorem newObject_wf (h : Heap) (cols : List (Col × List Int)) (hw : WFHeap h) (hn : (cols.map (·.1)).Nodup) :
    WFHeap (newObject h cols).1 := by
  rw [wf_iff] at hw ⊢
  rw [newObject_eq]
  simpa using wf'_snoc _ _ cols hw hn

theorem setArr_arr_self (h : Heap) (a k : Nat) (v : Int) (ha : a < h.arrs.length) :
    (setArr h a k v).arr a = (h.arr a).set k v := by
  simp [setArr, Heap.arr, List.getD, ha]

theorem setArr_arr_ne (h : Heap) (a a' k : Nat) (v : Int) (hne : a' ≠ a) :
    (setArr h a k v).arr a' = h.arr a' := by
  simp [setArr, Heap.arr, List.getD, Ne.symm hne]

/-- `colArr` returns a pair that is in the object's column list -/
theorem colArr_mem (h : Heap) (o : Nat) (c : Col) (a : ArrId) (ha : h.colArr o c = some a) :
    ∃ (ho : o < h.objs.length), (c, a) ∈ (h.objs[o]).cols := by
  unfold Heap.colArr at ha
  cases hob : h.objs[o]? with
  | none => simp [hob] at ha
  | some ob =>
    obtain ⟨ho, hob'⟩ := List.getElem?_eq_some_iff.mp hob
    refine ⟨ho, ?_⟩
    simp only [hob, Option.bind_some, Obj.col?, Option.map_eq_some_iff] at ha
    obtain ⟨p, hp, rfl⟩ := ha
    have h1 := List.find?_some hp
    have h2 := List.mem_of_find?_eq_some hp
    simp only [beq_iff_eq] at h1
    subst h1 hob'
    exact h2

theorem colArr_lt (h : Heap) (hw : WFHeap h) (o : Nat) (c : Col) (a : ArrId) (ha : h.colArr o c = some a) :
    a < h.arrs.length := by
  obtain ⟨ho, hm⟩ := colArr_mem h o c a ha
  exact hw.1 o ho _ hm

theorem getIdx_nat (k n : Nat) (hk : k < n) : Pop.getIdx (k : Int) n = some k := by
  unfold Pop.getIdx
  rw [if_neg (by simp; omega), if_neg (by omega)]; simp

theorem wf_congr (h h' : Heap) (ha : h'.arrs.length = h.arrs.length) (ho : h'.objs = h.objs) (hw : WFHeap h) :
    WFHeap h' := by
  rw [wf_iff] at hw ⊢
  rw [ha, ho]; exact hw

theorem setArr_wf (h : Heap) (a k : Nat) (v : Int) (hw : WFHeap h) : WFHeap (setArr h a k v) :=
  wf_congr h _ (by simp [setArr]) rfl hw

theorem wf_names (h : Heap) (hw : WFHeap h) (o : Nat) (ob : Obj) (ho : h.objs[o]? = some ob) :
    (ob.cols.map (·.1)).Nodup := ((wf_iff h).mp hw).2.2 o ob ho

/-- the `id` / `pid` renumbering of `detach` keeps the column names -/
theorem detach_names (h : Heap) (idx : List Int) (n : Nat) (obcols : List (Col × ArrId)) (cols : List (Col × List Int))
    (hm : obcols.mapM (fun ca => (fancy (h.arr ca.2) idx).map fun d => (ca.1, d)) = some cols) :
    (cols.map fun cd =>
      if cd.1 == "id" then (cd.1, (List.range n).map Int.ofNat)
      else if cd.1 == "pid" then (cd.1, (List.range n).map fun (k : Nat) => (k : Int) - 1)
      else cd).map (·.1) = obcols.map (·.1) := by
  obtain ⟨hl, hk⟩ := mapM_some _ _ _ hm
  apply List.ext_getElem
  · simp [hl]
  · intro k h1 h2
    have h3 : k < obcols.length := by simpa using h2
    have h4 : k < cols.length := by simpa using h1
    have := hk k h3 h4
    simp only [Option.map_eq_some_iff] at this
    obtain ⟨d, -, hd⟩ := this
    simp only [List.getElem_map]
    rw [← hd]
    simp only
    split
    · rfl
    · split <;> rfl

theorem find?_of_nodup (l : List (Col × ArrId)) (hn : (l.map (·.1)).Nodup) (c : Col) (a : ArrId) (hm : (c, a) ∈ l) :
    l.find? (·.1 == c) = some (c, a) := by
  induction l with
  | nil => cases hm
  | cons p l ih =>
    simp only [List.map_cons, List.nodup_cons] at hn
    rcases List.mem_cons.mp hm with rfl | hm'
    · simp
    · have hne : p.1 ≠ c := by
        intro e
        apply hn.1
        rw [e]
        exact List.mem_map.mpr ⟨(c, a), hm', rfl⟩
      rw [List.find?_cons_of_neg (by simpa using hne)]
      exact ih hn.2 hm'

/-- the new object's column `k` is the fresh array `arrs.length + k`, holding the `k`-th data -/
theorem newObject_col (h : Heap) (cols : List (Col × List Int)) (hn : (cols.map (·.1)).Nodup)
    (k : Nat) (hk : k < cols.length) :
    (newObject h cols).1.colArr h.objs.length cols[k].1 = some (h.arrs.length + k) ∧
    (newObject h cols).1.arr (h.arrs.length + k) = cols[k].2 := by
  rw [newObject_eq]
  constructor
  · simp only [Heap.colArr, List.getElem?_append_right (Nat.le_refl _), Nat.sub_self, List.getElem?_cons_zero,
      Option.bind_some, Obj.col?]
    rw [find?_of_nodup _ (by rw [objCols_names]; exact hn) cols[k].1 (h.arrs.length + k)]
    · rfl
    · have hk' : k < (objCols h.arrs.length cols).length := by rw [objCols_length]; exact hk
      rw [← objCols_getElem _ _ k hk']
      exact List.getElem_mem _
  · simp [Heap.arr, List.getD, hk]

theorem newObject_arr_old (h : Heap) (cols : List (Col × List Int)) (a : Nat) (ha : a < h.arrs.length) :
    (newObject h cols).1.arr a = h.arr a := by
  rw [newObject_eq]
  simp [Heap.arr, List.getD, List.getElem?_append_left ha]

theorem colArr_of_mem (h : Heap) (hw : WFHeap h) (o : Nat) (ob : Obj) (hob : h.objs[o]? = some ob)
    (c : Col) (a : ArrId) (hm : (c, a) ∈ ob.cols) : h.colArr o c = some a := by
  simp only [Heap.colArr, hob, Option.bind_some, Obj.col?]
  rw [find?_of_nodup _ (wf_names h hw o ob hob) c a hm]; rfl

/-- a freshly built tree is well formed (distinct column names) -/
theorem mkTree_wf (cols : List (Col × List Int)) (hn : (cols.map (·.1)).Nodup) : WFHeap (mkTree cols) := by
  apply newObject_wf _ _ _ hn
  refine ⟨?_, ?_, ?_⟩ <;> intro o <;> simp

/-- **the invariant holds after every operation of every history** -/
theorem step_wf (h : Heap) (op : Op) (hw : WFHeap h) : WFHeap (step h op).1 := by
  cases op with
  | readCol o c => simp only [step] <;> (repeat' split) <;> exact hw
  | nodeRead o i c => simp only [step] <;> (repeat' split) <;> exact hw
  | viewRead v c => simp only [step] <;> (repeat' split) <;> exact hw
  | viewNodeRead v k c => simp only [step] <;> (repeat' split) <;> exact hw
  | segments o => simp only [step] <;> (repeat' split) <;> exact hw
  | viewSegments v => simp only [step] <;> (repeat' split) <;> exact hw
  | nodeWrite o i c v =>
    simp only [step]
    split
    · split
      · exact setArr_wf _ _ _ _ hw
      · exact hw
    · exact hw
  | ownerWrite o k c v =>
    simp only [step]
    split
    · split
      · exact setArr_wf _ _ _ _ hw
      · exact hw
    · exact hw
  | mkView o idx => exact wf_congr h _ rfl rfl hw
  | copy o =>
    simp only [step]
    split
    · rename_i ob hob
      apply newObject_wf _ _ hw
      have := wf_names h hw o ob hob
      simpa [List.map_map, Function.comp_def] using this
    · exact hw
  | detach v =>
    simp only [step]
    split
    · rename_i vw hvw
      split
      · rename_i ob hob
        split
        · rename_i cols hcols
          apply newObject_wf _ _ hw
          rw [detach_names h vw.idx vw.idx.length ob.cols cols hcols]
          exact wf_names h hw _ ob hob
        · exact hw
      · exact hw
    · exact hw
theorem run_wf (h : Heap) (ops : List Op) (hw : WFHeap h) : WFHeap (run h ops).1 := by
  unfold run
  suffices ∀ (acc : Heap × List Out), WFHeap acc.1 →
      WFHeap (ops.foldl (fun acc op => let r := step acc.1 op; (r.1, acc.2 ++ [r.2])) acc).1 from this (h, []) hw
  induction ops with
  | nil => intro acc h; exact h
  | cons op ops ih =>
    intro acc h
    rw [List.foldl_cons]
    exact ih _ (step_wf _ _ h)

/-- **index normalisation** of node handles: `0 ≤ i < n` is itself, `-n ≤ i < 0` counts from the end, anything
else is an IndexError -/
theorem at_spec (l : List Int) (i : Int) :
    (0 ≤ i → i < l.length → at? l i = some (l.getD i.toNat 0)) ∧
    (-(l.length : Int) ≤ i → i < 0 → at? l i = some (l.getD (i + l.length).toNat 0)) ∧
    (i < -(l.length : Int) ∨ (l.length : Int) ≤ i → at? l i = none) := by
  unfold at? Pop.getIdx
  refine ⟨?_, ?_, ?_⟩
  · intro h1 h2
    rw [if_neg (by simp; omega), if_neg (by omega)]; rfl
  · intro h1 h2
    rw [if_neg (by simp; omega), if_pos (by omega)]; rfl
  · intro h
    rw [if_pos (by simp; omega)]; rfl

/-- **a view reports exactly the attributes of the nodes it refers to, in order, at the CURRENT state of the
owner** (so it tracks every later write): reading column `c` through view `v` is the owner's array of `c`,
as it is now, read at the view's indices -/
theorem view_reads_owner (h : Heap) (v : Nat) (vw : View) (c : Col) (a : ArrId)
    (hv : h.views[v]? = some vw) (ha : h.colArr vw.owner c = some a) :
    (step h (.viewRead v c)).2 = (match fancy (h.arr a) vw.idx with | some l => .vals l | none => .err) ∧
    (step h (.viewRead v c)).1 = h := by
  simp only [step, hv, viewCol, ha, Option.bind_some]
  cases fancy (h.arr a) vw.idx <;> simp

/-- reading never changes the heap -/
theorem reads_pure (h : Heap) (op : Op)
    (hr : (∃ o c, op = .readCol o c) ∨ (∃ o i c, op = .nodeRead o i c) ∨ (∃ v c, op = .viewRead v c) ∨
          (∃ v k c, op = .viewNodeRead v k c) ∨ (∃ o, op = .segments o) ∨ (∃ v, op = .viewSegments v)) :
    (step h op).1 = h := by
  rcases hr with ⟨o, c, rfl⟩ | ⟨o, i, c, rfl⟩ | ⟨v, c, rfl⟩ | ⟨v, k, c, rfl⟩ | ⟨o, rfl⟩ | ⟨v, rfl⟩ <;>
    simp only [step] <;> (repeat' split) <;> rfl

/-- **assigning through a node handle of a tree is visible in the owner**: exactly the addressed cell of the
owner's array changes; every other array — in particular every array of every other object — is untouched -/
theorem node_write_through (h : Heap) (hw : WFHeap h) (o : Nat) (i : Int) (c : Col) (v : Int) (a : ArrId) (k : Nat)
    (ha : h.colArr o c = some a) (hk : Pop.getIdx i (h.arr a).length = some k) :
    let h' := (step h (.nodeWrite o i c v)).1
    h'.arr a = (h.arr a).set k v ∧ (∀ a', a' ≠ a → h'.arr a' = h.arr a') ∧ h'.objs = h.objs ∧ h'.views = h.views := by
  simp only [step, ha, hk]
  exact ⟨setArr_arr_self h a k v (colArr_lt h hw o c a ha), fun a' hne => setArr_arr_ne h a a' k v hne, rfl, rfl⟩

/-- … and therefore every view of that owner sees the new value at once -/
theorem write_then_view_read (h : Heap) (hw : WFHeap h) (o : Nat) (k : Nat) (c : Col) (x : Int) (a : ArrId)
    (ha : h.colArr o c = some a) (hk : k < (h.arr a).length) (v : Nat) (vw : View) (hv : h.views[v]? = some vw) (ho : vw.owner = o) :
    let h' := (step h (.nodeWrite o (k : Int) c x)).1
    (step h' (.viewRead v c)).2 = (match fancy ((h.arr a).set k x) vw.idx with | some l => .vals l | none => .err) := by
  intro h'
  obtain ⟨h1, _, h3, h4⟩ := node_write_through h hw o k c x a k ha (getIdx_nat _ _ hk)
  change h'.arr a = _ at h1
  change h'.objs = _ at h3
  change h'.views = _ at h4
  have hv' : h'.views[v]? = some vw := by rw [h4]; exact hv
  have ha' : h'.colArr vw.owner c = some a := by
    rw [ho]; unfold Heap.colArr; rw [h3]; exact ha
  simp only [step, hv', viewCol, ha', Option.bind_some, h1]
  cases fancy ((h.arr a).set k x) vw.idx <;> rfl

/-- **a tree copy has equal content and its own storage** -/
theorem copy_fresh (h : Heap) (hw : WFHeap h) (o : Nat) (ho : o < h.objs.length) :
    let r := step h (.copy o)
    r.2 = .newObj h.objs.length ∧ r.1.objs.length = h.objs.length + 1 ∧
    (∀ a, a < h.arrs.length → r.1.arr a = h.arr a) ∧
    (∀ c a, h.colArr o c = some a → ∃ a', r.1.colArr h.objs.length c = some a' ∧ h.arrs.length ≤ a' ∧ r.1.arr a' = h.arr a) := by
  have hob : h.objs[o]? = some h.objs[o] := List.getElem?_eq_getElem ho
  simp only [step, hob]
  generalize hcols : (h.objs[o].cols.map fun ca => (ca.1, h.arr ca.2)) = cols
  have hn : (cols.map (·.1)).Nodup := by
    have := wf_names h hw o _ hob
    rw [← hcols]
    simpa [List.map_map, Function.comp_def] using this
  refine ⟨by rw [newObject_eq], by simp [newObject_eq], fun a ha => newObject_arr_old h cols a ha, ?_⟩
  intro c a hca
  obtain ⟨_, hm⟩ := colArr_mem h o c a hca
  obtain ⟨k, hk, hke⟩ := List.mem_iff_getElem.mp hm
  have hk' : k < cols.length := by rw [← hcols]; simpa using hk
  have hck : cols[k] = (c, h.arr a) := by
    subst hcols; simp [hke]
  obtain ⟨h1, h2⟩ := newObject_col h cols hn k hk'
  rw [hck] at h1 h2
  exact ⟨h.arrs.length + k, h1, Nat.le_add_right _ _, h2⟩

/-- **a detached path / branch / compartment has the viewed content and its own storage** (ids renumbered
`0..m-1`, parents `-1..m-2`) -/
theorem detach_fresh (h : Heap) (hw : WFHeap h) (v : Nat) (vw : View) (hv : h.views[v]? = some vw) (ho : vw.owner < h.objs.length)
    (hidx : ∀ c a, h.colArr vw.owner c = some a → (fancy (h.arr a) vw.idx).isSome) :
    let r := step h (.detach v)
    r.2 = .newObj h.objs.length ∧
    (∀ a, a < h.arrs.length → r.1.arr a = h.arr a) ∧
    (∀ c a, h.colArr vw.owner c = some a → c ≠ "id" → c ≠ "pid" →
        ∃ a', r.1.colArr h.objs.length c = some a' ∧ h.arrs.length ≤ a' ∧ some (r.1.arr a') = fancy (h.arr a) vw.idx) := by
  have hob : h.objs[vw.owner]? = some h.objs[vw.owner] := List.getElem?_eq_getElem ho
  generalize h.objs[vw.owner] = ob at hob
  have hsome : (ob.cols.mapM (fun ca => (fancy (h.arr ca.2) vw.idx).map fun d => (ca.1, d))).isSome := by
    apply mapM_isSome
    intro ca hca
    have := hidx ca.1 ca.2 (colArr_of_mem h hw _ ob hob ca.1 ca.2 hca)
    simpa using this
  obtain ⟨cols, hcols⟩ := Option.isSome_iff_exists.mp hsome
  simp only [step, hv, hob, hcols]
  have hnames := detach_names h vw.idx vw.idx.length ob.cols cols hcols
  obtain ⟨hlen, hget⟩ := mapM_some _ _ _ hcols
  generalize hcols' : (cols.map fun cd =>
      if cd.1 == "id" then (cd.1, (List.range vw.idx.length).map Int.ofNat)
      else if cd.1 == "pid" then (cd.1, (List.range vw.idx.length).map fun (k : Nat) => (k : Int) - 1)
      else cd) = cols' at hnames
  have hn : (cols'.map (·.1)).Nodup := by rw [hnames]; exact wf_names h hw _ ob hob
  refine ⟨by rw [newObject_eq], fun a ha => newObject_arr_old h cols' a ha, ?_⟩
  intro c a hca hc1 hc2
  obtain ⟨_, hm⟩ := colArr_mem h _ c a hca
  have hob' := (List.getElem?_eq_some_iff.mp hob).2
  rw [hob'] at hm
  obtain ⟨k, hk, hke⟩ := List.mem_iff_getElem.mp hm
  have hk1 : k < cols.length := by omega
  have hk' : k < cols'.length := by rw [← hcols']; simpa using hk1
  have hg := hget k hk hk1
  rw [hke] at hg
  simp only [Option.map_eq_some_iff] at hg
  obtain ⟨d, hd, hd'⟩ := hg
  have hck : cols'[k] = (c, d) := by
    subst hcols'
    simp only [List.getElem_map, ← hd']
    simp [hc1, hc2]
  obtain ⟨h1, h2⟩ := newObject_col h cols' hn k hk'
  rw [hck] at h1 h2
  exact ⟨h.arrs.length + k, h1, Nat.le_add_right _ _, by rw [h2, hd]⟩

/-- **independence for every later interleaving**: a write addressed to one object never changes an array of
another object (the invariant holds at every reachable state, `run_wf`) -/
theorem write_frame (h : Heap) (hw : WFHeap h) (o o' : Nat) (hne : o ≠ o') (i : Int) (k : Nat) (c c' : Col) (v : Int) (a' : ArrId)
    (ho' : h.colArr o' c' = some a') (hoo : o < h.objs.length) (hoo' : o' < h.objs.length) :
    (step h (.nodeWrite o i c v)).1.arr a' = h.arr a' ∧ (step h (.ownerWrite o k c v)).1.arr a' = h.arr a' := by
  have key : ∀ a, h.colArr o c = some a → a' ≠ a := by
    intro a ha e
    obtain ⟨h1, m1⟩ := colArr_mem h o c a ha
    obtain ⟨h2, m2⟩ := colArr_mem h o' c' a' ho'
    exact hne (hw.2.1 o o' h1 h2 _ m1 _ m2 e.symm).1
  simp only [step]
  constructor
  · split
    · rename_i a ha
      split
      · exact setArr_arr_ne h a a' _ v (key a ha)
      · rfl
    · rfl
  · split
    · rename_i a ha
      split
      · exact setArr_arr_ne h a a' _ v (key a ha)
      · rfl
    · rfl

/-- **a tree's segments are its (parent, child) pairs**, one per non-root row, in order -/
theorem tree_segments (h : Heap) (o : Nat) (p i : ArrId) (hp : h.colArr o "pid" = some p) (hi : h.colArr o "id" = some i) :
    (step h (.segments o)).2 = .pairs (((h.arr p).zip (h.arr i)).drop 1) := by
  simp only [step, hp, hi]

/-- **a branch's segments are its consecutive node pairs** -/
theorem branch_segments (h : Heap) (v : Nat) (vw : View) (a : ArrId) (ids : List Int) (hv : h.views[v]? = some vw)
    (ha : h.colArr vw.owner "id" = some a) (hf : fancy (h.arr a) vw.idx = some ids) :
    (step h (.viewSegments v)).2 = .pairs (ids.zip (ids.drop 1)) ∧ (ids.zip (ids.drop 1)).length = ids.length - 1 := by
  constructor
  · simp only [step, hv, viewCol, ha, Option.bind_some, hf]
  · simp [List.length_zip]

-- non-vacuity / concrete behaviour: write through a node, read through a branch view, detach, write again
def exH : Heap := mkTree [("id", [0, 1, 2, 3]), ("pid", [-1, 0, 1, 1]), ("x", [5, 6, 7, 8])]
example : (run exH [.mkView 0 [1, 3], .nodeWrite 0 (-1) "x" 80, .viewRead 0 "x", .detach 0, .nodeWrite 0 3 "x" 9, .readCol 1 "x", .viewRead 0 "x",
    .viewSegments 0, .segments 0]).2 =
    [.newView 0, .unit, .vals [6, 80], .newObj 1, .unit, .vals [6, 80], .vals [6, 9], .pairs [(1, 3)], .pairs [(0, 1), (1, 2), (1, 3)]] := by
  decide +kernel

end C09
