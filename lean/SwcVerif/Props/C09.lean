import SwcVerif.Model.Views
/-! # C09 — node, path, branch and segment views are faithful windows onto their tree

Theorems about the heap model `Model/Views.lean` (tied to the code by the `c09.history` correspondence on
random operation histories and by `np.shares_memory` observations). -/
namespace C09
open Views

/-- every column of every object names an allocated array, and no array is named twice (by two objects or by
two columns): distinct owners have disjoint storage -/
def WFHeap (h : Heap) : Prop :=
  (∀ o (ho : o < h.objs.length), ∀ ca ∈ (h.objs[o]).cols, ca.2 < h.arrs.length) ∧
  (∀ o1 o2 (h1 : o1 < h.objs.length) (h2 : o2 < h.objs.length), ∀ ca1 ∈ (h.objs[o1]).cols, ∀ ca2 ∈ (h.objs[o2]).cols,
      ca1.2 = ca2.2 → o1 = o2 ∧ ca1.1 = ca2.1) ∧
  (∀ o (ho : o < h.objs.length), ((h.objs[o]).cols.map (·.1)).Nodup)

/-- a freshly built tree is well formed (distinct column names) -/
theorem mkTree_wf (cols : List (Col × List Int)) (hn : (cols.map (·.1)).Nodup) : WFHeap (mkTree cols) := by
  sorry

/-- **the invariant holds after every operation of every history** -/
theorem step_wf (h : Heap) (op : Op) (hw : WFHeap h) : WFHeap (step h op).1 := by
  sorry
theorem run_wf (h : Heap) (ops : List Op) (hw : WFHeap h) : WFHeap (run h ops).1 := by
  sorry

/-- **index normalisation** of node handles: `0 ≤ i < n` is itself, `-n ≤ i < 0` counts from the end, anything
else is an IndexError -/
theorem at_spec (l : List Int) (i : Int) :
    (0 ≤ i → i < l.length → at? l i = some (l.getD i.toNat 0)) ∧
    (-(l.length : Int) ≤ i → i < 0 → at? l i = some (l.getD (i + l.length).toNat 0)) ∧
    (i < -(l.length : Int) ∨ (l.length : Int) ≤ i → at? l i = none) := by
  sorry

/-- **a view reports exactly the attributes of the nodes it refers to, in order, at the CURRENT state of the
owner** (so it tracks every later write): reading column `c` through view `v` is the owner's array of `c`,
as it is now, read at the view's indices -/
theorem view_reads_owner (h : Heap) (v : Nat) (vw : View) (c : Col) (a : ArrId)
    (hv : h.views[v]? = some vw) (ha : h.colArr vw.owner c = some a) :
    (step h (.viewRead v c)).2 = (match fancy (h.arr a) vw.idx with | some l => .vals l | none => .err) ∧
    (step h (.viewRead v c)).1 = h := by
  sorry

/-- reading never changes the heap -/
theorem reads_pure (h : Heap) (op : Op)
    (hr : (∃ o c, op = .readCol o c) ∨ (∃ o i c, op = .nodeRead o i c) ∨ (∃ v c, op = .viewRead v c) ∨
          (∃ v k c, op = .viewNodeRead v k c) ∨ (∃ o, op = .segments o) ∨ (∃ v, op = .viewSegments v)) :
    (step h op).1 = h := by
  sorry

/-- **assigning through a node handle of a tree is visible in the owner**: exactly the addressed cell of the
owner's array changes; every other array — in particular every array of every other object — is untouched -/
theorem node_write_through (h : Heap) (hw : WFHeap h) (o : Nat) (i : Int) (c : Col) (v : Int) (a : ArrId) (k : Nat)
    (ha : h.colArr o c = some a) (hk : Pop.getIdx i (h.arr a).length = some k) :
    let h' := (step h (.nodeWrite o i c v)).1
    h'.arr a = (h.arr a).set k v ∧ (∀ a', a' ≠ a → h'.arr a' = h.arr a') ∧ h'.objs = h.objs ∧ h'.views = h.views := by
  sorry

/-- … and therefore every view of that owner sees the new value at once -/
theorem write_then_view_read (h : Heap) (hw : WFHeap h) (o : Nat) (k : Nat) (c : Col) (x : Int) (a : ArrId)
    (ha : h.colArr o c = some a) (hk : k < (h.arr a).length) (v : Nat) (vw : View) (hv : h.views[v]? = some vw) (ho : vw.owner = o) :
    let h' := (step h (.nodeWrite o (k : Int) c x)).1
    (step h' (.viewRead v c)).2 = (match fancy ((h.arr a).set k x) vw.idx with | some l => .vals l | none => .err) := by
  sorry

/-- **a tree copy has equal content and its own storage** -/
theorem copy_fresh (h : Heap) (hw : WFHeap h) (o : Nat) (ho : o < h.objs.length) :
    let r := step h (.copy o)
    r.2 = .newObj h.objs.length ∧ r.1.objs.length = h.objs.length + 1 ∧
    (∀ a, a < h.arrs.length → r.1.arr a = h.arr a) ∧
    (∀ c a, h.colArr o c = some a → ∃ a', r.1.colArr h.objs.length c = some a' ∧ h.arrs.length ≤ a' ∧ r.1.arr a' = h.arr a) := by
  sorry

/-- **a detached path / branch / compartment has the viewed content and its own storage** (ids renumbered
`0..m-1`, parents `-1..m-2`) -/
theorem detach_fresh (h : Heap) (hw : WFHeap h) (v : Nat) (vw : View) (hv : h.views[v]? = some vw) (ho : vw.owner < h.objs.length)
    (hidx : ∀ c a, h.colArr vw.owner c = some a → (fancy (h.arr a) vw.idx).isSome) :
    let r := step h (.detach v)
    r.2 = .newObj h.objs.length ∧
    (∀ a, a < h.arrs.length → r.1.arr a = h.arr a) ∧
    (∀ c a, h.colArr vw.owner c = some a → c ≠ "id" → c ≠ "pid" →
        ∃ a', r.1.colArr h.objs.length c = some a' ∧ h.arrs.length ≤ a' ∧ some (r.1.arr a') = fancy (h.arr a) vw.idx) := by
  sorry

/-- **independence for every later interleaving**: a write addressed to one object never changes an array of
another object (the invariant holds at every reachable state, `run_wf`) -/
theorem write_frame (h : Heap) (hw : WFHeap h) (o o' : Nat) (hne : o ≠ o') (i : Int) (k : Nat) (c c' : Col) (v : Int) (a' : ArrId)
    (ho' : h.colArr o' c' = some a') (hoo : o < h.objs.length) (hoo' : o' < h.objs.length) :
    (step h (.nodeWrite o i c v)).1.arr a' = h.arr a' ∧ (step h (.ownerWrite o k c v)).1.arr a' = h.arr a' := by
  sorry

/-- **a tree's segments are its (parent, child) pairs**, one per non-root row, in order -/
theorem tree_segments (h : Heap) (o : Nat) (p i : ArrId) (hp : h.colArr o "pid" = some p) (hi : h.colArr o "id" = some i) :
    (step h (.segments o)).2 = .pairs (((h.arr p).zip (h.arr i)).drop 1) := by
  sorry

/-- **a branch's segments are its consecutive node pairs** -/
theorem branch_segments (h : Heap) (v : Nat) (vw : View) (a : ArrId) (ids : List Int) (hv : h.views[v]? = some vw)
    (ha : h.colArr vw.owner "id" = some a) (hf : fancy (h.arr a) vw.idx = some ids) :
    (step h (.viewSegments v)).2 = .pairs (ids.zip (ids.drop 1)) ∧ (ids.zip (ids.drop 1)).length = ids.length - 1 := by
  sorry

-- non-vacuity / concrete behaviour: write through a node, read through a branch view, detach, write again
def exH : Heap := mkTree [("id", [0, 1, 2, 3]), ("pid", [-1, 0, 1, 1]), ("x", [5, 6, 7, 8])]
example : (run exH [.mkView 0 [1, 3], .nodeWrite 0 (-1) "x" 80, .viewRead 0 "x", .detach 0, .nodeWrite 0 3 "x" 9, .readCol 1 "x", .viewRead 0 "x",
    .viewSegments 0, .segments 0]).2 =
    [.newView 0, .unit, .vals [6, 80], .newObj 1, .unit, .vals [6, 80], .vals [6, 9], .pairs [(1, 3)], .pairs [(0, 1), (1, 2), (1, 3)]] := by
  decide +kernel

end C09
