import SwcVerif.Props.C04
import SwcVerif.Refine.Traverse
/-! # C04, tied to the source by the translator

`Gen.Algo.traverse_dfs` is regenerated from `swcgeom/core/swc_utils/base.py::_traverse_dfs` on every run.
`RefineTrav.traverse_refines` proves that it IS the structural recursion `Trav.spec`; the corollaries below restate
the clauses of the property for the code as translated (no hand-written step machine in between). -/
namespace C04
open Trav Gen.Algo

variable {σ T K : Type} [Inhabited σ] [Inhabited T] [Inhabited K]

/-- **The translated `_traverse_dfs` is structural recursion, at any depth**: for every table representing the
subtree `r` at the start node, all (stateful) callbacks and every fuel ≥ 2·|r| + 1 the call returns (never raises,
never runs out of fuel) the value and final callback state of `spec`. -/
theorem generated_traverse_eq_spec (ids pids : List Int) (r : Rose) (h : Represents r ids pids)
    (enter : σ → Int → Option T → σ × T) (leave : σ → Int → List K → σ × K) (s : σ) (extra : Nat) :
    traverse_dfs enter leave (2 * r.size + extra + 1) (ids, pids) r.id s = some (spec enter leave r none s) :=
  RefineTrav.traverse_refines enter leave ids pids r h s extra

/-- the hand-written step machine and the translated function agree (both are `spec`) -/
theorem generated_eq_model (ids pids : List Int) (r : Rose) (h : Represents r ids pids)
    (enter : σ → Int → Option T → σ × T) (leave : σ → Int → List K → σ × K) (s : σ) :
    let st := run (tableKids ids pids) enter leave (2 * r.size) (init r.id s)
    traverse_dfs enter leave (2 * r.size + 1) (ids, pids) r.id s = (st.vals r.id).map (fun k => (st.s, k)) := by
  have h1 := traverse_eq_spec ids pids r h enter leave s
  have h2 := generated_traverse_eq_spec ids pids r h enter leave s 0
  simp only at h1 ⊢
  rw [Nat.add_zero] at h2
  rw [h2, h1.2.2, h1.2.1]
  rfl

/-- `enter` is called exactly once per node of the subtree, in the order `enterOrder`, and for no other node — for the
translated function (the callback state is the call log) -/
theorem generated_enter_once (ids pids : List Int) (r : Rose) (h : Represents r ids pids)
    (enter : σ → Int → Option T → σ × T) (leave : σ → Int → List K → σ × K) (s : σ) :
    ∃ res, traverse_dfs (enterI enter) (noLogL leave) (2 * r.size + 1) (ids, pids) r.id (s, ([] : List Int)) = some res ∧
      res.1.2.reverse = enterOrder r ∧ res.1.2.Perm r.ids ∧ res.1.2.Nodup ∧ (∀ j, j ∉ r.ids → j ∉ res.1.2) := by
  have h2 := generated_traverse_eq_spec ids pids r h (enterI enter) (noLogL leave) (s, ([] : List Int)) 0
  rw [Nat.add_zero] at h2
  refine ⟨_, h2, ?_⟩
  rw [spec_enter_log]
  have hp : (enterOrder r).reverse.Perm r.ids := (List.reverse_perm _).trans (enterOrder_perm r)
  refine ⟨by simp, by simpa using hp, ?_, ?_⟩
  · simpa using hp.nodup_iff.2 h.2
  · intro j hj hm
    exact hj (hp.mem_iff.1 (by simpa using hm))

/-- `leave` is called exactly once per node of the subtree, after all of its children (`leaveOrder`) -/
theorem generated_leave_once (ids pids : List Int) (r : Rose) (h : Represents r ids pids)
    (enter : σ → Int → Option T → σ × T) (leave : σ → Int → List K → σ × K) (s : σ) :
    ∃ res, traverse_dfs (noLogE enter) (leaveI leave) (2 * r.size + 1) (ids, pids) r.id (s, ([] : List Int)) = some res ∧
      res.1.2.reverse = leaveOrder r ∧ res.1.2.Perm r.ids ∧ res.1.2.Nodup := by
  have h2 := generated_traverse_eq_spec ids pids r h (noLogE enter) (leaveI leave) (s, ([] : List Int)) 0
  rw [Nat.add_zero] at h2
  refine ⟨_, h2, ?_⟩
  rw [spec_leave_log]
  have hp : (leaveOrder r).reverse.Perm r.ids := (List.reverse_perm _).trans (leaveOrder_perm r)
  refine ⟨by simp, by simpa using hp, ?_⟩
  simpa using hp.nodup_iff.2 h.2

/-- non-vacuity: the translated function on the concrete table of `C04.lean`, kernel-evaluated -/
example : (traverse_dfs logEnter logLeave (2 * exRose.size + 1) (exIds, exPids) 0 ([] : List Ev)).map
      (fun r => (r.1.reverse.map Ev.show, r.2))
    = some (["E0:N", "E3:217", "E4:6730", "L4:[]", "E1:6730", "L1:[]", "L3:[1,4]", "E2:217", "L2:[]", "L0:[2,888]"],
            (spec logEnter logLeave exRose none []).2) := by
  decide +kernel

end C04
