import SwcVerif.Props.C04Gen
import SwcVerif.Refine.TravFront
import SwcVerif.Proofs.Represent
/-! # C04 for the three public entry points, tied to the source by the translator

`Gen/AlgoTravFront.lean` is regenerated on every run from `swcgeom/core/swc_utils/base.py::traverse`, `swcgeom/core/tree.py::Tree.traverse`
(with its closure factory `wrap`, `Tree.__getitem__`, `SWCLike.__len__`) and `Tree.Node.traverse`, one definition per keyword set of the call.
`RefineTravFront.*_refines` prove each of them equal to the structural recursion `Trav.spec` with the USER's callbacks (`Py.absent2` for a
callback that is not passed); below, the clauses of the property are restated for them, for every well-formed tree and every start node. -/
namespace C04
open Trav Gen.Algo RefineTravFront

variable {σ T K : Type} [Inhabited σ] [Inhabited T] [Inhabited K]

/-- the call log of `enter` in `spec`: once per node of the subtree (`enterOrder`), nowhere else -/
theorem enter_log_facts (r : Rose) (hN : r.ids.Nodup) (enter : σ → Int → Option T → σ × T) (leave : σ → Int → List K → σ × K) (s : σ) :
    let res := spec (enterI enter) (noLogL leave) r none (s, ([] : List Int))
    res.1.2.reverse = enterOrder r ∧ res.1.2.Perm r.ids ∧ res.1.2.Nodup ∧ (∀ j, j ∉ r.ids → j ∉ res.1.2) ∧
      res.2 = (spec enter leave r none s).2 := by
  simp only
  rw [spec_enter_log]
  have hp : (enterOrder r).reverse.Perm r.ids := (List.reverse_perm _).trans (enterOrder_perm r)
  refine ⟨by simp, by simpa using hp, ?_, ?_, rfl⟩
  · simpa using hp.nodup_iff.2 hN
  · intro j hj hm
    exact hj (hp.mem_iff.1 (by simpa using hm))

theorem leave_log_facts (r : Rose) (hN : r.ids.Nodup) (enter : σ → Int → Option T → σ × T) (leave : σ → Int → List K → σ × K) (s : σ) :
    let res := spec (noLogE enter) (leaveI leave) r none (s, ([] : List Int))
    res.1.2.reverse = leaveOrder r ∧ res.1.2.Perm r.ids ∧ res.1.2.Nodup ∧ (∀ j, j ∉ r.ids → j ∉ res.1.2) ∧
      res.2 = (spec enter leave r none s).2 := by
  simp only
  rw [spec_leave_log]
  have hp : (leaveOrder r).reverse.Perm r.ids := (List.reverse_perm _).trans (leaveOrder_perm r)
  refine ⟨by simp, by simpa using hp, ?_, ?_, rfl⟩
  · simpa using hp.nodup_iff.2 hN
  · intro j hj hm
    exact hj (hp.mem_iff.1 (by simpa using hm))

/-- a callback that is not passed neither logs nor changes the state -/
theorem absent2_noLogL : (Py.absent2 : σ × List Int → Int → List Unit → (σ × List Int) × Unit) = noLogL Py.absent2 := rfl
theorem absent2_noLogE : (Py.absent2 : σ × List Int → Int → Option Unit → (σ × List Int) × Unit) = noLogE Py.absent2 := rfl

/-! ## every entry point is the structural recursion -/

/-- **The three translated entry points, every keyword set, on every table and subtree whose nodes are rows**: each returns (never raises,
never runs out of fuel) the value and final callback state of `spec` with the user's callbacks; a callback that is not passed is never
called (`Py.absent2`) and the value returned is then `None` (`Unit`). -/
theorem generated_entry_points_eq_spec (ids pids : List Int) (r : Rose) (h : Represents r ids pids)
    (enter : σ → Int → Option T → σ × T) (leave : σ → Int → List K → σ × K) (s : σ) (F : Nat) :
    -- swc_utils.traverse(topology, …, root=r.id)
    traverse_el_r enter leave (2 * r.size + F + 1) (ids, pids) r.id s = some (spec enter leave r none s) ∧
    traverse_e_r enter (2 * r.size + F + 1) (ids, pids) r.id s = some (spec enter Py.absent2 r none s) ∧
    traverse_l_r leave (2 * r.size + F + 1) (ids, pids) r.id s = some (spec Py.absent2 leave r none s) ∧
    -- Tree.traverse(…, root=r.id) and Tree.Node.traverse(…) on the node handle r.id, when the nodes of the subtree are rows of the tree
    (Rows r ids →
      tree_traverse_el_r enter leave (2 * r.size + F + 1) ids pids r.id s = some (spec enter leave r none s) ∧
      tree_traverse_e_r enter (2 * r.size + F + 1) ids pids r.id s = some (spec enter Py.absent2 r none s) ∧
      tree_traverse_l_r leave (2 * r.size + F + 1) ids pids r.id s = some (spec Py.absent2 leave r none s) ∧
      node_traverse_el enter leave (2 * r.size + F + 1) ids pids r.id s = some (spec enter leave r none s) ∧
      node_traverse_e enter (2 * r.size + F + 1) ids pids r.id s = some (spec enter Py.absent2 r none s) ∧
      node_traverse_l leave (2 * r.size + F + 1) ids pids r.id s = some (spec Py.absent2 leave r none s)) ∧
    -- `root` not passed: the start node is `_traverse_dfs`'s default, node 0
    (r.id = 0 →
      traverse_el enter leave (2 * r.size + F + 1) (ids, pids) s = some (spec enter leave r none s) ∧
      traverse_e enter (2 * r.size + F + 1) (ids, pids) s = some (spec enter Py.absent2 r none s) ∧
      traverse_l leave (2 * r.size + F + 1) (ids, pids) s = some (spec Py.absent2 leave r none s) ∧
      (Rows r ids →
        tree_traverse_el enter leave (2 * r.size + F + 1) ids pids s = some (spec enter leave r none s) ∧
        tree_traverse_e enter (2 * r.size + F + 1) ids pids s = some (spec enter Py.absent2 r none s) ∧
        tree_traverse_l leave (2 * r.size + F + 1) ids pids s = some (spec Py.absent2 leave r none s))) :=
  ⟨traverse_el_r_refines enter leave ids pids r h s F, traverse_e_r_refines enter ids pids r h s F, traverse_l_r_refines leave ids pids r h s F,
   fun hok => ⟨tree_traverse_el_r_refines enter leave ids pids r h hok s F, tree_traverse_e_r_refines enter ids pids r h hok s F,
     tree_traverse_l_r_refines leave ids pids r h hok s F, node_traverse_el_refines enter leave ids pids r h hok s F,
     node_traverse_e_refines enter ids pids r h hok s F, node_traverse_l_refines leave ids pids r h hok s F⟩,
   fun h0 => ⟨traverse_el_refines enter leave ids pids r h h0 s F, traverse_e_refines enter ids pids r h h0 s F,
     traverse_l_refines leave ids pids r h h0 s F,
     fun hok => ⟨tree_traverse_el_refines enter leave ids pids r h h0 hok s F, tree_traverse_e_refines enter ids pids r h h0 hok s F,
       tree_traverse_l_refines leave ids pids r h h0 hok s F⟩⟩⟩

/-- **Every well-formed tree, every start node**: a `Tree` object's ids are its row indices (`rangeI n`); for every node `k` of every
well-formed parent table there is the rose `sub` of the subtree at `k` such that `Tree.traverse(root=k, …)` and `tree.node(k).traverse(…)`,
as translated, are `spec` on `sub` for all callbacks — the hypotheses of `generated_entry_points_eq_spec` are not a restriction. -/
theorem generated_tree_entry_points_every_tree (pids : List Int) (hw : C07.WF pids) (k : Nat) (hk : k < pids.length) :
    ∃ sub : Rose, sub.id = (k : Int) ∧ Represents sub (Sub.rangeI pids.length) pids ∧ sub.ids.Nodup ∧ (∀ i ∈ sub.ids, 0 ≤ i ∧ i.toNat < pids.length) ∧
      ∀ {σ T K : Type} [Inhabited σ] [Inhabited T] [Inhabited K] (enter : σ → Int → Option T → σ × T) (leave : σ → Int → List K → σ × K) (s : σ) (F : Nat),
        tree_traverse_el_r enter leave (2 * sub.size + F + 1) (Sub.rangeI pids.length) pids k s = some (spec enter leave sub none s) ∧
        tree_traverse_e_r enter (2 * sub.size + F + 1) (Sub.rangeI pids.length) pids k s = some (spec enter Py.absent2 sub none s) ∧
        tree_traverse_l_r leave (2 * sub.size + F + 1) (Sub.rangeI pids.length) pids k s = some (spec Py.absent2 leave sub none s) ∧
        node_traverse_el enter leave (2 * sub.size + F + 1) (Sub.rangeI pids.length) pids k s = some (spec enter leave sub none s) ∧
        node_traverse_e enter (2 * sub.size + F + 1) (Sub.rangeI pids.length) pids k s = some (spec enter Py.absent2 sub none s) ∧
        node_traverse_l leave (2 * sub.size + F + 1) (Sub.rangeI pids.length) pids k s = some (spec Py.absent2 leave sub none s) ∧
        (k = 0 →
          tree_traverse_el enter leave (2 * sub.size + F + 1) (Sub.rangeI pids.length) pids s = some (spec enter leave sub none s) ∧
          tree_traverse_e enter (2 * sub.size + F + 1) (Sub.rangeI pids.length) pids s = some (spec enter Py.absent2 sub none s) ∧
          tree_traverse_l leave (2 * sub.size + F + 1) (Sub.rangeI pids.length) pids s = some (spec Py.absent2 leave sub none s)) := by
  obtain ⟨sub, hid, hR, hrows⟩ := Represent.wf_subtree_represented pids hw k hk
  have hok : Rows sub (Sub.rangeI pids.length) := by
    intro j hj
    have := hrows j hj
    simp only [Sub.rangeI, List.length_map, List.length_range]
    omega
  refine ⟨sub, hid, hR, hR.2, hrows, ?_⟩
  intro σ T K _ _ _ enter leave s F
  have H := generated_entry_points_eq_spec (Sub.rangeI pids.length) pids sub hR enter leave s F
  rw [hid] at H
  obtain ⟨_, _, _, ht, h0⟩ := H
  obtain ⟨a, b, c, d, e, f⟩ := ht hok
  refine ⟨a, b, c, d, e, f, ?_⟩
  intro hk0
  obtain ⟨_, _, _, g⟩ := h0 (by omega)
  exact g hok

/-! ## the clauses of the property, for the entry points -/

/-- **`enter` exactly once per node of the subtree, after its parent, nowhere else** — for `Tree.traverse` / `Tree.Node.traverse` /
`swc_utils.traverse` as translated, with both callbacks and with `enter` alone (the callback state is the call log) -/
theorem generated_entry_points_enter_once (ids pids : List Int) (r : Rose) (h : Represents r ids pids) (hok : Rows r ids)
    (enter : σ → Int → Option T → σ × T) (leave : σ → Int → List K → σ × K) (s : σ) :
    ∃ res res', 
      traverse_el_r (enterI enter) (noLogL leave) (2 * r.size + 1) (ids, pids) r.id (s, ([] : List Int)) = some res ∧
      tree_traverse_el_r (enterI enter) (noLogL leave) (2 * r.size + 1) ids pids r.id (s, ([] : List Int)) = some res ∧
      node_traverse_el (enterI enter) (noLogL leave) (2 * r.size + 1) ids pids r.id (s, ([] : List Int)) = some res ∧
      traverse_e_r (enterI enter) (2 * r.size + 1) (ids, pids) r.id (s, ([] : List Int)) = some res' ∧
      tree_traverse_e_r (enterI enter) (2 * r.size + 1) ids pids r.id (s, ([] : List Int)) = some res' ∧
      node_traverse_e (enterI enter) (2 * r.size + 1) ids pids r.id (s, ([] : List Int)) = some res' ∧
      (res.1.2.reverse = enterOrder r ∧ res.1.2.Perm r.ids ∧ res.1.2.Nodup ∧ (∀ j, j ∉ r.ids → j ∉ res.1.2)) ∧
      (res'.1.2.reverse = enterOrder r ∧ res'.1.2.Perm r.ids ∧ res'.1.2.Nodup ∧ (∀ j, j ∉ r.ids → j ∉ res'.1.2)) := by
  have H := generated_entry_points_eq_spec ids pids r h (enterI enter) (noLogL leave) (s, ([] : List Int)) 0
  obtain ⟨a, b, _, ht, _⟩ := H
  obtain ⟨c, d, _, e, f, _⟩ := ht hok
  rw [absent2_noLogL] at b d f
  have L1 := enter_log_facts r h.2 enter leave s
  have L2 := enter_log_facts r h.2 enter (Py.absent2 : σ → Int → List Unit → σ × Unit) s
  exact ⟨_, _, a, c, e, b, d, f, ⟨L1.1, L1.2.1, L1.2.2.1, L1.2.2.2.1⟩, ⟨L2.1, L2.2.1, L2.2.2.1, L2.2.2.2.1⟩⟩

/-- **`leave` exactly once per node of the subtree, after all of its children; the value returned is the start node's** -/
theorem generated_entry_points_leave_once (ids pids : List Int) (r : Rose) (h : Represents r ids pids) (hok : Rows r ids)
    (enter : σ → Int → Option T → σ × T) (leave : σ → Int → List K → σ × K) (s : σ) :
    ∃ res res',
      traverse_el_r (noLogE enter) (leaveI leave) (2 * r.size + 1) (ids, pids) r.id (s, ([] : List Int)) = some res ∧
      tree_traverse_el_r (noLogE enter) (leaveI leave) (2 * r.size + 1) ids pids r.id (s, ([] : List Int)) = some res ∧
      node_traverse_el (noLogE enter) (leaveI leave) (2 * r.size + 1) ids pids r.id (s, ([] : List Int)) = some res ∧
      traverse_l_r (leaveI leave) (2 * r.size + 1) (ids, pids) r.id (s, ([] : List Int)) = some res' ∧
      tree_traverse_l_r (leaveI leave) (2 * r.size + 1) ids pids r.id (s, ([] : List Int)) = some res' ∧
      node_traverse_l (leaveI leave) (2 * r.size + 1) ids pids r.id (s, ([] : List Int)) = some res' ∧
      (res.1.2.reverse = leaveOrder r ∧ res.1.2.Perm r.ids ∧ res.1.2.Nodup ∧ (∀ j, j ∉ r.ids → j ∉ res.1.2) ∧
        res.2 = (spec enter leave r none s).2) ∧
      (res'.1.2.reverse = leaveOrder r ∧ res'.1.2.Perm r.ids ∧ res'.1.2.Nodup ∧ (∀ j, j ∉ r.ids → j ∉ res'.1.2) ∧
        res'.2 = (spec Py.absent2 leave r none s).2) := by
  have H := generated_entry_points_eq_spec ids pids r h (noLogE enter) (leaveI leave) (s, ([] : List Int)) 0
  obtain ⟨a, _, b, ht, _⟩ := H
  obtain ⟨c, _, d, e, _, f⟩ := ht hok
  rw [absent2_noLogE] at b d f
  exact ⟨_, _, a, c, e, b, d, f, leave_log_facts r h.2 enter leave s,
    leave_log_facts r h.2 (Py.absent2 : σ → Int → Option Unit → σ × Unit) leave s⟩

/-- non-vacuity: the translated entry points on the concrete table of `C04.lean`, kernel-evaluated (the tree's own ids are its rows) -/
example : Rows exRose exIds := by
  intro j hj
  have : j = 0 ∨ j = 2 ∨ j = 3 ∨ j = 1 ∨ j = 4 := by simpa [exRose, Rose.ids, idsL] using hj
  simp only [exIds, List.length]
  omega
example : (tree_traverse_el logEnter logLeave (2 * exRose.size + 1) exIds exPids ([] : List Ev)).map
      (fun r => (r.1.reverse.map Ev.show, r.2))
    = some (["E0:N", "E3:217", "E4:6730", "L4:[]", "E1:6730", "L1:[]", "L3:[1,4]", "E2:217", "L2:[]", "L0:[2,888]"],
            (spec logEnter logLeave exRose none []).2) := by
  decide +kernel
example : (node_traverse_e logEnter (2 * 3 + 1) exIds exPids 3 ([] : List Ev)).map (fun r => (r.1.reverse.map Ev.show, r.2))
    = some (["E3:N", "E4:220", "E1:220"], ()) := by
  decide +kernel
example : (traverse_l_r logLeave (2 * 3 + 1) (exIds, exPids) 3 ([] : List Ev)).map (fun r => r.1.reverse.map Ev.show)
    = some ["L4:[]", "L1:[]", "L3:[1,4]"] := by
  decide +kernel
/-- a start node that is no row of the tree: the wrapped `enter` raises (`Tree.__getitem__`'s IndexError) -/
example : tree_traverse_e_r logEnter 9 exIds exPids 7 ([] : List Ev) = none := by decide +kernel

end C04
