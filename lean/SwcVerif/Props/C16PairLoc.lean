import SwcVerif.Props.C16Pair
/-! # C16 — the re-assembly pairing when sister branches end at the SAME point

`pair_exact` needs distinct children at distinct places.  Here several children of a node may lie at one
place (`locC`), and every branch ends at the place `locR` of its own child: the zero cells of the distance
matrix are then blocks "branches ending at L × children at L".  Whatever zero cell the greedy loop takes, the
rest can still be matched inside the blocks (exchange: the branch that owned the taken child gets the child of
the taken branch instead), so the loop returns every branch once and every child once, each branch with a
child lying exactly at its end point. -/
set_option linter.unusedVariables false
namespace C16
open Mst

/-- loop invariant: the pairs so far join equal places, exactly their rows / columns are switched off, and
the free rows and free columns are still matched place-by-place by `σ` (inverse `τ`) -/
structure QInv (locR locC : Nat → Nat) (m k : Nat) (s : PairSt) (σ τ : Nat → Nat) : Prop where
  lenr : s.rows.length = m
  lenc : s.cols.length = m
  npairs : s.pairs.length = k
  good : ∀ p ∈ s.pairs, p.1 < m ∧ p.2 < m ∧ locR p.1 = locC p.2
  rowsIff : ∀ i, i < m → (s.rows.getD i false = true ↔ i ∈ s.pairs.map Prod.fst)
  colsIff : ∀ j, j < m → (s.cols.getD j false = true ↔ j ∈ s.pairs.map Prod.snd)
  nodupR : (s.pairs.map Prod.fst).Nodup
  nodupC : (s.pairs.map Prod.snd).Nodup
  fwd : ∀ i, i < m → i ∉ s.pairs.map Prod.fst →
    σ i < m ∧ σ i ∉ s.pairs.map Prod.snd ∧ locC (σ i) = locR i ∧ τ (σ i) = i
  bwd : ∀ j, j < m → j ∉ s.pairs.map Prod.snd →
    τ j < m ∧ τ j ∉ s.pairs.map Prod.fst ∧ σ (τ j) = j

private theorem exists_missing' (l : List Nat) (m : Nat) (hnd : l.Nodup) (hlt : l.length < m) :
    ∃ i, i < m ∧ i ∉ l := by
  by_contra hall
  have hall' : ∀ i, i < m → i ∈ l := by
    intro i hi
    by_contra hni
    exact hall ⟨i, hi, hni⟩
  have hsub : List.range m ⊆ l := fun i hi => hall' i (List.mem_range.mp hi)
  have := (List.subperm_of_subset List.nodup_range hsub).length_le
  simp at this
  omega

section step
variable (dis : List (List Rat)) (m : Nat) (locR locC : Nat → Nat)
  (h0 : ∀ i j, i < m → j < m → locR i = locC j → pcost dis i j = 0)
  (hpos : ∀ i j, i < m → j < m → locR i ≠ locC j → 0 < pcost dis i j)
include h0 hpos

theorem pair_step_loc (k : Nat) (s : PairSt) (σ τ : Nat → Nat) (hi : QInv locR locC m k s σ τ) (hk : k < m) :
    ∃ σ' τ', QInv locR locC m (k + 1) (pairStep dis m s) σ' τ' := by
  obtain ⟨i, him, hni⟩ := exists_missing' (s.pairs.map Prod.fst) m hi.nodupR (by simp [hi.npairs]; exact hk)
  obtain ⟨hσi, hσfree, hσloc, _⟩ := hi.fwd i him hni
  have hrow : s.rows.getD i false = false := by
    cases hb : s.rows.getD i false with
    | false => rfl
    | true => exact absurd ((hi.rowsIff i him).mp hb) hni
  have hcol : s.cols.getD (σ i) false = false := by
    cases hb : s.cols.getD (σ i) false with
    | false => rfl
    | true => exact absurd ((hi.colsIff (σ i) hσi).mp hb) hσfree
  obtain ⟨ha, hb, hfree, hmin⟩ := pairArgmin_spec dis s m ⟨i, σ i, him, hσi, by unfold pmask; rw [hrow, hcol]; rfl⟩
  set a := (pairArgmin dis s m).1 with ha'
  set b := (pairArgmin dis s m).2 with hb'
  have hle : pcost dis a b ≤ 0 := by
    have := hmin i (σ i) him hσi (by unfold pmask; rw [hrow, hcol]; rfl)
    rwa [h0 i (σ i) him hσi hσloc.symm] at this
  have hloc : locR a = locC b := by
    by_contra hne
    have := hpos a b ha hb hne
    linarith
  have hfa : s.rows.getD a false = false := by
    simp only [pmask, Bool.or_eq_false_iff] at hfree; exact hfree.1
  have hfb : s.cols.getD b false = false := by
    simp only [pmask, Bool.or_eq_false_iff] at hfree; exact hfree.2
  have hna : a ∉ s.pairs.map Prod.fst := fun h => by
    have := (hi.rowsIff a ha).mpr h
    rw [hfa] at this; exact absurd this (by simp)
  have hnb : b ∉ s.pairs.map Prod.snd := fun h => by
    have := (hi.colsIff b hb).mpr h
    rw [hfb] at this; exact absurd this (by simp)
  obtain ⟨fa1, fa2, fa3, fa4⟩ := hi.fwd a ha hna
  obtain ⟨bb1, bb2, bb3⟩ := hi.bwd b hb hnb
  have hst : pairStep dis m s = ⟨s.rows.set a true, s.cols.set b true, s.pairs ++ [(a, b)]⟩ := rfl
  rw [hst]
  refine ⟨fun x => if σ x = b then σ a else σ x, fun y => if y = σ a then τ b else τ y, ?_⟩
  have memF : ∀ x, x ∈ (s.pairs ++ [(a, b)]).map Prod.fst ↔ x ∈ s.pairs.map Prod.fst ∨ x = a := by
    intro x; simp
  have memS : ∀ y, y ∈ (s.pairs ++ [(a, b)]).map Prod.snd ↔ y ∈ s.pairs.map Prod.snd ∨ y = b := by
    intro y; simp
  refine ⟨by simp [hi.lenr], by simp [hi.lenc], by simp [hi.npairs], ?_, ?_, ?_, ?_, ?_, ?_, ?_⟩
  · intro p hp
    rcases List.mem_append.mp hp with h | h
    · exact hi.good p h
    · simp at h; subst h; exact ⟨ha, hb, hloc⟩
  · intro x hx
    simp only [getD_set, List.map_append, List.map_cons, List.map_nil, List.mem_append, List.mem_singleton]
    by_cases hxa : a = x
    · subst hxa; simp [hi.lenr, ha]
    · have : ¬ (a = x ∧ x < s.rows.length) := fun h => hxa h.1
      rw [if_neg this, hi.rowsIff x hx]
      constructor
      · exact Or.inl
      · rintro (h | h)
        · exact h
        · exact absurd h.symm hxa
  · intro y hy
    simp only [getD_set, List.map_append, List.map_cons, List.map_nil, List.mem_append, List.mem_singleton]
    by_cases hyb : b = y
    · subst hyb; simp [hi.lenc, hb]
    · have : ¬ (b = y ∧ y < s.cols.length) := fun h => hyb h.1
      rw [if_neg this, hi.colsIff y hy]
      constructor
      · exact Or.inl
      · rintro (h | h)
        · exact h
        · exact absurd h.symm hyb
  · rw [List.map_append, List.nodup_append]
    refine ⟨hi.nodupR, by simp, ?_⟩
    intro x hx y hy
    simp at hy; subst hy
    intro e; subst e; exact hna hx
  · rw [List.map_append, List.nodup_append]
    refine ⟨hi.nodupC, by simp, ?_⟩
    intro x hx y hy
    simp at hy; subst hy
    intro e; subst e; exact hnb hx
  · -- the remaining rows are still matched place-by-place
    intro x hx hnx
    rw [memF] at hnx
    have hx1 : x ∉ s.pairs.map Prod.fst := fun h => hnx (Or.inl h)
    have hxa : x ≠ a := fun h => hnx (Or.inr h)
    obtain ⟨f1, f2, f3, f4⟩ := hi.fwd x hx hx1
    by_cases hsx : σ x = b
    · have hxτ : x = τ b := by rw [← hsx, f4]
      have hσab : σ a ≠ b := fun e => hxa (by rw [← f4, hsx, ← e, fa4])
      simp only [if_pos hsx, if_true]
      refine ⟨fa1, ?_, ?_, hxτ.symm⟩
      · rw [memS]; rintro (h | h)
        · exact fa2 h
        · exact hσab h
      · rw [fa3, hloc, ← hsx, f3]
    · simp only [if_neg hsx]
      have hne : σ x ≠ σ a := fun e => hxa (by rw [← f4, e, fa4])
      rw [if_neg hne]
      refine ⟨f1, ?_, f3, f4⟩
      rw [memS]; rintro (h | h)
      · exact f2 h
      · exact hsx h
  · -- … and the remaining columns
    intro y hy hny
    rw [memS] at hny
    have hy1 : y ∉ s.pairs.map Prod.snd := fun h => hny (Or.inl h)
    have hyb : y ≠ b := fun h => hny (Or.inr h)
    obtain ⟨g1, g2, g3⟩ := hi.bwd y hy hy1
    by_cases hya : y = σ a
    · simp only [if_pos hya]
      have hτba : τ b ≠ a := fun e => hyb (by rw [hya, ← e, bb3])
      refine ⟨bb1, ?_, ?_⟩
      · rw [memF]; rintro (h | h)
        · exact bb2 h
        · exact hτba h
      · rw [if_pos bb3, hya]
    · simp only [if_neg hya]
      have hτya : τ y ≠ a := fun e => hya (by rw [← g3, e])
      refine ⟨g1, ?_, ?_⟩
      · rw [memF]; rintro (h | h)
        · exact g2 h
        · exact hτya h
      · have : σ (τ y) ≠ b := by rw [g3]; exact hyb
        rw [if_neg this, g3]

theorem pair_run_loc : ∀ (r k : Nat) (s : PairSt) (σ τ : Nat → Nat), QInv locR locC m k s σ τ → k + r ≤ m →
    ∃ σ' τ', QInv locR locC m (k + r) (pairRun dis m r s) σ' τ'
  | 0, k, s, σ, τ, hi, _ => ⟨σ, τ, hi⟩
  | r+1, k, s, σ, τ, hi, hle => by
    obtain ⟨σ1, τ1, h1⟩ := pair_step_loc dis m locR locC h0 hpos k s σ τ hi (by omega)
    have := pair_run_loc r (k + 1) _ σ1 τ1 h1 (by omega)
    rw [pairRun]
    have e : k + (r + 1) = k + 1 + r := by omega
    rw [e]; exact this

end step

/-- **sister branches may end at one point**: if the children of a node lie at places `locC`, every branch ends
at the place `locR` of its own child (`σ`, a bijection with inverse `τ`), the distance is 0 exactly between
equal places and positive otherwise, then `pair` returns every branch exactly once and every child exactly
once, each branch with a child lying exactly at its end point. -/
theorem pair_same_place (dis : List (List Rat)) (locR locC σ τ : Nat → Nat)
    (hσ : ∀ i, i < dis.length → σ i < dis.length ∧ τ (σ i) = i ∧ locC (σ i) = locR i)
    (hτ : ∀ j, j < dis.length → τ j < dis.length ∧ σ (τ j) = j)
    (h0 : ∀ i j, i < dis.length → j < dis.length → locR i = locC j → pcost dis i j = 0)
    (hpos : ∀ i j, i < dis.length → j < dis.length → locR i ≠ locC j → 0 < pcost dis i j) :
    (pairGreedy dis).length = dis.length ∧
    (∀ p ∈ pairGreedy dis, p.1 < dis.length ∧ p.2 < dis.length ∧ locR p.1 = locC p.2 ∧ pcost dis p.1 p.2 = 0) ∧
    ((pairGreedy dis).map Prod.fst).Perm (List.range dis.length) ∧
    ((pairGreedy dis).map Prod.snd).Perm (List.range dis.length) := by
  set m := dis.length with hm
  have hinit : QInv locR locC m 0 ⟨List.replicate m false, List.replicate m false, []⟩ σ τ := by
    refine ⟨by simp, by simp, rfl, by simp, ?_, ?_, by simp, by simp, ?_, ?_⟩
    · intro i hi; rw [getD_replicate m i false false hi]; simp
    · intro j hj; rw [getD_replicate m j false false hj]; simp
    · intro i hi _; exact ⟨(hσ i hi).1, by simp, (hσ i hi).2.2, (hσ i hi).2.1⟩
    · intro j hj _; exact ⟨(hτ j hj).1, by simp, (hτ j hj).2⟩
  obtain ⟨σ', τ', hfin⟩ := pair_run_loc dis m locR locC h0 hpos m 0 _ σ τ hinit (by omega)
  rw [Nat.zero_add] at hfin
  have hp : pairGreedy dis = (pairRun dis m m ⟨List.replicate m false, List.replicate m false, []⟩).pairs := rfl
  rw [hp]
  refine ⟨hfin.npairs, ?_, ?_, ?_⟩
  · intro p hp'
    obtain ⟨g1, g2, g3⟩ := hfin.good p hp'
    exact ⟨g1, g2, g3, h0 p.1 p.2 g1 g2 g3⟩
  · have hsub : ∀ x ∈ (pairRun dis m m ⟨List.replicate m false, List.replicate m false, []⟩).pairs.map Prod.fst,
        x ∈ List.range m := by
      intro x hx
      obtain ⟨p, hp', rfl⟩ := List.mem_map.mp hx
      exact List.mem_range.mpr (hfin.good p hp').1
    exact (List.subperm_of_subset hfin.nodupR hsub).perm_of_length_le (by simp [hfin.npairs])
  · have hsub : ∀ x ∈ (pairRun dis m m ⟨List.replicate m false, List.replicate m false, []⟩).pairs.map Prod.snd,
        x ∈ List.range m := by
      intro x hx
      obtain ⟨p, hp', rfl⟩ := List.mem_map.mp hx
      exact List.mem_range.mpr (hfin.good p hp').2.1
    exact (List.subperm_of_subset hfin.nodupC hsub).perm_of_length_le (by simp [hfin.npairs])

-- non-vacuity: branches 0 and 1 both end where children 0 and 2 lie; branch 2 ends at child 1
example : pairGreedy [[0, 3, 0], [0, 3, 0], [3, 0, 3]] = [(0, 0), (1, 2), (2, 1)] := by decide +kernel

end C16
