import SwcVerif.Props.C05
import SwcVerif.Refine.Sort
/-! # C05, tied to the source by the translator

`Gen.Algo.sort_nodes_impl` is regenerated from `swcgeom/core/swc_utils/normalizer.py::sort_nodes_impl` on every run.
`RefineSort.sort_refines` proves that it returns the model's result whenever the model succeeds; with `C05.sort_ok`
this gives the result of the code as translated on EVERY tree table, and the C05 theorems (`sort_perm`, `sort_sorted`,
`sort_parent`, `sort_indices`, `sort_again`, …) speak about exactly that record. -/
namespace C05
open SortM Gen.Algo

/-- **The translated `sort_nodes_impl` on every tree table** (any distinct ids, any row order, root anywhere): it raises
nothing and returns `(arange(n), new_pids)` and the row indices of the structural pre-order `pre r (-1) 0`. -/
theorem generated_sort_ok (r : Rose) (ids pids : List Int) (h : IsTreeTable r ids pids) (F : Nat) :
    sort_nodes_impl (ids.length + 1 + F) (ids, pids) =
      some ((Py.range (ids.length : Int), (pre r (-1) 0).map (·.2)),
            (pre r (-1) 0).map (fun op => ((indexOf ids op.1 : Nat) : Int))) := by
  have hnd : ids.Nodup := h.2.1.nodup_iff.1 h.1.2
  have := RefineSort.sort_refines ids pids hnd _ (sort_ok r ids pids h) F
  simpa [List.map_map, Function.comp_def] using this

/-- the translated function and the model agree on every table on which the model succeeds (distinct ids) -/
theorem generated_eq_model (ids pids : List Int) (hnd : ids.Nodup) (res : Result) (h : sortNodesImpl ids pids = .ok res) (F : Nat) :
    sort_nodes_impl (ids.length + 1 + F) (ids, pids) =
      some ((Py.range (ids.length : Int), res.newPids), res.indices.map (fun (k : Nat) => (k : Int))) :=
  RefineSort.sort_refines ids pids hnd res h F

/-- non-vacuity: the translated function on a concrete shuffled table with a gap in the ids (kernel-evaluated) -/
example : sort_nodes_impl 8 ([7, 3, 9, 4], [3, -1, 3, 9]) = some (([0, 1, 2, 3], [-1, 0, 1, 0]), [1, 2, 3, 0]) := by
  decide +kernel

end C05
