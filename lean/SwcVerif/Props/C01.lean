import SwcVerif.Gen.Consts
