import SwcVerif.Proofs.SwcText
/-! # C01 — SWC write → read round trip reproduces the tree

Theorems about the writer model (`SwcText.formatRow`, `commentLine`, `writeLines`, `writeSwc` =
`io.to_swc` + `SWCLike.to_swc`) composed with the reader model (`classify`, `readLines`, `resetIndex` =
`parse_swc` + `reset_index_`).  Coordinates enter the writer as the integer `k` with `value ≈ k·10⁻⁴`
(the float → 4-decimal rounding is CPython's `format`, computed by the harness with `decimal`) plus the
sign bit; they come back exactly as `⟨sign, k, -4⟩ = ±k·10⁻⁴`.  Id offsets are the non-negative ones
(a negative offset would write negative ids, which are not SWC). -/
namespace C01
open SwcText

/-- the writer's format strings, as the models were written for (regenerated from `io.py` every run) -/
theorem writer_consts_pinned :
    Gen.Consts.writerFStrings = ["f'# {' '.join(cols)}\\n'", "f'{v:.4f}'", "f'# {c.lstrip()}\\n'", "f'.4f'"] ∧
    Gen.Consts.writerBlankCommentYield = "yield '#\\n'" ∧
    Gen.Consts.writerOffsetRule = "k == names.id or (k == names.pid and v != -1) => v += id_offset" ∧
    Gen.Consts.writerIdOffsetDefault = 1 ∧
    headerText = "id type x y z r pid".toList := by
  exact ⟨rfl, rfl, rfl, rfl, headerText_eq⟩

/-- `str(n)` reads back as `n` (any following non-digit text is left alone) -/
theorem digits_parse (n : Nat) (rest : Str) (h : ∀ c, rest.head? = some c → isDig c = false) :
    intTok (digits n ++ rest) = some (n, rest) := by
  exact intTok_step (intTok_digits n) h

/-- **`%.4f` text parses back to the same grid value**, sign included, for every magnitude -/
theorem fmt4_parse (neg : Bool) (k : Nat) (rest : Str) (h : ∀ c, rest.head? = some c → isWs c = true) :
    floatPrefix (fmt4 neg k ++ rest) = some (⟨neg, k, -4⟩, rest) := by
  exact floatPrefix_step (floatPrefix_fmt4 neg k) (WsHead.noNum h)

/-- the row the reader must see for a written row: ids shifted by the offset, a root's `-1` kept -/
def shifted (off : Nat) (w : WRow) : Row :=
  ⟨w.id + off, w.type, ⟨w.x.1, w.x.2, -4⟩, ⟨w.y.1, w.y.2, -4⟩, ⟨w.z.1, w.z.2, -4⟩, ⟨w.r.1, w.r.2, -4⟩,
   if w.pid = -1 then -1 else w.pid + off, []⟩

/-- **row round trip, every offset ≥ 0** -/
theorem row_roundtrip (off : Nat) (w : WRow) (hp : w.pid = -1 ∨ 0 ≤ w.pid) :
    classify 0 (formatRow off w) = .data (shifted off w) false := by
  have hf : formatRow off w = [] ++ (digits (w.id + off) ++ ([' '] ++ (digits w.type ++ ([' '] ++ (fmt4 w.x.1 w.x.2 ++
      ([' '] ++ (fmt4 w.y.1 w.y.2 ++ ([' '] ++ (fmt4 w.z.1 w.z.2 ++ ([' '] ++ (fmt4 w.r.1 w.r.2 ++ ([' '] ++
        (showInt (if w.pid = -1 then -1 else w.pid + off) ++ ['\n']))))))))))))) := by
    simp [formatRow]
  have hs : ∀ c ∈ [' '], isWs c = true := by simp; decide
  have hn : ∀ c ∈ ['\n'], isWs c = true := by simp; decide
  have hne : [' '] ≠ [] := by simp
  rw [hf]
  exact classify_of_parseData (parseData_seven [] [' '] [' '] [' '] [' '] [' '] [' '] ['\n'] _ _ _ _ _ _ _ _ _ _ _ _ _ _
    (by simp) hn hne hs hne hs hne hs hne hs hne hs hne hs
    (intTok_digits _) (intTok_digits _) (floatPrefix_fmt4 _ _) (floatPrefix_fmt4 _ _) (floatPrefix_fmt4 _ _)
    (floatPrefix_fmt4 _ _) (pidTok_showInt _))

/-- what a written comment reads back as -/
def readBack (c : Str) : Str := if isSpaceStr c then [] else ' ' :: dropWs c

theorem classify_commentLine (nx : Nat) (c : Str) : classify nx (commentLine c) = .comment (readBack c) := by
  unfold commentLine readBack
  split
  · exact classify_hash nx _ ['\n'] (by simp [dropWs, isWs])
  · have := classify_hash nx ('#' :: ' ' :: dropWs c ++ ['\n']) (' ' :: dropWs c ++ ['\n']) (by simp [dropWs, isWs])
    rw [this]; congr 1; exact stripNl_append_nl (' ' :: dropWs c)

/-- **comment round trip**: a comment (any text without a line break) is written as one `#` line and
read back as a comment … -/
theorem comment_roundtrip (nx : Nat) (c : Str) (hnl : '\n' ∉ c) :
    classify nx (commentLine c) = .comment (readBack c) := by
  exact classify_commentLine nx c
/-- … whose text is the original, leading blanks aside -/
theorem comment_text_same (c : Str) : dropWs (readBack c) = dropWs c := by
  unfold readBack
  split
  · rename_i h
    simp only [isSpaceStr, Bool.and_eq_true, List.all_eq_true] at h
    rw [dropWs_allWs c h.2]; rfl
  · have : dropWs (' ' :: dropWs c) = dropWs (dropWs c) := by simp [dropWs, isWs]
    rw [this, dropWs_idem]

/-- the writer's own column header is a comment line that the reader drops -/
theorem header_dropped (nx : Nat) :
    classify nx headerLine = .comment (' ' :: headerText) ∧ keepComment (' ' :: headerText) = false := by
  constructor
  · have := classify_hash nx headerLine (' ' :: headerText ++ ['\n']) (by simp [headerLine, dropWs, isWs])
    rw [this]; exact congrArg Kind.comment (stripNl_append_nl (' ' :: headerText))
  · rw [headerText_eq]; decide +kernel

/-- the comment list handed to `io.to_swc`: optional `source: …` + empty line, then the tree's comments -/
def written (source : Option Str) (wc : Bool) (comments : List Str) : List Str :=
  (match source with
    | some s => ["source: ".toList ++ s, []]
    | none => []) ++ (if wc then comments else [])

theorem writeSwc_eq (off : Nat) (source : Option Str) (wc : Bool) (comments : List Str) (rows : List WRow) :
    writeSwc off source wc comments rows = writeLines off (written source wc comments) rows := by
  cases source <;> rfl

theorem written_no_nl (source : Option Str) (wc : Bool) (comments : List Str)
    (hc : ∀ c ∈ comments, '\n' ∉ c) (hs : ∀ s, source = some s → '\n' ∉ s) :
    ∀ c ∈ written source wc comments, '\n' ∉ c := by
  intro c hm
  cases source with
  | none =>
    cases wc
    · simp [written] at hm
    · simp [written] at hm; exact hc c hm
  | some s =>
    have hs' := hs s rfl
    cases wc
    · simp [written] at hm
      rcases hm with rfl | rfl
      · simp [hs']
      · simp
    · simp [written] at hm
      rcases hm with rfl | rfl | hm
      · simp [hs']
      · simp
      · exact hc c hm

theorem writeLines_isLine (off : Nat) (cs : List Str) (rows : List WRow) (hc : ∀ c ∈ cs, '\n' ∉ c) :
    ∀ l ∈ writeLines off cs rows, IsLine l := by
  intro l hl
  simp only [writeLines, List.mem_append, List.mem_map, List.mem_cons] at hl
  rcases hl with ⟨c, hc', rfl⟩ | rfl | ⟨w, -, rfl⟩
  · exact isLine_commentLine c (hc c hc')
  · exact isLine_headerLine
  · exact isLine_formatRow off w

/-- the written lines really are the lines of the written text: joining them and iterating over the text
line by line (as file iteration does) gives them back — this is where "no line break inside a comment /
source string" is needed -/
theorem written_lines_are_lines (off : Nat) (source : Option Str) (wc : Bool) (comments : List Str) (rows : List WRow)
    (hc : ∀ c ∈ comments, '\n' ∉ c) (hs : ∀ s, source = some s → '\n' ∉ s) :
    splitLines (writeSwc off source wc comments rows).flatten = writeSwc off source wc comments rows := by
  rw [writeSwc_eq]
  exact splitLines_flatten _ (writeLines_isLine off _ rows (written_no_nl source wc comments hc hs))

theorem filterMap_row_comments (cs : List Str) : (cs.map commentLine).filterMap (rowOf 0) = [] := by
  induction cs with
  | nil => rfl
  | cons c cs ih => simp [rowOf, classify_commentLine, ih]
theorem filterMap_cmt_comments (cs : List Str) :
    (cs.map commentLine).filterMap (cmtOf 0) = (cs.map readBack).filter keepComment := by
  induction cs with
  | nil => rfl
  | cons c cs ih =>
    by_cases hk : keepComment (readBack c) = true <;>
      simp [cmtOf, classify_commentLine, hk, ← ih]
theorem any_tl_comments (cs : List Str) : (cs.map commentLine).any (tlOf 0) = false := by
  induction cs with
  | nil => rfl
  | cons c cs ih => simp [tlOf, classify_commentLine] at ih ⊢
theorem filterMap_row_rows (off : Nat) (rows : List WRow) (hp : ∀ w ∈ rows, w.pid = -1 ∨ 0 ≤ w.pid) :
    (rows.map (formatRow off)).filterMap (rowOf 0) = rows.map (shifted off) := by
  induction rows with
  | nil => rfl
  | cons w ws ih =>
    have := ih (fun w hw => hp w (by simp [hw]))
    simp [rowOf, row_roundtrip off w (hp w (by simp)), ← this]
theorem filterMap_cmt_rows (off : Nat) (rows : List WRow) (hp : ∀ w ∈ rows, w.pid = -1 ∨ 0 ≤ w.pid) :
    (rows.map (formatRow off)).filterMap (cmtOf 0) = [] := by
  induction rows with
  | nil => rfl
  | cons w ws ih =>
    have := ih (fun w hw => hp w (by simp [hw]))
    simp [cmtOf, row_roundtrip off w (hp w (by simp)), this]
theorem any_tl_rows (off : Nat) (rows : List WRow) (hp : ∀ w ∈ rows, w.pid = -1 ∨ 0 ≤ w.pid) :
    (rows.map (formatRow off)).any (tlOf 0) = false := by
  induction rows with
  | nil => rfl
  | cons w ws ih =>
    have := ih (fun w hw => hp w (by simp [hw]))
    simp [tlOf, row_roundtrip off w (hp w (by simp))] at this ⊢
    exact this

/-- **table round trip.**  For every row list, offset ≥ 0, source header choice and comment list (no line
breaks inside a comment): reading the written TEXT succeeds, returns exactly the written rows (shifted)
in order, raises no "fields ignored" warning, and returns the written comments in order — those that do
not themselves start with the column-header text. -/
theorem table_roundtrip (off : Nat) (source : Option Str) (wc : Bool) (comments : List Str) (rows : List WRow)
    (hc : ∀ c ∈ comments, '\n' ∉ c) (hs : ∀ s, source = some s → '\n' ∉ s)
    (hp : ∀ w ∈ rows, w.pid = -1 ∨ 0 ≤ w.pid) :
    readLines 0 (splitLines (writeSwc off source wc comments rows).flatten)
      = .ok ⟨rows.map (shifted off),
             ((written source wc comments).map readBack).filter keepComment, false⟩ := by
  rw [written_lines_are_lines off source wc comments rows hc hs, readLines_eq, writeSwc_eq, readLinesWith_valid]
  · have hh := (header_dropped 0)
    have h1 : rowOf 0 headerLine = none := by simp [rowOf, hh.1]
    have h2 : cmtOf 0 headerLine = none := by simp [cmtOf, hh.1, hh.2]
    have h3 : tlOf 0 headerLine = false := by simp [tlOf, hh.1]
    simp only [writeLines, List.filterMap_append, List.filterMap_cons, h1, h2, List.any_append, List.any_cons, h3,
      filterMap_row_comments, filterMap_cmt_comments, any_tl_comments, filterMap_row_rows off rows hp,
      filterMap_cmt_rows off rows hp, any_tl_rows off rows hp]
    simp
  · intro l hl
    simp only [writeLines, List.mem_append, List.mem_map, List.mem_cons] at hl
    rcases hl with ⟨c, -, rfl⟩ | rfl | ⟨w, hw, rfl⟩
    · rw [classify_commentLine]; simp
    · rw [(header_dropped 0).1]; simp
    · rw [row_roundtrip off w (hp w hw)]; simp

/-- **nothing is added to the comments but the optional source header**: when no written comment starts
with the column-header text, the comments come back one for one, with the same text (leading blanks aside) -/
theorem comments_roundtrip (off : Nat) (source : Option Str) (wc : Bool) (comments : List Str) (rows : List WRow)
    (hc : ∀ c ∈ comments, '\n' ∉ c) (hs : ∀ s, source = some s → '\n' ∉ s)
    (hp : ∀ w ∈ rows, w.pid = -1 ∨ 0 ≤ w.pid)
    (hk : ∀ c ∈ written source wc comments, keepComment (readBack c) = true) :
    ∃ res, readLines 0 (splitLines (writeSwc off source wc comments rows).flatten) = .ok res ∧
      res.comments.map dropWs = (written source wc comments).map dropWs := by
  refine ⟨_, table_roundtrip off source wc comments rows hc hs hp, ?_⟩
  have hf : ((written source wc comments).map readBack).filter keepComment = (written source wc comments).map readBack := by
    rw [List.filter_eq_self]
    intro c hc'
    simp only [List.mem_map] at hc'
    obtain ⟨c0, h0, rfl⟩ := hc'
    exact hk c0 h0
  simp only [hf, List.map_map]
  apply List.map_congr_left
  intro c _
  exact comment_text_same c

/-- the tree the reader builds after `reset_index_` -/
def original (w : WRow) : IRow :=
  ⟨w.id, w.type, ⟨w.x.1, w.x.2, -4⟩, ⟨w.y.1, w.y.2, -4⟩, ⟨w.z.1, w.z.2, -4⟩, ⟨w.r.1, w.r.2, -4⟩, w.pid⟩

/-- **re-basing undoes the offset**: for a table whose first row is the root with id 0 (a well-formed
tree) and whose other parents are node ids (≥ 0), `reset_index_` of the shifted rows gives back every
id and parent; with `table_roundtrip` this is: same node count, same parent of every node, same types,
coordinates and radii on the 4-decimal grid — for every offset. -/
theorem reset_restores (off : Nat) (w0 : WRow) (rest : List WRow) (h0 : w0.id = 0 ∧ w0.pid = -1)
    (hp : ∀ w ∈ rest, w.pid = -1 ∨ 0 ≤ w.pid) :
    resetIndex ((w0 :: rest).map (shifted off)) = (w0 :: rest).map original := by
  obtain ⟨h0i, h0p⟩ := h0
  have hb : firstRootId ((w0 :: rest).map (shifted off)) = (off : Int) := by
    simp [firstRootId, shifted, h0p, h0i]
  unfold resetIndex
  simp only [hb, List.map_map]
  apply List.map_congr_left
  intro w hw
  have hw' : w.pid = -1 ∨ 0 ≤ w.pid := by
    simp only [List.mem_cons] at hw
    rcases hw with rfl | hw
    · exact Or.inl h0p
    · exact hp w hw
  simp only [Function.comp, shifted, original]
  congr 1
  · omega
  · rcases hw' with h | h
    · simp [h]
    · have h1 : w.pid ≠ -1 := by omega
      have h2 : w.pid + (off : Int) ≠ -1 := by omega
      simp [h1, h2]

-- non-vacuity: a concrete table written with offset 7 and read back
def exRows : List WRow :=
  [⟨0, 1, (false, 0), (true, 0), (false, 12345), (false, 10000), -1⟩,
   ⟨1, 3, (true, 250001), (false, 5), (false, 0), (false, 2500), 0⟩]
example : (writeSwc 7 none true ["  hello".toList, " ".toList] exRows).map String.ofList
    = ["# hello\n", "#\n", "# id type x y z r pid\n", "7 1 0.0000 -0.0000 1.2345 1.0000 -1\n", "8 3 -25.0001 0.0005 0.0000 0.2500 7\n"] := by
  decide +kernel
example : (readLines 0 (splitLines (writeSwc 7 none true ["  hello".toList, " ".toList] exRows).flatten)).toOption.map (fun r => resetIndex r.rows)
    = some (exRows.map original) := by decide +kernel

end C01
