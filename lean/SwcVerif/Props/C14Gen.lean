import SwcVerif.Props.C14
import SwcVerif.Props.C04
import SwcVerif.Refine.Volume
import SwcVerif.Proofs.Represent
/-! # C14, the traversal around the per-node arithmetic tied to the source by the translator

`Gen.Algo.get_volume_frustum_cone` / `Gen.Algo.vol_leave` are regenerated from `swcgeom/analysis/volume.py::_get_volume_frustum_cone` on every
run (the `leave` closure handed to `tree.traverse`, the list of its children's results, the cones built from them, the accuracy gating, the
accumulation into the non-local `volume`), and call the GENERATED `Tree.traverse`.  `RefineVolume.getVolume_refines` proves the result equal to
the sum over the nodes of the generated per-node value; below it is identified with the hand-written traversal model `Vol.treeVolume`, and the
level clauses of the property are restated for the code as translated.  The primitive volumes (`volSphere`, `volFrustum`, `volSF`, `volPairs`)
are arbitrary functions of the node data. -/
namespace C14
open Vol Trav Gen.Algo RefineVolume RefineTravFront

variable (volSphere : Int → ℝ) (volFrustum : Int × Int → ℝ) (volSF : Int → Int × Int → ℝ) (volPairs : Int → List (Int × Int) → ℝ) (mcScene : List Py.Shape → ℝ)

/-- **generated = the hand-written model `Model/Volume.lean`**: for every table whose subtree at node 0 is `r` (rows = nodes), every accuracy
level other than 10 (Monte Carlo only) and every sufficient fuel, the translated `_get_volume_frustum_cone` returns what `Vol.treeVolume`
(C04's step machine with the model's `leave`) computes from the same primitive volumes -/
theorem generated_volume_eq_model (acc : Nat) (hacc : acc ≠ 10) (ids pids : List Int) (r : Rose) (h : Represents r ids pids) (h0 : r.id = 0)
    (hok : Rows r ids) (F : Nat) :
    get_volume_frustum_cone volSphere volFrustum volSF volPairs mcScene (2 * r.size + F + 1) ids pids (acc : Int)
      = some (treeVolume acc (terms volSphere volFrustum volSF volPairs) ids pids r.id (2 * r.size)) := by
  rw [getVolume_refines volSphere volFrustum volSF volPairs mcScene acc hacc ids pids r h h0 hok F, tree_volume_eq_sum acc _ ids pids r h]

/-- **level 1 for the translated function, every tree**: the sum of the node spheres -/
theorem generated_level1_every_tree (ids pids : List Int) (r : Rose) (h : Represents r ids pids) (h0 : r.id = 0) (hok : Rows r ids) (F : Nat) :
    get_volume_frustum_cone volSphere volFrustum volSF volPairs mcScene (2 * r.size + F + 1) ids pids 1
      = some (sumRose (fun i _ => volSphere i) r) := by
  have := generated_volume_eq_model volSphere volFrustum volSF volPairs mcScene 1 (by decide) ids pids r h h0 hok F
  rw [level1_every_tree _ _ _ _ h] at this
  exact this

/-- **level 2 for the translated function, every tree**: node spheres plus the frusta to the children -/
theorem generated_level2_every_tree (ids pids : List Int) (r : Rose) (h : Represents r ids pids) (h0 : r.id = 0) (hok : Rows r ids) (F : Nat) :
    get_volume_frustum_cone volSphere volFrustum volSF volPairs mcScene (2 * r.size + F + 1) ids pids 2
      = some (sumRose (fun i ks => volSphere i + Py.sumNum (ks.map fun c => volFrustum (i, c))) r) := by
  have := generated_volume_eq_model volSphere volFrustum volSF volPairs mcScene 2 (by decide) ids pids r h h0 hok F
  rw [level2_every_tree _ _ _ _ h] at this
  exact this

/-- **levels 3 and 4 for the translated function, every tree**: spheres + frusta − (parent sphere ∩ frustum) − (child sphere ∩ frustum) -/
theorem generated_level3_every_tree (acc : Nat) (h3 : 3 ≤ acc) (h5 : acc < 5) (ids pids : List Int) (r : Rose) (h : Represents r ids pids)
    (h0 : r.id = 0) (hok : Rows r ids) (F : Nat) :
    get_volume_frustum_cone volSphere volFrustum volSF volPairs mcScene (2 * r.size + F + 1) ids pids (acc : Int)
      = some (sumRose (fun i ks => volSphere i + Py.sumNum (ks.map fun c => volFrustum (i, c))
          - Py.sumNum (ks.map fun c => volSF i (i, c)) - Py.sumNum (ks.map fun c => volSF c (i, c))) r) := by
  have := generated_volume_eq_model volSphere volFrustum volSF volPairs mcScene acc (by omega) ids pids r h h0 hok F
  rw [level3_every_tree acc h3 h5 _ _ _ _ h] at this
  exact this

/-- **every well-formed tree**: a `Tree` object's ids are its rows; for every well-formed parent table there is its rose `r`, and the
translated function reports the sum over `r` at every analytic level — the hypotheses above are not a restriction -/
theorem generated_volume_every_tree (pids : List Int) (hw : C07.WF pids) :
    ∃ r : Rose, C06.IsTree r pids ∧ ∀ (acc : Nat), acc ≠ 10 → ∀ (F : Nat),
      get_volume_frustum_cone volSphere volFrustum volSF volPairs mcScene (2 * r.size + F + 1) (Sub.rangeI pids.length) pids (acc : Int)
        = some (sumRose (fun i ks => nodeVal acc (terms volSphere volFrustum volSF volPairs i ks)) r) := by
  obtain ⟨r, hr⟩ := Represent.wf_represented pids hw
  refine ⟨r, hr, ?_⟩
  intro acc hacc F
  have hok : Rows r (Sub.rangeI pids.length) := by
    intro j hj
    have := (C06.isTree_mem hr j).1 hj
    simp only [Sub.rangeI, List.length_map, List.length_range]
    omega
  exact getVolume_refines volSphere volFrustum volSF volPairs mcScene acc hacc _ pids r hr.1 hr.2.2.1 hok F

/-- non-vacuity: the translated function, kernel-evaluated at `K = Int` on the table of `C04.lean` (root 0 with the children 2, 3; node 3 with 1, 4)
with primitive volumes that encode which object they belong to: levels 1, 2, 3, 5 and 10 -/
example : ([1, 2, 3, 5, 10].map fun acc => get_volume_frustum_cone (K := Int) (fun i => 1000 + i) (fun f => 100 * f.1 + 10 * f.2)
      (fun s f => s + f.2) (fun s cs => 7 * cs.length) (fun _ => 424242) 11 C04.exIds C04.exPids acc)
    = [some 5010, some 5710, some 5674, some 5646, some 424242] := by
  decide +kernel

end C14
