import SwcVerif.Model.Asc
