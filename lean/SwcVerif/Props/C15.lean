import SwcVerif.Model.Asc
/-! # C15 — Neurolucida ASC conversion is faithful to the document

Theorems about the lexer/parser model `Model/Asc.lean` (tied to the code by the `c15.convert`
correspondence on generated, truncated and corrupted documents).

The document grammar (single tree): a branch is a run of points, optionally followed by a split
`( alt | alt | … )` whose alternatives are branches; an alternative may be empty; a branch that splits
has at least one point. -/
namespace C15
open Asc
open SwcText (Sci)

structure Pt where
  x : Sci
  y : Sci
  z : Sci
  r : Sci
deriving Repr, DecidableEq

inductive Branch where
  | leaf (pts : List Pt)                                   -- no split; `leaf []` = empty alternative
  | fork (p : Pt) (pts : List Pt) (alts : List Branch)     -- ≥ 1 point, then `( alt | … )`

def ptToks (p : Pt) : List Tok := [.lp, .float p.x, .float p.y, .float p.z, .float p.r, .rp]

-- the tokens of a branch / of the alternatives of a split (separated by `|`)
mutual
def branchToks : Branch → List Tok
  | .leaf pts => pts.flatMap ptToks
  | .fork p pts alts => ptToks p ++ pts.flatMap ptToks ++ [.lp] ++ altsToks alts ++ [.rp]
def altsToks : List Branch → List Tok
  | [] => []
  | [a] => branchToks a
  | a :: b :: rest => branchToks a ++ [.bar] ++ altsToks (b :: rest)
end

-- number of points
mutual
def Branch.count : Branch → Nat
  | .leaf pts => pts.length
  | .fork _ pts alts => 1 + pts.length + countL alts
def countL : List Branch → Nat
  | [] => 0
  | a :: rest => a.count + countL rest
end

/-- rows of a run of points: the first hangs from `parent`, each next one from its predecessor;
ids are `next, next+1, …` -/
def chainRows (ty : Int) : List Pt → Int → Nat → List Row
  | [], _, _ => []
  | p :: ps, parent, next => ⟨ty, p.x, p.y, p.z, p.r, parent⟩ :: chainRows ty ps (next : Int) (next + 1)

-- **the table the property describes**: one row per point in document order, typed by the label; a
-- point's parent is the preceding point of its branch, or the last point before the enclosing split for
-- the first point of each alternative
mutual
def rowsOf (ty : Int) : Branch → Int → Nat → List Row
  | .leaf pts, parent, next => chainRows ty pts parent next
  | .fork p pts alts, parent, next =>
    chainRows ty (p :: pts) parent next ++ altsRows ty alts ((next + pts.length : Nat) : Int) (next + pts.length + 1)
def altsRows (ty : Int) : List Branch → Int → Nat → List Row
  | [], _, _ => []
  | a :: rest, parent, next => rowsOf ty a parent next ++ altsRows ty rest parent (next + a.count)
end

def docToks (label : SwcText.Str) (b : Branch) : List Tok :=
  [.lp, .lp, .literal label, .rp] ++ branchToks b ++ [.rp]

def labelType (label : SwcText.Str) : Int :=
  if upper label = "AXON".toList then Gen.Consts.type_axon else Gen.Consts.type_basal_dendrite

def NonEmpty : Branch → Prop
  | .leaf pts => pts ≠ []
  | .fork _ _ _ => True


/-! ## helper lemmas -/

theorem chainRows_length (ty : Int) : ∀ (pts : List Pt) (parent : Int) (next : Nat),
    (chainRows ty pts parent next).length = pts.length
  | [], _, _ => by simp [chainRows]
  | _ :: ps, _, next => by simp [chainRows, chainRows_length ty ps]

mutual
theorem rowsOf_length (ty : Int) : ∀ (b : Branch) (parent : Int) (next : Nat),
    (rowsOf ty b parent next).length = b.count
  | .leaf pts, parent, next => by simp [rowsOf, Branch.count, chainRows_length]
  | .fork p pts alts, parent, next => by
    simp [rowsOf, Branch.count, chainRows_length, altsRows_length ty alts]; omega
theorem altsRows_length (ty : Int) : ∀ (alts : List Branch) (parent : Int) (next : Nat),
    (altsRows ty alts parent next).length = countL alts
  | [], _, _ => by simp [altsRows, countL]
  | a :: rest, parent, next => by
    simp [altsRows, countL, rowsOf_length ty a, altsRows_length ty rest]
end

@[simp] theorem ok_bind {α β : Type} (a : α) (k : α → Except Err β) : (Except.ok a >>= k) = k a := rfl
@[simp] theorem error_bind {α β : Type} (e : Err) (k : α → Except Err β) : (Except.error e >>= k) = .error e := rfl

theorem adv_cons2 (x y : Tok) (t : List Tok) (ht : y ≠ .bad) : adv (x :: y :: t) = .ok (y :: t) := by
  cases y <;> simp_all [adv]
@[simp] theorem adv_single (x : Tok) : adv [x] = .ok [] := rfl
@[simp] theorem adv_nil : adv [] = .ok [] := rfl

@[simp] theorem error_map {α β : Type} (e : Err) (k : α → β) : (k <$> (Except.error e : Except Err α)) = .error e := rfl
@[simp] theorem ok_map {α β : Type} (a : α) (k : α → β) : (k <$> (Except.ok a : Except Err α)) = .ok (k a) := rfl

theorem adv_cons (x : Tok) (t : List Tok) (ht : t.head? ≠ some .bad) : adv (x :: t) = .ok t := by
  cases t with
  | nil => rfl
  | cons y t => cases y <;> simp_all [adv]

theorem skipSpaces_append (ws s : SwcText.Str) (hws : ∀ c ∈ ws, isSpace c = true) :
    skipSpaces (ws ++ s) = skipSpaces s := by
  induction ws with
  | nil => rfl
  | cons c ws ih =>
    have h1 : isSpace c = true := hws c (by simp)
    simp only [List.cons_append, skipSpaces, h1, if_true]
    exact ih (fun c hc => hws c (by simp [hc]))

/-! ## simulation of the subtree loop on rendered branches -/

theorem point_tail (ty : Int) (g : Nat) (x y z r : Sci) (rest : List Tok) (root cur : Int)
    (rows : List Row) (hr : rest.head? ≠ some .bad) :
    parseSubtree ty (g + 1) (.float x :: .float y :: .float z :: .float r :: .rp :: rest) false root cur rows
      = parseSubtree ty g rest true root (rows.length : Int) (rows ++ [⟨ty, x, y, z, r, cur⟩]) := by
  simp [parseSubtree, parseNode, expectRp, adv_cons2, adv_cons, hr]

theorem point_step (ty : Int) (g : Nat) (p : Pt) (rest : List Tok) (root cur : Int)
    (rows : List Row) (hr : rest.head? ≠ some .bad) :
    parseSubtree ty (g + 2) (ptToks p ++ rest) true root cur rows
      = parseSubtree ty g rest true root (rows.length : Int) (rows ++ [⟨ty, p.x, p.y, p.z, p.r, cur⟩]) := by
  rw [← point_tail ty g p.x p.y p.z p.r rest root cur rows hr]
  simp [ptToks, parseSubtree, adv_cons2]

theorem flatMap_head (pts : List Pt) (rest : List Tok) (hr : rest.head? ≠ some .bad) :
    (pts.flatMap ptToks ++ rest).head? ≠ some .bad := by
  cases pts with
  | nil => simpa using hr
  | cons p ps => simp [ptToks]

/-- the id of the last point of a run (`cur` if the run is empty) -/
def chainCur : List Pt → Int → Nat → Int
  | [], cur, _ => cur
  | _ :: ps, _, next => chainCur ps (next : Int) (next + 1)

theorem chainCur_cons (p : Pt) : ∀ (pts : List Pt) (cur : Int) (next : Nat),
    chainCur (p :: pts) cur next = ((next + pts.length : Nat) : Int)
  | [], _, _ => by simp [chainCur]
  | q :: qs, cur, next => by
    have := chainCur_cons q qs (next : Int) (next + 1)
    simp only [chainCur] at this ⊢
    rw [this]; simp; omega

theorem chain_run (ty : Int) : ∀ (pts : List Pt) (g : Nat) (rest : List Tok) (root cur : Int) (rows : List Row),
    rest.head? ≠ some .bad →
    parseSubtree ty (g + 2 * pts.length) (pts.flatMap ptToks ++ rest) true root cur rows
      = parseSubtree ty g rest true root (chainCur pts cur rows.length) (rows ++ chainRows ty pts cur rows.length)
  | [], g, rest, root, cur, rows, _ => by simp [chainCur, chainRows]
  | p :: ps, g, rest, root, cur, rows, hr => by
    have h1 : g + 2 * (p :: ps).length = (g + 2 * ps.length) + 2 := by simp; omega
    rw [h1, List.flatMap_cons, List.append_assoc,
      point_step ty _ p _ root cur rows (flatMap_head ps rest hr),
      chain_run ty ps g rest root _ _ hr]
    simp [chainCur, chainRows]

/-- loop iterations spent on the branch by the call that meets it -/
def seq : Branch → Nat
  | .leaf pts => 2 * pts.length
  | .fork _ pts _ => 2 * (pts.length + 1) + 2

-- fuel that must be left after the branch so that the recursive calls inside it complete
mutual
def need : Branch → Nat
  | .leaf _ => 0
  | .fork _ _ alts => needL alts
def needL : List Branch → Nat
  | [] => 1
  | a :: rest => seq a + need a + 1 + needL rest
end

def lastCur : Branch → Int → Nat → Int
  | .leaf pts, cur, next => chainCur pts cur next
  | .fork p pts _, cur, next => chainCur (p :: pts) cur next

theorem branchToks_shape (b : Branch) :
    (branchToks b = [] ∧ b = .leaf []) ∨ ∃ v t, branchToks b = .lp :: .float v :: t := by
  cases b with
  | leaf pts =>
    cases pts with
    | nil => left; simp [branchToks]
    | cons p ps => right; exact ⟨p.x, _, by simp [branchToks, ptToks]; rfl⟩
  | fork p pts alts => right; exact ⟨p.x, _, by simp [branchToks, ptToks]; rfl⟩

theorem altsToks_shape (alts : List Branch) :
    (altsToks alts = [] ∧ (alts = [] ∨ alts = [.leaf []])) ∨ (∃ v t, altsToks alts = .lp :: .float v :: t)
      ∨ (∃ t, altsToks alts = .bar :: t) := by
  match alts with
  | [] => left; simp [altsToks]
  | [a] =>
    rcases branchToks_shape a with ⟨h, rfl⟩ | ⟨v, t, h⟩
    · left; simp [altsToks, h]
    · right; left; exact ⟨v, t, by simp [altsToks, h]⟩
  | a :: b :: rest =>
    rcases branchToks_shape a with ⟨h, rfl⟩ | ⟨v, t, h⟩
    · right; right; exact ⟨_, by simp [altsToks, h]; rfl⟩
    · right; left; exact ⟨v, _, by simp [altsToks, h]; rfl⟩

theorem altsToks_head (alts : List Branch) (rest : List Tok) :
    (altsToks alts ++ .rp :: rest).head? ≠ some .bad := by
  rcases altsToks_shape alts with ⟨h, _⟩ | ⟨v, t, h⟩ | ⟨t, h⟩ <;> simp [h]

/-- the `( alt | … )` part of a branch, given the behaviour of the recursive call on `alts` -/
theorem split_step (ty : Int) (alts : List Branch) (g : Nat) (rest : List Tok) (root cur : Int) (rows : List Row)
    (hr : rest.head? ≠ some .bad)
    (hQ : ∀ (f : Nat) (rest : List Tok) (par : Int) (rows : List Row), rest.head? ≠ some .bad → needL alts ≤ f →
      parseSubtree ty f (altsToks alts ++ .rp :: rest) true par par rows
        = .ok (.rp :: rest, rows ++ altsRows ty alts par rows.length))
    (hg : needL alts ≤ g) :
    parseSubtree ty (g + 2) (.lp :: (altsToks alts ++ .rp :: rest)) true root cur rows
      = parseSubtree ty g rest true root cur (rows ++ altsRows ty alts cur rows.length) := by
  rcases altsToks_shape alts with ⟨h, h' | h'⟩ | ⟨v, t, h⟩ | ⟨t, h⟩
  · subst h'
    simp [altsToks, altsRows, parseSubtree, adv_cons2, adv_cons, hr]
  · subst h'
    simp [altsToks, branchToks, altsRows, rowsOf, chainRows, parseSubtree, adv_cons2, adv_cons, hr]
  · have hq := hQ (g + 1) rest cur rows hr (by omega)
    rw [h] at hq ⊢
    simp [parseSubtree, adv_cons2] at hq
    simp [parseSubtree, adv_cons2, hq, expectRp, adv_cons, hr]
  · have hq := hQ g rest cur rows hr hg
    rw [h] at hq ⊢
    simp only [List.cons_append] at hq
    simp [parseSubtree, adv_cons2, hq, expectRp, adv_cons, hr]

mutual
theorem sim_branch (ty : Int) : ∀ (b : Branch) (g : Nat) (rest : List Tok) (root cur : Int) (rows : List Row),
    rest.head? ≠ some .bad → need b ≤ g →
    parseSubtree ty (g + seq b) (branchToks b ++ rest) true root cur rows
      = parseSubtree ty g rest true root (lastCur b cur rows.length) (rows ++ rowsOf ty b cur rows.length)
  | .leaf pts, g, rest, root, cur, rows, hr, _ => by
    simpa [seq, branchToks, rowsOf, lastCur] using chain_run ty pts g rest root cur rows hr
  | .fork p pts alts, g, rest, root, cur, rows, hr, hg => by
    have h1 : branchToks (.fork p pts alts) ++ rest
        = (p :: pts).flatMap ptToks ++ (.lp :: (altsToks alts ++ .rp :: rest)) := by
      simp [branchToks]
    have h2 : g + seq (.fork p pts alts) = (g + 2) + 2 * (p :: pts).length := by simp [seq]; omega
    rw [h1, h2, chain_run ty (p :: pts) (g + 2) _ root cur rows (by simp),
      split_step ty alts g rest root _ _ hr (fun f rest par rows hr hf => sim_alts ty alts f rest par rows hr hf)
        (by simpa [need] using hg)]
    simp [lastCur, rowsOf, chainCur_cons, chainRows_length, List.append_assoc, Nat.add_assoc]
theorem sim_alts (ty : Int) : ∀ (alts : List Branch) (f : Nat) (rest : List Tok) (par : Int) (rows : List Row),
    rest.head? ≠ some .bad → needL alts ≤ f →
    parseSubtree ty f (altsToks alts ++ .rp :: rest) true par par rows
      = .ok (.rp :: rest, rows ++ altsRows ty alts par rows.length)
  | [], f, rest, par, rows, _, hf => by
    obtain ⟨f, rfl⟩ : ∃ f', f = f' + 1 := ⟨f - 1, by simp [needL] at hf; omega⟩
    simp [altsToks, altsRows, parseSubtree]
  | [a], f, rest, par, rows, hr, hf => by
    simp only [needL] at hf
    obtain ⟨g, rfl⟩ : ∃ g, f = (g + 1) + seq a := ⟨f - seq a - 1, by omega⟩
    simp only [altsToks]
    rw [sim_branch ty a (g + 1) _ par par rows (by simp) (by omega)]
    simp [parseSubtree, altsRows]
  | a :: b :: bs, f, rest, par, rows, hr, hf => by
    simp only [needL] at hf
    obtain ⟨g, rfl⟩ : ∃ g, f = (g + 1) + seq a := ⟨f - seq a - 1, by omega⟩
    have h1 : altsToks (a :: b :: bs) ++ .rp :: rest
        = branchToks a ++ (.bar :: (altsToks (b :: bs) ++ .rp :: rest)) := by simp [altsToks]
    rw [h1, sim_branch ty a (g + 1) _ par par rows (by simp) (by omega)]
    rw [parseSubtree]
    simp only [if_true, adv_cons _ _ (altsToks_head (b :: bs) rest), ok_bind]
    rw [sim_alts ty (b :: bs) g rest par _ hr (by simp only [needL]; omega)]
    simp [altsRows, rowsOf_length, List.append_assoc]
end

/-! ## fuel bound and the document level -/

theorem flatMap_ptToks_length (pts : List Pt) : (pts.flatMap ptToks).length = 6 * pts.length := by
  induction pts with
  | nil => rfl
  | cons p ps ih => simp [List.flatMap_cons, ptToks, ih]; omega

mutual
theorem need_le : ∀ (b : Branch), seq b + need b ≤ (branchToks b).length
  | .leaf pts => by simp only [seq, need, branchToks, flatMap_ptToks_length]; omega
  | .fork p pts alts => by
    have := needL_le alts
    simp only [seq, need, branchToks, List.length_append, flatMap_ptToks_length, ptToks, List.length_cons,
      List.length_nil]; omega
theorem needL_le : ∀ (alts : List Branch), needL alts ≤ (altsToks alts).length + 2
  | [] => by simp [needL, altsToks]
  | [a] => by have := need_le a; simp [needL, altsToks]; omega
  | a :: b :: bs => by
    have := need_le a
    have := needL_le (b :: bs)
    simp only [needL, altsToks, List.length_append, List.length_cons, List.length_nil] at *; omega
end

theorem nonEmpty_shape (b : Branch) (hb : NonEmpty b) : ∃ v t, branchToks b = .lp :: .float v :: t := by
  rcases branchToks_shape b with ⟨_, rfl⟩ | h
  · simp [NonEmpty] at hb
  · exact h

/-- the call `_parse_tree` makes: the opening bracket of the first point is already consumed -/
theorem top_run (ty : Int) (b : Branch) (v : Sci) (t rest : List Tok) (par : Int) (rows : List Row) (f : Nat)
    (h : branchToks b = .lp :: .float v :: t) (hr : rest.head? ≠ some .bad)
    (hf : (branchToks b).length + 1 ≤ f) :
    parseSubtree ty f (.float v :: (t ++ .rp :: rest)) false par par rows
      = .ok (.rp :: rest, rows ++ rowsOf ty b par rows.length) := by
  have hq := sim_alts ty [b] (f + 1) rest par rows hr (by have := needL_le [b]; simp only [altsToks] at this; omega)
  simp only [altsToks, h] at hq
  simp [parseSubtree, adv_cons2] at hq
  simpa [altsRows] using hq

theorem skipComments_lp (f : Nat) (t : List Tok) : skipComments (f + 1) (.lp :: t) = .ok (.lp :: t) := by
  simp [skipComments]

theorem label_cond (label : SwcText.Str) (hl : upper label = "AXON".toList ∨ upper label = "DENDRITE".toList) :
    (decide (upper label = "AXON".toList) || decide (upper label = "DENDRITE".toList)) = true := by
  rcases hl with h | h <;> simp [h]

theorem parseTop_tree (label : SwcText.Str) (b : Branch) (extra : List Tok) (f : Nat)
    (hl : upper label = "AXON".toList ∨ upper label = "DENDRITE".toList) (hb : NonEmpty b)
    (hx : extra.head? ≠ some .bad) (hf : (branchToks b).length + 2 ≤ f) :
    parseTop (f + 1) (.lp :: .literal label :: .rp :: (branchToks b ++ .rp :: extra)) []
      = .ok (.rp :: extra, rowsOf (labelType label) b (-1) 0) := by
  obtain ⟨v, t, h⟩ := nonEmpty_shape b hb
  obtain ⟨f, rfl⟩ : ∃ f', f = f' + 1 := ⟨f - 1, by omega⟩
  have hrun := top_run (labelType label) b v t extra (-1) [] (f + 1) h hx (by omega)
  rw [h]
  simp only [labelType] at hrun
  rw [parseTop]
  simp only [adv_cons2 _ _ _ (show Tok.literal label ≠ .bad by simp), ok_bind]
  rw [if_pos (label_cond label hl)]
  simp only [labelType]
  generalize (if upper label = "AXON".toList then Gen.Consts.type_axon else Gen.Consts.type_basal_dendrite) = ty at *
  simp only [adv_cons2 _ _ _ (show Tok.rp ≠ .bad by simp), ok_bind, expectRp, List.cons_append,
    adv_cons2 _ _ _ (show Tok.lp ≠ .bad by simp), skipComments, expectLp,
    adv_cons2 _ _ _ (show Tok.float v ≠ .bad by simp), hrun]
  simp [parseTop]

theorem parseTop_tree_comment (label c : SwcText.Str) (b : Branch) (extra : List Tok) (f : Nat)
    (hl : upper label = "AXON".toList ∨ upper label = "DENDRITE".toList) (hb : NonEmpty b)
    (hx : extra.head? ≠ some .bad) (hf : (branchToks b).length + 3 ≤ f) :
    parseTop (f + 1) (.lp :: .literal label :: .rp :: .comment c :: (branchToks b ++ .rp :: extra)) []
      = .ok (.rp :: extra, rowsOf (labelType label) b (-1) 0) := by
  obtain ⟨v, t, h⟩ := nonEmpty_shape b hb
  obtain ⟨f, rfl⟩ : ∃ f', f = f' + 2 := ⟨f - 2, by omega⟩
  have hrun := top_run (labelType label) b v t extra (-1) [] (f + 2) h hx (by omega)
  rw [h]
  simp only [labelType] at hrun
  rw [parseTop]
  simp only [adv_cons2 _ _ _ (show Tok.literal label ≠ .bad by simp), ok_bind]
  rw [if_pos (label_cond label hl)]
  simp only [labelType]
  generalize (if upper label = "AXON".toList then Gen.Consts.type_axon else Gen.Consts.type_basal_dendrite) = ty at *
  simp only [adv_cons2 _ _ _ (show Tok.rp ≠ .bad by simp), ok_bind, expectRp, List.cons_append,
    adv_cons2 _ _ _ (show Tok.lp ≠ .bad by simp),
    adv_cons2 _ _ _ (show Tok.comment c ≠ .bad by simp), skipComments, expectLp,
    adv_cons2 _ _ _ (show Tok.float v ≠ .bad by simp), hrun]
  simp [parseTop]

/-- `convertTokens` with the fuel made explicit -/
def convertWith (N : Nat) (toks : List Tok) : Except Err (List Row) := do
  let t0 ← skipComments N toks
  let t1 ← expectLp t0
  let r ← parseTop N t1 []
  match r.1 with
  | [] => .error .eof
  | .rp :: _ => do
    let _ ← adv r.1
    pure r.2
  | _ => .error .tokenType

theorem convertTokens_eq (toks : List Tok) (h : toks.head? ≠ some .bad) :
    convertTokens toks = convertWith (2 * toks.length + 4) toks := by
  cases toks with
  | nil => rfl
  | cons x t => cases x <;> first | rfl | simp at h

theorem convertWith_doc (label : SwcText.Str) (b : Branch) (extra : List Tok) (N : Nat)
    (hl : upper label = "AXON".toList ∨ upper label = "DENDRITE".toList) (hb : NonEmpty b)
    (hx : extra.head? ≠ some .bad) (hN : (branchToks b).length + 3 ≤ N) :
    convertWith N (.lp :: .lp :: .literal label :: .rp :: (branchToks b ++ .rp :: extra))
      = .ok (rowsOf (labelType label) b (-1) 0) := by
  obtain ⟨f, rfl⟩ : ∃ f', N = f' + 1 := ⟨N - 1, by omega⟩
  simp [convertWith, skipComments, expectLp, adv_cons2, parseTop_tree label b extra f hl hb hx (by omega),
    adv_cons, hx]

theorem convertWith_doc_comment1 (label c : SwcText.Str) (b : Branch) (extra : List Tok) (N : Nat)
    (hl : upper label = "AXON".toList ∨ upper label = "DENDRITE".toList) (hb : NonEmpty b)
    (hx : extra.head? ≠ some .bad) (hN : (branchToks b).length + 4 ≤ N) :
    convertWith N (.comment c :: .lp :: .lp :: .literal label :: .rp :: (branchToks b ++ .rp :: extra))
      = .ok (rowsOf (labelType label) b (-1) 0) := by
  obtain ⟨f, rfl⟩ : ∃ f', N = f' + 2 := ⟨N - 2, by omega⟩
  simp [convertWith, skipComments, expectLp, adv_cons2,
    parseTop_tree label b extra (f + 1) hl hb hx (by omega), adv_cons, hx]

theorem convertWith_doc_comment2 (label c : SwcText.Str) (b : Branch) (extra : List Tok) (N : Nat)
    (hl : upper label = "AXON".toList ∨ upper label = "DENDRITE".toList) (hb : NonEmpty b)
    (hx : extra.head? ≠ some .bad) (hN : (branchToks b).length + 4 ≤ N) :
    convertWith N (.lp :: .lp :: .literal label :: .rp :: .comment c :: (branchToks b ++ .rp :: extra))
      = .ok (rowsOf (labelType label) b (-1) 0) := by
  obtain ⟨f, rfl⟩ : ∃ f', N = f' + 1 := ⟨N - 1, by omega⟩
  simp [convertWith, skipComments, expectLp, adv_cons2,
    parseTop_tree_comment label c b extra f hl hb hx (by omega), adv_cons, hx]

/-- **Conversion is faithful**, at any nesting depth and any branch length: the document
`( (label) <branch> )` converts to exactly `rowsOf`. -/
theorem convert_faithful (label : SwcText.Str) (b : Branch)
    (hl : upper label = "AXON".toList ∨ upper label = "DENDRITE".toList) (hb : NonEmpty b) :
    convertTokens (docToks label b) = .ok (rowsOf (labelType label) b (-1) 0) := by
  have h := convertWith_doc label b [] (2 * (docToks label b).length + 4) hl hb (by simp) (by simp [docToks] <;> omega)
  rw [convertTokens_eq _ (by simp [docToks])]
  simpa [docToks] using h

/-- one row per point -/
theorem rows_count (ty : Int) (b : Branch) (parent : Int) (next : Nat) :
    (rowsOf ty b parent next).length = b.count := by
  exact rowsOf_length ty b parent next

/-- trailing text after the closing bracket of the document is never looked at (unless the very next
word is a malformed number) -/
theorem trailing_ignored (label : SwcText.Str) (b : Branch) (extra : List Tok)
    (hl : upper label = "AXON".toList ∨ upper label = "DENDRITE".toList) (hb : NonEmpty b)
    (hx : extra.head? ≠ some .bad) :
    convertTokens (docToks label b ++ extra) = .ok (rowsOf (labelType label) b (-1) 0) := by
  have h := convertWith_doc label b extra (2 * (docToks label b ++ extra).length + 4) hl hb hx (by simp [docToks] <;> omega)
  rw [convertTokens_eq _ (by simp [docToks])]
  simpa [docToks] using h

/-! ## layout: comments and colour markers -/

/-- a comment token is skipped in every state of the subtree loop -/
theorem comment_skipped (ty : Int) (f : Nat) (c : SwcText.Str) (t : List Tok) (flag : Bool) (root cur : Int) (rows : List Row)
    (ht : t.head? ≠ some .bad) :
    parseSubtree ty (f + 1) (.comment c :: t) flag root cur rows = parseSubtree ty f t flag root cur rows := by
  simp [parseSubtree, adv_cons _ t ht]

/-- a colour marker `( Color <word> )` between points changes nothing -/
theorem color_skipped (ty : Int) (f : Nat) (w col : SwcText.Str) (t : List Tok) (root cur : Int) (rows : List Row)
    (hw : upper w = "COLOR".toList) (ht : t.head? ≠ some .bad) :
    parseSubtree ty (f + 2) (.lp :: .literal w :: .literal col :: .rp :: t) true root cur rows
      = parseSubtree ty f t true root cur rows := by
  simp [parseSubtree, parseColor, expectRp, adv_cons, adv_cons2, hw, ht]

/-- comments before the document, and between the label and the first point, are skipped -/
theorem leading_comment_skipped (c : SwcText.Str) (label : SwcText.Str) (b : Branch)
    (hl : upper label = "AXON".toList ∨ upper label = "DENDRITE".toList) (hb : NonEmpty b) :
    convertTokens (.comment c :: docToks label b) = .ok (rowsOf (labelType label) b (-1) 0) ∧
    convertTokens ([.lp, .lp, .literal label, .rp, .comment c] ++ branchToks b ++ [.rp]) = .ok (rowsOf (labelType label) b (-1) 0) := by
  constructor
  · have h := convertWith_doc_comment1 label c b [] (2 * (Tok.comment c :: docToks label b).length + 4) hl hb (by simp)
      (by simp [docToks] <;> omega)
    rw [convertTokens_eq _ (by simp)]
    simpa [docToks] using h
  · have h := convertWith_doc_comment2 label c b []
      (2 * ([Tok.lp, .lp, .literal label, .rp, .comment c] ++ branchToks b ++ [Tok.rp]).length + 4) hl hb (by simp)
      (by simp <;> omega)
    rw [convertTokens_eq _ (by simp)]
    simpa using h

/-! ## rejection -/

/-- a point with three numbers, with five numbers, or with a word inside is an error -/
theorem bad_point_rejected (a b c d e : Sci) (w : SwcText.Str) (t : List Tok) :
    (∃ er, parseNode (.float a :: .float b :: .float c :: .rp :: t) = .error er) ∧
    (∃ er, parseNode (.float a :: .float b :: .float c :: .float d :: .float e :: t) = .error er) ∧
    (∃ er, parseNode (.float a :: .literal w :: t) = .error er) ∧
    (∃ er, parseNode (.float a :: .float b :: .float c :: .float d :: []) = .error er) := by
  refine ⟨?_, ?_, ?_, ?_⟩ <;> simp [parseNode, adv, expectRp]

/-- a point that lacks its opening bracket is rejected -/
theorem unbracketed_point_rejected (ty : Int) (f : Nat) (v : Sci) (rest : List Tok) (root cur : Int) (rows : List Row) :
    parseSubtree ty (f + 1) (.float v :: rest) true root cur rows = .error .tokenType := by
  simp [parseSubtree]

/-- an error inside a point is an error of the whole conversion step (nothing is converted in part) -/
theorem node_error_propagates (ty : Int) (f : Nat) (toks : List Tok) (v : Sci) (rest : List Tok) (flag : Bool)
    (root cur : Int) (rows : List Row) (er : Err) (ht : toks = .float v :: rest) (h : parseNode toks = .error er)
    (hf : flag = false) :
    parseSubtree ty (f + 1) toks flag root cur rows = .error er := by
  subst ht hf
  simp [parseSubtree, h]

/-- bracket depth of a token list -/
def depth : List Tok → Int
  | [] => 0
  | .lp :: t => depth t + 1
  | .rp :: t => depth t - 1
  | _ :: t => depth t

/-! ## truncated documents -/

theorem bind_ok_iff {α β : Type} (x : Except Err α) (k : α → Except Err β) (r : β) :
    (x >>= k) = .ok r ↔ ∃ a, x = .ok a ∧ k a = .ok r := by
  cases x with
  | error e => simp
  | ok a => simp

/-- a result that is not an error stays the same with more fuel -/
theorem fuel_mono (ty : Int) : ∀ (f : Nat) (toks : List Tok) (flag : Bool) (root cur : Int) (rows : List Row)
    (r : List Tok × List Row),
    parseSubtree ty f toks flag root cur rows = .ok r → parseSubtree ty (f + 1) toks flag root cur rows = .ok r := by
  intro f
  induction f with
  | zero => intro toks flag root cur rows r h; simp [parseSubtree] at h
  | succ f ih =>
    intro toks flag root cur rows r h
    generalize hg : f + 1 = g at ih ⊢
    cases toks with
    | nil => simp [parseSubtree] at h ⊢; exact h
    | cons x t =>
      cases x <;> cases flag <;>
        simp only [parseSubtree, Bool.false_eq_true, if_true, if_false, bind_ok_iff] at h ⊢
      all_goals first
        | exact h
        | (obtain ⟨a, h1, h2⟩ := h; exact ⟨a, h1, ih _ _ _ _ _ _ h2⟩)
        | (obtain ⟨a, h1, r1, h3, t2, h5, h6⟩ := h
           exact ⟨a, h1, r1, ih _ _ _ _ _ _ h3, t2, h5, ih _ _ _ _ _ _ h6⟩)
        | (obtain ⟨r1, h3, t2, h5, h6⟩ := h
           exact ⟨r1, ih _ _ _ _ _ _ h3, t2, h5, ih _ _ _ _ _ _ h6⟩)
        | (split at h
           · rename_i hw
             rw [if_pos hw]
             rw [bind_ok_iff] at h ⊢
             obtain ⟨a, h1, h2⟩ := h
             exact ⟨a, h1, ih _ _ _ _ _ _ h2⟩
           · cases h)

theorem fuel_mono_add (ty : Int) (k : Nat) : ∀ (f : Nat) (toks : List Tok) (flag : Bool) (root cur : Int)
    (rows : List Row) (r : List Tok × List Row),
    parseSubtree ty f toks flag root cur rows = .ok r → parseSubtree ty (f + k) toks flag root cur rows = .ok r := by
  induction k with
  | zero => intro f toks flag root cur rows r h; exact h
  | succ k ih =>
    intro f toks flag root cur rows r h
    exact fuel_mono ty (f + k) toks flag root cur rows r (ih f toks flag root cur rows r h)

/-- the call did not stop at a closing bracket: it failed or ran out of input -/
def Fail (r : Except Err (List Tok × List Row)) : Prop := ∀ t rows, r = .ok (t, rows) → t = []

@[simp] theorem fail_error (e : Err) : Fail (.error e) := by intro t rows h; cases h
@[simp] theorem fail_nil (rows : List Row) : Fail (.ok ([], rows)) := by intro t rows h; cases h; rfl

theorem fail_parse_nil (ty : Int) (f : Nat) (flag : Bool) (root cur : Int) (rows : List Row) :
    Fail (parseSubtree ty f [] flag root cur rows) := by
  cases f <;> simp [parseSubtree]

theorem fail_of_ge (ty : Int) (k : Nat) {f : Nat} {toks : List Tok} {flag : Bool} {root cur : Int} {rows : List Row}
    (h : Fail (parseSubtree ty (f + k) toks flag root cur rows)) :
    Fail (parseSubtree ty f toks flag root cur rows) := by
  intro t rows' h'
  exact h t rows' (fuel_mono_add ty k f toks flag root cur rows _ h')

/-- a recursive call that fails makes the enclosing split fail -/
theorem fail_bind (x : Except Err (List Tok × List Row)) (k : List Tok → List Tok × List Row → Except Err (List Tok × List Row))
    (h : Fail x) : Fail (x >>= fun r => expectRp r.1 >>= fun t2 => k t2 r) := by
  cases x with
  | error e => simp
  | ok r =>
    obtain ⟨t, rows⟩ := r
    have := h t rows rfl
    subst this
    simp [expectRp]

theorem prefix_append_cases {α : Type} {q a b : List α} (h : q <+: a ++ b) :
    q <+: a ∨ ∃ t, q = a ++ t ∧ t <+: b := by
  induction a generalizing q with
  | nil => right; exact ⟨q, by simp, by simpa using h⟩
  | cons x a ih =>
    rw [List.cons_append, List.prefix_cons_iff] at h
    rcases h with rfl | ⟨t, rfl, ht⟩
    · left; exact List.nil_prefix
    · rcases ih ht with h1 | ⟨s, rfl, hs⟩
      · left; exact (List.prefix_cons_inj x).2 h1
      · right; exact ⟨s, rfl, hs⟩

theorem prefix_head {t l : List Tok} (h : t <+: l) (hl : l.head? ≠ some .bad) : t.head? ≠ some .bad := by
  cases t with
  | nil => simp
  | cons x t =>
    obtain ⟨s, rfl⟩ := h
    simpa using hl

theorem fail_point (ty : Int) (p : Pt) (q : List Tok) (hq : q <+: ptToks p) (f : Nat) (root cur : Int)
    (rows : List Row) : Fail (parseSubtree ty f q true root cur rows) := by
  apply fail_of_ge ty 3
  simp only [ptToks, List.prefix_cons_iff, List.prefix_nil] at hq
  rcases hq with rfl | ⟨_, rfl, rfl | ⟨_, rfl, rfl | ⟨_, rfl, rfl | ⟨_, rfl, rfl | ⟨_, rfl, rfl | ⟨_, rfl, rfl⟩⟩⟩⟩⟩⟩ <;>
    simp [parseSubtree, parseNode, expectRp, adv_cons2]

theorem fail_chain (ty : Int) : ∀ (pts : List Pt) (q : List Tok), q <+: pts.flatMap ptToks →
    ∀ (f : Nat) (root cur : Int) (rows : List Row), Fail (parseSubtree ty f q true root cur rows)
  | [], q, hq, f, root, cur, rows => by
    simp at hq; subst hq; exact fail_parse_nil ty f true root cur rows
  | p :: ps, q, hq, f, root, cur, rows => by
    rw [List.flatMap_cons] at hq
    rcases prefix_append_cases hq with h | ⟨t, rfl, ht⟩
    · exact fail_point ty p q h f root cur rows
    · apply fail_of_ge ty 2
      rw [point_step ty f p t root cur rows (prefix_head ht (by simpa using flatMap_head ps [] (by simp)))]
      exact fail_chain ty ps t ht f root _ _

theorem altsToks_head' (alts : List Branch) : (altsToks alts).head? ≠ some .bad := by
  rcases altsToks_shape alts with ⟨h, _⟩ | ⟨v, t, h⟩ | ⟨t, h⟩ <;> simp [h]

theorem branchToks_head' (b : Branch) : (branchToks b).head? ≠ some .bad := by
  rcases branchToks_shape b with ⟨h, _⟩ | ⟨v, t, h⟩ <;> simp [h]

theorem lp_true_step (ty : Int) (f : Nat) (t : List Tok) (root cur : Int) (rows : List Row)
    (ht : t.head? ≠ some .bad) :
    parseSubtree ty (f + 1) (.lp :: t) true root cur rows = parseSubtree ty f t false root cur rows := by
  simp [parseSubtree, adv_cons, ht]

theorem lp_false_step (ty : Int) (f : Nat) (t : List Tok) (root cur : Int) (rows : List Row)
    (ht : t.head? ≠ some .bad) :
    parseSubtree ty (f + 1) (.lp :: t) false root cur rows
      = (parseSubtree ty f t false cur cur rows >>= fun r => expectRp r.1 >>= fun t2 =>
          parseSubtree ty f t2 true root cur r.2) := by
  simp [parseSubtree, adv_cons, ht]

theorem bar_false_step (ty : Int) (f : Nat) (t : List Tok) (root cur : Int) (rows : List Row) :
    parseSubtree ty (f + 1) (.bar :: t) false root cur rows
      = (parseSubtree ty f (.bar :: t) true cur cur rows >>= fun r => expectRp r.1 >>= fun t2 =>
          parseSubtree ty f t2 true root cur r.2) := by
  simp [parseSubtree]

theorem bar_true_step (ty : Int) (f : Nat) (t : List Tok) (root cur : Int) (rows : List Row)
    (ht : t.head? ≠ some .bad) :
    parseSubtree ty (f + 1) (.bar :: t) true root cur rows = parseSubtree ty f t true root root rows := by
  simp [parseSubtree, adv_cons, ht]

/-- a cut inside `( alt | … )` -/
theorem fail_split (ty : Int) (alts : List Branch)
    (hA : ∀ q, q <+: altsToks alts → ∀ (f : Nat) (root cur : Int) (rows : List Row),
      Fail (parseSubtree ty f q true root cur rows))
    (t' : List Tok) (ht' : t' <+: altsToks alts ++ [.rp]) (f : Nat) (root cur : Int) (rows : List Row) :
    Fail (parseSubtree ty f (.lp :: t') true root cur rows) := by
  have main : ∀ t', t' <+: altsToks alts → Fail (parseSubtree ty f (.lp :: t') true root cur rows) := by
    intro t' h
    apply fail_of_ge ty 2
    rw [lp_true_step ty (f + 1) t' root cur rows (prefix_head h (altsToks_head' alts))]
    rcases altsToks_shape alts with ⟨he, _⟩ | ⟨v, s, he⟩ | ⟨s, he⟩
    · rw [he] at h; simp at h; subst h; exact fail_parse_nil ty _ _ _ _ _
    · have hA' := hA
      rw [he] at h hA'
      simp only [List.prefix_cons_iff] at h
      rcases h with rfl | ⟨_, rfl, rfl | ⟨_, rfl, h3⟩⟩
      · exact fail_parse_nil ty _ _ _ _ _
      · rw [lp_false_step ty f [] root cur rows (by simp)]
        exact fail_bind _ _ (fail_parse_nil ty _ _ _ _ _)
      · rename_i t3
        rw [lp_false_step ty f _ root cur rows (by simp)]
        apply fail_bind
        have := hA' (.lp :: .float v :: t3) (by simp [List.prefix_cons_iff, h3]) (f + 1) cur cur rows
        rw [lp_true_step ty f _ cur cur rows (by simp)] at this
        exact this
    · have hA' := hA
      rw [he] at h hA'
      simp only [List.prefix_cons_iff] at h
      rcases h with rfl | ⟨t3, rfl, h3⟩
      · exact fail_parse_nil ty _ _ _ _ _
      · rw [bar_false_step]
        apply fail_bind
        exact hA' (.bar :: t3) (by simp [List.prefix_cons_iff, h3]) f cur cur rows
  rcases prefix_append_cases ht' with h | ⟨s, rfl, hs⟩
  · exact main t' h
  · simp only [List.prefix_cons_iff, List.prefix_nil] at hs
    rcases hs with rfl | ⟨_, rfl, rfl⟩
    · exact main _ (by simp)
    · apply fail_of_ge ty (needL alts + 2)
      have h2 : f + (needL alts + 2) = (f + needL alts) + 2 := by omega
      rw [h2, split_step ty alts (f + needL alts) [] root cur rows (by simp) (sim_alts ty alts) (by omega)]
      exact fail_parse_nil ty _ _ _ _ _

mutual
theorem fail_branch (ty : Int) : ∀ (b : Branch) (q : List Tok), q <+: branchToks b →
    ∀ (f : Nat) (root cur : Int) (rows : List Row), Fail (parseSubtree ty f q true root cur rows)
  | .leaf pts, q, hq, f, root, cur, rows => by
    simp only [branchToks] at hq
    exact fail_chain ty pts q hq f root cur rows
  | .fork p pts alts, q, hq, f, root, cur, rows => by
    have h1 : branchToks (.fork p pts alts)
        = (p :: pts).flatMap ptToks ++ (.lp :: (altsToks alts ++ [.rp])) := by
      simp [branchToks]
    rw [h1] at hq
    rcases prefix_append_cases hq with h | ⟨t, rfl, ht⟩
    · exact fail_chain ty (p :: pts) q h f root cur rows
    · apply fail_of_ge ty (2 * (p :: pts).length)
      rw [chain_run ty (p :: pts) f t root cur rows (prefix_head ht (by simp))]
      rw [List.prefix_cons_iff] at ht
      rcases ht with rfl | ⟨t', rfl, ht'⟩
      · exact fail_parse_nil ty _ _ _ _ _
      · exact fail_split ty alts (fun q hq f root cur rows => fail_alts ty alts q hq f root cur rows)
          t' ht' f root _ _
theorem fail_alts (ty : Int) : ∀ (alts : List Branch) (q : List Tok), q <+: altsToks alts →
    ∀ (f : Nat) (root cur : Int) (rows : List Row), Fail (parseSubtree ty f q true root cur rows)
  | [], q, hq, f, root, cur, rows => by
    simp [altsToks] at hq; subst hq; exact fail_parse_nil ty _ _ _ _ _
  | [a], q, hq, f, root, cur, rows => by
    simp only [altsToks] at hq
    exact fail_branch ty a q hq f root cur rows
  | a :: b :: bs, q, hq, f, root, cur, rows => by
    have h1 : altsToks (a :: b :: bs) = branchToks a ++ (.bar :: altsToks (b :: bs)) := by simp [altsToks]
    rw [h1] at hq
    rcases prefix_append_cases hq with h | ⟨t, rfl, ht⟩
    · exact fail_branch ty a q h f root cur rows
    · apply fail_of_ge ty (need a + 1 + seq a)
      have h2 : f + (need a + 1 + seq a) = (f + need a + 1) + seq a := by omega
      rw [h2, sim_branch ty a (f + need a + 1) t root cur rows (prefix_head ht (by simp)) (by omega)]
      rw [List.prefix_cons_iff] at ht
      rcases ht with rfl | ⟨t', rfl, ht'⟩
      · exact fail_parse_nil ty _ _ _ _ _
      · rw [bar_true_step ty _ t' root _ _ (prefix_head ht' (altsToks_head' (b :: bs)))]
        exact fail_alts ty (b :: bs) t' ht' _ root root _
end

theorem parseTop_hdr (label : SwcText.Str) (T : List Tok) (f : Nat)
    (hl : upper label = "AXON".toList ∨ upper label = "DENDRITE".toList) (hT : T.head? ≠ some .bad) :
    parseTop (f + 1) (.lp :: .literal label :: .rp :: T) []
      = (skipComments f T >>= fun t4 => expectLp t4 >>= fun t5 =>
          parseSubtree (labelType label) f t5 false (-1) (-1) [] >>= fun r => parseTop f r.1 r.2) := by
  rw [parseTop]
  simp only [adv_cons2 _ _ _ (show Tok.literal label ≠ .bad by simp), ok_bind]
  rw [if_pos (label_cond label hl)]
  simp only [adv_cons2 _ _ _ (show Tok.rp ≠ .bad by simp), ok_bind, expectRp, adv_cons _ _ hT, labelType]

theorem parseTop_nil (f : Nat) (rows : List Row) : parseTop (f + 1) [] rows = .ok ([], rows) := by
  rw [parseTop]
theorem parseSubtree_nil (ty : Int) (f : Nat) (flag : Bool) (root cur : Int) (rows : List Row) :
    parseSubtree ty (f + 1) [] flag root cur rows = .ok ([], rows) := by
  simp [parseSubtree]

theorem convertWith_trunc (label : SwcText.Str) (b : Branch) (T : List Tok) (f : Nat)
    (hl : upper label = "AXON".toList ∨ upper label = "DENDRITE".toList) (hb : NonEmpty b)
    (hT : T <+: branchToks b) :
    ∃ er, convertWith (f + 2) (.lp :: .lp :: .literal label :: .rp :: T) = .error er := by
  obtain ⟨v, s, h⟩ := nonEmpty_shape b hb
  have hfail := fail_branch (labelType label) b T hT (f + 2) (-1) (-1) []
  have hhd : T.head? ≠ some .bad := prefix_head hT (branchToks_head' b)
  have h0 : convertWith (f + 2) (.lp :: .lp :: .literal label :: .rp :: T)
      = (skipComments (f + 1) T >>= fun t4 => expectLp t4 >>= fun t5 =>
          parseSubtree (labelType label) (f + 1) t5 false (-1) (-1) [] >>= fun r => parseTop (f + 1) r.1 r.2)
        >>= fun r => (match r.1 with
          | [] => .error .eof
          | .rp :: _ => do
            let _ ← adv r.1
            pure r.2
          | _ => .error .tokenType) := by
    simp only [convertWith, skipComments, ok_bind, expectLp, adv_cons2 _ _ _ (show Tok.lp ≠ .bad by simp),
      parseTop_hdr label T (f + 1) hl hhd]
  rw [h0]
  generalize labelType label = ty at hfail ⊢
  rw [h] at hT
  simp only [List.prefix_cons_iff] at hT
  rcases hT with rfl | ⟨_, rfl, rfl | ⟨_, rfl, hT2⟩⟩
  · simp [skipComments, expectLp]
  · simp only [skipComments, expectLp, adv_single, ok_bind, parseSubtree_nil, parseTop_nil]
    exact ⟨_, rfl⟩
  · rename_i T2
    rw [lp_true_step _ _ _ _ _ _ (by simp)] at hfail
    simp only [skipComments, ok_bind, expectLp, adv_cons2 _ _ _ (show Tok.float v ≠ .bad by simp)]
    cases hx : parseSubtree ty (f + 1) (.float v :: T2) false (-1) (-1) [] with
    | error e => simp
    | ok r =>
      obtain ⟨t, rows⟩ := r
      have := hfail t rows hx
      subst this
      simp only [ok_bind, parseTop_nil]
      exact ⟨_, rfl⟩

/-- **a document that ends prematurely is rejected**, part 1: the token stream cut anywhere inside the tree's
points — every proper prefix that still contains the header (cuts inside the header: `header_truncation_rejected`;
both together: `truncation_rejected`) -/
theorem truncation_rejected_body (label : SwcText.Str) (b : Branch) (k : Nat)
    (hl : upper label = "AXON".toList ∨ upper label = "DENDRITE".toList) (hb : NonEmpty b)
    (hk : k < (branchToks b ++ [Tok.rp]).length) :
    ∃ er, convertTokens ([.lp, .lp, .literal label, .rp] ++ (branchToks b ++ [Tok.rp]).take k) = .error er := by
  have hpre : (branchToks b ++ [Tok.rp]).take k <+: branchToks b ++ [Tok.rp] := List.take_prefix _ _
  have hT : (branchToks b ++ [Tok.rp]).take k <+: branchToks b := by
    rcases prefix_append_cases hpre with h | ⟨s, hs, hs'⟩
    · exact h
    · simp only [List.prefix_cons_iff, List.prefix_nil] at hs'
      rcases hs' with rfl | ⟨_, rfl, rfl⟩
      · rw [hs]; simp
      · have := congrArg List.length hs
        rw [List.length_take] at this
        omega
  rw [convertTokens_eq _ (by simp)]
  exact convertWith_trunc label b _ _ hl hb hT

/-- **a document cut inside its header is rejected**: every proper prefix of `( ( label )` — together with
`truncation_rejected_body` every proper prefix of the token stream of a well-formed document is rejected -/
theorem header_truncation_rejected (label : SwcText.Str) (k : Nat) (hk : k < 4)
    (hl : upper label = "AXON".toList ∨ upper label = "DENDRITE".toList) :
    ∃ er, convertTokens (([.lp, .lp, .literal label, .rp] : List Tok).take k) = .error er := by
  have hcases : k = 0 ∨ k = 1 ∨ k = 2 ∨ k = 3 := by omega
  have hb : (upper label = "AXON".toList || upper label = "DENDRITE".toList) = true := by
    rcases hl with h | h <;> simp [h]
  rcases hcases with rfl | rfl | rfl | rfl
  · exact ⟨.eof, rfl⟩
  · exact ⟨.eof, rfl⟩
  · exact ⟨.eof, rfl⟩
  · refine ⟨.eof, ?_⟩
    show convertTokens [.lp, .lp, .literal label] = _
    unfold convertTokens
    simp only [skipComments, expectLp, adv, List.length_cons, List.length_nil]
    show (parseTop 5 [.lp, .literal label] [] >>= _) = _
    rw [parseTop]
    simp only [adv, ok_bind, hb, if_true, expectRp]
    rfl

/-- **every proper prefix of the token stream of a well-formed single-tree document is rejected** -/
theorem truncation_rejected (label : SwcText.Str) (b : Branch) (k : Nat)
    (hl : upper label = "AXON".toList ∨ upper label = "DENDRITE".toList) (hb : NonEmpty b)
    (hk : k < ([Tok.lp, Tok.lp, Tok.literal label, Tok.rp] ++ (branchToks b ++ [Tok.rp])).length) :
    ∃ er, convertTokens (([Tok.lp, Tok.lp, Tok.literal label, Tok.rp] ++ (branchToks b ++ [Tok.rp])).take k) = .error er := by
  by_cases h4 : k < 4
  · have : ([Tok.lp, .lp, .literal label, .rp] ++ (branchToks b ++ [Tok.rp])).take k =
        ([.lp, .lp, .literal label, .rp] : List Tok).take k := by
      rw [List.take_append_of_le_length (by simp; omega)]
    rw [this]
    exact header_truncation_rejected label k h4 hl
  · have : ([Tok.lp, .lp, .literal label, .rp] ++ (branchToks b ++ [Tok.rp])).take k =
        [.lp, .lp, .literal label, .rp] ++ (branchToks b ++ [Tok.rp]).take (k - 4) := by
      rw [List.take_append]
      simp [List.take_of_length_le (show ([Tok.lp, .lp, .literal label, .rp] : List Tok).length ≤ k by simp; omega)]
    rw [this]
    apply truncation_rejected_body label b (k - 4) hl hb
    simp at hk ⊢
    omega

/-! ## the lexer -/

/-- blanks, tabs and line breaks between words are irrelevant -/
theorem lex_skips_blanks (f : Nat) (ws s : SwcText.Str) (hws : ∀ c ∈ ws, isSpace c = true) :
    lex (f + 1) (ws ++ s) = lex (f + 1) s := by
  simp only [lex, skipSpaces_append ws s hws]

/-- brackets and `|` are tokens of their own even without surrounding blanks -/
theorem lex_structural (f : Nat) (s : SwcText.Str) :
    lex (f + 1) ('(' :: s) = .lp :: lex f s ∧ lex (f + 1) (')' :: s) = .rp :: lex f s ∧ lex (f + 1) ('|' :: s) = .bar :: lex f s := by
  refine ⟨?_, ?_, ?_⟩ <;> simp [lex, skipSpaces, takeWord, isSpace, isDelim]

-- non-vacuity / concrete behaviour (kernel-evaluated)
def p (n : Nat) : Pt := ⟨⟨false, n, 0⟩, ⟨false, 0, 0⟩, ⟨false, 0, 0⟩, ⟨false, 1, 0⟩⟩
def exB : Branch := .fork (p 1) [] [.fork (p 2) [] [.leaf [p 3], .leaf [p 4]], .leaf [], .leaf [p 5]]
example : tokens "( (Axon) (1 0 0 1) ( (2 0 0 1) ( (3 0 0 1) | (4 0 0 1) ) | | (5 0 0 1) ) )".toList = docToks "Axon".toList exB := by
  decide +kernel
example : (convert "( (Axon) (1 0 0 1) ( (2 0 0 1) ( (3 0 0 1) | (4 0 0 1) ) | | (5 0 0 1) ) )".toList).toOption
    = some (rowsOf 2 exB (-1) 0) := by decide +kernel
example : (rowsOf 2 exB (-1) 0).map (·.pid) = [-1, 0, 1, 1, 0] := by decide +kernel
example : (convert "( (Axon) (1 0 0 1) ( (2 0 0 1) ".toList).toOption = none := by decide +kernel
example : (convert "( (Axon) ; c\n (1 0 0 1) )".toList).toOption.map List.length = some 1 := by decide +kernel

end C15
