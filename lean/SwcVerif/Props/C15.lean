import SwcVerif.Model.Asc
/-! # C15 — Neurolucida ASC conversion is faithful to the document

Theorems about the lexer/parser model `Model/Asc.lean` (tied to the code by the `c15.convert`
correspondence on generated, truncated and corrupted documents).

The document grammar (single tree): a branch is a run of points, optionally followed by a split
`( alt | alt | … )` whose alternatives are branches; an alternative may be empty; a branch that splits
has at least one point. -/
namespace C15
open Asc
open SwcText (Sci)

structure Pt where
  x : Sci
  y : Sci
  z : Sci
  r : Sci
deriving Repr, DecidableEq

inductive Branch where
  | leaf (pts : List Pt)                                   -- no split; `leaf []` = empty alternative
  | fork (p : Pt) (pts : List Pt) (alts : List Branch)     -- ≥ 1 point, then `( alt | … )`

def ptToks (p : Pt) : List Tok := [.lp, .float p.x, .float p.y, .float p.z, .float p.r, .rp]

-- the tokens of a branch / of the alternatives of a split (separated by `|`)
mutual
def branchToks : Branch → List Tok
  | .leaf pts => pts.flatMap ptToks
  | .fork p pts alts => ptToks p ++ pts.flatMap ptToks ++ [.lp] ++ altsToks alts ++ [.rp]
def altsToks : List Branch → List Tok
  | [] => []
  | [a] => branchToks a
  | a :: b :: rest => branchToks a ++ [.bar] ++ altsToks (b :: rest)
end

-- number of points
mutual
def Branch.count : Branch → Nat
  | .leaf pts => pts.length
  | .fork _ pts alts => 1 + pts.length + countL alts
def countL : List Branch → Nat
  | [] => 0
  | a :: rest => a.count + countL rest
end

/-- rows of a run of points: the first hangs from `parent`, each next one from its predecessor;
ids are `next, next+1, …` -/
def chainRows (ty : Int) : List Pt → Int → Nat → List Row
  | [], _, _ => []
  | p :: ps, parent, next => ⟨ty, p.x, p.y, p.z, p.r, parent⟩ :: chainRows ty ps (next : Int) (next + 1)

-- **the table the property describes**: one row per point in document order, typed by the label; a
-- point's parent is the preceding point of its branch, or the last point before the enclosing split for
-- the first point of each alternative
mutual
def rowsOf (ty : Int) : Branch → Int → Nat → List Row
  | .leaf pts, parent, next => chainRows ty pts parent next
  | .fork p pts alts, parent, next =>
    chainRows ty (p :: pts) parent next ++ altsRows ty alts ((next + pts.length : Nat) : Int) (next + pts.length + 1)
def altsRows (ty : Int) : List Branch → Int → Nat → List Row
  | [], _, _ => []
  | a :: rest, parent, next => rowsOf ty a parent next ++ altsRows ty rest parent (next + a.count)
end

def docToks (label : SwcText.Str) (b : Branch) : List Tok :=
  [.lp, .lp, .literal label, .rp] ++ branchToks b ++ [.rp]

def labelType (label : SwcText.Str) : Int :=
  if upper label = "AXON".toList then Gen.Consts.type_axon else Gen.Consts.type_basal_dendrite

def NonEmpty : Branch → Prop
  | .leaf pts => pts ≠ []
  | .fork _ _ _ => True

/-- **Conversion is faithful**, at any nesting depth and any branch length: the document
`( (label) <branch> )` converts to exactly `rowsOf`. -/
theorem convert_faithful (label : SwcText.Str) (b : Branch)
    (hl : upper label = "AXON".toList ∨ upper label = "DENDRITE".toList) (hb : NonEmpty b) :
    convertTokens (docToks label b) = .ok (rowsOf (labelType label) b (-1) 0) := by
  sorry

/-- one row per point -/
theorem rows_count (ty : Int) (b : Branch) (parent : Int) (next : Nat) :
    (rowsOf ty b parent next).length = b.count := by
  sorry

/-- trailing text after the closing bracket of the document is never looked at (unless the very next
word is a malformed number) -/
theorem trailing_ignored (label : SwcText.Str) (b : Branch) (extra : List Tok)
    (hl : upper label = "AXON".toList ∨ upper label = "DENDRITE".toList) (hb : NonEmpty b)
    (hx : extra.head? ≠ some .bad) :
    convertTokens (docToks label b ++ extra) = .ok (rowsOf (labelType label) b (-1) 0) := by
  sorry

/-! ## layout: comments and colour markers -/

/-- a comment token is skipped in every state of the subtree loop -/
theorem comment_skipped (ty : Int) (f : Nat) (c : SwcText.Str) (t : List Tok) (flag : Bool) (root cur : Int) (rows : List Row)
    (ht : t.head? ≠ some .bad) :
    parseSubtree ty (f + 1) (.comment c :: t) flag root cur rows = parseSubtree ty f t flag root cur rows := by
  sorry

/-- a colour marker `( Color <word> )` between points changes nothing -/
theorem color_skipped (ty : Int) (f : Nat) (w col : SwcText.Str) (t : List Tok) (root cur : Int) (rows : List Row)
    (hw : upper w = "COLOR".toList) (ht : t.head? ≠ some .bad) :
    parseSubtree ty (f + 2) (.lp :: .literal w :: .literal col :: .rp :: t) true root cur rows
      = parseSubtree ty f t true root cur rows := by
  sorry

/-- comments before the document, and between the label and the first point, are skipped -/
theorem leading_comment_skipped (c : SwcText.Str) (label : SwcText.Str) (b : Branch)
    (hl : upper label = "AXON".toList ∨ upper label = "DENDRITE".toList) (hb : NonEmpty b) :
    convertTokens (.comment c :: docToks label b) = .ok (rowsOf (labelType label) b (-1) 0) ∧
    convertTokens ([.lp, .lp, .literal label, .rp, .comment c] ++ branchToks b ++ [.rp]) = .ok (rowsOf (labelType label) b (-1) 0) := by
  sorry

/-! ## rejection -/

/-- a point with three numbers, with five numbers, or with a word inside is an error -/
theorem bad_point_rejected (a b c d e : Sci) (w : SwcText.Str) (t : List Tok) :
    (∃ er, parseNode (.float a :: .float b :: .float c :: .rp :: t) = .error er) ∧
    (∃ er, parseNode (.float a :: .float b :: .float c :: .float d :: .float e :: t) = .error er) ∧
    (∃ er, parseNode (.float a :: .literal w :: t) = .error er) ∧
    (∃ er, parseNode (.float a :: .float b :: .float c :: .float d :: []) = .error er) := by
  sorry

/-- an error inside a point is an error of the whole conversion step (nothing is converted in part) -/
theorem node_error_propagates (ty : Int) (f : Nat) (toks : List Tok) (v : Sci) (rest : List Tok) (flag : Bool)
    (root cur : Int) (rows : List Row) (er : Err) (ht : toks = .float v :: rest) (h : parseNode toks = .error er) :
    parseSubtree ty (f + 1) toks flag root cur rows = .error er := by
  sorry

/-- bracket depth of a token list -/
def depth : List Tok → Int
  | [] => 0
  | .lp :: t => depth t + 1
  | .rp :: t => depth t - 1
  | _ :: t => depth t

/-- **a document that ends prematurely is rejected** (partial: stated for the token stream cut anywhere
inside the tree's points; the general "every accepted stream is bracket-balanced" lemma is the missing
piece for cuts inside the header) — every proper prefix that still contains the header -/
theorem truncation_rejected_partial (label : SwcText.Str) (b : Branch) (k : Nat)
    (hl : upper label = "AXON".toList ∨ upper label = "DENDRITE".toList) (hb : NonEmpty b)
    (hk : k < (branchToks b ++ [Tok.rp]).length) :
    ∃ er, convertTokens ([.lp, .lp, .literal label, .rp] ++ (branchToks b ++ [Tok.rp]).take k) = .error er := by
  sorry

/-! ## the lexer -/

/-- blanks, tabs and line breaks between words are irrelevant -/
theorem lex_skips_blanks (f : Nat) (ws s : SwcText.Str) (hws : ∀ c ∈ ws, isSpace c = true) :
    lex (f + 1) (ws ++ s) = lex (f + 1) s := by
  sorry

/-- brackets and `|` are tokens of their own even without surrounding blanks -/
theorem lex_structural (f : Nat) (s : SwcText.Str) :
    lex (f + 1) ('(' :: s) = .lp :: lex f s ∧ lex (f + 1) (')' :: s) = .rp :: lex f s ∧ lex (f + 1) ('|' :: s) = .bar :: lex f s := by
  sorry

-- non-vacuity / concrete behaviour (kernel-evaluated)
def p (n : Nat) : Pt := ⟨⟨false, n, 0⟩, ⟨false, 0, 0⟩, ⟨false, 0, 0⟩, ⟨false, 1, 0⟩⟩
def exB : Branch := .fork (p 1) [] [.fork (p 2) [] [.leaf [p 3], .leaf [p 4]], .leaf [], .leaf [p 5]]
example : tokens "( (Axon) (1 0 0 1) ( (2 0 0 1) ( (3 0 0 1) | (4 0 0 1) ) | | (5 0 0 1) ) )".toList = docToks "Axon".toList exB := by
  decide +kernel
example : (convert "( (Axon) (1 0 0 1) ( (2 0 0 1) ( (3 0 0 1) | (4 0 0 1) ) | | (5 0 0 1) ) )".toList).toOption
    = some (rowsOf 2 exB (-1) 0) := by decide +kernel
example : (rowsOf 2 exB (-1) 0).map (·.pid) = [-1, 0, 1, 1, 0] := by decide +kernel
example : (convert "( (Axon) (1 0 0 1) ( (2 0 0 1) ".toList).toOption = none := by decide +kernel
example : (convert "( (Axon) ; c\n (1 0 0 1) )".toList).toOption.map List.length = some 1 := by decide +kernel

end C15
