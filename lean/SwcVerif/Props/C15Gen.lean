import SwcVerif.Refine.Asc
import SwcVerif.Refine.AscParse
import SwcVerif.Refine.AscTop
import SwcVerif.Refine.AscFuel
import SwcVerif.Model.AlgoRunAsc
/-! # C15, tied to the source by the translator

`Gen/AlgoAsc.lean` is regenerated on every run from `swcgeom/transforms/neurolucida_asc.py`: the token-level `Parser` (`_parse`,
`_parse_tree`, `_parse_subtree` ↔ `_parse_split`, `_parse_node`, `_parse_color`, `_parse_comment`, `_skip_comments`, `_read_token`,
`_consume`, `_assert`, `_assert_and_cunsume`), `ASTNode.add_child` and `NeurolucidaAscToSwc.from_ast` with its `walk_ast` loop.  The
AST is a heap of node records, node references are indices.  The theorems below are about these GENERATED definitions; the main one is
`generated_convert_eq_model`: generated parser ∘ generated walk = the hand-written model `Asc.convertTokens`, for every token list. -/
namespace C15
open Gen.Algo Py RefineAsc

/-- **`from_ast` / `walk_ast` as translated, on EVERY AST heap that unfolds to a tree** (any shape, depth, number of children; TREE
nodes labelled AXON / DENDRITE, NODE values 4-tuples): with at least `cost + 1` units of fuel the explicit-stack loop returns exactly
the table `rows` defined by structural recursion — one row per NODE in pre-order, `pid` = the id of the nearest enclosing NODE (−1
directly under a TREE or the ROOT), typed by the enclosing TREE's label; COLOR / COMMENT nodes contribute nothing. -/
theorem generated_from_ast_eq_rows (nodes : List ASTNode) (t : AT) (hA : Agrees nodes t) (fuel : Nat) (hf : cost nodes t + 1 ≤ fuel) :
    from_ast fuel nodes (t.ref : Int) =
      some (((rows nodes t (-1) Gen.Consts.type_undefined 0).length : Int), colsOf (rows nodes t (-1) Gen.Consts.type_undefined 0)) :=
  from_ast_refines nodes t hA fuel hf

/-- the fuel the walk needs is at most (number of AST nodes) + (number of TREE nodes) + 1 -/
theorem generated_walk_fuel (nodes : List ASTNode) (t : AT) : cost nodes t + 1 ≤ t.size + trees nodes t + 1 := by
  have := cost_le nodes t
  omega

/-- the ids of the table are 0, 1, …, m−1 in the order the rows are produced -/
theorem generated_rows_ids (nodes : List ASTNode) (t : AT) (ty : Int) :
    (rows nodes t (-1) ty 0).map (·.id) = (List.range (rows nodes t (-1) ty 0).length).map (fun (k : Nat) => (k : Int)) := by
  rw [rows_ids, List.range_eq_range']

open RefineAscParse in
/-- **the token protocol of the parser as translated = the hand-written model** (the leaf level of `generated_convert_eq_model`), on every
`.bad`-free token list (`.bad` = the lexer raising, outside the translated code), for every encoding `encF` of the numbers (an opaque
payload), success and every failure alike: `_read_token` drops the current token like `adv`; `_assert_and_cunsume(BRACKET_RIGHT /
BRACKET_LEFT)` are `expectRp` / `expectLp`; `_parse_node` is `parseNode` — the same remaining tokens, the same four numbers in a NODE
record allocated at the end of the heap and attached to `root` by the translated `add_child`, and an error exactly when the model has
one.  (`_parse_color` / `_parse_comment` / `_skip_comments`: `RefineAscLoop.parse_color_refines`, `parse_comment_refines`,
`RefineAscTop.skip_comments_sim`; the loops and the mutual recursion: `RefineAscLoop.loop_sim`, `RefineAscTop.top_sim`.) -/
theorem generated_token_protocol (encF : SwcText.Sci → Int) (toks : List Asc.Tok) (nodes : List ASTNode) (root : Int)
    (h : NoBad toks) :
    (parser_read_token (st encF toks nodes) = some (st encF toks.tail nodes, ()) ∧ (∀ t, toks ≠ [] → Asc.adv (t :: toks) = .ok toks)) ∧
    (parser_assert_and_cunsume (st encF toks nodes) 2 =
      match Asc.expectRp toks with | .ok rest => some (st encF rest nodes, enc encF .rp) | .error _ => none) ∧
    (parser_assert_and_cunsume (st encF toks nodes) 1 =
      match Asc.expectLp toks with | .ok rest => some (st encF rest nodes, enc encF .lp) | .error _ => none) ∧
    (parser_parse_node (st encF toks nodes) root =
      match Asc.parseNode toks with
      | .error _ => none
      | .ok ((a, b, c, d), rest) =>
        (ast_add_child (nodes ++ [nodeRec encF a b c d]) root (nodes.length : Int)).map fun r => (st encF rest r.1, (nodes.length : Int))) := by
  refine ⟨⟨read_token_st encF toks nodes, ?_⟩, expectRp_refines encF toks nodes h, expectLp_refines encF toks nodes h,
    parse_node_refines encF toks nodes root h⟩
  intro t hne
  cases toks with
  | nil => exact absurd rfl hne
  | cons u rest =>
    have : u ≠ Asc.Tok.bad := h u (by simp)
    cases u <;> simp_all [Asc.adv]


/-- **the model never runs out of fuel**: `Asc.convertTokens` (fuel `2·#tokens + 4`) and `convertWith N` for every `N ≥ 2·#tokens + 2`
never return `Err.fuel` on a token list without a lexer failure (with the former fuel `#tokens + 2` the model did, e.g. on
`( (Axon) ( | ( | ( | ( | ( | ( |` — found by this proof; both fuels reject that input) -/
theorem model_fuel_suffices (toks : List Asc.Tok) (hnb : RefineAscParse.NoBad toks) :
    Asc.convertTokens toks ≠ .error .fuel ∧ ∀ N, 2 * toks.length + 2 ≤ N → convertWith N toks ≠ .error .fuel := by
  refine ⟨?_, fun N hN => RefineAscFuel.convertWith_nofuel N toks hnb hN⟩
  cases toks with
  | nil => exact RefineAscFuel.convertWith_nofuel 4 [] hnb (by simp)
  | cons x t =>
    rw [convertTokens_eq _ (by simpa using RefineAscLoop.noBad_head hnb)]
    exact RefineAscFuel.convertWith_nofuel _ _ hnb (by omega)

open RefineAscParse RefineAscHeap RefineAscTop in
/-- **generated parser ∘ generated walk = the model, explicit fuels** (`C15.convertWith N` is `Asc.convertTokens` with the fuel `N` of
its loops made explicit; `convertTokens toks = convertWith (2·#tokens + 4) toks`): for EVERY token list without a lexer failure
(`.bad` = `float()` raising inside the lexer, which is not part of the translated code), every encoding `encF` of the numbers (an opaque
payload), every model fuel `N ≥ 2·#tokens + 2`, every fuel `G ≥ 2 N` of the translated `Parser._parse` (its loops and the
`_parse_subtree` ↔ `_parse_split` recursion) and every fuel `F ≥ 2·#heap` of the translated walk: `Parser(...)` (`next_token = None;
_read_token()`), `_parse()`, `from_ast(ast)` AS TRANSLATED FROM THE SOURCE return exactly the model's table — the number of rows, ids
0 … m−1, the type of the tree's label, the four numbers of every point, the parents — or raise exactly when the model has an error. -/
theorem generated_convert_eq_model_fuel (encF : SwcText.Sci → Int) (toks : List Asc.Tok) (hnb : NoBad toks) (N G : Nat)
    (hN : 2 * toks.length + 2 ≤ N) (hG : 2 * N ≤ G) :
    parser_read_token { lexer := toks.map (enc encF), next_token := none, nodes := [] } = some (st encF toks [], ()) ∧
    match convertWith N toks with
    | .error _ => parser_parse G (st encF toks []) = none
    | .ok rows => ∃ p, parser_parse G (st encF toks []) = some (p, 0) ∧
        ∀ F, 2 * p.nodes.length ≤ F → from_ast F p.nodes 0 = some ((rows.length : Int), colsOf (encRows encF 0 rows)) :=
  ⟨init_st toks, convert_refines N G toks hnb hG (RefineAscFuel.convertWith_nofuel N toks hnb hN)⟩

open RefineAscParse RefineAscHeap RefineAscTop in
/-- **THE GENERATED CONVERSION IS THE MODEL**: `AlgoRun.ascConvert` — `Parser(...)`, `Parser._parse()` and `NeurolucidaAscToSwc.from_ast`
AS TRANSLATED FROM THE CURRENT SOURCE, composed as in `from_stream`, with the fuels the driver runs them with — applied to the encoding
of ANY token list without a lexer failure returns exactly the rows of the hand-written model `Asc.convertTokens` (their number, ids
0 … m−1, types, the four numbers of every point, parents), and raises (`none`) exactly when the model has an error.  No bound on the
length, the nesting depth or the number of alternatives; fuel sufficiency is part of the statement. -/
theorem generated_convert_eq_model (encF : SwcText.Sci → Int) (toks : List Asc.Tok) (hnb : NoBad toks) :
    AlgoRun.ascConvert (toks.map (enc encF)) =
      match Asc.convertTokens toks with
      | .ok rows => some ((rows.length : Int), colsOf (encRows encF 0 rows))
      | .error _ => none := by
  have hconv : Asc.convertTokens toks = convertWith (2 * toks.length + 4) toks := by
    cases toks with
    | nil => rfl
    | cons x t => exact convertTokens_eq _ (by simpa using RefineAscLoop.noBad_head hnb)
  obtain ⟨h0, h1⟩ := generated_convert_eq_model_fuel encF toks hnb (2 * toks.length + 4) (4 * toks.length + 8) (by omega) (by omega)
  rw [hconv]
  unfold AlgoRun.ascConvert
  rw [h0]
  simp only [AlgoRun.ascParseFuel, List.length_map]
  revert h1
  cases convertWith (2 * toks.length + 4) toks with
  | error e => intro h1; simp only [h1]
  | ok rows =>
    intro h1
    obtain ⟨p, hp, hw⟩ := h1
    simp only [hp]
    exact hw _ (by simp [AlgoRun.ascWalkFuel])

mutual
theorem noBad_branchToks : ∀ b : Branch, RefineAscParse.NoBad (branchToks b)
  | .leaf pts => by
    intro x hx
    simp only [branchToks, List.mem_flatMap, ptToks] at hx
    obtain ⟨p, _, hp⟩ := hx
    simp at hp
    rcases hp with rfl | rfl | rfl | rfl | rfl | rfl <;> simp
  | .fork p pts alts => by
    have ih := noBad_altsToks alts
    intro x hx
    simp only [branchToks, List.mem_append, List.mem_flatMap, ptToks, List.mem_singleton] at hx
    rcases hx with (((hx | ⟨q, _, hx⟩) | rfl) | hx) | rfl
    · simp at hx; rcases hx with rfl | rfl | rfl | rfl | rfl | rfl <;> simp
    · simp at hx; rcases hx with rfl | rfl | rfl | rfl | rfl | rfl <;> simp
    · simp
    · exact ih x hx
    · simp
theorem noBad_altsToks : ∀ alts : List Branch, RefineAscParse.NoBad (altsToks alts)
  | [] => by intro x hx; simp [altsToks] at hx
  | [a] => by simpa [altsToks] using noBad_branchToks a
  | a :: b :: rest => by
    have h1 := noBad_branchToks a
    have h2 := noBad_altsToks (b :: rest)
    intro x hx
    simp only [altsToks, List.mem_append, List.mem_singleton] at hx
    rcases hx with (hx | rfl) | hx
    · exact h1 x hx
    · simp
    · exact h2 x hx
end

theorem noBad_docToks (label : SwcText.Str) (b : Branch) : RefineAscParse.NoBad (docToks label b) := by
  intro x hx
  simp only [docToks, List.mem_append, List.mem_cons, List.mem_singleton, List.not_mem_nil, or_false] at hx
  rcases hx with ((rfl | rfl | rfl | rfl) | hx) | rfl
  · simp
  · simp
  · simp
  · simp
  · exact noBad_branchToks b x hx
  · simp

open RefineAscParse RefineAscHeap in
/-- **`convert_faithful` for the generated code**: the token stream of EVERY well-formed single-tree document `( (label) <branch> )` (any
nesting depth, any branch length, any number of alternatives, empty alternatives included) is converted by the parser and the walk AS
TRANSLATED to exactly the table the property describes (`rowsOf`: one row per point in document order, typed by the label, the parent
= the preceding point of the branch / the last point before the enclosing split) -/
theorem generated_convert_faithful (encF : SwcText.Sci → Int) (label : SwcText.Str) (b : Branch)
    (hl : Asc.upper label = "AXON".toList ∨ Asc.upper label = "DENDRITE".toList) (hb : NonEmpty b) :
    AlgoRun.ascConvert ((docToks label b).map (enc encF)) =
      some ((b.count : Int), colsOf (encRows encF 0 (rowsOf (labelType label) b (-1) 0))) := by
  rw [generated_convert_eq_model encF _ (noBad_docToks label b), convert_faithful label b hl hb]
  simp only [rows_count]

open RefineAscParse in
/-- **`truncation_rejected` for the generated code**: every proper prefix of the token stream of a well-formed single-tree document makes
the parser AS TRANSLATED raise — nothing is converted in part -/
theorem generated_truncation_rejected (encF : SwcText.Sci → Int) (label : SwcText.Str) (b : Branch) (k : Nat)
    (hl : Asc.upper label = "AXON".toList ∨ Asc.upper label = "DENDRITE".toList) (hb : NonEmpty b)
    (hk : k < (docToks label b).length) :
    AlgoRun.ascConvert (((docToks label b).take k).map (enc encF)) = none := by
  have hnb : NoBad ((docToks label b).take k) := fun x hx => noBad_docToks label b x (List.mem_of_mem_take hx)
  rw [generated_convert_eq_model encF _ hnb]
  have hd : docToks label b = [Asc.Tok.lp, Asc.Tok.lp, Asc.Tok.literal label, Asc.Tok.rp] ++ (branchToks b ++ [Asc.Tok.rp]) := by
    simp [docToks]
  obtain ⟨er, he⟩ := truncation_rejected label b k hl hb (by rw [← hd]; exact hk)
  rw [hd, he]

open RefineAscParse in
/-- **`bad_point_rejected` for the generated code**: `_parse_node` AS TRANSLATED raises on a point with three numbers, with five numbers,
with a word inside, and on a point cut before its closing bracket (whatever follows, on any heap); by `generated_convert_eq_model` every
rejection of the model is a rejection of the generated conversion -/
theorem generated_bad_point_rejected (encF : SwcText.Sci → Int) (a b c d e : SwcText.Sci) (w : SwcText.Str) (t : List Asc.Tok) (hnb : NoBad t)
    (nodes : List ASTNode) (root : Int) :
    parser_parse_node (st encF (.float a :: .float b :: .float c :: .rp :: t) nodes) root = none ∧
    parser_parse_node (st encF (.float a :: .float b :: .float c :: .float d :: .float e :: t) nodes) root = none ∧
    parser_parse_node (st encF (.float a :: .literal w :: t) nodes) root = none ∧
    parser_parse_node (st encF (.float a :: .float b :: .float c :: .float d :: []) nodes) root = none := by
  obtain ⟨⟨e1, h1⟩, ⟨e2, h2⟩, ⟨e3, h3⟩, ⟨e4, h4⟩⟩ := bad_point_rejected a b c d e w t
  have nb : ∀ (pre : List Asc.Tok), (∀ x ∈ pre, x ≠ Asc.Tok.bad) → NoBad (pre ++ t) := by
    intro pre hp x hx
    rcases List.mem_append.mp hx with h | h
    · exact hp x h
    · exact hnb x h
  refine ⟨?_, ?_, ?_, ?_⟩
  · rw [parse_node_refines encF (.float a :: .float b :: .float c :: .rp :: t) nodes root (nb [.float a, .float b, .float c, .rp] (by simp)), h1]
  · rw [parse_node_refines encF (.float a :: .float b :: .float c :: .float d :: .float e :: t) nodes root (nb [.float a, .float b, .float c, .float d, .float e] (by simp)), h2]
  · rw [parse_node_refines encF (.float a :: .literal w :: t) nodes root (nb [.float a, .literal w] (by simp)), h3]
  · rw [parse_node_refines encF _ nodes root (by intro x hx; simp at hx; rcases hx with rfl | rfl | rfl | rfl <;> simp), h4]

/-- non-vacuity (kernel-evaluated): the generated parser followed by the generated walk on the token stream of
`( (Axon) (0 1 2 3) ( (4 5 6 7) | (8 9 10 11) ) )` gives three rows with parents −1, 0, 0, typed axon; the stream cut before its last
bracket is rejected -/
def exToks : List Token :=
  [⟨1, .str "("⟩, ⟨1, .str "("⟩, ⟨6, .str "Axon"⟩, ⟨2, .str ")"⟩, ⟨1, .str "("⟩, ⟨5, .flt 0⟩, ⟨5, .flt 1⟩, ⟨5, .flt 2⟩, ⟨5, .flt 3⟩, ⟨2, .str ")"⟩,
   ⟨1, .str "("⟩, ⟨1, .str "("⟩, ⟨5, .flt 4⟩, ⟨5, .flt 5⟩, ⟨5, .flt 6⟩, ⟨5, .flt 7⟩, ⟨2, .str ")"⟩, ⟨4, .str "|"⟩, ⟨1, .str "("⟩, ⟨5, .flt 8⟩,
   ⟨5, .flt 9⟩, ⟨5, .flt 10⟩, ⟨5, .flt 11⟩, ⟨2, .str ")"⟩, ⟨2, .str ")"⟩, ⟨2, .str ")"⟩]
example : (AlgoRun.ascConvert exToks).map (fun r => (r.1, r.2.1, r.2.2.1, r.2.2.2.1, r.2.2.2.2.2.2.2)) =
    some (3, [0, 1, 2], [2, 2, 2], [.flt 0, .flt 4, .flt 8], [-1, 0, 0]) := by decide +kernel
example : (AlgoRun.ascConvert exToks.dropLast).isNone := by decide +kernel

/-- non-vacuity of `generated_convert_eq_model` / `generated_convert_faithful` / `generated_truncation_rejected` (kernel-evaluated): the
same document as a model token list; its encoding is `exToks`; it has no lexer failure; the model converts it to three rows (parents −1,
0, 0), so the theorem applies and gives the result computed above; the hypotheses of the transported theorems are satisfiable -/
def exSci (n : Nat) : SwcText.Sci := ⟨false, n, 0⟩
def exEnc : SwcText.Sci → Int := fun v => (v.2 : Nat)
def exModelToks : List Asc.Tok :=
  [.lp, .lp, .literal "Axon".toList, .rp, .lp, .float (exSci 0), .float (exSci 1), .float (exSci 2), .float (exSci 3), .rp,
   .lp, .lp, .float (exSci 4), .float (exSci 5), .float (exSci 6), .float (exSci 7), .rp, .bar, .lp, .float (exSci 8),
   .float (exSci 9), .float (exSci 10), .float (exSci 11), .rp, .rp, .rp]
example : exModelToks.map (RefineAscParse.enc exEnc) = exToks := by decide +kernel
example : RefineAscParse.NoBad exModelToks := by unfold RefineAscParse.NoBad; decide +kernel
example : (Asc.convertTokens exModelToks).toOption.map (fun rows => rows.map (·.pid)) = some [-1, 0, 0] := by decide +kernel
example : AlgoRun.ascConvert (exModelToks.map (RefineAscParse.enc exEnc)) =
    match Asc.convertTokens exModelToks with
    | .ok rows => some ((rows.length : Int), colsOf (RefineAscHeap.encRows exEnc 0 rows))
    | .error _ => none :=
  generated_convert_eq_model exEnc exModelToks (by unfold RefineAscParse.NoBad; decide +kernel)
example : exModelToks = docToks "Axon".toList (.fork ⟨exSci 0, exSci 1, exSci 2, exSci 3⟩ []
    [.leaf [⟨exSci 4, exSci 5, exSci 6, exSci 7⟩], .leaf [⟨exSci 8, exSci 9, exSci 10, exSci 11⟩]]) := by decide +kernel
example : Asc.upper "Axon".toList = "AXON".toList ∧
    NonEmpty (.fork ⟨exSci 0, exSci 1, exSci 2, exSci 3⟩ [] [.leaf [⟨exSci 4, exSci 5, exSci 6, exSci 7⟩]]) := ⟨by decide +kernel, trivial⟩

end C15
