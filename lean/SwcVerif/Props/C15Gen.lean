import SwcVerif.Refine.Asc
import SwcVerif.Refine.AscParse
import SwcVerif.Refine.AscTop
import SwcVerif.Model.AlgoRunAsc
/-! # C15, tied to the source by the translator

`Gen/AlgoAsc.lean` is regenerated on every run from `swcgeom/transforms/neurolucida_asc.py`: the token-level `Parser` (`_parse`,
`_parse_tree`, `_parse_subtree` ↔ `_parse_split`, `_parse_node`, `_parse_color`, `_parse_comment`, `_skip_comments`, `_read_token`,
`_consume`, `_assert`, `_assert_and_cunsume`), `ASTNode.add_child` and `NeurolucidaAscToSwc.from_ast` with its `walk_ast` loop.  The
AST is a heap of node records, node references are indices.  The theorems below are about these GENERATED definitions. -/
namespace C15
open Gen.Algo Py RefineAsc

/-- **`from_ast` / `walk_ast` as translated, on EVERY AST heap that unfolds to a tree** (any shape, depth, number of children; TREE
nodes labelled AXON / DENDRITE, NODE values 4-tuples): with at least `cost + 1` units of fuel the explicit-stack loop returns exactly
the table `rows` defined by structural recursion — one row per NODE in pre-order, `pid` = the id of the nearest enclosing NODE (−1
directly under a TREE or the ROOT), typed by the enclosing TREE's label; COLOR / COMMENT nodes contribute nothing. -/
theorem generated_from_ast_eq_rows (nodes : List ASTNode) (t : AT) (hA : Agrees nodes t) (fuel : Nat) (hf : cost nodes t + 1 ≤ fuel) :
    from_ast fuel nodes (t.ref : Int) =
      some (((rows nodes t (-1) Gen.Consts.type_undefined 0).length : Int), colsOf (rows nodes t (-1) Gen.Consts.type_undefined 0)) :=
  from_ast_refines nodes t hA fuel hf

/-- the fuel the walk needs is at most (number of AST nodes) + (number of TREE nodes) + 1 -/
theorem generated_walk_fuel (nodes : List ASTNode) (t : AT) : cost nodes t + 1 ≤ t.size + trees nodes t + 1 := by
  have := cost_le nodes t
  omega

/-- the ids of the table are 0, 1, …, m−1 in the order the rows are produced -/
theorem generated_rows_ids (nodes : List ASTNode) (t : AT) (ty : Int) :
    (rows nodes t (-1) ty 0).map (·.id) = (List.range (rows nodes t (-1) ty 0).length).map (fun (k : Nat) => (k : Int)) := by
  rw [rows_ids, List.range_eq_range']

open RefineAscParse in
/-- **PARTIAL (stage 3): the token protocol of the parser as translated = the hand-written model**, on every `.bad`-free token list
(`.bad` = the lexer raising, outside the translated code), for every encoding `encF` of the numbers (an opaque payload), success and
every failure alike: `_read_token` drops the current token like `adv`; `_assert_and_cunsume(BRACKET_RIGHT / BRACKET_LEFT)` are
`expectRp` / `expectLp`; `_parse_node` is `parseNode` — the same remaining tokens, the same four numbers in a NODE record allocated at
the end of the heap and attached to `root` by the translated `add_child`, and an error exactly when the model has one (so the model's
`bad_point_rejected` / `node_error_propagates` hypotheses about a point hold for the generated `_parse_node`).

MISSING for the full statement "generated parser ∘ generated walk = `Asc.convertTokens`": the loops / mutual recursion
`_parse_subtree` ↔ `_parse_split`, `_parse_tree`, `_parse` as translated against `parseSubtree` / `parseTop`, which needs a heap invariant
(the heap unfolds to a tree in the sense of `RefineAsc.Agrees` whose `RefineAsc.rows` are the model's rows, with `current` / `root` on
its rightmost path) — these functions are tied by cross-checked execution only (driver op `gasc`); `walk_ast` itself is proved
(`generated_from_ast_eq_rows`). -/
theorem generated_token_protocol_partial (encF : SwcText.Sci → Int) (toks : List Asc.Tok) (nodes : List ASTNode) (root : Int)
    (h : NoBad toks) :
    (parser_read_token (st encF toks nodes) = some (st encF toks.tail nodes, ()) ∧ (∀ t, toks ≠ [] → Asc.adv (t :: toks) = .ok toks)) ∧
    (parser_assert_and_cunsume (st encF toks nodes) 2 =
      match Asc.expectRp toks with | .ok rest => some (st encF rest nodes, enc encF .rp) | .error _ => none) ∧
    (parser_assert_and_cunsume (st encF toks nodes) 1 =
      match Asc.expectLp toks with | .ok rest => some (st encF rest nodes, enc encF .lp) | .error _ => none) ∧
    (parser_parse_node (st encF toks nodes) root =
      match Asc.parseNode toks with
      | .error _ => none
      | .ok ((a, b, c, d), rest) =>
        (ast_add_child (nodes ++ [nodeRec encF a b c d]) root (nodes.length : Int)).map fun r => (st encF rest r.1, (nodes.length : Int))) := by
  refine ⟨⟨read_token_st encF toks nodes, ?_⟩, expectRp_refines encF toks nodes h, expectLp_refines encF toks nodes h,
    parse_node_refines encF toks nodes root h⟩
  intro t hne
  cases toks with
  | nil => exact absurd rfl hne
  | cons u rest =>
    have : u ≠ Asc.Tok.bad := h u (by simp)
    cases u <;> simp_all [Asc.adv]


open RefineAscParse RefineAscHeap RefineAscTop in
/-- **generated parser ∘ generated walk = the model, explicit fuels** (`C15.convertWith N` is `Asc.convertTokens` with the fuel `N` of
its loops made explicit; `convertTokens toks = convertWith (toks.length + 2) toks`): for EVERY token list without a lexer failure
(`.bad` = `float()` raising inside the lexer, which is not part of the translated code), every encoding `encF` of the numbers (an opaque
payload), every model fuel `N` with which the model does not run out of fuel, every fuel `G ≥ 2 N` of the translated
`Parser._parse` (loops and the `_parse_subtree` ↔ `_parse_split` recursion) and every fuel `F ≥ 2·#heap` of the translated walk:
`Parser(...)` (`next_token = None; _read_token()`), `_parse()`, `from_ast(ast)` AS TRANSLATED FROM THE SOURCE return exactly the model's
table — the number of rows, ids 0 … m−1, the type of the tree's label, the four numbers of every point, the parents — or raise exactly
when the model has an error. -/
theorem generated_convert_eq_model_fuel (encF : SwcText.Sci → Int) (toks : List Asc.Tok) (hnb : NoBad toks) (N G : Nat) (hG : 2 * N ≤ G)
    (hne : convertWith N toks ≠ .error .fuel) :
    parser_read_token { lexer := toks.map (enc encF), next_token := none, nodes := [] } = some (st encF toks [], ()) ∧
    match convertWith N toks with
    | .error _ => parser_parse G (st encF toks []) = none
    | .ok rows => ∃ p, parser_parse G (st encF toks []) = some (p, 0) ∧
        ∀ F, 2 * p.nodes.length ≤ F → from_ast F p.nodes 0 = some ((rows.length : Int), colsOf (encRows encF 0 rows)) :=
  ⟨init_st toks, convert_refines N G toks hnb hG hne⟩

/-- non-vacuity (kernel-evaluated): the generated parser followed by the generated walk on the token stream of
`( (Axon) (0 1 2 3) ( (4 5 6 7) | (8 9 10 11) ) )` gives three rows with parents −1, 0, 0, typed axon; the stream cut before its last
bracket is rejected -/
def exToks : List Token :=
  [⟨1, .str "("⟩, ⟨1, .str "("⟩, ⟨6, .str "Axon"⟩, ⟨2, .str ")"⟩, ⟨1, .str "("⟩, ⟨5, .flt 0⟩, ⟨5, .flt 1⟩, ⟨5, .flt 2⟩, ⟨5, .flt 3⟩, ⟨2, .str ")"⟩,
   ⟨1, .str "("⟩, ⟨1, .str "("⟩, ⟨5, .flt 4⟩, ⟨5, .flt 5⟩, ⟨5, .flt 6⟩, ⟨5, .flt 7⟩, ⟨2, .str ")"⟩, ⟨4, .str "|"⟩, ⟨1, .str "("⟩, ⟨5, .flt 8⟩,
   ⟨5, .flt 9⟩, ⟨5, .flt 10⟩, ⟨5, .flt 11⟩, ⟨2, .str ")"⟩, ⟨2, .str ")"⟩, ⟨2, .str ")"⟩]
example : (AlgoRun.ascConvert exToks).map (fun r => (r.1, r.2.1, r.2.2.1, r.2.2.2.1, r.2.2.2.2.2.2.2)) =
    some (3, [0, 1, 2], [2, 2, 2], [.flt 0, .flt 4, .flt 8], [-1, 0, 0]) := by decide +kernel
example : (AlgoRun.ascConvert exToks.dropLast).isNone := by decide +kernel

end C15
