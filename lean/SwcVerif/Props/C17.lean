import SwcVerif.Model.Mst
