import SwcVerif.Model.Mst
import Mathlib.Algebra.Order.Field.Rat
import Mathlib.Tactic.Linarith
/-! # C17 — point-cloud tree construction yields the intended spanning tree

Theorems about the model `Mst.step` / `Mst.run` of the greedy loop of `PointsToCuntzMST.__call__`
(tied to the code by the `c17.mst` correspondence on the code's own distance matrix). `dis` is any
`n × n` matrix of rationals, `bf` the balancing factor, `limit` the branching limit (`none` = `-1`). -/
namespace C17
open Mst

/-- the cell `(i, j)` is not masked -/
def Open (s : St) (i j : Nat) : Prop := (s.mask.getD i []).getD j true = false
def Conn (s : St) (i : Nat) : Prop := s.conn.getD i false = true

/-- the point already has as many children as the limit allows (and is not the exempt root) -/
def Saturated (limit : Option Nat) (excl : Bool) (s : St) (i : Nat) : Prop :=
  ∃ k, limit = some k ∧ k ≤ s.furc.getD i 0 ∧ (excl = false ∨ i ≠ 0)

/-- number of points whose parent is `i` -/
def children (s : St) (i : Nat) : Nat := (s.pid.filter (· = (i : Int))).length

/-- following parents `d` times -/
def up (s : St) : Nat → Nat → Int
  | 0, j => j
  | d+1, j => match s.pid.getD j (-1) with
    | -1 => -1
    | p => up s d p.toNat

/-- **the loop invariant** -/
structure Inv (dis : List (List Rat)) (n : Nat) (limit : Option Nat) (excl : Bool) (s : St) : Prop where
  len : s.pid.length = n ∧ s.acc.length = n ∧ s.furc.length = n ∧ s.conn.length = n ∧ s.mask.length = n ∧ ∀ r ∈ s.mask, r.length = n
  root : Conn s 0 ∧ s.pid.getD 0 0 = -1 ∧ s.acc.getD 0 1 = 0
  /-- open cells are exactly: connected, unsaturated source × not yet connected target -/
  mask : ∀ i j, i < n → j < n → (Open s i j ↔ (Conn s i ∧ ¬ Saturated limit excl s i ∧ ¬ Conn s j))
  /-- a connected point hangs from a connected point; an unconnected one has no parent yet -/
  parent : ∀ j, j < n → j ≠ 0 →
    (Conn s j → ∃ i, i < n ∧ s.pid.getD j 0 = (i : Int) ∧ Conn s i ∧ s.acc.getD j 0 = s.acc.getD i 0 + (dis.getD i []).getD j 0) ∧
    (¬ Conn s j → s.pid.getD j 0 = -1)
  /-- every connected point reaches point 0 by following parents -/
  reach : ∀ j, j < n → Conn s j → ∃ d, d ≤ n ∧ up s d j = 0
  /-- the most recently connected point has no children yet (so it can always take the next one) -/
  fresh : ∃ i, i < n ∧ Conn s i ∧ s.furc.getD i 0 = 0
  /-- `furcations[i]` counts the children, and never exceeds the limit for a non-exempt point -/
  count : ∀ i, i < n → s.furc.getD i 0 = children s i ∧
    (∀ k, limit = some k → 1 ≤ k → (excl = false ∨ i ≠ 0) → s.furc.getD i 0 ≤ k)

theorem init_inv (dis : List (List Rat)) (n : Nat) (hn : 0 < n) (limit : Option Nat) (excl : Bool)
    (hk : ∀ k, limit = some k → 1 ≤ k) :
    Inv dis n limit excl (init n) := by
  sorry

/-- number of connected points -/
def nconn (s : St) : Nat := (s.conn.filter id).length

/-- **each new point is attached to the connected, unsaturated point that minimises edge length plus
`bf` × that point's path length** (ties: the first in row-major order) — whenever some point is still
unconnected, the chosen cell is open and no open cell is cheaper -/
theorem greedy_step (dis : List (List Rat)) (bf : Rat) (n : Nat) (limit : Option Nat) (excl : Bool) (s : St)
    (hi : Inv dis n limit excl s) (hk : ∀ k, limit = some k → 1 ≤ k) (hmore : nconn s < n) (hpos : 0 < nconn s) :
    let ij := argmin dis bf s n
    ij.1 < n ∧ ij.2 < n ∧ Open s ij.1 ij.2 ∧
    ∀ i j, i < n → j < n → Open s i j → cellCost dis bf s ij.1 ij.2 ≤ cellCost dis bf s i j := by
  sorry

/-- the invariant is preserved, and one more point gets connected -/
theorem step_inv (dis : List (List Rat)) (bf : Rat) (n : Nat) (limit : Option Nat) (excl : Bool) (s : St)
    (hi : Inv dis n limit excl s) (hk : ∀ k, limit = some k → 1 ≤ k) (hmore : nconn s < n) (hpos : 0 < nconn s) :
    Inv dis n limit excl (step dis bf limit excl n s) ∧ nconn (step dis bf limit excl n s) = nconn s + 1 := by
  sorry

/-- **a single tree containing every point exactly once, rooted at the first point**: after `n - 1`
iterations every point is connected, has one parent (point 0 none) and reaches point 0 -/
theorem spanning (dis : List (List Rat)) (bf : Rat) (n : Nat) (hn : 0 < n) (limit : Option Nat) (excl : Bool)
    (hk : ∀ k, limit = some k → 1 ≤ k) :
    let s := run dis bf limit excl n (n - 1) (init n)
    Inv dis n limit excl s ∧ (∀ j, j < n → Conn s j) ∧
    s.pid.getD 0 0 = -1 ∧ (∀ j, j < n → j ≠ 0 → ∃ i, i < n ∧ s.pid.getD j 0 = (i : Int)) ∧
    (∀ j, j < n → ∃ d, d ≤ n ∧ up s d j = 0) := by
  sorry

/-- **with a branching limit `k` no node other than the (optionally exempt) root gets more than `k` children** -/
theorem branching_limit (dis : List (List Rat)) (bf : Rat) (n : Nat) (hn : 0 < n) (k : Nat) (hk : 1 ≤ k) (excl : Bool)
    (i : Nat) (hi : i < n) (hex : excl = false ∨ i ≠ 0) :
    children (run dis bf (some k) excl n (n - 1) (init n)) i ≤ k := by
  sorry

/-- **Prim's step**: without balancing factor and without limit the chosen edge is a lightest edge between
the connected and the unconnected points (the cut property; that repeating it yields a minimum spanning
tree is the classical exchange argument, checked against Kruskal by the oracle, not proved here) -/
theorem prim_step_partial (dis : List (List Rat)) (n : Nat) (excl : Bool) (s : St)
    (hi : Inv dis n none excl s) (hmore : nconn s < n) (hpos : 0 < nconn s) :
    let ij := argmin dis 0 s n
    Conn s ij.1 ∧ ¬ Conn s ij.2 ∧
    ∀ i j, i < n → j < n → Conn s i → ¬ Conn s j →
      (dis.getD ij.1 []).getD ij.2 0 ≤ (dis.getD i []).getD j 0 := by
  sorry

-- non-vacuity / concrete behaviour: 4 points on a line at 0, 10, 11, 1
def exDis : List (List Rat) := [[0, 10, 11, 1], [10, 0, 1, 9], [11, 1, 0, 10], [1, 9, 10, 0]]
example : mst exDis 0 none true = [-1, 3, 1, 0] := by decide +kernel
example : mst exDis 1 none true = [-1, 0, 0, 0] := by decide +kernel
example : mst exDis 0 (some 1) false = [-1, 3, 1, 0] := by decide +kernel

end C17
