import SwcVerif.Model.Mst
import SwcVerif.Proofs.Mst
import SwcVerif.Proofs.Graph
import Mathlib.Algebra.BigOperators.Group.List.Basic
import Mathlib.Algebra.Order.BigOperators.Group.List
import Mathlib.Tactic.Ring
import Mathlib.Algebra.Order.Field.Rat
import Mathlib.Tactic.Linarith
/-! # C17 — point-cloud tree construction yields the intended spanning tree

Theorems about the model `Mst.step` / `Mst.run` of the greedy loop of `PointsToCuntzMST.__call__`
(tied to the code by the `c17.mst` correspondence on the code's own distance matrix). `dis` is any
`n × n` matrix of rationals, `bf` the balancing factor, `limit` the branching limit (`none` = `-1`). -/
set_option linter.unusedSectionVars false
set_option linter.unusedVariables false
namespace C17
open Mst

/-- the cell `(i, j)` is not masked -/
def Open (s : St) (i j : Nat) : Prop := (s.mask.getD i []).getD j true = false
def Conn (s : St) (i : Nat) : Prop := s.conn.getD i false = true

/-- the point already has as many children as the limit allows (and is not the exempt root) -/
def Saturated (limit : Option Nat) (excl : Bool) (s : St) (i : Nat) : Prop :=
  ∃ k, limit = some k ∧ k ≤ s.furc.getD i 0 ∧ (excl = false ∨ i ≠ 0)

/-- number of points whose parent is `i` -/
def children (s : St) (i : Nat) : Nat := (s.pid.filter (· = (i : Int))).length

/-- following parents `d` times -/
def up (s : St) : Nat → Nat → Int
  | 0, j => j
  | d+1, j => match s.pid.getD j (-1) with
    | -1 => -1
    | p => up s d p.toNat

/-- **the loop invariant** -/
structure Inv (dis : List (List Rat)) (n : Nat) (limit : Option Nat) (excl : Bool) (s : St) : Prop where
  len : s.pid.length = n ∧ s.acc.length = n ∧ s.furc.length = n ∧ s.conn.length = n ∧ s.mask.length = n ∧ ∀ r ∈ s.mask, r.length = n
  root : Conn s 0 ∧ s.pid.getD 0 0 = -1 ∧ s.acc.getD 0 1 = 0
  /-- open cells are exactly: connected, unsaturated source × not yet connected target -/
  mask : ∀ i j, i < n → j < n → (Open s i j ↔ (Conn s i ∧ ¬ Saturated limit excl s i ∧ ¬ Conn s j))
  /-- a connected point hangs from a connected point; an unconnected one has no parent yet -/
  parent : ∀ j, j < n → j ≠ 0 →
    (Conn s j → ∃ i, i < n ∧ s.pid.getD j 0 = (i : Int) ∧ Conn s i ∧ s.acc.getD j 0 = s.acc.getD i 0 + (dis.getD i []).getD j 0) ∧
    (¬ Conn s j → s.pid.getD j 0 = -1)
  /-- every connected point reaches point 0 by following parents -/
  reach : ∀ j, j < n → Conn s j → ∃ d, d ≤ n ∧ up s d j = 0
  /-- the most recently connected point has no children yet (so it can always take the next one) -/
  fresh : ∃ i, i < n ∧ Conn s i ∧ s.furc.getD i 0 = 0
  /-- `furcations[i]` counts the children, and never exceeds the limit for a non-exempt point -/
  count : ∀ i, i < n → s.furc.getD i 0 = children s i ∧
    (∀ k, limit = some k → 1 ≤ k → (excl = false ∨ i ≠ 0) → s.furc.getD i 0 ≤ k)

private theorem init_conn (n i : Nat) (h : i < n) : Conn (init n) i ↔ i = 0 := by
  show ((List.range n).map (· == 0)).getD i false = true ↔ i = 0
  rw [getD_range_map _ n i false h]; simp

theorem init_inv (dis : List (List Rat)) (n : Nat) (hn : 0 < n) (limit : Option Nat) (excl : Bool)
    (hk : ∀ k, limit = some k → 1 ≤ k) :
    Inv dis n limit excl (init n) := by
  have hfurc : ∀ i, i < n → (init n).furc.getD i 0 = 0 := fun i h =>
    getD_replicate n i 0 0 h
  have hpid : ∀ i, i < n → (init n).pid.getD i 0 = -1 := fun i h =>
    getD_replicate n i (-1 : Int) 0 h
  refine ⟨?_, ?_, ?_, ?_, ?_, ?_, ?_⟩
  · simp [init]
  · exact ⟨(init_conn n 0 hn).mpr rfl, hpid 0 hn, getD_replicate n 0 (0 : Rat) 1 hn⟩
  · intro i j hi hj
    have hsat : ¬ Saturated limit excl (init n) i := by
      rintro ⟨k, h1, h2, _⟩
      have := hk k h1
      rw [hfurc i hi] at h2; omega
    rw [init_conn n i hi, init_conn n j hj]
    have : Open (init n) i j ↔ (if i = 0 then j == 0 else true) = false := by
      unfold Open init
      simp only
      rw [getD_range_map _ n i [] hi, getD_range_map _ n j true hj]
    rw [this]
    by_cases h : i = 0
    · subst h; simp [hsat]
    · simp [h]
  · intro j hj hj0
    rw [init_conn n j hj]
    exact ⟨fun h => absurd h hj0, fun _ => hpid j hj⟩
  · intro j hj hc
    rw [init_conn n j hj] at hc
    subst hc
    exact ⟨0, Nat.zero_le _, rfl⟩
  · exact ⟨0, hn, (init_conn n 0 hn).mpr rfl, hfurc 0 hn⟩
  · intro i hi
    rw [hfurc i hi]
    refine ⟨?_, fun k _ _ _ => Nat.zero_le _⟩
    unfold children
    rw [filter_eq_zero]
    intro a ha
    have ha' : a < n := by simpa [init] using ha
    rw [hpid a ha']
    omega

/-- number of connected points -/
def nconn (s : St) : Nat := (s.conn.filter id).length

private theorem exists_open (dis : List (List Rat)) (n : Nat) (limit : Option Nat) (excl : Bool) (s : St)
    (hi : Inv dis n limit excl s) (hk : ∀ k, limit = some k → 1 ≤ k) (hmore : nconn s < n) :
    ∃ i j, i < n ∧ j < n ∧ Open s i j := by
  obtain ⟨i, hin, hci, hfi⟩ := hi.fresh
  have hlen := hi.len.2.2.2.1
  obtain ⟨j, hj, hcj⟩ := exists_false_of_filter_lt s.conn (by unfold nconn at hmore; omega)
  refine ⟨i, j, hin, by omega, (hi.mask i j hin (by omega)).mpr ⟨hci, ?_, ?_⟩⟩
  · rintro ⟨k, h1, h2, _⟩
    have := hk k h1
    omega
  · unfold Conn; rw [hcj]; simp

/-- **each new point is attached to the connected, unsaturated point that minimises edge length plus
`bf` × that point's path length** (ties: the first in row-major order) — whenever some point is still
unconnected, the chosen cell is open and no open cell is cheaper -/
theorem greedy_step (dis : List (List Rat)) (bf : Rat) (n : Nat) (limit : Option Nat) (excl : Bool) (s : St)
    (hi : Inv dis n limit excl s) (hk : ∀ k, limit = some k → 1 ≤ k) (hmore : nconn s < n) (hpos : 0 < nconn s) :
    let ij := argmin dis bf s n
    ij.1 < n ∧ ij.2 < n ∧ Open s ij.1 ij.2 ∧
    ∀ i j, i < n → j < n → Open s i j → cellCost dis bf s ij.1 ij.2 ≤ cellCost dis bf s i j := by
  exact argmin_spec dis bf s n (exists_open dis n limit excl s hi hk hmore)

/-! ### following parents -/
private theorem up_succ (s : St) (d j : Nat) :
    up s (d+1) j = if s.pid.getD j (-1) = -1 then -1 else up s d (s.pid.getD j (-1)).toNat := by
  rw [up]; split <;> simp_all

private theorem up_add (s : St) : ∀ (m a x : Nat), up s m a = (x : Int) → ∀ k, up s (m + k) a = up s k x := by
  intro m
  induction m with
  | zero =>
    intro a x h k
    have : a = x := by simpa [up] using h
    subst this; simp
  | succ m ih =>
    intro a x h k
    rw [up_succ] at h
    have e : m + 1 + k = (m + k) + 1 := by omega
    rw [e, up_succ]
    split at h
    · omega
    · rename_i hne
      rw [if_neg hne]
      exact ih _ x h k

section static
variable {dis : List (List Rat)} {n : Nat} {limit : Option Nat} {excl : Bool} {s : St}
  (hi : Inv dis n limit excl s)
include hi

private theorem up_root (d : Nat) : up s (d+1) 0 = -1 := by
  have h0 : 0 < n := by
    obtain ⟨i, h, _⟩ := hi.fresh; omega
  rw [up_succ, getD_dflt s.pid 0 (-1) 0 (by have := hi.len.1; omega), hi.root.2.1]; simp

private theorem up_step (a : Nat) (ha : a < n) (hc : Conn s a) (h0 : a ≠ 0) :
    ∃ p, p < n ∧ Conn s p ∧ s.pid.getD a (-1) = (p : Int) ∧ ∀ d, up s (d+1) a = up s d p := by
  obtain ⟨p, hp, hpid, hcp, _⟩ := (hi.parent a ha h0).1 hc
  have hpid' : s.pid.getD a (-1) = (p : Int) := by
    rw [getD_dflt s.pid a (-1) 0 (by have := hi.len.1; omega), hpid]
  refine ⟨p, hp, hcp, hpid', fun d => ?_⟩
  rw [up_succ, hpid', if_neg (by omega)]; simp

private theorem up_conn (a : Nat) (ha : a < n) (hc : Conn s a) :
    ∀ m, (∀ m', m' < m → up s m' a ≠ 0) → ∃ x, x < n ∧ Conn s x ∧ up s m a = (x : Int) := by
  intro m
  induction m with
  | zero => intro _; exact ⟨a, ha, hc, rfl⟩
  | succ m ih =>
    intro hmin
    obtain ⟨x, hx, hcx, hux⟩ := ih (fun m' h => hmin m' (by omega))
    have hx0 : x ≠ 0 := by
      intro h; subst h; exact hmin m (by omega) hux
    obtain ⟨p, hp, hcp, _, hstep⟩ := up_step hi x hx hcx hx0
    refine ⟨p, hp, hcp, ?_⟩
    rw [up_add s m a x hux 1, hstep 0]; rfl

/-- a connected point reaches the root in fewer steps than there are points besides an unconnected one -/
private theorem short_reach (a : Nat) (ha : a < n) (hc : Conn s a) (j : Nat) (hj : j < n) (hcj : ¬ Conn s j) :
    ∃ d, d + 2 ≤ n ∧ up s d a = 0 := by
  obtain ⟨d0, _, hd0⟩ := hi.reach a ha hc
  have hex : ∃ d, up s d a = 0 := ⟨d0, hd0⟩
  classical
  let d := Nat.find hex
  have hd : up s d a = 0 := Nat.find_spec hex
  have hmin : ∀ m, m < d → up s m a ≠ 0 := fun m hm => Nat.find_min hex hm
  refine ⟨d, ?_, hd⟩
  -- the chain a = x₀, x₁, …, x_d together with `j` are `d + 2` distinct points below `n`
  have hch : ∀ m, m ≤ d → ∃ x, x < n ∧ Conn s x ∧ up s m a = (x : Int) := fun m hm =>
    up_conn hi a ha hc m (fun m' h => hmin m' (by omega))
  have hinj : ∀ (m1 m2 x : Nat), m1 < m2 → m2 ≤ d → up s m1 a = (x : Int) → up s m2 a = (x : Int) → False := by
    intro m1 m2 x h12 h2 e1 e2
    have h3 := up_add s m2 a x e2 (d - m2)
    have h4 := up_add s m1 a x e1 (d - m2)
    have e : m2 + (d - m2) = d := by omega
    rw [e, hd] at h3
    exact hmin (m1 + (d - m2)) (by omega) (by rw [h4, ← h3])
  let f : Nat → Nat := fun k => if k = 0 then j else (up s (k - 1) a).toNat
  apply pigeon f (d + 2) n
  · intro k hk
    by_cases h : k = 0
    · simp [f, h, hj]
    · obtain ⟨x, hx, _, hux⟩ := hch (k - 1) (by omega)
      simp [f, h, hux, hx]
  · intro k1 k2 h1 h2 hf
    by_cases z1 : k1 = 0 <;> by_cases z2 : k2 = 0
    · omega
    · obtain ⟨x, hx, hcx, hux⟩ := hch (k2 - 1) (by omega)
      simp [f, z1, z2, hux] at hf
      subst hf; exact absurd hcx hcj
    · obtain ⟨x, hx, hcx, hux⟩ := hch (k1 - 1) (by omega)
      simp [f, z1, z2, hux] at hf
      subst hf; exact absurd hcx hcj
    · obtain ⟨x1, _, _, hu1⟩ := hch (k1 - 1) (by omega)
      obtain ⟨x2, _, _, hu2⟩ := hch (k2 - 1) (by omega)
      simp [f, z1, z2, hu1, hu2] at hf
      subst hf
      rcases Nat.lt_trichotomy (k1 - 1) (k2 - 1) with h | h | h
      · exact (hinj _ _ _ h (by omega) hu1 hu2).elim
      · omega
      · exact (hinj _ _ _ h (by omega) hu2 hu1).elim

/-- nobody hangs from an unconnected point -/
private theorem no_child (j : Nat) (hj : j < n) (hcj : ¬ Conn s j) : ∀ a, a < n → s.pid.getD a 0 ≠ (j : Int) := by
  intro a ha
  by_cases h0 : a = 0
  · subst h0; rw [hi.root.2.1]; omega
  · by_cases hc : Conn s a
    · obtain ⟨p, _, hpid, hcp, _⟩ := (hi.parent a ha h0).1 hc
      rw [hpid]
      intro h
      have : p = j := by omega
      subst this; exact hcj hcp
    · rw [(hi.parent a ha h0).2 hc]; omega

end static

/-! ### one step with a given open cell `(i, j)` -/
section dynamic
variable {dis : List (List Rat)} {n : Nat} {limit : Option Nat} {excl : Bool} {s : St} {i j : Nat}
  (hi : Inv dis n limit excl s) (hk : ∀ k, limit = some k → 1 ≤ k)
  (hin : i < n) (hjn : j < n) (hci : Conn s i) (hsi : ¬ Saturated limit excl s i) (hcj : ¬ Conn s j)
include hi hk hin hjn hci hsi hcj

private theorem ne_ij : i ≠ j := by
  intro h; subst h; exact hcj hci

private theorem pid_get (a : Nat) (d : Int) :
    (stepAt dis limit excl n s i j).pid.getD a d = if a = j then (i : Int) else s.pid.getD a d := by
  show (s.pid.set j (i : Int)).getD a d = _
  rw [getD_set]
  have := hi.len.1
  by_cases h : a = j
  · subst h; rw [if_pos ⟨rfl, by omega⟩, if_pos rfl]
  · rw [if_neg (fun h' => h h'.1.symm), if_neg h]

private theorem acc_get (a : Nat) (d : Rat) :
    (stepAt dis limit excl n s i j).acc.getD a d =
      if a = j then s.acc.getD i 0 + (dis.getD i []).getD j 0 else s.acc.getD a d := by
  show (s.acc.set j _).getD a d = _
  rw [getD_set]
  have := hi.len.2.1
  by_cases h : a = j
  · subst h; rw [if_pos ⟨rfl, by omega⟩, if_pos rfl]
  · rw [if_neg (fun h' => h h'.1.symm), if_neg h]

private theorem furc_get (a : Nat) :
    (stepAt dis limit excl n s i j).furc.getD a 0 = if a = i then s.furc.getD i 0 + 1 else s.furc.getD a 0 := by
  show (s.furc.set i _).getD a 0 = _
  rw [getD_set]
  have := hi.len.2.2.1
  by_cases h : a = i
  · subst h; rw [if_pos ⟨rfl, by omega⟩, if_pos rfl]
  · rw [if_neg (fun h' => h h'.1.symm), if_neg h]

private theorem conn_get (a : Nat) : Conn (stepAt dis limit excl n s i j) a ↔ a = j ∨ Conn s a := by
  show (s.conn.set j true).getD a false = true ↔ _
  rw [getD_set]
  have := hi.len.2.2.2.1
  by_cases h : a = j
  · subst h; rw [if_pos ⟨rfl, by omega⟩]; simp
  · rw [if_neg (fun h' => h h'.1.symm)]; simp [h, Conn]

private theorem sat_i : Saturated limit excl (stepAt dis limit excl n s i j) i ↔
    satFlag limit excl (s.furc.getD i 0 + 1) i = true := by
  rw [satFlag_iff]
  unfold Saturated
  rw [furc_get hi hk hin hjn hci hsi hcj i, if_pos rfl]

private theorem sat_other (a : Nat) (h : a ≠ i) :
    Saturated limit excl (stepAt dis limit excl n s i j) a ↔ Saturated limit excl s a := by
  unfold Saturated
  rw [furc_get hi hk hin hjn hci hsi hcj a, if_neg h]

private theorem furc_j : s.furc.getD j 0 = 0 := by
  rw [(hi.count j hjn).1]
  unfold children
  apply filter_eq_zero
  intro a ha
  exact no_child hi j hjn hcj a (by have := hi.len.1; omega)

private theorem mask1_square : Square n
    (if satFlag limit excl (s.furc.getD i 0 + 1) i then cross s.mask i (List.replicate n true) else s.mask) := by
  have hsq : Square n s.mask := ⟨hi.len.2.2.2.2.1, hi.len.2.2.2.2.2⟩
  split
  · exact cross_square i hsq (by simp)
  · exact hsq

private theorem mask_eq : (stepAt dis limit excl n s i j).mask =
    cross (if satFlag limit excl (s.furc.getD i 0 + 1) i then cross s.mask i (List.replicate n true) else s.mask)
      j (s.conn.set j true) := by
  have h := furc_get hi hk hin hjn hci hsi hcj i
  rw [if_pos rfl] at h
  show cross (if satFlag limit excl ((s.furc.set i (s.furc.getD i 0 + 1)).getD i 0) i then _ else _) j _ = _
  have h' : (s.furc.set i (s.furc.getD i 0 + 1)).getD i 0 = s.furc.getD i 0 + 1 := h
  rw [h']

private theorem open_get (a b : Nat) (ha : a < n) (hb : b < n) :
    Open (stepAt dis limit excl n s i j) a b ↔
      b ≠ j ∧ (if a = j then ¬ Conn s b
        else ¬ (satFlag limit excl (s.furc.getD i 0 + 1) i = true ∧ (a = i ∨ b = i)) ∧ Open s a b) := by
  have hsq : Square n s.mask := ⟨hi.len.2.2.2.2.1, hi.len.2.2.2.2.2⟩
  have hcl : (s.conn.set j true).length = n := by simp [hi.len.2.2.2.1]
  unfold Open
  rw [mask_eq hi hk hin hjn hci hsi hcj,
    cross_get (mask1_square hi hk hin hjn hci hsi hcj) hcl hjn ha hb]
  by_cases hbj : b = j
  · simp [hbj]
  · rw [if_neg hbj]
    by_cases haj : a = j
    · rw [if_pos haj, if_pos haj, getD_set, if_neg (fun h => hbj h.1.symm)]
      rw [getD_dflt s.conn b true false (by have := hi.len.2.2.2.1; omega)]
      simp [hbj, Conn]
    · rw [if_neg haj, if_neg haj]
      generalize satFlag limit excl (s.furc.getD i 0 + 1) i = fl
      cases fl
      · simp [hbj]
      · rw [if_pos rfl, cross_get hsq (by simp) hin ha hb]
        by_cases hbi : b = i
        · simp [hbi]
        · rw [if_neg hbi]
          by_cases hai : a = i
          · rw [if_pos hai, getD_replicate n b true true hb]; simp [hai]
          · rw [if_neg hai]; simp [hbj, hai, hbi]

private theorem step_mask (a b : Nat) (ha : a < n) (hb : b < n) :
    Open (stepAt dis limit excl n s i j) a b ↔
      (Conn (stepAt dis limit excl n s i j) a ∧ ¬ Saturated limit excl (stepAt dis limit excl n s i j) a ∧
        ¬ Conn (stepAt dis limit excl n s i j) b) := by
  have hne := ne_ij hi hk hin hjn hci hsi hcj
  rw [open_get hi hk hin hjn hci hsi hcj a b ha hb, conn_get hi hk hin hjn hci hsi hcj a,
    conn_get hi hk hin hjn hci hsi hcj b]
  by_cases hbj : b = j
  · simp [hbj]
  · by_cases haj : a = j
    · subst haj
      have hns : ¬ Saturated limit excl (stepAt dis limit excl n s i a) a := by
        rw [sat_other hi hk hin hjn hci hsi hcj a (Ne.symm hne)]
        rintro ⟨k, h1, h2, _⟩
        have := hk k h1
        have := furc_j hi hk hin hjn hci hsi hcj
        omega
      simp [hbj, hns]
    · rw [if_neg haj, hi.mask a b ha hb]
      by_cases hai : a = i
      · subst hai
        rw [sat_i hi hk hin hjn hci hsi hcj]
        simp [hbj, haj, hci, hsi]
      · rw [sat_other hi hk hin hjn hci hsi hcj a hai]
        by_cases hbi : b = i
        · subst hbi; simp [hci]
        · simp [hbj, haj, hai, hbi]

end dynamic

section dynamic2
variable {dis : List (List Rat)} {n : Nat} {limit : Option Nat} {excl : Bool} {s : St} {i j : Nat}
  (hi : Inv dis n limit excl s) (hk : ∀ k, limit = some k → 1 ≤ k)
  (hin : i < n) (hjn : j < n) (hci : Conn s i) (hsi : ¬ Saturated limit excl s i) (hcj : ¬ Conn s j)
include hi hk hin hjn hci hsi hcj

private theorem step_len : (stepAt dis limit excl n s i j).pid.length = n ∧
    (stepAt dis limit excl n s i j).acc.length = n ∧ (stepAt dis limit excl n s i j).furc.length = n ∧
    (stepAt dis limit excl n s i j).conn.length = n ∧ (stepAt dis limit excl n s i j).mask.length = n ∧
    ∀ r ∈ (stepAt dis limit excl n s i j).mask, r.length = n := by
  have hcl : (s.conn.set j true).length = n := by simp [hi.len.2.2.2.1]
  have hsq := cross_square j (mask1_square hi hk hin hjn hci hsi hcj) hcl
  rw [← mask_eq hi hk hin hjn hci hsi hcj] at hsq
  refine ⟨?_, ?_, ?_, hcl, hsq.1, hsq.2⟩
  · show (s.pid.set j _).length = n
    simp [hi.len.1]
  · show (s.acc.set j _).length = n
    simp [hi.len.2.1]
  · show (s.furc.set i _).length = n
    simp [hi.len.2.2.1]

private theorem j_ne_zero : j ≠ 0 := by
  intro h; subst h; exact hcj hi.root.1

private theorem step_root : Conn (stepAt dis limit excl n s i j) 0 ∧
    (stepAt dis limit excl n s i j).pid.getD 0 0 = -1 ∧ (stepAt dis limit excl n s i j).acc.getD 0 1 = 0 := by
  have hj0 := j_ne_zero hi hk hin hjn hci hsi hcj
  refine ⟨(conn_get hi hk hin hjn hci hsi hcj 0).mpr (Or.inr hi.root.1), ?_, ?_⟩
  · rw [pid_get hi hk hin hjn hci hsi hcj, if_neg (Ne.symm hj0)]; exact hi.root.2.1
  · rw [acc_get hi hk hin hjn hci hsi hcj, if_neg (Ne.symm hj0)]; exact hi.root.2.2

private theorem step_parent (a : Nat) (ha : a < n) (ha0 : a ≠ 0) :
    (Conn (stepAt dis limit excl n s i j) a → ∃ p, p < n ∧ (stepAt dis limit excl n s i j).pid.getD a 0 = (p : Int) ∧
      Conn (stepAt dis limit excl n s i j) p ∧
      (stepAt dis limit excl n s i j).acc.getD a 0 =
        (stepAt dis limit excl n s i j).acc.getD p 0 + (dis.getD p []).getD a 0) ∧
    (¬ Conn (stepAt dis limit excl n s i j) a → (stepAt dis limit excl n s i j).pid.getD a 0 = -1) := by
  have hne := ne_ij hi hk hin hjn hci hsi hcj
  simp only [conn_get hi hk hin hjn hci hsi hcj, pid_get hi hk hin hjn hci hsi hcj,
    acc_get hi hk hin hjn hci hsi hcj]
  constructor
  · intro hc
    by_cases haj : a = j
    · subst haj
      exact ⟨i, hin, by rw [if_pos rfl], Or.inr hci, by rw [if_pos rfl, if_neg hne]⟩
    · have hca : Conn s a := hc.resolve_left haj
      obtain ⟨p, hp, hpid, hcp, hacc⟩ := (hi.parent a ha ha0).1 hca
      have hpj : p ≠ j := by intro h; subst h; exact hcj hcp
      exact ⟨p, hp, by rw [if_neg haj]; exact hpid, Or.inr hcp, by rw [if_neg haj, if_neg hpj]; exact hacc⟩
  · intro hc
    have haj : a ≠ j := fun h => hc (Or.inl h)
    have hca : ¬ Conn s a := fun h => hc (Or.inr h)
    rw [if_neg haj]
    exact (hi.parent a ha ha0).2 hca

private theorem up_congr : ∀ d a, a < n → Conn s a → up (stepAt dis limit excl n s i j) d a = up s d a := by
  intro d
  induction d with
  | zero => intro a _ _; rfl
  | succ d ih =>
    intro a ha hc
    have haj : a ≠ j := by intro h; subst h; exact hcj hc
    by_cases ha0 : a = 0
    · subst ha0
      rw [up_root hi, up_succ, pid_get hi hk hin hjn hci hsi hcj, if_neg haj,
        getD_dflt s.pid 0 (-1) 0 (by have := hi.len.1; omega), hi.root.2.1]
      simp
    · obtain ⟨p, hp, hcp, hpid, hstep⟩ := up_step hi a ha hc ha0
      rw [hstep d, up_succ, pid_get hi hk hin hjn hci hsi hcj, if_neg haj, hpid, if_neg (by omega)]
      simpa using ih p hp hcp

private theorem step_reach (a : Nat) (ha : a < n) (hc : Conn (stepAt dis limit excl n s i j) a) :
    ∃ d, d ≤ n ∧ up (stepAt dis limit excl n s i j) d a = 0 := by
  rw [conn_get hi hk hin hjn hci hsi hcj] at hc
  by_cases haj : a = j
  · subst haj
    obtain ⟨d, hd, hu⟩ := short_reach hi i hin hci a hjn hcj
    refine ⟨d + 1, by omega, ?_⟩
    rw [up_succ, pid_get hi hk hin hjn hci hsi hcj, if_pos rfl, if_neg (by omega)]
    simpa [up_congr hi hk hin hjn hci hsi hcj d i hin hci] using hu
  · have hca : Conn s a := hc.resolve_left haj
    obtain ⟨d, hd, hu⟩ := hi.reach a ha hca
    exact ⟨d, hd, by rw [up_congr hi hk hin hjn hci hsi hcj d a ha hca]; exact hu⟩

private theorem step_fresh : ∃ a, a < n ∧ Conn (stepAt dis limit excl n s i j) a ∧
    (stepAt dis limit excl n s i j).furc.getD a 0 = 0 := by
  have hne := ne_ij hi hk hin hjn hci hsi hcj
  refine ⟨j, hjn, (conn_get hi hk hin hjn hci hsi hcj j).mpr (Or.inl rfl), ?_⟩
  rw [furc_get hi hk hin hjn hci hsi hcj, if_neg (Ne.symm hne)]
  exact furc_j hi hk hin hjn hci hsi hcj

private theorem step_count (a : Nat) (ha : a < n) :
    (stepAt dis limit excl n s i j).furc.getD a 0 = children (stepAt dis limit excl n s i j) a ∧
    (∀ k, limit = some k → 1 ≤ k → (excl = false ∨ a ≠ 0) → (stepAt dis limit excl n s i j).furc.getD a 0 ≤ k) := by
  have hch : children (stepAt dis limit excl n s i j) a = children s a + if a = i then 1 else 0 := by
    show ((s.pid.set j (i : Int)).filter (· = (a : Int))).length = _
    rw [count_set_new s.pid j i a (by have := hi.len.1; omega)
      (by
        have := (hi.parent j hjn (j_ne_zero hi hk hin hjn hci hsi hcj)).2 hcj
        rw [this]; omega)]
    unfold children
    by_cases h : a = i
    · subst h; simp
    · have : ¬ ((i : Int) = (a : Int)) := by omega
      simp [h, this]
  rw [furc_get hi hk hin hjn hci hsi hcj, hch]
  by_cases h : a = i
  · subst h
    rw [if_pos rfl, if_pos rfl]
    refine ⟨by rw [(hi.count a ha).1], ?_⟩
    intro k hl h1 hex
    by_contra hc
    exact hsi ⟨k, hl, by omega, hex⟩
  · rw [if_neg h, if_neg h]
    exact ⟨by rw [(hi.count a ha).1]; rfl, (hi.count a ha).2⟩

private theorem step_nconn : nconn (stepAt dis limit excl n s i j) = nconn s + 1 := by
  show ((s.conn.set j true).filter id).length = _
  apply filter_set_true s.conn j (by have := hi.len.2.2.2.1; omega)
  simpa [Conn] using hcj

private theorem stepAt_inv : Inv dis n limit excl (stepAt dis limit excl n s i j) :=
  ⟨step_len hi hk hin hjn hci hsi hcj, step_root hi hk hin hjn hci hsi hcj,
   step_mask hi hk hin hjn hci hsi hcj, step_parent hi hk hin hjn hci hsi hcj,
   step_reach hi hk hin hjn hci hsi hcj, step_fresh hi hk hin hjn hci hsi hcj,
   step_count hi hk hin hjn hci hsi hcj⟩

end dynamic2


/-- the invariant is preserved, and one more point gets connected -/
theorem step_inv (dis : List (List Rat)) (bf : Rat) (n : Nat) (limit : Option Nat) (excl : Bool) (s : St)
    (hi : Inv dis n limit excl s) (hk : ∀ k, limit = some k → 1 ≤ k) (hmore : nconn s < n) (hpos : 0 < nconn s) :
    Inv dis n limit excl (step dis bf limit excl n s) ∧ nconn (step dis bf limit excl n s) = nconn s + 1 := by
  obtain ⟨h1, h2, h3, _⟩ := greedy_step dis bf n limit excl s hi hk hmore hpos
  obtain ⟨hci, hsi, hcj⟩ := (hi.mask _ _ h1 h2).mp h3
  rw [step_eq]
  exact ⟨stepAt_inv hi hk h1 h2 hci hsi hcj, step_nconn hi hk h1 h2 hci hsi hcj⟩

private theorem run_inv (dis : List (List Rat)) (bf : Rat) (n : Nat) (limit : Option Nat) (excl : Bool)
    (hk : ∀ k, limit = some k → 1 ≤ k) :
    ∀ (m : Nat) (s : St), Inv dis n limit excl s → 0 < nconn s → nconn s + m ≤ n →
      Inv dis n limit excl (run dis bf limit excl n m s) ∧ nconn (run dis bf limit excl n m s) = nconn s + m := by
  intro m
  induction m with
  | zero => intro s hi _ _; exact ⟨hi, rfl⟩
  | succ m ih =>
    intro s hi hpos hle
    obtain ⟨h1, h2⟩ := step_inv dis bf n limit excl s hi hk (by omega) hpos
    obtain ⟨h3, h4⟩ := ih _ h1 (by omega) (by omega)
    exact ⟨h3, by rw [run, h4, h2]; omega⟩

private theorem nconn_init (n : Nat) (hn : 0 < n) : nconn (init n) = 1 :=
  filter_id_range_eq_zero n hn

private theorem final_inv (dis : List (List Rat)) (bf : Rat) (n : Nat) (hn : 0 < n) (limit : Option Nat) (excl : Bool)
    (hk : ∀ k, limit = some k → 1 ≤ k) :
    Inv dis n limit excl (run dis bf limit excl n (n - 1) (init n)) ∧
      nconn (run dis bf limit excl n (n - 1) (init n)) = n := by
  have h0 := nconn_init n hn
  obtain ⟨h1, h2⟩ := run_inv dis bf n limit excl hk (n - 1) (init n) (init_inv dis n hn limit excl hk)
    (by omega) (by omega)
  exact ⟨h1, by omega⟩

/-- **a single tree containing every point exactly once, rooted at the first point**: after `n - 1`
iterations every point is connected, has one parent (point 0 none) and reaches point 0 -/
theorem spanning (dis : List (List Rat)) (bf : Rat) (n : Nat) (hn : 0 < n) (limit : Option Nat) (excl : Bool)
    (hk : ∀ k, limit = some k → 1 ≤ k) :
    let s := run dis bf limit excl n (n - 1) (init n)
    Inv dis n limit excl s ∧ (∀ j, j < n → Conn s j) ∧
    s.pid.getD 0 0 = -1 ∧ (∀ j, j < n → j ≠ 0 → ∃ i, i < n ∧ s.pid.getD j 0 = (i : Int)) ∧
    (∀ j, j < n → ∃ d, d ≤ n ∧ up s d j = 0) := by
  intro s
  obtain ⟨hi, hc⟩ := final_inv dis bf n hn limit excl hk
  have hall : ∀ j, j < n → Conn s j := by
    intro j hj
    have hlen : s.conn.length = n := hi.len.2.2.2.1
    exact all_true_of_filter_eq s.conn (by rw [hlen]; exact hc) j (by omega)
  refine ⟨hi, hall, hi.root.2.1, ?_, fun j hj => hi.reach j hj (hall j hj)⟩
  intro j hj hj0
  obtain ⟨p, hp, hpid, _⟩ := (hi.parent j hj hj0).1 (hall j hj)
  exact ⟨p, hp, hpid⟩

/-- **with a branching limit `k` no node other than the (optionally exempt) root gets more than `k` children** -/
theorem branching_limit (dis : List (List Rat)) (bf : Rat) (n : Nat) (hn : 0 < n) (k : Nat) (hk : 1 ≤ k) (excl : Bool)
    (i : Nat) (hi : i < n) (hex : excl = false ∨ i ≠ 0) :
    children (run dis bf (some k) excl n (n - 1) (init n)) i ≤ k := by
  have hk' : ∀ k', some k = some k' → 1 ≤ k' := by intro k' h; cases h; exact hk
  obtain ⟨hinv, _⟩ := final_inv dis bf n hn (some k) excl hk'
  have := hinv.count i hi
  rw [← this.1]
  exact this.2 k rfl hk hex

/-- **Prim's step**: without balancing factor and without limit the chosen edge is a lightest edge between
the connected and the unconnected points (the cut property; `prim_minimal` below carries it through the whole
loop by the exchange argument) -/
theorem prim_step (dis : List (List Rat)) (n : Nat) (excl : Bool) (s : St)
    (hi : Inv dis n none excl s) (hmore : nconn s < n) (hpos : 0 < nconn s) :
    let ij := argmin dis 0 s n
    Conn s ij.1 ∧ ¬ Conn s ij.2 ∧
    ∀ i j, i < n → j < n → Conn s i → ¬ Conn s j →
      (dis.getD ij.1 []).getD ij.2 0 ≤ (dis.getD i []).getD j 0 := by
  have hk : ∀ k, (none : Option Nat) = some k → 1 ≤ k := by intro k h; cases h
  obtain ⟨h1, h2, h3, h4⟩ := greedy_step dis 0 n none excl s hi hk hmore hpos
  have hns : ∀ i, ¬ Saturated none excl s i := by rintro i ⟨k, h, _⟩; cases h
  have ho := (hi.mask _ _ h1 h2).mp h3
  refine ⟨ho.1, ho.2.2, ?_⟩
  intro i j hin hjn hci hcj
  have := h4 i j hin hjn ((hi.mask i j hin hjn).mpr ⟨hci, hns i, hcj⟩)
  simpa [cellCost] using this

/-! ### Prim's algorithm returns a minimum spanning tree (the exchange argument) -/
open Relation Graph

/-- entry `(a, b)` of the distance matrix -/
def dist (dis : List (List Rat)) (a b : Nat) : Rat := (dis.getD a []).getD b 0

/-- total length of a list of edges -/
def wL (dis : List (List Rat)) (R : List (Nat × Nat)) : Rat := (R.map fun f => dist dis f.1 f.2).sum

/-- total length of the edges `(pid[j], j)` chosen so far -/
def treeLength (dis : List (List Rat)) (n : Nat) (s : St) : Rat :=
  ((List.range n).map fun j =>
    if s.pid.getD j (-1) = -1 then 0 else dist dis (s.pid.getD j (-1)).toNat j).sum

/-- the edges chosen so far, as an undirected adjacency relation -/
def adjS (s : St) (x y : Nat) : Prop := s.pid.getD y (-1) = (x : Int) ∨ s.pid.getD x (-1) = (y : Int)

theorem adjS_symm {s : St} {x y : Nat} (h : adjS s x y) : adjS s y x := h.symm

/-- every point below `n` can be reached from point 0 along the edges of the list -/
def Spans (n : Nat) (E : List (Nat × Nat)) : Prop :=
  (∀ f ∈ E, f.1 < n ∧ f.2 < n) ∧ ∀ v, v < n → ReflTransGen (adjL E) 0 v

private theorem sum_map_update (l : List Nat) (f g : Nat → Rat) (j : Nat) (hnd : l.Nodup) (hj : j ∈ l)
    (h : ∀ a, a ≠ j → g a = f a) : (l.map g).sum = (l.map f).sum + (g j - f j) := by
  induction l with
  | nil => simp at hj
  | cons x l ih =>
    have hx : x ∉ l := (List.nodup_cons.mp hnd).1
    have hl : l.Nodup := (List.nodup_cons.mp hnd).2
    simp only [List.map_cons, List.sum_cons]
    by_cases hxj : x = j
    · subst hxj
      have : l.map g = l.map f := List.map_congr_left (fun a ha => h a (fun e => hx (e ▸ ha)))
      rw [this]; ring
    · have hj' : j ∈ l := by
        rcases List.mem_cons.mp hj with e | e
        · exact absurd e.symm hxj
        · exact e
      rw [ih hl hj', h x hxj]; ring

private theorem wL_erase (dis : List (List Rat)) (R : List (Nat × Nat)) (f : Nat × Nat) (hf : f ∈ R) :
    wL dis R = dist dis f.1 f.2 + wL dis (R.erase f) := by
  unfold wL
  have := (List.perm_cons_erase hf).map (fun f => dist dis f.1 f.2)
  rw [this.sum_eq]; simp

private theorem wL_nonneg (dis : List (List Rat)) (n : Nat) (R : List (Nat × Nat))
    (hR : ∀ f ∈ R, f.1 < n ∧ f.2 < n) (hnn : ∀ a b, a < n → b < n → 0 ≤ dist dis a b) : 0 ≤ wL dis R := by
  unfold wL
  apply List.sum_nonneg
  intro x hx
  obtain ⟨f, hf, rfl⟩ := List.mem_map.mp hx
  exact hnn _ _ (hR f hf).1 (hR f hf).2

/-- the second loop invariant: the edges chosen so far can be completed — by edges `R` taken from the
competitor `E` — to a connected spanning graph that is no longer than `E` -/
def Opt (dis : List (List Rat)) (n : Nat) (E : List (Nat × Nat)) (s : St) : Prop :=
  ∃ R : List (Nat × Nat), (∀ f ∈ R, f.1 < n ∧ f.2 < n) ∧
    (∀ v, v < n → ReflTransGen (Adj (adjS s) R) 0 v) ∧ treeLength dis n s + wL dis R ≤ wL dis E

private theorem pid_dflt {dis : List (List Rat)} {n : Nat} {limit : Option Nat} {excl : Bool} {s : St}
    (hi : Inv dis n limit excl s) (a : Nat) (ha : a < n) : s.pid.getD a (-1) = s.pid.getD a 0 :=
  getD_dflt s.pid a (-1) 0 (by have := hi.len.1; omega)

/-- a chosen edge joins two connected points -/
private theorem adjS_conn {dis : List (List Rat)} {n : Nat} {limit : Option Nat} {excl : Bool} {s : St}
    (hi : Inv dis n limit excl s) : ∀ x y, adjS s x y → (x < n ∧ Conn s x) ∧ (y < n ∧ Conn s y) := by
  have key : ∀ x y : Nat, s.pid.getD y (-1) = (x : Int) → (x < n ∧ Conn s x) ∧ (y < n ∧ Conn s y) := by
    intro x y h
    have hy : y < n := by
      by_contra hge
      have : s.pid.getD y (-1) = -1 := by
        rw [List.getD_eq_getElem?_getD, List.getElem?_eq_none (by have := hi.len.1; omega)]; rfl
      omega
    rw [pid_dflt hi y hy] at h
    have hy0 : y ≠ 0 := by
      intro e; subst e; rw [hi.root.2.1] at h; omega
    have hcy : Conn s y := by
      by_contra hc
      rw [(hi.parent y hy hy0).2 hc] at h; omega
    obtain ⟨p, hp, hpid, hcp, _⟩ := (hi.parent y hy hy0).1 hcy
    have : p = x := by omega
    subst this
    exact ⟨⟨hp, hcp⟩, hy, hcy⟩
  intro x y h
  rcases h with h | h
  · exact key x y h
  · exact (key y x h).symm

private theorem opt_init (dis : List (List Rat)) (n : Nat) (hn : 0 < n) (E : List (Nat × Nat)) (hE : Spans n E) :
    Opt dis n E (init n) := by
  refine ⟨E, hE.1, fun v hv => rtg_mono (fun x y h => Or.inr h) (hE.2 v hv), ?_⟩
  have : treeLength dis n (init n) = 0 := by
    unfold treeLength
    apply List.sum_eq_zero
    intro x hx
    obtain ⟨j, hj, rfl⟩ := List.mem_map.mp hx
    have hj' : j < n := List.mem_range.mp hj
    have : (init n).pid.getD j (-1) = -1 := getD_replicate n j (-1 : Int) (-1) hj'
    rw [if_pos this]
  rw [this]; simp

/-- **one Prim step keeps the completion invariant** (exchange argument) -/
private theorem opt_step (dis : List (List Rat)) (n : Nat) (excl : Bool) (E : List (Nat × Nat)) (s : St)
    (hsym : ∀ a b, a < n → b < n → dist dis a b = dist dis b a)
    (hi : Inv dis n none excl s) (hmore : nconn s < n) (hpos : 0 < nconn s) (ho : Opt dis n E s) :
    Opt dis n E (step dis 0 none excl n s) := by
  have hk : ∀ k, (none : Option Nat) = some k → 1 ≤ k := by intro k h; cases h
  obtain ⟨hin, hjn, hopen, _⟩ := greedy_step dis 0 n none excl s hi hk hmore hpos
  obtain ⟨hci, hcj, hmin⟩ := prim_step dis n excl s hi hmore hpos
  obtain ⟨_, hsi, _⟩ := (hi.mask _ _ hin hjn).mp hopen
  rw [step_eq]
  generalize (argmin dis 0 s n).1 = i at *
  generalize (argmin dis 0 s n).2 = j at *
  obtain ⟨R, hR, hconn, hw⟩ := ho
  let S : Nat → Prop := fun x => x < n ∧ Conn s x
  have hBS : ∀ x y, adjS s x y → S x ∧ S y := adjS_conn hi
  have hAsymm : ∀ x y, Adj (adjS s) R x y → Adj (adjS s) R y x := fun x y h => Adj_symm (fun _ _ h => adjS_symm h) h
  have hij : ReflTransGen (Adj (adjS s) R) i j := (rtg_symm hAsymm (hconn i hin)).trans (hconn j hjn)
  obtain ⟨f, hfR, a, b, hfab, ha, hb, hia, hbj⟩ :=
    exists_exchange (adjS s) S hBS R.length R rfl i j ⟨hin, hci⟩ (fun h => hcj h.2) hij
  have hfr := hR f hfR
  have han : a < n := ha.1
  have hbn : b < n := by rcases hfab with rfl | rfl <;> simp at hfr <;> omega
  have hcb : ¬ Conn s b := fun h => hb ⟨hbn, h⟩
  -- the new edge is no longer than the one it replaces
  have hle : dist dis i j ≤ dist dis f.1 f.2 := by
    have := hmin a b han hbn ha.2 hcb
    rcases hfab with rfl | rfl
    · exact this
    · show dist dis i j ≤ dist dis b a
      rw [hsym b a hbn han]; exact this
  set s' := stepAt dis none excl n s i j with hs'
  have hpid' : ∀ x, s'.pid.getD x (-1) = if x = j then (i : Int) else s.pid.getD x (-1) :=
    fun x => pid_get hi hk hin hjn hci hsi hcj x (-1)
  have hpj : s.pid.getD j (-1) = -1 := by
    rw [pid_dflt hi j hjn]
    have hj0 : j ≠ 0 := fun e => hcj (e ▸ hi.root.1)
    exact (hi.parent j hjn hj0).2 hcj
  -- old edges stay, and the new one is there
  have hold : ∀ x y, adjS s x y → adjS s' x y := by
    intro x y h
    have hxy := hBS x y h
    have hxj : x ≠ j := fun e => hcj (e ▸ hxy.1.2)
    have hyj : y ≠ j := fun e => hcj (e ▸ hxy.2.2)
    unfold adjS
    rw [hpid' x, hpid' y, if_neg hxj, if_neg hyj]
    exact h
  have hnew : adjS s' i j := Or.inl (by rw [hpid' j, if_pos rfl])
  refine ⟨R.erase f, fun g hg => hR g (List.mem_of_mem_erase hg), ?_, ?_⟩
  · -- still connected
    have hsub : ∀ x y, Adj (adjS s) (R.erase f) x y → Adj (adjS s') (R.erase f) x y :=
      fun x y h => h.elim (fun h => Or.inl (hold x y h)) Or.inr
    have hA'symm : ∀ x y, Adj (adjS s') (R.erase f) x y → Adj (adjS s') (R.erase f) y x :=
      fun x y h => Adj_symm (fun _ _ h => adjS_symm h) h
    have hab : ReflTransGen (Adj (adjS s') (R.erase f)) a b :=
      ((rtg_symm hA'symm (rtg_mono hsub hia)).tail (Or.inl hnew)).trans (rtg_symm hA'symm (rtg_mono hsub hbj))
    have hstep : ∀ x y, Adj (adjS s) R x y →
        Adj (adjS s') (R.erase f) x y ∨ (x = a ∧ y = b) ∨ (x = b ∧ y = a) := by
      intro x y hxy
      rcases hxy with hxy | hxy
      · exact Or.inl (Or.inl (hold x y hxy))
      · rcases adjL_erase (f := f) hxy with h' | h' | h'
        · exact Or.inl (Or.inr h')
        · rcases hfab with rfl | rfl
          · exact Or.inr (Or.inl h')
          · exact Or.inr (Or.inr h')
        · rcases hfab with rfl | rfl
          · exact Or.inr (Or.inr h')
          · exact Or.inr (Or.inl h')
    intro v hv
    rcases walk_erase hstep (hconn v hv) with h1 | ⟨h1, h2⟩ | ⟨h1, h2⟩
    · exact h1
    · exact (h1.trans hab).trans h2
    · exact (h1.trans (rtg_symm hA'symm hab)).trans h2
  · -- and not longer
    have hW : treeLength dis n s' = treeLength dis n s + dist dis i j := by
      unfold treeLength
      have := sum_map_update (List.range n)
        (fun x => if s.pid.getD x (-1) = -1 then 0 else dist dis (s.pid.getD x (-1)).toNat x)
        (fun x => if s'.pid.getD x (-1) = -1 then 0 else dist dis (s'.pid.getD x (-1)).toNat x)
        j List.nodup_range (List.mem_range.mpr hjn) (by intro x hx; simp only [hpid' x, if_neg hx])
      rw [this]
      simp only [hpid' j, if_pos rfl, hpj]
      have hne : ¬ ((i : Int) = -1) := by omega
      simp [hne]
    rw [hW]
    have := wL_erase dis R f hfR
    linarith

private theorem opt_run (dis : List (List Rat)) (n : Nat) (excl : Bool) (E : List (Nat × Nat))
    (hsym : ∀ a b, a < n → b < n → dist dis a b = dist dis b a) :
    ∀ (m : Nat) (s : St), Inv dis n none excl s → 0 < nconn s → nconn s + m ≤ n → Opt dis n E s →
      Opt dis n E (run dis 0 none excl n m s) := by
  have hk : ∀ k, (none : Option Nat) = some k → 1 ≤ k := by intro k h; cases h
  intro m
  induction m with
  | zero => intro s _ _ _ ho; exact ho
  | succ m ih =>
    intro s hi hpos hle ho
    obtain ⟨h1, h2⟩ := step_inv dis 0 n none excl s hi hk (by omega) hpos
    exact ih _ h1 (by omega) (by omega) (opt_step dis n excl E s hsym hi (by omega) hpos ho)

/-- **without a balancing factor and without a branching limit the tree is a minimum spanning tree**:
for a symmetric, non-negative distance matrix, the total length of the edges `(pid[j], j)` the loop
returns is at most the total length of *any* edge list that connects all the points (in particular of
any spanning tree) -/
theorem prim_minimal (dis : List (List Rat)) (n : Nat) (hn : 0 < n) (excl : Bool)
    (hsym : ∀ a b, a < n → b < n → dist dis a b = dist dis b a)
    (hnn : ∀ a b, a < n → b < n → 0 ≤ dist dis a b)
    (E : List (Nat × Nat)) (hE : Spans n E) :
    treeLength dis n (run dis 0 none excl n (n - 1) (init n)) ≤ wL dis E := by
  have hk : ∀ k, (none : Option Nat) = some k → 1 ≤ k := by intro k h; cases h
  have h0 := nconn_init n hn
  obtain ⟨R, hR, _, hw⟩ := opt_run dis n excl E hsym (n - 1) (init n) (init_inv dis n hn none excl hk)
    (by omega) (by omega) (opt_init dis n hn E hE)
  have := wL_nonneg dis n R hR hnn
  linarith

/-- the edges `(pid[j], j)` of a state, as a list -/
def edgesOf (n : Nat) (s : St) : List (Nat × Nat) :=
  (List.range n).filterMap fun j =>
    if s.pid.getD j (-1) = -1 then none else some ((s.pid.getD j (-1)).toNat, j)

theorem wL_edgesOf (dis : List (List Rat)) (n : Nat) (s : St) : wL dis (edgesOf n s) = treeLength dis n s := by
  unfold wL edgesOf treeLength
  induction List.range n with
  | nil => rfl
  | cons j l ih =>
    by_cases h : s.pid.getD j (-1) = -1
    · simp only [List.filterMap_cons, h, if_true, List.map_cons, List.sum_cons, zero_add]
      exact ih
    · simp only [List.filterMap_cons, h, if_false, List.map_cons, List.sum_cons]
      rw [ih]

/-- **the returned tree is itself one of the competitors**: its edge list connects all the points and has
the length `treeLength` — so `prim_minimal` says its length *equals* the minimum over all spanning edge lists -/
theorem prim_attains (dis : List (List Rat)) (bf : Rat) (n : Nat) (hn : 0 < n) (limit : Option Nat) (excl : Bool)
    (hk : ∀ k, limit = some k → 1 ≤ k) :
    let s := run dis bf limit excl n (n - 1) (init n)
    Spans n (edgesOf n s) ∧ wL dis (edgesOf n s) = treeLength dis n s ∧ (edgesOf n s).length = n - 1 := by
  intro s
  obtain ⟨hinv, _, hroot, hpar, hreach⟩ := spanning dis bf n hn limit excl hk
  change Inv dis n limit excl s at hinv
  change s.pid.getD 0 0 = -1 at hroot
  change ∀ j, j < n → j ≠ 0 → ∃ i, i < n ∧ s.pid.getD j 0 = (i : Int) at hpar
  change ∀ j, j < n → ∃ d, d ≤ n ∧ up s d j = 0 at hreach
  have hedge : ∀ j, j < n → j ≠ 0 → ∃ i, i < n ∧ s.pid.getD j (-1) = (i : Int) ∧ (i, j) ∈ edgesOf n s := by
    intro j hj hj0
    obtain ⟨i, hi, hp⟩ := hpar j hj hj0
    have hp' : s.pid.getD j (-1) = (i : Int) := by rw [pid_dflt hinv j hj, hp]
    refine ⟨i, hi, hp', ?_⟩
    unfold edgesOf
    rw [List.mem_filterMap]
    refine ⟨j, List.mem_range.mpr hj, ?_⟩
    rw [hp', if_neg (by omega)]
    simp
  refine ⟨⟨?_, ?_⟩, wL_edgesOf dis n s, ?_⟩
  · intro f hf
    unfold edgesOf at hf
    rw [List.mem_filterMap] at hf
    obtain ⟨j, hj, hfj⟩ := hf
    have hj' : j < n := List.mem_range.mp hj
    by_cases h0 : j = 0
    · subst h0
      rw [pid_dflt hinv 0 hn, hroot] at hfj
      simp at hfj
    · obtain ⟨i, hi, hp, _⟩ := hedge j hj' h0
      rw [hp, if_neg (by omega)] at hfj
      simp at hfj
      subst hfj
      exact ⟨hi, hj'⟩
  · have key : ∀ d j, j < n → up s d j = 0 → ReflTransGen (adjL (edgesOf n s)) j 0 := by
      intro d
      induction d with
      | zero =>
        intro j _ h
        have : j = 0 := by simpa [up] using h
        subst this; exact ReflTransGen.refl
      | succ d ih =>
        intro j hj h
        by_cases h0 : j = 0
        · subst h0; exact ReflTransGen.refl
        · obtain ⟨i, hi, hp, hmem⟩ := hedge j hj h0
          rw [up_succ, hp, if_neg (by omega)] at h
          simp at h
          exact ReflTransGen.head (Or.inr hmem) (ih i hi h)
    intro v hv
    obtain ⟨d, _, hd⟩ := hreach v hv
    exact rtg_symm (fun _ _ h => adjL_symm h) (key d v hv hd)
  · -- one edge per point other than the root
    unfold edgesOf
    have hcount : ∀ l : List Nat, (∀ j ∈ l, j < n) → l.Nodup →
        (l.filterMap fun j => if s.pid.getD j (-1) = -1 then none
          else some ((s.pid.getD j (-1)).toNat, j)).length = (l.filter (· ≠ 0)).length := by
      intro l
      induction l with
      | nil => intro _ _; rfl
      | cons j l ih =>
        intro hl hnd
        have hj : j < n := hl j (List.mem_cons_self)
        have ih' := ih (fun x hx => hl x (List.mem_cons_of_mem _ hx)) (List.nodup_cons.mp hnd).2
        by_cases h0 : j = 0
        · subst h0
          have : s.pid.getD 0 (-1) = -1 := by rw [pid_dflt hinv 0 hn, hroot]
          simp only [List.filterMap_cons, this, if_true]
          rw [ih']; simp
        · obtain ⟨i, _, hp, _⟩ := hedge j hj h0
          have hne : ¬ (s.pid.getD j (-1) = -1) := by rw [hp]; omega
          simp only [List.filterMap_cons, hne, if_false, List.length_cons]
          rw [ih']; simp [h0]
    rw [hcount (List.range n) (fun j hj => List.mem_range.mp hj) List.nodup_range]
    have : (List.range n).filter (· ≠ 0) = (List.range (n - 1)).map (· + 1) := by
      obtain ⟨m, rfl⟩ : ∃ m, n = m + 1 := ⟨n - 1, by omega⟩
      rw [List.range_succ_eq_map]
      simp [List.filter_map, Function.comp_def]
    rw [this]; simp

-- non-vacuity / concrete behaviour: 4 points on a line at 0, 10, 11, 1
def exDis : List (List Rat) := [[0, 10, 11, 1], [10, 0, 1, 9], [11, 1, 0, 10], [1, 9, 10, 0]]
example : mst exDis 0 none true = [-1, 3, 1, 0] := by decide +kernel
example : mst exDis 1 none true = [-1, 0, 0, 0] := by decide +kernel
example : mst exDis 0 (some 1) false = [-1, 3, 1, 0] := by decide +kernel
-- `prim_minimal` / `prim_attains` are not vacuous: the example matrix is symmetric and non-negative, the star
-- at point 0 is a competitor of length 22, and the loop's tree has length 11
example : (∀ a, a < 4 → ∀ b, b < 4 → dist exDis a b = dist exDis b a ∧ 0 ≤ dist exDis a b) := by decide +kernel
private theorem ex_pid : (run exDis 0 none true 4 3 (init 4)).pid = [-1, 3, 1, 0] := by decide +kernel
example : treeLength exDis 4 (run exDis 0 none true 4 3 (init 4)) = 11 ∧ wL exDis [(0, 1), (0, 2), (0, 3)] = 22 := by
  refine ⟨?_, by decide +kernel⟩
  unfold treeLength
  rw [ex_pid]
  have h3 : Int.toNat 3 = 3 := rfl
  have h1 : Int.toNat 1 = 1 := rfl
  have h0 : Int.toNat 0 = 0 := rfl
  norm_num [dist, exDis, List.range, List.range.loop, h3, h1, h0]
example : edgesOf 4 (run exDis 0 none true 4 3 (init 4)) = [(3, 1), (1, 2), (0, 3)] := by decide +kernel

end C17
