import SwcVerif.Model.Mst
import SwcVerif.Proofs.Mst
import Mathlib.Algebra.Order.Field.Rat
import Mathlib.Tactic.Linarith
/-! # C17 — point-cloud tree construction yields the intended spanning tree

Theorems about the model `Mst.step` / `Mst.run` of the greedy loop of `PointsToCuntzMST.__call__`
(tied to the code by the `c17.mst` correspondence on the code's own distance matrix). `dis` is any
`n × n` matrix of rationals, `bf` the balancing factor, `limit` the branching limit (`none` = `-1`). -/
set_option linter.unusedSectionVars false
set_option linter.unusedVariables false
namespace C17
open Mst

/-- the cell `(i, j)` is not masked -/
def Open (s : St) (i j : Nat) : Prop := (s.mask.getD i []).getD j true = false
def Conn (s : St) (i : Nat) : Prop := s.conn.getD i false = true

/-- the point already has as many children as the limit allows (and is not the exempt root) -/
def Saturated (limit : Option Nat) (excl : Bool) (s : St) (i : Nat) : Prop :=
  ∃ k, limit = some k ∧ k ≤ s.furc.getD i 0 ∧ (excl = false ∨ i ≠ 0)

/-- number of points whose parent is `i` -/
def children (s : St) (i : Nat) : Nat := (s.pid.filter (· = (i : Int))).length

/-- following parents `d` times -/
def up (s : St) : Nat → Nat → Int
  | 0, j => j
  | d+1, j => match s.pid.getD j (-1) with
    | -1 => -1
    | p => up s d p.toNat

/-- **the loop invariant** -/
structure Inv (dis : List (List Rat)) (n : Nat) (limit : Option Nat) (excl : Bool) (s : St) : Prop where
  len : s.pid.length = n ∧ s.acc.length = n ∧ s.furc.length = n ∧ s.conn.length = n ∧ s.mask.length = n ∧ ∀ r ∈ s.mask, r.length = n
  root : Conn s 0 ∧ s.pid.getD 0 0 = -1 ∧ s.acc.getD 0 1 = 0
  /-- open cells are exactly: connected, unsaturated source × not yet connected target -/
  mask : ∀ i j, i < n → j < n → (Open s i j ↔ (Conn s i ∧ ¬ Saturated limit excl s i ∧ ¬ Conn s j))
  /-- a connected point hangs from a connected point; an unconnected one has no parent yet -/
  parent : ∀ j, j < n → j ≠ 0 →
    (Conn s j → ∃ i, i < n ∧ s.pid.getD j 0 = (i : Int) ∧ Conn s i ∧ s.acc.getD j 0 = s.acc.getD i 0 + (dis.getD i []).getD j 0) ∧
    (¬ Conn s j → s.pid.getD j 0 = -1)
  /-- every connected point reaches point 0 by following parents -/
  reach : ∀ j, j < n → Conn s j → ∃ d, d ≤ n ∧ up s d j = 0
  /-- the most recently connected point has no children yet (so it can always take the next one) -/
  fresh : ∃ i, i < n ∧ Conn s i ∧ s.furc.getD i 0 = 0
  /-- `furcations[i]` counts the children, and never exceeds the limit for a non-exempt point -/
  count : ∀ i, i < n → s.furc.getD i 0 = children s i ∧
    (∀ k, limit = some k → 1 ≤ k → (excl = false ∨ i ≠ 0) → s.furc.getD i 0 ≤ k)

private theorem init_conn (n i : Nat) (h : i < n) : Conn (init n) i ↔ i = 0 := by
  show ((List.range n).map (· == 0)).getD i false = true ↔ i = 0
  rw [getD_range_map _ n i false h]; simp

theorem init_inv (dis : List (List Rat)) (n : Nat) (hn : 0 < n) (limit : Option Nat) (excl : Bool)
    (hk : ∀ k, limit = some k → 1 ≤ k) :
    Inv dis n limit excl (init n) := by
  have hfurc : ∀ i, i < n → (init n).furc.getD i 0 = 0 := fun i h =>
    getD_replicate n i 0 0 h
  have hpid : ∀ i, i < n → (init n).pid.getD i 0 = -1 := fun i h =>
    getD_replicate n i (-1 : Int) 0 h
  refine ⟨?_, ?_, ?_, ?_, ?_, ?_, ?_⟩
  · simp [init]
  · exact ⟨(init_conn n 0 hn).mpr rfl, hpid 0 hn, getD_replicate n 0 (0 : Rat) 1 hn⟩
  · intro i j hi hj
    have hsat : ¬ Saturated limit excl (init n) i := by
      rintro ⟨k, h1, h2, _⟩
      have := hk k h1
      rw [hfurc i hi] at h2; omega
    rw [init_conn n i hi, init_conn n j hj]
    have : Open (init n) i j ↔ (if i = 0 then j == 0 else true) = false := by
      unfold Open init
      simp only
      rw [getD_range_map _ n i [] hi, getD_range_map _ n j true hj]
    rw [this]
    by_cases h : i = 0
    · subst h; simp [hsat]
    · simp [h]
  · intro j hj hj0
    rw [init_conn n j hj]
    exact ⟨fun h => absurd h hj0, fun _ => hpid j hj⟩
  · intro j hj hc
    rw [init_conn n j hj] at hc
    subst hc
    exact ⟨0, Nat.zero_le _, rfl⟩
  · exact ⟨0, hn, (init_conn n 0 hn).mpr rfl, hfurc 0 hn⟩
  · intro i hi
    rw [hfurc i hi]
    refine ⟨?_, fun k _ _ _ => Nat.zero_le _⟩
    unfold children
    rw [filter_eq_zero]
    intro a ha
    have ha' : a < n := by simpa [init] using ha
    rw [hpid a ha']
    omega

/-- number of connected points -/
def nconn (s : St) : Nat := (s.conn.filter id).length

private theorem exists_open (dis : List (List Rat)) (n : Nat) (limit : Option Nat) (excl : Bool) (s : St)
    (hi : Inv dis n limit excl s) (hk : ∀ k, limit = some k → 1 ≤ k) (hmore : nconn s < n) :
    ∃ i j, i < n ∧ j < n ∧ Open s i j := by
  obtain ⟨i, hin, hci, hfi⟩ := hi.fresh
  have hlen := hi.len.2.2.2.1
  obtain ⟨j, hj, hcj⟩ := exists_false_of_filter_lt s.conn (by unfold nconn at hmore; omega)
  refine ⟨i, j, hin, by omega, (hi.mask i j hin (by omega)).mpr ⟨hci, ?_, ?_⟩⟩
  · rintro ⟨k, h1, h2, _⟩
    have := hk k h1
    omega
  · unfold Conn; rw [hcj]; simp

/-- **each new point is attached to the connected, unsaturated point that minimises edge length plus
`bf` × that point's path length** (ties: the first in row-major order) — whenever some point is still
unconnected, the chosen cell is open and no open cell is cheaper -/
theorem greedy_step (dis : List (List Rat)) (bf : Rat) (n : Nat) (limit : Option Nat) (excl : Bool) (s : St)
    (hi : Inv dis n limit excl s) (hk : ∀ k, limit = some k → 1 ≤ k) (hmore : nconn s < n) (hpos : 0 < nconn s) :
    let ij := argmin dis bf s n
    ij.1 < n ∧ ij.2 < n ∧ Open s ij.1 ij.2 ∧
    ∀ i j, i < n → j < n → Open s i j → cellCost dis bf s ij.1 ij.2 ≤ cellCost dis bf s i j := by
  exact argmin_spec dis bf s n (exists_open dis n limit excl s hi hk hmore)

/-! ### following parents -/
private theorem up_succ (s : St) (d j : Nat) :
    up s (d+1) j = if s.pid.getD j (-1) = -1 then -1 else up s d (s.pid.getD j (-1)).toNat := by
  rw [up]; split <;> simp_all

private theorem up_add (s : St) : ∀ (m a x : Nat), up s m a = (x : Int) → ∀ k, up s (m + k) a = up s k x := by
  intro m
  induction m with
  | zero =>
    intro a x h k
    have : a = x := by simpa [up] using h
    subst this; simp
  | succ m ih =>
    intro a x h k
    rw [up_succ] at h
    have e : m + 1 + k = (m + k) + 1 := by omega
    rw [e, up_succ]
    split at h
    · omega
    · rename_i hne
      rw [if_neg hne]
      exact ih _ x h k

section static
variable {dis : List (List Rat)} {n : Nat} {limit : Option Nat} {excl : Bool} {s : St}
  (hi : Inv dis n limit excl s)
include hi

private theorem up_root (d : Nat) : up s (d+1) 0 = -1 := by
  have h0 : 0 < n := by
    obtain ⟨i, h, _⟩ := hi.fresh; omega
  rw [up_succ, getD_dflt s.pid 0 (-1) 0 (by have := hi.len.1; omega), hi.root.2.1]; simp

private theorem up_step (a : Nat) (ha : a < n) (hc : Conn s a) (h0 : a ≠ 0) :
    ∃ p, p < n ∧ Conn s p ∧ s.pid.getD a (-1) = (p : Int) ∧ ∀ d, up s (d+1) a = up s d p := by
  obtain ⟨p, hp, hpid, hcp, _⟩ := (hi.parent a ha h0).1 hc
  have hpid' : s.pid.getD a (-1) = (p : Int) := by
    rw [getD_dflt s.pid a (-1) 0 (by have := hi.len.1; omega), hpid]
  refine ⟨p, hp, hcp, hpid', fun d => ?_⟩
  rw [up_succ, hpid', if_neg (by omega)]; simp

private theorem up_conn (a : Nat) (ha : a < n) (hc : Conn s a) :
    ∀ m, (∀ m', m' < m → up s m' a ≠ 0) → ∃ x, x < n ∧ Conn s x ∧ up s m a = (x : Int) := by
  intro m
  induction m with
  | zero => intro _; exact ⟨a, ha, hc, rfl⟩
  | succ m ih =>
    intro hmin
    obtain ⟨x, hx, hcx, hux⟩ := ih (fun m' h => hmin m' (by omega))
    have hx0 : x ≠ 0 := by
      intro h; subst h; exact hmin m (by omega) hux
    obtain ⟨p, hp, hcp, _, hstep⟩ := up_step hi x hx hcx hx0
    refine ⟨p, hp, hcp, ?_⟩
    rw [up_add s m a x hux 1, hstep 0]; rfl

/-- a connected point reaches the root in fewer steps than there are points besides an unconnected one -/
private theorem short_reach (a : Nat) (ha : a < n) (hc : Conn s a) (j : Nat) (hj : j < n) (hcj : ¬ Conn s j) :
    ∃ d, d + 2 ≤ n ∧ up s d a = 0 := by
  obtain ⟨d0, _, hd0⟩ := hi.reach a ha hc
  have hex : ∃ d, up s d a = 0 := ⟨d0, hd0⟩
  classical
  let d := Nat.find hex
  have hd : up s d a = 0 := Nat.find_spec hex
  have hmin : ∀ m, m < d → up s m a ≠ 0 := fun m hm => Nat.find_min hex hm
  refine ⟨d, ?_, hd⟩
  -- the chain a = x₀, x₁, …, x_d together with `j` are `d + 2` distinct points below `n`
  have hch : ∀ m, m ≤ d → ∃ x, x < n ∧ Conn s x ∧ up s m a = (x : Int) := fun m hm =>
    up_conn hi a ha hc m (fun m' h => hmin m' (by omega))
  have hinj : ∀ (m1 m2 x : Nat), m1 < m2 → m2 ≤ d → up s m1 a = (x : Int) → up s m2 a = (x : Int) → False := by
    intro m1 m2 x h12 h2 e1 e2
    have h3 := up_add s m2 a x e2 (d - m2)
    have h4 := up_add s m1 a x e1 (d - m2)
    have e : m2 + (d - m2) = d := by omega
    rw [e, hd] at h3
    exact hmin (m1 + (d - m2)) (by omega) (by rw [h4, ← h3])
  let f : Nat → Nat := fun k => if k = 0 then j else (up s (k - 1) a).toNat
  apply pigeon f (d + 2) n
  · intro k hk
    by_cases h : k = 0
    · simp [f, h, hj]
    · obtain ⟨x, hx, _, hux⟩ := hch (k - 1) (by omega)
      simp [f, h, hux, hx]
  · intro k1 k2 h1 h2 hf
    by_cases z1 : k1 = 0 <;> by_cases z2 : k2 = 0
    · omega
    · obtain ⟨x, hx, hcx, hux⟩ := hch (k2 - 1) (by omega)
      simp [f, z1, z2, hux] at hf
      subst hf; exact absurd hcx hcj
    · obtain ⟨x, hx, hcx, hux⟩ := hch (k1 - 1) (by omega)
      simp [f, z1, z2, hux] at hf
      subst hf; exact absurd hcx hcj
    · obtain ⟨x1, _, _, hu1⟩ := hch (k1 - 1) (by omega)
      obtain ⟨x2, _, _, hu2⟩ := hch (k2 - 1) (by omega)
      simp [f, z1, z2, hu1, hu2] at hf
      subst hf
      rcases Nat.lt_trichotomy (k1 - 1) (k2 - 1) with h | h | h
      · exact (hinj _ _ _ h (by omega) hu1 hu2).elim
      · omega
      · exact (hinj _ _ _ h (by omega) hu2 hu1).elim

/-- nobody hangs from an unconnected point -/
private theorem no_child (j : Nat) (hj : j < n) (hcj : ¬ Conn s j) : ∀ a, a < n → s.pid.getD a 0 ≠ (j : Int) := by
  intro a ha
  by_cases h0 : a = 0
  · subst h0; rw [hi.root.2.1]; omega
  · by_cases hc : Conn s a
    · obtain ⟨p, _, hpid, hcp, _⟩ := (hi.parent a ha h0).1 hc
      rw [hpid]
      intro h
      have : p = j := by omega
      subst this; exact hcj hcp
    · rw [(hi.parent a ha h0).2 hc]; omega

end static

/-! ### one step with a given open cell `(i, j)` -/
section dynamic
variable {dis : List (List Rat)} {n : Nat} {limit : Option Nat} {excl : Bool} {s : St} {i j : Nat}
  (hi : Inv dis n limit excl s) (hk : ∀ k, limit = some k → 1 ≤ k)
  (hin : i < n) (hjn : j < n) (hci : Conn s i) (hsi : ¬ Saturated limit excl s i) (hcj : ¬ Conn s j)
include hi hk hin hjn hci hsi hcj

private theorem ne_ij : i ≠ j := by
  intro h; subst h; exact hcj hci

private theorem pid_get (a : Nat) (d : Int) :
    (stepAt dis limit excl n s i j).pid.getD a d = if a = j then (i : Int) else s.pid.getD a d := by
  show (s.pid.set j (i : Int)).getD a d = _
  rw [getD_set]
  have := hi.len.1
  by_cases h : a = j
  · subst h; rw [if_pos ⟨rfl, by omega⟩, if_pos rfl]
  · rw [if_neg (fun h' => h h'.1.symm), if_neg h]

private theorem acc_get (a : Nat) (d : Rat) :
    (stepAt dis limit excl n s i j).acc.getD a d =
      if a = j then s.acc.getD i 0 + (dis.getD i []).getD j 0 else s.acc.getD a d := by
  show (s.acc.set j _).getD a d = _
  rw [getD_set]
  have := hi.len.2.1
  by_cases h : a = j
  · subst h; rw [if_pos ⟨rfl, by omega⟩, if_pos rfl]
  · rw [if_neg (fun h' => h h'.1.symm), if_neg h]

private theorem furc_get (a : Nat) :
    (stepAt dis limit excl n s i j).furc.getD a 0 = if a = i then s.furc.getD i 0 + 1 else s.furc.getD a 0 := by
  show (s.furc.set i _).getD a 0 = _
  rw [getD_set]
  have := hi.len.2.2.1
  by_cases h : a = i
  · subst h; rw [if_pos ⟨rfl, by omega⟩, if_pos rfl]
  · rw [if_neg (fun h' => h h'.1.symm), if_neg h]

private theorem conn_get (a : Nat) : Conn (stepAt dis limit excl n s i j) a ↔ a = j ∨ Conn s a := by
  show (s.conn.set j true).getD a false = true ↔ _
  rw [getD_set]
  have := hi.len.2.2.2.1
  by_cases h : a = j
  · subst h; rw [if_pos ⟨rfl, by omega⟩]; simp
  · rw [if_neg (fun h' => h h'.1.symm)]; simp [h, Conn]

private theorem sat_i : Saturated limit excl (stepAt dis limit excl n s i j) i ↔
    satFlag limit excl (s.furc.getD i 0 + 1) i = true := by
  rw [satFlag_iff]
  unfold Saturated
  rw [furc_get hi hk hin hjn hci hsi hcj i, if_pos rfl]

private theorem sat_other (a : Nat) (h : a ≠ i) :
    Saturated limit excl (stepAt dis limit excl n s i j) a ↔ Saturated limit excl s a := by
  unfold Saturated
  rw [furc_get hi hk hin hjn hci hsi hcj a, if_neg h]

private theorem furc_j : s.furc.getD j 0 = 0 := by
  rw [(hi.count j hjn).1]
  unfold children
  apply filter_eq_zero
  intro a ha
  exact no_child hi j hjn hcj a (by have := hi.len.1; omega)

private theorem mask1_square : Square n
    (if satFlag limit excl (s.furc.getD i 0 + 1) i then cross s.mask i (List.replicate n true) else s.mask) := by
  have hsq : Square n s.mask := ⟨hi.len.2.2.2.2.1, hi.len.2.2.2.2.2⟩
  split
  · exact cross_square i hsq (by simp)
  · exact hsq

private theorem mask_eq : (stepAt dis limit excl n s i j).mask =
    cross (if satFlag limit excl (s.furc.getD i 0 + 1) i then cross s.mask i (List.replicate n true) else s.mask)
      j (s.conn.set j true) := by
  have h := furc_get hi hk hin hjn hci hsi hcj i
  rw [if_pos rfl] at h
  show cross (if satFlag limit excl ((s.furc.set i (s.furc.getD i 0 + 1)).getD i 0) i then _ else _) j _ = _
  have h' : (s.furc.set i (s.furc.getD i 0 + 1)).getD i 0 = s.furc.getD i 0 + 1 := h
  rw [h']

private theorem open_get (a b : Nat) (ha : a < n) (hb : b < n) :
    Open (stepAt dis limit excl n s i j) a b ↔
      b ≠ j ∧ (if a = j then ¬ Conn s b
        else ¬ (satFlag limit excl (s.furc.getD i 0 + 1) i = true ∧ (a = i ∨ b = i)) ∧ Open s a b) := by
  have hsq : Square n s.mask := ⟨hi.len.2.2.2.2.1, hi.len.2.2.2.2.2⟩
  have hcl : (s.conn.set j true).length = n := by simp [hi.len.2.2.2.1]
  unfold Open
  rw [mask_eq hi hk hin hjn hci hsi hcj,
    cross_get (mask1_square hi hk hin hjn hci hsi hcj) hcl hjn ha hb]
  by_cases hbj : b = j
  · simp [hbj]
  · rw [if_neg hbj]
    by_cases haj : a = j
    · rw [if_pos haj, if_pos haj, getD_set, if_neg (fun h => hbj h.1.symm)]
      rw [getD_dflt s.conn b true false (by have := hi.len.2.2.2.1; omega)]
      simp [hbj, Conn]
    · rw [if_neg haj, if_neg haj]
      generalize satFlag limit excl (s.furc.getD i 0 + 1) i = fl
      cases fl
      · simp [hbj]
      · rw [if_pos rfl, cross_get hsq (by simp) hin ha hb]
        by_cases hbi : b = i
        · simp [hbi]
        · rw [if_neg hbi]
          by_cases hai : a = i
          · rw [if_pos hai, getD_replicate n b true true hb]; simp [hai]
          · rw [if_neg hai]; simp [hbj, hai, hbi]

private theorem step_mask (a b : Nat) (ha : a < n) (hb : b < n) :
    Open (stepAt dis limit excl n s i j) a b ↔
      (Conn (stepAt dis limit excl n s i j) a ∧ ¬ Saturated limit excl (stepAt dis limit excl n s i j) a ∧
        ¬ Conn (stepAt dis limit excl n s i j) b) := by
  have hne := ne_ij hi hk hin hjn hci hsi hcj
  rw [open_get hi hk hin hjn hci hsi hcj a b ha hb, conn_get hi hk hin hjn hci hsi hcj a,
    conn_get hi hk hin hjn hci hsi hcj b]
  by_cases hbj : b = j
  · simp [hbj]
  · by_cases haj : a = j
    · subst haj
      have hns : ¬ Saturated limit excl (stepAt dis limit excl n s i a) a := by
        rw [sat_other hi hk hin hjn hci hsi hcj a (Ne.symm hne)]
        rintro ⟨k, h1, h2, _⟩
        have := hk k h1
        have := furc_j hi hk hin hjn hci hsi hcj
        omega
      simp [hbj, hns]
    · rw [if_neg haj, hi.mask a b ha hb]
      by_cases hai : a = i
      · subst hai
        rw [sat_i hi hk hin hjn hci hsi hcj]
        simp [hbj, haj, hci, hsi]
      · rw [sat_other hi hk hin hjn hci hsi hcj a hai]
        by_cases hbi : b = i
        · subst hbi; simp [hci]
        · simp [hbj, haj, hai, hbi]

end dynamic

section dynamic2
variable {dis : List (List Rat)} {n : Nat} {limit : Option Nat} {excl : Bool} {s : St} {i j : Nat}
  (hi : Inv dis n limit excl s) (hk : ∀ k, limit = some k → 1 ≤ k)
  (hin : i < n) (hjn : j < n) (hci : Conn s i) (hsi : ¬ Saturated limit excl s i) (hcj : ¬ Conn s j)
include hi hk hin hjn hci hsi hcj

private theorem step_len : (stepAt dis limit excl n s i j).pid.length = n ∧
    (stepAt dis limit excl n s i j).acc.length = n ∧ (stepAt dis limit excl n s i j).furc.length = n ∧
    (stepAt dis limit excl n s i j).conn.length = n ∧ (stepAt dis limit excl n s i j).mask.length = n ∧
    ∀ r ∈ (stepAt dis limit excl n s i j).mask, r.length = n := by
  have hcl : (s.conn.set j true).length = n := by simp [hi.len.2.2.2.1]
  have hsq := cross_square j (mask1_square hi hk hin hjn hci hsi hcj) hcl
  rw [← mask_eq hi hk hin hjn hci hsi hcj] at hsq
  refine ⟨?_, ?_, ?_, hcl, hsq.1, hsq.2⟩
  · show (s.pid.set j _).length = n
    simp [hi.len.1]
  · show (s.acc.set j _).length = n
    simp [hi.len.2.1]
  · show (s.furc.set i _).length = n
    simp [hi.len.2.2.1]

private theorem j_ne_zero : j ≠ 0 := by
  intro h; subst h; exact hcj hi.root.1

private theorem step_root : Conn (stepAt dis limit excl n s i j) 0 ∧
    (stepAt dis limit excl n s i j).pid.getD 0 0 = -1 ∧ (stepAt dis limit excl n s i j).acc.getD 0 1 = 0 := by
  have hj0 := j_ne_zero hi hk hin hjn hci hsi hcj
  refine ⟨(conn_get hi hk hin hjn hci hsi hcj 0).mpr (Or.inr hi.root.1), ?_, ?_⟩
  · rw [pid_get hi hk hin hjn hci hsi hcj, if_neg (Ne.symm hj0)]; exact hi.root.2.1
  · rw [acc_get hi hk hin hjn hci hsi hcj, if_neg (Ne.symm hj0)]; exact hi.root.2.2

private theorem step_parent (a : Nat) (ha : a < n) (ha0 : a ≠ 0) :
    (Conn (stepAt dis limit excl n s i j) a → ∃ p, p < n ∧ (stepAt dis limit excl n s i j).pid.getD a 0 = (p : Int) ∧
      Conn (stepAt dis limit excl n s i j) p ∧
      (stepAt dis limit excl n s i j).acc.getD a 0 =
        (stepAt dis limit excl n s i j).acc.getD p 0 + (dis.getD p []).getD a 0) ∧
    (¬ Conn (stepAt dis limit excl n s i j) a → (stepAt dis limit excl n s i j).pid.getD a 0 = -1) := by
  have hne := ne_ij hi hk hin hjn hci hsi hcj
  simp only [conn_get hi hk hin hjn hci hsi hcj, pid_get hi hk hin hjn hci hsi hcj,
    acc_get hi hk hin hjn hci hsi hcj]
  constructor
  · intro hc
    by_cases haj : a = j
    · subst haj
      exact ⟨i, hin, by rw [if_pos rfl], Or.inr hci, by rw [if_pos rfl, if_neg hne]⟩
    · have hca : Conn s a := hc.resolve_left haj
      obtain ⟨p, hp, hpid, hcp, hacc⟩ := (hi.parent a ha ha0).1 hca
      have hpj : p ≠ j := by intro h; subst h; exact hcj hcp
      exact ⟨p, hp, by rw [if_neg haj]; exact hpid, Or.inr hcp, by rw [if_neg haj, if_neg hpj]; exact hacc⟩
  · intro hc
    have haj : a ≠ j := fun h => hc (Or.inl h)
    have hca : ¬ Conn s a := fun h => hc (Or.inr h)
    rw [if_neg haj]
    exact (hi.parent a ha ha0).2 hca

private theorem up_congr : ∀ d a, a < n → Conn s a → up (stepAt dis limit excl n s i j) d a = up s d a := by
  intro d
  induction d with
  | zero => intro a _ _; rfl
  | succ d ih =>
    intro a ha hc
    have haj : a ≠ j := by intro h; subst h; exact hcj hc
    by_cases ha0 : a = 0
    · subst ha0
      rw [up_root hi, up_succ, pid_get hi hk hin hjn hci hsi hcj, if_neg haj,
        getD_dflt s.pid 0 (-1) 0 (by have := hi.len.1; omega), hi.root.2.1]
      simp
    · obtain ⟨p, hp, hcp, hpid, hstep⟩ := up_step hi a ha hc ha0
      rw [hstep d, up_succ, pid_get hi hk hin hjn hci hsi hcj, if_neg haj, hpid, if_neg (by omega)]
      simpa using ih p hp hcp

private theorem step_reach (a : Nat) (ha : a < n) (hc : Conn (stepAt dis limit excl n s i j) a) :
    ∃ d, d ≤ n ∧ up (stepAt dis limit excl n s i j) d a = 0 := by
  rw [conn_get hi hk hin hjn hci hsi hcj] at hc
  by_cases haj : a = j
  · subst haj
    obtain ⟨d, hd, hu⟩ := short_reach hi i hin hci a hjn hcj
    refine ⟨d + 1, by omega, ?_⟩
    rw [up_succ, pid_get hi hk hin hjn hci hsi hcj, if_pos rfl, if_neg (by omega)]
    simpa [up_congr hi hk hin hjn hci hsi hcj d i hin hci] using hu
  · have hca : Conn s a := hc.resolve_left haj
    obtain ⟨d, hd, hu⟩ := hi.reach a ha hca
    exact ⟨d, hd, by rw [up_congr hi hk hin hjn hci hsi hcj d a ha hca]; exact hu⟩

private theorem step_fresh : ∃ a, a < n ∧ Conn (stepAt dis limit excl n s i j) a ∧
    (stepAt dis limit excl n s i j).furc.getD a 0 = 0 := by
  have hne := ne_ij hi hk hin hjn hci hsi hcj
  refine ⟨j, hjn, (conn_get hi hk hin hjn hci hsi hcj j).mpr (Or.inl rfl), ?_⟩
  rw [furc_get hi hk hin hjn hci hsi hcj, if_neg (Ne.symm hne)]
  exact furc_j hi hk hin hjn hci hsi hcj

private theorem step_count (a : Nat) (ha : a < n) :
    (stepAt dis limit excl n s i j).furc.getD a 0 = children (stepAt dis limit excl n s i j) a ∧
    (∀ k, limit = some k → 1 ≤ k → (excl = false ∨ a ≠ 0) → (stepAt dis limit excl n s i j).furc.getD a 0 ≤ k) := by
  have hch : children (stepAt dis limit excl n s i j) a = children s a + if a = i then 1 else 0 := by
    show ((s.pid.set j (i : Int)).filter (· = (a : Int))).length = _
    rw [count_set_new s.pid j i a (by have := hi.len.1; omega)
      (by
        have := (hi.parent j hjn (j_ne_zero hi hk hin hjn hci hsi hcj)).2 hcj
        rw [this]; omega)]
    unfold children
    by_cases h : a = i
    · subst h; simp
    · have : ¬ ((i : Int) = (a : Int)) := by omega
      simp [h, this]
  rw [furc_get hi hk hin hjn hci hsi hcj, hch]
  by_cases h : a = i
  · subst h
    rw [if_pos rfl, if_pos rfl]
    refine ⟨by rw [(hi.count a ha).1], ?_⟩
    intro k hl h1 hex
    by_contra hc
    exact hsi ⟨k, hl, by omega, hex⟩
  · rw [if_neg h, if_neg h]
    exact ⟨by rw [(hi.count a ha).1]; rfl, (hi.count a ha).2⟩

private theorem step_nconn : nconn (stepAt dis limit excl n s i j) = nconn s + 1 := by
  show ((s.conn.set j true).filter id).length = _
  apply filter_set_true s.conn j (by have := hi.len.2.2.2.1; omega)
  simpa [Conn] using hcj

private theorem stepAt_inv : Inv dis n limit excl (stepAt dis limit excl n s i j) :=
  ⟨step_len hi hk hin hjn hci hsi hcj, step_root hi hk hin hjn hci hsi hcj,
   step_mask hi hk hin hjn hci hsi hcj, step_parent hi hk hin hjn hci hsi hcj,
   step_reach hi hk hin hjn hci hsi hcj, step_fresh hi hk hin hjn hci hsi hcj,
   step_count hi hk hin hjn hci hsi hcj⟩

end dynamic2


/-- the invariant is preserved, and one more point gets connected -/
theorem step_inv (dis : List (List Rat)) (bf : Rat) (n : Nat) (limit : Option Nat) (excl : Bool) (s : St)
    (hi : Inv dis n limit excl s) (hk : ∀ k, limit = some k → 1 ≤ k) (hmore : nconn s < n) (hpos : 0 < nconn s) :
    Inv dis n limit excl (step dis bf limit excl n s) ∧ nconn (step dis bf limit excl n s) = nconn s + 1 := by
  obtain ⟨h1, h2, h3, _⟩ := greedy_step dis bf n limit excl s hi hk hmore hpos
  obtain ⟨hci, hsi, hcj⟩ := (hi.mask _ _ h1 h2).mp h3
  rw [step_eq]
  exact ⟨stepAt_inv hi hk h1 h2 hci hsi hcj, step_nconn hi hk h1 h2 hci hsi hcj⟩

private theorem run_inv (dis : List (List Rat)) (bf : Rat) (n : Nat) (limit : Option Nat) (excl : Bool)
    (hk : ∀ k, limit = some k → 1 ≤ k) :
    ∀ (m : Nat) (s : St), Inv dis n limit excl s → 0 < nconn s → nconn s + m ≤ n →
      Inv dis n limit excl (run dis bf limit excl n m s) ∧ nconn (run dis bf limit excl n m s) = nconn s + m := by
  intro m
  induction m with
  | zero => intro s hi _ _; exact ⟨hi, rfl⟩
  | succ m ih =>
    intro s hi hpos hle
    obtain ⟨h1, h2⟩ := step_inv dis bf n limit excl s hi hk (by omega) hpos
    obtain ⟨h3, h4⟩ := ih _ h1 (by omega) (by omega)
    exact ⟨h3, by rw [run, h4, h2]; omega⟩

private theorem nconn_init (n : Nat) (hn : 0 < n) : nconn (init n) = 1 :=
  filter_id_range_eq_zero n hn

private theorem final_inv (dis : List (List Rat)) (bf : Rat) (n : Nat) (hn : 0 < n) (limit : Option Nat) (excl : Bool)
    (hk : ∀ k, limit = some k → 1 ≤ k) :
    Inv dis n limit excl (run dis bf limit excl n (n - 1) (init n)) ∧
      nconn (run dis bf limit excl n (n - 1) (init n)) = n := by
  have h0 := nconn_init n hn
  obtain ⟨h1, h2⟩ := run_inv dis bf n limit excl hk (n - 1) (init n) (init_inv dis n hn limit excl hk)
    (by omega) (by omega)
  exact ⟨h1, by omega⟩

/-- **a single tree containing every point exactly once, rooted at the first point**: after `n - 1`
iterations every point is connected, has one parent (point 0 none) and reaches point 0 -/
theorem spanning (dis : List (List Rat)) (bf : Rat) (n : Nat) (hn : 0 < n) (limit : Option Nat) (excl : Bool)
    (hk : ∀ k, limit = some k → 1 ≤ k) :
    let s := run dis bf limit excl n (n - 1) (init n)
    Inv dis n limit excl s ∧ (∀ j, j < n → Conn s j) ∧
    s.pid.getD 0 0 = -1 ∧ (∀ j, j < n → j ≠ 0 → ∃ i, i < n ∧ s.pid.getD j 0 = (i : Int)) ∧
    (∀ j, j < n → ∃ d, d ≤ n ∧ up s d j = 0) := by
  intro s
  obtain ⟨hi, hc⟩ := final_inv dis bf n hn limit excl hk
  have hall : ∀ j, j < n → Conn s j := by
    intro j hj
    have hlen : s.conn.length = n := hi.len.2.2.2.1
    exact all_true_of_filter_eq s.conn (by rw [hlen]; exact hc) j (by omega)
  refine ⟨hi, hall, hi.root.2.1, ?_, fun j hj => hi.reach j hj (hall j hj)⟩
  intro j hj hj0
  obtain ⟨p, hp, hpid, _⟩ := (hi.parent j hj hj0).1 (hall j hj)
  exact ⟨p, hp, hpid⟩

/-- **with a branching limit `k` no node other than the (optionally exempt) root gets more than `k` children** -/
theorem branching_limit (dis : List (List Rat)) (bf : Rat) (n : Nat) (hn : 0 < n) (k : Nat) (hk : 1 ≤ k) (excl : Bool)
    (i : Nat) (hi : i < n) (hex : excl = false ∨ i ≠ 0) :
    children (run dis bf (some k) excl n (n - 1) (init n)) i ≤ k := by
  have hk' : ∀ k', some k = some k' → 1 ≤ k' := by intro k' h; cases h; exact hk
  obtain ⟨hinv, _⟩ := final_inv dis bf n hn (some k) excl hk'
  have := hinv.count i hi
  rw [← this.1]
  exact this.2 k rfl hk hex

/-- **Prim's step**: without balancing factor and without limit the chosen edge is a lightest edge between
the connected and the unconnected points (the cut property; that repeating it yields a minimum spanning
tree is the classical exchange argument, checked against Kruskal by the oracle, not proved here) -/
theorem prim_step_partial (dis : List (List Rat)) (n : Nat) (excl : Bool) (s : St)
    (hi : Inv dis n none excl s) (hmore : nconn s < n) (hpos : 0 < nconn s) :
    let ij := argmin dis 0 s n
    Conn s ij.1 ∧ ¬ Conn s ij.2 ∧
    ∀ i j, i < n → j < n → Conn s i → ¬ Conn s j →
      (dis.getD ij.1 []).getD ij.2 0 ≤ (dis.getD i []).getD j 0 := by
  have hk : ∀ k, (none : Option Nat) = some k → 1 ≤ k := by intro k h; cases h
  obtain ⟨h1, h2, h3, h4⟩ := greedy_step dis 0 n none excl s hi hk hmore hpos
  have hns : ∀ i, ¬ Saturated none excl s i := by rintro i ⟨k, h, _⟩; cases h
  have ho := (hi.mask _ _ h1 h2).mp h3
  refine ⟨ho.1, ho.2.2, ?_⟩
  intro i j hin hjn hci hcj
  have := h4 i j hin hjn ((hi.mask i j hin hjn).mpr ⟨hci, hns i, hcj⟩)
  simpa [cellCost] using this

-- non-vacuity / concrete behaviour: 4 points on a line at 0, 10, 11, 1
def exDis : List (List Rat) := [[0, 10, 11, 1], [10, 0, 1, 9], [11, 1, 0, 10], [1, 9, 10, 0]]
example : mst exDis 0 none true = [-1, 3, 1, 0] := by decide +kernel
example : mst exDis 1 none true = [-1, 0, 0, 0] := by decide +kernel
example : mst exDis 0 (some 1) false = [-1, 3, 1, 0] := by decide +kernel

end C17
