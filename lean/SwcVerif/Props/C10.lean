import SwcVerif.Model.Features
import SwcVerif.Props.C08
import SwcVerif.Props.C06
import SwcVerif.Props.C07
import SwcVerif.Proofs.Features
import Mathlib.Algebra.Order.Field.Rat
import Mathlib.Tactic.Linarith
import Mathlib.Tactic.FieldSimp
import Mathlib.Tactic.Ring
/-! # C10 — morphometric features equal their textbook definitions

Theorems about the feature models of `Model/Features.lean` (tied to the code by the `c10.features`
correspondence, exact on lattice trees). `elen c` is the Euclidean distance between node `c` and its parent
(any non-negative numbers here: the statements do not depend on where they come from); a tree is its parent
list (`C06.IsTree r pids`: the rose `r` represents it; every well-formed tree has one, `Represent.wf_represented`). -/
namespace C10
open Feat

/-- **tree length is the sum of the parent–child distances** -/
theorem length_eq_sum_edges (pids : List Int) (elen : Int → Rat) :
    treeLength pids elen = (((rangeI pids.length).drop 1).map elen).sum := by
  unfold treeLength
  rw [FeatP.foldl_add_eq_sum]; simp

/-- the length of a chain of nodes (branch / path) is the sum of the distances of its consecutive pairs -/
theorem chainLength_eq (elen : Int → Rat) (b : List Int) :
    chainLength elen b = ((C08.pairs b).map (fun e => elen e.2)).sum := by
  exact FeatP.chainLength_eq elen b

/-- **tree length equals the summed length of its branches** (every edge lies in exactly one branch, C08) -/
theorem length_eq_sum_branches (pids : List Int) (r : Rose) (h : C06.IsTree r pids) (elen : Int → Rat) :
    (branchLengths pids elen).sum = treeLength pids elen := by
  rw [length_eq_sum_edges]
  unfold branchLengths
  rw [FeatP.getBranches_tree h]
  have e : (C08.branchesOf r).map (chainLength elen)
      = (C08.branchesOf r).map (fun b => ((C08.pairs b).map (fun e => elen e.2)).sum) :=
    List.map_congr_left (fun b _ => FeatP.chainLength_eq elen b)
  rw [e, FeatP.sum_flatMap_pairs]
  have h1 := ((C08.branches_partition_edges r).map (fun e : Int × Int => elen e.2)).sum_eq
  rw [h1]
  have h2 := ((FeatP.edges_snd_tree h).map elen).sum_eq
  rw [← h2, List.map_map]
  rfl

/-- the models' branches / paths / furcations are C08's (so C08's theorems speak about them) -/
theorem branches_eq (pids : List Int) (r : Rose) (h : C06.IsTree r pids) :
    branches pids = C08.branchesOf r ∧ paths pids = C08.pathsOf r ∧ (furcations pids).Perm (C08.furcsOf r) := by
  exact ⟨FeatP.getBranches_tree h, FeatP.getPaths_tree h, FeatP.getFurcations_tree h⟩

/-- **counts**: tips are the childless nodes, furcations the nodes with two or more children, there is one
path per tip, and the number of stems is the number of children of the root -/
theorem counts (pids : List Int) (r : Rose) (h : C06.IsTree r pids) :
    (tips pids).length = (C08.tipsOf r).length ∧
    (furcations pids).length = (C08.furcsOf r).length ∧
    (paths pids).length = (tips pids).length ∧
    nStems pids = (tableKids (rangeI pids.length) pids 0).length := by
  have ht := (FeatP.tips_perm h).length_eq
  refine ⟨ht, (FeatP.getFurcations_tree h).length_eq, ?_, FeatP.nStems_eq pids⟩
  rw [ht, FeatP.getPaths_tree h, ← (C08.paths_one_per_tip r).1, List.length_map]

/-- **path distance is the sum of the distances along the way to the root** -/
theorem path_distance_eq_sum (pids : List Int) (hw : C07.WF pids) (elen : Int → Rat) (k : Nat) (hk : k < pids.length) :
    pathDistance pids elen (pids.length + 1) (k : Int)
      = (((Redir.rootPath pids pids.length (k : Int)).dropLast).map elen).sum := by
  exact FeatP.pd_eq hw elen _ _ (by omega) (by omega)
    (Nat.le_succ_of_le (FeatP.rootPath_len hw _ (by omega) (by omega)))

/-- **branch order is the number of furcations on the way to the root** (the node and the root included) -/
theorem branch_order_eq_furcations_on_path (pids : List Int) (hw : C07.WF pids) (k : Nat) (hk : k < pids.length) :
    branchOrder pids (pids.length + 1) (k : Int)
      = ((Redir.rootPath pids pids.length (k : Int)).filter (Sub.isFurcation pids)).length := by
  exact FeatP.bo_eq hw _ _ (by omega) (by omega)
    (Nat.le_succ_of_le (FeatP.rootPath_len hw _ (by omega) (by omega)))

/-- **terminal degree is the number of tips at or below the node** -/
theorem terminal_degree_eq_tips_below (pids : List Int) (s : Rose) (h : Represents s (rangeI pids.length) pids)
    (hin : ∀ i ∈ s.ids, 0 ≤ i ∧ i.toNat < pids.length) :
    terminalDegree pids s.id = (s.ids.filter fun v => !pids.contains v).length := by
  exact FeatP.td_eq pids s h hin

/-- **the Sholl count at radius r is the number of segments whose two end radii straddle r** (one end at
distance ≤ r, the other > r) -/
theorem sholl_eq_straddle_count (pids : List Int) (rad2 : Int → Rat) (r2 : Rat) :
    shollCount pids rad2 r2 =
      (((rangeI pids.length).drop 1).filter fun i =>
        decide ((rad2 (pids.getD i.toNat 0) ≤ r2 ∧ r2 < rad2 i) ∨ (rad2 i ≤ r2 ∧ r2 < rad2 (pids.getD i.toNat 0)))).length := by
  unfold shollCount
  congr 1
  apply List.filter_congr
  intro i _
  simp

/-! ## L-Measure arithmetic (regenerated from `lmeasure.py`) -/

/-- **partition asymmetry** is `|n1 − n2| / (n1 + n2 − 2)`, `0` for equal sides, symmetric, and within `[0, 1]`
for sides with at least one tip each -/
theorem partition_asymmetry_def (n1 n2 : Rat) :
    (n1 = n2 → Gen.LM.partitionAsymmetry n1 n2 = 0) ∧
    (n1 ≠ n2 → Gen.LM.partitionAsymmetry n1 n2 = |n1 - n2| / (n1 + n2 - 2)) ∧
    Gen.LM.partitionAsymmetry n1 n2 = Gen.LM.partitionAsymmetry n2 n1 ∧
    (1 ≤ n1 → 1 ≤ n2 → 0 ≤ Gen.LM.partitionAsymmetry n1 n2 ∧ Gen.LM.partitionAsymmetry n1 n2 ≤ 1) := by
  refine ⟨?_, ?_, ?_, ?_⟩
  · intro h; rw [FeatP.pa_eq, if_pos h]
  · intro h; rw [FeatP.pa_eq, if_neg h]
  · rw [FeatP.pa_eq, FeatP.pa_eq]
    by_cases h : n1 = n2
    · rw [if_pos h, if_pos h.symm]
    · rw [if_neg h, if_neg (fun e => h e.symm), abs_sub_comm, add_comm n1 n2]
  · intro h1 h2
    rw [FeatP.pa_eq]
    by_cases h : n1 = n2
    · rw [if_pos h]; exact ⟨le_refl _, zero_le_one⟩
    · rw [if_neg h]
      have hpos : 0 < |n1 - n2| := abs_pos.2 (sub_ne_zero.2 h)
      have hle : |n1 - n2| ≤ n1 + n2 - 2 := abs_le.2 ⟨by linarith, by linarith⟩
      have hd : 0 < n1 + n2 - 2 := lt_of_lt_of_le hpos hle
      exact ⟨div_nonneg hpos.le hd.le, by rw [div_le_iff₀ hd]; linarith⟩

/-- fragmentation is the number of compartments of the branch -/
theorem fragmentation_eq (b : List Int) : fragmentation b = (C08.pairs b).length := by
  rw [FeatP.pairs_length]; rfl

/-! ## the front end -/

/-- **a population gives one zero-padded row per tree**: every row has the length of the longest vector and
is the tree's own vector followed by zeros -/
theorem population_rows (vals : List (List Rat)) :
    (stackRows vals).length = vals.length ∧
    ∀ k (h : k < vals.length) (h' : k < (stackRows vals).length),
      ∃ m, (∀ v ∈ vals, v.length ≤ m) ∧ (stackRows vals)[k] = vals[k] ++ List.replicate (m - vals[k].length) 0 := by
  refine ⟨by simp [stackRows], ?_⟩
  intro k h h'
  have hm := (FeatP.foldl_max_ge vals 0).2
  refine ⟨_, hm, ?_⟩
  simp only [stackRows, List.getElem_map]
  exact FeatP.pad_eq _ _ (hm _ (List.getElem_mem h))

-- non-vacuity / concrete behaviour
def exP : List Int := [-1, 0, 1, 1, 0]
def exE : Int → Rat := fun i => [0, 2, 1, 3, 5].getD i.toNat 0
example : treeLength exP exE = 11 ∧ branchLengths exP exE = [2, 3, 1, 5] ∧ pathLengths exP exE = [3, 5, 5] := by decide +kernel
example : (rangeI 5).map (branchOrder exP 6) = [1, 2, 2, 2, 1] ∧ (rangeI 5).map (terminalDegree exP) = [3, 2, 1, 1, 1] := by decide +kernel
example : stackRows [[1, 2, 3], [4], []] = [[1, 2, 3], [4, 0, 0], [0, 0, 0]] := by decide +kernel

end C10
