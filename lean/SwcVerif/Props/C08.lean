import SwcVerif.Model.Basic
