import SwcVerif.Model.Branches
import SwcVerif.Proofs.Traverse
import Mathlib.Data.List.Perm.Basic
/-! # C08 — branches, paths, tips and furcations decompose the tree exactly

The traversal loop is C04's machine (`Trav.main`); the callbacks are the models of
`collect_branches`, `assign_path`/`collect_path`, `collect_furcations` (`Model/Branches.lean`, tied to the
code by the `c08.decomp` correspondence).  All statements are for every rose `r` that represents the
table (any shape, depth, distinct numbering); degrees are read off the table (`tableKids`). -/
namespace C08
open Trav Branches

/-- consecutive pairs of a list: the edges a branch / path runs along -/
def pairs : List Int → List (Int × Int)
  | a :: b :: t => (a, b) :: pairs (b :: t)
  | _ => []

-- the (parent, child) edges of a rose
mutual
def edges : Rose → List (Int × Int)
  | .node i ks => ks.map (fun k => (i, k.id)) ++ edgesL ks
def edgesL : List Rose → List (Int × Int)
  | [] => []
  | r :: rs => edges r ++ edgesL rs
end

-- ids of the childless nodes, in table (pre-)order
mutual
def tipsOf : Rose → List Int
  | .node i [] => [i]
  | .node _ (k :: ks) => tipsOfL (k :: ks)
def tipsOfL : List Rose → List Int
  | [] => []
  | r :: rs => tipsOf r ++ tipsOfL rs
end

-- ids of the nodes with two or more children
mutual
def furcsOf : Rose → List Int
  | .node i ks => (if ks.length > 1 then [i] else []) ++ furcsOfL ks
def furcsOfL : List Rose → List Int
  | [] => []
  | r :: rs => furcsOf r ++ furcsOfL rs
end

/-- the value `collect_branches` computes for a rose (structural recursion = what the loop computes, C04) -/
def branchVal (r : Rose) : BVal := (spec bEnter bLeave r none ()).2
/-- `get_branches` of a rose -/
def branchesOf (r : Rose) : List (List Int) := finish (branchVal r)

/-! ## helper lemmas -/

mutual
theorem rose_ind {P : Rose → Prop} (h : ∀ i ks, (∀ k ∈ ks, P k) → P (.node i ks)) : ∀ r, P r
  | .node i ks => h i ks (rose_indL h ks)
theorem rose_indL {P : Rose → Prop} (h : ∀ i ks, (∀ k ∈ ks, P k) → P (.node i ks)) : ∀ ks : List Rose, ∀ k ∈ ks, P k
  | [] => by simp
  | r :: rs => by
    intro k hk
    simp only [List.mem_cons] at hk
    rcases hk with h1 | h1
    · rw [h1]; exact rose_ind h r
    · exact rose_indL h rs k h1
end

theorem edgesL_eq (ks : List Rose) : edgesL ks = ks.flatMap edges := by
  induction ks with
  | nil => simp [edgesL]
  | cons r rs ih => simp [edgesL, ih]
theorem tipsOfL_eq (ks : List Rose) : tipsOfL ks = ks.flatMap tipsOf := by
  induction ks with
  | nil => simp [tipsOfL]
  | cons r rs ih => simp [tipsOfL, ih]
theorem furcsOfL_eq (ks : List Rose) : furcsOfL ks = ks.flatMap furcsOf := by
  induction ks with
  | nil => simp [furcsOfL]
  | cons r rs ih => simp [furcsOfL, ih]
theorem idsL_eq (ks : List Rose) : idsL ks = ks.flatMap Rose.ids := by
  induction ks with
  | nil => simp [idsL]
  | cons r rs ih => simp [idsL, ih]
theorem agreesL_iff (kidsOf : Int → List Int) (ks : List Rose) : AgreesL kidsOf ks ↔ ∀ k ∈ ks, Agrees kidsOf k := by
  induction ks with
  | nil => simp [AgreesL]
  | cons r rs ih => simp [AgreesL, ih]

theorem spec_b (r : Rose) (pv : Option Unit) (s : Unit) : spec bEnter bLeave r pv s = ((), branchVal r) := by
  cases r; rfl
theorem specRev_b (ks : List Rose) (cur : Unit) (s : Unit) : specRev bEnter bLeave ks cur s = ((), ks.map branchVal) := by
  induction ks with
  | nil => rfl
  | cons r rs ih => simp [specRev, ih, spec_b]
theorem branchVal_node (i : Int) (ks : List Rose) : branchVal (.node i ks) = collectBranches i (ks.map branchVal) := by
  simp [branchVal, spec, specRev_b, bLeave, bEnter]

theorem cb_nil (i : Int) : collectBranches i [] = ([], [i]) := rfl
theorem cb_one (i : Int) (p : BVal) : collectBranches i [p] = (p.1, p.2 ++ [i]) := by cases p; rfl
theorem cb_many (i : Int) (p q : BVal) (t : List BVal) : collectBranches i (p :: q :: t) =
    ((p :: q :: t).flatMap (fun sc => (sc.1 ++ [(sc.2 ++ [i]).reverse]).reverse), [i]) := rfl


/-- the loop computes `branchesOf` (instance of C04's core theorem) -/
theorem getBranches_eq (ids pids : List Int) (r : Rose) (h : Represents r ids pids) :
    getBranches ids pids r.id (2 * r.size) = branchesOf r := by
  have hm := main (tableKids ids pids) bEnter bLeave r h.1 h.2 [] (fun _ => none) (fun _ => none) ()
  obtain ⟨_, _, h3, _, _⟩ := hm
  simp only [getBranches, init]
  rw [h3]
  rfl

theorem pairs_cons_cons (a b : Int) (t : List Int) : pairs (a :: b :: t) = (a, b) :: pairs (b :: t) := rfl

/-- the open chain of a subtree ends (bottom-up) at the subtree's root -/
theorem bv_child (r : Rose) : ∃ t, (branchVal r).2 = t ++ [r.id] := by
  cases r with
  | node i ks =>
    rw [branchVal_node]
    rcases ks with _ | ⟨k, _ | ⟨k2, t⟩⟩
    · exact ⟨[], rfl⟩
    · exact ⟨(branchVal k).2, by simp [cb_one, Rose.id]⟩
    · exact ⟨[], rfl⟩

theorem bv_child_ne (r : Rose) : (branchVal r).2 ≠ [] := by
  obtain ⟨t, ht⟩ := bv_child r
  rw [ht]; simp

/-- closing one kid's value at node `i` -/
abbrev closeAt (i : Int) : BVal → List (List Int) := fun sc => (sc.1 ++ [(sc.2 ++ [i]).reverse]).reverse

theorem branchVal_many (i : Int) (k1 k2 : Rose) (t : List Rose) :
    branchVal (.node i (k1 :: k2 :: t)) = (((k1 :: k2 :: t).map branchVal).flatMap (closeAt i), [i]) := by
  rw [branchVal_node]; rfl

/-- edge invariant of the open-chain value -/
def EdgeInv (r : Rose) : Prop :=
  ((branchVal r).1.flatMap pairs ++ pairs (branchVal r).2.reverse).Perm (edges r)

theorem edge_aux (i : Int) (ks : List Rose) (ih : ∀ k ∈ ks, EdgeInv k) :
    (((ks.map branchVal).flatMap (closeAt i)).flatMap pairs).Perm
      (ks.map (fun k => (i, k.id)) ++ ks.flatMap edges) := by
  induction ks with
  | nil => simp
  | cons k ks ihl =>
    have h1 := ihl (fun k' hk' => ih k' (List.mem_cons_of_mem _ hk'))
    have h2 : EdgeInv k := ih k (List.mem_cons_self ..)
    obtain ⟨t, ht⟩ := bv_child k
    simp only [EdgeInv, ht, List.reverse_append, List.reverse_cons, List.reverse_nil, List.nil_append,
      List.singleton_append] at h2
    rw [List.perm_iff_count]; intro a
    have c1 := h1.count_eq a
    have c2 := h2.count_eq a
    have c3 := ((List.reverse_perm ((branchVal k).1 ++ [((branchVal k).2 ++ [i]).reverse])).flatMap_right pairs).count_eq a
    simp only [List.map_cons, List.flatMap_cons, List.flatMap_append, List.count_append, closeAt] at c1 c2 ⊢
    rw [c3]
    simp only [List.flatMap_append, List.flatMap_cons, List.flatMap_nil, List.append_nil, ht,
      List.reverse_append, List.reverse_cons, List.reverse_nil, List.nil_append,
      List.cons_append, pairs_cons_cons, List.count_append, List.count_cons] at c1 c2 ⊢
    omega

theorem edgeInv_all (r : Rose) : EdgeInv r := by
  induction r using rose_ind with
  | h i ks ih =>
    rcases ks with _ | ⟨k, _ | ⟨k2, t⟩⟩
    · simp [EdgeInv, branchVal_node, cb_nil, pairs, edges, edgesL]
    · have h2 : EdgeInv k := ih k (List.mem_cons_self ..)
      obtain ⟨t, ht⟩ := bv_child k
      simp only [EdgeInv, ht, List.reverse_append, List.reverse_cons, List.reverse_nil, List.nil_append,
        List.singleton_append] at h2
      simp only [EdgeInv, branchVal_node, List.map_cons, List.map_nil, cb_one, ht, edges, edgesL,
        List.reverse_append, List.reverse_cons, List.reverse_nil, List.nil_append,
        List.cons_append, pairs_cons_cons, List.append_nil]
      rw [List.perm_iff_count]; intro a
      have c2 := h2.count_eq a
      simp only [List.count_append, List.count_cons] at c2 ⊢
      omega
    · have := edge_aux i (k :: k2 :: t) ih
      simp only [EdgeInv, branchVal_many, edges, edgesL_eq]
      simpa [pairs] using this

/-- **The branches partition the edges**: listing the consecutive node pairs of all branches gives every
parent–child edge of the tree exactly once (a permutation of the edge list). -/
theorem branches_partition_edges (r : Rose) :
    ((branchesOf r).flatMap pairs).Perm (edges r) := by
  have h := edgeInv_all r
  simp only [EdgeInv] at h
  simp only [branchesOf, finish]
  split
  · simp only [List.flatMap_cons]
    exact List.perm_append_comm.trans h
  · rename_i hlen
    obtain ⟨t, ht⟩ := bv_child r
    have : t = [] := by
      cases t with
      | nil => rfl
      | cons a t => rw [ht] at hlen; simp at hlen
    subst this
    rw [ht] at h
    simpa [pairs] using h

/-- a top-down chain of pass-through nodes ending in a tip or furcation -/
def ChainOK (kidsOf : Int → List Int) (c : List Int) : Prop :=
  ∃ mid last, c = mid ++ [last] ∧ (∀ m ∈ mid, (kidsOf m).length = 1) ∧
    ((kidsOf last).length = 0 ∨ 2 ≤ (kidsOf last).length)
/-- a closed branch hanging from a furcation -/
def ShapeOK (kidsOf : Int → List Int) (b : List Int) : Prop :=
  ∃ top c, b = top :: c ∧ 2 ≤ (kidsOf top).length ∧ ChainOK kidsOf c

theorem shape_all (kidsOf : Int → List Int) (r : Rose) : Agrees kidsOf r →
    (∀ b ∈ (branchVal r).1, ShapeOK kidsOf b) ∧ ChainOK kidsOf (branchVal r).2.reverse := by
  induction r using rose_ind with
  | h i ks ih =>
    intro hA
    simp only [Agrees] at hA
    obtain ⟨hk, hAL⟩ := hA
    rw [agreesL_iff] at hAL
    have hlen : (kidsOf i).length = ks.length := by rw [hk]; simp
    rcases ks with _ | ⟨k, _ | ⟨k2, t⟩⟩
    · refine ⟨by simp [branchVal_node, cb_nil], ?_⟩
      simp only [branchVal_node, List.map_nil, cb_nil, List.reverse_cons, List.reverse_nil, List.nil_append]
      exact ⟨[], i, rfl, by simp, Or.inl (by simpa using hlen)⟩
    · have hk' := ih k (List.mem_cons_self ..) (hAL k (List.mem_cons_self ..))
      simp only [branchVal_node, List.map_cons, List.map_nil, cb_one]
      refine ⟨hk'.1, ?_⟩
      obtain ⟨mid, last, hc, hm, hl⟩ := hk'.2
      refine ⟨i :: mid, last, by simp [hc], ?_, hl⟩
      intro m hmem
      simp only [List.mem_cons] at hmem
      rcases hmem with rfl | hmem
      · simpa using hlen
      · exact hm m hmem
    · have h2 : 2 ≤ (kidsOf i).length := by rw [hlen]; simp
      rw [branchVal_many]
      constructor
      · intro b hb
        simp only [List.mem_flatMap, List.mem_map, closeAt] at hb
        obtain ⟨sc, ⟨k', hk', rfl⟩, hb⟩ := hb
        have hk'' := ih k' hk' (hAL k' hk')
        simp only [List.mem_reverse, List.mem_append, List.mem_singleton] at hb
        rcases hb with hb | rfl
        · exact hk''.1 b hb
        · exact ⟨i, (branchVal k').2.reverse, by simp, h2, hk''.2⟩
      · exact ⟨[], i, rfl, by simp, Or.inr h2⟩

/-- **Shape of every branch**: it has at least two nodes, starts at the root or at a furcation, ends at a
furcation or a tip, and has only pass-through (one-child) nodes in between. -/
theorem branch_shape (kidsOf : Int → List Int) (r : Rose) (hA : Agrees kidsOf r) (b : List Int) (hb : b ∈ branchesOf r) :
    ∃ top mid last, b = top :: (mid ++ [last]) ∧
      (top = r.id ∨ 2 ≤ (kidsOf top).length) ∧
      (∀ m ∈ mid, (kidsOf m).length = 1) ∧
      ((kidsOf last).length = 0 ∨ 2 ≤ (kidsOf last).length) := by
  obtain ⟨hbrs, hch⟩ := shape_all kidsOf r hA
  have hclosed : ∀ b ∈ (branchVal r).1, ∃ top mid last, b = top :: (mid ++ [last]) ∧
      (top = r.id ∨ 2 ≤ (kidsOf top).length) ∧
      (∀ m ∈ mid, (kidsOf m).length = 1) ∧
      ((kidsOf last).length = 0 ∨ 2 ≤ (kidsOf last).length) := by
    intro b hb
    obtain ⟨top, c, rfl, h2, mid, last, rfl, hm, hl⟩ := hbrs b hb
    exact ⟨top, mid, last, rfl, Or.inr h2, hm, hl⟩
  simp only [branchesOf, finish] at hb
  split at hb
  · rename_i hlen
    simp only [List.mem_cons] at hb
    rcases hb with rfl | hb
    · obtain ⟨mid, last, hc, hm, hl⟩ := hch
      obtain ⟨t, ht⟩ := bv_child r
      rw [ht] at hc hlen
      simp only [List.reverse_append, List.reverse_cons, List.reverse_nil, List.nil_append,
        List.singleton_append] at hc
      cases mid with
      | nil =>
        simp only [List.nil_append, List.cons.injEq, List.reverse_eq_nil_iff] at hc
        rw [hc.2] at hlen; simp at hlen
      | cons m mid' =>
        simp only [List.cons_append, List.cons.injEq] at hc
        refine ⟨r.id, mid', last, ?_, Or.inl rfl, fun m' hm' => hm m' (List.mem_cons_of_mem _ hm'), hl⟩
        rw [ht]; simp [hc.2]
    · exact hclosed b hb
  · exact hclosed b hb

theorem lastD_close (l : List Int) (hne : l ≠ []) (i d : Int) : ((l ++ [i]).reverse).getLastD d = l.headD 0 := by
  cases l with
  | nil => exact absurd rfl hne
  | cons a t =>
    have : ((a :: t) ++ [i]).reverse = (i :: t.reverse) ++ [a] := by simp
    rw [this, List.getLastD_eq_getLast?, List.getLast?_append]; simp
theorem headD_append_ne (l : List Int) (hne : l ≠ []) (i : Int) : (l ++ [i]).headD 0 = l.headD 0 := by
  cases l with
  | nil => exact absurd rfl hne
  | cons a t => simp

theorem furcs_sub_ids (r : Rose) : ∀ j ∈ furcsOf r, j ∈ r.ids := by
  induction r using rose_ind with
  | h i ks ih =>
    intro j hj
    simp only [furcsOf, furcsOfL_eq, List.mem_append, List.mem_flatMap] at hj
    simp only [Rose.ids, idsL_eq, List.mem_cons, List.mem_flatMap]
    rcases hj with hj | ⟨k, hk, hj⟩
    · split at hj
      · left; simpa using hj
      · simp at hj
    · exact Or.inr ⟨k, hk, ih k hk j hj⟩
theorem tips_sub_ids (r : Rose) : ∀ j ∈ tipsOf r, j ∈ r.ids := by
  induction r using rose_ind with
  | h i ks ih =>
    intro j hj
    cases ks with
    | nil => simp only [tipsOf, List.mem_singleton] at hj; simp [Rose.ids, hj]
    | cons k ks' =>
      simp only [tipsOf, tipsOfL_eq, List.mem_flatMap] at hj
      simp only [Rose.ids, idsL_eq, List.mem_cons, List.mem_flatMap]
      obtain ⟨k', hk', hj⟩ := hj
      exact Or.inr ⟨k', List.mem_cons.1 hk', ih k' hk' j hj⟩

/-- end-point invariant: last nodes of the closed branches, plus the bottom of the open chain, are the
furcations and tips of the subtree -/
def EndInv (r : Rose) : Prop :=
  ∀ d, ((branchVal r).1.map (fun b => b.getLastD d) ++ [(branchVal r).2.headD 0]).Perm (furcsOf r ++ tipsOf r)

theorem end_aux (i d : Int) (ks : List Rose) (ih : ∀ k ∈ ks, EndInv k) :
    (((ks.map branchVal).flatMap (closeAt i)).map (fun b => b.getLastD d)).Perm
      (ks.flatMap furcsOf ++ ks.flatMap tipsOf) := by
  induction ks with
  | nil => simp
  | cons k ks ihl =>
    have h1 := ihl (fun k' hk' => ih k' (List.mem_cons_of_mem _ hk'))
    have h2 := ih k (List.mem_cons_self ..) d
    rw [List.perm_iff_count]; intro a
    have c1 := h1.count_eq a
    have c2 := h2.count_eq a
    have c3 := ((List.reverse_perm ((branchVal k).1 ++ [((branchVal k).2 ++ [i]).reverse])).map
      (fun b => b.getLastD d)).count_eq a
    simp only [List.map_cons, List.flatMap_cons, List.map_append, List.count_append, closeAt] at c1 c2 ⊢
    rw [c3]
    simp only [List.map_append, List.map_cons, List.map_nil, lastD_close _ (bv_child_ne k),
      List.count_append] at c2 ⊢
    omega

theorem endInv_all (r : Rose) : EndInv r := by
  induction r using rose_ind with
  | h i ks ih =>
    intro d
    rcases ks with _ | ⟨k, _ | ⟨k2, t⟩⟩
    · simp [branchVal_node, cb_nil, furcsOf, furcsOfL, tipsOf]
    · have h2 := ih k (List.mem_cons_self ..) d
      simp only [branchVal_node, List.map_cons, List.map_nil, cb_one, headD_append_ne _ (bv_child_ne k),
        furcsOf, furcsOfL, tipsOf, tipsOfL]
      simpa using h2
    · have := end_aux i d (k :: k2 :: t) ih
      rw [branchVal_many]
      simp only [furcsOf, furcsOfL_eq, tipsOf, tipsOfL_eq, List.headD_cons]
      rw [List.perm_iff_count]; intro a
      have c := this.count_eq a
      simp only [List.count_append, List.length_cons] at c ⊢
      rw [if_pos (by omega)]
      omega

/-- the end points of the branches are exactly the non-root furcations and tips, each once
(so `BranchTree.from_tree` keeps exactly root ∪ furcations ∪ tips) -/
theorem branch_ends (r : Rose) (hD : r.ids.Nodup) :
    ((branchesOf r).map (fun b => b.getLastD r.id)).Perm
      ((furcsOf r ++ tipsOf r).erase r.id) := by
  have hE := endInv_all r r.id
  cases r with
  | node i ks =>
    simp only [Rose.id] at hE ⊢
    rcases ks with _ | ⟨k, _ | ⟨k2, t⟩⟩
    · simp [branchesOf, finish, branchVal_node, cb_nil, furcsOf, furcsOfL, tipsOf]
    · -- the root has one kid: its chain is closed by `finish`; the root is neither furcation nor tip
      have hne := bv_child_ne k
      have hlen : ((branchVal k).2 ++ [i]).length > 1 := by
        have : (branchVal k).2.length ≠ 0 := by simpa using hne
        simp; omega
      have hi : i ∉ furcsOf (.node i [k]) ++ tipsOf (.node i [k]) := by
        simp only [Rose.ids, idsL, List.append_nil, List.nodup_cons] at hD
        simp only [furcsOf, furcsOfL, tipsOf, tipsOfL, List.length_cons, List.length_nil, List.append_nil,
          List.mem_append, not_or]
        exact ⟨by simpa using fun h => hD.1 (furcs_sub_ids k i h), fun h => hD.1 (tips_sub_ids k i h)⟩
      rw [List.erase_of_not_mem hi]
      simp only [branchVal_node, List.map_cons, List.map_nil, cb_one, headD_append_ne _ hne] at hE
      simp only [branchesOf, finish, branchVal_node, List.map_cons, List.map_nil, cb_one, if_pos hlen,
        lastD_close _ hne]
      simpa using List.perm_append_comm.trans hE
    · rw [branchVal_many] at hE
      simp only [List.headD_cons] at hE
      have hfin : branchesOf (.node i (k :: k2 :: t)) = (((k :: k2 :: t).map branchVal).flatMap (closeAt i)) := by
        simp [branchesOf, finish, branchVal_many]
      rw [hfin]
      have h1 := (List.perm_append_comm.trans hE).erase i
      simpa using h1

/-- `get_paths` of a rose -/
def pathsOf (r : Rose) : List (List Int) := (spec pEnter pLeave r none (fun _ => none)).2

theorem getPaths_eq (ids pids : List Int) (r : Rose) (h : Represents r ids pids) :
    getPaths ids pids r.id (2 * r.size) = pathsOf r := by
  have hm := main (tableKids ids pids) pEnter pLeave r h.1 h.2 [] (fun _ => none) (fun _ => none) (fun _ => none)
  obtain ⟨_, _, h3, _, _⟩ := hm
  simp only [getPaths, init]
  rw [h3]
  rfl

-- the root-to-tip paths below a node reached along `pre` (structural recursion)
mutual
def pathsFrom : Rose → List Int → List (List Int)
  | .node i [], pre => [pre ++ [i]]
  | .node i (k :: ks), pre => pathsFromL (k :: ks) (pre ++ [i])
def pathsFromL : List Rose → List Int → List (List Int)
  | [], _ => []
  | r :: rs, pre => pathsFrom r pre ++ pathsFromL rs pre
end

theorem pathsFromL_eq (ks : List Rose) (pre : List Int) :
    pathsFromL ks pre = ks.flatMap (fun k => pathsFrom k pre) := by
  induction ks with
  | nil => simp [pathsFromL]
  | cons r rs ih => simp [pathsFromL, ih]

mutual
theorem spec_p : ∀ (r : Rose) (pv : Option (List Int)) (d : PDict),
    (spec pEnter pLeave r pv d).2 = pathsFrom r (pv.getD [])
  | .node i [], pv, d => by
    simp [spec, specRev, pEnter, pLeave, pathsFrom, upd]
  | .node i (k :: ks), pv, d => by
    have h := specRev_p (k :: ks) (pv.getD [] ++ [i]) (upd d i (some (pv.getD [] ++ [i])))
    simp only [spec, pEnter, pathsFrom]
    rw [← h]
    simp only [specRev, pLeave]
theorem specRev_p : ∀ (ks : List Rose) (cur : List Int) (d : PDict),
    (specRev pEnter pLeave ks cur d).2.flatten = pathsFromL ks cur
  | [], _, _ => by simp [specRev, pathsFromL]
  | r :: rs, cur, d => by
    simp only [specRev, pathsFromL, List.flatten_cons]
    rw [specRev_p rs cur d, spec_p r (some cur)]
    simp
end

theorem pathsOf_eq (r : Rose) : pathsOf r = pathsFrom r [] := by
  simp [pathsOf, spec_p]

theorem pathsFrom_last (d : Int) (r : Rose) : ∀ pre, (pathsFrom r pre).map (fun p => p.getLastD d) = tipsOf r := by
  induction r using rose_ind with
  | h i ks ih =>
    intro pre
    cases ks with
    | nil => simp [pathsFrom, tipsOf]
    | cons k ks' =>
      simp only [pathsFrom, tipsOf, pathsFromL_eq, tipsOfL_eq, List.map_flatMap]
      exact List.flatMap_congr (fun k' hk' => ih k' hk' _)

theorem pathsFrom_edges (r : Rose) : ∀ pre, ∀ p ∈ pathsFrom r pre,
    ∃ q, p = pre ++ q ∧ q.head? = some r.id ∧ ∀ e ∈ pairs q, e ∈ edges r := by
  induction r using rose_ind with
  | h i ks ih =>
    intro pre p hp
    cases ks with
    | nil =>
      simp only [pathsFrom, List.mem_singleton] at hp
      exact ⟨[i], hp, rfl, by simp [pairs]⟩
    | cons k ks' =>
      simp only [pathsFrom, pathsFromL_eq, List.mem_flatMap] at hp
      obtain ⟨k', hk', hp⟩ := hp
      obtain ⟨q, rfl, hq, he⟩ := ih k' hk' _ p hp
      refine ⟨i :: q, by simp, rfl, ?_⟩
      cases q with
      | nil => simp at hq
      | cons a q' =>
        simp only [List.head?_cons, Option.some.injEq] at hq
        subst hq
        intro e hmem
        simp only [pairs, List.mem_cons] at hmem
        simp only [edges, edgesL_eq, List.mem_append, List.mem_map, List.mem_flatMap]
        rcases hmem with rfl | hmem
        · exact Or.inl ⟨k', hk', rfl⟩
        · exact Or.inr ⟨k', hk', he e hmem⟩

/-- **exactly one root-to-tip path per tip**: the paths' end points are the tips, in order, each path
starts at the root and runs along parent–child edges -/
theorem paths_one_per_tip (r : Rose) :
    (pathsOf r).map (fun p => p.getLastD r.id) = tipsOf r ∧
    (∀ p ∈ pathsOf r, p.head? = some r.id ∧ ∀ e ∈ pairs p, e ∈ edges r) := by
  rw [pathsOf_eq]
  refine ⟨pathsFrom_last r.id r [], ?_⟩
  intro p hp
  obtain ⟨q, rfl, h1, h2⟩ := pathsFrom_edges r [] p hp
  exact ⟨by simpa using h1, by simpa using h2⟩

theorem tableKids_nil_iff : ∀ (ids pids : List Int), ids.length = pids.length →
    ∀ j, tableKids ids pids j = [] ↔ j ∉ pids
  | [], [], _, j => by simp [tableKids]
  | [], _ :: _, h, j => by simp at h
  | _ :: _, [], h, j => by simp at h
  | i :: is, p :: ps, h, j => by
    simp only [tableKids]
    have ih := tableKids_nil_iff is ps (by simpa using h) j
    by_cases hp : p = j
    · simp [hp]
    · have hp' : ¬ j = p := fun e => hp e.symm
      simp [hp, hp', ih]

/-- **tips are exactly the childless nodes** (`setdiff1d(ids, pids)`) -/
theorem tips_eq_childless (ids pids : List Int) (hl : ids.length = pids.length) (j : Int) :
    j ∈ getTips ids pids ↔ j ∈ ids ∧ tableKids ids pids j = [] := by
  rw [tableKids_nil_iff ids pids hl j]
  simp [getTips, List.mem_filter]

/-- the childless nodes of the table are the leaves of the rose -/
theorem tipsOf_childless (kidsOf : Int → List Int) (r : Rose) (hA : Agrees kidsOf r) (j : Int) :
    j ∈ tipsOf r ↔ j ∈ r.ids ∧ kidsOf j = [] := by
  revert hA j
  induction r using rose_ind with
  | h i ks ih =>
    intro hA j
    simp only [Agrees] at hA
    obtain ⟨hk, hAL⟩ := hA
    rw [agreesL_iff] at hAL
    cases ks with
    | nil =>
      simp only [tipsOf, Rose.ids, idsL, List.mem_singleton]
      constructor
      · rintro rfl; exact ⟨rfl, by simpa using hk⟩
      · exact fun h => h.1
    | cons k ks' =>
      have hne : (k :: ks').map Rose.id ≠ [] := by simp
      simp only [tipsOf, tipsOfL_eq, Rose.ids, idsL_eq, List.mem_flatMap, List.mem_cons]
      constructor
      · rintro ⟨k', hk', hj⟩
        have hk'' := List.mem_cons.2 hk'
        have := (ih k' hk'' (hAL k' hk'') j).1 hj
        exact ⟨Or.inr ⟨k', hk', this.1⟩, this.2⟩
      · rintro ⟨hj | ⟨k', hk', hj⟩, h0⟩
        · subst hj; rw [hk] at h0; exact absurd h0 hne
        · have hk'' := List.mem_cons.2 hk'
          exact ⟨k', hk', (ih k' hk'' (hAL k' hk'') j).2 ⟨hj, h0⟩⟩

theorem furcsOf_ge2_aux (kidsOf : Int → List Int) (r : Rose) (hA : Agrees kidsOf r) (j : Int) :
    j ∈ furcsOf r ↔ j ∈ r.ids ∧ 2 ≤ (kidsOf j).length := by
  revert hA j
  induction r using rose_ind with
  | h i ks ih =>
    intro hA j
    simp only [Agrees] at hA
    obtain ⟨hk, hAL⟩ := hA
    rw [agreesL_iff] at hAL
    have hlen : (kidsOf i).length = ks.length := by rw [hk]; simp
    simp only [furcsOf, furcsOfL_eq, Rose.ids, idsL_eq, List.mem_append, List.mem_flatMap, List.mem_cons]
    constructor
    · rintro (hj | ⟨k', hk', hj⟩)
      · split at hj
        · simp only [List.mem_singleton] at hj
          subst hj; exact ⟨Or.inl rfl, by omega⟩
        · simp at hj
      · have := (ih k' hk' (hAL k' hk') j).1 hj
        exact ⟨Or.inr ⟨k', hk', this.1⟩, this.2⟩
    · rintro ⟨hj | ⟨k', hk', hj⟩, h2⟩
      · subst hj
        left
        rw [if_pos (by omega)]; simp
      · exact Or.inr ⟨k', hk', (ih k' hk' (hAL k' hk') j).2 ⟨hj, h2⟩⟩

theorem specRev_len {σ T K : Type} (enter : σ → Int → Option T → σ × T) (leave : σ → Int → List K → σ × K) :
    ∀ (ks : List Rose) (cur : T) (s : σ), (specRev enter leave ks cur s).2.length = ks.length
  | [], _, _ => rfl
  | r :: rs, cur, s => by simp [specRev, specRev_len enter leave rs cur s]

-- the accumulator of `collect_furcations` after a subtree: what it was, plus the subtree's furcations
mutual
theorem spec_f : ∀ (r : Rose) (pv : Option Unit) (acc : List Int),
    (spec fEnter fLeave r pv acc).1.Perm (acc ++ furcsOf r)
  | .node i ks, pv, acc => by
    simp only [spec, fEnter, fLeave, furcsOf]
    have h := specRev_f ks () acc
    simp only [specRev_len]
    split
    · refine (h.append_right [i]).trans ?_
      rw [List.perm_iff_count]; intro a
      simp only [List.count_append]; omega
    · simpa using h
theorem specRev_f : ∀ (ks : List Rose) (cur : Unit) (acc : List Int),
    (specRev fEnter fLeave ks cur acc).1.Perm (acc ++ furcsOfL ks)
  | [], _, acc => by simp [specRev, furcsOfL]
  | r :: rs, cur, acc => by
    simp only [specRev, furcsOfL]
    have h1 := specRev_f rs cur acc
    have h2 := spec_f r (some cur) (specRev fEnter fLeave rs cur acc).1
    refine h2.trans ((h1.append_right _).trans ?_)
    rw [List.perm_iff_count]; intro a
    simp only [List.count_append]; omega
end

/-- **furcations are exactly the nodes with two or more children** -/
theorem furcations_eq (ids pids : List Int) (r : Rose) (h : Represents r ids pids) :
    (getFurcations ids pids r.id (2 * r.size)).Perm (furcsOf r) := by
  have hm := main (tableKids ids pids) fEnter fLeave r h.1 h.2 [] (fun _ => none) (fun _ => none) []
  obtain ⟨_, h2, _, _, _⟩ := hm
  simp only [getFurcations, init]
  rw [h2]
  simpa using spec_f r none []

theorem furcsOf_ge2 (kidsOf : Int → List Int) (r : Rose) (hA : Agrees kidsOf r) (hD : r.ids.Nodup) (j : Int) :
    j ∈ furcsOf r ↔ j ∈ r.ids ∧ 2 ≤ (kidsOf j).length := by
  have _ := hD
  exact furcsOf_ge2_aux kidsOf r hA j

/-- **the branch tree's table**: one node for the root and one per branch end; each hangs from the
head of its branch — i.e. nodes = root ∪ furcations ∪ tips joined as the branches join them -/
theorem branchTree_table (root : Int) (brs : List (List Int)) :
    (branchTreeTable root brs).1 = root :: brs.map (fun b => b.getLastD root) ∧
    (branchTreeTable root brs).2 = -1 :: brs.map (fun b => b.headD root) := by
  exact ⟨rfl, rfl⟩

-- non-vacuity / concrete behaviour (kernel-evaluated)
def exR : Rose := .node 0 [.node 1 [.node 2 [.node 3 [], .node 4 [.node 5 []]], .node 6 []]]
example : branchesOf exR = [[0, 1], [1, 2], [2, 4, 5], [2, 3], [1, 6]] := by decide +kernel
example : branchesOf (.node 0 [.node 1 [.node 2 []]]) = [[0, 1, 2]] := by decide +kernel
example : branchesOf (.node 0 []) = [] := by decide +kernel
example : (branchesOf exR).flatMap pairs = [(0, 1), (1, 2), (2, 4), (4, 5), (2, 3), (1, 6)] := by decide +kernel
example : pathsOf exR = [[0, 1, 2, 3], [0, 1, 2, 4, 5], [0, 1, 6]] := by decide +kernel

end C08
