import SwcVerif.Model.Branches
import SwcVerif.Proofs.Traverse
import Mathlib.Data.List.Perm.Basic
/-! # C08 — branches, paths, tips and furcations decompose the tree exactly

The traversal loop is C04's machine (`Trav.main`); the callbacks are the models of
`collect_branches`, `assign_path`/`collect_path`, `collect_furcations` (`Model/Branches.lean`, tied to the
code by the `c08.decomp` correspondence).  All statements are for every rose `r` that represents the
table (any shape, depth, distinct numbering); degrees are read off the table (`tableKids`). -/
namespace C08
open Trav Branches

/-- consecutive pairs of a list: the edges a branch / path runs along -/
def pairs : List Int → List (Int × Int)
  | a :: b :: t => (a, b) :: pairs (b :: t)
  | _ => []

-- the (parent, child) edges of a rose
mutual
def edges : Rose → List (Int × Int)
  | .node i ks => ks.map (fun k => (i, k.id)) ++ edgesL ks
def edgesL : List Rose → List (Int × Int)
  | [] => []
  | r :: rs => edges r ++ edgesL rs
end

-- ids of the childless nodes, in table (pre-)order
mutual
def tipsOf : Rose → List Int
  | .node i [] => [i]
  | .node _ (k :: ks) => tipsOfL (k :: ks)
def tipsOfL : List Rose → List Int
  | [] => []
  | r :: rs => tipsOf r ++ tipsOfL rs
end

-- ids of the nodes with two or more children
mutual
def furcsOf : Rose → List Int
  | .node i ks => (if ks.length > 1 then [i] else []) ++ furcsOfL ks
def furcsOfL : List Rose → List Int
  | [] => []
  | r :: rs => furcsOf r ++ furcsOfL rs
end

/-- the value `collect_branches` computes for a rose (structural recursion = what the loop computes, C04) -/
def branchVal (r : Rose) : BVal := (spec bEnter bLeave r none ()).2
/-- `get_branches` of a rose -/
def branchesOf (r : Rose) : List (List Int) := finish (branchVal r)

/-! ## helper lemmas -/

mutual
theorem rose_ind {P : Rose → Prop} (h : ∀ i ks, (∀ k ∈ ks, P k) → P (.node i ks)) : ∀ r, P r
  | .node i ks => h i ks (rose_indL h ks)
theorem rose_indL {P : Rose → Prop} (h : ∀ i ks, (∀ k ∈ ks, P k) → P (.node i ks)) : ∀ ks : List Rose, ∀ k ∈ ks, P k
  | [] => by simp
  | r :: rs => by
    intro k hk
    simp only [List.mem_cons] at hk
    rcases hk with h1 | h1
    · rw [h1]; exact rose_ind h r
    · exact rose_indL h rs k h1
end

theorem edgesL_eq (ks : List Rose) : edgesL ks = ks.flatMap edges := by
  induction ks with
  | nil => simp [edgesL]
  | cons r rs ih => simp [edgesL, ih]
theorem tipsOfL_eq (ks : List Rose) : tipsOfL ks = ks.flatMap tipsOf := by
  induction ks with
  | nil => simp [tipsOfL]
  | cons r rs ih => simp [tipsOfL, ih]
theorem furcsOfL_eq (ks : List Rose) : furcsOfL ks = ks.flatMap furcsOf := by
  induction ks with
  | nil => simp [furcsOfL]
  | cons r rs ih => simp [furcsOfL, ih]
theorem idsL_eq (ks : List Rose) : idsL ks = ks.flatMap Rose.ids := by
  induction ks with
  | nil => simp [idsL]
  | cons r rs ih => simp [idsL, ih]
theorem agreesL_iff (kidsOf : Int → List Int) (ks : List Rose) : AgreesL kidsOf ks ↔ ∀ k ∈ ks, Agrees kidsOf k := by
  induction ks with
  | nil => simp [AgreesL]
  | cons r rs ih => simp [AgreesL, ih]

theorem spec_b (r : Rose) (pv : Option Unit) (s : Unit) : spec bEnter bLeave r pv s = ((), branchVal r) := by
  cases r; rfl
theorem specRev_b (ks : List Rose) (cur : Unit) (s : Unit) : specRev bEnter bLeave ks cur s = ((), ks.map branchVal) := by
  induction ks with
  | nil => rfl
  | cons r rs ih => simp [specRev, ih, spec_b]
theorem branchVal_node (i : Int) (ks : List Rose) : branchVal (.node i ks) = collectBranches i (ks.map branchVal) := by
  simp [branchVal, spec, specRev_b, bLeave, bEnter]

theorem cb_nil (i : Int) : collectBranches i [] = ([], [i]) := rfl
theorem cb_one (i : Int) (p : BVal) : collectBranches i [p] = (p.1, p.2 ++ [i]) := by cases p; rfl
theorem cb_many (i : Int) (p q : BVal) (t : List BVal) : collectBranches i (p :: q :: t) =
    ((p :: q :: t).flatMap (fun sc => (sc.1 ++ [(sc.2 ++ [i]).reverse]).reverse), [i]) := rfl


/-- the loop computes `branchesOf` (instance of C04's core theorem) -/
theorem getBranches_eq (ids pids : List Int) (r : Rose) (h : Represents r ids pids) :
    getBranches ids pids r.id (2 * r.size) = branchesOf r := by
  have hm := main (tableKids ids pids) bEnter bLeave r h.1 h.2 [] (fun _ => none) (fun _ => none) ()
  obtain ⟨_, _, h3, _, _⟩ := hm
  simp only [getBranches, init]
  rw [h3]
  rfl

/-- **The branches partition the edges**: listing the consecutive node pairs of all branches gives every
parent–child edge of the tree exactly once (a permutation of the edge list). -/
theorem branches_partition_edges (r : Rose) :
    ((branchesOf r).flatMap pairs).Perm (edges r) := by
  sorry

/-- **Shape of every branch**: it has at least two nodes, starts at the root or at a furcation, ends at a
furcation or a tip, and has only pass-through (one-child) nodes in between. -/
theorem branch_shape (kidsOf : Int → List Int) (r : Rose) (hA : Agrees kidsOf r) (b : List Int) (hb : b ∈ branchesOf r) :
    ∃ top mid last, b = top :: (mid ++ [last]) ∧
      (top = r.id ∨ 2 ≤ (kidsOf top).length) ∧
      (∀ m ∈ mid, (kidsOf m).length = 1) ∧
      ((kidsOf last).length = 0 ∨ 2 ≤ (kidsOf last).length) := by
  sorry

/-- the end points of the branches are exactly the non-root furcations and tips, each once
(so `BranchTree.from_tree` keeps exactly root ∪ furcations ∪ tips) -/
theorem branch_ends (r : Rose) (hD : r.ids.Nodup) :
    ((branchesOf r).map (fun b => b.getLastD r.id)).Perm
      ((furcsOf r ++ tipsOf r).erase r.id) := by
  sorry

/-- `get_paths` of a rose -/
def pathsOf (r : Rose) : List (List Int) := (spec pEnter pLeave r none (fun _ => none)).2

theorem getPaths_eq (ids pids : List Int) (r : Rose) (h : Represents r ids pids) :
    getPaths ids pids r.id (2 * r.size) = pathsOf r := by
  have hm := main (tableKids ids pids) pEnter pLeave r h.1 h.2 [] (fun _ => none) (fun _ => none) (fun _ => none)
  obtain ⟨_, _, h3, _, _⟩ := hm
  simp only [getPaths, init]
  rw [h3]
  rfl

/-- **exactly one root-to-tip path per tip**: the paths' end points are the tips, in order, each path
starts at the root and runs along parent–child edges -/
theorem paths_one_per_tip (r : Rose) :
    (pathsOf r).map (fun p => p.getLastD r.id) = tipsOf r ∧
    (∀ p ∈ pathsOf r, p.head? = some r.id ∧ ∀ e ∈ pairs p, e ∈ edges r) := by
  sorry

theorem tableKids_nil_iff : ∀ (ids pids : List Int), ids.length = pids.length →
    ∀ j, tableKids ids pids j = [] ↔ j ∉ pids
  | [], [], _, j => by simp [tableKids]
  | [], _ :: _, h, j => by simp at h
  | _ :: _, [], h, j => by simp at h
  | i :: is, p :: ps, h, j => by
    simp only [tableKids]
    have ih := tableKids_nil_iff is ps (by simpa using h) j
    by_cases hp : p = j
    · simp [hp]
    · have hp' : ¬ j = p := fun e => hp e.symm
      simp [hp, hp', ih]

/-- **tips are exactly the childless nodes** (`setdiff1d(ids, pids)`) -/
theorem tips_eq_childless (ids pids : List Int) (hl : ids.length = pids.length) (j : Int) :
    j ∈ getTips ids pids ↔ j ∈ ids ∧ tableKids ids pids j = [] := by
  rw [tableKids_nil_iff ids pids hl j]
  simp [getTips, List.mem_filter]

/-- the childless nodes of the table are the leaves of the rose -/
theorem tipsOf_childless (kidsOf : Int → List Int) (r : Rose) (hA : Agrees kidsOf r) (j : Int) :
    j ∈ tipsOf r ↔ j ∈ r.ids ∧ kidsOf j = [] := by
  revert hA j
  induction r using rose_ind with
  | h i ks ih =>
    intro hA j
    simp only [Agrees] at hA
    obtain ⟨hk, hAL⟩ := hA
    rw [agreesL_iff] at hAL
    cases ks with
    | nil =>
      simp only [tipsOf, Rose.ids, idsL, List.mem_singleton]
      constructor
      · rintro rfl; exact ⟨rfl, by simpa using hk⟩
      · exact fun h => h.1
    | cons k ks' =>
      simp only [tipsOf, tipsOfL_eq, Rose.ids, idsL_eq, List.mem_flatMap, List.mem_cons]
      constructor
      · rintro ⟨k', hk', hj⟩
        have := (ih k' hk' (hAL k' hk') j).1 hj
        exact ⟨Or.inr ⟨k', hk', this.1⟩, this.2⟩
      · rintro ⟨hj | ⟨k', hk', hj⟩, h0⟩
        · subst hj; rw [hk] at h0; simp at h0
        · exact ⟨k', hk', (ih k' hk' (hAL k' hk') j).2 ⟨hj, h0⟩⟩

theorem specRev_len {σ T K : Type} (enter : σ → Int → Option T → σ × T) (leave : σ → Int → List K → σ × K) :
    ∀ (ks : List Rose) (cur : T) (s : σ), (specRev enter leave ks cur s).2.length = ks.length
  | [], _, _ => rfl
  | r :: rs, cur, s => by simp [specRev, specRev_len enter leave rs cur s]

-- the accumulator of `collect_furcations` after a subtree: what it was, plus the subtree's furcations
mutual
theorem spec_f : ∀ (r : Rose) (pv : Option Unit) (acc : List Int),
    (spec fEnter fLeave r pv acc).1.Perm (acc ++ furcsOf r)
  | .node i ks, pv, acc => by
    simp only [spec, fEnter, fLeave, furcsOf]
    have h := specRev_f ks () acc
    rw [specRev_len]
    split
    · refine (h.append_right [i]).trans ?_
      rw [List.perm_iff_count]; intro a
      simp only [List.count_append]; omega
    · simpa using h
theorem specRev_f : ∀ (ks : List Rose) (cur : Unit) (acc : List Int),
    (specRev fEnter fLeave ks cur acc).1.Perm (acc ++ furcsOfL ks)
  | [], _, acc => by simp [specRev, furcsOfL]
  | r :: rs, cur, acc => by
    simp only [specRev, furcsOfL]
    have h1 := specRev_f rs cur acc
    have h2 := spec_f r (some cur) (specRev fEnter fLeave rs cur acc).1
    refine h2.trans ((h1.append_right _).trans ?_)
    rw [List.perm_iff_count]; intro a
    simp only [List.count_append]; omega
end

/-- **furcations are exactly the nodes with two or more children** -/
theorem furcations_eq (ids pids : List Int) (r : Rose) (h : Represents r ids pids) :
    (getFurcations ids pids r.id (2 * r.size)).Perm (furcsOf r) := by
  have hm := main (tableKids ids pids) fEnter fLeave r h.1 h.2 [] (fun _ => none) (fun _ => none) []
  obtain ⟨_, h2, _, _, _⟩ := hm
  simp only [getFurcations, init]
  rw [h2]
  simpa using spec_f r none []

theorem furcsOf_ge2 (kidsOf : Int → List Int) (r : Rose) (hA : Agrees kidsOf r) (hD : r.ids.Nodup) (j : Int) :
    j ∈ furcsOf r ↔ j ∈ r.ids ∧ 2 ≤ (kidsOf j).length := by
  clear hD
  revert hA j
  induction r using rose_ind with
  | h i ks ih =>
    intro hA j
    simp only [Agrees] at hA
    obtain ⟨hk, hAL⟩ := hA
    rw [agreesL_iff] at hAL
    have hlen : (kidsOf i).length = ks.length := by rw [hk]; simp
    simp only [furcsOf, furcsOfL_eq, Rose.ids, idsL_eq, List.mem_append, List.mem_flatMap, List.mem_cons]
    constructor
    · rintro (hj | ⟨k', hk', hj⟩)
      · split at hj
        · simp only [List.mem_singleton] at hj
          subst hj; exact ⟨Or.inl rfl, by omega⟩
        · simp at hj
      · have := (ih k' hk' (hAL k' hk') j).1 hj
        exact ⟨Or.inr ⟨k', hk', this.1⟩, this.2⟩
    · rintro ⟨hj | ⟨k', hk', hj⟩, h2⟩
      · subst hj
        left
        rw [if_pos (by omega)]; simp
      · exact Or.inr ⟨k', hk', (ih k' hk' (hAL k' hk') j).2 ⟨hj, h2⟩⟩

/-- **the branch tree's table**: one node for the root and one per branch end; each hangs from the
head of its branch — i.e. nodes = root ∪ furcations ∪ tips joined as the branches join them -/
theorem branchTree_table (root : Int) (brs : List (List Int)) :
    (branchTreeTable root brs).1 = root :: brs.map (fun b => b.getLastD root) ∧
    (branchTreeTable root brs).2 = -1 :: brs.map (fun b => b.headD root) := by
  exact ⟨rfl, rfl⟩

-- non-vacuity / concrete behaviour (kernel-evaluated)
def exR : Rose := .node 0 [.node 1 [.node 2 [.node 3 [], .node 4 [.node 5 []]], .node 6 []]]
example : branchesOf exR = [[0, 1], [1, 2], [2, 4, 5], [2, 3], [1, 6]] := by decide +kernel
example : branchesOf (.node 0 [.node 1 [.node 2 []]]) = [[0, 1, 2]] := by decide +kernel
example : branchesOf (.node 0 []) = [] := by decide +kernel
example : (branchesOf exR).flatMap pairs = [(0, 1), (1, 2), (2, 4), (4, 5), (2, 3), (1, 6)] := by decide +kernel
example : pathsOf exR = [[0, 1, 2, 3], [0, 1, 2, 4, 5], [0, 1, 6]] := by decide +kernel

end C08
