import SwcVerif.Props.C19Front
import SwcVerif.Refine.PopMap
/-! # C19, `Population.find_swcs` / `Population.map` tied to the source by the translator

`Gen/AlgoPopMap.lean` is regenerated on every run from `swcgeom/core/population.py`: `Population.find_swcs` (`os.walk(root)` is DATA: the list
of `(dirpath, dirnames, filenames)` it yields; `os.path.relpath`, `os.path.splitext(·)[-1]`, `os.path.join` are pure function parameters about
which nothing is assumed), `LazyLoadingTrees.__iter__`, `Population.map` (the mapped function a pure function parameter — it runs in worker
processes; the executor is glue: `Executor.map` / `process_map` = the results in input order), `filter_population` (executed only). -/
namespace C19
open Pop Gen.Algo RefinePop RefinePopFront RefinePopMap

/-! ## `find_swcs` -/

/-- **the extension filter and the walk order** — for the generated `find_swcs`, every walk, root, extension, flag and path functions: it
returns (never raises) exactly the list `walk.flatMap foundIn`; so a path is listed iff it is `join d name` for a walked directory `(dir, _, files)`,
`name ∈ files` with `splitext(name)[-1] = ext` (EQUALITY: `".swc"` does not match `".SWC"` or `".swc.bak"`), `d` = `dir` or its `relpath` to the root -/
theorem generated_find_swcs (relpath_of : String → String → String) (ext_of : String → String) (join : String → String → String)
    (walk : List (String × List String × List String)) (root ext : String) (rel : Bool) :
    find_swcs relpath_of ext_of join walk root ext rel = some (walk.flatMap (foundIn relpath_of ext_of join root ext rel)) ∧
    ∀ p, p ∈ walk.flatMap (foundIn relpath_of ext_of join root ext rel) ↔
      ∃ e ∈ walk, ∃ name ∈ e.2.2, ext_of name = ext ∧ p = join (if rel then relpath_of e.1 root else e.1) name := by
  refine ⟨find_swcs_refines _ _ _ _ _ _ _, fun p => ?_⟩
  simp only [List.mem_flatMap, foundIn, List.mem_map, List.mem_filter, decide_eq_true_eq]
  constructor
  · rintro ⟨e, he, name, ⟨hn, hx⟩, rfl⟩; exact ⟨e, he, name, hn, hx, rfl⟩
  · rintro ⟨e, he, name, hn, hx, rfl⟩; exact ⟨e, he, name, ⟨hn, hx⟩, rfl⟩

/-- the walk order is kept: the files of an earlier directory come before those of a later one, and within a directory the listing order -/
theorem generated_find_swcs_order (relpath_of : String → String → String) (ext_of : String → String) (join : String → String → String)
    (w1 w2 : List (String × List String × List String)) (root ext : String) (rel : Bool) :
    find_swcs relpath_of ext_of join (w1 ++ w2) root ext rel =
      (find_swcs relpath_of ext_of join w1 root ext rel).bind fun a =>
        (find_swcs relpath_of ext_of join w2 root ext rel).map fun b => a ++ b := by
  simp [find_swcs_refines]

example : find_swcs (fun r root => "rel:" ++ r ++ ":" ++ root) (fun f => if f = "a.swc" || f = "c.swc" then ".swc" else "") (fun a b => a ++ "/" ++ b)
    [("/r", [], ["a.swc", "b.txt"]), ("/r/s", ["x"], ["c.swc"])] "/r" ".swc" true = some ["rel:/r:/r/a.swc", "rel:/r/s:/r/c.swc"] := by
  rw [find_swcs_refines]; decide +kernel

/-! ## `map` after every history of accesses -/

/-- the population and the read log after a history of front-end accesses (`frontStep` of C19Front) -/
def frontState (p : Population) (log : List Int) (ops : List FOp) : Population × List Int :=
  ops.foldl (fun st op => (frontStep st.1 st.2 op).1) (p, log)

theorem frontStep_inv_len (op : FOp) (g : LazyLoadingTrees) (root : String) (l : Lazy) (h : LRep g l) (hi : LInv l) :
    ∃ g' l', (frontStep ⟨g, root⟩ (castL l.log) op).1 = (⟨g', root⟩, castL l'.log) ∧ LRep g' l' ∧ LInv l' ∧ l'.len = l.len := by
  cases op with
  | get key =>
    have hr := pop_getitem_int_refines h root key
    cases hk : l.get key with
    | none =>
      simp only [hk] at hr
      exact ⟨g, l, by rw [frontStep_get, hr], h, hi, rfl⟩
    | some r =>
      obtain ⟨l', k⟩ := r
      simp only [hk] at hr
      obtain ⟨g', e, r'⟩ := hr
      exact ⟨g', l', by rw [frontStep_get, e], r', get_inv l key l' k hi hk, ((get_returns l key).1 l' k hk).2.1⟩
  | slice s key =>
    have hs := pop_getitem_slice_refines h root s
    cases hidx : (Py.PF.sliceIndices s (l.len : Int)).bind Py.PF.range3 with
    | none =>
      rw [hidx] at hs
      simp only [Option.map_none] at hs
      exact ⟨g, l, by rw [frontStep_slice, hs], h, hi, rfl⟩
    | some idx =>
      rw [hidx] at hs
      simp only [Option.map_some] at hs
      have hn := nestl_getitem_refines h idx key
      cases hj : Py.idx idx key with
      | none =>
        simp only [hj] at hn
        exact ⟨g, l, by rw [frontStep_slice, hs]; simp only [hn], h, hi, rfl⟩
      | some j =>
        cases hk : l.get j with
        | none =>
          simp only [hj, hk] at hn
          exact ⟨g, l, by rw [frontStep_slice, hs]; simp only [hn], h, hi, rfl⟩
        | some r =>
          obtain ⟨l', k⟩ := r
          simp only [hj, hk] at hn
          obtain ⟨g', e, r'⟩ := hn
          exact ⟨g', l', by rw [frontStep_slice, hs]; simp only [e], r', get_inv l j l' k hi hk, ((get_returns l j).1 l' k hk).2.1⟩

theorem frontState_inv : ∀ (ops : List FOp) (g : LazyLoadingTrees) (root : String) (l : Lazy), LRep g l → LInv l →
    ∃ g' l', frontState ⟨g, root⟩ (castL l.log) ops = (⟨g', root⟩, castL l'.log) ∧ LRep g' l' ∧ LInv l' ∧ l'.len = l.len := by
  intro ops
  induction ops with
  | nil => intro g root l h hi; exact ⟨g, l, rfl, h, hi, rfl⟩
  | cons op ops ih =>
    intro g root l h hi
    obtain ⟨g1, l1, e1, r1, i1, n1⟩ := frontStep_inv_len op g root l h hi
    obtain ⟨g', l', e, r', i', n'⟩ := ih g1 root l1 r1 i1
    refine ⟨g', l', ?_, r', i', by rw [n', n1]⟩
    simp only [frontState, List.foldl_cons] at e ⊢
    rw [e1]; exact e

theorem castL_nodup (l : List Nat) (h : l.Nodup) : (castL l).Nodup :=
  List.Pairwise.map _ (fun a b hab c => hab (Int.ofNat.inj c)) h

/-- **`Population.map` on any population over a lazy container** (generated code, any state `l` of the container with the no-repetition
invariant, EVERY function `fn`): one result per file, result `i` = `fn(tree of file i)`, in order; afterwards the read log still has no
repetition and extends the log before the call -/
theorem generated_map_results {g : LazyLoadingTrees} {l : Lazy} (h : LRep g l) (hi : LInv l) (root : String) (fn : Option Int → Int) :
    ∃ p' log' rs, pop_map readLog fn ⟨g, root⟩ (castL l.log) = some (p', log', rs) ∧
      rs.length = l.len ∧ (∀ i, i < l.len → rs[i]? = some (fn (some (i : Int)))) ∧
      log'.Nodup ∧ ∃ more, log' = castL l.log ++ more := by
  obtain ⟨g', e, r'⟩ := pop_map_refines h root fn
  refine ⟨_, _, _, e, by simp, ?_, ?_, ?_⟩
  · intro i hi'; simp [hi']
  · exact castL_nodup _ (foldl_load_inv _ l hi).1
  · obtain ⟨more, hm⟩ := foldl_load_log (List.range l.len) l
    exact ⟨castL more, by simp [Lazy.iterAll, hm, castL]⟩

/-- **mapping a function over a population returns one result per tree in order, and each file is read at most once** — by the code as
translated, composed with `generated_front_load_at_most_once`: build `Population(LazyLoadingTrees(n files))` with the generated constructor
(probe of file 0), access it through ANY history of `pop[i]` / `pop[a:b:c][k]`, then call the generated `map` with ANY `fn`: it returns `n`
results, result `i` = `fn(tree of file i)`, and the whole read log (constructor + history + map) has no repetition -/
theorem generated_map_load_at_most_once (n : Nat) (root : String) (p0 : Population) (ops : List FOp) (fn : Option Int → Int) :
    ∃ p, pop_init readLog p0 (genInit n) root [] = some (p, castL (populationInit n).log, ()) ∧
      ∃ p' log' rs, pop_map readLog fn (frontState p (castL (populationInit n).log) ops).1 (frontState p (castL (populationInit n).log) ops).2 =
          some (p', log', rs) ∧
        rs.length = n ∧ (∀ i, i < n → rs[i]? = some (fn (some (i : Int)))) ∧ log'.Nodup := by
  obtain ⟨g', e, r'⟩ := pop_init_refines (genInit_rep n) p0 root
  have h0 : castL (Lazy.init n).log = [] := by simp [Lazy.init, castL]
  have hp : (if (Lazy.init n).len > 0 then (Lazy.init n).load 0 else Lazy.init n) = populationInit n := by
    simp [populationInit, init_len]
  rw [h0, hp] at e
  rw [hp] at r'
  refine ⟨⟨g', root⟩, e, ?_⟩
  obtain ⟨g2, l2, e2, r2, i2, n2⟩ := frontState_inv ops g' root _ r' (popInit_inv n)
  rw [e2]
  obtain ⟨p', log', rs, em, hl, hr, hnd, _⟩ := generated_map_results r2 i2 root fn
  rw [n2, popInit_len] at hl hr
  exact ⟨p', log', rs, em, hl, hr, hnd⟩

/-- non-vacuity (kernel-evaluated): 4 files, `pop[2]` first, then `map` with `fn(tree k) = 10 k + 1`: file 0 (probe) and 2 are not read again -/
example : (pop_init readLog default (genInit 4) "" []).bind (fun r =>
      let st := frontState r.1 r.2.1 [.get 2]
      (pop_map readLog (fun t => match t with | some k => 10 * k + 1 | none => -1) st.1 st.2).map fun q => (q.2.1, q.2.2)) =
    some ([0, 2, 1, 3], [1, 11, 21, 31]) := by decide +kernel

end C19
