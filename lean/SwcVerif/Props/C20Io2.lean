import SwcVerif.Props.C20Gen
import SwcVerif.Props.C20Io
import SwcVerif.Refine.ImgIo2
/-! # C20: rasterise → stack → write → read back, for the code as translated (`Gen/AlgoImgIo2.lean`, `harness/algo_specs/18c_imgio2.py`)

`ToImageStack.__call__`, `save_tif`, `transform_and_save`, `transform` INCLUDING its frame conversion, the codec-backed constructors and the two
`get_full`s are regenerated on every run and proved equal to closed forms in `Refine/ImgIo2.lean`.  Below, the property's statements:
the array `ToImageStack(res)(tree)` is `(Z, X, Y)` — one plane per slice of the model grid, plane `z` holding `uint8(255 · answer_z[x, y, 0, 0])`
of the sampler's answer for the `z`-th model sampler — and `transform_and_save` followed by `read_imgs` (the translated `TiffImageStack.__init__`
on the series the codec model `Py.tifSeries` makes of the writes) gives the `(X, Y, Z, 1)` stack with the same values, EXCEPT for a raster of one
plane (AssertionError) or none.  Outside: the sdflit sampler (an arbitrary stateful callback), tifffile (`Py.tifSeries`, executed against the real
library by the suite `c20.imgio2-gen`), `astype` on one value (`cast`). -/
set_option linter.unusedSectionVars false
set_option linter.unusedSimpArgs false
namespace C20
open Py Gen.Algo RefineImgIo RefineImgIo2 RefineRaster Img

section generic
variable {K : Type} [Inhabited K] [Add K] [Sub K] [Mul K] [OfNat K 0] [OfNat K 1] [LT K] [DecidableLT K] [LE K] [DecidableLE K]

/-- **`ToImageStack.__call__`: the layout is `(Z, X, Y)`** — for `n ≥ 1` frames of shape `(X, Y)` the array has shape `(n, X, Y)` and
`img[z, x, y] = frames[z][x, y]` -/
theorem generated_call_layout (f : NdArr K) (fs : List (NdArr K)) (X Y : Nat) (h : ∀ b ∈ f :: fs, b.shape = [X, Y]) :
    ∃ img, tostack_call (f :: fs) = some img ∧ img.shape = [fs.length + 1, X, Y] ∧ img.dtype = f.dtype ∧
      ∀ z x y, z < fs.length + 1 → img.get [z, x, y] = ((f :: fs)[z]?.getD f).get [x, y] := by
  obtain ⟨s, h1, h2, h3, h4⟩ := stack0_spec f fs [X, Y] h
  exact ⟨s, by rw [tostack_call_eq, h1], h2, h3, fun z x y hz => h4 z [x, y] hz⟩

/-- no frame (no voxel centre between bottom and top of the box): `np.stack` raises ValueError — the known finding `raster-empty-z-grid-raises` -/
theorem generated_call_empty : tostack_call ([] : List (NdArr K)) = none := by rw [tostack_call_eq]; rfl

/-- **what `transform_and_save` writes**: one contiguous `minisblack` page per frame, in order, each with the axes metadata `ZXY` -/
theorem generated_save_tif_writes (fname : String) (frames : List (NdArr K)) :
    ∃ ws, tostack_transform_and_save fname frames = some (ws, ()) ∧ ws.length = frames.length ∧
      ∀ k (hk : k < frames.length), ws[k]? = some { frame := frames[k], contiguous := true, photometric := "minisblack", axes := ['Z', 'X', 'Y'] } := by
  refine ⟨frames.map tifWriteOf, transform_and_save_eq fname frames, by simp, fun k hk => ?_⟩
  simp [hk, tifWriteOf]

/-- **raster file round trip** (`transform_and_save`, then `read_imgs` = the translated `TiffImageStack.__init__` on the series of the file): for
TWO OR MORE frames of shape `(X, Y)` the stack read back is `(X, Y, Z, 1)`, without a warning, and
`stack[x, y, z, 0] = loadElt(frames[z][x, y])` — the `(Z, X, Y)` ↔ `(X, Y, Z, C)` bookkeeping of writer and reader agree -/
theorem generated_raster_file_roundtrip (F : Py.Fld K) (cast : DType → K → K) (fname : String) (f g : NdArr K) (fs : List (NdArr K)) (X Y : Nat)
    (h : ∀ b ∈ f :: g :: fs, b.shape = [X, Y]) (rd : Option DType) :
    ∃ ws w r, tostack_transform_and_save fname (f :: g :: fs) = some (ws, ()) ∧ tifSeries ws = some (w, ['Z', 'X', 'Y']) ∧
      tiff_init F cast w ['Z', 'X', 'Y'] rd = some ([], r) ∧ r.shape = [X, Y, fs.length + 2, 1] ∧ r.dtype = rd.getD f.dtype ∧
      ∀ x y z, z < fs.length + 2 → r.get [x, y, z, 0] = loadElt F cast f.dtype rd (((f :: g :: fs)[z]?.getD f).get [x, y]) := by
  obtain ⟨s, h1, h2, h3, h4⟩ := stack0_spec f (g :: fs) [X, Y] h
  obtain ⟨r, hr, hr1, hr2, hr3⟩ := generated_load_layout_3d F cast s X Y (fs.length + 2) (by simpa using h2) rd
  refine ⟨_, s, r, transform_and_save_eq fname _, ?_, hr, hr1, by rw [hr2, h3], fun x y z hz => ?_⟩
  · simp only [List.map_cons, tifSeries, List.map_map]
    have : (fun x : NdArr K => (tifWriteOf x).frame) = id := by funext x; rfl
    simp only [Function.comp_def, tifWriteOf] at *
    simpa [this] using h1
  · rw [hr3, h3, h4 z [x, y] (by simpa using hz)]

/-- **a raster of ONE plane cannot be read back**: the file holds a single 2-d page, whose series is `(X, Y)` with the axes string `YX`; the
reader transposes it and `NDArrayImageStack.__init__` fails its rank assertion (AssertionError) — the known finding
`raster-file-single-plane-raises`, here for the code as translated -/
theorem generated_raster_file_single_plane (F : Py.Fld K) (cast : DType → K → K) (fname : String) (f : NdArr K) (X Y : Nat) (h : f.shape = [X, Y])
    (rd : Option DType) :
    ∃ ws, tostack_transform_and_save fname [f] = some (ws, ()) ∧ tifSeries ws = some (f, ['Y', 'X']) ∧ tiff_init F cast f ['Y', 'X'] rd = none := by
  refine ⟨_, transform_and_save_eq fname _, rfl, ?_⟩
  rw [tiff_init_eq]
  have hv : axesValid 2 ['Y', 'X'] = true := by decide
  have ho : ordersOf ['Y', 'X'] = some [1, 0] := by decide
  have ha : Py.argsort [1, 0] = [1, 0] := by decide
  have hp : isPerm 2 [1, 0] = true := by decide
  simp [loadModel, effAxes, h, hv, ho, ha, transpose, hp, ndModel, promote]

/-- no frame: the file has no series -/
theorem generated_raster_file_empty (fname : String) :
    ∃ ws, tostack_transform_and_save (K := K) fname [] = some (ws, ()) ∧ tifSeries ws = none :=
  ⟨_, transform_and_save_eq fname _, rfl⟩

/-- the constructors of the other codecs ARE `NDArrayImageStack.__init__` on the array the codec returns: every statement of `Props/C20Io.lean`
about `ndarray_init` holds for them -/
theorem generated_codec_inits (F : Py.Fld K) (cast : DType → K → K) (imgs : NdArr K) (dt : Option DType) :
    nrrd_init F cast imgs dt = ndarray_init F cast imgs dt ∧ v3d_init F cast imgs dt = ndarray_init F cast imgs dt ∧
    v3draw_init F cast imgs dt = ndarray_init F cast imgs dt ∧ v3dpbd_init F cast imgs dt = ndarray_init F cast imgs dt := by
  simp [nrrd_init_eq, v3d_init_eq, v3draw_init_eq, v3dpbd_init_eq, ndarray_init_eq]

/-- **`ImageStack.get_full` of a constructed stack is its array** (a stack built by `NDArrayImageStack.__init__` is 4-d), and
`GrayImageStack.get_full` is its first channel -/
theorem generated_get_full (imgs : NdArr K) (X Y Z C : Nat) (hs : imgs.shape = [X, Y, Z, C]) :
    imagestack_get_full imgs = some imgs ∧ imagestack_get_full imgs = ndarray_get_full imgs ∧
    (0 < C → ∃ g, gray_get_full imgs = some g ∧ g.shape = [X, Y, Z] ∧ ∀ x y z, g.get [x, y, z] = imgs.get [x, y, z, 0]) := by
  refine ⟨by simp [imagestack_get_full_eq, hs], by simp [imagestack_get_full_eq, hs, ndarray_get_full_eq], fun hC => ?_⟩
  obtain ⟨g, h1, h2, _, h4⟩ := (gray_spec imgs X Y Z C hs).1 hC
  exact ⟨g, h1, h2, h4⟩

end generic

/-! ## the whole chain on every tree -/

section tree
variable {σ : Type} [Inhabited σ]

/-- **`ToImageStack(res)(tree)` as translated, on every well-formed tree**: for every stateful sampler whose answers have shape `(X, Y, A, B)`
with `A, B > 0` (sdflit: `(x, y, 1, 3)`), every resolution with positive z whose model grid has at least one slice: the generated `transform`
(frame conversion included) yields the frames, the generated `__call__` stacks them into a `(Z, X, Y)` uint8 array with `Z` = the number of slices
of the model grid (`Img.axisCentres` over `Img.bbox`), and `img[z, x, y] = cast u8 (255 · answer_z[x, y, 0, 0])` where `answer_z` is what the
sampler answered for the `z`-th model sampler on the model scene -/
theorem generated_call_every_tree (sample : σ → Py.RangeSampler Rat → List (Py.Sdf Rat) → σ × NdArr Rat) (cast : DType → Rat → Rat)
    (dist : Int → Int → Rat) (X Y A B : Nat) (hA : 0 < A) (hB : 0 < B) (hshape : ∀ st s sc, (sample st s sc).2.shape = [X, Y, A, B])
    (pts : List Pt) (pids : List Int) (hw : C07.WF pids) (hlen : pts.length = pids.length) (sx sy sz : Rat) (hsz : 0 < sz) (s0 : σ)
    (hpos : 0 < nSlices pts sz) :
    ∃ r : Rose, C06.IsTree r pids ∧ ∀ F : Nat, ∃ frames st img,
      raster_transform_nd sample Py.ratFld Py.ratFlr dist cast (nSlices pts sz + 1 + (2 * r.size + F)) (Sub.rangeI pids.length) pids
          (rowsOf pts) (radii pts) [sx, sy, sz] s0 = some (frames, st, ()) ∧
      tostack_call frames = some img ∧ img.shape = [nSlices pts sz, X, Y] ∧ img.dtype = .u8 ∧
      ∀ z x y, z < nSlices pts sz →
        img.get [z, x, y] = cast .u8 (255 * ((answers sample (sceneRose (edgeSolid dist pts) r)
          (modelSamplers (boxLo pts) (boxHi pts) (sx, sy, sz)) s0)[z]?.getD default).get [x, y, 0, 0]) := by
  obtain ⟨r, hr, _, hsc⟩ := generated_scene_every_tree dist pts pids hw hlen
  refine ⟨r, hr, fun F => ?_⟩
  have hne : pts ≠ [] := by
    intro h
    have := hw.pos
    simp [h] at hlen
    omega
  have hv : VoxOk sample := by
    intro st s sc
    obtain ⟨f, hf, _⟩ := frameOpt_spec cast (sample st s sc).2 X Y A B (hshape st s sc) hA hB
    simp only [frameOpt, Option.map_eq_some_iff] at hf
    obtain ⟨t, ht, _⟩ := hf
    simp [ht]
  have hsc' : raster_get_scene dist (nSlices pts sz + 1 + (2 * r.size + F)) (Sub.rangeI pids.length) pids (rowsOf pts) (radii pts)
      = some (sceneRose (edgeSolid dist pts) r) := by
    have := hsc (nSlices pts sz + F)
    rw [show 2 * r.size + (nSlices pts sz + F) + 1 = nSlices pts sz + 1 + (2 * r.size + F) by omega] at this
    exact this
  have ht := transform_nd_refines sample cast hv dist pts hne sx sy sz hsz _ pids _ (2 * r.size + F) s0 hsc'
  set scene := sceneRose (edgeSolid dist pts) r
  set ss := modelSamplers (boxLo pts) (boxHi pts) (sx, sy, sz) with hss
  have hlen_ss : ss.length = nSlices pts sz := by simp [hss, modelSamplers, nSlices]
  set vox := answers sample scene ss s0 with hvox
  have hvl : vox.length = nSlices pts sz := by rw [hvox, answers_length, hlen_ss]
  have hfr : (runFrames sample (frameOf cast) scene ss (s0, [])).2 = vox.map (frameOf cast) := by
    rw [runFrames_answers]; simp [hvox]
  have hvs : ∀ v ∈ vox, v.shape = [X, Y, A, B] := by
    have : ∀ (l : List (Py.RangeSampler Rat)) (st : σ), ∀ v ∈ answers sample scene l st, v.shape = [X, Y, A, B] := by
      intro l
      induction l with
      | nil => intro st v hv; simp [answers] at hv
      | cons s l ih =>
        intro st v hv
        simp only [answers, List.mem_cons] at hv
        rcases hv with rfl | hv
        · exact hshape _ _ _
        · exact ih _ v hv
    exact this ss s0
  have hfo : ∀ v ∈ vox, (frameOf cast v).shape = [X, Y] ∧ (frameOf cast v).dtype = .u8 ∧
      ∀ x y, (frameOf cast v).get [x, y] = cast .u8 (255 * v.get [x, y, 0, 0]) := by
    intro v hv
    obtain ⟨f, hf, h1, h2, h3⟩ := frameOpt_spec cast v X Y A B (hvs v hv) hA hB
    simp only [frameOf, hf, Option.getD_some]
    exact ⟨h1, h2, h3⟩
  match hvx : vox, hvl with
  | [], hvl => simp at hvl; omega
  | v0 :: vr, hvl =>
    obtain ⟨img, h1, h2, h3, h4⟩ := generated_call_layout (frameOf cast v0) (vr.map (frameOf cast)) X Y (by
      intro b hb
      rw [← List.map_cons] at hb
      obtain ⟨v, hv, rfl⟩ := List.mem_map.mp hb
      exact (hfo v hv).1)
    refine ⟨_, _, img, ht, by rw [hfr]; exact h1, by rw [h2]; simp at hvl ⊢; omega, by rw [h3]; exact (hfo v0 List.mem_cons_self).2.1, ?_⟩
    intro z x y hz
    have hz' : z < (vr.map (frameOf cast)).length + 1 := by simp at hvl ⊢; omega
    rw [h4 z x y hz', ← List.map_cons]
    have hzl : z < (v0 :: vr).length := by simp at hvl ⊢; omega
    simp only [List.getElem?_map, List.getElem?_eq_getElem hzl, Option.map_some, Option.getD_some]
    exact (hfo _ (List.getElem_mem hzl)).2.2 x y

end tree

/-! ## non-vacuity (kernel-evaluated on the GENERATED definitions) -/

/-- two frames `(1, 2)`: stacked to `(2, 1, 2)`; written, read back as `(1, 2, 2, 1)` with `r[x, y, z, 0] = frame_z[x, y]` -/
def exF (k : Rat) : NdArr Rat := NdArr.ofFlat [1, 2] [k, k + 1] .u8
example : (tostack_call [exF 1, exF 5]).map (fun a => (a.shape, a.toFlat)) = some ([2, 1, 2], [1, 2, 5, 6]) := by decide +kernel
example : ((tostack_transform_and_save "f" [exF 1, exF 5]).bind fun p => (tifSeries p.1).bind fun q =>
    (tiff_init Py.ratFld (fun _ x => x) q.1 q.2 none).map fun r => (r.1, r.2.shape, r.2.toFlat)) = some ([], [1, 2, 2, 1], [1, 5, 2, 6]) := by
  decide +kernel
/-- one frame: the file cannot be read back -/
example : ((tostack_transform_and_save "f" [exF 1]).bind fun p => (tifSeries p.1).bind fun q =>
    (tiff_init Py.ratFld (fun _ x => x) q.1 q.2 none).map fun r => r.2.shape) = none := by decide +kernel
/-- the frame conversion on a `(1, 2, 1, 3)` answer -/
example : ((frameOpt (fun _ x => x) (NdArr.ofFlat [1, 2, 1, 3] [1, 0, 0, 0, 0, 0] .f32)).map fun f => (f.shape, f.toFlat)) = some ([1, 2], [255, 0]) := by
  decide +kernel
example : (gray_get_full (NdArr.ofFlat [1, 1, 2, 2] [1, 2, 3, 4] .u8 : NdArr Rat)).map (fun g => (g.shape, g.toFlat)) = some ([1, 1, 2], [1, 3]) := by
  decide +kernel
example : imagestack_get_full (NdArr.ofFlat [1, 2, 2] [1, 2, 3, 4] .u8 : NdArr Rat) = none := by
  rw [imagestack_get_full_eq]; rfl

end C20
