import SwcVerif.Props.C14Gen
import SwcVerif.Refine.VolFront
/-! # C14 for `get_volume` AS THE USER CALLS IT

`Gen.Algo.get_volume_int` / `get_volume_str` are regenerated on every run from `swcgeom/analysis/volume.py::get_volume` (validation of
`accuracy` and `method`, the accuracy names, the dispatch) and call the generated `_get_volume_frustum_cone`; `Gen.Algo.get_volume_mc_only` is
regenerated from `_get_volume_frustum_cone_mc_only`.  `RefineVolFront.get_volume_int_eq` / `get_volume_str_eq` characterise the front for every
input; composed with `C14.generated_volume_eq_model` the level clauses of the property are statements about `get_volume` itself. -/
namespace C14
open Vol Trav Gen.Algo RefineVolume RefineTravFront RefineVolFront

variable (volSphere : Int → ℝ) (volFrustum : Int × Int → ℝ) (volSF : Int → Int × Int → ℝ) (volPairs : Int → List (Int × Int) → ℝ) (mcScene : List Py.Shape → ℝ)

/-- **`get_volume(tree, accuracy=acc)` = the hand-written model**, every tree, every analytic accuracy `1 … 9`, the default method: no exception, and
the value `Vol.treeVolume` computes at that level from the same primitive volumes -/
theorem get_volume_eq_model (acc : Nat) (h1 : 0 < acc) (h9 : acc < 10) (ids pids : List Int) (r : Rose) (h : Represents r ids pids) (h0 : r.id = 0)
    (hok : Rows r ids) (F : Nat) :
    get_volume_int volSphere volFrustum volSF volPairs mcScene (2 * r.size + F + 1) ids pids "frustum_cone" (acc : Int)
      = some (.ok (treeVolume acc (terms volSphere volFrustum volSF volPairs) ids pids r.id (2 * r.size))) := by
  rw [get_volume_int_eq, generated_volume_eq_model volSphere volFrustum volSF volPairs mcScene acc (by omega) ids pids r h h0 hok F]
  have a1 : (0 : Int) < acc := by omega
  have a2 : (acc : Int) ≤ 10 := by omega
  simp [a1, a2]
  omega

/-- **every well-formed tree, every integer accuracy, every method** — the complete behaviour of `get_volume`: `AssertionError` iff the accuracy is
outside `1 … 10`; else `ValueError` iff the method is not `"frustum_cone"`; else at `10` the Monte-Carlo estimate of the scene `sceneOf r` (the generated mc-only routine, called by the generated code), and at `1 … 9` the sum over
the tree of the generated per-node value at that level -/
theorem get_volume_every_tree (pids : List Int) (hw : C07.WF pids) :
    ∃ r : Rose, C06.IsTree r pids ∧ ∀ (method : String) (acc : Int) (F : Nat),
      get_volume_int volSphere volFrustum volSF volPairs mcScene (2 * r.size + F + 1) (Sub.rangeI pids.length) pids method acc
        = if ¬ (0 < acc ∧ acc ≤ 10) then some (.error assertionError)
          else if method ≠ "frustum_cone" then some (.error unsupportedMethod)
          else if acc = 10 then some (.ok (mcScene (sceneOf r)))
          else some (.ok (sumRose (fun i ks => nodeVal acc.toNat (terms volSphere volFrustum volSF volPairs i ks)) r)) := by
  obtain ⟨r, hr, hall⟩ := generated_volume_every_tree volSphere volFrustum volSF volPairs mcScene pids hw
  refine ⟨r, hr, ?_⟩
  intro method acc F
  rw [get_volume_int_eq]
  by_cases hv : 0 < acc ∧ acc ≤ 10
  · by_cases hm : method = "frustum_cone"
    · by_cases h10 : acc = 10
      · subst h10
        have hok : Rows r (Sub.rangeI pids.length) := by
          intro j hj
          have := (C06.isTree_mem hr j).1 hj
          simp only [Sub.rangeI, List.length_map, List.length_range]
          omega
        simp [hm, getVolume_level10, mc_only_refines mcScene _ pids r hr.1 hr.2.2.1 hok F]
      · have hn : acc.toNat ≠ 10 := by omega
        have := hall acc.toNat hn F
        rw [Int.toNat_of_nonneg (by omega)] at this
        simp [hv, hm, h10, this]
    · simp [hv, hm]
  · simp [hv]

/-- **level 1, `get_volume` itself, every tree**: the sum of the node spheres -/
theorem get_volume_level1_every_tree (ids pids : List Int) (r : Rose) (h : Represents r ids pids) (h0 : r.id = 0) (hok : Rows r ids) (F : Nat) :
    get_volume_int volSphere volFrustum volSF volPairs mcScene (2 * r.size + F + 1) ids pids "frustum_cone" 1
      = some (.ok (sumRose (fun i _ => volSphere i) r)) := by
  rw [get_volume_int_eq, generated_level1_every_tree volSphere volFrustum volSF volPairs mcScene ids pids r h h0 hok F]
  simp

/-- **level 2, `get_volume` itself, every tree**: node spheres plus the frusta to the children -/
theorem get_volume_level2_every_tree (ids pids : List Int) (r : Rose) (h : Represents r ids pids) (h0 : r.id = 0) (hok : Rows r ids) (F : Nat) :
    get_volume_int volSphere volFrustum volSF volPairs mcScene (2 * r.size + F + 1) ids pids "frustum_cone" 2
      = some (.ok (sumRose (fun i ks => volSphere i + Py.sumNum (ks.map fun c => volFrustum (i, c))) r)) := by
  rw [get_volume_int_eq, generated_level2_every_tree volSphere volFrustum volSF volPairs mcScene ids pids r h h0 hok F]
  simp

/-- **levels 3 and 4, `get_volume` itself, every tree** (and the name `"low"`, see `get_volume_names`) -/
theorem get_volume_level3_every_tree (acc : Nat) (h3 : 3 ≤ acc) (h5 : acc < 5) (ids pids : List Int) (r : Rose) (h : Represents r ids pids)
    (h0 : r.id = 0) (hok : Rows r ids) (F : Nat) :
    get_volume_int volSphere volFrustum volSF volPairs mcScene (2 * r.size + F + 1) ids pids "frustum_cone" (acc : Int)
      = some (.ok (sumRose (fun i ks => volSphere i + Py.sumNum (ks.map fun c => volFrustum (i, c))
          - Py.sumNum (ks.map fun c => volSF i (i, c)) - Py.sumNum (ks.map fun c => volSF c (i, c))) r)) := by
  rw [get_volume_int_eq, generated_level3_every_tree volSphere volFrustum volSF volPairs mcScene acc h3 h5 ids pids r h h0 hok F]
  have a1 : (0 : Int) < acc := by omega
  have a2 : (acc : Int) ≤ 10 := by omega
  simp [a1, a2]
  omega

/-- **the accuracy names**: `"low"`, `"middle"`, `"high"` are `get_volume` at 3, 5, 8 (whatever the tree, the method, the fuel); every other string
raises `KeyError` before anything else is looked at -/
theorem get_volume_names (fuel : Nat) (ids pids : List Int) (method : String) :
    get_volume_str volSphere volFrustum volSF volPairs mcScene fuel ids pids method "low"
        = get_volume_int volSphere volFrustum volSF volPairs mcScene fuel ids pids method 3
    ∧ get_volume_str volSphere volFrustum volSF volPairs mcScene fuel ids pids method "middle"
        = get_volume_int volSphere volFrustum volSF volPairs mcScene fuel ids pids method 5
    ∧ get_volume_str volSphere volFrustum volSF volPairs mcScene fuel ids pids method "high"
        = get_volume_int volSphere volFrustum volSF volPairs mcScene fuel ids pids method 8
    ∧ ∀ s : String, s ≠ "low" → s ≠ "middle" → s ≠ "high" →
        get_volume_str volSphere volFrustum volSF volPairs mcScene fuel ids pids method s = some (.error keyError) := by
  obtain ⟨e1, e2, e3, e4⟩ := accuracy_names
  refine ⟨by rw [get_volume_str_eq, e1], by rw [get_volume_str_eq, e2], by rw [get_volume_str_eq, e3], ?_⟩
  intro s h1 h2 h3
  rw [get_volume_str_eq, e4 s h1 h2 h3]

/-- **level 10, no hypothesis about the Monte-Carlo value**: `get_volume(tree, accuracy=10)` returns what the Monte-Carlo-only routine returns — the
level-10 branch of the generated `_get_volume_frustum_cone` CALLS the generated `_get_volume_frustum_cone_mc_only` (`RefineVolume.getVolume_level10`) — and
that routine samples exactly the scene `sceneOf r`: for every tree, the union over all nodes, in traversal order, of the node's sphere and the frusta to
its children.  Only the sampler of the finished scene (`mcScene`, sdflit) is a parameter. -/
theorem get_volume_level10 (ids pids : List Int) (r : Rose) (h : Represents r ids pids) (h0 : r.id = 0) (hok : Rows r ids) (F : Nat) :
    get_volume_int volSphere volFrustum volSF volPairs mcScene (2 * r.size + F + 1) ids pids "frustum_cone" 10 = some (.ok (mcScene (sceneOf r))) := by
  rw [get_volume_int_eq, getVolume_level10, mc_only_refines mcScene ids pids r h h0 hok F]
  simp

/-- non-vacuity: `get_volume` kernel-evaluated at `K = Int` on the table of `C04.lean`: levels 1, 2, 3, 5, 10, the three names, the rejected calls -/
example : (([1, 2, 3, 5, 10, 0, 11, -4].map fun acc => get_volume_int (K := Int) (fun i => 1000 + i) (fun f => 100 * f.1 + 10 * f.2)
      (fun s f => s + f.2) (fun s cs => 7 * cs.length) (fun _ => 424242) 11 C04.exIds C04.exPids "frustum_cone" acc)
    ++ (["low", "middle", "high", "Low"].map fun acc => get_volume_str (K := Int) (fun i => 1000 + i) (fun f => 100 * f.1 + 10 * f.2)
      (fun s f => s + f.2) (fun s cs => 7 * cs.length) (fun _ => 424242) 11 C04.exIds C04.exPids "frustum_cone" acc)
    ++ [get_volume_int (K := Int) (fun i => 1000 + i) (fun f => 100 * f.1 + 10 * f.2)
      (fun s f => s + f.2) (fun s cs => 7 * cs.length) (fun _ => 424242) 11 C04.exIds C04.exPids "sphere" 3])
    = [some (.ok 5010), some (.ok 5710), some (.ok 5674), some (.ok 5646), some (.ok 424242), some (.error assertionError), some (.error assertionError),
       some (.error assertionError), some (.ok 5674), some (.ok 5646), some (.ok 5646), some (.error keyError), some (.error unsupportedMethod)] := by
  decide +kernel

end C14
