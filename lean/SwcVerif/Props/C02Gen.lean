import SwcVerif.Refine.Parse
import SwcVerif.Props.C02
/-! # C02, tied to the source by the imperative translator

`Gen.Algo.parse_swc` and `Gen.Algo.file_reader_exit` are regenerated on every run from `swcgeom/core/swc_utils/io.py::parse_swc` (the
`with FileReader(...) as f:` block, `try … except UnicodeDecodeError`, the `for i, line in enumerate(f)` loop with its three-way
classification, the once-only warning, the per-column `vals[i].append(...)`, the `raise ValueError`) and from
`swcgeom/utils/file.py::FileReader.__exit__`.  The text level is abstracted: a line is an opaque value, `rowOf` is `re_swc.search`
(converted groups + "the trailing group is non-empty"), `commentOf` is `RE_COMMENT.match` + the comment text, `isHeader` the
`startswith(ignored_comment)` test, `blank` is `str.isspace`; the file is the list of lines its iterator yields, optionally followed by
the exception it raises.  The theorems below hold for EVERY such list, every failure and every four functions (domain: the seven
standard column names, and at least `7 + |extras|` converted groups per matched row — what the regular expression provides). -/
namespace C02
open Gen.Algo RefineParse

variable {L Val C : Type} [Inhabited L] [Inhabited Val] [Inhabited C]
variable (rowOf : L → Option ((List Val) × Bool)) (commentOf : L → Option C) (isHeader : C → Bool) (blank : L → Bool)

/-- **the generated function is the fold `RefineParse.parseSpec`** (never an untracked exception) -/
theorem generated_parse_eq_spec (cols extras : List String) (reader : FileReader) (stream : Py.Stream L)
    (hc : cols.length = 7) (hk : ∀ l fs t, rowOf l = some (fs, t) → 7 + extras.length ≤ fs.length) :
    parse_swc rowOf commentOf isHeader blank cols extras reader stream
      = some (parseSpec rowOf commentOf isHeader blank cols extras reader stream) :=
  parse_refines rowOf commentOf isHeader blank cols extras reader stream hc hk

/-- the table the generated function returns for the data rows `rows`: one column per key, filled row by row -/
def tableOf (cols extras : List String) (rows : List (List Val)) : Py.Dict String (List Val) :=
  Py.Dict.ofZip (cols ++ extras) (rows.foldl appendRow (List.replicate (cols.length + extras.length) []))

/-- **Reading succeeds exactly when no line is invalid** (file without decode failure), and then returns the table of ALL data rows in
file order, the kept comments in order, one warning naming the first row with ignored fields (none if there is no such row), and has
closed the file. -/
theorem generated_read_ok_iff (cols extras : List String) (reader : FileReader) (ls : List L)
    (hc : cols.length = 7) (hk : ∀ l fs t, rowOf l = some (fs, t) → 7 + extras.length ≤ fs.length)
    (ws : List Py.Exc) (rd : FileReader) (df : Py.Dict String (List Val)) (cs : List C) :
    parse_swc rowOf commentOf isHeader blank cols extras reader ⟨ls, none⟩ = some (ws, rd, .ok (df, cs)) ↔
      (∀ l ∈ ls, isInvalid rowOf commentOf blank l = false) ∧
      df = tableOf cols extras (ls.filterMap (rowAt rowOf)) ∧
      cs = ls.filterMap (keptComment rowOf commentOf isHeader) ∧
      ws = (match firstTail rowOf ls 0 with | some n => [warnExc n] | none => []) ∧
      rd = closeReader reader := by
  rw [parse_refines rowOf commentOf isHeader blank cols extras reader _ hc hk]
  simp only [parseSpec, Option.some.injEq, Prod.mk.injEq]
  rcases first_invalid rowOf commentOf blank ls with h | ⟨pre, bad, post, rfl, hpre, hbad⟩
  · rw [loop_valid rowOf commentOf isHeader blank ls 0 _ h]
    simp only [tableOf, List.nil_append, if_true, Except.ok.injEq, Prod.mk.injEq]
    constructor
    · rintro ⟨rfl, rfl, rfl, rfl⟩; exact ⟨h, rfl, rfl, rfl, rfl⟩
    · rintro ⟨-, rfl, rfl, rfl, rfl⟩; exact ⟨rfl, rfl, rfl, rfl⟩
  · rw [loop_invalid rowOf commentOf isHeader blank bad post hbad pre 0 _ hpre]
    constructor
    · intro h; simp at h
    · rintro ⟨hall, -⟩
      have := hall bad (by simp)
      rw [hbad] at this; cases this

/-- **every column has exactly one entry per data row, in order, equal to that row's field**: column `j` of the table built from `rows`
is `rows.map (·[j])` (proved through the translated `for i, trans in enumerate(transforms): vals[i].append(…)`, not assumed) -/
theorem generated_columns (k : Nat) (rows : List (List Val)) (hrows : ∀ fs ∈ rows, k ≤ fs.length) :
    (rows.foldl appendRow (List.replicate k [])).length = k ∧
    ∀ j, j < k → ∃ col, (rows.foldl appendRow (List.replicate k []))[j]? = some col ∧ col.map some = rows.map (·[j]?) ∧ col.length = rows.length := by
  obtain ⟨h1, h2⟩ := columns k rows (List.replicate k []) (by simp) hrows
  refine ⟨h1, fun j hj => ⟨rows.filterMap (·[j]?), ?_, column_length k rows hrows j hj, ?_⟩⟩
  · rw [h2 j hj]; simp [hj]
  · have := congrArg List.length (column_length k rows hrows j hj)
    simpa using this

/-- the rows the table is built from are long enough (so `generated_columns` applies to `generated_read_ok_iff`) -/
theorem rows_long (extras : List String) (ls : List L) (hk : ∀ l fs t, rowOf l = some (fs, t) → 7 + extras.length ≤ fs.length) :
    ∀ fs ∈ ls.filterMap (rowAt rowOf), 7 + extras.length ≤ fs.length := by
  intro fs hfs
  simp only [List.mem_filterMap, rowAt, Option.map_eq_some_iff] at hfs
  obtain ⟨l, -, ⟨fs', t⟩, hr, rfl⟩ := hfs
  exact hk l fs' t hr

/-- **Never a shortened or partially filled table**: an invalid line at ANY position — whatever follows it, decode failure included —
makes the call raise `ValueError("invalid row N …")` with `N` the number of the FIRST such line; the file is closed. -/
theorem generated_never_partial (cols extras : List String) (reader : FileReader) (pre : List L) (bad : L) (post : List L) (fail : Option Py.Exc)
    (hc : cols.length = 7) (hk : ∀ l fs t, rowOf l = some (fs, t) → 7 + extras.length ≤ fs.length)
    (hpre : ∀ l ∈ pre, isInvalid rowOf commentOf blank l = false) (hbad : isInvalid rowOf commentOf blank bad = true) :
    ∃ ws, parse_swc rowOf commentOf isHeader blank cols extras reader ⟨pre ++ bad :: post, fail⟩
      = some (ws, closeReader reader, .error (invalidExc (pre.length + 1))) := by
  rw [parse_refines rowOf commentOf isHeader blank cols extras reader _ hc hk]
  simp only [parseSpec]
  rw [loop_invalid rowOf commentOf isHeader blank bad post hbad pre 0 _ hpre]
  simp only [Int.zero_add]
  exact ⟨_, rfl⟩

/-- **Bytes that cannot be decoded**: when the file iterator raises (after any number of valid lines), the call raises — the
`UnicodeDecodeError` as the `ValueError("decode failed …")` of the handler, any other exception unchanged — and never returns a table. -/
theorem generated_decode_fails_loudly (cols extras : List String) (reader : FileReader) (ls : List L) (e : Py.Exc)
    (hc : cols.length = 7) (hk : ∀ l fs t, rowOf l = some (fs, t) → 7 + extras.length ≤ fs.length) :
    ∃ ws e', parse_swc rowOf commentOf isHeader blank cols extras reader ⟨ls, some e⟩ = some (ws, closeReader reader, .error e') ∧
      ((∀ l ∈ ls, isInvalid rowOf commentOf blank l = false) → e.kind = "UnicodeDecodeError" → e' = decodeExc) := by
  rw [parse_refines rowOf commentOf isHeader blank cols extras reader _ hc hk]
  simp only [parseSpec]
  rcases first_invalid rowOf commentOf blank ls with h | ⟨pre, bad, post, rfl, hpre, hbad⟩
  · rw [loop_valid rowOf commentOf isHeader blank ls 0 _ h]
    by_cases hu : e.isA "UnicodeDecodeError" = true
    · simp only [hu, if_true]
      exact ⟨_, decodeExc, rfl, fun _ _ => rfl⟩
    · simp only [hu, if_false]
      refine ⟨_, e, rfl, fun _ hk' => ?_⟩
      exfalso; apply hu
      obtain ⟨kind, msg, args⟩ := e
      simp only at hk'; subst hk'; rfl
  · rw [loop_invalid rowOf commentOf isHeader blank bad post hbad pre 0 _ hpre]
    refine ⟨_, _, rfl, fun hall => ?_⟩
    have := hall bad (by simp)
    rw [hbad] at this; cases this

/-- the warning is issued iff some data row has a non-empty tail -/
theorem generated_warning_iff (ls : List L) :
    (match firstTail rowOf ls 0 with | some n => [warnExc n] | none => []) ≠ [] ↔ ls.any (tailAt rowOf) = true := by
  rw [← firstTail_isSome rowOf ls 0]
  cases firstTail rowOf ls 0 <;> simp

/-- `FileReader.__exit__` as the source has it: returns False — an exception raised inside the `with` body propagates (the D03 defect was
`return True` here) — and closes the file.  Regenerated from `utils/file.py` on every run. -/
theorem generated_exit_propagates (r : FileReader) (a b c : Option Py.Exc) : file_reader_exit r a b c = some (closeReader r, false) :=
  file_reader_exit_eq r a b c

/-! non-vacuity (kernel-evaluated): lines are numbers — `10·a + b` with `b = 0` a data row with fields `[a, …, a+6]` (tail iff `a` is odd),
`b = 1` a comment `a` (header iff `a = 0`), `b = 2` blank, anything else invalid -/
section
def exRow (l : Nat) : Option (List Nat × Bool) := if l % 10 = 0 then some ((List.range 7).map (· + l / 10), l / 10 % 2 = 1) else none
def exCmt (l : Nat) : Option Nat := if l % 10 = 1 then some (l / 10) else none
def exCols : List String := ["id", "type", "x", "y", "z", "r", "pid"]

example : (match parse_swc exRow exCmt (· = 0) (· % 10 = 2) exCols [] ⟨some (), false⟩ ⟨[20, 1, 51, 2, 30, 50], none⟩ with
    | some (ws, rd, .ok (df, cs)) => decide (ws = [warnExc 5] ∧ rd = ⟨some (), true⟩ ∧ cs = [5] ∧
        df = [("id", [2, 3, 5]), ("type", [3, 4, 6]), ("x", [4, 5, 7]), ("y", [5, 6, 8]), ("z", [6, 7, 9]), ("r", [7, 8, 10]), ("pid", [8, 9, 11])])
    | _ => false) = true := by decide +kernel
example : (match parse_swc exRow exCmt (· = 0) (· % 10 = 2) exCols [] ⟨some (), false⟩ ⟨[20, 7, 30, 9], none⟩ with
    | some (ws, rd, .error e) => decide (ws = [] ∧ rd = ⟨some (), true⟩ ∧ e = invalidExc 2)
    | _ => false) = true := by decide +kernel
example : (match parse_swc exRow exCmt (· = 0) (· % 10 = 2) exCols [] ⟨some (), false⟩ ⟨[20, 40], some ⟨"UnicodeDecodeError", "", []⟩⟩ with
    | some (ws, rd, .error e) => decide (ws = [] ∧ rd = ⟨some (), true⟩ ∧ e = decodeExc)
    | _ => false) = true := by decide +kernel
example : isInvalid exRow exCmt (· % 10 = 2) 7 = true ∧ isInvalid exRow exCmt (· % 10 = 2) 20 = false := by decide +kernel
end

/-! ## the generated loop and the hand-written model `SwcText.readLines`

Under the obvious instantiation — a line is a string, `rowOf` the model's recogniser `parseData` (the converted fields of the row it
returns), `commentOf` / `isHeader` / `blank` the model's comment, header and blank tests — the generated function succeeds exactly when
`SwcText.readLines` does, with the same rows (as columns), comments and warning flag, and raises for the same first invalid line.  So
`C02.read_ok_iff` / `read_never_partial` and the recogniser theorems (`data_line_fields`, …) speak about the loop AS TRANSLATED. -/
section Model
open SwcText

inductive Fld where
  | nat (n : Nat)
  | sci (s : Sci)
  | int (i : Int)
deriving DecidableEq, Repr
instance : Inhabited Fld := ⟨.nat 0⟩

/-- the converted groups of a matched row, in column order -/
def fieldsOf (r : Row) : List Fld := [.nat r.id, .nat r.type, .sci r.x, .sci r.y, .sci r.z, .sci r.r, .int r.pid] ++ r.extra.map .sci
def mRowOf (nx : Nat) (l : Str) : Option (List Fld × Bool) := (parseData nx l).map (fun p => (fieldsOf p.1, p.2))
def mCommentOf (l : Str) : Option Str := match dropWs l with | '#' :: t => some (stripNl t) | _ => none
def mIsHeader (c : Str) : Bool := !keepComment c
def mBlank (l : Str) : Bool := isSpaceStr l

theorem extras_length : ∀ (k : Nat) (s : Str) (fs : List Sci) (r : Str), extras k s = some (fs, r) → fs.length = k := by
  intro k
  induction k with
  | zero => intro s fs r h; simp [extras] at h; simp [h.1.symm]
  | succ k ih =>
    intro s fs r h
    simp only [extras, Option.bind_eq_bind, Option.bind_eq_some_iff, Option.pure_def, Option.some.injEq, Prod.mk.injEq, Prod.exists] at h
    obtain ⟨s1, -, f, s2, -, fs', s3, h3, rfl, -⟩ := h
    simp [ih _ _ _ h3]

theorem parseData_extra_length (nx : Nat) (l : Str) (row : Row) (tl : Bool) (h : parseData nx l = some (row, tl)) : row.extra.length = nx := by
  simp only [parseData, Option.bind_eq_bind, Option.bind_eq_some_iff, Option.pure_def, Option.some.injEq, Prod.mk.injEq, Prod.exists] at h
  obtain ⟨_, _, _, _, _, _, _, _, _, _, _, _, _, _, _, _, _, _, _, _, _, _, _, _, _, _, _, _, _, _, _, _, _, ex, _, hex, _, _, rfl, _⟩ := h
  exact extras_length _ _ _ _ hex

theorem mRowOf_long (nx : Nat) (extras : List String) (hx : extras.length = nx) :
    ∀ l fs t, mRowOf nx l = some (fs, t) → 7 + extras.length ≤ fs.length := by
  intro l fs t h
  simp only [mRowOf, Option.map_eq_some_iff, Prod.mk.injEq, Prod.exists] at h
  obtain ⟨row, tl, hp, rfl, -⟩ := h
  simp [fieldsOf, parseData_extra_length nx l row tl hp, hx]; omega

theorem dropWs_nil_iff (l : Str) : dropWs l = [] ↔ l.all isWs = true := by
  induction l with
  | nil => simp [dropWs]
  | cons c cs ih => by_cases h : isWs c = true <;> simp [dropWs, h, ih]

/-- line by line, the three tests of the instantiation are the model's `classify` -/
theorem line_agrees (nx : Nat) (l : Str) :
    (isInvalid (mRowOf nx) mCommentOf mBlank l = true ↔ classify nx l = .invalid) ∧
    rowAt (mRowOf nx) l = (dataOf nx l).map fieldsOf ∧
    keptComment (mRowOf nx) mCommentOf mIsHeader l = C02.commentOf nx l ∧
    tailAt (mRowOf nx) l = tailOf nx l := by
  unfold isInvalid rowAt keptComment tailAt dataOf C02.commentOf tailOf classify mRowOf
  cases hp : parseData nx l with
  | some p => obtain ⟨row, tl⟩ := p; simp
  | none =>
    simp only [Option.map_none, Option.isNone_none, Bool.true_and, mCommentOf, mBlank, isSpaceStr, mIsHeader]
    cases hd : dropWs l with
    | nil =>
      have := (dropWs_nil_iff l).1 hd
      cases l <;> simp_all
    | cons c t =>
      have hne : l.all isWs = false := by
        cases h : l.all isWs
        · rfl
        · have := (dropWs_nil_iff l).2 h; rw [hd] at this; cases this
      by_cases hc : c = '#'
      · subst hc; cases hk : keepComment (stripNl t) <;> simp [hk]
      · have : ∀ (α : Type) (a b : α), (match c :: t with | '#' :: t => a | _ => b) = b := by
          intro α a b; split
          · next h => cases h; exact absurd rfl hc
          · rfl
        simp_all

/-- **the generated function returns a table exactly when the model does — the same one** -/
theorem generated_ok_iff_model (nx : Nat) (cols extras : List String) (hc : cols.length = 7) (hx : extras.length = nx)
    (reader : FileReader) (ls : List Str) (ws : List Py.Exc) (rd : FileReader) (df : Py.Dict String (List Fld)) (cs : List Str) :
    parse_swc (mRowOf nx) mCommentOf mIsHeader mBlank cols extras reader ⟨ls, none⟩ = some (ws, rd, .ok (df, cs)) ↔
      ∃ res, readLines nx ls = .ok res ∧ df = tableOf cols extras (res.rows.map fieldsOf) ∧ cs = res.comments ∧
        ws = (match firstTail (mRowOf nx) ls 0 with | some n => [warnExc n] | none => []) ∧ (ws ≠ [] ↔ res.warned = true) ∧
        rd = closeReader reader := by
  have e1 : ls.filterMap (rowAt (mRowOf nx)) = (ls.filterMap (dataOf nx)).map fieldsOf := by
    rw [List.map_filterMap]; congr 1; funext l; exact (line_agrees nx l).2.1
  have e2 : ls.filterMap (keptComment (mRowOf nx) mCommentOf mIsHeader) = ls.filterMap (C02.commentOf nx) := by
    congr 1; funext l; exact (line_agrees nx l).2.2.1
  have e3 : ls.any (tailAt (mRowOf nx)) = ls.any (tailOf nx) := by
    congr 1; funext l; exact (line_agrees nx l).2.2.2
  have e4 : (∀ l ∈ ls, isInvalid (mRowOf nx) mCommentOf mBlank l = false) ↔ (∀ l ∈ ls, classify nx l ≠ .invalid) := by
    constructor
    · intro h l hl hc; have := (line_agrees nx l).1.2 hc; rw [h l hl] at this; cases this
    · intro h l hl
      cases hi : isInvalid (mRowOf nx) mCommentOf mBlank l
      · rfl
      · exact absurd ((line_agrees nx l).1.1 hi) (h l hl)
  rw [generated_read_ok_iff _ _ _ _ cols extras reader ls hc (mRowOf_long nx extras hx)]
  constructor
  · rintro ⟨hall, rfl, rfl, rfl, rfl⟩
    refine ⟨⟨ls.filterMap (dataOf nx), ls.filterMap (C02.commentOf nx), ls.any (tailOf nx)⟩,
      (read_ok_iff nx ls _).2 ⟨e4.1 hall, rfl, rfl, rfl⟩, by rw [e1], e2, rfl, ?_, rfl⟩
    rw [generated_warning_iff, e3]
  · rintro ⟨res, hres, rfl, rfl, rfl, -, rfl⟩
    obtain ⟨hall, hrows, hcs, -⟩ := (read_ok_iff nx ls res).1 hres
    exact ⟨e4.2 hall, by rw [e1, hrows], by rw [e2, hcs], rfl, rfl⟩

/-- **… and raises `invalid row N` exactly when the model reports `invalidRow N`** -/
theorem generated_error_iff_model (nx : Nat) (cols extras : List String) (hc : cols.length = 7) (hx : extras.length = nx)
    (reader : FileReader) (ls : List Str) (n : Nat) :
    readLines nx ls = .error (.invalidRow n) →
      ∃ ws, parse_swc (mRowOf nx) mCommentOf mIsHeader mBlank cols extras reader ⟨ls, none⟩
        = some (ws, closeReader reader, .error (invalidExc (n : Int))) := by
  intro h
  rcases SwcText.first_invalid nx ls with hv | ⟨pre, bad, post, rfl, hpre, hbad⟩
  · rw [readLines_eq, readLinesWith_valid false nx ls hv] at h; cases h
  · rw [read_never_partial nx pre bad post hpre hbad] at h
    simp only [Except.error.injEq, Err.invalidRow.injEq] at h
    subst h
    have := generated_never_partial (mRowOf nx) mCommentOf mIsHeader mBlank cols extras reader pre bad post none hc (mRowOf_long nx extras hx)
      (fun l hl => by
        cases hi : isInvalid (mRowOf nx) mCommentOf mBlank l
        · rfl
        · exact absurd ((line_agrees nx l).1.1 hi) (hpre l hl))
      ((line_agrees nx bad).1.2 hbad)
    simpa using this
end Model

end C02
