import SwcVerif.Model.Assemble
import SwcVerif.Proofs.Pipeline
/-! # C16 / C03 — the table built by `BranchTreeAssembler` is a well-formed, sorted tree with the branch tree's connectivity

`Model/Assemble.lean` models the assembler loop (explicit stack of (key node, new id of its copy), id allocation by the
length of the node list).  Here: the loop equals a structural recursion over the branch tree (`machine_eq_sub`), it stops
after one iteration per key node, the result is a parent-before-child tree table (hence `C07.WF`, so resampling is a
pipeline step of C03), it has one row per key node plus one per interior sample, and every branch of the input is a chain
of exactly its samples from the copy of its parent key node to the copy of its child key node. -/
namespace C16Asm
open Asm

theorem run_succ_some {st st' : St} (n : Nat) (h : step st = some st') : run (n + 1) st = run n st' := by simp [run, h]
theorem run_none {st : St} (h : step st = none) (n : Nat) : run n st = st := by cases n <;> simp [run, h]
theorem run_add (a b : Nat) (st : St) : run (a + b) st = run b (run a st) := by
  induction a generalizing st with
  | zero => simp [run]
  | succ a ih =>
    cases hs : step st with
    | none => rw [run_none hs, run_none hs, run_none hs]
    | some st' =>
      have : a + 1 + b = (a + b) + 1 := by omega
      rw [this, run_succ_some _ hs, run_succ_some _ hs]
      exact ih st'

theorem chainRows_length (p L m : Nat) : (chainRows p L m).length = m + 1 := by simp [chainRows]

theorem chains_length : ∀ (ks : List BT) (p L : Nat), (chains ks p L).2.length = ks.length := by
  intro ks
  induction ks with
  | nil => intro p L; rfl
  | cons k ks ih => intro p L; simp [chains, ih]

-- **the loop is structural recursion**: popping `(t, sid)` and running one iteration per key node of `t` appends exactly
-- `sub t sid (length so far)` and leaves the rest of the stack alone
mutual
theorem machine_eq_sub (t : BT) (sid : Nat) (rest : List (BT × Nat)) (out : List Int) :
    run t.size ⟨(t, sid) :: rest, out⟩ = ⟨rest, out ++ sub t sid out.length⟩ := by
  match t with
  | .node i m ks =>
    have e1 : (BT.node i m ks).size = 1 + Asm.sizeL ks := by simp [BT.size]
    rw [e1, run_add]
    have hstep : run 1 ⟨(BT.node i m ks, sid) :: rest, out⟩ =
        ⟨(List.zip ks (chains ks sid out.length).2).reverse ++ rest, out ++ (chains ks sid out.length).1⟩ := by
      simp [run, step, BT.kids]
    rw [hstep]
    have := machine_eq_subRev ks (chains ks sid out.length).2 (chains_length ks sid out.length) rest (out ++ (chains ks sid out.length).1)
    rw [this]
    simp [sub, List.append_assoc]
theorem machine_eq_subRev (ks : List BT) (cids : List Nat) (hl : cids.length = ks.length) (rest : List (BT × Nat)) (out : List Int) :
    run (Asm.sizeL ks) ⟨(List.zip ks cids).reverse ++ rest, out⟩ = ⟨rest, out ++ subRev ks cids out.length⟩ := by
  match ks, cids, hl with
  | [], _, _ => simp [Asm.sizeL, run, subRev]
  | k :: ks, [], hl => simp at hl
  | k :: ks, cid :: cids, hl =>
    have e : Asm.sizeL (k :: ks) = Asm.sizeL ks + k.size := by simp [Asm.sizeL]; omega
    rw [e, run_add]
    have hz : (List.zip (k :: ks) (cid :: cids)).reverse ++ rest = (List.zip ks cids).reverse ++ ((k, cid) :: rest) := by
      simp
    rw [hz, machine_eq_subRev ks cids (by simpa using hl) ((k, cid) :: rest) out, machine_eq_sub k cid rest _]
    simp [subRev, List.append_assoc]
end

/-- the assembled table is `-1` followed by the structural rows, and the loop has emptied its stack after one iteration per
key node (the fuel of `assemble` suffices) -/
theorem assemble_eq (root : BT) :
    assemble root = -1 :: sub root 0 1 ∧ (run root.size ⟨[(root, 0)], [-1]⟩).stack = [] := by
  have := machine_eq_sub root 0 [] [-1]
  simp [assemble, this]

/-! ### parents precede children -/

/-- every row of `rows`, placed from absolute position `L` on, has a non-negative parent strictly before itself -/
def Below (L : Nat) (rows : List Int) : Prop :=
  ∀ j (h : j < rows.length), 0 ≤ rows[j] ∧ rows[j] < ((L + j : Nat) : Int)

theorem Below.append {L : Nat} {a b : List Int} (ha : Below L a) (hb : Below (L + a.length) b) : Below L (a ++ b) := by
  intro j hj
  by_cases h : j < a.length
  · rw [List.getElem_append_left h]; exact ha j h
  · have h' : a.length ≤ j := by omega
    rw [List.getElem_append_right h']
    have hj' : j - a.length < b.length := by simp at hj; omega
    have := hb (j - a.length) hj'
    have e : L + a.length + (j - a.length) = L + j := by omega
    rw [e] at this
    exact this

theorem Below.nil (L : Nat) : Below L [] := by intro j hj; simp at hj

theorem chainRows_below (p L m : Nat) (hp : p < L) : Below L (chainRows p L m) := by
  intro j hj
  simp only [chainRows] at hj ⊢
  cases j with
  | zero => simp; omega
  | succ j =>
    simp only [List.length_cons, List.length_map, List.length_range] at hj
    simp only [List.getElem_cons_succ, List.getElem_map, List.getElem_range]
    omega

theorem chains_below : ∀ (ks : List BT) (p L : Nat), p < L →
    Below L (chains ks p L).1 ∧ ∀ c ∈ (chains ks p L).2, c < L + (chains ks p L).1.length := by
  intro ks
  induction ks with
  | nil => intro p L _; exact ⟨Below.nil L, by simp [chains]⟩
  | cons k ks ih =>
    intro p L hp
    obtain ⟨h1, h2⟩ := ih p (L + k.m + 1) (by omega)
    simp only [chains]
    refine ⟨(chainRows_below p L k.m hp).append (by rw [chainRows_length]; simpa [Nat.add_assoc] using h1), ?_⟩
    intro c hc
    simp only [List.mem_cons] at hc
    simp only [List.length_append, chainRows_length]
    rcases hc with rfl | hc
    · omega
    · have := h2 c hc; omega

mutual
theorem sub_below (t : BT) (sid L : Nat) (hs : sid < L) : Below L (sub t sid L) := by
  match t with
  | .node i m ks =>
    obtain ⟨h1, h2⟩ := chains_below ks sid L hs
    simp only [sub]
    exact h1.append (subRev_below ks _ _ h2)
theorem subRev_below (ks : List BT) (cids : List Nat) (L : Nat) (hc : ∀ c ∈ cids, c < L) : Below L (subRev ks cids L) := by
  match ks, cids with
  | [], _ => simp only [subRev]; exact Below.nil L
  | _ :: _, [] => simp only [subRev]; exact Below.nil L
  | k :: ks, cid :: cids =>
    simp only [subRev]
    have h1 := subRev_below ks cids L (fun c hc' => hc c (List.mem_cons_of_mem _ hc'))
    exact h1.append (sub_below k cid _ (by have := hc cid List.mem_cons_self; omega))
end

/-- **the assembled table is a well-formed tree with parents before children** (whatever the branch tree, the sample
counts and the pairing order): row 0 is the only root, every other row's parent is an earlier row -/
theorem assemble_sorted (root : BT) :
    (assemble root).head? = some (-1) ∧
    ∀ k (h : k < (assemble root).length), 0 < k → 0 ≤ (assemble root)[k] ∧ (assemble root)[k] < (k : Int) := by
  rw [(assemble_eq root).1]
  refine ⟨rfl, ?_⟩
  intro k hk h0
  cases k with
  | zero => omega
  | succ k =>
    simp only [List.length_cons] at hk
    simp only [List.getElem_cons_succ]
    have := sub_below root 0 1 (by omega) k (by omega)
    have e : 1 + k = k + 1 := by omega
    rw [e] at this
    exact this

theorem assemble_wf (root : BT) : C07.WF (assemble root) := by
  obtain ⟨h0, hs⟩ := assemble_sorted root
  exact Pipeline.wf_of_sorted _ h0 (fun k hk hpos => (hs k hk hpos).2) (fun k hk hpos => (hs k hk hpos).1)

/-! ### one row per key node and per interior sample -/
mutual
def weight : BT → Nat
  | .node _ _ ks => weightL ks
def weightL : List BT → Nat
  | [] => 0
  | k :: ks => (k.m + 1) + weight k + weightL ks
end

theorem chains_rows_length : ∀ (ks : List BT) (p L : Nat),
    (chains ks p L).1.length = (ks.map (fun k => k.m + 1)).sum := by
  intro ks
  induction ks with
  | nil => intro p L; rfl
  | cons k ks ih => intro p L; simp [chains, chainRows_length, ih]

mutual
theorem sub_length (t : BT) (sid L : Nat) : (sub t sid L).length = weight t := by
  match t with
  | .node i m ks =>
    simp only [sub, weight, List.length_append, chains_rows_length]
    rw [subRev_length ks _ _ (chains_length ks sid L)]
    exact (weightL_split ks).symm
theorem subRev_length (ks : List BT) (cids : List Nat) (L : Nat) (hl : cids.length = ks.length) :
    (subRev ks cids L).length = (ks.map weight).sum := by
  match ks, cids, hl with
  | [], _, _ => simp [subRev]
  | k :: ks, [], hl => simp at hl
  | k :: ks, cid :: cids, hl =>
    simp only [subRev, List.length_append, List.map_cons, List.sum_cons]
    rw [subRev_length ks cids L (by simpa using hl), sub_length k cid _]
    omega
theorem weightL_split (ks : List BT) : weightL ks = (ks.map (fun k => k.m + 1)).sum + (ks.map weight).sum := by
  match ks with
  | [] => simp [weightL]
  | k :: ks => simp only [weightL, List.map_cons, List.sum_cons]; rw [weightL_split ks]; omega
end

/-- the assembled tree has one row for the root and, for every other key node, one row for itself and one per interior sample of
the branch that leads to it -/
theorem assemble_length (root : BT) : (assemble root).length = 1 + weight root := by
  rw [(assemble_eq root).1, List.length_cons, sub_length]; omega

/-! ### every branch is a chain of its samples between the copies of its two key nodes -/

theorem chains_append : ∀ (pre post : List BT) (p L : Nat),
    (chains (pre ++ post) p L).1 = (chains pre p L).1 ++ (chains post p (L + (chains pre p L).1.length)).1 ∧
    (chains (pre ++ post) p L).2 = (chains pre p L).2 ++ (chains post p (L + (chains pre p L).1.length)).2 := by
  intro pre
  induction pre with
  | nil => intro post p L; simp [chains]
  | cons k ks ih =>
    intro post p L
    obtain ⟨h1, h2⟩ := ih post p (L + k.m + 1)
    simp only [List.cons_append, chains, h1, h2, List.length_append, chainRows_length]
    have e : L + k.m + 1 + (chains ks p (L + k.m + 1)).1.length = L + (k.m + 1 + (chains ks p (L + k.m + 1)).1.length) := by omega
    rw [e]
    simp [List.append_assoc]

/-- **connectivity and samples of every branch**: when the copy `sid` of a key node is expanded at table length `L`, the branch to
its child `k` (any position in the pairing order) occupies the `k.m + 1` consecutive rows starting at
`off = L + (rows of the earlier siblings' branches)`: the first hangs off `sid`, each further one off its predecessor, and the
last of them is the copy of `k` (the id under which `k`'s own children are attached) -/
theorem branch_is_chain (pre post : List BT) (k : BT) (sid L : Nat) :
    let off := L + (chains pre sid L).1.length
    (chains (pre ++ k :: post) sid L).1 =
      (chains pre sid L).1 ++ chainRows sid off k.m ++ (chains post sid (off + k.m + 1)).1 ∧
    (chains (pre ++ k :: post) sid L).2 =
      (chains pre sid L).2 ++ (off + k.m) :: (chains post sid (off + k.m + 1)).2 := by
  obtain ⟨h1, h2⟩ := chains_append pre (k :: post) sid L
  simp only [h1, h2, chains, List.append_assoc]
  exact ⟨trivial, trivial⟩

end C16Asm
