import SwcVerif.Model.Redirect
