import SwcVerif.Proofs.Represent
import SwcVerif.Props.C05
import SwcVerif.Props.C09
import SwcVerif.Proofs.Pipeline
/-! # C03 — every tree operation returns a well-formed tree and leaves its inputs untouched

The per-operation models (C05 sort, C06 subtree / prune, C07 re-root; geometric transforms, smoothing and
the SWC round trip do not touch the parent list at all — C12, C16, C01) are composed here: every
operation maps a well-formed parent list (`C07.WF`: ids are positions, node 0 the only root, every other
parent a node, every node reaches the root) to a well-formed one, so by induction every intermediate result
of every pipeline is well formed.  "Inputs untouched / no shared storage" is the heap statement of C09
(`copy_fresh`, `detach_fresh`, `write_frame`, `run_wf`): every operation starts with `tree.copy()` or builds
its columns by fancy indexing, both of which allocate. -/
namespace C03
open Redir SortM Sub

abbrev WF := C07.WF

/-- parents precede children -/
def Sorted (pids : List Int) : Prop := ∀ k (h : k < pids.length), 0 < k → pids[k] < (k : Int)

inductive Op where
  | sort                       -- sort_tree
  | redirect (k : Nat)         -- redirect_tree(tree, k) (sort = True)
  | subtree (k : Nat)          -- get_subtree / Node.subtree
  | prune (rm : List Int)      -- to_subtree / cut_tree / CutBy…: the removal list they hand to to_subtree
  | geometric                  -- Translate / Scale / Rotate* / TranslateOrigin / Normalizer / RadiusReseter / TreeSmoother
  | roundtrip                  -- Tree.from_swc(tree.to_swc())
deriving Repr

/-- the parent list after one operation (`none` = the operation raises / is not applicable) -/
def applyOp (pids : List Int) : Op → Option (List Int)
  | .sort => match sortNodesImpl (rangeI pids.length) pids with
    | .ok r => some r.newPids
    | .error _ => none
  | .redirect k =>
    if k < pids.length then (redirectSorted pids (List.replicate pids.length 0) (k : Int)).map (·.1) else none
  | .subtree k => if k < pids.length then (getSubtree pids (k : Int)).map (·.newPid) else none
  | .prune rm =>
    if rm.all (fun v => decide (0 < v) && decide (v < pids.length)) then (toSubtree pids rm).map (·.newPid) else none
  | .geometric => some pids
  | .roundtrip => some pids

/-- which operations document sorted output -/
def sortsOutput : Op → Bool
  | .sort | .redirect _ | .subtree _ => true
  | _ => false

/-- a sorted table with root 0 and valid parents is well formed (every node reaches the root because parents
are strictly smaller) -/
theorem wf_of_sorted (pids : List Int) (h0 : pids.head? = some (-1)) (hs : Sorted pids)
    (hv : ∀ k (h : k < pids.length), 0 < k → 0 ≤ pids[k]) : WF pids :=
  Pipeline.wf_of_sorted pids h0 hs hv

/-- **sorting a well-formed tree gives a well-formed, sorted tree** (C05 + the representation lemma) -/
theorem sort_wf (pids : List Int) (hw : WF pids) :
    ∃ out, applyOp pids .sort = some out ∧ WF out ∧ Sorted out ∧ out.length = pids.length := by
  obtain ⟨r, hr⟩ := Represent.wf_represented pids hw
  have hT := Pipeline.isTreeTable_of r pids 0 hr.1 hr.2.1 (by simpa using hr.2.2.1) hw.root (fun v hv e => by
    by_cases h0 : v = 0
    · exact h0
    · have := (hw.2.1 v hv (by omega)).1
      omega)
  obtain ⟨res, hres, hwf, hs, hl⟩ := Pipeline.sorted_wf r pids hT
  refine ⟨res.newPids, ?_, hwf, hs, hl⟩
  simp only [applyOp, hres]

/-- **the subtree at any node is a well-formed, sorted tree** -/
theorem subtree_wf (pids : List Int) (hw : WF pids) (k : Nat) (hk : k < pids.length) :
    ∃ out, applyOp pids (.subtree k) = some out ∧ WF out ∧ Sorted out := by
  obtain ⟨s, hid, hrep, hin⟩ := Represent.wf_subtree_represented pids hw k hk
  obtain ⟨res, hres, hhead, hrows⟩ := Pipeline.subtree_sorted pids s hrep hin
  rw [hid] at hres
  exact ⟨res.newPid, by simp [applyOp, hk, hres],
    wf_of_sorted _ hhead (fun k hk h0 => (hrows k hk h0).2) (fun k hk h0 => (hrows k hk h0).1),
    fun k hk h0 => (hrows k hk h0).2⟩

/-- **pruning (any removal set that spares the root) gives a well-formed tree** -/
theorem prune_wf (pids : List Int) (hw : WF pids) (rm : List Int) (hr : ∀ v ∈ rm, 0 < v ∧ v < pids.length) :
    ∃ out, applyOp pids (.prune rm) = some out ∧ WF out := by
  obtain ⟨res, hres, hwf⟩ := Pipeline.prune_wf pids hw rm hr
  have hall : rm.all (fun v => decide (0 < v) && decide (v < pids.length)) = true := by
    rw [List.all_eq_true]
    intro v hv
    have := hr v hv
    simp [this.1, this.2]
  exact ⟨res.newPid, by simp only [applyOp, hall, if_true, hres, Option.map_some], hwf⟩

/-- **re-rooting (with the final sort) gives a well-formed, sorted tree** -/
theorem redirect_wf (pids : List Int) (hw : WF pids) (k : Nat) (hk : k < pids.length) :
    ∃ out, applyOp pids (.redirect k) = some out ∧ WF out ∧ Sorted out ∧ out.length = pids.length := by
  have hlen := (C07.redirect_pids pids (List.replicate pids.length 0) hw k hk).1
  have hwr := Pipeline.redirect_wfr pids (List.replicate pids.length 0) hw k hk
  obtain ⟨res, hres, hwf, hs, hl⟩ := Pipeline.wfr_sorted _ k hwr
  rw [hlen] at hres hl
  refine ⟨res.newPids, ?_, hwf, hs, hl⟩
  have hres' : sortNodesImpl ((List.range pids.length).map Int.ofNat)
      (redirect pids (List.replicate pids.length 0) (k : Int)).pids = .ok res := hres
  simp only [applyOp, hk, if_true, redirectSorted, hres', Option.map_some]

/-- re-rooting with sorting switched off keeps every node at its position and makes the requested node the
only parentless one (C07.redirect_root), i.e. the new root stays at its old position -/
theorem redirect_nosort_root_position (pids types : List Int) (hw : WF pids) (k : Nat) (hk : k < pids.length) :
    (redirect pids types (k : Int)).pids.length = pids.length ∧
    ∀ v, v < pids.length → ((redirect pids types (k : Int)).pids.getD v 0 = -1 ↔ v = k) :=
  ⟨(C07.redirect_pids pids types hw k hk).1, fun v hv => C07.redirect_root pids types hw k hk v hv⟩

/-- an operation is admissible on a tree when its arguments name nodes of that tree -/
def Admissible (pids : List Int) : Op → Prop
  | .redirect k => k < pids.length
  | .subtree k => k < pids.length
  | .prune rm => ∀ v ∈ rm, 0 < v ∧ v < pids.length
  | _ => True

/-- **one step**: an admissible operation on a well-formed tree succeeds and returns a well-formed tree,
sorted where documented -/
theorem op_wf (pids : List Int) (hw : WF pids) (op : Op) (ha : Admissible pids op) :
    ∃ out, applyOp pids op = some out ∧ WF out ∧ (sortsOutput op = true → Sorted out) := by
  cases op with
  | sort =>
    obtain ⟨out, h1, h2, h3, _⟩ := sort_wf pids hw
    exact ⟨out, h1, h2, fun _ => h3⟩
  | redirect k =>
    obtain ⟨out, h1, h2, h3, _⟩ := redirect_wf pids hw k ha
    exact ⟨out, h1, h2, fun _ => h3⟩
  | subtree k =>
    obtain ⟨out, h1, h2, h3⟩ := subtree_wf pids hw k ha
    exact ⟨out, h1, h2, fun _ => h3⟩
  | prune rm =>
    obtain ⟨out, h1, h2⟩ := prune_wf pids hw rm ha
    exact ⟨out, h1, h2, fun h => by simp [sortsOutput] at h⟩
  | geometric => exact ⟨pids, rfl, hw, fun h => by simp [sortsOutput] at h⟩
  | roundtrip => exact ⟨pids, rfl, hw, fun h => by simp [sortsOutput] at h⟩

/-- run a pipeline, collecting every intermediate parent list (stops at the first failure) -/
def runOps : List Int → List Op → List (List Int)
  | _, [] => []
  | pids, op :: ops => match applyOp pids op with
    | some out => out :: runOps out ops
    | none => []

/-- a pipeline is admissible when each operation is admissible on the tree it is applied to -/
def AdmissibleAll : List Int → List Op → Prop
  | _, [] => True
  | pids, op :: ops => Admissible pids op ∧ ∀ out, applyOp pids op = some out → AdmissibleAll out ops

/-- **every pipeline**: after every step of every admissible sequence of operations on a well-formed tree the
result is a well-formed tree, and no step fails -/
theorem pipeline_wf (pids : List Int) (hw : WF pids) (ops : List Op) (ha : AdmissibleAll pids ops) :
    (runOps pids ops).length = ops.length ∧ ∀ t ∈ runOps pids ops, WF t := by
  induction ops generalizing pids with
  | nil => simp [runOps]
  | cons op ops ih =>
    obtain ⟨hadm, hrest⟩ := ha
    obtain ⟨out, h1, h2, _⟩ := op_wf pids hw op hadm
    obtain ⟨i1, i2⟩ := ih out h2 (hrest out h1)
    simp only [runOps, h1, List.length_cons, i1, List.mem_cons, true_and]
    rintro t (rfl | ht)
    · exact h2
    · exact i2 t ht

/-- **inputs are never modified and results share no storage** (heap level, C09): whatever operations run
later on the copy an operation works on, every array of the original keeps its content -/
theorem inputs_untouched (h : Views.Heap) (hw : C09.WFHeap h) (o : Nat) (ho : o < h.objs.length) (later : List Views.Op)
    (hl : ∀ op ∈ later, (∃ i c v, op = Views.Op.nodeWrite h.objs.length i c v) ∨ (∃ k c v, op = Views.Op.ownerWrite h.objs.length k c v)) :
    let h1 := (Views.step h (.copy o)).1
    let h2 := (Views.run h1 later).1
    ∀ a, a < h.arrs.length → h2.arr a = h.arr a := by
  intro h1 h2
  exact Pipeline.copy_then_writes h hw o ho later hl

-- non-vacuity / concrete behaviour
def exP : List Int := [-1, 3, 0, 0, 3]
example : runOps exP [.sort, .subtree 1, .geometric, .prune [1]] = [[-1, 0, 1, 1, 0], [-1, 0, 0], [-1, 0, 0], [-1, 0]] := by decide +kernel
example : applyOp exP (.redirect 4) = some [-1, 0, 1, 1, 3] := by decide +kernel

end C03
