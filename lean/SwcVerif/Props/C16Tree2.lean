import SwcVerif.Props.C16Gen
import SwcVerif.Props.C08BranchTree
import SwcVerif.Refine.ResampleTree2
/-! # C16 — what the translated `TreeSmoother.__call__` leaves in the coordinate columns of a well-formed tree -/
namespace C16Tree2
open Gen.Algo Py Resample RefineSmoothTree C08 Trav Branches

/-! ## one step and the fold, on branches that share end points only -/

theorem convSmooth_ends (v : List Rat) (k i : Nat) (hi : i < v.length) (h : i = 0 ∨ i + 1 = v.length) :
    (convSmooth v k)[i]'(by simpa [convSmooth] using hi) = v[i] := by
  simp [convSmooth, h, List.getD_eq_getElem?_getD, hi]

theorem gather_getElem (col : List Rat) (b : List Int) (p : Nat) (hp : p < b.length) :
    (gather col b)[p]'(by simpa using hp) = col.getD (b[p]).toNat 0 := by simp [gather]

/-- the rows of the branch after one step are the smoothed rows -/
theorem gather_stepCol (k : Nat) (col : List Rat) (b : List Int) (hv : Valid col.length b) (hn : b.Nodup) :
    gather (stepCol k col b) b = convSmooth (gather col b) k :=
  gather_put b col _ hv hn (by simp [convSmooth])

theorem mem_mid (b : List Int) (p : Nat) (h0 : 0 < p) (hp : p + 1 < b.length) : b[p] ∈ mid b := by
  have : (mid b)[p - 1]'(by simp [mid]; omega) = b[p] := by
    simp only [mid, List.getElem_dropLast, List.getElem_tail]
    congr 1; omega
  exact this ▸ List.getElem_mem _

/-- one step changes interior rows of the branch only (the end points are rewritten with their own value) -/
theorem stepCol_frame (k : Nat) (col : List Rat) (b : List Int) (hv : Valid col.length b) (hn : b.Nodup) (j : Nat)
    (hj : ∀ m ∈ mid b, m.toNat ≠ j) : (stepCol k col b).getD j 0 = col.getD j 0 := by
  by_cases hex : ∃ x ∈ b, x.toNat = j
  · obtain ⟨x, hx, rfl⟩ := hex
    obtain ⟨p, hp, rfl⟩ := List.mem_iff_getElem.1 hx
    have hend : p = 0 ∨ p + 1 = b.length := by
      by_contra hc
      exact hj _ (mem_mid b p (by omega) (by omega)) rfl
    have h1 := gather_getElem (stepCol k col b) b p hp
    have h2 := gather_getElem col b p hp
    rw [← h1, ← h2]
    simp only [gather_stepCol k col b hv hn]
    exact convSmooth_ends _ k p (by simpa using hp) (by simpa using hend)
  · exact put_getD_not_mem j b col _ (fun x hx he => hex ⟨x, hx, he⟩)

/-- the hypotheses on a list of branches: `≥ 2` valid distinct rows each -/
def Good (n : Nat) (brs : List (List Int)) : Prop := ∀ b ∈ brs, 2 ≤ b.length ∧ Valid n b ∧ b.Nodup

theorem foldl_frame (k n : Nat) : ∀ (brs : List (List Int)) (col : List Rat), col.length = n → Good n brs → ∀ j : Nat,
    (∀ b ∈ brs, ∀ m ∈ mid b, m.toNat ≠ j) → (brs.foldl (stepCol k) col).getD j 0 = col.getD j 0
  | [], _, _, _, _, _ => rfl
  | b :: bs, col, hl, hg, j, hj => by
    have hb := hg b (by simp)
    rw [List.foldl_cons, foldl_frame k n bs _ (by simpa using hl) (fun b' hb' => hg b' (by simp [hb'])) j
      (fun b' hb' => hj b' (by simp [hb']))]
    exact stepCol_frame k col b (hl ▸ hb.2.1) hb.2.2 j (hj b (by simp))

theorem mid_sub (b : List Int) : ∀ m ∈ mid b, m ∈ b := fun m hm =>
  List.mem_of_mem_tail ((List.dropLast_sublist _).subset hm)

theorem gather_congr (c1 c2 : List Rat) (b : List Int) (h : ∀ x ∈ b, c1.getD x.toNat 0 = c2.getD x.toNat 0) : gather c1 b = gather c2 b := by
  simp only [gather]; exact List.map_congr_left h

/-- **the fold on branches whose interiors meet no other branch**: afterwards the rows of EVERY branch are the smoothed ORIGINAL rows of that
branch — so the order of the branches does not matter, and a row shared by several branches (an end point) received its own old value every time -/
theorem foldl_gather (k n : Nat) : ∀ (brs : List (List Int)) (col : List Rat), col.length = n → Good n brs →
    brs.Pairwise (fun b b' => (∀ m ∈ mid b, m ∉ b') ∧ (∀ m ∈ mid b', m ∉ b)) →
    ∀ b ∈ brs, gather (brs.foldl (stepCol k) col) b = convSmooth (gather col b) k
  | [], _, _, _, _, b, hb => by simp at hb
  | b0 :: bs, col, hl, hg, hp, b, hb => by
    have hb0 := hg b0 (by simp)
    have hgs : Good n bs := fun b' hb' => hg b' (by simp [hb'])
    rw [List.pairwise_cons] at hp
    have hne : ∀ {x y : Int}, 0 ≤ x → 0 ≤ y → x ≠ y → x.toNat ≠ y.toNat := by intro x y hx hy hxy; omega
    rw [List.foldl_cons]
    by_cases he : b = b0
    · subst he
      rw [← gather_stepCol k col b (hl ▸ hb0.2.1) hb0.2.2]
      refine gather_congr _ _ _ fun x hx => ?_
      refine foldl_frame k n bs _ (by simpa using hl) hgs _ fun b' hb' m hm => ?_
      have hmb' := mid_sub b' m hm
      exact hne ((hgs b' hb').2.1 m hmb').1 (hb0.2.1 x hx).1 (fun h => (hp.1 b' hb').2 m hm (h ▸ hx))
    · have hbs : b ∈ bs := by simpa [he] using hb
      rw [foldl_gather k n bs _ (by simpa using hl) hgs hp.2 b hbs]
      congr 1
      refine gather_congr _ _ _ fun x hx => ?_
      refine stepCol_frame k col b0 (hl ▸ hb0.2.1) hb0.2.2 _ fun m hm => ?_
      exact hne (hb0.2.1 m (mid_sub b0 m hm)).1 ((hgs b hbs).2.1 x hx).1 (fun h => (hp.1 b hbs).1 m hm (h ▸ hx))

end C16Tree2
