import SwcVerif.Props.C16Gen
import SwcVerif.Props.C08BranchTree
import SwcVerif.Refine.ResampleTree2
import SwcVerif.Props.C16Tree
import SwcVerif.Refine.Node
import SwcVerif.Proofs.Represent
/-! # C16 — what the translated `TreeSmoother.__call__` leaves in the coordinate columns of a well-formed tree -/
namespace C16Tree2
open Gen.Algo Py Resample RefineSmoothTree C08 Trav Branches

/-! ## one step and the fold, on branches that share end points only -/

theorem convSmooth_ends (v : List Rat) (k i : Nat) (hi : i < v.length) (h : i = 0 ∨ i + 1 = v.length) :
    (convSmooth v k)[i]'(by simpa [convSmooth] using hi) = v[i] := by
  simp [convSmooth, h, List.getD_eq_getElem?_getD, hi]

theorem gather_getElem (col : List Rat) (b : List Int) (p : Nat) (hp : p < b.length) :
    (gather col b)[p]'(by simpa using hp) = col.getD (b[p]).toNat 0 := by simp [gather]

/-- the rows of the branch after one step are the smoothed rows -/
theorem gather_stepCol (k : Nat) (col : List Rat) (b : List Int) (hv : Valid col.length b) (hn : b.Nodup) :
    gather (stepCol k col b) b = convSmooth (gather col b) k :=
  gather_put b col _ hv hn (by simp [convSmooth])

theorem mem_mid (b : List Int) (p : Nat) (h0 : 0 < p) (hp : p + 1 < b.length) : b[p] ∈ mid b := by
  have : (mid b)[p - 1]'(by simp [mid]; omega) = b[p] := by
    simp only [mid, List.getElem_dropLast, List.getElem_tail]
    congr 1; omega
  exact this ▸ List.getElem_mem _

/-- one step changes interior rows of the branch only (the end points are rewritten with their own value) -/
theorem stepCol_frame (k : Nat) (col : List Rat) (b : List Int) (hv : Valid col.length b) (hn : b.Nodup) (j : Nat)
    (hj : ∀ m ∈ mid b, m.toNat ≠ j) : (stepCol k col b).getD j 0 = col.getD j 0 := by
  by_cases hex : ∃ x ∈ b, x.toNat = j
  · obtain ⟨x, hx, rfl⟩ := hex
    obtain ⟨p, hp, rfl⟩ := List.mem_iff_getElem.1 hx
    have hend : p = 0 ∨ p + 1 = b.length := by
      by_contra hc
      exact hj _ (mem_mid b p (by omega) (by omega)) rfl
    have h1 := gather_getElem (stepCol k col b) b p hp
    have h2 := gather_getElem col b p hp
    rw [← h1, ← h2]
    simp only [gather_stepCol k col b hv hn]
    exact convSmooth_ends _ k p (by simpa using hp) (by simpa using hend)
  · exact put_getD_not_mem j b col _ (fun x hx he => hex ⟨x, hx, he⟩)

/-- the hypotheses on a list of branches: `≥ 2` valid distinct rows each -/
def Good (n : Nat) (brs : List (List Int)) : Prop := ∀ b ∈ brs, 2 ≤ b.length ∧ Valid n b ∧ b.Nodup

theorem foldl_frame (k n : Nat) : ∀ (brs : List (List Int)) (col : List Rat), col.length = n → Good n brs → ∀ j : Nat,
    (∀ b ∈ brs, ∀ m ∈ mid b, m.toNat ≠ j) → (brs.foldl (stepCol k) col).getD j 0 = col.getD j 0
  | [], _, _, _, _, _ => rfl
  | b :: bs, col, hl, hg, j, hj => by
    have hb := hg b (by simp)
    rw [List.foldl_cons, foldl_frame k n bs _ (by simpa using hl) (fun b' hb' => hg b' (by simp [hb'])) j
      (fun b' hb' => hj b' (by simp [hb']))]
    exact stepCol_frame k col b (hl ▸ hb.2.1) hb.2.2 j (hj b (by simp))

theorem mid_sub (b : List Int) : ∀ m ∈ mid b, m ∈ b := fun m hm =>
  List.mem_of_mem_tail ((List.dropLast_sublist _).subset hm)

theorem gather_congr (c1 c2 : List Rat) (b : List Int) (h : ∀ x ∈ b, c1.getD x.toNat 0 = c2.getD x.toNat 0) : gather c1 b = gather c2 b := by
  simp only [gather]; exact List.map_congr_left h

/-- **the fold on branches whose interiors meet no other branch**: afterwards the rows of EVERY branch are the smoothed ORIGINAL rows of that
branch — so the order of the branches does not matter, and a row shared by several branches (an end point) received its own old value every time -/
theorem foldl_gather (k n : Nat) : ∀ (brs : List (List Int)) (col : List Rat), col.length = n → Good n brs →
    brs.Pairwise (fun b b' => (∀ m ∈ mid b, m ∉ b') ∧ (∀ m ∈ mid b', m ∉ b)) →
    ∀ b ∈ brs, gather (brs.foldl (stepCol k) col) b = convSmooth (gather col b) k
  | [], _, _, _, _, b, hb => by simp at hb
  | b0 :: bs, col, hl, hg, hp, b, hb => by
    have hb0 := hg b0 (by simp)
    have hgs : Good n bs := fun b' hb' => hg b' (by simp [hb'])
    rw [List.pairwise_cons] at hp
    have hne : ∀ {x y : Int}, 0 ≤ x → 0 ≤ y → x ≠ y → x.toNat ≠ y.toNat := by intro x y hx hy hxy; omega
    rw [List.foldl_cons]
    by_cases he : b = b0
    · subst he
      rw [← gather_stepCol k col b (hl ▸ hb0.2.1) hb0.2.2]
      refine gather_congr _ _ _ fun x hx => ?_
      refine foldl_frame k n bs _ (by simpa using hl) hgs _ fun b' hb' m hm => ?_
      have hmb' := mid_sub b' m hm
      exact hne ((hgs b' hb').2.1 m hmb').1 (hb0.2.1 x hx).1 (fun h => (hp.1 b' hb').2 m hm (h ▸ hx))
    · have hbs : b ∈ bs := by simpa [he] using hb
      rw [foldl_gather k n bs _ (by simpa using hl) hgs hp.2 b hbs]
      congr 1
      refine gather_congr _ _ _ fun x hx => ?_
      refine stepCol_frame k col b0 (hl ▸ hb0.2.1) hb0.2.2 _ fun m hm => ?_
      exact hne (hb0.2.1 m (mid_sub b0 m hm)).1 ((hgs b hbs).2.1 x hx).1 (fun h => (hp.1 b hbs).1 m hm (h ▸ hx))

/-! ## the branches of a tree: distinct rows, interiors that meet no other branch -/

-- a node is the child end of an edge (and the root of the subtree) at most as often as it is a node
mutual
theorem es_count (a : Int) : ∀ r : Rose, ((edges r).map Prod.snd).count a + [r.id].count a ≤ r.ids.count a
  | .node i ks => by
    have := esL_count a ks
    have e : (ks.map (fun k => (i, k.id))).map Prod.snd = ks.map Rose.id := by simp [Function.comp_def]
    have hid : (Rose.node i ks).id = i := rfl
    simp only [edges, Rose.ids, hid, List.map_append, e, List.count_append, List.count_cons, List.count_nil]
    omega
theorem esL_count (a : Int) : ∀ ks : List Rose, (ks.map Rose.id).count a + ((edgesL ks).map Prod.snd).count a ≤ (idsL ks).count a
  | [] => by simp [edgesL, idsL]
  | r :: rs => by
    have h1 := es_count a r
    have h2 := esL_count a rs
    simp only [edgesL, idsL, List.map_cons, List.map_append, List.count_append, List.count_cons, List.count_nil] at h1 ⊢
    omega
end

theorem pairs_snd : ∀ b : List Int, (pairs b).map Prod.snd = b.tail
  | [] => rfl
  | [_] => rfl
  | a :: b :: t => by simp [pairs, pairs_snd (b :: t)]

/-- every node is a non-first member of at most one branch, at most once; the root of none -/
theorem tails_nodup (r : Rose) (hD : r.ids.Nodup) :
    ((branchesOf r).flatMap List.tail).Nodup ∧ r.id ∉ (branchesOf r).flatMap List.tail := by
  have hp := (branches_partition_edges r).map Prod.snd
  have e : ((branchesOf r).flatMap pairs).map Prod.snd = (branchesOf r).flatMap List.tail := by
    simp [List.map_flatMap, pairs_snd]
  rw [e] at hp
  have hc : ∀ a, ((edges r).map Prod.snd).count a + [r.id].count a ≤ 1 := fun a =>
    le_trans (es_count a r) (List.nodup_iff_count_le_one.1 hD a)
  refine ⟨hp.nodup_iff.2 (List.nodup_iff_count_le_one.2 fun a => by have := hc a; omega), fun hm => ?_⟩
  have h1 := hc r.id
  have h2 : 0 < ((edges r).map Prod.snd).count r.id := List.count_pos_iff.2 (hp.mem_iff.1 hm)
  simp at h1
  omega

/-- no (closed or open) branch of a subtree with distinct ids lists a node twice -/
theorem bv_nodup (r : Rose) : r.ids.Nodup → (∀ b ∈ (branchVal r).1, b.Nodup) ∧ (branchVal r).2.Nodup := by
  induction r using rose_ind with
  | h i ks ih =>
    intro hD
    simp only [Rose.ids, List.nodup_cons, idsL_eq, List.mem_flatMap, not_exists, not_and] at hD
    have hk : ∀ k ∈ ks, k.ids.Nodup := (List.nodup_flatMap.1 hD.2).1
    have hopen : ∀ k ∈ ks, ((branchVal k).2 ++ [i]).Nodup := by
      intro k hkm
      rw [List.nodup_append]
      refine ⟨(ih k hkm (hk k hkm)).2, by simp, ?_⟩
      intro a ha b hb
      simp only [List.mem_singleton] at hb
      subst hb
      intro hab
      exact hD.1 k hkm (hab ▸ (bv_mem k).2 a ha)
    rcases ks with _ | ⟨k, _ | ⟨k2, t⟩⟩
    · simp [branchVal_node, cb_nil]
    · have hk1 := ih k (List.mem_cons_self ..) (hk k (List.mem_cons_self ..))
      simp only [branchVal_node, List.map_cons, List.map_nil, cb_one]
      exact ⟨hk1.1, hopen k (List.mem_cons_self ..)⟩
    · rw [branchVal_many]
      refine ⟨?_, by simp⟩
      intro b hb
      simp only [List.mem_flatMap, List.mem_map, closeAt] at hb
      obtain ⟨sc, ⟨k', hk', rfl⟩, hb⟩ := hb
      simp only [List.mem_reverse, List.mem_append, List.mem_singleton] at hb
      rcases hb with hb | rfl
      · exact (ih k' hk' (hk k' hk')).1 b hb
      · exact List.nodup_reverse.2 (hopen k' hk')

theorem branch_nodup (r : Rose) (hD : r.ids.Nodup) (b : List Int) (hb : b ∈ branchesOf r) : b.Nodup := by
  obtain ⟨h1, h2⟩ := bv_nodup r hD
  simp only [branchesOf, Branches.finish] at hb
  split at hb
  · simp only [List.mem_cons] at hb
    rcases hb with rfl | hb
    · exact List.nodup_reverse.2 h2
    · exact h1 b hb
  · exact h1 b hb

theorem good_tree (r : Rose) (pids : List Int) (h : C06.IsTree r pids) : Good pids.length (branchesOf r) := by
  intro b hb
  refine ⟨?_, ?_, branch_nodup r h.1.2 b hb⟩
  · obtain ⟨top, m, last, rfl, _⟩ := branch_shape _ r h.1.1 b hb
    simp
  · intro x hx
    exact (C06.isTree_mem h x).1 (branch_mem r b hb x hx)

theorem mid_eq (top last : Int) (m : List Int) : mid (top :: (m ++ [last])) = m := by simp [mid]

/-- an interior row of one branch is on no other branch of the tree (it has exactly one child; first nodes of branches are the root or
furcations; every node is a non-first member of one branch only) -/
theorem pairwise_tree (r : Rose) (pids : List Int) (h : C06.IsTree r pids) :
    (branchesOf r).Pairwise (fun b b' => (∀ m ∈ mid b, m ∉ b') ∧ (∀ m ∈ mid b', m ∉ b)) := by
  obtain ⟨hT, hroot⟩ := tails_nodup r h.1.2
  have key : ∀ b ∈ branchesOf r, ∀ b' ∈ branchesOf r, List.Disjoint b.tail b'.tail → ∀ m ∈ mid b, m ∉ b' := by
    intro b hb b' hb' hd m hm hmb'
    obtain ⟨top, mi, last, rfl, _, hmid, _⟩ := branch_shape _ r h.1.1 b hb
    obtain ⟨top', mi', last', rfl, htop', _, _⟩ := branch_shape _ r h.1.1 b' hb'
    rw [mid_eq] at hm
    have hmt : m ∈ (top :: (mi ++ [last])).tail := by simp [hm]
    rcases List.mem_cons.1 hmb' with rfl | hmt'
    · rcases htop' with rfl | h2
      · exact hroot (List.mem_flatMap.2 ⟨_, hb, hmt⟩)
      · have := hmid m hm; omega
    · exact hd hmt hmt'
  refine ((List.nodup_flatMap.1 hT).2).imp_of_mem ?_
  intro b b' hb hb' hd
  exact ⟨key b hb b' hb' hd, key b' hb' b hb (fun a h1 h2 => hd h2 h1)⟩

/-- **`TreeSmoother.__call__` as translated, on every well-formed tree** (`C06.IsTree`: any shape / depth / size), three coordinate columns of
the tree's length, every window `np.ones(k)`, `k ≥ 1`, every fuel `≥ 2 n + 1`: the generated function does not raise and returns columns
* of the same length (node count; ids, parents, radii are not touched: the generated function does not even take them apart from the topology);
* in which the rows of EVERY branch of `branchesOf r` (= the generated `get_branches`) are `convSmooth` of the ORIGINAL rows of that branch
  (`= conv_smooth` generated from `BranchConvSmoother`, `C16.generated_smooth_eq_model`) — although the loop smooths the CURRENT rows, in
  branch order, and writes a furcation once per branch it ends or starts: every such write stores the value the row already has (`stepCol_frame`);
* in which every row that is not strictly inside a branch (root, furcations, tips) keeps its coordinates. -/
theorem generated_smooth_tree (r : Rose) (pids : List Int) (h : C06.IsTree r pids) (xs ys zs : List Rat) (k F : Nat) (hk : 1 ≤ k)
    (hx : xs.length = pids.length) (hy : ys.length = pids.length) (hz : zs.length = pids.length) :
    ∃ xs' ys' zs', smooth_tree ratFld (2 * r.size + F + 1) (Sub.rangeI pids.length) pids xs ys zs (List.replicate k 1)
        = some (xs', ys', zs', ()) ∧
      xs' = (branchesOf r).foldl (stepCol k) xs ∧ ys' = (branchesOf r).foldl (stepCol k) ys ∧ zs' = (branchesOf r).foldl (stepCol k) zs ∧
      xs'.length = pids.length ∧ ys'.length = pids.length ∧ zs'.length = pids.length ∧
      (∀ b ∈ branchesOf r, gather xs' b = convSmooth (gather xs b) k ∧ gather ys' b = convSmooth (gather ys b) k ∧
        gather zs' b = convSmooth (gather zs b) k) ∧
      (∀ j : Nat, (∀ b ∈ branchesOf r, ∀ m ∈ mid b, m.toNat ≠ j) →
        xs'.getD j 0 = xs.getD j 0 ∧ ys'.getD j 0 = ys.getD j 0 ∧ zs'.getD j 0 = zs.getD j 0) := by
  have hg := good_tree r pids h
  have hp := pairwise_tree r pids h
  refine ⟨_, _, _, smooth_tree_eq k hk _ _ pids xs ys zs (branchesOf r) (generated_getBranches_eq _ pids r h.1 h.2.2.1 F)
    (by omega) (by omega) (fun b hb => ⟨(hg b hb).1, hx ▸ (hg b hb).2.1⟩), rfl, rfl, rfl, by simpa using hx, by simpa using hy, by simpa using hz,
    fun b hb => ⟨foldl_gather k _ _ xs hx hg hp b hb, foldl_gather k _ _ ys hy hg hp b hb, foldl_gather k _ _ zs hz hg hp b hb⟩,
    fun j hj => ⟨foldl_frame k _ _ xs hx hg j hj, foldl_frame k _ _ ys hy hg j hj, foldl_frame k _ _ zs hz hg j hj⟩⟩

/-- **end points of every branch keep their coordinates** (`generated_smooth_endpoints_count` on every iteration): read off the per-branch statement -/
theorem generated_smooth_tree_endpoints (r : Rose) (pids : List Int) (h : C06.IsTree r pids) (xs : List Rat) (k : Nat)
    (hx : xs.length = pids.length) (b : List Int) (hb : b ∈ branchesOf r) (p : Nat) (hp : p < b.length) (hend : p = 0 ∨ p + 1 = b.length) :
    ((branchesOf r).foldl (stepCol k) xs).getD (b[p]).toNat 0 = xs.getD (b[p]).toNat 0 := by
  have h1 := gather_getElem ((branchesOf r).foldl (stepCol k) xs) b p hp
  have h2 := gather_getElem xs b p hp
  rw [← h1, ← h2]
  simp only [foldl_gather k _ _ xs hx (good_tree r pids h) (pairwise_tree r pids h) b hb]
  exact convSmooth_ends _ k p (by simpa using hp) (by simpa using hend)

/-- non-vacuity (kernel-evaluated): the tree `0 ← 1 ← 2 ← {3 ← 4, 5}` (branches `[0,1,2]`, `[2,3,4]`, `[2,5]`), window 3: rows 1 and 3 move to the
mean of their neighbourhood, the root, the furcation 2 (written three times) and the tips 4, 5 stay -/
example : smooth_tree ratFld 13 [0, 1, 2, 3, 4, 5] [-1, 0, 1, 2, 3, 2] [0, 3, 3, 9, 6, 1] [0, 0, 0, 0, 0, 0] [1, 1, 1, 1, 1, 1] [1, 1, 1]
    = some ([0, 2, 3, 6, 6, 1], [0, 0, 0, 0, 0, 0], [1, 1, 1, 1, 1, 1], ()) := by decide +kernel

example : C06.IsTree (.node 0 [.node 1 [.node 2 [.node 3 [.node 4 []], .node 5 []]]]) [-1, 0, 1, 2, 3, 2] := by
  refine ⟨⟨?_, by decide⟩, by decide, rfl, rfl⟩
  simp [Agrees, AgreesL, tableKids, Rose.id, Sub.rangeI, List.range, List.range.loop]

end C16Tree2

/-! ## the order of the branches does not matter -/
namespace C16Tree2
open Gen.Algo Py Resample RefineSmoothTree C08 Trav Branches

/-- the fold over any reordering of the branches gives the same column -/
theorem foldl_perm (k n : Nat) (brs brs' : List (List Int)) (col : List Rat) (hl : col.length = n) (hg : Good n brs)
    (hp : brs.Pairwise (fun b b' => (∀ m ∈ mid b, m ∉ b') ∧ (∀ m ∈ mid b', m ∉ b))) (hperm : brs'.Perm brs) :
    brs'.foldl (stepCol k) col = brs.foldl (stepCol k) col := by
  have hg' : Good n brs' := fun b hb => hg b (hperm.mem_iff.1 hb)
  have hp' : brs'.Pairwise (fun b b' => (∀ m ∈ mid b, m ∉ b') ∧ (∀ m ∈ mid b', m ∉ b)) :=
    (hperm.pairwise_iff (fun h => ⟨h.2, h.1⟩)).2 hp
  apply List.ext_getElem (by simp)
  intro j h1 h2
  have key : ∀ (l : List Rat) (hj : j < l.length), l[j] = l.getD j 0 := by
    intro l hj; simp [List.getD_eq_getElem?_getD, hj]
  rw [key, key]
  by_cases hex : ∃ b ∈ brs, ∃ m ∈ mid b, m.toNat = j
  · obtain ⟨b, hb, m, hm, rfl⟩ := hex
    obtain ⟨p, hp_, rfl⟩ := List.mem_iff_getElem.1 (mid_sub b m hm)
    have e1 := gather_getElem (brs'.foldl (stepCol k) col) b p hp_
    have e2 := gather_getElem (brs.foldl (stepCol k) col) b p hp_
    rw [← e1, ← e2]
    simp only [foldl_gather k n brs' col hl hg' hp' b (hperm.mem_iff.2 hb), foldl_gather k n brs col hl hg hp b hb]
  · have hex' : ∀ b ∈ brs, ∀ m ∈ mid b, m.toNat ≠ j := fun b hb m hm he => hex ⟨b, hb, m, hm, he⟩
    rw [foldl_frame k n brs' col hl hg' j (fun b hb => hex' b (hperm.mem_iff.1 hb)), foldl_frame k n brs col hl hg j hex']

/-- **on a well-formed tree the smoother's result does not depend on the order in which the branches are visited**: the fold over any permutation
of `branchesOf r` is the column the generated `TreeSmoother.__call__` returns (`generated_smooth_tree`) -/
theorem generated_smooth_tree_order (r : Rose) (pids : List Int) (h : C06.IsTree r pids) (col : List Rat) (k : Nat)
    (hl : col.length = pids.length) (brs' : List (List Int)) (hperm : brs'.Perm (branchesOf r)) :
    brs'.foldl (stepCol k) col = (branchesOf r).foldl (stepCol k) col :=
  foldl_perm k _ _ _ col hl (good_tree r pids h) (pairwise_tree r pids h) hperm

end C16Tree2

/-! ## parents come before children in the preorder listing: a rank for the branch tree -/
namespace C16Tree2
open C08 Trav Branches

theorem id_mem_ids : ∀ r : Rose, r.id ∈ r.ids
  | .node i ks => by simp [Rose.ids, Rose.id]

mutual
theorem edge_sub : ∀ r : Rose, ∀ p ∈ edges r, [p.1, p.2].Sublist r.ids
  | .node i ks => by
    intro p hp
    simp only [edges, List.mem_append, List.mem_map] at hp
    rcases hp with ⟨k, hk, rfl⟩ | hp
    · refine List.Sublist.cons_cons i (List.singleton_sublist.2 ?_)
      rw [idsL_eq]
      exact List.mem_flatMap.2 ⟨k, hk, id_mem_ids k⟩
    · exact (edgeL_sub ks p hp).cons i
theorem edgeL_sub : ∀ ks : List Rose, ∀ p ∈ edgesL ks, [p.1, p.2].Sublist (idsL ks)
  | [] => by simp [edgesL]
  | r :: rs => by
    intro p hp
    simp only [edgesL, List.mem_append] at hp
    rcases hp with hp | hp
    · exact (edge_sub r p hp).trans (List.sublist_append_left _ _)
    · exact (edgeL_sub rs p hp).trans (List.sublist_append_right _ _)
end

theorem idxOf_lt_of_sublist (a c : Int) : ∀ l : List Int, l.Nodup → [a, c].Sublist l → l.idxOf a < l.idxOf c
  | [], _, h => by simp at h
  | x :: l, hn, h => by
    rw [List.nodup_cons] at hn
    cases h with
    | cons _ h' =>
      have ha : a ∈ l := h'.subset (by simp)
      have hc : c ∈ l := h'.subset (by simp)
      have h1 : x ≠ a := fun e => hn.1 (e ▸ ha)
      have h2 : x ≠ c := fun e => hn.1 (e ▸ hc)
      have := idxOf_lt_of_sublist a c l hn.2 h'
      simp [List.idxOf_cons, h1, h2]
      omega
    | cons_cons _ h' =>
      have hc : c ∈ l := h'.subset (by simp)
      have h2 : a ≠ c := fun e => hn.1 (e ▸ hc)
      simp [List.idxOf_cons, h2]

theorem chain_lt (f : Int → Nat) : ∀ (a : Int) (t : List Int), t ≠ [] → (∀ p ∈ pairs (a :: t), f p.1 < f p.2) →
    f a < f ((a :: t).getLastD 0)
  | a, [], h, _ => absurd rfl h
  | a, [c], _, hp => by simpa [pairs] using hp (a, c) (by simp [pairs])
  | a, c :: d :: t, _, hp => by
    have h1 : f a < f c := hp (a, c) (by simp [pairs])
    have h2 := chain_lt f c (d :: t) (by simp) (fun p hpm => hp p (by rw [pairs_cons_cons]; exact List.mem_cons_of_mem _ hpm))
    simp only [List.getLastD_cons] at h2 ⊢
    simp at h2 ⊢
    omega

/-- the first node of every branch comes before its last node in the preorder listing of the tree -/
theorem branch_pre_lt (kidsOf : Int → List Int) (r : Rose) (hA : Agrees kidsOf r) (hD : r.ids.Nodup) (b : List Int) (hb : b ∈ branchesOf r) :
    r.ids.idxOf (b.headD 0) < r.ids.idxOf (b.getLastD 0) := by
  obtain ⟨top, mi, last, rfl, _⟩ := branch_shape kidsOf r hA b hb
  exact chain_lt (fun x => r.ids.idxOf x) top (mi ++ [last]) (by simp) (fun p hp =>
    idxOf_lt_of_sublist _ _ _ hD (edge_sub r p ((branches_partition_edges r).mem_iff.1 (List.mem_flatMap.2 ⟨_, hb, hp⟩))))

end C16Tree2

/-! # the tree-level resampling driver without the `Rep` hypothesis -/
namespace C16Tree
open Asm Gen.Algo RefineAsm RefineResamTree C16Asm Trav

section
variable {σ : Type} [Inhabited σ] (resample : σ → List Int → σ × List Int)
  (pair : σ → List (List Int) → List Int → σ × List ((List Int) × Int)) (dupFirst dupLast : List Int → Int → Bool)

/-- what is asked of the pairing callback (ANY function otherwise; the library's `pair` is a greedy matching, `C16.pair_exact`): the pairs it
returns do not depend on the callback state, and it hands back only children it was given -/
def PairOK : Prop :=
  (∀ (s s' : σ) brs cs, (pair s brs cs).2 = (pair s' brs cs).2) ∧ ∀ (s : σ) brs cs, ∀ pr ∈ (pair s brs cs).2, pr.2 ∈ cs

/-- **`Rep` derived** for a branch tree whose ids are positions and whose parent column is acyclic (a rank that drops from parent to child):
whatever the resampler callback returns (no condition on the number of samples), the resampled branch tree represents a rose tree -/
theorem rep_of_ranked (tid tpid : List Int) (branches : Py.Dict Int (List (List Int))) (hid : tid = Sub.rangeI tpid.length)
    (h0 : 0 < tpid.length) (hp : PairOK pair) (rk : Int → Nat)
    (hrk : ∀ j c : Int, 0 ≤ j → c ∈ tableKids (Sub.rangeI tpid.length) tpid j → rk c < rk j) :
    ∃ root, Rep pair dupFirst dupLast tid tpid branches root 0 := by
  subst hid
  refine rep_exists pair dupFirst dupLast _ tpid branches (fun h => 0 ≤ h ∧ h.toNat < tpid.length) rk ?_ (rk 0 + 1) 0 ⟨le_refl _, by simpa using h0⟩
    (by omega)
  intro h hd
  refine ⟨tableKids (Sub.rangeI tpid.length) tpid h, h, RefineNode.node_children_spec _ tpid h hd.1 (by omega),
    RefineNode.idx_rangeI _ h hd.1 (by omega), fun s s' => hp.1 s s' _ _, fun s pr hpr => ?_⟩
  have hc := hp.2 s _ _ pr hpr
  obtain ⟨hc0, hc1, _⟩ := (C06.mem_tableKids tpid h pr.2).1 hc
  exact ⟨⟨hc0, hc1⟩, hrk h pr.2 hd.1 hc⟩


/-- **the branch tree of a well-formed tree has an acyclic parent column**: the rank `n - (preorder position of the original node)` drops
from every key node to its children -/
theorem branchTree_ranked (r : Rose) (pids : List Int) (h : C06.IsTree r pids) :
    let nodes := 0 :: (C08.branchesOf r).map (fun b => b.getLastD 0)
    let bpid := -1 :: (C08.branchesOf r).map (fun b => ((nodes.idxOf (b.headD 0) : Nat) : Int))
    ∀ j c : Int, 0 ≤ j → c ∈ tableKids (Sub.rangeI bpid.length) bpid j →
      r.ids.length - r.ids.idxOf (nodes.getD c.toNat 0) < r.ids.length - r.ids.idxOf (nodes.getD j.toNat 0) := by
  intro nodes bpid j c hj hc
  obtain ⟨hc0, hc1, hcj⟩ := (C06.mem_tableKids bpid j c).1 hc
  obtain ⟨_, _, _, _, hhead, _⟩ := C08.branchTree_model_spec r pids h
  rcases hn : c.toNat with _ | c'
  · simp [hn, bpid] at hcj; omega
  · simp only [hn, bpid, List.getElem_cons_succ, List.getElem_map] at hcj
    have hc' : c' < (C08.branchesOf r).length := by simp [bpid, hn] at hc1; omega
    have hb := List.getElem_mem hc'
    have hlt := C16Tree2.branch_pre_lt _ r h.1.1 h.1.2 _ hb
    have hmem := hhead _ hb
    have e1 : nodes.getD (c' + 1) 0 = ((C08.branchesOf r)[c']).getLastD 0 := by
      simp [nodes, List.getD_eq_getElem?_getD, hc']
    have e2 : nodes.getD j.toNat 0 = ((C08.branchesOf r)[c']).headD 0 := by
      rw [← hcj]
      simp only [Int.toNat_natCast, List.getD_eq_getElem?_getD]
      rw [List.getElem?_eq_getElem (List.idxOf_lt_length_of_mem hmem)]
      simp
    rw [e1, e2]
    have := List.idxOf_le_length (a := ((C08.branchesOf r)[c']).getLastD 0) (l := r.ids)
    omega


/-- **the resampled tree is a well-formed sorted tree — `Rep` no longer a hypothesis**: for EVERY well-formed tree (`C06.IsTree`), every
branch-resampler callback (any function; no condition on the number of samples is needed for this statement) and every pairing callback that is
state-independent and returns only children it was given (`PairOK`), the resampled branch tree produced by the generated `bt_from_tree`
represents a rose tree `root`, and for every fuel `≥ 2 n + 1` and `≥ root.size + 1` the generated `Resampler.__call__` returns a table with ids
`0 .. m-1`, a `C07.WF` parent column, root first, every parent an earlier row, `1 + weight root` rows.
PARTIAL: the fuel condition is in terms of the existential `root` (no bound on `root.size`, since `PairOK` lets `pair` return a child several times);
the full statement for matchings (`PairOK1`) is `generated_resample_tree_wf` below. -/
theorem generated_resample_tree_wf_rootfuel_partial (r : Rose) (pids : List Int) (h : C06.IsTree r pids) (hp : PairOK pair) (cbs : σ) :
    ∃ root : BT, ∀ F : Nat, root.size + 1 ≤ 2 * r.size + F + 1 →
      ∃ s' nid npid, resam_tree resample pair dupFirst dupLast (2 * r.size + F + 1) (Sub.rangeI pids.length) pids cbs = some (s', (nid, npid)) ∧
        C07.WF npid ∧ npid.length = 1 + weight root ∧ nid = (List.range npid.length).map (fun (k : Nat) => (k : Int)) ∧
        npid.head? = some (-1) ∧ ∀ k (h : k < npid.length), 0 < k → 0 ≤ npid[k] ∧ npid[k] < (k : Int) := by
  obtain ⟨groups, hm, _⟩ := C08.branchTree_model_spec r pids h
  let M : Branches.BranchTreeM :=
    ⟨-1 :: (C08.branchesOf r).map (fun b => (((0 :: (C08.branchesOf r).map (fun b => b.getLastD 0)).idxOf (b.headD 0) : Nat) : Int)),
      0 :: (C08.branchesOf r).map (fun b => b.getLastD 0), groups⟩
  have ht : ∀ F, bt_from_tree (2 * r.size + F + 1) (Sub.rangeI pids.length) pids = some (RefineBranchTree.toObj M) := fun F => by
    rw [C08.generated_fromTree_eq_model r pids h F, hm]; rfl
  obtain ⟨root, hrep⟩ := rep_of_ranked pair dupFirst dupLast (RefineBranchTree.toObj M).id (RefineBranchTree.toObj M).pid
    (mapDict resample cbs [] (RefineBranchTree.toObj M).branches).2
    (by simp [M, RefineBranchTree.toObj, Py.range, Sub.rangeI]) (by simp [M, RefineBranchTree.toObj]) hp _ (branchTree_ranked r pids h)
  exact ⟨root, fun F hf => generated_resample_tree_wf_partial resample pair dupFirst dupLast root _ _ pids cbs _ (ht F) hf hrep⟩

end

section
variable {σ : Type} [Inhabited σ] (resample : σ → List Int → σ × List Int)
  (pair : σ → List (List Int) → List Int → σ × List ((List Int) × Int)) (dupFirst dupLast : List Int → Int → Bool)

/-- `PairOK` + every child handed back at most once when the children are distinct (a matching, as the library's greedy `pair` is: `C16.pair_exact`) -/
def PairOK1 : Prop := PairOK pair ∧ ∀ (s : σ) brs cs, cs.Nodup → ((pair s brs cs).2.map (·.2)).Nodup

/-- `rep_of_ranked` with the size bound: the rose tree has at most as many key nodes as the table has rows -/
theorem rep_of_ranked_sized (tid tpid : List Int) (branches : Py.Dict Int (List (List Int))) (hid : tid = Sub.rangeI tpid.length)
    (h0 : 0 < tpid.length) (hp : PairOK1 pair) (rk : Int → Nat)
    (hrk : ∀ j c : Int, 0 ≤ j → c ∈ tableKids (Sub.rangeI tpid.length) tpid j → rk c < rk j) :
    ∃ root, Rep pair dupFirst dupLast tid tpid branches root 0 ∧ root.size ≤ tpid.length := by
  subst hid
  have hk : ∀ x y : Int, (0 ≤ x ∧ x.toNat < tpid.length) → y ∈ tableKids (Sub.rangeI tpid.length) tpid x →
      (0 ≤ y ∧ y.toNat < tpid.length) ∧ rk y < rk x := by
    intro x y hx hy
    obtain ⟨hc0, hc1, _⟩ := (C06.mem_tableKids tpid x y).1 hy
    exact ⟨⟨hc0, hc1⟩, hrk x y hx.1 hy⟩
  obtain ⟨root, hrep, hnd, hdesc⟩ := rep_exists_sized pair dupFirst dupLast _ tpid branches (tableKids (Sub.rangeI tpid.length) tpid)
    (fun h => 0 ≤ h ∧ h.toNat < tpid.length) rk
    (fun h hd => ⟨h, RefineNode.node_children_spec _ tpid h hd.1 (by omega), RefineNode.idx_rangeI _ h hd.1 (by omega),
      fun s s' => hp.1.1 s s' _ _, fun s => ⟨hp.1.2 s _ _, hp.2 s _ _ (Represent.tableKids_nodup _ tpid h)⟩⟩)
    hk
    (fun x x' y h1 h2 => by
      obtain ⟨_, _, e1⟩ := (C06.mem_tableKids tpid x y).1 h1
      obtain ⟨_, _, e2⟩ := (C06.mem_tableKids tpid x' y).1 h2
      rw [← e1, ← e2])
    (rk 0 + 1) 0 ⟨le_refl _, by simpa using h0⟩ (by omega)
  refine ⟨root, hrep, ?_⟩
  rw [← idsBT_length]
  have hsub : idsBT root ⊆ Sub.rangeI tpid.length := by
    intro x hx
    have := (Desc.dom_rk _ _ rk hk (hdesc x hx) ⟨le_refl _, by simpa using h0⟩).1
    exact (C06.mem_rangeI _ _).2 this
  have := (List.subperm_of_subset hnd hsub).length_le
  simpa [Sub.rangeI] using this

end

section
variable {σ : Type} [Inhabited σ] (resample : σ → List Int → σ × List Int)
  (pair : σ → List (List Int) → List Int → σ × List ((List Int) × Int)) (dupFirst dupLast : List Int → Int → Bool)

theorem length_le_flatMap_tail : ∀ brs : List (List Int), (∀ b ∈ brs, 2 ≤ b.length) → brs.length ≤ (brs.flatMap List.tail).length
  | [], _ => by simp
  | b :: bs, h => by
    have h1 := h b (by simp)
    have h2 := length_le_flatMap_tail bs (fun b' hb' => h b' (by simp [hb']))
    simp only [List.flatMap_cons, List.length_append, List.length_cons, List.length_tail]
    omega

/-- a tree has fewer branches than nodes -/
theorem branches_length_le (r : Rose) (pids : List Int) (h : C06.IsTree r pids) : (C08.branchesOf r).length ≤ r.size := by
  have hg := C16Tree2.good_tree r pids h
  have h1 := length_le_flatMap_tail (C08.branchesOf r) (fun b hb => (hg b hb).1)
  have hsub : (C08.branchesOf r).flatMap List.tail ⊆ r.ids := by
    intro x hx
    obtain ⟨b, hb, hxb⟩ := List.mem_flatMap.1 hx
    exact C08.branch_mem r b hb x (List.mem_of_mem_tail hxb)
  have h2 := (List.subperm_of_subset (C16Tree2.tails_nodup r h.1.2).1 hsub).length_le
  have h3 : r.ids.length = pids.length := by simpa [Sub.rangeI] using h.2.1.length_eq
  have h4 := C06.isTree_size h
  omega

/-- **the resampled tree is a well-formed sorted tree — for EVERY well-formed tree, every branch-resampler callback and every pairing callback
that is a state-independent matching of children (`PairOK1`), for EVERY fuel `≥ 2 n + 1`**: the generated `Resampler.__call__`
(`bt_from_tree`, the resampler on every branch, `bt_assemble`) does not raise or run out of fuel and returns a table with ids `0 .. m-1`, a
`C07.WF` parent column, root first, every parent an earlier row, `1 + weight root` rows for a rose tree `root` that the resampled branch tree
represents (`Rep`), with at most as many key nodes as the tree has branches + 1.  No hypothesis on the resampled branch tree is left. -/
theorem generated_resample_tree_wf (r : Rose) (pids : List Int) (h : C06.IsTree r pids) (hp : PairOK1 pair) (cbs : σ) :
    ∃ root : BT, root.size ≤ (C08.branchesOf r).length + 1 ∧ ∀ F : Nat,
      ∃ s' nid npid, resam_tree resample pair dupFirst dupLast (2 * r.size + F + 1) (Sub.rangeI pids.length) pids cbs = some (s', (nid, npid)) ∧
        C07.WF npid ∧ npid.length = 1 + weight root ∧ nid = (List.range npid.length).map (fun (k : Nat) => (k : Int)) ∧
        npid.head? = some (-1) ∧ ∀ k (h : k < npid.length), 0 < k → 0 ≤ npid[k] ∧ npid[k] < (k : Int) := by
  obtain ⟨groups, hm, _⟩ := C08.branchTree_model_spec r pids h
  let M : Branches.BranchTreeM :=
    ⟨-1 :: (C08.branchesOf r).map (fun b => (((0 :: (C08.branchesOf r).map (fun b => b.getLastD 0)).idxOf (b.headD 0) : Nat) : Int)),
      0 :: (C08.branchesOf r).map (fun b => b.getLastD 0), groups⟩
  have ht : ∀ F, bt_from_tree (2 * r.size + F + 1) (Sub.rangeI pids.length) pids = some (RefineBranchTree.toObj M) := fun F => by
    rw [C08.generated_fromTree_eq_model r pids h F, hm]; rfl
  obtain ⟨root, hrep, hsz⟩ := rep_of_ranked_sized pair dupFirst dupLast (RefineBranchTree.toObj M).id (RefineBranchTree.toObj M).pid
    (mapDict resample cbs [] (RefineBranchTree.toObj M).branches).2
    (by simp [M, RefineBranchTree.toObj, Py.range, Sub.rangeI]) (by simp [M, RefineBranchTree.toObj]) hp _ (branchTree_ranked r pids h)
  have hsz' : root.size ≤ (C08.branchesOf r).length + 1 := by simpa [M, RefineBranchTree.toObj] using hsz
  have hb := branches_length_le r pids h
  have h1 : 1 ≤ r.size := by
    have := C06.isTree_size h
    have h2 := h.2.2.2
    cases hpd : pids with
    | nil => simp [hpd] at h2
    | cons a t => simp [hpd] at this; omega
  exact ⟨root, hsz', fun F => generated_resample_tree_wf_partial resample pair dupFirst dupLast root _ _ pids cbs _ (ht F) (by omega) hrep⟩

end

/-- non-vacuity: the pairing used in the kernel-evaluated example of `Props/C16Tree.lean` (branches and children in order) satisfies `PairOK`;
so `generated_resample_tree_wf` applies to it on every tree, e.g. on the Y-shaped tree evaluated there -/
example : PairOK (σ := Nat) (fun s bs cs => (s, List.zip bs cs)) :=
  ⟨fun _ _ _ _ => rfl, fun _ _ _ _ hpr => (List.of_mem_zip hpr).2⟩
theorem zip_snd_sublist {α β : Type} : ∀ (bs : List α) (cs : List β), ((List.zip bs cs).map Prod.snd).Sublist cs
  | [], cs => by simp
  | _ :: _, [] => by simp
  | b :: bs, c :: cs => by simpa using zip_snd_sublist bs cs

/-- the pairing of the kernel-evaluated example (branch `i` with child `i`) is a matching -/
theorem zip_pairOK1 : PairOK1 (σ := Nat) (fun s bs cs => (s, List.zip bs cs)) :=
  ⟨⟨fun _ _ _ _ => rfl, fun _ _ _ _ hpr => (List.of_mem_zip hpr).2⟩,
    fun _ bs cs hcs => hcs.sublist (zip_snd_sublist bs cs)⟩
theorem exY_isTree : C06.IsTree (.node 0 [.node 1 [.node 2 [], .node 3 []]]) [-1, 0, 1, 1] := by
  refine ⟨⟨?_, by decide⟩, by decide, rfl, rfl⟩
  simp [Agrees, AgreesL, tableKids, Rose.id, Sub.rangeI, List.range, List.range.loop]

/-- the hypotheses of `generated_resample_tree_wf` are jointly satisfiable: the Y-shaped tree, the identity "resampler" (counting its calls in the
shared state), the zip pairing — the instance of the theorem -/
example := generated_resample_tree_wf (σ := Nat) (fun s br => (s + 1, br)) (fun s bs cs => (s, List.zip bs cs)) (fun _ _ => true) (fun _ _ => true)
  _ _ exY_isTree zip_pairOK1 0

end C16Tree
