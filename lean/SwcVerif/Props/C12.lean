import SwcVerif.Gen.Matrices
import Mathlib.Tactic.Ring
import Mathlib.Tactic.LinearCombination
import Mathlib.Tactic.FieldSimp
import Mathlib.Algebra.Order.Field.Basic
/-! # C12 — geometric transforms apply the stated affine map about the stated centre

All theorems are about the matrices GENERATED from `swcgeom/utils/transforms.py` and the
conjugation / point application GENERATED from `swcgeom/transforms/geometry.py`
(`Gen.Mat.*`, `Gen.Affine.aboutRoot`, `Gen.Affine.applyPoint`), over an arbitrary linearly ordered
field `K`; `c s` stand for `cos θ`, `sin θ` with the only fact used about them, `c² + s² = 1`. -/
namespace C12
open Gen.Mat Gen.Affine

variable {K : Type} [Field K] [LinearOrder K]

local macro "mat_simp" : tactic =>
  `(tactic| simp [applyPoint, aboutRoot, mapply, mmul, dotK, colK, scale3d, translate3d, rotate3d_x, rotate3d_y,
      rotate3d_z, rotate3d, rodrigues])

/-- squared Euclidean distance -/
def d2 (p q : K × K × K) : K := (p.1 - q.1)^2 + (p.2.1 - q.2.1)^2 + (p.2.2 - q.2.2)^2

/-- `Translate(tx,ty,tz)` moves every node by exactly the vector. -/
theorem translate_moves (tx ty tz x y z : K) :
    applyPoint (translate3d tx ty tz) x y z = (x + tx, y + ty, z + tz) := by
  mat_simp

/-- `TranslateOrigin`: translating by minus the root's position puts the root at the origin. -/
theorem translate_origin_root (rx ry rz : K) :
    applyPoint (translate3d (-rx) (-ry) (-rz)) rx ry rz = (0, 0, 0) := by
  mat_simp

/-- `Scale(sx,sy,sz, center="origin")` multiplies coordinates per axis. -/
theorem scale_origin (sx sy sz x y z : K) :
    applyPoint (scale3d sx sy sz) x y z = (sx * x, sy * y, sz * z) := by
  mat_simp

/-- `Scale(..., center="root")`: root-relative offsets are multiplied per axis. -/
theorem scale_about_root (sx sy sz cx cy cz x y z : K) :
    applyPoint (aboutRoot (scale3d sx sy sz) cx cy cz) x y z
      = (cx + sx * (x - cx), cy + sy * (y - cy), cz + sz * (z - cz)) := by
  mat_simp
  refine ⟨by ring, by ring, by ring⟩

/-- the root stays fixed under scaling about the root -/
theorem scale_root_fixed (sx sy sz cx cy cz : K) :
    applyPoint (aboutRoot (scale3d sx sy sz) cx cy cz) cx cy cz = (cx, cy, cz) := by
  rw [scale_about_root]; simp

/-- the root stays fixed under every axis rotation about the root -/
theorem rotate_root_fixed (c s cx cy cz : K) :
    applyPoint (aboutRoot (rotate3d_x c s) cx cy cz) cx cy cz = (cx, cy, cz) ∧
    applyPoint (aboutRoot (rotate3d_y c s) cx cy cz) cx cy cz = (cx, cy, cz) ∧
    applyPoint (aboutRoot (rotate3d_z c s) cx cy cz) cx cy cz = (cx, cy, cz) := by
  refine ⟨?_, ?_, ?_⟩ <;> mat_simp <;> exact ⟨by ring, by ring⟩

/-- axis rotations (about the origin or about the root) preserve all inter-node distances -/
theorem rotate_axis_isometry (c s cx cy cz x y z x' y' z' : K) (h : c * c + s * s = 1) :
    d2 (applyPoint (aboutRoot (rotate3d_x c s) cx cy cz) x y z) (applyPoint (aboutRoot (rotate3d_x c s) cx cy cz) x' y' z')
      = d2 (x, y, z) (x', y', z') ∧
    d2 (applyPoint (aboutRoot (rotate3d_y c s) cx cy cz) x y z) (applyPoint (aboutRoot (rotate3d_y c s) cx cy cz) x' y' z')
      = d2 (x, y, z) (x', y', z') ∧
    d2 (applyPoint (aboutRoot (rotate3d_z c s) cx cy cz) x y z) (applyPoint (aboutRoot (rotate3d_z c s) cx cy cz) x' y' z')
      = d2 (x, y, z) (x', y', z') := by
  refine ⟨?_, ?_, ?_⟩
  · simp only [d2]; mat_simp
    linear_combination ((y - y')^2 + (z - z')^2) * h
  · simp only [d2]; mat_simp
    linear_combination ((x - x')^2 + (z - z')^2) * h
  · simp only [d2]; mat_simp
    linear_combination ((x - x')^2 + (y - y')^2) * h

theorem rotate_axis_isometry_origin (c s x y z x' y' z' : K) (h : c * c + s * s = 1) :
    d2 (applyPoint (rotate3d_x c s) x y z) (applyPoint (rotate3d_x c s) x' y' z') = d2 (x, y, z) (x', y', z') ∧
    d2 (applyPoint (rotate3d_y c s) x y z) (applyPoint (rotate3d_y c s) x' y' z') = d2 (x, y, z) (x', y', z') ∧
    d2 (applyPoint (rotate3d_z c s) x y z) (applyPoint (rotate3d_z c s) x' y' z') = d2 (x, y, z) (x', y', z') := by
  refine ⟨?_, ?_, ?_⟩
  · simp only [d2]; mat_simp
    linear_combination ((y - y')^2 + (z - z')^2) * h
  · simp only [d2]; mat_simp
    linear_combination ((x - x')^2 + (z - z')^2) * h
  · simp only [d2]; mat_simp
    linear_combination ((x - x')^2 + (y - y')^2) * h

/-- right-handed sense and stated axis: the axis is fixed and the next basis vector turns towards
the third one by the angle (x̂ ↦ (c, s, 0) about ẑ, cyclically). -/
theorem rotate_axis_right_handed (c s t : K) :
    applyPoint (rotate3d_z c s) 0 0 t = (0, 0, t) ∧ applyPoint (rotate3d_z c s) 1 0 0 = (c, s, 0) ∧
    applyPoint (rotate3d_x c s) t 0 0 = (t, 0, 0) ∧ applyPoint (rotate3d_x c s) 0 1 0 = (0, c, s) ∧
    applyPoint (rotate3d_y c s) 0 t 0 = (0, t, 0) ∧ applyPoint (rotate3d_y c s) 0 0 1 = (s, 0, c) := by
  refine ⟨?_, ?_, ?_, ?_, ?_, ?_⟩ <;> mat_simp

/-- `rotate3d(n, θ)` (Rodrigues) about a unit axis `n`: every point of the axis is fixed. -/
theorem rodrigues_fixes_axis (nx ny nz c s t : K) (hn : nx * nx + ny * ny + nz * nz = 1) :
    applyPoint (rotate3d nx ny nz c s) (t * nx) (t * ny) (t * nz) = (t * nx, t * ny, t * nz) := by
  mat_simp
  refine ⟨?_, ?_, ?_⟩
  · linear_combination (t * nx * (1 - c)) * hn
  · linear_combination (t * ny * (1 - c)) * hn
  · linear_combination (t * nz * (1 - c)) * hn

/-- the explicit action of the generated Rodrigues matrix on a point -/
theorem rodrigues_apply (nx ny nz c s x y z : K) :
    applyPoint (rotate3d nx ny nz c s) x y z =
      (c * x + (1 - c) * (nx * x + ny * y + nz * z) * nx + s * (ny * z - nz * y),
       c * y + (1 - c) * (nx * x + ny * y + nz * z) * ny + s * (nz * x - nx * z),
       c * z + (1 - c) * (nx * x + ny * y + nz * z) * nz + s * (nx * y - ny * x)) := by
  mat_simp
  refine ⟨by ring, by ring, by ring⟩

/-- Rodrigues rotation about a unit axis preserves all distances. -/
theorem rodrigues_isometry (nx ny nz c s x y z x' y' z' : K)
    (hn : nx * nx + ny * ny + nz * nz = 1) (h : c * c + s * s = 1) :
    d2 (applyPoint (rotate3d nx ny nz c s) x y z) (applyPoint (rotate3d nx ny nz c s) x' y' z')
      = d2 (x, y, z) (x', y', z') := by
  rw [rodrigues_apply, rodrigues_apply]
  simp only [d2]
  linear_combination
    (((x - x')^2 + (y - y')^2 + (z - z')^2) - (nx * (x - x') + ny * (y - y') + nz * (z - z'))^2) * h
    + ((1 - c)^2 * (nx * (x - x') + ny * (y - y') + nz * (z - z'))^2
        + s * s * ((x - x')^2 + (y - y')^2 + (z - z')^2)) * hn

/-- about the z axis Rodrigues' matrix is the `rotate3d_z` matrix (so the sense is right-handed) -/
theorem rodrigues_z (c s x y z : K) :
    applyPoint (rotate3d 0 0 1 c s) x y z = applyPoint (rotate3d_z c s) x y z := by
  rw [rodrigues_apply]
  mat_simp
  refine ⟨by ring, by ring⟩

/-- a transform followed by its inverse restores the coordinates -/
theorem inverse_restores (tx ty tz sx sy sz c s x y z : K) (hx : sx ≠ 0) (hy : sy ≠ 0) (hz : sz ≠ 0)
    (h : c * c + s * s = 1) :
    (let p := applyPoint (translate3d tx ty tz) x y z
     applyPoint (translate3d (-tx) (-ty) (-tz)) p.1 p.2.1 p.2.2 = (x, y, z)) ∧
    (let p := applyPoint (scale3d sx sy sz) x y z
     applyPoint (scale3d (1 / sx) (1 / sy) (1 / sz)) p.1 p.2.1 p.2.2 = (x, y, z)) ∧
    (let p := applyPoint (rotate3d_z c s) x y z
     applyPoint (rotate3d_z c (-s)) p.1 p.2.1 p.2.2 = (x, y, z)) ∧
    (let p := applyPoint (rotate3d_x c s) x y z
     applyPoint (rotate3d_x c (-s)) p.1 p.2.1 p.2.2 = (x, y, z)) ∧
    (let p := applyPoint (rotate3d_y c s) x y z
     applyPoint (rotate3d_y c (-s)) p.1 p.2.1 p.2.2 = (x, y, z)) := by
  refine ⟨?_, ?_, ?_, ?_, ?_⟩
  · mat_simp
  · mat_simp
    refine ⟨by field_simp, by field_simp, by field_simp⟩
  · mat_simp
    refine ⟨by linear_combination x * h, by linear_combination y * h⟩
  · mat_simp
    refine ⟨by linear_combination y * h, by linear_combination z * h⟩
  · mat_simp
    refine ⟨by linear_combination x * h, by linear_combination z * h⟩

/-- the defaults the classes use: scaling and rotating are about the root unless told otherwise -/
theorem default_centres :
    defaultCenterScale = "root" ∧ defaultCenterRotate = "root" ∧ defaultCenterRotateX = "root" ∧
    defaultCenterRotateY = "root" ∧ defaultCenterRotateZ = "root" ∧ defaultCenterAffineTransform = "origin" := by
  decide

-- non-vacuity / concrete instances over ℚ
example : applyPoint (aboutRoot (scale3d (2 : ℚ) 2 2) 5 5 5) 5 5 5 = (5, 5, 5) := by
  rw [scale_root_fixed]
example : applyPoint (aboutRoot (rotate3d_z (0 : ℚ) 1) 5 5 5) 6 5 5 = (5, 6, 5) := by
  norm_num [applyPoint, aboutRoot, mapply, mmul, dotK, colK, translate3d, rotate3d_z]
example : ((3 : ℚ) / 5) * (3 / 5) + (4 / 5) * (4 / 5) = 1 := by norm_num
end C12
