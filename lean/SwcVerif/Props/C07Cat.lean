import SwcVerif.Props.C07
import SwcVerif.Proofs.Pipeline
import Mathlib.Tactic.Set
import Mathlib.Tactic.ByContra
/-! # C07 — the concatenated table is a tree, so the final sort applies to it

`cat_separate` / `cat_merged` (in `Props/C07.lean`) describe the table `cat_tree` builds row by row.  Here the
non-coincident case is closed: that table is a well-formed tree rooted at node 0 of the first tree (every
node of the first tree reaches its root as before; every node of the second tree reaches the junction node
`node2` in the re-rooted second tree, which hangs from `node1`), hence — by C05's theorems, through
`Pipeline.wfr_sorted` — the final `_sort_tree` succeeds and returns a well-formed, sorted tree with
`|tree1| + |tree2|` nodes. -/
set_option linter.unusedVariables false
namespace C07
open Redir SortM Pipeline

theorem WF.toWFr {pids : List Int} (hw : WF pids) : WFr pids 0 :=
  ⟨hw.root, fun k h hk => hw.2.1 k h (by omega), fun k hk => by simpa using hw.2.2 k hk⟩

/-- the second tree as it enters the concatenation is a well-formed tree rooted at the junction node -/
theorem second_wfr (p2 t2 : List Int) (node2 : Nat) (hw : WF p2) (hn : node2 < p2.length) :
    WFr (second p2 t2 node2).pids node2 := by
  unfold second
  split
  · rename_i h
    have : node2 = 0 := by
      by_contra hne
      obtain ⟨p, hp, hp0, _⟩ := hw.par_valid node2 (by omega) hn
      simp [List.getD_eq_getElem?_getD, hp] at h
      omega
    subst this
    exact hw.toWFr
  · exact redirect_wfr p2 t2 hw node2 hn

private theorem rp_length_le (ps : List Int) : ∀ (f : Nat) (v : Int), (rootPath ps f v).length ≤ f + 1 := by
  intro f
  induction f with
  | zero => intro v; simp [rp_zero]
  | succ f ih =>
    intro v
    rw [rp_succ]
    split
    · simp
    · have := ih (ps.getD v.toNat (-1)); rw [List.length_cons]; omega

/-- depth of a node: number of nodes on its root path -/
private def dep (ps : List Int) (v : Nat) : Nat := (rootPath ps ps.length (v : Int)).length

private theorem dep_step {ps : List Int} {ρ : Nat} (hw : WFr ps ρ) (v : Nat) (hv : v < ps.length) (hne : v ≠ ρ) :
    dep ps (ps[v]).toNat + 1 = dep ps v := by
  unfold dep
  have h := hw.path_cons (v : Int) (by omega) (by omega) (by omega)
  have hp := hw.valid v hv hne
  rw [h, List.length_cons]
  have e : ps.getD ((v : Int)).toNat (-1) = ps[v] := by
    simp [List.getD_eq_getElem?_getD, hv]
  rw [e]
  have : ((ps[v]).toNat : Int) = ps[v] := by omega
  rw [this]

section cat
variable (p1 t1 x1 y1 z1 p2 t2 x2 y2 z2 : List Int) (node1 node2 : Nat) (translate : Bool)

/-- **non-coincident junction: the concatenated table is a well-formed tree rooted at node 0** -/
theorem cat_separate_wfr (h1 : t1.length = p1.length ∧ x1.length = p1.length ∧ y1.length = p1.length ∧ z1.length = p1.length)
    (h2 : t2.length = p2.length ∧ x2.length = p2.length ∧ y2.length = p2.length ∧ z2.length = p2.length)
    (hn1 : node1 < p1.length) (hn2 : node2 < p2.length) (hw1 : WF p1) (hw2 : WF p2)
    (hc : ¬ Coincident x1 y1 z1 x2 y2 z2 node1 node2 translate) :
    WFr (catPre p1 t1 x1 y1 z1 p2 t2 x2 y2 z2 (node1 : Int) (node2 : Int) translate).pids 0 := by
  obtain ⟨_, hlen, hA, hB, hJ, _⟩ :=
    cat_separate p1 t1 x1 y1 z1 p2 t2 x2 y2 z2 node1 node2 translate h1 h2 hn1 hn2 hw2 hc
  set q := (catPre p1 t1 x1 y1 z1 p2 t2 x2 y2 z2 (node1 : Int) (node2 : Int) translate).pids with hq
  set s := (second p2 t2 node2).pids with hs
  have hsw : WFr s node2 := second_wfr p2 t2 node2 hw2 hn2
  have hsl : s.length = p2.length := second_length p2 t2 node2
  have hw1r := hw1.toWFr
  have n1pos := hw1.pos
  -- the entries of the table, as `getElem`
  have eA : ∀ i (h : i < p1.length) (h' : i < q.length), q[i] = p1[i] := by
    intro i h h'
    have := (hA i h).1
    rwa [C06.getD_eq_getElem _ _ h', C06.getD_eq_getElem _ _ h] at this
  have eB : ∀ j (h : j < p2.length) (hne : j ≠ node2) (h' : p1.length + j < q.length) (h'' : j < s.length),
      q[p1.length + j] = s[j] + p1.length := by
    intro j h hne h' h''
    have := hB j h hne
    rwa [C06.getD_eq_getElem _ _ h', C06.getD_eq_getElem _ _ h''] at this
  have eJ : ∀ (h' : p1.length + node2 < q.length), q[p1.length + node2] = (node1 : Int) := by
    intro h'
    have := hJ
    rwa [C06.getD_eq_getElem _ _ h'] at this
  have hroot : q[0]? = some (-1) := by
    have h0 : 0 < q.length := by omega
    rw [List.getElem?_eq_getElem h0, eA 0 n1pos h0]
    have := hw1.root
    rw [List.getElem?_eq_getElem n1pos] at this
    exact this
  have hvalid : ∀ k (h : k < q.length), k ≠ 0 → 0 ≤ q[k] ∧ q[k] < q.length := by
    intro k h hk
    by_cases hk1 : k < p1.length
    · rw [eA k hk1 h]
      have := hw1.2.1 k hk1 (by omega)
      omega
    · obtain ⟨j, rfl⟩ : ∃ j, k = p1.length + j := ⟨k - p1.length, by omega⟩
      have hj : j < p2.length := by omega
      by_cases hjn : j = node2
      · subst hjn; rw [eJ h]; omega
      · rw [eB j hj hjn h (by omega)]
        have := hsw.valid j (by omega) hjn
        omega
  let μ : Nat → Nat := fun k => if k < p1.length then dep p1 k else (p1.length + 2) + dep s (k - p1.length)
  have hμ : ∀ k (h : k < q.length), k ≠ 0 → μ (q[k]).toNat < μ k := by
    intro k h hk
    by_cases hk1 : k < p1.length
    · have hp := hw1.2.1 k hk1 (by omega)
      have hstep := dep_step hw1r k hk1 hk
      rw [eA k hk1 h]
      have hlt : (p1[k]).toNat < p1.length := by omega
      simp only [μ, if_pos hlt, if_pos hk1]
      omega
    · obtain ⟨j, rfl⟩ : ∃ j, k = p1.length + j := ⟨k - p1.length, by omega⟩
      have hj : j < p2.length := by omega
      by_cases hjn : j = node2
      · subst hjn
        rw [eJ h]
        have hlt : ((node1 : Int)).toNat < p1.length := by omega
        simp only [μ, if_pos hlt, if_neg hk1]
        have : dep p1 (node1 : Int).toNat ≤ p1.length + 1 := rp_length_le p1 _ _
        omega
      · rw [eB j hj hjn h (by omega)]
        have hp := hsw.valid j (by omega) hjn
        have hstep := dep_step hsw j (by omega) hjn
        have hge : ¬ (s[j] + (p1.length : Int)).toNat < p1.length := by omega
        have e1 : (s[j] + (p1.length : Int)).toNat - p1.length = (s[j]).toNat := by omega
        have e2 : p1.length + j - p1.length = j := by omega
        simp only [μ, if_neg hge, if_neg hk1, e1, e2]
        omega
  exact ⟨hroot, hvalid, reach_of_measure q 0 hroot hvalid μ hμ⟩

/-- **… so the final sort succeeds and `cat_tree` returns a well-formed, sorted tree with every node of both
trees** (non-coincident junction) -/
theorem cat_separate_sorted (h1 : t1.length = p1.length ∧ x1.length = p1.length ∧ y1.length = p1.length ∧ z1.length = p1.length)
    (h2 : t2.length = p2.length ∧ x2.length = p2.length ∧ y2.length = p2.length ∧ z2.length = p2.length)
    (hn1 : node1 < p1.length) (hn2 : node2 < p2.length) (hw1 : WF p1) (hw2 : WF p2)
    (hc : ¬ Coincident x1 y1 z1 x2 y2 z2 node1 node2 translate) :
    ∃ newPids idMap c', catTree p1 t1 x1 y1 z1 p2 t2 x2 y2 z2 (node1 : Int) (node2 : Int) translate = some (newPids, idMap, c') ∧
      WF newPids ∧ (∀ k (h : k < newPids.length), 0 < k → newPids[k] < (k : Int)) ∧
      newPids.length = p1.length + p2.length := by
  have hwfr := cat_separate_wfr p1 t1 x1 y1 z1 p2 t2 x2 y2 z2 node1 node2 translate h1 h2 hn1 hn2 hw1 hw2 hc
  obtain ⟨hids, hlen, _⟩ :=
    cat_separate p1 t1 x1 y1 z1 p2 t2 x2 y2 z2 node1 node2 translate h1 h2 hn1 hn2 hw2 hc
  obtain ⟨res, hres, hwf, hsorted, hl⟩ := wfr_sorted _ 0 hwfr
  have hid : (catPre p1 t1 x1 y1 z1 p2 t2 x2 y2 z2 (node1 : Int) (node2 : Int) translate).ids =
      Sub.rangeI (catPre p1 t1 x1 y1 z1 p2 t2 x2 y2 z2 (node1 : Int) (node2 : Int) translate).pids.length := by
    rw [hids, hlen]; rfl
  unfold catTree
  simp only
  rw [hid, hres]
  exact ⟨_, _, _, rfl, hwf, hsorted, by rw [hl, hlen]⟩

end cat
end C07
