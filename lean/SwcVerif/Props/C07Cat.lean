import SwcVerif.Props.C07
import SwcVerif.Proofs.Pipeline
import SwcVerif.Proofs.Relabel
import Mathlib.Tactic.Set
import Mathlib.Tactic.ByContra
/-! # C07 — the concatenated table is a tree, so the final sort applies to it

`cat_separate` / `cat_merged` (in `Props/C07.lean`) describe the table `cat_tree` builds row by row.  Here the
non-coincident case is closed: that table is a well-formed tree rooted at node 0 of the first tree (every
node of the first tree reaches its root as before; every node of the second tree reaches the junction node
`node2` in the re-rooted second tree, which hangs from `node1`), hence — by C05's theorems, through
`Pipeline.wfr_sorted` — the final `_sort_tree` succeeds and returns a well-formed, sorted tree with
`|tree1| + |tree2|` nodes. -/
set_option linter.unusedVariables false
namespace C07
open Redir SortM Pipeline

theorem WF.toWFr {pids : List Int} (hw : WF pids) : WFr pids 0 :=
  ⟨hw.root, fun k h hk => hw.2.1 k h (by omega), fun k hk => by simpa using hw.2.2 k hk⟩

/-- the second tree as it enters the concatenation is a well-formed tree rooted at the junction node -/
theorem second_wfr (p2 t2 : List Int) (node2 : Nat) (hw : WF p2) (hn : node2 < p2.length) :
    WFr (second p2 t2 node2).pids node2 := by
  unfold second
  split
  · rename_i h
    have : node2 = 0 := by
      by_contra hne
      obtain ⟨p, hp, hp0, _⟩ := hw.par_valid node2 (by omega) hn
      simp [List.getD_eq_getElem?_getD, hp] at h
      omega
    subst this
    exact hw.toWFr
  · exact redirect_wfr p2 t2 hw node2 hn

private theorem rp_length_le (ps : List Int) : ∀ (f : Nat) (v : Int), (rootPath ps f v).length ≤ f + 1 := by
  intro f
  induction f with
  | zero => intro v; simp [rp_zero]
  | succ f ih =>
    intro v
    rw [rp_succ]
    split
    · simp
    · have := ih (ps.getD v.toNat (-1)); rw [List.length_cons]; omega

/-- depth of a node: number of nodes on its root path -/
private def dep (ps : List Int) (v : Nat) : Nat := (rootPath ps ps.length (v : Int)).length

private theorem dep_step {ps : List Int} {ρ : Nat} (hw : WFr ps ρ) (v : Nat) (hv : v < ps.length) (hne : v ≠ ρ) :
    dep ps (ps[v]).toNat + 1 = dep ps v := by
  unfold dep
  have h := hw.path_cons (v : Int) (by omega) (by omega) (by omega)
  have hp := hw.valid v hv hne
  rw [h, List.length_cons]
  have e : ps.getD ((v : Int)).toNat (-1) = ps[v] := by
    simp [List.getD_eq_getElem?_getD, hv]
  rw [e]
  have : ((ps[v]).toNat : Int) = ps[v] := by omega
  rw [this]

section cat
variable (p1 t1 x1 y1 z1 p2 t2 x2 y2 z2 : List Int) (node1 node2 : Nat) (translate : Bool)

/-- **non-coincident junction: the concatenated table is a well-formed tree rooted at node 0** -/
theorem cat_separate_wfr (h1 : t1.length = p1.length ∧ x1.length = p1.length ∧ y1.length = p1.length ∧ z1.length = p1.length)
    (h2 : t2.length = p2.length ∧ x2.length = p2.length ∧ y2.length = p2.length ∧ z2.length = p2.length)
    (hn1 : node1 < p1.length) (hn2 : node2 < p2.length) (hw1 : WF p1) (hw2 : WF p2)
    (hc : ¬ Coincident x1 y1 z1 x2 y2 z2 node1 node2 translate) :
    WFr (catPre p1 t1 x1 y1 z1 p2 t2 x2 y2 z2 (node1 : Int) (node2 : Int) translate).pids 0 := by
  obtain ⟨_, hlen, hA, hB, hJ, _⟩ :=
    cat_separate p1 t1 x1 y1 z1 p2 t2 x2 y2 z2 node1 node2 translate h1 h2 hn1 hn2 hw2 hc
  set q := (catPre p1 t1 x1 y1 z1 p2 t2 x2 y2 z2 (node1 : Int) (node2 : Int) translate).pids with hq
  set s := (second p2 t2 node2).pids with hs
  have hsw : WFr s node2 := second_wfr p2 t2 node2 hw2 hn2
  have hsl : s.length = p2.length := second_length p2 t2 node2
  have hw1r := hw1.toWFr
  have n1pos := hw1.pos
  -- the entries of the table, as `getElem`
  have eA : ∀ i (h : i < p1.length) (h' : i < q.length), q[i] = p1[i] := by
    intro i h h'
    have := (hA i h).1
    rwa [C06.getD_eq_getElem _ _ h', C06.getD_eq_getElem _ _ h] at this
  have eB : ∀ j (h : j < p2.length) (hne : j ≠ node2) (h' : p1.length + j < q.length) (h'' : j < s.length),
      q[p1.length + j] = s[j] + p1.length := by
    intro j h hne h' h''
    have := hB j h hne
    rwa [C06.getD_eq_getElem _ _ h', C06.getD_eq_getElem _ _ h''] at this
  have eJ : ∀ (h' : p1.length + node2 < q.length), q[p1.length + node2] = (node1 : Int) := by
    intro h'
    have := hJ
    rwa [C06.getD_eq_getElem _ _ h'] at this
  have hroot : q[0]? = some (-1) := by
    have h0 : 0 < q.length := by omega
    rw [List.getElem?_eq_getElem h0, eA 0 n1pos h0]
    have := hw1.root
    rw [List.getElem?_eq_getElem n1pos] at this
    exact this
  have hvalid : ∀ k (h : k < q.length), k ≠ 0 → 0 ≤ q[k] ∧ q[k] < q.length := by
    intro k h hk
    by_cases hk1 : k < p1.length
    · rw [eA k hk1 h]
      have := hw1.2.1 k hk1 (by omega)
      omega
    · obtain ⟨j, rfl⟩ : ∃ j, k = p1.length + j := ⟨k - p1.length, by omega⟩
      have hj : j < p2.length := by omega
      by_cases hjn : j = node2
      · subst hjn; rw [eJ h]; omega
      · rw [eB j hj hjn h (by omega)]
        have := hsw.valid j (by omega) hjn
        omega
  let μ : Nat → Nat := fun k => if k < p1.length then dep p1 k else (p1.length + 2) + dep s (k - p1.length)
  have hμ : ∀ k (h : k < q.length), k ≠ 0 → μ (q[k]).toNat < μ k := by
    intro k h hk
    by_cases hk1 : k < p1.length
    · have hp := hw1.2.1 k hk1 (by omega)
      have hstep := dep_step hw1r k hk1 hk
      rw [eA k hk1 h]
      have hlt : (p1[k]).toNat < p1.length := by omega
      simp only [μ, if_pos hlt, if_pos hk1]
      omega
    · obtain ⟨j, rfl⟩ : ∃ j, k = p1.length + j := ⟨k - p1.length, by omega⟩
      have hj : j < p2.length := by omega
      by_cases hjn : j = node2
      · subst hjn
        rw [eJ h]
        have hlt : ((node1 : Int)).toNat < p1.length := by omega
        simp only [μ, if_pos hlt, if_neg hk1]
        have : dep p1 (node1 : Int).toNat ≤ p1.length + 1 := rp_length_le p1 _ _
        omega
      · rw [eB j hj hjn h (by omega)]
        have hp := hsw.valid j (by omega) hjn
        have hstep := dep_step hsw j (by omega) hjn
        have hge : ¬ (s[j] + (p1.length : Int)).toNat < p1.length := by omega
        have e1 : (s[j] + (p1.length : Int)).toNat - p1.length = (s[j]).toNat := by omega
        have e2 : p1.length + j - p1.length = j := by omega
        simp only [μ, if_neg hge, if_neg hk1, e1, e2]
        omega
  exact ⟨hroot, hvalid, reach_of_measure q 0 hroot hvalid μ hμ⟩

/-- **… so the final sort succeeds and `cat_tree` returns a well-formed, sorted tree with every node of both
trees** (non-coincident junction) -/
theorem cat_separate_sorted (h1 : t1.length = p1.length ∧ x1.length = p1.length ∧ y1.length = p1.length ∧ z1.length = p1.length)
    (h2 : t2.length = p2.length ∧ x2.length = p2.length ∧ y2.length = p2.length ∧ z2.length = p2.length)
    (hn1 : node1 < p1.length) (hn2 : node2 < p2.length) (hw1 : WF p1) (hw2 : WF p2)
    (hc : ¬ Coincident x1 y1 z1 x2 y2 z2 node1 node2 translate) :
    ∃ newPids idMap c', catTree p1 t1 x1 y1 z1 p2 t2 x2 y2 z2 (node1 : Int) (node2 : Int) translate = some (newPids, idMap, c') ∧
      WF newPids ∧ (∀ k (h : k < newPids.length), 0 < k → newPids[k] < (k : Int)) ∧
      newPids.length = p1.length + p2.length := by
  have hwfr := cat_separate_wfr p1 t1 x1 y1 z1 p2 t2 x2 y2 z2 node1 node2 translate h1 h2 hn1 hn2 hw1 hw2 hc
  obtain ⟨hids, hlen, _⟩ :=
    cat_separate p1 t1 x1 y1 z1 p2 t2 x2 y2 z2 node1 node2 translate h1 h2 hn1 hn2 hw2 hc
  obtain ⟨res, hres, hwf, hsorted, hl⟩ := wfr_sorted _ 0 hwfr
  have hid : (catPre p1 t1 x1 y1 z1 p2 t2 x2 y2 z2 (node1 : Int) (node2 : Int) translate).ids =
      Sub.rangeI (catPre p1 t1 x1 y1 z1 p2 t2 x2 y2 z2 (node1 : Int) (node2 : Int) translate).pids.length := by
    rw [hids, hlen]; rfl
  unfold catTree
  simp only
  rw [hid, hres]
  exact ⟨_, _, _, rfl, hwf, hsorted, by rw [hl, hlen]⟩

end cat
/-- sorting a tree table with ARBITRARY distinct ids succeeds and yields a sorted well-formed parent list
(`Pipeline.sorted_wf` without the restriction to ids `0..n-1`) -/
theorem sorted_wf_gen (r : Rose) (ids ps : List Int) (h : C05.IsTreeTable r ids ps) :
    ∃ res, sortNodesImpl ids ps = .ok res ∧ WF res.newPids ∧
      (∀ k (h : k < res.newPids.length), 0 < k → res.newPids[k] < (k : Int)) ∧
      res.newPids.length = ids.length := by
  refine ⟨_, C05.sort_ok r _ _ h, ?_⟩
  have hs := C05.sort_sorted r _ _ h _ (C05.sort_ok r _ _ h)
  have hp := C05.sort_perm r _ _ h _ (C05.sort_ok r _ _ h)
  exact ⟨wf_of_sorted _ hs.1 (fun k hk hk0 => (hs.2 k hk hk0).2) (fun k hk hk0 => (hs.2 k hk hk0).1),
    fun k hk hk0 => (hs.2 k hk hk0).2, hp.2.2.2⟩

/-- closing the gap the deleted junction row leaves in the ids, and opening it again -/
private def closeGap (k0 v : Int) : Int := if v < k0 then v else v - 1
private def openGap (k0 v : Int) : Int := if v < k0 then v else v + 1

private theorem openGap_inj (k0 : Int) : Function.Injective (openGap k0) := by
  intro a b h
  unfold openGap at h
  split at h <;> split at h <;> omega

private theorem open_close (k0 v : Int) (h : v ≠ k0) : openGap k0 (closeGap k0 v) = v := by
  unfold openGap closeGap
  by_cases h1 : v < k0
  · rw [if_pos h1, if_pos h1]
  · rw [if_neg h1]
    have : ¬ (v - 1 < k0) := by omega
    rw [if_neg this]; omega

section cat
variable (p1 t1 x1 y1 z1 p2 t2 x2 y2 z2 : List Int) (node1 node2 : Nat) (translate : Bool)

/-- **coincident junction: the merged table — whose ids skip the deleted junction row — is a tree table, so the
final sort succeeds and `cat_tree` returns a well-formed, sorted tree with `|tree1| + |tree2| - 1` nodes** -/
theorem cat_merged_sorted (h1 : t1.length = p1.length ∧ x1.length = p1.length ∧ y1.length = p1.length ∧ z1.length = p1.length)
    (h2 : t2.length = p2.length ∧ x2.length = p2.length ∧ y2.length = p2.length ∧ z2.length = p2.length)
    (hn1 : node1 < p1.length) (hn2 : node2 < p2.length) (hw1 : WF p1) (hw2 : WF p2)
    (hc : Coincident x1 y1 z1 x2 y2 z2 node1 node2 translate) :
    ∃ newPids idMap c', catTree p1 t1 x1 y1 z1 p2 t2 x2 y2 z2 (node1 : Int) (node2 : Int) translate = some (newPids, idMap, c') ∧
      WF newPids ∧ (∀ k (h : k < newPids.length), 0 < k → newPids[k] < (k : Int)) ∧
      newPids.length = p1.length + p2.length - 1 := by
  obtain ⟨hlen, hA, hB⟩ :=
    cat_merged p1 t1 x1 y1 z1 p2 t2 x2 y2 z2 node1 node2 translate h1 h2 hn1 hn2 hw2 hc
  have hidsE := catPre_merged p1 t1 x1 y1 z1 p2 t2 x2 y2 z2 node1 node2 translate (by omega) (by omega) (by omega) hc
  set c := catPre p1 t1 x1 y1 z1 p2 t2 x2 y2 z2 (node1 : Int) (node2 : Int) translate with hcdef
  set s := (second p2 t2 node2).pids with hs
  have hsw : WFr s node2 := second_wfr p2 t2 node2 hw2 hn2
  have hsl : s.length = p2.length := second_length p2 t2 node2
  have hw1r := hw1.toWFr
  have n1pos := hw1.pos
  set n1 := p1.length with hn1def
  set n2 := p2.length with hn2def
  let k0 : Int := (n1 : Int) + (node2 : Int)
  let N' := n1 + n2 - 1
  -- where tree 2's node `j` ends up, and back
  let row : Nat → Nat := fun j => if j < node2 then n1 + j else n1 + j - 1
  let jOf : Nat → Nat := fun pos => if pos - n1 < node2 then pos - n1 else pos - n1 + 1
  have hrow_jOf : ∀ pos, n1 ≤ pos → pos < N' → row (jOf pos) = pos ∧ jOf pos < n2 ∧ jOf pos ≠ node2 := by
    intro pos h1' h2'
    by_cases hq : pos - n1 < node2
    · have e : jOf pos = pos - n1 := by simp only [jOf]; rw [if_pos hq]
      rw [e]; simp only [row]; rw [if_pos hq]; omega
    · have e : jOf pos = pos - n1 + 1 := by simp only [jOf]; rw [if_neg hq]
      rw [e]; simp only [row]; rw [if_neg (by omega)]; omega
  -- the ids: positions with the gap at `k0` opened
  have hids : c.ids = (Sub.rangeI N').map (openGap k0) := by
    have e : c.ids = eraseAt ((List.range (n1 + n2)).map Int.ofNat) (node2 + n1) := by
      rw [hidsE, ids_eq]
    rw [e]
    apply List.ext_getElem?
    intro i
    by_cases hi : i < N'
    · have hr : ((Sub.rangeI N').map (openGap k0))[i]? = some (openGap k0 (i : Int)) := by
        simp [Sub.rangeI, List.getElem?_map, List.getElem?_range hi]
      rw [hr]
      by_cases hik : i < node2 + n1
      · rw [eraseAt_getElem?_lt _ _ _ hik, List.getElem?_map, List.getElem?_range (by omega)]
        simp only [Option.map_some, openGap, k0]
        rw [if_pos (by omega)]; rfl
      · rw [eraseAt_getElem?_ge _ _ _ (by omega) (by simp; omega), List.getElem?_map, List.getElem?_range (by omega)]
        simp only [Option.map_some, openGap, k0]
        rw [if_neg (by omega)]; simp
    · rw [List.getElem?_eq_none (by rw [eraseAt_length _ _ (by simp; omega)]; simp; omega),
        List.getElem?_eq_none (by simp [Sub.rangeI]; omega)]
  -- entries of the parent column by position
  have hP1 : ∀ pos (h : pos < n1) (h' : pos < c.pids.length), c.pids[pos] = p1[pos] := by
    intro pos h h'
    have := (hA pos h).2.1
    rwa [C06.getD_eq_getElem _ _ h', C06.getD_eq_getElem _ _ h] at this
  have hP2 : ∀ pos (h : n1 ≤ pos) (h' : pos < c.pids.length) (hj : jOf pos < s.length),
      c.pids[pos] = if s[jOf pos] = (node2 : Int) then (node1 : Int) else s[jOf pos] + (n1 : Int) := by
    intro pos h h' hj
    obtain ⟨e1, e2, e3⟩ := hrow_jOf pos h (by omega)
    have := (hB (jOf pos) e2 e3).2.1
    have e1' : (if jOf pos < node2 then n1 + jOf pos else n1 + jOf pos - 1) = pos := e1
    beta_reduce at this
    rw [e1', C06.getD_eq_getElem _ _ h', C06.getD_eq_getElem _ _ hj] at this
    exact this
  -- no entry names the deleted row
  have hne : ∀ v ∈ c.pids, v ≠ k0 := by
    intro v hv
    obtain ⟨pos, hpos, rfl⟩ := List.getElem_of_mem hv
    by_cases h : pos < n1
    · rw [hP1 pos h hpos]
      by_cases h0 : pos = 0
      · subst h0
        have := hw1.root
        rw [List.getElem?_eq_getElem n1pos] at this
        have := Option.some.inj this
        simp only [k0]; omega
      · have := hw1.2.1 pos h (by omega)
        simp only [k0]; omega
    · obtain ⟨_, e2, e3⟩ := hrow_jOf pos (by omega) (by omega)
      rw [hP2 pos (by omega) hpos (by omega)]
      have hv := hsw.valid (jOf pos) (by omega) e3
      split
      · simp only [k0]; omega
      · rename_i hne'
        simp only [k0]; omega
  -- the compacted, position-indexed table
  set P := c.pids.map (closeGap k0) with hPdef
  have hPlen : P.length = N' := by simp [hPdef, hlen, N']
  have hpids : c.pids = P.map (openGap k0) := by
    rw [hPdef, List.map_map]
    conv_lhs => rw [← List.map_id c.pids]
    apply List.map_congr_left
    intro v hv
    simp only [Function.comp, id]
    exact (open_close k0 v (hne v hv)).symm
  have hPget : ∀ pos (h : pos < P.length), P[pos] = closeGap k0 (c.pids[pos]'(by simpa [hPdef] using h)) := by
    intro pos h; simp [hPdef]
  have hN' : 0 < N' := by omega
  have hroot : P[0]? = some (-1) := by
    rw [List.getElem?_eq_getElem (by omega), hPget 0 (by omega), hP1 0 n1pos (by omega)]
    have := hw1.root
    rw [List.getElem?_eq_getElem n1pos] at this
    rw [Option.some.inj this]
    simp [closeGap, k0]; omega
  -- values of `P`
  have hv1 : ∀ pos (h : pos < n1) (h' : pos < P.length), pos ≠ 0 → P[pos] = p1[pos] := by
    intro pos h h' h0
    rw [hPget pos h', hP1 pos h (by omega)]
    have := hw1.2.1 pos h (by omega)
    simp only [closeGap, k0]; rw [if_pos (by omega)]
  have hv2 : ∀ pos (h : n1 ≤ pos) (h' : pos < P.length) (hj : jOf pos < s.length),
      (s[jOf pos] = (node2 : Int) ∧ P[pos] = (node1 : Int)) ∨
      (s[jOf pos] ≠ (node2 : Int) ∧ 0 ≤ s[jOf pos] ∧ s[jOf pos] < n2 ∧
        n1 ≤ (P[pos]).toNat ∧ (P[pos]).toNat < N' ∧ 0 ≤ P[pos] ∧ jOf (P[pos]).toNat = (s[jOf pos]).toNat) := by
    intro pos h h' hj
    obtain ⟨_, e2, e3⟩ := hrow_jOf pos h (by omega)
    have hval := hsw.valid (jOf pos) (by omega) e3
    rw [hPget pos h', hP2 pos h (by omega) hj]
    by_cases hq : s[jOf pos] = (node2 : Int)
    · left; refine ⟨hq, ?_⟩
      rw [if_pos hq]; simp only [closeGap, k0]; rw [if_pos (by omega)]
    · right
      rw [if_neg hq]
      refine ⟨hq, hval.1, by omega, ?_⟩
      generalize hv : s[jOf pos] = v at hq hval ⊢
      by_cases hlt : v < (node2 : Int)
      · have e : closeGap k0 (v + (n1 : Int)) = v + n1 := by
          simp only [closeGap, k0]; rw [if_pos (by omega)]
        rw [e]
        refine ⟨by omega, by omega, by omega, ?_⟩
        have e2' : (v + (n1 : Int)).toNat - n1 = v.toNat := by omega
        simp only [jOf, e2']
        rw [if_pos (by omega)]
      · have e : closeGap k0 (v + (n1 : Int)) = v + n1 - 1 := by
          simp only [closeGap, k0]; rw [if_neg (by omega)]
        rw [e]
        refine ⟨by omega, by omega, by omega, ?_⟩
        have e2' : (v + (n1 : Int) - 1).toNat - n1 = v.toNat - 1 := by omega
        simp only [jOf, e2']
        rw [if_neg (by omega)]; omega
  have hvalid : ∀ k (h : k < P.length), k ≠ 0 → 0 ≤ P[k] ∧ P[k] < P.length := by
    intro k h hk
    by_cases hk1 : k < n1
    · rw [hv1 k hk1 h hk]
      have := hw1.2.1 k hk1 (by omega)
      omega
    · obtain ⟨_, e2, _⟩ := hrow_jOf k (by omega) (by omega)
      rcases hv2 k (by omega) h (by omega) with ⟨_, e⟩ | ⟨_, _, _, a, b, c', _⟩
      · rw [e]; omega
      · omega
  let μ : Nat → Nat := fun k => if k < n1 then dep p1 k else (n1 + 2) + dep s (jOf k)
  have hμ : ∀ k (h : k < P.length), k ≠ 0 → μ (P[k]).toNat < μ k := by
    intro k h hk
    by_cases hk1 : k < n1
    · have hp := hw1.2.1 k hk1 (by omega)
      have hstep := dep_step hw1r k hk1 hk
      rw [hv1 k hk1 h hk]
      have hlt : (p1[k]).toNat < n1 := by omega
      simp only [μ, if_pos hlt, if_pos hk1]
      omega
    · obtain ⟨_, e2, e3⟩ := hrow_jOf k (by omega) (by omega)
      rcases hv2 k (by omega) h (by omega) with ⟨_, e⟩ | ⟨hq, q0, q1, a, b, c', d⟩
      · rw [e]
        have hlt : ((node1 : Int)).toNat < n1 := by omega
        simp only [μ, if_pos hlt, if_neg hk1]
        have : dep p1 (node1 : Int).toNat ≤ n1 + 1 := rp_length_le p1 _ _
        omega
      · have hstep := dep_step hsw (jOf k) (by omega) e3
        simp only [μ, if_neg hk1, if_neg (show ¬ (P[k]).toNat < n1 by omega), d]
        omega
  have hwfr : WFr P 0 := ⟨hroot, hvalid, reach_of_measure P 0 hroot hvalid μ hμ⟩
  obtain ⟨r, hrep, hperm, hid⟩ := wfr_represented P 0 hwfr
  have htt := isTreeTable_of r P 0 hrep hperm hid hwfr.root hwfr.unique
  have htt' := Relabel.isTreeTable_map (openGap k0) (openGap_inj k0)
    (by simp only [openGap, k0]; rw [if_pos (by omega)]) r _ _ htt
  rw [hPlen, ← hids, ← hpids] at htt'
  obtain ⟨res, hres, hwf, hsorted, hl⟩ := sorted_wf_gen _ _ _ htt'
  unfold catTree
  simp only
  rw [← hcdef, hres]
  refine ⟨_, _, _, rfl, hwf, hsorted, ?_⟩
  rw [hl, hids]; simp [Sub.rangeI, N']

end cat

end C07
