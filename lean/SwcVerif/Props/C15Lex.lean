import SwcVerif.Refine.AscLex
import SwcVerif.Refine.AscBad
import SwcVerif.Props.C15Gen
/-! C15, character level, about the definitions GENERATED from the current source (`Gen/AlgoAscLex.lean`: `Lexer.__init__`, `__next__`,
`_read_word`, `_read_char`, `_read_line`, `_token` of `swcgeom/transforms/neurolucida_asc.py`, translated on every run): the generated
lexer is the hand-written lexer model `Asc.tokens` on EVERY text, and — composed with T17's `C15.generated_convert_eq_model` — generated
lexer ∘ generated parser ∘ generated walk is `Asc.convert` of the text. -/
namespace C15
open Gen.Algo RefineAsc RefineAscParse RefineAscLex

/-- **THE GENERATED LEXER IS THE MODEL** — for EVERY text `s` (any length; the fuels `|s| + 1` the driver uses are part of the
statement): iterating `Lexer.__next__` AS TRANSLATED FROM THE CURRENT SOURCE from `Lexer(io.StringIO(s))` yields exactly the tokens
(`TokenType` and value; line / column are dropped — the model has none) of the hand-written `Asc.tokens s` up to its first `.bad`, and
the iteration ends with StopIteration (`true`) iff there is no `.bad`; otherwise `__next__` raises there (`float()` rejecting a word that
`RE_FLOAT` matched). -/
theorem generated_lex_eq_model (encF : SwcText.Sci → Int) (s : SwcText.Str) :
    (AlgoRun.ascLexAll encF s).1.map AlgoRun.LexToken.toToken = (goodPrefix (Asc.tokens s)).1.map (enc encF) ∧
    (AlgoRun.ascLexAll encF s).2 = (goodPrefix (Asc.tokens s)).2 :=
  lexAll_eq encF s

/-- the generated lexer raises (anything but StopIteration) exactly on the texts whose model token stream contains `.bad` -/
theorem generated_lexer_raises_iff_bad (encF : SwcText.Sci → Int) (s : SwcText.Str) :
    (AlgoRun.ascLexAll encF s).2 = false ↔ Asc.Tok.bad ∈ Asc.tokens s := by
  rw [(generated_lex_eq_model encF s).2]; exact goodPrefix_snd _

/-- on a text without a lexer failure the generated lexer yields the whole model token stream and stops -/
theorem generated_lex_noBad (encF : SwcText.Sci → Int) (s : SwcText.Str) (hnb : NoBad (Asc.tokens s)) :
    (AlgoRun.ascLexAll encF s).1.map AlgoRun.LexToken.toToken = (Asc.tokens s).map (enc encF) ∧ (AlgoRun.ascLexAll encF s).2 = true := by
  have h := generated_lex_eq_model encF s
  rw [goodPrefix_noBad _ hnb] at h
  exact h

/-- one `__next__` call as translated (restated from `RefineAscLex.next_mk`): on the lexer object that still has the characters `s` to
deliver, with any fuel `g ≥ |s| + 1`: StopIteration iff the model has no token left; an exception iff the model's next token is `.bad`;
otherwise the model's token and the lexer object with the model's remaining characters -/
theorem generated_next_eq_model (encF : SwcText.Sci → Int) (s : SwcText.Str) (g : Nat) (ln col : Int) (hg : s.length + 1 ≤ g) :
    ∃ ln' col' l c, lexer_next AlgoRun.ascIsNumber (AlgoRun.ascParseNumber encF) g (mk s ln col) =
      match stepOf s with
      | none => some (mk (wordOf s).2 ln' col', .error stopIteration)
      | some (tk, s') => if tk = .bad then none else some (mk s' ln' col', .ok (tokAt encF tk l c)) :=
  next_mk encF s g ln col hg

/-- the model's `lex` is the iteration of the step `stepOf` that `generated_next_eq_model` speaks about -/
theorem model_lex_is_iterated_step (f : Nat) (s : SwcText.Str) :
    Asc.lex (f + 1) s = match stepOf s with
      | none => []
      | some (tk, s') => tk :: Asc.lex f s' :=
  lex_succ f s

/-- **END TO END, FROM THE TEXT**: for every document text `s` on which the lexer does not raise (`NoBad (Asc.tokens s)`; by
`generated_lexer_raises_iff_bad` that is a statement about the generated lexer too), the generated `Lexer` run to the end of the stream,
then the generated `Parser` and the generated `from_ast` (composed as `from_stream` does: `AlgoRun.ascConvertText`) return exactly the
table of the hand-written `Asc.convert s`, and raise exactly when it is an error.  No bound on the size of the text; all fuels are part
of the statement. -/
theorem generated_text_convert_eq_model (encF : SwcText.Sci → Int) (s : SwcText.Str) (hnb : NoBad (Asc.tokens s)) :
    AlgoRun.ascConvertText encF s =
      match Asc.convert s with
      | .ok rows => some ((rows.length : Int), colsOf (RefineAscHeap.encRows encF 0 rows))
      | .error _ => none := by
  obtain ⟨h1, h2⟩ := generated_lex_noBad encF s hnb
  have key := generated_convert_eq_model encF _ hnb
  rw [← h1] at key
  unfold AlgoRun.ascConvertText Asc.convert
  generalize AlgoRun.ascLexAll encF s = r at h2 key
  obtain ⟨toks, b⟩ := r
  simp only at h2
  subst h2
  exact key

/-- texts on which the lexer raises (`Asc.Tok.bad ∈ Asc.tokens s`), lexer part: the conversion from the text is `AlgoRun.ascConvertPrefix`
(the generated parser run on the tokens BEFORE the failure, rejecting iff it asked for one more: the real parser pulls tokens on demand)
applied to `enc` of the model's tokens before its first `.bad`.  (Formerly `generated_text_convert_bad_prefix`; the two lemmas that were
missing are `RefineAscBad.convertTokens_bad` and `RefineAscBad.parse_refinesL`, the full statement is `generated_text_convert_eq_model_all`.) -/
theorem generated_text_convert_bad_prefix (encF : SwcText.Sci → Int) (s : SwcText.Str) (hb : Asc.Tok.bad ∈ Asc.tokens s) :
    AlgoRun.ascConvertText encF s = AlgoRun.ascConvertPrefix ((goodPrefix (Asc.tokens s)).1.map (enc encF)) := by
  obtain ⟨h1, h2⟩ := generated_lex_eq_model encF s
  rw [(goodPrefix_snd _).mpr hb] at h2
  unfold AlgoRun.ascConvertText
  rw [← h1]
  generalize AlgoRun.ascLexAll encF s = r at h2
  obtain ⟨toks, b⟩ := r
  simp only at h2
  subst h2
  rfl

/-- non-vacuity (kernel-evaluated): a rejected word BEHIND the parser's last look-ahead is never lexed by the real code — the generated
pipeline converts the document (one row), as `Asc.convert` does; AT the look-ahead it is an error in both -/
example : Asc.Tok.bad ∈ Asc.tokens "((Axon)(1 2 3 4))( 1abc".toList := by decide +kernel
example : (AlgoRun.ascConvertText exEnc "((Axon)(1 2 3 4))( 1abc".toList).map (·.1) = some 1 ∧
    (Asc.convert "((Axon)(1 2 3 4))( 1abc".toList).toOption.map (·.length) = some 1 := by decide +kernel
example : AlgoRun.ascConvertText exEnc "((Axon)(1 2 3 4)) 1abc".toList = none ∧
    (Asc.convert "((Axon)(1 2 3 4)) 1abc".toList).toOption = none := by decide +kernel

/-! ### non-vacuity (kernel-evaluated) -/

/-- the text of the document of `C15Gen.exModelToks` / `exToks` (a split, parents −1, 0, 0), with a comment and a line break -/
def exText : SwcText.Str := "((Axon);c\n(0 1 2 3)((4 5 6 7)|(8 9 10 11)))".toList
def exTextPlain : SwcText.Str := "((Axon)(0 1 2 3)((4 5 6 7)|(8 9 10 11)))".toList

/-- the model lexes the plain text to `exModelToks`; there is no lexer failure -/
example : Asc.tokens exTextPlain = exModelToks := by decide +kernel
example : NoBad (Asc.tokens exTextPlain) := by unfold NoBad; decide +kernel
example : NoBad (Asc.tokens exText) := by unfold NoBad; decide +kernel
/-- the GENERATED lexer, kernel-evaluated on the plain text: exactly the token list `exToks` the parser examples of `C15Gen` start from,
then StopIteration -/
example : ((AlgoRun.ascLexAll exEnc exTextPlain).1.map AlgoRun.LexToken.toToken) = exToks ∧ (AlgoRun.ascLexAll exEnc exTextPlain).2 = true := by
  decide +kernel
/-- `generated_text_convert_eq_model` applies to it, and the model's answer is the three rows with parents −1, 0, 0 -/
example : AlgoRun.ascConvertText exEnc exText =
    match Asc.convert exText with
    | .ok rows => some ((rows.length : Int), colsOf (RefineAscHeap.encRows exEnc 0 rows))
    | .error _ => none :=
  generated_text_convert_eq_model exEnc exText (by unfold NoBad; decide +kernel)
example : (Asc.convert exText).toOption.map (fun rows => rows.map (·.pid)) = some [-1, 0, 0] := by decide +kernel
/-- generated lexer + generated parser + generated walk, kernel-evaluated from the TEXT: three rows, typed axon, parents −1, 0, 0 -/
example : (AlgoRun.ascConvertText exEnc exText).map (fun r => (r.1, r.2.1, r.2.2.1, r.2.2.2.2.2.2.2)) =
    some (3, [0, 1, 2], [2, 2, 2], [-1, 0, 0]) := by decide +kernel
/-- a word that `RE_FLOAT` matches and `float()` rejects: the generated `__next__` raises after the bracket, the model has `.bad` there -/
example : AlgoRun.ascLexAll exEnc "(1abc (".toList = ([⟨1, .str "(", 1, 2⟩], false) := by decide +kernel
example : Asc.tokens "(1abc (".toList = [.lp, .bad, .lp] := by decide +kernel
/-- the position bookkeeping of the generated lexer (line : column AFTER the token, as `_token` reads them), on `(a 1.5⏎;x y⏎|` — the same
values as the real `Lexer` (compared on every suite document by the `gasclex` lines) -/
example : (AlgoRun.ascLexAll exEnc "(a 1.5\n;x y\n|".toList).1.map (fun t => (t.type, t.lineno, t.column)) =
    [(1, 1, 2), (6, 1, 3), (5, 2, 1), (3, 3, 1), (4, 3, 1)] := by decide +kernel

/-! ### EVERY text (T29): the lexer failure included -/

/-- **END TO END, FROM THE TEXT, FOR EVERY TEXT** — no hypothesis on `s`: the generated `Lexer` run until it stops or RAISES (`float()`
rejecting a word `RE_FLOAT` matched), the generated `Parser` and the generated `from_ast`, composed as `from_stream` does with the parser
pulling tokens on demand (`AlgoRun.ascConvertText`: when the lexer raises, the parser runs on the tokens before the failure and the document
is rejected iff the parser asked for one more token), return exactly the table of the hand-written `Asc.convert s`, and raise (`none`)
exactly when the model has an error.  In particular a rejected word BEHIND the last token the parser looks at (trailing garbage after the
closing bracket + one look-ahead token) does not make the conversion fail, anywhere before that it does — in the model and in the generated
code alike.  All fuels are part of the statement; no size bound. -/
theorem generated_text_convert_eq_model_all (encF : SwcText.Sci → Int) (s : SwcText.Str) :
    AlgoRun.ascConvertText encF s =
      match Asc.convert s with
      | .ok rows => some ((rows.length : Int), colsOf (RefineAscHeap.encRows encF 0 rows))
      | .error _ => none := by
  by_cases hb : Asc.Tok.bad ∈ Asc.tokens s
  · rw [generated_text_convert_bad_prefix encF s hb]
    exact RefineAscBad.convertPrefix_eq_model encF (Asc.tokens s) hb
  · exact generated_text_convert_eq_model encF s (fun t ht h => hb (h ▸ ht))

/-- the generated conversion rejects a text exactly when the model does -/
theorem generated_text_rejected_iff (encF : SwcText.Sci → Int) (s : SwcText.Str) :
    AlgoRun.ascConvertText encF s = none ↔ ∃ e, Asc.convert s = .error e := by
  rw [generated_text_convert_eq_model_all encF s]
  cases Asc.convert s with
  | error e => simp
  | ok rows => simp

/-- (a) restated: the model on a token stream with a lexer failure after `pre` — decided by the run on `pre` (`RefineAscBad.convertWithL` =
`convertWith` that also returns the tokens left after the closing bracket): an error of that run or a run that uses up `pre` ↦ error; tokens
of `pre` left ↦ the same rows -/
theorem model_convert_bad (pre ext : List Asc.Tok) (hnb : NoBad pre) :
    match RefineAscBad.convertWithL (2 * pre.length + 4) pre with
    | .error _ => ∃ e, Asc.convertTokens (pre ++ .bad :: ext) = .error e
    | .ok (rest, rows) => if rest = [] then ∃ e, Asc.convertTokens (pre ++ .bad :: ext) = .error e
        else Asc.convertTokens (pre ++ .bad :: ext) = .ok rows :=
  RefineAscBad.convertTokens_bad ext pre hnb

/-- **A MALFORMED NUMBER INSIDE THE DOCUMENT IS REJECTED, from the text, by the generated code**: a text whose token stream is the first `k`
tokens of a well-formed single-tree document `( (label) <branch> )` (`k` < its length: anywhere before the final closing bracket has been
read — in particular at a coordinate or the radius inside a point, at any depth), then a word that `RE_FLOAT` matches and `float()` rejects
(`.bad`, e.g. `3x`, `1.5e`, `1.2.3`), then ANYTHING (`ext`, e.g. the well-formed rest of the document): the generated lexer + parser + walk
raise; nothing is converted in part. -/
theorem generated_bad_point_rejected_text (encF : SwcText.Sci → Int) (s : SwcText.Str) (label : SwcText.Str) (b : Branch) (k : Nat)
    (ext : List Asc.Tok)
    (hl : Asc.upper label = "AXON".toList ∨ Asc.upper label = "DENDRITE".toList) (hb : NonEmpty b)
    (hk : k < (docToks label b).length)
    (hs : Asc.tokens s = (docToks label b).take k ++ .bad :: ext) :
    AlgoRun.ascConvertText encF s = none := by
  rw [generated_text_rejected_iff]
  unfold Asc.convert
  rw [hs]
  have hnb : NoBad ((docToks label b).take k) := fun x hx => noBad_docToks label b x (List.mem_of_mem_take hx)
  have hd : docToks label b = [Asc.Tok.lp, Asc.Tok.lp, Asc.Tok.literal label, Asc.Tok.rp] ++ (branchToks b ++ [Asc.Tok.rp]) := by
    simp [docToks]
  refine RefineAscBad.convertTokens_bad_of_error _ ext hnb ?_
  rw [hd]
  exact truncation_rejected label b k hl hb (by rw [← hd]; exact hk)

/-- **A DOCUMENT THAT ENDS PREMATURELY IS REJECTED, from the text, by the generated code**: a text that stops after `k` complete tokens of a
well-formed single-tree document (`k` < its length), or INSIDE a token in such a way that the remaining piece is a word `float()` rejects
(`cut = [.bad]`: `4.5e1` cut to `4.5e`, `-7` cut to `-`…  a number cut to a shorter VALID number is the first case for the document with that
number): the generated lexer + parser + walk raise. -/
theorem generated_truncation_rejected_text (encF : SwcText.Sci → Int) (s : SwcText.Str) (label : SwcText.Str) (b : Branch) (k : Nat)
    (cut : List Asc.Tok)
    (hl : Asc.upper label = "AXON".toList ∨ Asc.upper label = "DENDRITE".toList) (hb : NonEmpty b)
    (hk : k < (docToks label b).length) (hcut : cut = [] ∨ cut = [.bad])
    (hs : Asc.tokens s = (docToks label b).take k ++ cut) :
    AlgoRun.ascConvertText encF s = none := by
  rcases hcut with rfl | rfl
  · rw [generated_text_rejected_iff]
    unfold Asc.convert
    rw [hs, List.append_nil]
    have hd : docToks label b = [Asc.Tok.lp, Asc.Tok.lp, Asc.Tok.literal label, Asc.Tok.rp] ++ (branchToks b ++ [Asc.Tok.rp]) := by
      simp [docToks]
    rw [hd]
    exact truncation_rejected label b k hl hb (by rw [← hd]; exact hk)
  · exact generated_bad_point_rejected_text encF s label b k [] hl hb hk hs

/-! non-vacuity (kernel-evaluated) -/
def exTextBadPoint : SwcText.Str := "((Axon)(0 1 2 3)((4 5x 6 7)|(8 9 10 11)))".toList
def exTextCut : SwcText.Str := "((Axon)(0 1 2 3)((4 5 6 7.5e".toList
/-- a malformed coordinate in the second point: the token stream is 13 tokens of the document `exModelToks`, `.bad`, the rest -/
example : Asc.tokens exTextBadPoint = exModelToks.take 13 ++ .bad :: (Asc.tokens exTextBadPoint).drop 14 := by decide +kernel
example : (Asc.tokens exTextBadPoint).drop 14 ≠ [] := by decide +kernel
example : AlgoRun.ascConvertText exEnc exTextBadPoint = none ∧ (Asc.convert exTextBadPoint).toOption = none := by decide +kernel
/-- a document cut inside the number `7.5e1` -/
example : Asc.tokens exTextCut = exModelToks.take 15 ++ [.bad] := by decide +kernel
example : AlgoRun.ascConvertText exEnc exTextCut = none ∧ (Asc.convert exTextCut).toOption = none := by decide +kernel
/-- the all-texts theorem on the two texts of the examples above where the failing word is / is not reached -/
example : AlgoRun.ascConvertText exEnc "((Axon)(1 2 3 4))( 1abc".toList =
    match Asc.convert "((Axon)(1 2 3 4))( 1abc".toList with
    | .ok rows => some ((rows.length : Int), colsOf (RefineAscHeap.encRows exEnc 0 rows))
    | .error _ => none := generated_text_convert_eq_model_all exEnc _

/-- the two rejection theorems apply to these texts (all hypotheses discharged by kernel evaluation) -/
def exBranch : Branch := .fork ⟨exSci 0, exSci 1, exSci 2, exSci 3⟩ []
    [.leaf [⟨exSci 4, exSci 5, exSci 6, exSci 7⟩], .leaf [⟨exSci 8, exSci 9, exSci 10, exSci 11⟩]]
example : AlgoRun.ascConvertText exEnc exTextBadPoint = none :=
  generated_bad_point_rejected_text exEnc exTextBadPoint "Axon".toList exBranch 13 ((Asc.tokens exTextBadPoint).drop 14)
    (Or.inl (by decide +kernel)) trivial (by decide +kernel) (by decide +kernel)
example : AlgoRun.ascConvertText exEnc exTextCut = none :=
  generated_truncation_rejected_text exEnc exTextCut "Axon".toList exBranch 15 [.bad]
    (Or.inl (by decide +kernel)) trivial (by decide +kernel) (Or.inr rfl) (by decide +kernel)

end C15
