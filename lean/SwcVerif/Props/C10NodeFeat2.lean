import SwcVerif.Refine.NodeFeat2
import SwcVerif.Props.C10NodeFeat
import SwcVerif.Props.C08Gen
import SwcVerif.Props.C08BranchTree
/-! # C10, second part of the feature classes tied to the source by the translator (T28 `nodefeat2`)

`NodeFeatures.get_branch_order` (+ its closure `assign_depth` on the translated `_traverse_dfs`), `FurcationFeatures.nodes` /
`TipFeatures.nodes`, `_SubsetNodesFeatures.get_count` / `get_radial_distance`, `Path.length` on arbitrary row lists,
`BranchFeatures.get_length` (all regenerated on every run into `Gen/AlgoNodeFeat.lean`), and the property's first sentence for the code as
it is: the sum of the translated branch lengths is the translated `Tree.length`. -/
namespace C10
open Gen.Algo RefineNf RefineNf2

/-- **`NodeFeatures.get_branch_order` as translated = DEPTH in the branch tree** (root 0).  For every table `bt_ids`, `bt_pids` that
represents a rose `r` rooted at node 0 whose ids are rows (any shape / depth; the table of a tree object, `C06.IsTree`, is the special
case below) and every fuel `≥ 2·|r| + 1`: no exception, one entry per row, entry `k` is the depth of node `k` in `r`, rows outside `r`
keep the initial 0.

Remark (not a theorem): `LMeasure.branch_order` (the number of furcations on the root path, node and root included,
`C10.generated_branch_order`) is a DIFFERENT quantity; on the nodes of the branch tree (mapped back through `bt.src`) one has
`depth(n) = lm(n) − [n is a furcation] + [root is not a furcation ∧ n ≠ root]` (see the kernel-evaluated example in `C10NodeFeat`). -/
theorem generated_nf_branch_order (bt_ids bt_pids : List Int) (r : Rose) (hR : Represents r bt_ids bt_pids) (h0 : r.id = 0)
    (hin : ∀ j ∈ r.ids, 0 ≤ j ∧ j.toNat < bt_ids.length) (F : Nat) :
    ∃ order, nf_branch_order (2 * r.size + F + 1) bt_ids bt_pids = some order ∧ order.length = bt_ids.length ∧
      ∀ k : Nat, order.getD k 0 = (r.depthOf k 0).getD 0 :=
  branch_order_refines bt_ids bt_pids r hR h0 hin F

/-- the same on the table of a tree object (ids = positions, the whole table is the tree `r`): EVERY row gets its depth -/
theorem generated_nf_branch_order_tree (bt_pids : List Int) (r : Rose) (h : C06.IsTree r bt_pids) (F : Nat) :
    ∃ order, nf_branch_order (2 * r.size + F + 1) (Sub.rangeI bt_pids.length) bt_pids = some order ∧ order.length = bt_pids.length ∧
      ∀ k : Nat, k < bt_pids.length → ∃ d, r.depthOf k 0 = some d ∧ 0 ≤ d ∧ order.getD k 0 = d := by
  have hlen : (Sub.rangeI bt_pids.length).length = bt_pids.length := by simp [Sub.rangeI]
  obtain ⟨order, e, l, g⟩ := branch_order_refines (Sub.rangeI bt_pids.length) bt_pids r h.1 h.2.2.1
    (fun j hj => by rw [hlen]; exact (C06.isTree_mem h j).1 hj) F
  refine ⟨order, e, l.trans hlen, fun k hk => ?_⟩
  obtain ⟨d, hd, h0⟩ := depthOf_some (k : Int) r 0 ((C06.isTree_mem h k).2 ⟨by omega, by simpa using hk⟩)
  exact ⟨d, hd, h0, by rw [g k, hd]; rfl⟩

/-- **`FurcationFeatures.nodes` / `TipFeatures.nodes` as translated**: the masks of the rows with ≥ 2 / with 0 children -/
theorem generated_furcation_nodes (n : Nat) (pids : List Int) (hl : pids.length ≤ n) :
    nf_furcation_nodes (Sub.rangeI n) pids = some ((List.range n).map fun k => decide (2 ≤ nKids n pids k)) :=
  furcation_nodes_refines n pids hl
theorem generated_tip_nodes (n : Nat) (pids : List Int) (hl : pids.length ≤ n) :
    nf_tip_nodes (Sub.rangeI n) pids = some ((List.range n).map fun k => decide (nKids n pids k = 0)) :=
  tip_nodes_refines n pids hl

variable {K : Type} [Inhabited K] [Add K] [Sub K] [Mul K] [OfNat K 0] [OfNat K 1] [LT K] [DecidableLT K] [LE K] [DecidableLE K]

/-- **`_SubsetNodesFeatures.get_count` as translated on these masks = the NUMBER of furcation / tip rows** -/
theorem generated_furcation_count (F : Py.Fld K) (n : Nat) (pids : List Int) (hl : pids.length ≤ n) :
    (nf_furcation_nodes (Sub.rangeI n) pids).bind (nf_subset_count F)
      = some [F.ofInt ((((List.range n).filter fun k => decide (2 ≤ nKids n pids k)).length : Nat) : Int)] := by
  rw [furcation_nodes_refines n pids hl]; exact subset_count_refines F n _
theorem generated_tip_count (F : Py.Fld K) (n : Nat) (pids : List Int) (hl : pids.length ≤ n) :
    (nf_tip_nodes (Sub.rangeI n) pids).bind (nf_subset_count F)
      = some [F.ofInt ((((List.range n).filter fun k => decide (nKids n pids k = 0)).length : Nat) : Int)] := by
  rw [tip_nodes_refines n pids hl]; exact subset_count_refines F n _

/-- **`_SubsetNodesFeatures.get_radial_distance` as translated on the furcation / tip mask**: `norm (xyz[k] − xyz[0])` for exactly the
furcation (tip) rows `k`, in row order (first row typed as soma; otherwise `Tree.soma` raises, `generated_radial_distance`) -/
theorem generated_furcation_radial (norm : List K → K) (pids types : List Int) (axyz : List (List K)) (h0 : 0 < axyz.length)
    (hl : pids.length ≤ axyz.length) (hd : ∀ r ∈ axyz, r.length = (row axyz 0).length) (ht : types.head? = some Gen.Consts.type_soma) :
    (nf_furcation_nodes (Sub.rangeI axyz.length) pids).bind (nf_subset_radial_distance norm (Sub.rangeI axyz.length) pids types axyz)
      = some (((List.range axyz.length).filter fun k => decide (2 ≤ nKids axyz.length pids k)).map
          fun (k : Nat) => norm (vec axyz 0 (k : Int))) := by
  rw [furcation_nodes_refines _ pids hl]; exact subset_radial_refines norm _ pids types axyz h0 hd ht _
theorem generated_tip_radial (norm : List K → K) (pids types : List Int) (axyz : List (List K)) (h0 : 0 < axyz.length)
    (hl : pids.length ≤ axyz.length) (hd : ∀ r ∈ axyz, r.length = (row axyz 0).length) (ht : types.head? = some Gen.Consts.type_soma) :
    (nf_tip_nodes (Sub.rangeI axyz.length) pids).bind (nf_subset_radial_distance norm (Sub.rangeI axyz.length) pids types axyz)
      = some (((List.range axyz.length).filter fun k => decide (nKids axyz.length pids k = 0)).map
          fun (k : Nat) => norm (vec axyz 0 (k : Int))) := by
  rw [tip_nodes_refines _ pids hl]; exact subset_radial_refines norm _ pids types axyz h0 hd ht _

/-- **`Path.length` as translated on an ARBITRARY row list** = Σ over the consecutive pairs of `norm (xyz[idx[k+1]] − xyz[idx[k]])` -/
theorem generated_path_length (norm : List K → K) (axyz : List (List K)) (d : Nat) (idx : List Int)
    (hv : ∀ i ∈ idx, Valid axyz i) (hd : ∀ i ∈ idx, (row axyz i).length = d) :
    nf_path_length norm axyz idx = some (Py.Nf.sumK ((cpairs idx).map fun e => norm (vec axyz e.1 e.2))) :=
  path_length_refines norm axyz d idx hv hd

theorem pairs_eq_cpairs : ∀ b : List Int, C08.pairs b = cpairs b
  | [] => rfl
  | [_] => rfl
  | a :: b :: t => by
    have ih := pairs_eq_cpairs (b :: t)
    simp only [cpairs, List.tail_cons] at ih
    simp [C08.pairs_cons_cons, cpairs, ih]

/-- **`BranchFeatures.get_length` as translated, on every tree object with coordinates**: one entry per branch of the translated
`Tree.get_branches` (= `C08.branchesOf r`), the sum over the consecutive pairs of the branch of `norm (xyz[b[k+1]] − xyz[b[k]])` -/
theorem generated_bf_length (norm : List K → K) (pids : List Int) (r : Rose) (h : C06.IsTree r pids) (axyz : List (List K)) (d : Nat)
    (hlen : axyz.length = pids.length) (hdim : ∀ r ∈ axyz, r.length = d) (F : Nat) :
    nf_bf_length norm (2 * r.size + F + 1) (Sub.rangeI pids.length) pids axyz
      = some ((C08.branchesOf r).map fun b => Py.Nf.sumK ((C08.pairs b).map fun e => norm (vec axyz e.1 e.2))) := by
  rw [bf_length_refines norm _ _ pids axyz d (C08.branchesOf r) (C08.generated_getBranches_eq _ pids r h.1 h.2.2.1 F)]
  · simp only [pairs_eq_cpairs]
  · intro b hb i hi
    have hm := (C06.isTree_mem h i).1 (C08.branch_mem r b hb i hi)
    have hv : Valid axyz i := ⟨hm.1, by rw [hlen]; exact hm.2⟩
    refine ⟨hv, ?_⟩
    apply hdim
    unfold row
    rw [List.getD_eq_getElem?_getD, List.getElem?_eq_getElem hv.2]
    simp

/-! ### the property's first sentence for the code as it is: Σ branch lengths = tree length (at `K = Rat`, where sums may be reordered) -/

mutual
theorem edges_c05 : ∀ r : Rose, C08.edges r = C05.edges r
  | .node i ks => by simp [C08.edges, C05.edges, edgesL_c05 ks]
theorem edgesL_c05 : ∀ ks : List Rose, C08.edgesL ks = C05.edgesL ks
  | [] => rfl
  | r :: rs => by simp [C08.edgesL, C05.edgesL, edges_c05 r, edgesL_c05 rs]
end

theorem foldl_add_sum : ∀ (l : List Rat) (a : Rat), l.foldl (fun acc x => acc + x) a = a + l.sum
  | [], a => by simp
  | x :: l, a => by
    simp only [List.foldl_cons, List.sum_cons]
    rw [foldl_add_sum l]; ring

theorem sumK_eq_sum (l : List Rat) : Py.Nf.sumK l = l.sum := by
  simp [Py.Nf.sumK, foldl_add_sum]

theorem rangeI_drop_one (n : Nat) : (Sub.rangeI n).drop 1 = (List.range (n - 1)).map fun (k : Nat) => ((k + 1 : Nat) : Int) := by
  cases n with
  | zero => simp [Sub.rangeI]
  | succ m =>
    simp only [Sub.rangeI, List.range_succ_eq_map, List.map_cons, List.drop_one, List.tail_cons, List.map_map, Nat.add_sub_cancel]
    rfl

/-- on the table of a tree object every non-root row has a parent that is a row -/
theorem isTree_par {r : Rose} {pids : List Int} (h : C06.IsTree r pids) (k : Nat) (hk : k + 1 < pids.length) :
    0 ≤ pids.getD (k + 1) 0 ∧ (pids.getD (k + 1) 0).toNat < pids.length := by
  have hm : ((k + 1 : Nat) : Int) ∈ r.ids := (C06.isTree_mem h _).2 ⟨by omega, by simpa using hk⟩
  rcases C06.edge_of_mem r _ hm with e | ⟨a, ha, he⟩
  · rw [h.2.2.1] at e; omega
  · obtain ⟨_, _, hp⟩ := C06.edge_parent pids r h.1 a _ he
    have ha' := (C06.isTree_mem h a).1 ha
    have : pids.getD (k + 1) 0 = a := by
      rw [← hp]
      simp [List.getD_eq_getElem?_getD, hk]
    rw [this]; exact ha'

/-- **Σ over the branches of `Tree.get_branches` of the translated `Branch.length` = the translated `Tree.length`** — the first sentence of
C10 for the code as it is: for every tree object `r` (ids = positions, any shape) with coordinates (one row of `d` numbers per node),
every `norm`, and every fuel `≥ 2·|r| + 1`, both translated methods succeed and the sum (numpy / Python `sum` order: sequential from 0;
exact rational arithmetic, float rounding is outside the theorem) of the translated `BranchFeatures.get_length` entries equals the
translated `Tree.length`.  Uses `C08.generated_getBranches_eq` and the partition theorem `C08.branches_partition_edges`. -/
theorem generated_sum_branch_lengths_eq_tree_length (norm : List Rat → Rat) (pids : List Int) (r : Rose) (h : C06.IsTree r pids)
    (axyz : List (List Rat)) (d : Nat) (hlen : axyz.length = pids.length) (hdim : ∀ r ∈ axyz, r.length = d) (F : Nat) :
    ∃ Ls L, nf_bf_length norm (2 * r.size + F + 1) (Sub.rangeI pids.length) pids axyz = some Ls ∧
      nf_tree_length norm (Sub.rangeI pids.length) pids axyz = some L ∧ Py.Nf.sumK Ls = L := by
  refine ⟨_, _, generated_bf_length norm pids r h axyz d hlen hdim F,
    generated_tree_length norm pids axyz d ⟨hlen, isTree_par h, hdim⟩, ?_⟩
  let elen : Int → Rat := fun i => norm (vec axyz (pids.getD i.toNat 0) i)
  simp only [sumK_eq_sum, List.sum_singleton]
  rw [FeatP.sum_flatMap_pairs (fun e => norm (vec axyz e.1 e.2)),
    ((C08.branches_partition_edges r).map (fun e : Int × Int => norm (vec axyz e.1 e.2))).sum_eq]
  have hE : (C08.edges r).map (fun e : Int × Int => norm (vec axyz e.1 e.2)) = ((C08.edges r).map (·.2)).map elen := by
    rw [List.map_map]
    apply List.map_congr_left
    intro e he
    rw [edges_c05] at he
    obtain ⟨_, hlt, hp⟩ := C06.edge_parent pids r h.1 e.1 e.2 he
    have : pids.getD e.2.toNat 0 = e.1 := by
      rw [← hp]; simp [List.getD_eq_getElem?_getD, hlt]
    simp only [elen, Function.comp_apply, this]
  rw [hE, ((FeatP.edges_snd_tree h).map elen).sum_eq, FeatP.rangeI_eq, rangeI_drop_one, List.map_map]
  simp [elen, Function.comp_def]

/-- non-vacuity (kernel-evaluated, squared norm): the tree of `exP` with the coordinates `exXYZ`; its branches `[0,1] [1,2] [1,3] [0,4]` -/
example : C06.IsTree (.node 0 [.node 1 [.node 2 [], .node 3 []], .node 4 []]) exP := by
  refine ⟨⟨?_, by decide⟩, by decide, rfl, rfl⟩
  simp [exP, Agrees, AgreesL, tableKids, Rose.id, Sub.rangeI, List.range, List.range.loop]
def nfSqR (v : List Rat) : Rat := v.foldl (fun a x => a + x * x) 0
def exXYZR : List (List Rat) := [[0, 0, 0], [3, 4, 0], [3, 4, 5], [6, 8, 0], [0, 0, 2]]
example : nf_bf_length nfSqR 14 (Sub.rangeI 5) exP exXYZR = some [25, 25, 25, 4] ∧
          nf_tree_length nfSqR (Sub.rangeI 5) exP exXYZR = some 79 ∧
          nf_path_length nfSqR exXYZR [0, 1, 3, 4] = some (25 + 25 + 104) ∧ nf_path_length nfSqR exXYZR [2] = some 0 ∧
          nf_path_length nfSqR exXYZR [] = some 0 := by decide +kernel
example : nf_furcation_nodes (Sub.rangeI 5) exP = some [true, true, false, false, false] ∧
          nf_tip_nodes (Sub.rangeI 5) exP = some [false, false, true, true, true] ∧
          nf_branch_order 14 (Sub.rangeI 5) exP = some [0, 1, 2, 2, 1] ∧
          (List.range 5).map (fun (k : Nat) => Rose.depthOf (k : Int) (.node 0 [.node 1 [.node 2 [], .node 3 []], .node 4 []]) 0)
            = [some 0, some 1, some 2, some 2, some 1] ∧
          nf_subset_radial_distance nfSqR (Sub.rangeI 5) exP [1, 3, 3, 3, 3] exXYZR [false, false, true, true, true] = some [50, 100, 4] := by
  decide +kernel

/-- **`BranchFeatures.calc_angle` as translated**: entry (i, j) = `acos (clip (v_i · v_j / (‖v_i‖·‖v_j‖), −1, 1))` where `v_b` is the vector
from the FIRST node of branch `b` to its LAST node (`br[-1].xyz() − br[0].xyz()`) and the product of the norms is the 1×1 matrix product
the source forms.  The DEGENERATE case is explicit: where that product is 0 (a branch of length zero; `angDeg`) the divisor is 1
(`angDen = if angDeg then 1 else angNd`).  No `eps` is added to the divisor (the parameter is still accepted and is ignored), so nothing
absolute enters the quotient; nothing raises. -/
theorem generated_calc_angle {K : Type} [Inhabited K] [Add K] [Sub K] [Mul K] [OfNat K 0] [OfNat K 1] [LT K] [DecidableLT K] [LE K] [DecidableLE K]
    (F : Py.Fld K) (norm : List K → K) (acos : K → K) (axyz : List (List K)) (d : Nat) (brs : List (List Int)) (eps : K)
    (h01 : (0 : K) < 1) (hg : ∀ b ∈ brs, GoodBr axyz d b) :
    nf_calc_angle F norm acos axyz brs eps
      = some (brs.map fun bi => brs.map fun bj =>
          acos (clip1 (F.div (RefineNf2.dotK (bvec axyz bi) (bvec axyz bj))
            (if angNd norm axyz bi bj < 0 ∨ 0 < angNd norm axyz bi bj then angNd norm axyz bi bj else 1)))) := by
  rw [calc_angle_refines F norm acos axyz d brs eps h01 hg]
  congr 1
  apply List.map_congr_left; intro bi _
  apply List.map_congr_left; intro bj _
  unfold angDen angDeg
  by_cases h1 : angNd norm axyz bi bj < 0
  · simp [h1]
  · by_cases h2 : 0 < angNd norm axyz bi bj <;> simp [h1, h2]

/-- **the degenerate entries of the generated `calc_angle` are `acos 0`** (π/2, what the code returned for a zero-length branch before the
repair too): over an ordered field with true division, whenever the product of the two norms is 0 and the dot product of the two branch
vectors is 0 (both hold for the Euclidean norm when one of the two branches has length zero), entry (i, j) is `acos 0`. -/
theorem generated_calc_angle_degenerate {K : Type} [Field K] [LinearOrder K] [IsStrictOrderedRing K] [Inhabited K]
    (F : Py.Fld K) (hF : ∀ a b : K, F.div a b = a / b) (norm : List K → K) (acos : K → K) (axyz : List (List K)) (d : Nat)
    (brs : List (List Int)) (eps : K) (hg : ∀ b ∈ brs, GoodBr axyz d b) (i j : Nat) (hi : i < brs.length) (hj : j < brs.length)
    (hz : angNd norm axyz brs[i] brs[j] = 0) (hdot : RefineNf2.dotK (bvec axyz brs[i]) (bvec axyz brs[j]) = 0) :
    ∃ M, nf_calc_angle F norm acos axyz brs eps = some M ∧ (M[i]?.bind fun r => r[j]?) = some (acos 0) := by
  refine ⟨_, generated_calc_angle F norm acos axyz d brs eps one_pos hg, ?_⟩
  have h10 : ¬ (1 : K) < 0 := not_lt.mpr zero_le_one
  simp [hi, hj, hz, hdot, hF, clip1, h10]

/-- non-vacuity (kernel-evaluated; `norm` = Σv², `acos` = id): branches `[0,1]` (vector (3,4,0)) and `[1,3,4]` (vector (−3,−4,2)):
the off-diagonal quotient −25 / (25·29), the diagonal ones 25 / 625 and 29 / 841, whatever `eps` is handed in; with a zero vector (branch
`[2,2]`) the entries of its row and column are 0 / 1 = 0 and nothing raises -/
example : nf_calc_angle Py.ratFld nfSqR id exXYZR [[0, 1], [1, 3, 4]] 1
            = some [[25 / 625, -25 / 725], [-25 / 725, 29 / 841]] ∧
          nf_calc_angle Py.ratFld nfSqR id exXYZR [[0, 1], [2, 2]] 0 = some [[25 / 625, 0], [0, 0]] := by decide +kernel

end C10
