import SwcVerif.Refine.NodeFeat2
import SwcVerif.Props.C10NodeFeat
import SwcVerif.Props.C08Gen
import SwcVerif.Props.C08BranchTree
/-! # C10, second part of the feature classes tied to the source by the translator (T28 `nodefeat2`)

`NodeFeatures.get_branch_order` (+ its closure `assign_depth` on the translated `_traverse_dfs`), `FurcationFeatures.nodes` /
`TipFeatures.nodes`, `_SubsetNodesFeatures.get_count` / `get_radial_distance`, `Path.length` on arbitrary row lists,
`BranchFeatures.get_length` (all regenerated on every run into `Gen/AlgoNodeFeat.lean`), and the property's first sentence for the code as
it is: the sum of the translated branch lengths is the translated `Tree.length`. -/
namespace C10
open Gen.Algo RefineNf RefineNf2

/-- **`NodeFeatures.get_branch_order` as translated = DEPTH in the branch tree** (root 0).  For every table `bt_ids`, `bt_pids` that
represents a rose `r` rooted at node 0 whose ids are rows (any shape / depth; the table of a tree object, `C06.IsTree`, is the special
case below) and every fuel `≥ 2·|r| + 1`: no exception, one entry per row, entry `k` is the depth of node `k` in `r`, rows outside `r`
keep the initial 0.

Remark (not a theorem): `LMeasure.branch_order` (the number of furcations on the root path, node and root included,
`C10.generated_branch_order`) is a DIFFERENT quantity; on the nodes of the branch tree (mapped back through `bt.src`) one has
`depth(n) = lm(n) − [n is a furcation] + [root is not a furcation ∧ n ≠ root]` (see the kernel-evaluated example in `C10NodeFeat`). -/
theorem generated_nf_branch_order (bt_ids bt_pids : List Int) (r : Rose) (hR : Represents r bt_ids bt_pids) (h0 : r.id = 0)
    (hin : ∀ j ∈ r.ids, 0 ≤ j ∧ j.toNat < bt_ids.length) (F : Nat) :
    ∃ order, nf_branch_order (2 * r.size + F + 1) bt_ids bt_pids = some order ∧ order.length = bt_ids.length ∧
      ∀ k : Nat, order.getD k 0 = (r.depthOf k 0).getD 0 :=
  branch_order_refines bt_ids bt_pids r hR h0 hin F

/-- the same on the table of a tree object (ids = positions, the whole table is the tree `r`): EVERY row gets its depth -/
theorem generated_nf_branch_order_tree (bt_pids : List Int) (r : Rose) (h : C06.IsTree r bt_pids) (F : Nat) :
    ∃ order, nf_branch_order (2 * r.size + F + 1) (Sub.rangeI bt_pids.length) bt_pids = some order ∧ order.length = bt_pids.length ∧
      ∀ k : Nat, k < bt_pids.length → ∃ d, r.depthOf k 0 = some d ∧ 0 ≤ d ∧ order.getD k 0 = d := by
  have hlen : (Sub.rangeI bt_pids.length).length = bt_pids.length := by simp [Sub.rangeI]
  obtain ⟨order, e, l, g⟩ := branch_order_refines (Sub.rangeI bt_pids.length) bt_pids r h.1 h.2.2.1
    (fun j hj => by rw [hlen]; exact (C06.isTree_mem h j).1 hj) F
  refine ⟨order, e, l.trans hlen, fun k hk => ?_⟩
  obtain ⟨d, hd, h0⟩ := depthOf_some (k : Int) r 0 ((C06.isTree_mem h k).2 ⟨by omega, by simpa using hk⟩)
  exact ⟨d, hd, h0, by rw [g k, hd]; rfl⟩

/-- **`FurcationFeatures.nodes` / `TipFeatures.nodes` as translated**: the masks of the rows with ≥ 2 / with 0 children -/
theorem generated_furcation_nodes (n : Nat) (pids : List Int) (hl : pids.length ≤ n) :
    nf_furcation_nodes (Sub.rangeI n) pids = some ((List.range n).map fun k => decide (2 ≤ nKids n pids k)) :=
  furcation_nodes_refines n pids hl
theorem generated_tip_nodes (n : Nat) (pids : List Int) (hl : pids.length ≤ n) :
    nf_tip_nodes (Sub.rangeI n) pids = some ((List.range n).map fun k => decide (nKids n pids k = 0)) :=
  tip_nodes_refines n pids hl

variable {K : Type} [Inhabited K] [Add K] [Sub K] [Mul K] [OfNat K 0] [OfNat K 1] [LT K] [DecidableLT K] [LE K] [DecidableLE K]

/-- **`_SubsetNodesFeatures.get_count` as translated on these masks = the NUMBER of furcation / tip rows** -/
theorem generated_furcation_count (F : Py.Fld K) (n : Nat) (pids : List Int) (hl : pids.length ≤ n) :
    (nf_furcation_nodes (Sub.rangeI n) pids).bind (nf_subset_count F)
      = some [F.ofInt ((((List.range n).filter fun k => decide (2 ≤ nKids n pids k)).length : Nat) : Int)] := by
  rw [furcation_nodes_refines n pids hl]; exact subset_count_refines F n _
theorem generated_tip_count (F : Py.Fld K) (n : Nat) (pids : List Int) (hl : pids.length ≤ n) :
    (nf_tip_nodes (Sub.rangeI n) pids).bind (nf_subset_count F)
      = some [F.ofInt ((((List.range n).filter fun k => decide (nKids n pids k = 0)).length : Nat) : Int)] := by
  rw [tip_nodes_refines n pids hl]; exact subset_count_refines F n _

/-- **`_SubsetNodesFeatures.get_radial_distance` as translated on the furcation / tip mask**: `norm (xyz[k] − xyz[0])` for exactly the
furcation (tip) rows `k`, in row order (first row typed as soma; otherwise `Tree.soma` raises, `generated_radial_distance`) -/
theorem generated_furcation_radial (norm : List K → K) (pids types : List Int) (axyz : List (List K)) (h0 : 0 < axyz.length)
    (hl : pids.length ≤ axyz.length) (hd : ∀ r ∈ axyz, r.length = (row axyz 0).length) (ht : types.head? = some Gen.Consts.type_soma) :
    (nf_furcation_nodes (Sub.rangeI axyz.length) pids).bind (nf_subset_radial_distance norm (Sub.rangeI axyz.length) pids types axyz)
      = some (((List.range axyz.length).filter fun k => decide (2 ≤ nKids axyz.length pids k)).map
          fun (k : Nat) => norm (vec axyz 0 (k : Int))) := by
  rw [furcation_nodes_refines _ pids hl]; exact subset_radial_refines norm _ pids types axyz h0 hd ht _
theorem generated_tip_radial (norm : List K → K) (pids types : List Int) (axyz : List (List K)) (h0 : 0 < axyz.length)
    (hl : pids.length ≤ axyz.length) (hd : ∀ r ∈ axyz, r.length = (row axyz 0).length) (ht : types.head? = some Gen.Consts.type_soma) :
    (nf_tip_nodes (Sub.rangeI axyz.length) pids).bind (nf_subset_radial_distance norm (Sub.rangeI axyz.length) pids types axyz)
      = some (((List.range axyz.length).filter fun k => decide (nKids axyz.length pids k = 0)).map
          fun (k : Nat) => norm (vec axyz 0 (k : Int))) := by
  rw [tip_nodes_refines _ pids hl]; exact subset_radial_refines norm _ pids types axyz h0 hd ht _

/-- **`Path.length` as translated on an ARBITRARY row list** = Σ over the consecutive pairs of `norm (xyz[idx[k+1]] − xyz[idx[k]])` -/
theorem generated_path_length (norm : List K → K) (axyz : List (List K)) (d : Nat) (idx : List Int)
    (hv : ∀ i ∈ idx, Valid axyz i) (hd : ∀ i ∈ idx, (row axyz i).length = d) :
    nf_path_length norm axyz idx = some (Py.Nf.sumK ((cpairs idx).map fun e => norm (vec axyz e.1 e.2))) :=
  path_length_refines norm axyz d idx hv hd

theorem pairs_eq_cpairs : ∀ b : List Int, C08.pairs b = cpairs b
  | [] => rfl
  | [_] => rfl
  | a :: b :: t => by
    have ih := pairs_eq_cpairs (b :: t)
    simp only [cpairs, List.tail_cons] at ih
    simp [C08.pairs_cons_cons, cpairs, ih]

/-- **`BranchFeatures.get_length` as translated, on every tree object with coordinates**: one entry per branch of the translated
`Tree.get_branches` (= `C08.branchesOf r`), the sum over the consecutive pairs of the branch of `norm (xyz[b[k+1]] − xyz[b[k]])` -/
theorem generated_bf_length (norm : List K → K) (pids : List Int) (r : Rose) (h : C06.IsTree r pids) (axyz : List (List K)) (d : Nat)
    (hlen : axyz.length = pids.length) (hdim : ∀ r ∈ axyz, r.length = d) (F : Nat) :
    nf_bf_length norm (2 * r.size + F + 1) (Sub.rangeI pids.length) pids axyz
      = some ((C08.branchesOf r).map fun b => Py.Nf.sumK ((C08.pairs b).map fun e => norm (vec axyz e.1 e.2))) := by
  rw [bf_length_refines norm _ _ pids axyz d (C08.branchesOf r) (C08.generated_getBranches_eq _ pids r h.1 h.2.2.1 F)]
  · simp only [pairs_eq_cpairs]
  · intro b hb i hi
    have hm := (C06.isTree_mem h i).1 (C08.branch_mem r b hb i hi)
    have hv : Valid axyz i := ⟨hm.1, by rw [hlen]; exact hm.2⟩
    refine ⟨hv, ?_⟩
    apply hdim
    unfold row
    rw [List.getD_eq_getElem?_getD, List.getElem?_eq_getElem hv.2]
    simp

end C10
