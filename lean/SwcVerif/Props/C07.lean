import SwcVerif.Model.Redirect
/-! # C07 — re-rooting and concatenation preserve structure and geometry

Theorems about the models `Redir.redirect` / `Redir.catPre` (`Model/Redirect.lean`, tied to the code by the
`c07.redirect` — all (tree, node) pairs of small trees — and `c07.cat` correspondence).  A tree is its
parent list (ids = positions, node 0 the root).  The final `_sort_tree` of both operations is C05's
relabelling (`SortM.sortNodesImpl`), which preserves the parent relation and all columns. -/
namespace C07
open Redir

/-- well-formed parent list: node 0 is the root, every other parent is a node, every node reaches 0 -/
def WF (pids : List Int) : Prop :=
  pids.head? = some (-1) ∧
  (∀ k (h : k < pids.length), 0 < k → 0 ≤ pids[k] ∧ pids[k] < pids.length) ∧
  (∀ k, k < pids.length → (rootPath pids pids.length (k : Int)).getLast? = some 0)

/-- the root path of a node: starts at the node, ends at the root, each element is followed by its parent,
and no node occurs twice -/
theorem rootPath_spec (pids : List Int) (hw : WF pids) (k : Nat) (hk : k < pids.length) :
    let path := rootPath pids pids.length (k : Int)
    path.head? = some (k : Int) ∧ path.getLast? = some 0 ∧ path.Nodup ∧
    (∀ v ∈ path, 0 ≤ v ∧ v < pids.length) ∧
    (∀ i (h : i + 1 < path.length), pids.getD (path[i]'(by omega)).toNat (-1) = path[i+1]) := by
  sorry

/-- **what re-rooting does to the parent pointers**: the new root loses its parent, every parent pointer
on the root path is reversed, every node off the path keeps its parent -/
theorem redirect_pids (pids types : List Int) (hw : WF pids) (k : Nat) (hk : k < pids.length) :
    let path := rootPath pids pids.length (k : Int)
    let r := redirect pids types (k : Int)
    r.pids.length = pids.length ∧
    r.pids.getD k 0 = -1 ∧
    (∀ i (h : i + 1 < path.length), r.pids.getD (path[i+1]).toNat 0 = path[i]'(by omega)) ∧
    (∀ v, v < pids.length → (v : Int) ∉ path → r.pids.getD v 0 = pids.getD v 0) := by
  sorry

/-- **the set of undirected edges is kept**: two distinct nodes are joined after re-rooting exactly when
they were joined before -/
theorem redirect_edges (pids types : List Int) (hw : WF pids) (k : Nat) (hk : k < pids.length)
    (u v : Nat) (hu : u < pids.length) (hv : v < pids.length) (huv : u ≠ v) :
    let r := redirect pids types (k : Int)
    (r.pids.getD u 0 = (v : Int) ∨ r.pids.getD v 0 = (u : Int)) ↔ (pids.getD u 0 = (v : Int) ∨ pids.getD v 0 = (u : Int)) := by
  sorry

/-- **the requested node is the unique root** -/
theorem redirect_root (pids types : List Int) (hw : WF pids) (k : Nat) (hk : k < pids.length) (v : Nat) (hv : v < pids.length) :
    (redirect pids types (k : Int)).pids.getD v 0 = -1 ↔ v = k := by
  sorry

/-- **every attribute is kept; only the types of the old and the new root are exchanged** -/
theorem redirect_types (pids types : List Int) (hw : WF pids) (hl : types.length = pids.length) (k : Nat) (hk : k < pids.length)
    (v : Nat) (hv : v < pids.length) :
    (redirect pids types (k : Int)).types.getD v 0 =
      if v = k then types.getD 0 0 else if v = 0 then types.getD k 0 else types.getD v 0 := by
  sorry

/-- re-rooting at the root changes nothing -/
theorem redirect_at_root (pids types : List Int) (hw : WF pids) (hl : types.length = pids.length) :
    redirect pids types 0 = ⟨pids, types⟩ := by
  sorry

/-! ## concatenation (before the final sort) -/
section cat
variable (p1 t1 x1 y1 z1 p2 t2 x2 y2 z2 : List Int) (node1 node2 : Nat) (translate : Bool)

/-- the second tree as it enters the concatenation: re-rooted at `node2` unless that already is its root -/
def second : Redirected := if p2.getD node2 (-1) = -1 then ⟨p2, t2⟩ else redirect p2 t2 (node2 : Int)

/-- the common translation vector of the second tree -/
def shift (a1 a2 : List Int) : Int := if translate then a2.getD node2 0 - a1.getD node1 0 else 0

/-- the junction nodes coincide after the (optional) translation -/
def Coincident : Prop :=
  let ex := (x2.getD node2 0 - shift node1 node2 translate x1 x2) - x1.getD node1 0
  let ey := (y2.getD node2 0 - shift node1 node2 translate y1 y2) - y1.getD node1 0
  let ez := (z2.getD node2 0 - shift node1 node2 translate z1 z2) - z1.getD node1 0
  ex * ex + ey * ey + ez * ez = 0

/-- with translation requested the chosen nodes coincide -/
theorem translate_coincides (h : translate = true) :
    Coincident x1 y1 z1 x2 y2 z2 node1 node2 translate := by
  sorry

/-- **non-coincident junction**: the table is tree 1 unchanged, followed by tree 2 with ids and parents
shifted by `|tree1|`, positions translated by one common vector (zero without translation), and the
single new edge `node2 → node1`; no other edge is added or lost -/
theorem cat_separate (h1 : t1.length = p1.length ∧ x1.length = p1.length ∧ y1.length = p1.length ∧ z1.length = p1.length)
    (h2 : t2.length = p2.length ∧ x2.length = p2.length ∧ y2.length = p2.length ∧ z2.length = p2.length)
    (hn1 : node1 < p1.length) (hn2 : node2 < p2.length) (hw2 : WF p2)
    (hc : ¬ Coincident x1 y1 z1 x2 y2 z2 node1 node2 translate) :
    let c := catPre p1 t1 x1 y1 z1 p2 t2 x2 y2 z2 (node1 : Int) (node2 : Int) translate
    let s := second p2 t2 node2
    c.ids = (List.range (p1.length + p2.length)).map Int.ofNat ∧
    c.pids.length = p1.length + p2.length ∧
    (∀ i, i < p1.length → c.pids.getD i 0 = p1.getD i 0 ∧ c.x.getD i 0 = x1.getD i 0 ∧ c.y.getD i 0 = y1.getD i 0 ∧
        c.z.getD i 0 = z1.getD i 0 ∧ c.types.getD i 0 = t1.getD i 0) ∧
    (∀ j, j < p2.length → j ≠ node2 → c.pids.getD (p1.length + j) 0 = s.pids.getD j 0 + p1.length) ∧
    c.pids.getD (p1.length + node2) 0 = (node1 : Int) ∧
    (∀ j, j < p2.length →
        c.x.getD (p1.length + j) 0 = x2.getD j 0 - shift node1 node2 translate x1 x2 ∧
        c.y.getD (p1.length + j) 0 = y2.getD j 0 - shift node1 node2 translate y1 y2 ∧
        c.z.getD (p1.length + j) 0 = z2.getD j 0 - shift node1 node2 translate z1 z2 ∧
        c.types.getD (p1.length + j) 0 = s.types.getD j 0) := by
  sorry

/-- **coincident junction nodes are merged into one**: tree 2's junction row is deleted, its children hang
from `node1`, every other row is as in the non-coincident case (rows after the deleted one move up by one) -/
theorem cat_merged (h1 : t1.length = p1.length ∧ x1.length = p1.length ∧ y1.length = p1.length ∧ z1.length = p1.length)
    (h2 : t2.length = p2.length ∧ x2.length = p2.length ∧ y2.length = p2.length ∧ z2.length = p2.length)
    (hn1 : node1 < p1.length) (hn2 : node2 < p2.length) (hw2 : WF p2)
    (hc : Coincident x1 y1 z1 x2 y2 z2 node1 node2 translate) :
    let c := catPre p1 t1 x1 y1 z1 p2 t2 x2 y2 z2 (node1 : Int) (node2 : Int) translate
    let s := second p2 t2 node2
    let row := fun (j : Nat) => if j < node2 then p1.length + j else p1.length + j - 1      -- where tree 2's node j ends up
    c.pids.length = p1.length + p2.length - 1 ∧
    (∀ i, i < p1.length → c.ids.getD i 0 = (i : Int) ∧ c.pids.getD i 0 = p1.getD i 0 ∧ c.x.getD i 0 = x1.getD i 0) ∧
    (∀ j, j < p2.length → j ≠ node2 →
        c.ids.getD (row j) 0 = ((p1.length + j : Nat) : Int) ∧
        c.pids.getD (row j) 0 = (if s.pids.getD j 0 = (node2 : Int) then (node1 : Int) else s.pids.getD j 0 + p1.length) ∧
        c.x.getD (row j) 0 = x2.getD j 0 - shift node1 node2 translate x1 x2) := by
  sorry
end cat

-- non-vacuity / concrete behaviour
def exP : List Int := [-1, 0, 1, 1, 0]
example : WF exP := by
  refine ⟨rfl, ?_, ?_⟩
  · intro k h hk; have : k = 1 ∨ k = 2 ∨ k = 3 ∨ k = 4 := by simp [exP] at h; omega
    rcases this with rfl | rfl | rfl | rfl <;> simp [exP]
  · intro k h; have : k = 0 ∨ k = 1 ∨ k = 2 ∨ k = 3 ∨ k = 4 := by simp [exP] at h; omega
    rcases this with rfl | rfl | rfl | rfl | rfl <;> decide
example : redirect exP [1, 3, 3, 2, 3] 3 = ⟨[1, 3, 1, -1, 0], [2, 3, 3, 1, 3]⟩ := by decide +kernel
example : (catPre [-1, 0] [1, 3] [0, 1] [0, 0] [0, 0] [-1, 0, 0] [1, 3, 3] [5, 6, 7] [0, 0, 0] [0, 0, 0] 1 0 true).pids = [-1, 0, 1, 1] := by
  decide +kernel

end C07
