import SwcVerif.Model.Redirect
import SwcVerif.Proofs.Redirect
/-! # C07 — re-rooting and concatenation preserve structure and geometry

Theorems about the models `Redir.redirect` / `Redir.catPre` (`Model/Redirect.lean`, tied to the code by the
`c07.redirect` — all (tree, node) pairs of small trees — and `c07.cat` correspondence).  A tree is its
parent list (ids = positions, node 0 the root).  The final `_sort_tree` of both operations is C05's
relabelling (`SortM.sortNodesImpl`), which preserves the parent relation and all columns. -/
namespace C07
open Redir

/-- well-formed parent list: node 0 is the root, every other parent is a node, every node reaches 0 -/
def WF (pids : List Int) : Prop :=
  pids.head? = some (-1) ∧
  (∀ k (h : k < pids.length), 0 < k → 0 ≤ pids[k] ∧ pids[k] < pids.length) ∧
  (∀ k, k < pids.length → (rootPath pids pids.length (k : Int)).getLast? = some 0)

/-! ### consequences of `WF` -/
theorem WF.root {pids : List Int} (hw : WF pids) : pids[0]? = some (-1) := by
  have := hw.1; rwa [List.head?_eq_getElem?] at this

theorem WF.pos {pids : List Int} (hw : WF pids) : 0 < pids.length := by
  have := hw.root
  cases pids with
  | nil => simp at this
  | cons a l => simp

theorem WF.par_root {pids : List Int} (hw : WF pids) : pids.getD (0 : Int).toNat (-1) = -1 := by
  simp [List.getD_eq_getElem?_getD, hw.root]

/-- a node other than 0 has a parent, which is a node -/
theorem WF.par_valid {pids : List Int} (hw : WF pids) (v : Nat) (h0 : 0 < v) (hv : v < pids.length) :
    ∃ p : Int, pids[v]? = some p ∧ 0 ≤ p ∧ p < pids.length := by
  refine ⟨pids[v], ?_, hw.2.1 v hv h0⟩
  simp [hv]

theorem WF.par_valid' {pids : List Int} (hw : WF pids) (v : Int) (h0 : 0 < v) (hv : v < pids.length) :
    0 ≤ pids.getD v.toNat (-1) ∧ pids.getD v.toNat (-1) < pids.length := by
  obtain ⟨p, hp, h1, h2⟩ := hw.par_valid v.toNat (by omega) (by omega)
  simp [List.getD_eq_getElem?_getD, hp, h1, h2]

/-- the root path of a node other than the root is the node followed by the root path of its parent -/
theorem WF.path_cons {pids : List Int} (hw : WF pids) (v : Int) (h0 : 0 < v) (hv : v < pids.length) :
    rootPath pids pids.length v = v :: rootPath pids pids.length (pids.getD v.toNat (-1)) := by
  have hlast := hw.2.2 v.toNat (by omega)
  have hvv : ((v.toNat : Nat) : Int) = v := by omega
  rw [hvv] at hlast
  have hpv := hw.par_valid' v h0 hv
  have hne : pids.getD v.toNat (-1) ≠ -1 := by omega
  obtain ⟨m, hm⟩ : ∃ m, pids.length = m + 1 := ⟨pids.length - 1, by have := hw.pos; omega⟩
  rw [hm] at hlast ⊢
  rw [rp_succ, if_neg hne] at hlast
  rw [getLast?_cons_of_ne_nil _ _ (rp_ne_nil _ _ _)] at hlast
  rw [rp_stable pids 0 hw.par_root m _ hlast, rp_succ, if_neg hne]

/-- along any walk the depth (length of the full root path) does not increase, so no node repeats -/
theorem WF.walk {pids : List Int} (hw : WF pids) : ∀ (f : Nat) (v : Int), 0 ≤ v → v < pids.length →
    (∀ w ∈ rootPath pids f v, 0 ≤ w ∧ w < pids.length ∧
        (rootPath pids pids.length w).length ≤ (rootPath pids pids.length v).length) ∧
    (rootPath pids f v).Nodup := by
  intro f
  induction f with
  | zero =>
    intro v h0 hv
    simp [rp_zero, h0, hv]
  | succ f ih =>
    intro v h0 hv
    rw [rp_succ]
    by_cases hp : pids.getD v.toNat (-1) = -1
    · rw [if_pos hp]; simp [h0, hv]
    · rw [if_neg hp]
      have hv0 : v ≠ 0 := by
        intro h; subst h; exact hp hw.par_root
      have hpos : 0 < v := by omega
      have hpv := hw.par_valid' v hpos hv
      have ihp := ih _ hpv.1 hpv.2
      have hlen := congrArg List.length (hw.path_cons v hpos hv)
      rw [List.length_cons] at hlen
      constructor
      · intro w hwm
        rcases List.mem_cons.mp hwm with h | h
        · subst h; exact ⟨h0, hv, Nat.le_refl _⟩
        · have := ihp.1 w h
          exact ⟨this.1, this.2.1, by omega⟩
      · rw [List.nodup_cons]
        refine ⟨?_, ihp.2⟩
        intro hmem
        have := (ihp.1 v hmem).2.2
        omega

/-- the root path of a node: starts at the node, ends at the root, each element is followed by its parent,
and no node occurs twice -/
theorem rootPath_spec (pids : List Int) (hw : WF pids) (k : Nat) (hk : k < pids.length) :
    let path := rootPath pids pids.length (k : Int)
    path.head? = some (k : Int) ∧ path.getLast? = some 0 ∧ path.Nodup ∧
    (∀ v ∈ path, 0 ≤ v ∧ v < pids.length) ∧
    (∀ i (h : i + 1 < path.length), pids.getD (path[i]'(by omega)).toNat (-1) = path[i+1]) := by
  intro path
  have hwalk := hw.walk pids.length (k : Int) (by omega) (by omega)
  refine ⟨rp_head _ _ _, hw.2.2 k hk, hwalk.2, ?_, ?_⟩
  · intro v hv; have := hwalk.1 v hv; exact ⟨this.1, this.2.1⟩
  · intro i h; exact rp_chain pids pids.length (k : Int) i h

theorem redirect_pids_eq (pids types : List Int) (k : Int) :
    (redirect pids types k).pids = reversePath (setAt pids k (-1)) (rootPath pids pids.length k) := rfl

/-- **what re-rooting does to the parent pointers**: the new root loses its parent, every parent pointer
on the root path is reversed, every node off the path keeps its parent -/
theorem redirect_pids (pids types : List Int) (hw : WF pids) (k : Nat) (hk : k < pids.length) :
    let path := rootPath pids pids.length (k : Int)
    let r := redirect pids types (k : Int)
    r.pids.length = pids.length ∧
    r.pids.getD k 0 = -1 ∧
    (∀ i (h : i + 1 < path.length), r.pids.getD (path[i+1]).toNat 0 = path[i]'(by omega)) ∧
    (∀ v, v < pids.length → (v : Int) ∉ path → r.pids.getD v 0 = pids.getD v 0) := by
  intro path r
  obtain ⟨hhead, hlast, hnd, hval, hchain⟩ := rootPath_spec pids hw k hk
  have hr : r.pids = reversePath (setAt pids k (-1)) path := rfl
  obtain ⟨tl, htl⟩ : ∃ tl, path = (k : Int) :: tl := by
    cases hp : path with
    | nil => exact absurd hp (rp_ne_nil _ _ _)
    | cons a tl =>
      change path.head? = _ at hhead
      rw [hp] at hhead; simp at hhead; subst hhead; exact ⟨tl, rfl⟩
  have hkmem : (k : Int) ∈ path := by rw [htl]; simp
  refine ⟨?_, ?_, ?_, ?_⟩
  · rw [hr, reversePath_length, setAt_length]
  · rw [hr, List.getD_eq_getElem?_getD, reversePath_frame, setAt_getElem?_self _ _ _ hk]
    · rfl
    · have := hnd
      change path.Nodup at this
      rw [htl] at this ⊢
      exact (List.nodup_cons.mp this).1
  · intro i h
    rw [hr, List.getD_eq_getElem?_getD, reversePath_rev path _ hnd (by
      intro v hv; rw [setAt_length]; exact hval v hv) i h]
    rfl
  · intro v hv hnot
    rw [hr, List.getD_eq_getElem?_getD, List.getD_eq_getElem?_getD, reversePath_frame, setAt_getElem?_ne]
    · intro h; exact hnot (h ▸ hkmem)
    · intro h; exact hnot (List.mem_of_mem_tail h)

theorem nodup_getElem_inj {l : List Int} (h : l.Nodup) (i j : Nat) (hi : i < l.length) (hj : j < l.length) :
    l[i] = l[j] ↔ i = j := by
  constructor
  · intro e
    rw [List.Nodup, List.pairwise_iff_getElem] at h
    rcases Nat.lt_trichotomy i j with hlt | heq | hgt
    · exact absurd e (h i j hi hj hlt)
    · exact heq
    · exact absurd e.symm (h j i hj hi hgt)
  · intro e; subst e; rfl

/-- the edge set is kept, for any description of "reverse the pointers along a duplicate-free path" -/
theorem edges_abstract (pids r path : List Int) (hnd : path.Nodup) (_hval : ∀ v ∈ path, 0 ≤ v)
    (hE1 : ∀ i (h : i + 1 < path.length), pids.getD (path[i]).toNat 0 = path[i+1])
    (hE1' : ∀ i (h : i < path.length), i + 1 = path.length → pids.getD (path[i]).toNat 0 = -1)
    (hE2 : ∀ i (h : i + 1 < path.length), r.getD (path[i+1]).toNat 0 = path[i])
    (hE2' : ∀ (h : 0 < path.length), r.getD (path[0]).toNat 0 = -1)
    (hE3 : ∀ v : Nat, (v : Int) ∉ path → r.getD v 0 = pids.getD v 0)
    (u v : Nat) (_huv : u ≠ v) :
    (r.getD u 0 = (v : Int) ∨ r.getD v 0 = (u : Int)) ↔ (pids.getD u 0 = (v : Int) ∨ pids.getD v 0 = (u : Int)) := by
  -- on-path / on-path
  have A : ∀ (a b : Nat) (i j : Nat) (hi : i < path.length) (hj : j < path.length),
      path[i] = (a : Int) → path[j] = (b : Int) → (r.getD a 0 = (b : Int) ↔ j + 1 = i) := by
    intro a b i j hi hj ea eb
    cases i with
    | zero =>
      have := hE2' hi
      rw [ea] at this; simp only [Int.toNat_natCast] at this
      rw [this]; constructor <;> intro h <;> omega
    | succ i =>
      have := hE2 i hi
      rw [ea] at this; simp only [Int.toNat_natCast] at this
      rw [this, ← eb, nodup_getElem_inj hnd]; omega
  have B : ∀ (a b : Nat) (i j : Nat) (hi : i < path.length) (hj : j < path.length),
      path[i] = (a : Int) → path[j] = (b : Int) → (pids.getD a 0 = (b : Int) ↔ i + 1 = j) := by
    intro a b i j hi hj ea eb
    by_cases h : i + 1 < path.length
    · have := hE1 i h
      rw [ea] at this; simp only [Int.toNat_natCast] at this
      rw [this, ← eb, nodup_getElem_inj hnd]
    · have := hE1' i hi (by omega)
      rw [ea] at this; simp only [Int.toNat_natCast] at this
      rw [this]; constructor <;> intro h <;> omega
  -- an on-path node never points to an off-path node
  have C : ∀ (a b : Nat), (a : Int) ∈ path → (b : Int) ∉ path → r.getD a 0 ≠ (b : Int) ∧ pids.getD a 0 ≠ (b : Int) := by
    intro a b ha hb
    obtain ⟨i, hi, ea⟩ := List.getElem_of_mem ha
    constructor
    · cases i with
      | zero =>
        have := hE2' hi
        rw [ea] at this; simp only [Int.toNat_natCast] at this
        rw [this]; omega
      | succ i =>
        have := hE2 i hi
        rw [ea] at this; simp only [Int.toNat_natCast] at this
        rw [this]; intro h; exact hb (h ▸ List.getElem_mem _)
    · by_cases h : i + 1 < path.length
      · have := hE1 i h
        rw [ea] at this; simp only [Int.toNat_natCast] at this
        rw [this]; intro h; exact hb (h ▸ List.getElem_mem _)
      · have := hE1' i hi (by omega)
        rw [ea] at this; simp only [Int.toNat_natCast] at this
        rw [this]; omega
  by_cases hu : (u : Int) ∈ path <;> by_cases hv : (v : Int) ∈ path
  · obtain ⟨i, hi, eu⟩ := List.getElem_of_mem hu
    obtain ⟨j, hj, ev⟩ := List.getElem_of_mem hv
    rw [A u v i j hi hj eu ev, A v u j i hj hi ev eu, B u v i j hi hj eu ev, B v u j i hj hi ev eu]
    omega
  · have h1 := (C u v hu hv).1
    have h2 := (C u v hu hv).2
    rw [hE3 v hv]
    constructor <;> rintro (h | h) <;>
      first | exact absurd h h1 | exact absurd h h2 | exact Or.inr h | exact Or.inl h
  · have h1 := (C v u hv hu).1
    have h2 := (C v u hv hu).2
    rw [hE3 u hu]
    constructor <;> rintro (h | h) <;>
      first | exact absurd h h1 | exact absurd h h2 | exact Or.inr h | exact Or.inl h
  · rw [hE3 u hu, hE3 v hv]

/-- the last element of the root path is node 0 -/
theorem path_last (pids : List Int) (hw : WF pids) (k : Nat) (hk : k < pids.length) (i : Nat)
    (hi : i < (rootPath pids pids.length (k : Int)).length) (h : i + 1 = (rootPath pids pids.length (k : Int)).length) :
    (rootPath pids pids.length (k : Int))[i] = 0 := by
  have := hw.2.2 k hk
  rw [List.getLast?_eq_getElem?] at this
  have e : (rootPath pids pids.length (k : Int)).length - 1 = i := by omega
  rw [e, List.getElem?_eq_getElem hi] at this
  exact Option.some.inj this

theorem getD_default_irrel (l : List Int) (i : Nat) (h : i < l.length) (d d' : Int) : l.getD i d = l.getD i d' := by
  simp [List.getD_eq_getElem?_getD, h]

/-- **the set of undirected edges is kept**: two distinct nodes are joined after re-rooting exactly when
they were joined before -/
theorem redirect_edges (pids types : List Int) (hw : WF pids) (k : Nat) (hk : k < pids.length)
    (u v : Nat) (hu : u < pids.length) (hv : v < pids.length) (huv : u ≠ v) :
    let r := redirect pids types (k : Int)
    (r.pids.getD u 0 = (v : Int) ∨ r.pids.getD v 0 = (u : Int)) ↔ (pids.getD u 0 = (v : Int) ∨ pids.getD v 0 = (u : Int)) := by
  intro r
  obtain ⟨hhead, hlast, hnd, hval, hchain⟩ := rootPath_spec pids hw k hk
  obtain ⟨hlen, hk1, hrev, hoff⟩ := redirect_pids pids types hw k hk
  refine edges_abstract pids r.pids (rootPath pids pids.length (k : Int)) hnd (fun v hv => (hval v hv).1)
    ?_ ?_ hrev ?_ ?_ u v huv
  · intro i h
    rw [← hchain i h]
    have := hval _ (List.getElem_mem (by omega : i < (rootPath pids pids.length (k : Int)).length))
    exact getD_default_irrel _ _ (by omega) _ _
  · intro i hi h
    rw [path_last pids hw k hk i hi h]
    simp [List.getD_eq_getElem?_getD, hw.root]
  · intro h
    have : (rootPath pids pids.length (k : Int))[0] = (k : Int) := by
      have := rp_head pids pids.length (k : Int)
      rw [List.head?_eq_getElem?, List.getElem?_eq_getElem h] at this
      exact Option.some.inj this
    rw [this]; simpa using hk1
  · intro w hw'
    by_cases hlt : w < pids.length
    · exact hoff w hlt hw'
    · have hlen' : r.pids.length = pids.length := hlen
      simp only [List.getD_eq_getElem?_getD]
      rw [List.getElem?_eq_none (by omega), List.getElem?_eq_none (by omega)]

/-- **the requested node is the unique root** -/
theorem redirect_root (pids types : List Int) (hw : WF pids) (k : Nat) (hk : k < pids.length) (v : Nat) (hv : v < pids.length) :
    (redirect pids types (k : Int)).pids.getD v 0 = -1 ↔ v = k := by
  obtain ⟨hhead, hlast, hnd, hval, hchain⟩ := rootPath_spec pids hw k hk
  obtain ⟨hlen, hk1, hrev, hoff⟩ := redirect_pids pids types hw k hk
  constructor
  · intro h
    by_cases hm : (v : Int) ∈ rootPath pids pids.length (k : Int)
    · obtain ⟨i, hi, e⟩ := List.getElem_of_mem hm
      cases i with
      | zero =>
        have := rp_head pids pids.length (k : Int)
        rw [List.head?_eq_getElem?, List.getElem?_eq_getElem hi, e] at this
        have := Option.some.inj this
        omega
      | succ i =>
        have h2 := hrev i hi
        rw [e] at h2; simp only [Int.toNat_natCast] at h2
        rw [h2] at h
        have := (hval _ (List.getElem_mem (by omega : i < (rootPath pids pids.length (k : Int)).length))).1
        omega
    · rw [hoff v hv hm] at h
      have hv0 : v ≠ 0 := by
        intro h0; subst h0
        apply hm
        have := List.mem_of_getLast? hlast
        simpa using this
      obtain ⟨p, hp, hp0, _⟩ := hw.par_valid v (by omega) hv
      simp [List.getD_eq_getElem?_getD, hp] at h
      omega
  · intro h; subst h; exact hk1

/-- **every attribute is kept; only the types of the old and the new root are exchanged** -/
theorem redirect_types (pids types : List Int) (hw : WF pids) (hl : types.length = pids.length) (k : Nat) (hk : k < pids.length)
    (v : Nat) (hv : v < pids.length) :
    (redirect pids types (k : Int)).types.getD v 0 =
      if v = k then types.getD 0 0 else if v = 0 then types.getD k 0 else types.getD v 0 := by
  have hlast := hw.2.2 k hk
  have e : (redirect pids types (k : Int)).types =
      setAt (setAt types (k : Int) (types.getD 0 0)) 0 (types.getD k 0) := by
    show setAt (setAt types (k : Int) (types.getD ((rootPath pids pids.length (k : Int)).getLastD (k : Int)).toNat 0))
      ((rootPath pids pids.length (k : Int)).getLastD (k : Int)) (types.getD (k : Int).toNat 0) = _
    rw [List.getLastD_eq_getLast?, hlast]
    simp
  rw [e]
  unfold setAt
  simp only [List.getD_eq_getElem?_getD]
  have h1 : ¬ ((k : Int) < 0) := by omega
  rw [if_neg h1, if_neg (by omega)]
  simp only [Int.toNat_natCast, Int.toNat_zero, List.getElem?_set]
  by_cases hvk : v = k
  · subst hvk
    by_cases hv0 : v = 0
    · subst hv0; simp [hl, hv]
    · have : ¬ 0 = v := fun h => hv0 h.symm
      simp [this, hl, hv]
  · have : ¬ k = v := fun h => hvk h.symm
    by_cases hv0 : v = 0
    · subst hv0; simp [hvk, hl, hv]
    · have : ¬ 0 = v := fun h => hv0 h.symm
      simp [*]

/-- re-rooting at the root changes nothing -/
theorem redirect_at_root (pids types : List Int) (hw : WF pids) (hl : types.length = pids.length) :
    redirect pids types 0 = ⟨pids, types⟩ := by
  have hpos := hw.pos
  have hroot := hw.root
  have hp : rootPath pids pids.length 0 = [0] := by
    obtain ⟨m, hm⟩ : ∃ m, pids.length = m + 1 := ⟨pids.length - 1, by omega⟩
    rw [hm, rp_succ, if_pos hw.par_root]
  have e : redirect pids types 0 = ⟨reversePath (setAt pids 0 (-1)) (rootPath pids pids.length 0),
      setAt (setAt types 0 (types.getD ((rootPath pids pids.length 0).getLastD 0).toNat 0))
        ((rootPath pids pids.length 0).getLastD 0) (types.getD (0 : Int).toNat 0)⟩ := rfl
  rw [e, hp, reversePath_single]
  cases pids with
  | nil => simp at hpos
  | cons a tl =>
    cases types with
    | nil => simp at hl
    | cons t ts =>
      simp at hroot
      subst hroot
      simp [setAt]

/-! ## concatenation (before the final sort) -/
section cat
variable (p1 t1 x1 y1 z1 p2 t2 x2 y2 z2 : List Int) (node1 node2 : Nat) (translate : Bool)

/-- the second tree as it enters the concatenation: re-rooted at `node2` unless that already is its root -/
def second : Redirected := if p2.getD node2 (-1) = -1 then ⟨p2, t2⟩ else redirect p2 t2 (node2 : Int)

/-- the common translation vector of the second tree -/
def shift (a1 a2 : List Int) : Int := if translate then a2.getD node2 0 - a1.getD node1 0 else 0

/-- the junction nodes coincide after the (optional) translation -/
def Coincident : Prop :=
  let ex := (x2.getD node2 0 - shift node1 node2 translate x1 x2) - x1.getD node1 0
  let ey := (y2.getD node2 0 - shift node1 node2 translate y1 y2) - y1.getD node1 0
  let ez := (z2.getD node2 0 - shift node1 node2 translate z1 z2) - z1.getD node1 0
  ex * ex + ey * ey + ez * ez = 0

/-- with translation requested the chosen nodes coincide -/
theorem translate_coincides (h : translate = true) :
    Coincident x1 y1 z1 x2 y2 z2 node1 node2 translate := by
  have e : ∀ a b : Int, a - (a - b) - b = 0 := by intros; omega
  unfold Coincident shift
  simp [h, e]

theorem getD_map_sub (a : List Int) (d : Int) (i : Nat) (h : i < a.length) :
    (a.map (fun x => x - d)).getD i 0 = a.getD i 0 - d := by
  simp [List.getD_eq_getElem?_getD, h]

theorem catPre_sep (hx : node2 < x2.length) (hy : node2 < y2.length) (hz : node2 < z2.length)
    (hc : ¬ Coincident x1 y1 z1 x2 y2 z2 node1 node2 translate) :
    catPre p1 t1 x1 y1 z1 p2 t2 x2 y2 z2 (node1 : Int) (node2 : Int) translate =
      ⟨(List.range p1.length).map Int.ofNat ++ (List.range p2.length).map (fun k => Int.ofNat k + (p1.length : Int)),
       setAt (p1 ++ (second p2 t2 node2).pids.map (· + (p1.length : Int))) ((node2 : Int) + p1.length) (node1 : Int),
       x1 ++ x2.map (· - shift node1 node2 translate x1 x2),
       y1 ++ y2.map (· - shift node1 node2 translate y1 y2),
       z1 ++ z2.map (· - shift node1 node2 translate z1 z2),
       t1 ++ (second p2 t2 node2).types⟩ := by
  unfold Coincident shift at hc
  unfold catPre
  simp only [Int.toNat_natCast, getD_map_sub _ _ _ hx, getD_map_sub _ _ _ hy, getD_map_sub _ _ _ hz]
  dsimp only at hc
  rw [if_neg hc, if_neg hc]
  unfold second shift
  simp only [List.foldl_cons, List.foldl_nil]

theorem catPre_merged (hx : node2 < x2.length) (hy : node2 < y2.length) (hz : node2 < z2.length)
    (hc : Coincident x1 y1 z1 x2 y2 z2 node1 node2 translate) :
    catPre p1 t1 x1 y1 z1 p2 t2 x2 y2 z2 (node1 : Int) (node2 : Int) translate =
      ⟨eraseAt ((List.range p1.length).map Int.ofNat ++ (List.range p2.length).map (fun k => Int.ofNat k + (p1.length : Int)))
          (node2 + p1.length),
       eraseAt (((tableKids ((List.range p2.length).map Int.ofNat) (second p2 t2 node2).pids (node2 : Int)).map
            (· + (p1.length : Int))).foldl (fun ps n => setAt ps n (node1 : Int))
            (p1 ++ (second p2 t2 node2).pids.map (· + (p1.length : Int)))) (node2 + p1.length),
       eraseAt (x1 ++ x2.map (· - shift node1 node2 translate x1 x2)) (node2 + p1.length),
       eraseAt (y1 ++ y2.map (· - shift node1 node2 translate y1 y2)) (node2 + p1.length),
       eraseAt (z1 ++ z2.map (· - shift node1 node2 translate z1 z2)) (node2 + p1.length),
       eraseAt (t1 ++ (second p2 t2 node2).types) (node2 + p1.length)⟩ := by
  unfold Coincident shift at hc
  unfold catPre
  have hk : ((node2 : Int) + (p1.length : Int)).toNat = node2 + p1.length := by omega
  simp only [Int.toNat_natCast, getD_map_sub _ _ _ hx, getD_map_sub _ _ _ hy, getD_map_sub _ _ _ hz, hk]
  dsimp only at hc
  rw [if_pos hc, if_pos hc]
  unfold second shift
  rfl

theorem second_length : (second p2 t2 node2).pids.length = p2.length := by
  unfold second
  split
  · rfl
  · rw [redirect_pids_eq, reversePath_length, setAt_length]

/-! list access helpers -/
theorem getD_app_left (a b : List Int) (i : Nat) (h : i < a.length) : (a ++ b).getD i 0 = a.getD i 0 := by
  simp [List.getD_eq_getElem?_getD, List.getElem?_append_left h]

theorem getD_app_right (a b : List Int) (n j : Nat) (h : a.length = n) : (a ++ b).getD (n + j) 0 = b.getD j 0 := by
  subst h
  simp [List.getD_eq_getElem?_getD, List.getElem?_append_right]

theorem getD_map_add (a : List Int) (d : Int) (i : Nat) (h : i < a.length) :
    (a.map (fun x => x + d)).getD i 0 = a.getD i 0 + d := by
  simp [List.getD_eq_getElem?_getD, h]

theorem getD_range_map (n i : Nat) (h : i < n) : ((List.range n).map Int.ofNat).getD i 0 = (i : Int) := by
  rw [List.getD_eq_getElem?_getD, List.getElem?_map, List.getElem?_range h]; rfl

theorem ids_eq (n1 n2 : Nat) :
    (List.range n1).map Int.ofNat ++ (List.range n2).map (fun k => Int.ofNat k + (n1 : Int)) =
      (List.range (n1 + n2)).map Int.ofNat := by
  rw [List.range_add, List.map_append, List.map_map]
  congr 1
  apply List.map_congr_left
  intro k _
  simp; omega

/-- **non-coincident junction**: the table is tree 1 unchanged, followed by tree 2 with ids and parents
shifted by `|tree1|`, positions translated by one common vector (zero without translation), and the
single new edge `node2 → node1`; no other edge is added or lost -/
theorem cat_separate (h1 : t1.length = p1.length ∧ x1.length = p1.length ∧ y1.length = p1.length ∧ z1.length = p1.length)
    (h2 : t2.length = p2.length ∧ x2.length = p2.length ∧ y2.length = p2.length ∧ z2.length = p2.length)
    (hn1 : node1 < p1.length) (hn2 : node2 < p2.length) (hw2 : WF p2)
    (hc : ¬ Coincident x1 y1 z1 x2 y2 z2 node1 node2 translate) :
    let c := catPre p1 t1 x1 y1 z1 p2 t2 x2 y2 z2 (node1 : Int) (node2 : Int) translate
    let s := second p2 t2 node2
    c.ids = (List.range (p1.length + p2.length)).map Int.ofNat ∧
    c.pids.length = p1.length + p2.length ∧
    (∀ i, i < p1.length → c.pids.getD i 0 = p1.getD i 0 ∧ c.x.getD i 0 = x1.getD i 0 ∧ c.y.getD i 0 = y1.getD i 0 ∧
        c.z.getD i 0 = z1.getD i 0 ∧ c.types.getD i 0 = t1.getD i 0) ∧
    (∀ j, j < p2.length → j ≠ node2 → c.pids.getD (p1.length + j) 0 = s.pids.getD j 0 + p1.length) ∧
    c.pids.getD (p1.length + node2) 0 = (node1 : Int) ∧
    (∀ j, j < p2.length →
        c.x.getD (p1.length + j) 0 = x2.getD j 0 - shift node1 node2 translate x1 x2 ∧
        c.y.getD (p1.length + j) 0 = y2.getD j 0 - shift node1 node2 translate y1 y2 ∧
        c.z.getD (p1.length + j) 0 = z2.getD j 0 - shift node1 node2 translate z1 z2 ∧
        c.types.getD (p1.length + j) 0 = s.types.getD j 0) := by
  obtain ⟨ht1, hx1, hy1, hz1⟩ := h1
  obtain ⟨ht2, hx2, hy2, hz2⟩ := h2
  rw [catPre_sep p1 t1 x1 y1 z1 p2 t2 x2 y2 z2 node1 node2 translate (by omega) (by omega) (by omega) hc]
  dsimp only
  have hsl := second_length p2 t2 node2
  have hcast : (node2 : Int) + (p1.length : Int) = ((p1.length + node2 : Nat) : Int) := by omega
  refine ⟨ids_eq _ _, ?_, ?_, ?_, ?_, ?_⟩
  · rw [setAt_length, List.length_append, List.length_map, hsl]
  · intro i hi
    refine ⟨?_, getD_app_left _ _ _ (by omega), getD_app_left _ _ _ (by omega), getD_app_left _ _ _ (by omega),
      getD_app_left _ _ _ (by omega)⟩
    rw [List.getD_eq_getElem?_getD, setAt_getElem?_ne _ _ _ _ (by omega), ← List.getD_eq_getElem?_getD,
      getD_app_left _ _ _ hi]
  · intro j hj hne
    rw [List.getD_eq_getElem?_getD, setAt_getElem?_ne _ _ _ _ (by omega), ← List.getD_eq_getElem?_getD,
      getD_app_right _ _ _ _ rfl, getD_map_add _ _ _ (by omega)]
  · rw [List.getD_eq_getElem?_getD, hcast, setAt_getElem?_self]
    · rfl
    · rw [List.length_append, List.length_map, hsl]; omega
  · intro j hj
    refine ⟨?_, ?_, ?_, getD_app_right _ _ _ _ ht1⟩
    · rw [getD_app_right _ _ _ _ hx1, getD_map_sub _ _ _ (by omega)]
    · rw [getD_app_right _ _ _ _ hy1, getD_map_sub _ _ _ (by omega)]
    · rw [getD_app_right _ _ _ _ hz1, getD_map_sub _ _ _ (by omega)]

/-- the parent column of the merged table before the junction row is deleted -/
theorem merged_pids (sp : List Int) (n1 n2 : Nat) (hsp : sp.length = n2) (hp1 : p1.length = n1) (_hn1 : node1 < n1) :
    let L := ((tableKids ((List.range n2).map Int.ofNat) sp (node2 : Int)).map (· + (n1 : Int))).foldl
      (fun ps n => setAt ps n (node1 : Int)) (p1 ++ sp.map (· + (n1 : Int)))
    L.length = n1 + n2 ∧
    (∀ i, i < n1 → L[i]? = p1[i]?) ∧
    (∀ j, j < n2 → L[n1 + j]? =
      some (if sp.getD j 0 = (node2 : Int) then (node1 : Int) else sp.getD j 0 + (n1 : Int))) := by
  intro L
  have hmem : ∀ m : Nat, ((m : Int) ∈ (tableKids ((List.range n2).map Int.ofNat) sp (node2 : Int)).map (· + (n1 : Int))) ↔
      ∃ j, m = n1 + j ∧ j < n2 ∧ sp[j]? = some (node2 : Int) := by
    intro m
    rw [List.mem_map]
    constructor
    · rintro ⟨a, ha, e⟩
      have ha0 : 0 ≤ a := tableKids_nonneg _ _ _ (by
        intro i hi; rw [List.mem_map] at hi; obtain ⟨k, _, rfl⟩ := hi; exact Int.natCast_nonneg k) a ha
      obtain ⟨j, rfl⟩ : ∃ j : Nat, a = (j : Int) := ⟨a.toNat, by omega⟩
      rw [mem_tableKids_range] at ha
      exact ⟨j, by omega, ha.1, ha.2⟩
    · rintro ⟨j, rfl, hj, hq⟩
      exact ⟨(j : Int), (mem_tableKids_range _ _ _ _).mpr ⟨hj, hq⟩, by omega⟩
  refine ⟨?_, ?_, ?_⟩
  · show List.length (List.foldl _ _ _) = _
    rw [foldl_setAt_length, List.length_append, List.length_map, hsp, hp1]
  · intro i hi
    show (List.foldl _ _ _ : List Int)[i]? = _
    rw [foldl_setAt_not_mem, List.getElem?_append_left (by omega)]
    rw [hmem]; rintro ⟨j, e, _⟩; omega
  · intro j hj
    show (List.foldl _ _ _ : List Int)[n1 + j]? = _
    have hgd : sp.getD j 0 = sp[j]'(by omega) := by
      simp [List.getD_eq_getElem?_getD, hsp, hj]
    by_cases hq : sp[j]? = some (node2 : Int)
    · rw [foldl_setAt_mem]
      · have : sp.getD j 0 = (node2 : Int) := by simp [List.getD_eq_getElem?_getD, hq]
        rw [if_pos this]
      · rw [hmem]; exact ⟨j, rfl, hj, hq⟩
      · rw [List.length_append, List.length_map, hsp, hp1]; omega
    · rw [foldl_setAt_not_mem]
      · have : ¬ sp.getD j 0 = (node2 : Int) := by
          intro h; apply hq; rw [List.getElem?_eq_getElem (by omega), ← hgd, h]
        rw [if_neg this, List.getElem?_append_right (by omega), hp1]
        simp [hsp, hj]
      · rw [hmem]; rintro ⟨j', e, _, hq'⟩
        have : j' = j := by omega
        subst this; exact hq hq'

theorem eraseAt_getD_row (l : List Int) (n1 j : Nat) (hne : j ≠ node2) (hk : node2 + n1 ≤ l.length) :
    (eraseAt l (node2 + n1)).getD (if j < node2 then n1 + j else n1 + j - 1) 0 = l.getD (n1 + j) 0 := by
  simp only [List.getD_eq_getElem?_getD]
  split
  · rw [eraseAt_getElem?_lt _ _ _ (by omega)]
  · rw [eraseAt_getElem?_ge _ _ _ (by omega) hk]
    have : n1 + j - 1 + 1 = n1 + j := by omega
    rw [this]

/-- **coincident junction nodes are merged into one**: tree 2's junction row is deleted, its children hang
from `node1`, every other row is as in the non-coincident case (rows after the deleted one move up by one) -/
theorem cat_merged (h1 : t1.length = p1.length ∧ x1.length = p1.length ∧ y1.length = p1.length ∧ z1.length = p1.length)
    (h2 : t2.length = p2.length ∧ x2.length = p2.length ∧ y2.length = p2.length ∧ z2.length = p2.length)
    (hn1 : node1 < p1.length) (hn2 : node2 < p2.length) (hw2 : WF p2)
    (hc : Coincident x1 y1 z1 x2 y2 z2 node1 node2 translate) :
    let c := catPre p1 t1 x1 y1 z1 p2 t2 x2 y2 z2 (node1 : Int) (node2 : Int) translate
    let s := second p2 t2 node2
    let row := fun (j : Nat) => if j < node2 then p1.length + j else p1.length + j - 1      -- where tree 2's node j ends up
    c.pids.length = p1.length + p2.length - 1 ∧
    (∀ i, i < p1.length → c.ids.getD i 0 = (i : Int) ∧ c.pids.getD i 0 = p1.getD i 0 ∧ c.x.getD i 0 = x1.getD i 0) ∧
    (∀ j, j < p2.length → j ≠ node2 →
        c.ids.getD (row j) 0 = ((p1.length + j : Nat) : Int) ∧
        c.pids.getD (row j) 0 = (if s.pids.getD j 0 = (node2 : Int) then (node1 : Int) else s.pids.getD j 0 + p1.length) ∧
        c.x.getD (row j) 0 = x2.getD j 0 - shift node1 node2 translate x1 x2) := by
  obtain ⟨ht1, hx1, hy1, hz1⟩ := h1
  obtain ⟨ht2, hx2, hy2, hz2⟩ := h2
  rw [catPre_merged p1 t1 x1 y1 z1 p2 t2 x2 y2 z2 node1 node2 translate (by omega) (by omega) (by omega) hc]
  dsimp only
  have hsl := second_length p2 t2 node2
  obtain ⟨hL, hLlo, hLhi⟩ := merged_pids p1 node1 node2 (second p2 t2 node2).pids p1.length p2.length hsl rfl hn1
  rw [ids_eq]
  refine ⟨?_, ?_, ?_⟩
  · rw [eraseAt_length _ _ (by rw [hL]; omega), hL]
  · intro i hi
    simp only [List.getD_eq_getElem?_getD]
    rw [eraseAt_getElem?_lt _ _ _ (by omega), eraseAt_getElem?_lt _ _ _ (by omega),
      eraseAt_getElem?_lt _ _ _ (by omega), hLlo i hi, List.getElem?_append_left (by omega)]
    refine ⟨?_, rfl, rfl⟩
    rw [← List.getD_eq_getElem?_getD, getD_range_map _ _ (by omega)]
  · intro j hj hne
    refine ⟨?_, ?_, ?_⟩
    · rw [eraseAt_getD_row _ _ _ _ hne (by simp; omega), getD_range_map _ _ (by omega)]
    · rw [eraseAt_getD_row _ _ _ _ hne (by rw [hL]; omega), List.getD_eq_getElem?_getD, hLhi j hj]
      rfl
    · rw [eraseAt_getD_row _ _ _ _ hne (by simp; omega), getD_app_right _ _ _ _ hx1, getD_map_sub _ _ _ (by omega)]
end cat

-- non-vacuity / concrete behaviour
def exP : List Int := [-1, 0, 1, 1, 0]
example : WF exP := by
  refine ⟨rfl, ?_, ?_⟩
  · intro k h hk; have : k = 1 ∨ k = 2 ∨ k = 3 ∨ k = 4 := by simp [exP] at h; omega
    rcases this with rfl | rfl | rfl | rfl <;> simp [exP]
  · intro k h; have : k = 0 ∨ k = 1 ∨ k = 2 ∨ k = 3 ∨ k = 4 := by simp [exP] at h; omega
    rcases this with rfl | rfl | rfl | rfl | rfl <;> decide
example : redirect exP [1, 3, 3, 2, 3] 3 = ⟨[1, 3, 1, -1, 0], [2, 3, 3, 1, 3]⟩ := by decide +kernel
example : (catPre [-1, 0] [1, 3] [0, 1] [0, 0] [0, 0] [-1, 0, 0] [1, 3, 3] [5, 6, 7] [0, 0, 0] [0, 0, 0] 1 0 true).pids = [-1, 0, 1, 1] := by
  decide +kernel

end C07
