import SwcVerif.Props.C01
import SwcVerif.Props.C02Gen
import SwcVerif.Refine.Writer
/-! # C01, tied to the source by the imperative translator

`Gen.Algo.to_swc` (+ its closure `to_swc_get_v`) and `Gen.Algo.swclike_to_swc` are regenerated on every run from
`swcgeom/core/swc_utils/io.py::to_swc` (a generator: the comment loop with `c.isspace()` / `c.lstrip()`, the header line, the nested
`get_v` with its dtype test, `f"{v:.4f}"`, the offset rule `k == names.id or (k == names.pid and v != -1)`, `str(v)`, the row loop
`for idx in get_ndata(names.id)` that indexes every column with the VALUE of the id) and from `swcgeom/core/swc.py::SWCLike.to_swc` (the
`source:` header, `comments is True`, `"".join(it)`).  The only thing left abstract is `fmt4 : F → String`, CPython's `f"{v:.4f}"` of a
float - exactly what the hand-written model leaves to CPython too.

* `generated_to_swc_spec` / `generated_swclike_spec`: what the generated code computes, for EVERY float type and `fmt4`, every table whose
  id values are row positions in any order, every offset (negative too), comments absent or given;
* `generated_lines_eq_model` / `generated_writer_eq_model`: on tables with ids = positions, offsets `≥ 0` and the model's float payload the
  generated writer IS `SwcText.writeLines` / `SwcText.writeSwc`, character for character;
* `generated_row_roundtrip`, `generated_table_roundtrip`, `generated_comments_roundtrip`, `generated_roundtrip_reset`: the round-trip
  theorems of `Props/C01.lean`, now about the text the GENERATED writer returns, read by the hand-written reader model;
* `generated_write_generated_read`: … and read by the GENERATED read loop of `Gen/AlgoParse.lean` (text level = the model's recogniser). -/
namespace C01
open SwcText Gen.Algo RefineWriter Py

/-- **what the generated `io.to_swc` yields** (any float type `F`, any `fmt4`): the comment lines, the header, and one data line per VALUE
`j` of the id column built from row `j` of every column - for every table with equally long columns whose id values lie in `[0, n)` -/
theorem generated_to_swc_spec {F : Type} [Inhabited F] (fmt4 : F → String) (get : String → Py.Col F) (T : Tbl F) (n : Nat)
    (hr : Reads get T) (hn : T.Rect n) (hids : ∀ j ∈ T.ids, 0 ≤ j ∧ j < n) (comments : Option (List String)) (off : Int) :
    to_swc fmt4 get comments off = some (linesG fmt4 off T (comments.getD []), ()) :=
  to_swc_refines fmt4 get T n hr hn hids comments off

/-- **what the generated `SWCLike.to_swc` returns**: the concatenation of those lines, the comment list being the optional `source:` header
(+ an empty comment) followed by the tree's comments if requested -/
theorem generated_swclike_spec {F : Type} [Inhabited F] (fmt4 : F → String) (get : String → Py.Col F) (T : Tbl F) (n : Nat)
    (hr : Reads get T) (hn : T.Rect n) (hids : ∀ j ∈ T.ids, 0 ≤ j ∧ j < n) (self : SWCLike) (source : BoolOrStr) (wc : Bool) (off : Int) :
    swclike_to_swc fmt4 get self source wc off = some (textG fmt4 off T self source wc) :=
  swclike_to_swc_refines fmt4 get T n hr hn hids self source wc off

variable (get : String → Py.Col WF)

/-- **generated `io.to_swc` = `SwcText.writeLines`** (ids = positions, offset `≥ 0`) -/
theorem generated_lines_eq_model (rows : List WRow) (hr : Reads get (tblOf rows)) (hpos : Positions rows)
    (comments : Option (List String)) (off : Nat) :
    (to_swc mfmt4 get comments (off : Int)).map (fun r => r.1.map String.toList)
      = some (writeLines off ((comments.getD []).map String.toList) rows) :=
  to_swc_eq_writeLines get rows hr hpos comments off

/-- **generated `SWCLike.to_swc` = the text of `SwcText.writeSwc`** (ids = positions, offset `≥ 0`, every `source` / `comments` choice) -/
theorem generated_writer_eq_model (rows : List WRow) (hr : Reads get (tblOf rows)) (hpos : Positions rows)
    (self : SWCLike) (source : BoolOrStr) (wc : Bool) (off : Nat) :
    (swclike_to_swc mfmt4 get self source wc (off : Int)).map String.toList
      = some (writeSwc off (sourceStr self source) wc (self.comments.map String.toList) rows).flatten :=
  swclike_to_swc_eq_writeSwc get rows hr hpos self source wc off

/-- **row round trip through the generated writer**: the data lines it yields (everything after the comments and the header) classify, in
order, as the rows of the table with ids and parents shifted by the offset (a root's `-1` kept) and no ignored tail -/
theorem generated_row_roundtrip (rows : List WRow) (hr : Reads get (tblOf rows)) (hpos : Positions rows)
    (hp : ∀ w ∈ rows, w.pid = -1 ∨ 0 ≤ w.pid) (comments : Option (List String)) (off : Nat) :
    ∃ ls, to_swc mfmt4 get comments (off : Int) = some (ls, ()) ∧
      (ls.drop ((comments.getD []).length + 1)).map (fun l => classify 0 l.toList) = rows.map (fun w => Kind.data (shifted off w) false) := by
  have h := generated_lines_eq_model get rows hr hpos comments off
  cases hg : to_swc mfmt4 get comments (off : Int) with
  | none => rw [hg] at h; cases h
  | some r =>
    obtain ⟨ls, u⟩ := r
    rw [hg] at h
    simp only [Option.map_some, Option.some.injEq] at h
    refine ⟨ls, rfl, ?_⟩
    have h2 : (ls.drop ((comments.getD []).length + 1)).map String.toList = rows.map (formatRow off) := by
      rw [List.map_drop, h, writeLines]
      simp [List.drop_append]
    have : (ls.drop ((comments.getD []).length + 1)).map (fun l => classify 0 l.toList)
        = ((ls.drop ((comments.getD []).length + 1)).map String.toList).map (classify 0) := by
      rw [List.map_map]; rfl
    rw [this, h2, List.map_map]
    apply List.map_congr_left
    intro w hw
    exact row_roundtrip off w (hp w hw)

/-- the source / comment hypotheses of the round trip: no line break inside a comment or the source text -/
def NoBreaks (self : SWCLike) (source : BoolOrStr) : Prop :=
  (∀ c ∈ self.comments, '\n' ∉ c.toList) ∧ (∀ s, sourceText self source = some s → '\n' ∉ s.toList)

theorem noBreaks_model (self : SWCLike) (source : BoolOrStr) (h : NoBreaks self source) :
    (∀ c ∈ self.comments.map String.toList, '\n' ∉ c) ∧ (∀ s, sourceStr self source = some s → '\n' ∉ s) := by
  constructor
  · intro c hc
    simp only [List.mem_map] at hc
    obtain ⟨c0, h0, rfl⟩ := hc
    exact h.1 c0 h0
  · intro s hs
    simp only [sourceStr, Option.map_eq_some_iff] at hs
    obtain ⟨s0, h0, rfl⟩ := hs
    exact h.2 s0 h0

/-- **table round trip through the generated writer.**  For every table with ids = positions, offset `≥ 0`, `source` choice and comment list
(no line breaks inside): the generated `SWCLike.to_swc` returns a text, and reading that TEXT gives exactly the rows (shifted), no warning,
and the written comments that are not header-like, in order. -/
theorem generated_table_roundtrip (rows : List WRow) (hr : Reads get (tblOf rows)) (hpos : Positions rows)
    (self : SWCLike) (source : BoolOrStr) (wc : Bool) (off : Nat) (hnb : NoBreaks self source)
    (hp : ∀ w ∈ rows, w.pid = -1 ∨ 0 ≤ w.pid) :
    ∃ text, swclike_to_swc mfmt4 get self source wc (off : Int) = some text ∧
      readLines 0 (splitLines text.toList)
        = .ok ⟨rows.map (shifted off),
               ((written (sourceStr self source) wc (self.comments.map String.toList)).map readBack).filter keepComment, false⟩ := by
  have h := generated_writer_eq_model get rows hr hpos self source wc off
  cases hg : swclike_to_swc mfmt4 get self source wc (off : Int) with
  | none => rw [hg] at h; cases h
  | some text =>
    rw [hg] at h
    simp only [Option.map_some, Option.some.injEq] at h
    obtain ⟨hc, hs⟩ := noBreaks_model self source hnb
    exact ⟨text, rfl, by rw [h]; exact table_roundtrip off _ wc _ rows hc hs hp⟩

/-- **nothing is added to the comments but the optional source header** (generated writer): when no written comment starts with the
column-header text, the comments come back one for one with the same text, leading blanks aside -/
theorem generated_comments_roundtrip (rows : List WRow) (hr : Reads get (tblOf rows)) (hpos : Positions rows)
    (self : SWCLike) (source : BoolOrStr) (wc : Bool) (off : Nat) (hnb : NoBreaks self source)
    (hp : ∀ w ∈ rows, w.pid = -1 ∨ 0 ≤ w.pid)
    (hk : ∀ c ∈ written (sourceStr self source) wc (self.comments.map String.toList), keepComment (readBack c) = true) :
    ∃ text res, swclike_to_swc mfmt4 get self source wc (off : Int) = some text ∧
      readLines 0 (splitLines text.toList) = .ok res ∧
      res.comments.map dropWs = (written (sourceStr self source) wc (self.comments.map String.toList)).map dropWs := by
  have h := generated_writer_eq_model get rows hr hpos self source wc off
  cases hg : swclike_to_swc mfmt4 get self source wc (off : Int) with
  | none => rw [hg] at h; cases h
  | some text =>
    rw [hg] at h
    simp only [Option.map_some, Option.some.injEq] at h
    obtain ⟨hc, hs⟩ := noBreaks_model self source hnb
    obtain ⟨res, h1, h2⟩ := comments_roundtrip off _ wc _ rows hc hs hp hk
    exact ⟨text, res, rfl, by rw [h]; exact h1, h2⟩

/-- **the whole round trip, re-based**: for a well-formed table (row 0 the root with id 0, the other parents node ids) the text the generated
writer returns reads back, after `reset_index_`, as the ORIGINAL ids, parents, types and the coordinates on the 4-decimal grid - every offset -/
theorem generated_roundtrip_reset (w0 : WRow) (rest : List WRow) (hr : Reads get (tblOf (w0 :: rest))) (hpos : Positions (w0 :: rest))
    (self : SWCLike) (source : BoolOrStr) (wc : Bool) (off : Nat) (hnb : NoBreaks self source)
    (h0 : w0.pid = -1) (hp : ∀ w ∈ rest, w.pid = -1 ∨ 0 ≤ w.pid) :
    ∃ text res, swclike_to_swc mfmt4 get self source wc (off : Int) = some text ∧
      readLines 0 (splitLines text.toList) = .ok res ∧ resetIndex res.rows = (w0 :: rest).map original := by
  have hp' : ∀ w ∈ w0 :: rest, w.pid = -1 ∨ 0 ≤ w.pid := by
    intro w hw
    simp only [List.mem_cons] at hw
    rcases hw with rfl | hw
    · exact Or.inl h0
    · exact hp w hw
  obtain ⟨text, h1, h2⟩ := generated_table_roundtrip get (w0 :: rest) hr hpos self source wc off hnb hp'
  have hid : w0.id = 0 := hpos 0 (by simp)
  exact ⟨text, _, h1, h2, reset_restores off w0 rest ⟨hid, h0⟩ hp⟩

/-- **generated writer, then the GENERATED read loop** (`Gen.Algo.parse_swc`, text level = the model's recogniser): the loop returns the table
of the written rows (shifted) column by column, the kept comments, issues no warning and closes the file -/
theorem generated_write_generated_read (rows : List WRow) (hr : Reads get (tblOf rows)) (hpos : Positions rows)
    (self : SWCLike) (source : BoolOrStr) (wc : Bool) (off : Nat) (hnb : NoBreaks self source)
    (hp : ∀ w ∈ rows, w.pid = -1 ∨ 0 ≤ w.pid) (cols : List String) (hc : cols.length = 7) (reader : FileReader) :
    ∃ text, swclike_to_swc mfmt4 get self source wc (off : Int) = some text ∧
      parse_swc (C02.mRowOf 0) C02.mCommentOf C02.mIsHeader C02.mBlank cols [] reader ⟨splitLines text.toList, none⟩
        = some ([], RefineParse.closeReader reader,
            .ok (C02.tableOf cols [] ((rows.map (shifted off)).map C02.fieldsOf),
                 ((written (sourceStr self source) wc (self.comments.map String.toList)).map readBack).filter keepComment)) := by
  obtain ⟨text, h1, h2⟩ := generated_table_roundtrip get rows hr hpos self source wc off hnb hp
  refine ⟨text, h1, ?_⟩
  have hw := ((C02.read_ok_iff 0 _ _).1 h2).2.2.2
  simp only at hw
  have hany : (splitLines text.toList).any (RefineParse.tailAt (C02.mRowOf 0)) = false := by
    rw [hw]; congr 1; funext l; exact (C02.line_agrees 0 l).2.2.2
  have hft : RefineParse.firstTail (C02.mRowOf 0) (splitLines text.toList) 0 = none := by
    have := RefineParse.firstTail_isSome (C02.mRowOf 0) (splitLines text.toList) 0
    rw [hany] at this
    cases hq : RefineParse.firstTail (C02.mRowOf 0) (splitLines text.toList) 0 with
    | none => rfl
    | some q => rw [hq] at this; cases this
  apply (C02.generated_ok_iff_model 0 cols [] hc rfl reader _ _ _ _ _).2
  exact ⟨_, h2, rfl, rfl, by rw [hft], by simp, rfl⟩

/-! non-vacuity (kernel-evaluated): the generated definitions run on a concrete table -/
section
def exGet : String → Py.Col WF := fun k =>
  if k = "id" then .ints [0, 1] else if k = "type" then .ints [1, 3] else if k = "pid" then .ints [-1, 0]
  else if k = "x" then .flts [(false, 0), (true, 250001)] else if k = "y" then .flts [(true, 0), (false, 5)]
  else if k = "z" then .flts [(false, 12345), (false, 0)] else if k = "r" then .flts [(false, 10000), (false, 2500)] else .ints []

example : Reads exGet (tblOf exRows) ∧ Positions exRows := by
  refine ⟨⟨rfl, rfl, rfl, rfl, rfl, rfl, rfl⟩, ?_⟩
  intro k h
  have : k < 2 := h
  match k, this with
  | 0, _ => rfl
  | 1, _ => rfl

example : swclike_to_swc mfmt4 exGet ⟨"", ["  hello", " "]⟩ (.bool false) true 7
    = some "# hello\n#\n# id type x y z r pid\n7 1 0.0000 -0.0000 1.2345 1.0000 -1\n8 3 -25.0001 0.0005 0.0000 0.2500 7\n" := by
  decide +kernel
example : swclike_to_swc mfmt4 exGet ⟨"", []⟩ (.bool true) false 0
    = some "# source: Unknown\n# \n# id type x y z r pid\n0 1 0.0000 -0.0000 1.2345 1.0000 -1\n1 3 -25.0001 0.0005 0.0000 0.2500 0\n" := by
  decide +kernel
/-- the quirk: the id VALUES index the rows - a reversed id column writes the rows in reverse order, each with the id found at that position -/
example : (to_swc mfmt4 (fun k => if k = "id" then .ints [1, 0] else exGet k) none (-1)).map (·.1)
    = some ["# id type x y z r pid\n", "-1 3 -25.0001 0.0005 0.0000 0.2500 -1\n", "0 1 0.0000 -0.0000 1.2345 1.0000 -1\n"] := by
  decide +kernel
/-- … and an id outside the table raises (IndexError) -/
example : to_swc mfmt4 (fun k => if k = "id" then .ints [0, 2] else exGet k) none 1 = none := by decide +kernel
end

end C01
