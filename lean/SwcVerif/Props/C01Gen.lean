import SwcVerif.Props.C01
import SwcVerif.Gen.AlgoWriter
/-! # C01 — the GENERATED writer (stub, filled below) -/
