import SwcVerif.Props.C20
import SwcVerif.Refine.ImgIo
/-! # C20, the image I/O logic tied to the source by the translator

`Gen.Algo.save_tiff`, `tiff_init` (`TiffImageStack.__init__`), `ndarray_init` (`NDArrayImageStack.__init__`), `ndarray_getitem` are regenerated from
`swcgeom/images/io.py` on every run (`Gen/AlgoImgIo.lean`) and proved in `Refine/ImgIo.lean` to equal closed-form models for every input.  Below,
what the property says, for the code as translated, for arrays of EVERY shape `(X, Y, Z, C)` / `(X, Y, Z)` over any element type `K`:
the layout written (`Z` first, axes string `ZXYC`), the layout read back for an axes string, save-then-load = the identity on `(x, y, z, c)` indices
composed with the element conversions of the dtype rule, element access of the loaded stack (IndexError exactly out of range), and the dtype rule
itself (= the hand-written `Img.saveFactor` / `Img.loadFactor` table at `K = ℚ`).  Outside: the codecs (tifffile writes / returns the array and
the axes string it is handed — exercised by the real round trips of the suites), `astype` on single values (`cast`), float rounding. -/
set_option linter.unusedSectionVars false
set_option linter.unusedSimpArgs false
namespace C20
open Py Gen.Algo RefineImgIo

section generic
variable {K : Type} [Inhabited K] [Add K] [Sub K] [Mul K] [OfNat K 0] [OfNat K 1] [LT K] [DecidableLT K] [LE K] [DecidableLE K]

/-- what `save_tiff(data, dtype=to)` does to one voxel value -/
def saveElt (F : Py.Fld K) (cast : DType → K → K) (src : DType) : Option DType → K → K
  | none => id
  | some d => fun x => cast d (x * (saveFactor F src d).getD 1)

/-- what `NDArrayImageStack(imgs, dtype=rd)` (hence `read_imgs(…, dtype=rd)`) does to one voxel value -/
def loadElt (F : Py.Fld K) (cast : DType → K → K) (raw : DType) : Option DType → K → K
  | none => id
  | some d =>
    if d.isFloating && raw.isUnsigned then fun x => F.div 1 (F.ofInt ((uintMax raw).getD 1)) * cast d x
    else if d.isUnsigned && raw.isFloating then fun x => cast d (F.ofInt ((uintMax d).getD 1) * x)
    else cast d

theorem saveFactor_isSome (F : Py.Fld K) (src d : DType) : ∃ f, saveFactor F src d = some f := by
  unfold saveFactor
  cases src <;> cases d <;> simp [uintMax, DType.isFloating, DType.isUnsigned]

/-- `saveConv` never fails and acts element-wise -/
theorem saveConv_spec (F : Py.Fld K) (cast : DType → K → K) (a : NdArr K) (sd : Option DType) :
    ∃ b, saveConv F cast a sd = some b ∧ b.shape = a.shape ∧ b.dtype = sd.getD a.dtype ∧
      ∀ i, b.get i = saveElt F cast a.dtype sd (a.get i) := by
  cases sd with
  | none => exact ⟨a, rfl, rfl, rfl, fun _ => rfl⟩
  | some d =>
    obtain ⟨f, hf⟩ := saveFactor_isSome F a.dtype d
    exact ⟨astype cast (mulScalarR a f) d, by simp [saveConv, hf], rfl, rfl, fun i => by simp [saveElt, hf, astype, mulScalarR]⟩

/-- `ndConv` never fails and acts element-wise -/
theorem ndConv_spec (F : Py.Fld K) (cast : DType → K → K) (a : NdArr K) (rd : Option DType) :
    ∃ r, ndConv F cast a rd = some r ∧ r.shape = a.shape ∧ r.dtype = rd.getD a.dtype ∧
      ∀ i, r.get i = loadElt F cast a.dtype rd (a.get i) := by
  cases rd with
  | none => exact ⟨a, rfl, rfl, rfl, fun _ => rfl⟩
  | some d =>
    simp only [ndConv, loadElt]
    by_cases h1 : (d.isFloating && a.dtype.isUnsigned) = true
    · have : ∃ m, uintMax a.dtype = some m := by
        have := uintMax_isSome a.dtype
        simp only [Bool.and_eq_true] at h1
        rw [h1.2] at this
        exact Option.isSome_iff_exists.mp this
      obtain ⟨m, hm⟩ := this
      exact ⟨mulScalarL (F.div 1 (F.ofInt m)) (astype cast a d), by simp [h1, hm], rfl, rfl, fun i => by simp [h1, hm, astype, mulScalarL]⟩
    · by_cases h2 : (d.isUnsigned && a.dtype.isFloating) = true
      · have : ∃ m, uintMax d = some m := by
          have := uintMax_isSome d
          simp only [Bool.and_eq_true] at h2
          rw [h2.1] at this
          exact Option.isSome_iff_exists.mp this
        obtain ⟨m, hm⟩ := this
        exact ⟨astype cast (mulScalarL (F.ofInt m) a) d, by simp [h1, h2, hm], rfl, rfl, fun i => by simp [h1, h2, hm, astype, mulScalarL]⟩
      · exact ⟨astype cast a d, by simp [h1, h2], rfl, rfl, fun i => by simp [h1, h2, astype]⟩

/-! ## what `save_tiff` hands to the codec -/

/-- **`save_tiff` of an `(X, Y, Z, C)` array, `C ∈ {1, 3}`**, for every `dtype` argument: the codec is handed a `(Z, X, Y, C)` array whose
`[z, x, y, c]` is the converted `[x, y, z, c]` of the input, the axes string `ZXYC`, and photometric `rgb` iff `C = 3` -/
theorem generated_save_layout (F : Py.Fld K) (cast : DType → K → K) (data : NdArr K) (X Y Z C : Nat) (hs : data.shape = [X, Y, Z, C])
    (hC : C = 1 ∨ C = 3) (sd : Option DType) :
    ∃ w, save_tiff F cast data sd = some (w, ['Z', 'X', 'Y', 'C'], if C = 3 then "rgb" else "minisblack") ∧
      w.shape = [Z, X, Y, C] ∧ w.dtype = sd.getD data.dtype ∧
      ∀ x y z c, w.get [z, x, y, c] = saveElt F cast data.dtype sd (data.get [x, y, z, c]) := by
  obtain ⟨b, hb, _, hbd, hbg⟩ := saveConv_spec F cast data sd
  refine ⟨zFirst b X Y Z C, ?_, rfl, hbd, ?_⟩
  · rw [save_tiff_eq]; simp [saveModel, promote, hs, hC, hb]
  · intro x y z c; simp [zFirst, unperm_save, hbg]

/-- **`save_tiff` of an `(X, Y, Z)` array**: promoted to `C = 1` -/
theorem generated_save_layout_3d (F : Py.Fld K) (cast : DType → K → K) (data : NdArr K) (X Y Z : Nat) (hs : data.shape = [X, Y, Z])
    (sd : Option DType) :
    ∃ w, save_tiff F cast data sd = some (w, ['Z', 'X', 'Y', 'C'], "minisblack") ∧
      w.shape = [Z, X, Y, 1] ∧ w.dtype = sd.getD data.dtype ∧
      ∀ x y z, w.get [z, x, y, 0] = saveElt F cast data.dtype sd (data.get [x, y, z]) := by
  obtain ⟨b, hb, _, hbd, hbg⟩ := saveConv_spec F cast (expandLast data) sd
  refine ⟨zFirst b X Y Z 1, ?_, rfl, hbd, ?_⟩
  · rw [save_tiff_eq]; simp [saveModel, promote, hs, hb, expandLast] ; simp [expandLast, hs] at hb ⊢ ; simp [hb]
  · intro x y z; simp [zFirst, unperm_save, hbg, expandLast]

/-- any other rank is rejected (the `assert data.ndim == 4`), and so is a 4-d array with `C ∉ {1, 3}` -/
theorem generated_save_rejects (F : Py.Fld K) (cast : DType → K → K) (data : NdArr K) (sd : Option DType) :
    (data.shape.length ≠ 3 → data.shape.length ≠ 4 → save_tiff F cast data sd = none) ∧
    (∀ X Y Z C, data.shape = [X, Y, Z, C] → C ≠ 1 → C ≠ 3 → save_tiff F cast data sd = none) := by
  constructor
  · intro h3 h4; rw [save_tiff_eq]; simp [saveModel, promote, h3, h4]
  · intro X Y Z C hs h1 h3; rw [save_tiff_eq]; simp [saveModel, promote, hs, h1, h3]

/-! ## what `TiffImageStack.__init__` makes of what it reads -/

theorem ndModel_4d (F : Py.Fld K) (cast : DType → K → K) (a : NdArr K) (h : a.shape.length = 4) (rd : Option DType) :
    ∃ r, ndModel F cast a rd = some r ∧ r.shape = a.shape ∧ r.dtype = rd.getD a.dtype ∧
      ∀ i, r.get i = loadElt F cast a.dtype rd (a.get i) := by
  obtain ⟨r, hr, h1, h2, h3⟩ := ndConv_spec F cast a rd
  exact ⟨r, by simp [ndModel, promote, h, hr], h1, h2, h3⟩

/-- **reading a `(Z, X, Y, C)` array with the axes string `ZXYC`** (what `save_tiff` writes), for every `dtype` argument: no warning, the
stack is `(X, Y, Z, C)` and its `[x, y, z, c]` is the converted `[z, x, y, c]` of the file -/
theorem generated_load_layout (F : Py.Fld K) (cast : DType → K → K) (w : NdArr K) (X Y Z C : Nat) (hs : w.shape = [Z, X, Y, C])
    (rd : Option DType) :
    ∃ r, tiff_init F cast w ['Z', 'X', 'Y', 'C'] rd = some ([], r) ∧ r.shape = [X, Y, Z, C] ∧ r.dtype = rd.getD w.dtype ∧
      ∀ x y z c, r.get [x, y, z, c] = loadElt F cast w.dtype rd (w.get [z, x, y, c]) := by
  have ht : transpose w [1, 2, 0, 3] = some { w with shape := [X, Y, Z, C], get := fun i => w.get (unperm [1, 2, 0, 3] i) } := by
    have : isPerm 4 [1, 2, 0, 3] = true := by decide
    simp [transpose, hs, this]
  obtain ⟨r, hr, h1, h2, h3⟩ := ndModel_4d F cast { w with shape := [X, Y, Z, C], get := fun i => w.get (unperm [1, 2, 0, 3] i) } rfl rd
  have hv : axesValid 4 ['Z', 'X', 'Y', 'C'] = true := by decide
  have ho : ordersOf ['Z', 'X', 'Y', 'C'] = some [2, 0, 1, 3] := by decide
  refine ⟨r, ?_, h1, h2, ?_⟩
  · rw [tiff_init_eq]; simp [loadModel, effAxes, hs, hv, ho, argsort_zxyc, ht, hr]
  · intro x y z c; rw [h3]; simp [unperm_load]

/-- **reading a 3-d `(Z, X, Y)` array with the axes string `ZXY`** (what `ToImageStack.save_tif` writes frame by frame): the stack is
`(X, Y, Z, 1)` -/
theorem generated_load_layout_3d (F : Py.Fld K) (cast : DType → K → K) (w : NdArr K) (X Y Z : Nat) (hs : w.shape = [Z, X, Y])
    (rd : Option DType) :
    ∃ r, tiff_init F cast w ['Z', 'X', 'Y'] rd = some ([], r) ∧ r.shape = [X, Y, Z, 1] ∧ r.dtype = rd.getD w.dtype ∧
      ∀ x y z, r.get [x, y, z, 0] = loadElt F cast w.dtype rd (w.get [z, x, y]) := by
  have ht : transpose w [1, 2, 0] = some { w with shape := [X, Y, Z], get := fun i => w.get (unperm [1, 2, 0] i) } := by
    have : isPerm 3 [1, 2, 0] = true := by decide
    simp [transpose, hs, this]
  obtain ⟨r, hr, h1, h2, h3⟩ := ndConv_spec F cast (expandLast { w with shape := [X, Y, Z], get := fun i => w.get (unperm [1, 2, 0] i) }) rd
  have hv : axesValid 3 ['Z', 'X', 'Y'] = true := by decide
  have ho : ordersOf ['Z', 'X', 'Y'] = some [2, 0, 1] := by decide
  refine ⟨r, ?_, h1, h2, ?_⟩
  · rw [tiff_init_eq]; simp [loadModel, effAxes, hs, hv, ho, argsort_zxy, ht, ndModel, promote, hr]
  · intro x y z; rw [h3]; simp [unperm_load3, expandLast]

/-- **an unusable axes string** (wrong length or an unknown letter) is replaced by `ZXYC` / `ZXY` with one warning: the result is that of the
default string -/
theorem generated_load_reset_axes (F : Py.Fld K) (cast : DType → K → K) (w : NdArr K) (axes : List Char) (rd : Option DType)
    (hbad : axesValid w.shape.length axes = false) :
    tiff_init F cast w axes rd =
      (tiff_init F cast w (if w.shape.length = 4 then ['Z', 'X', 'Y', 'C'] else ['Z', 'X', 'Y']) rd).map fun p => ([0], p.2) := by
  rw [tiff_init_eq, tiff_init_eq]
  simp only [loadModel, effAxes, hbad]
  by_cases h4 : w.shape.length = 4
  · have hv : axesValid 4 ['Z', 'X', 'Y', 'C'] = true := by decide
    simp only [h4, if_true, hv, Bool.false_eq_true, if_false]
    cases ordersOf ['Z', 'X', 'Y', 'C'] <;> simp
    rename_i os
    cases transpose w (argsort os) <;> simp
    rename_i t
    cases ndModel F cast t rd <;> simp
  · simp only [h4, if_false, Bool.false_eq_true]
    cases hv : axesValid w.shape.length ['Z', 'X', 'Y'] <;> (
      simp only [if_true, if_false, Bool.false_eq_true]
      cases ordersOf ['Z', 'X', 'Y'] <;> simp
      rename_i os
      cases transpose w (argsort os) <;> simp
      rename_i t
      cases ndModel F cast t rd <;> simp)

/-! ## save, then load -/

/-- **`generated_axes_roundtrip`**: for EVERY `(X, Y, Z, C)` array with `C ∈ {1, 3}` and every pair of dtype arguments, handing what the translated
`save_tiff` writes (array + axes string) to the translated `TiffImageStack.__init__` gives, without a warning, a stack of the SAME shape
`(X, Y, Z, C)` whose voxel `[x, y, z, c]` is the voxel `[x, y, z, c]` of the input, converted by the dtype rule of the save and of the load: the
two axis permutations compose to the identity -/
theorem generated_axes_roundtrip (F : Py.Fld K) (cast : DType → K → K) (data : NdArr K) (X Y Z C : Nat) (hs : data.shape = [X, Y, Z, C])
    (hC : C = 1 ∨ C = 3) (sd rd : Option DType) :
    ∃ w ax ph r, save_tiff F cast data sd = some (w, ax, ph) ∧ tiff_init F cast w ax rd = some ([], r) ∧
      r.shape = data.shape ∧ r.dtype = rd.getD (sd.getD data.dtype) ∧
      ∀ x y z c, r.get [x, y, z, c] = loadElt F cast (sd.getD data.dtype) rd (saveElt F cast data.dtype sd (data.get [x, y, z, c])) := by
  obtain ⟨w, hw, hws, hwd, hwg⟩ := generated_save_layout F cast data X Y Z C hs hC sd
  obtain ⟨r, hr, hrs, hrd, hrg⟩ := generated_load_layout F cast w X Y Z C hws rd
  refine ⟨w, _, _, r, hw, hr, by rw [hrs, hs], by rw [hrd, hwd], ?_⟩
  intro x y z c
  rw [hrg, hwg, hwd]

/-- the same for an `(X, Y, Z)` array: it comes back as `(X, Y, Z, 1)` -/
theorem generated_axes_roundtrip_3d (F : Py.Fld K) (cast : DType → K → K) (data : NdArr K) (X Y Z : Nat) (hs : data.shape = [X, Y, Z])
    (sd rd : Option DType) :
    ∃ w ax ph r, save_tiff F cast data sd = some (w, ax, ph) ∧ tiff_init F cast w ax rd = some ([], r) ∧
      r.shape = [X, Y, Z, 1] ∧ r.dtype = rd.getD (sd.getD data.dtype) ∧
      ∀ x y z, r.get [x, y, z, 0] = loadElt F cast (sd.getD data.dtype) rd (saveElt F cast data.dtype sd (data.get [x, y, z])) := by
  obtain ⟨w, hw, hws, hwd, hwg⟩ := generated_save_layout_3d F cast data X Y Z hs sd
  obtain ⟨r, hr, hrs, hrd, hrg⟩ := generated_load_layout F cast w X Y Z 1 hws rd
  refine ⟨w, _, _, r, hw, hr, hrs, by rw [hrd, hwd], ?_⟩
  intro x y z
  rw [hrg, hwg, hwd]

/-- no dtype argument on either side: the voxel values themselves come back -/
theorem generated_roundtrip_values (F : Py.Fld K) (cast : DType → K → K) (data : NdArr K) (X Y Z C : Nat) (hs : data.shape = [X, Y, Z, C])
    (hC : C = 1 ∨ C = 3) :
    ∃ w ax ph r, save_tiff F cast data none = some (w, ax, ph) ∧ tiff_init F cast w ax none = some ([], r) ∧
      r.shape = data.shape ∧ r.dtype = data.dtype ∧ ∀ x y z c, r.get [x, y, z, c] = data.get [x, y, z, c] := by
  obtain ⟨w, ax, ph, r, h1, h2, h3, h4, h5⟩ := generated_axes_roundtrip F cast data X Y Z C hs hC none none
  exact ⟨w, ax, ph, r, h1, h2, h3, h4, fun x y z c => by rw [h5]; rfl⟩

/-! ## element access -/

omit [Inhabited K] [Add K] [Sub K] [Mul K] [OfNat K 0] [OfNat K 1] [LT K] [DecidableLT K] [LE K] [DecidableLE K] in
theorem ndNormIdx_spec (n : Nat) (k : Int) :
    (0 ≤ k ∧ k < n → ndNormIdx n k = some k.toNat) ∧ (-(n : Int) ≤ k ∧ k < 0 → ndNormIdx n k = some (k + n).toNat) ∧
    (ndNormIdx n k = none ↔ ¬ (-(n : Int) ≤ k ∧ k < n)) := by
  unfold ndNormIdx
  refine ⟨fun h => by simp [h], fun h => ?_, ?_⟩
  · have : ¬ (0 ≤ k ∧ k < n) := by omega
    simp [this, h]
  · by_cases h1 : 0 ≤ k ∧ k < n
    · simp [h1]; omega
    · by_cases h2 : -(n : Int) ≤ k ∧ k < 0
      · simp [h1, h2]; omega
      · simp [h1, h2]; omega

/-- the position an index component denotes: counted from the end when negative -/
def wrapIdx (n : Nat) (k : Int) : Nat := if k < 0 then (k + n).toNat else k.toNat

/-- **`__getitem__` of a 4-tuple of ints on an `(X, Y, Z, C)` stack**: the element at that position (negative components count from the end)
when every component `k` of an axis of length `n` has `-n ≤ k < n`, and IndexError (no result) EXACTLY otherwise -/
theorem generated_getitem (imgs : NdArr K) (X Y Z C : Nat) (hs : imgs.shape = [X, Y, Z, C]) (i j k l : Int) :
    let ok := (-(X : Int) ≤ i ∧ i < X) ∧ (-(Y : Int) ≤ j ∧ j < Y) ∧ (-(Z : Int) ≤ k ∧ k < Z) ∧ (-(C : Int) ≤ l ∧ l < C)
    (ok → ndarray_getitem imgs (i, j, k, l) = some (imgs.get [wrapIdx X i, wrapIdx Y j, wrapIdx Z k, wrapIdx C l])) ∧
    (ndarray_getitem imgs (i, j, k, l) = none ↔ ¬ ok) := by
  have key : ∀ (n : Nat) (k : Int), (-(n : Int) ≤ k ∧ k < n) → ndNormIdx n k = some (wrapIdx n k) := by
    intro n k h
    unfold wrapIdx
    by_cases hk : k < 0
    · simp only [hk, if_true]; exact (ndNormIdx_spec n k).2.1 ⟨h.1, hk⟩
    · simp only [hk, if_false]; exact (ndNormIdx_spec n k).1 ⟨by omega, h.2⟩
  intro ok
  rw [ndarray_getitem_eq]
  constructor
  · rintro ⟨h1, h2, h3, h4⟩
    simp [ndGet, hs, key _ _ h1, key _ _ h2, key _ _ h3, key _ _ h4]
  · simp only [ndGet, hs, List.length_cons, List.length_nil, if_true, List.zipWith_cons_cons, List.zipWith_nil_right]
    by_cases h1 : (-(X : Int) ≤ i ∧ i < X)
    · by_cases h2 : (-(Y : Int) ≤ j ∧ j < Y)
      · by_cases h3 : (-(Z : Int) ≤ k ∧ k < Z)
        · by_cases h4 : (-(C : Int) ≤ l ∧ l < C)
          · simp [key _ _ h1, key _ _ h2, key _ _ h3, key _ _ h4, ok, h1, h2, h3, h4]
          · have := (ndNormIdx_spec C l).2.2.2 h4
            simp [key _ _ h1, key _ _ h2, key _ _ h3, this, ok, h4]
        · have := (ndNormIdx_spec Z k).2.2.2 h3
          cases ndNormIdx C l <;> simp [key _ _ h1, key _ _ h2, this, ok, h3]
      · have := (ndNormIdx_spec Y j).2.2.2 h2
        cases ndNormIdx C l <;> cases ndNormIdx Z k <;> simp [key _ _ h1, this, ok, h2]
    · have := (ndNormIdx_spec X i).2.2.2 h1
      cases ndNormIdx C l <;> cases ndNormIdx Z k <;> cases ndNormIdx Y j <;> simp [this, ok, h1]

/-- the loaded stack answers `[x, y, z, c]` with the (converted) voxel `[x, y, z, c]` of the array that was saved, for every index inside the
shape, and raises IndexError exactly outside -/
theorem generated_roundtrip_getitem (F : Py.Fld K) (cast : DType → K → K) (data : NdArr K) (X Y Z C : Nat) (hs : data.shape = [X, Y, Z, C])
    (hC : C = 1 ∨ C = 3) (sd rd : Option DType) :
    ∃ w ax ph r, save_tiff F cast data sd = some (w, ax, ph) ∧ tiff_init F cast w ax rd = some ([], r) ∧
      (∀ x y z c : Nat, x < X → y < Y → z < Z → c < C →
        ndarray_getitem r ((x : Int), (y : Int), (z : Int), (c : Int))
          = some (loadElt F cast (sd.getD data.dtype) rd (saveElt F cast data.dtype sd (data.get [x, y, z, c])))) ∧
      (∀ i j k l : Int, ndarray_getitem r (i, j, k, l) = none ↔
        ¬ ((-(X : Int) ≤ i ∧ i < X) ∧ (-(Y : Int) ≤ j ∧ j < Y) ∧ (-(Z : Int) ≤ k ∧ k < Z) ∧ (-(C : Int) ≤ l ∧ l < C))) := by
  obtain ⟨w, ax, ph, r, h1, h2, h3, _, h5⟩ := generated_axes_roundtrip F cast data X Y Z C hs hC sd rd
  rw [hs] at h3
  refine ⟨w, ax, ph, r, h1, h2, ?_, fun i j k l => (generated_getitem r X Y Z C h3 i j k l).2⟩
  intro x y z c hx hy hz hc
  have := (generated_getitem r X Y Z C h3 x y z c).1 ⟨⟨by omega, by omega⟩, ⟨by omega, by omega⟩, ⟨by omega, by omega⟩, ⟨by omega, by omega⟩⟩
  rw [this, ← h5]
  have e' : ∀ (m n : Nat), wrapIdx m (n : Int) = n := by intro m n; simp [wrapIdx]
  simp [e']

/-! ## any order of the axes in the file -/

omit [Inhabited K] [Add K] [Sub K] [Mul K] [OfNat K 0] [OfNat K 1] [LT K] [DecidableLT K] [LE K] [DecidableLE K] in
theorem ordersOf_valid : ∀ (ax : List Char) (os : List Int), ordersOf ax = some os →
    os.length = ax.length ∧ ax.all (fun c => Py.Dict.contains axesOrder c) = true := by
  intro ax
  induction ax with
  | nil => intro os h; simp [ordersOf] at h; simp [h]
  | cons a l ih =>
    intro os h
    simp only [ordersOf] at h
    cases ha : Py.Dict.get? axesOrder a with
    | none => simp [ha] at h
    | some o =>
      cases hl : ordersOf l with
      | none => simp [ha, hl] at h
      | some os' =>
        simp [ha, hl] at h
        obtain ⟨h1, h2⟩ := ih os' hl
        subst h
        refine ⟨by simp [h1], ?_⟩
        simp only [List.all_cons, Bool.and_eq_true]
        exact ⟨by simp [Py.Dict.contains, ha], h2⟩

/-- `w.transpose(p)` -/
def transposed (w : NdArr K) (p : List Nat) : NdArr K :=
  { shape := p.map (fun a => w.shape.getD a 0), get := fun i => w.get (unperm p i), dtype := w.dtype }

/-- **every usable axes string** (one known letter per axis): no warning; the array is transposed by the stable argsort of the letters' ranks
(`X < Y < Z = I < C`), then handed to `NDArrayImageStack.__init__` -/
theorem generated_load_general (F : Py.Fld K) (cast : DType → K → K) (w : NdArr K) (h4 : w.shape.length = 4) (ax : List Char) (os : List Int)
    (ho : ordersOf ax = some os) (hl : ax.length = 4) (hp : isPerm 4 (argsort os) = true) (rd : Option DType) :
    ∃ r, tiff_init F cast w ax rd = some ([], r) ∧
      r.shape = ((argsort os).map Int.toNat).map (fun a => w.shape.getD a 0) ∧ r.dtype = rd.getD w.dtype ∧
      ∀ i, r.get i = loadElt F cast w.dtype rd (w.get (unperm ((argsort os).map Int.toNat) i)) := by
  have hv : axesValid w.shape.length ax = true := by
    simp only [axesValid, h4, hl, (ordersOf_valid ax os ho).2]; rfl
  have ht : transpose w (argsort os) = some (transposed w ((argsort os).map Int.toNat)) := by
    simp [transpose, h4, hp, transposed]
  have hlen : (transposed w ((argsort os).map Int.toNat)).shape.length = 4 := by
    have : (argsort os).length = 4 := by simp [isPerm] at hp; exact hp.1
    simp [transposed, this]
  obtain ⟨r, hr, h1, h2, h3⟩ := ndModel_4d F cast (transposed w ((argsort os).map Int.toNat)) hlen rd
  exact ⟨r, by rw [tiff_init_eq]; simp [loadModel, effAxes, hv, ho, ht, hr], h1, h2, h3⟩

/-- the 24 arrangements of four axes -/
def perms4 : List (List Int) :=
  [[0, 1, 2, 3], [0, 1, 3, 2], [0, 2, 1, 3], [0, 2, 3, 1], [0, 3, 1, 2], [0, 3, 2, 1], [1, 0, 2, 3], [1, 0, 3, 2], [1, 2, 0, 3], [1, 2, 3, 0], [1, 3, 0, 2], [1, 3, 2, 0], [2, 0, 1, 3], [2, 0, 3, 1], [2, 1, 0, 3], [2, 1, 3, 0], [2, 3, 0, 1], [2, 3, 1, 0], [3, 0, 1, 2], [3, 0, 2, 1], [3, 1, 0, 2], [3, 1, 2, 0], [3, 2, 0, 1], [3, 2, 1, 0]]

omit [Inhabited K] [Add K] [Sub K] [Mul K] [OfNat K 0] [OfNat K 1] [LT K] [DecidableLT K] [LE K] [DecidableLE K] in
theorem perm4_cases (os : List Int) (h : os.Perm [0, 1, 2, 3]) : os ∈ perms4 := by
  have hl := h.length_eq
  have hn : os.Nodup := h.nodup_iff.mpr (by decide)
  match os, hl with
  | [a, b, c, d], _ =>
    have ha : a ∈ ([0, 1, 2, 3] : List Int) := h.mem_iff.mp (by simp)
    have hb : b ∈ ([0, 1, 2, 3] : List Int) := h.mem_iff.mp (by simp)
    have hc : c ∈ ([0, 1, 2, 3] : List Int) := h.mem_iff.mp (by simp)
    have hd : d ∈ ([0, 1, 2, 3] : List Int) := h.mem_iff.mp (by simp)
    simp only [List.mem_cons, List.mem_nil_iff, or_false] at ha hb hc hd
    rcases ha with rfl | rfl | rfl | rfl <;> rcases hb with rfl | rfl | rfl | rfl <;> rcases hc with rfl | rfl | rfl | rfl <;>
      rcases hd with rfl | rfl | rfl | rfl <;> first | (exfalso; revert hn; decide) | decide

/-- **the axes of the file in ANY order** (`ax` lists the four letters X, Y, Z (or I), C in some order, ranks `os`): no warning, and the stack
answers `[i₀, i₁, i₂, i₃]` (= x, y, z, c) with the (converted) element of the file whose `k`-th index is the coordinate named by the `k`-th
letter; its extent along the axis named by the `k`-th letter is the file's `k`-th extent -/
theorem generated_load_any_order (F : Py.Fld K) (cast : DType → K → K) (w : NdArr K) (n0 n1 n2 n3 : Nat) (hs : w.shape = [n0, n1, n2, n3])
    (ax : List Char) (os : List Int) (ho : ordersOf ax = some os) (hp : os.Perm [0, 1, 2, 3]) (rd : Option DType) :
    ∃ r, tiff_init F cast w ax rd = some ([], r) ∧
      r.shape = (List.range 4).map (fun o => [n0, n1, n2, n3].getD (os.idxOf (o : Int)) 0) ∧ r.dtype = rd.getD w.dtype ∧
      ∀ i0 i1 i2 i3, r.get [i0, i1, i2, i3] = loadElt F cast w.dtype rd (w.get (os.map fun o => [i0, i1, i2, i3].getD o.toNat 0)) := by
  have hl : ax.length = 4 := by rw [← (ordersOf_valid ax os ho).1, hp.length_eq]; rfl
  have h4 : w.shape.length = 4 := by rw [hs]; rfl
  have hmem := perm4_cases os hp
  simp only [perms4, List.mem_cons, List.mem_nil_iff, or_false] at hmem
  rcases hmem with rfl | rfl | rfl | rfl | rfl | rfl | rfl | rfl | rfl | rfl | rfl | rfl | rfl | rfl | rfl | rfl | rfl | rfl | rfl | rfl | rfl | rfl | rfl | rfl <;> (
    obtain ⟨r, hr, h1, h2, h3⟩ := generated_load_general F cast w h4 ax _ ho hl (by decide) rd
    refine ⟨r, hr, ?_, h2, ?_⟩
    · rw [h1, hs]; rfl
    · intro i0 i1 i2 i3; rw [h3]; rfl)

end generic

/-! ## the dtype rule is the documented rescaling (`K = ℚ`) -/

/-- the kind of a dtype in the hand-written model (`Img.DKind`) -/
def kindOf (d : DType) : Img.DKind :=
  match uintMax d with
  | some m => .uint m.toNat
  | none => if d.isFloating then .float else .other

/-- **the factor `save_tiff(…, dtype=d)` multiplies with is the model's `Img.saveFactor`** (`UINT_MAX` of the target for floating → unsigned,
`1 / UINT_MAX` of the source for unsigned → floating, 1 otherwise), for all 11 × 11 dtype pairs -/
theorem generated_save_factor (src d : DType) :
    saveFactor Py.ratFld src d
      = some (((Img.saveFactor (kindOf src) (kindOf d)).1 : Rat) / ((Img.saveFactor (kindOf src) (kindOf d)).2 : Rat)) := by
  cases src <;> cases d <;> simp [saveFactor, kindOf, uintMax, Img.saveFactor, DType.isFloating, DType.isUnsigned, Py.ratFld, Fld.div, Fld.ofInt]

/-- **the conversion `NDArrayImageStack(imgs, dtype=d)` applies is the model's `Img.loadFactor`**: unsigned → floating casts first and then
multiplies by `1 / UINT_MAX[raw]`; floating → unsigned multiplies by `UINT_MAX[d]` and then casts; every other pair is a plain cast -/
theorem generated_load_factor (cast : DType → Rat → Rat) (raw d : DType) (x : Rat) :
    loadElt Py.ratFld cast raw (some d) x =
      (let f : Rat := ((Img.loadFactor (kindOf raw) (kindOf d)).1 : Rat) / ((Img.loadFactor (kindOf raw) (kindOf d)).2 : Rat)
       if d.isFloating && raw.isUnsigned then f * cast d x else cast d (f * x)) := by
  cases raw <;> cases d <;> simp [loadElt, kindOf, uintMax, Img.loadFactor, DType.isFloating, DType.isUnsigned, Py.ratFld, Fld.div, Fld.ofInt]

/-- **`uint_float_uint` for the generated code**: an unsigned array saved as a floating type and read back as the same unsigned type returns its
values, when `astype` is exact on the floats involved and truncates non-negative values to unsigned -/
theorem generated_uint_float_uint (cast : DType → Rat → Rat) (ud fd : DType) (m : Int) (hm : uintMax ud = some m) (hf : fd.isFloating = true)
    (hcf : ∀ x, cast fd x = x) (hcu : ∀ x, 0 ≤ x → cast ud x = ((Img.toUint x : Int) : Rat)) (v : Nat) (hv : (v : Int) ≤ m) :
    loadElt Py.ratFld cast fd (some ud) (saveElt Py.ratFld cast ud (some fd) (v : Rat)) = (v : Rat) := by
  have hu : ud.isUnsigned = true := by rw [← uintMax_isSome, hm]; rfl
  have hfu : fd.isUnsigned = false := by cases fd <;> simp_all [DType.isFloating, DType.isUnsigned]
  have huf : ud.isFloating = false := by cases ud <;> simp_all [DType.isFloating, DType.isUnsigned]
  have hm0 : 0 < m := by cases ud <;> simp_all [uintMax] <;> omega
  obtain ⟨mn, rfl⟩ : ∃ mn : Nat, m = mn := ⟨m.toNat, by omega⟩
  have key := uint_float_uint mn v (by omega) (by omega)
  simp only [loadElt, saveElt, saveFactor, hu, hf, hfu, huf, hm, Bool.and_true, Bool.and_false, Bool.false_eq_true, if_false, if_true,
    Option.map_some, Option.getD_some, hcf, Py.ratFld, Bool.and_self, Fld.div, Fld.ofInt]
  have hnn : (0 : Rat) ≤ ((mn : Int) : Rat) * ((v : Rat) * (1 / ((mn : Int) : Rat))) := by
    have : (0 : Rat) ≤ (mn : Rat) := by exact_mod_cast Nat.zero_le mn
    have : (0 : Rat) ≤ (v : Rat) := by exact_mod_cast Nat.zero_le v
    positivity
  rw [hcu _ hnn]
  have e : ((mn : Int) : Rat) * ((v : Rat) * (1 / ((mn : Int) : Rat))) = ((v : Rat) * ((1 : Rat) / mn)) * mn := by
    push_cast; ring
  rw [e, key]
  simp

/-! ## `read_imgs` -/

/-- **the extension dispatch of `read_imgs`**: a missing file is a ValueError whatever the name; otherwise `.tif` / `.tiff` → `TiffImageStack`,
`.nrrd` → `NrrdImageStack`, `.v3dpbd` → `V3dpbdImageStack`, `.v3draw` → `V3drawImageStack`, `.npy` → `NDArrayImageStack` (`readerOf`), any other
extension → `TeraflyImageStack` if the path is a TeraFly root and a ValueError if not; the class gets the caller's keyword arguments with
`dtype` defaulting to `np.float32` -/
theorem generated_read_dispatch (fname : String) (isRoot : Bool) (kwargs : Py.Dict String DType) :
    read_imgs fname false isRoot kwargs = none ∧
    (∀ c, readerOf (splitExt fname) = some c →
      read_imgs fname true isRoot kwargs = some (c, Py.Dict.setdefault kwargs "dtype" DType.f32)) ∧
    (readerOf (splitExt fname) = none →
      read_imgs fname true isRoot kwargs = if isRoot then some ("TeraflyImageStack", Py.Dict.setdefault kwargs "dtype" DType.f32) else none) ∧
    Py.Dict.get? (Py.Dict.setdefault kwargs "dtype" DType.f32) "dtype" = some ((Py.Dict.get? kwargs "dtype").getD DType.f32) := by
  refine ⟨by rw [read_imgs_eq]; simp [readModel], fun c hc => by rw [read_imgs_eq]; simp [readModel, hc],
    fun hn => by rw [read_imgs_eq]; simp [readModel, hn], ?_⟩
  simp only [Py.Dict.setdefault, Py.Dict.contains, Py.Dict.get?]
  rcases h : List.find? (fun p => decide (p.1 = "dtype")) kwargs with _ | p
  · simp [List.find?_append, h]
  · simp [h]

example : readerOf ".tiff" = some "TiffImageStack" ∧ readerOf ".npy" = some "NDArrayImageStack" ∧ readerOf ".TIF" = none := by decide
example : splitExt "a/b.c/x.tiff" = ".tiff" ∧ splitExt "dir.d/.hidden" = "" ∧ splitExt "a.b/c" = "" := by decide +kernel

/-! ## non-vacuity (kernel-evaluated): the generated definitions run on a `(2, 1, 3, 1)` array -/

def exArr : NdArr Rat := NdArr.ofFlat [2, 1, 3, 1] [1, 2, 3, 4, 5, 6] .u8
def exCast : DType → Rat → Rat := fun d x => if d.isUnsigned then ((Img.toUint x : Int) : Rat) else x

example : ((save_tiff Py.ratFld exCast exArr none).map fun p => (p.1.shape, p.1.toFlat, p.2.1, p.2.2))
    = some ([3, 2, 1, 1], [1, 4, 2, 5, 3, 6], ['Z', 'X', 'Y', 'C'], "minisblack") := by decide +kernel
example : ((save_tiff Py.ratFld exCast exArr none).bind fun p => (tiff_init Py.ratFld exCast p.1 p.2.1 none).map fun q =>
    (q.1, q.2.shape, q.2.toFlat)) = some ([], [2, 1, 3, 1], [1, 2, 3, 4, 5, 6]) := by decide +kernel
example : ((save_tiff Py.ratFld exCast exArr (some .f32)).bind fun p => (tiff_init Py.ratFld exCast p.1 p.2.1 (some .u8)).map fun q =>
    (q.1, q.2.shape, q.2.toFlat)) = some ([], [2, 1, 3, 1], [1, 2, 3, 4, 5, 6]) := by decide +kernel
example : ((tiff_init Py.ratFld exCast exArr ['Q', 'X', 'Y', 'C'] (some .f32)).map fun q => (q.1, q.2.shape, q.2.toFlat))
    = some ([0], [1, 3, 2, 1], [1 / 255, 4 / 255, 2 / 255, 5 / 255, 3 / 255, 6 / 255]) := by decide +kernel
example : ndarray_getitem exArr (1, 0, -1, 0) = some 6 ∧ ndarray_getitem exArr (2, 0, 0, 0) = none ∧
    ndarray_getitem exArr (-2, -1, -3, -1) = some 1 := by decide +kernel
example : save_tiff Py.ratFld exCast (NdArr.ofFlat [1, 1, 1, 2] [1, 2] .u8) none = none
    ∧ save_tiff Py.ratFld exCast (NdArr.ofFlat [1, 2] [1, 2] .u8) none = none := by
  constructor <;> (rw [save_tiff_eq]; rfl)

end C20
