import SwcVerif.Gen.VolumeFormulas
