import SwcVerif.Gen.VolumeFormulas
import SwcVerif.Proofs.Additive
import Mathlib.Analysis.SpecialFunctions.Integrals.Basic
/-! # C13 — closed-form volumes of the primitives equal the true geometric volume

All theorems are about the formulas GENERATED from `swcgeom/utils/volumetric_object.py`
(`Gen.Vol.*`), instantiated at `ℝ` with `pi := Real.pi`.

"True volume" of a solid of revolution about the common axis is `π ∫ ρ(z)² dz` (disc method; its
equality with Lebesgue measure is part of the trusted base).  Profiles:

* sphere of radius `r` centred at `0`:      `ρ² = r² - z²`            on `[-r, r]`
* cap of height `h`:                         the same on `[r-h, r]`
* frustum `r1 → r2` over height `h`:         `ρ  = r1 + (r2-r1)·z/h`   on `[0, h]`
* lens of two spheres at distance `d`:       `ρ² = max 0 (min (r1²-z²) (r2²-(z-d)²))` on `[-r1, r1]`
* sphere ∩ frustum sharing centre and radius at one end (the frustum lies in `z ≥ 0`):
                                             `ρ² = min (r1²-z²) ((r1+(r2-r1)·z/h)²)` on `[0, min h r1]`
-/
namespace C13
open intervalIntegral Gen.Vol

noncomputable section

/-- squared radius of the two-sphere lens at height `z` (sphere 1 at `0`, sphere 2 at `d`) -/
def lensProfile (r1 r2 d z : ℝ) : ℝ := max 0 (min (r1^2 - z^2) (r2^2 - (z - d)^2))
/-- squared radius of sphere ∩ frustum at height `z ≥ 0` -/
def sfProfile (r1 r2 h z : ℝ) : ℝ := min (r1^2 - z^2) ((r1 + (r2 - r1) / h * z)^2)
/-- meridian-plane exit parameter of the lateral edge `(r1,0) → (r2,h)` from the sphere of radius `r1` -/
def exitT (r1 r2 h : ℝ) : ℝ := 2 * r1 * (r1 - r2) / (h * h + (r1 - r2) * (r1 - r2))

/-! ### helpers: Python `abs`/`min` at ℝ -/

theorem absK_eq (x : ℝ) : absK x = |x| := by
  unfold absK
  split_ifs with h
  · exact (abs_of_neg h).symm
  · exact (abs_of_nonneg (not_lt.mp h)).symm

theorem minK_eq (a b : ℝ) : minK a b = min a b := by
  unfold minK
  split_ifs with h
  · exact (min_eq_right h.le).symm
  · exact (min_eq_left (not_lt.mp h)).symm

/-- the `exitT` of the theorems is the `exitTK` the driver evaluates (one definition, two carriers) -/
theorem exitT_eq_model (r1 r2 h : ℝ) : exitT r1 r2 h = exitTK r1 r2 h := rfl

theorem integral_quadratic (A B C a b : ℝ) :
    ∫ z in a..b, (A + B * z + C * z^2) = A*(b-a) + B*(b^2-a^2)/2 + C*(b^3-a^3)/3 := by
  rw [integral_add, integral_add] <;> try (apply Continuous.intervalIntegrable; fun_prop)
  rw [integral_const, integral_const_mul, integral_const_mul, integral_id, integral_pow]
  simp only [smul_eq_mul]; ring

/-! ### helpers: the three profile shapes as `A + B z + C z²` -/

theorem sq_sub_sq_quad (r : ℝ) : ∀ z : ℝ, r^2 - z^2 = r^2 + 0 * z + (-1) * z^2 := by intro z; ring

theorem sq_sub_shift_quad (r d : ℝ) : ∀ z : ℝ, r^2 - (z-d)^2 = (r^2 - d^2) + (2*d)*z + (-1) * z^2 := by
  intro z; ring

theorem lin_sq_quad (r k : ℝ) : ∀ z : ℝ, (r + k*z)^2 = r^2 + (2*r*k) * z + (k^2) * z^2 := by intro z; ring

/-- sphere: `4/3 π r³ = π ∫_{-r}^{r} (r² - z²)` -/
theorem sphere_volume (r : ℝ) :
    sphereVolume Real.pi r = Real.pi * ∫ z in (-r)..r, (r^2 - z^2) := by
  simp only [sq_sub_sq_quad, integral_quadratic, sphereVolume]
  ring

/-- spherical cap of height `h` (every `h`, in particular `0 ≤ h ≤ 2r`) -/
theorem cap_volume (r h : ℝ) :
    capVolume Real.pi r h = Real.pi * ∫ z in (r - h)..r, (r^2 - z^2) := by
  simp only [sq_sub_sq_quad, integral_quadratic, capVolume]
  ring

/-- frustum (cone when one radius is 0, cylinder when equal; either taper direction) -/
theorem frustum_volume (r1 r2 h : ℝ) (hh : h ≠ 0) :
    frustumVolume Real.pi r1 r2 h = Real.pi * ∫ z in (0:ℝ)..h, (r1 + (r2 - r1) / h * z)^2 := by
  simp only [lin_sq_quad, integral_quadratic, frustumVolume]
  field_simp
  ring

/-- the formula does not depend on which end is called `1` (orientation / taper direction) -/
theorem frustum_symm (r1 r2 h : ℝ) : frustumVolume Real.pi r1 r2 h = frustumVolume Real.pi r2 r1 h := by
  simp only [frustumVolume]; ring

/-! ### lens helpers -/

theorem lensProfile_continuous (r1 r2 d : ℝ) : Continuous (lensProfile r1 r2 d) := by
  unfold lensProfile; fun_prop

theorem lens_formula (r1 r2 d : ℝ) (hd : d ≠ 0) :
    Real.pi / (12 * d) * ((r1 + r2 - d) * (r1 + r2 - d)) *
        (d * d + 2 * d * r1 - 3 * (r1 * r1) + 2 * d * r2 - 3 * (r2 * r2) + 6 * r1 * r2)
      = Real.pi * ((∫ z in (d - r2)..((d^2 + r1^2 - r2^2) / (2*d)), (r2^2 - (z-d)^2))
          + ∫ z in ((d^2 + r1^2 - r2^2) / (2*d))..r1, (r1^2 - z^2)) := by
  simp only [sq_sub_shift_quad r2 d, sq_sub_sq_quad r1, integral_quadratic]
  field_simp
  ring

/-- two-sphere intersection: disjoint (incl. nothing in common but possibly a tangent point is the
`d = r1 + r2` boundary of the proper case) -/
theorem lens_disjoint (r1 r2 d : ℝ) (h1 : 0 ≤ r1) (h2 : 0 ≤ r2) (hd : r1 + r2 < d) :
    lensVolume Real.pi r1 r2 d = Real.pi * ∫ z in (-r1)..r1, lensProfile r1 r2 d z := by
  have e : ∀ z ∈ Set.uIcc (-r1) r1, lensProfile r1 r2 d z = 0 := by
    intro z hz
    rw [Set.uIcc_of_le (by linarith)] at hz
    unfold lensProfile
    apply max_eq_left
    apply (min_le_right _ _).trans
    nlinarith [hz.2]
  have hc : d > r1 + r2 := hd
  simp only [lensVolume, if_pos hc]
  rw [integral_congr e]
  simp

/-- nested spheres (incl. internally tangent `d = |r1 - r2|` and concentric `d = 0`) -/
theorem lens_nested (r1 r2 d : ℝ) (h1 : 0 ≤ r1) (h2 : 0 ≤ r2) (hd0 : 0 ≤ d) (hd : d ≤ |r1 - r2|) :
    lensVolume Real.pi r1 r2 d = Real.pi * ∫ z in (-r1)..r1, lensProfile r1 r2 d z := by
  have hc1 : ¬ (d > r1 + r2) := by
    intro h'
    have : |r1 - r2| ≤ r1 + r2 := abs_le.mpr ⟨by linarith, by linarith⟩
    linarith
  have hP := lensProfile_continuous r1 r2 d
  simp only [lensVolume, absK_eq, minK_eq, if_neg hc1, if_pos hd]
  by_cases hr : r2 < r1
  · -- sphere 2 inside sphere 1
    rw [abs_of_pos (by linarith)] at hd
    rw [min_eq_right hr.le]
    have eA : ∀ z ∈ Set.uIcc (-r1) (d - r2), lensProfile r1 r2 d z = 0 := by
      intro z hz
      rw [Set.uIcc_of_le (by linarith)] at hz
      unfold lensProfile
      apply max_eq_left
      apply (min_le_right _ _).trans
      nlinarith [hz.2]
    have eB : ∀ z ∈ Set.uIcc (d - r2) (d + r2), lensProfile r1 r2 d z = r2^2 - (z - d)^2 := by
      intro z hz
      rw [Set.uIcc_of_le (by linarith)] at hz
      unfold lensProfile
      rw [min_eq_right, max_eq_right]
      · nlinarith [hz.1, hz.2]
      · nlinarith [hz.1, hz.2, mul_nonneg hd0 (sub_nonneg.mpr hz.2)]
    have eC : ∀ z ∈ Set.uIcc (d + r2) r1, lensProfile r1 r2 d z = 0 := by
      intro z hz
      rw [Set.uIcc_of_le (by linarith)] at hz
      unfold lensProfile
      apply max_eq_left
      apply (min_le_right _ _).trans
      nlinarith [hz.1]
    rw [← integral_add_adjacent_intervals (b := d - r2) (hP.intervalIntegrable _ _) (hP.intervalIntegrable _ _),
      ← integral_add_adjacent_intervals (a := d - r2) (b := d + r2) (hP.intervalIntegrable _ _)
        (hP.intervalIntegrable _ _),
      integral_congr eA, integral_congr eB, integral_congr eC]
    simp only [sq_sub_shift_quad, integral_quadratic, sphereVolume, integral_zero]
    ring
  · have hr' : r1 ≤ r2 := not_lt.mp hr
    rw [abs_of_nonpos (by linarith)] at hd
    rw [min_eq_left hr']
    have e : ∀ z ∈ Set.uIcc (-r1) r1, lensProfile r1 r2 d z = r1^2 - z^2 := by
      intro z hz
      rw [Set.uIcc_of_le (by linarith)] at hz
      unfold lensProfile
      rw [min_eq_left, max_eq_right]
      · nlinarith [hz.1, hz.2]
      · nlinarith [hz.1, hz.2, mul_nonneg hd0 (by linarith [hz.1] : (0:ℝ) ≤ z + r1)]
    rw [integral_congr e]
    exact sphere_volume r1

/-- proper lens (incl. externally tangent `d = r1 + r2`) -/
theorem lens_proper (r1 r2 d : ℝ) (h1 : 0 ≤ r1) (h2 : 0 ≤ r2) (hlo : |r1 - r2| < d) (hhi : d ≤ r1 + r2) :
    lensVolume Real.pi r1 r2 d = Real.pi * ∫ z in (-r1)..r1, lensProfile r1 r2 d z := by
  have _ := h1
  have hc1 : ¬ (d > r1 + r2) := not_lt.mpr hhi
  have hc2 : ¬ (d ≤ |r1 - r2|) := not_le.mpr hlo
  have hd0 : 0 < d := lt_of_le_of_lt (abs_nonneg _) hlo
  obtain ⟨hlo1, hlo2⟩ := abs_lt.mp hlo
  have hP := lensProfile_continuous r1 r2 d
  simp only [lensVolume, absK_eq, if_neg hc1, if_neg hc2]
  rw [lens_formula r1 r2 d hd0.ne']
  set z0 := (d^2 + r1^2 - r2^2) / (2*d) with hz0
  have hz0d : z0 * (2 * d) = d^2 + r1^2 - r2^2 := by rw [hz0]; field_simp
  have hz0lo : d - r2 ≤ z0 := by
    rw [hz0, le_div_iff₀ (by linarith)]
    nlinarith [mul_nonneg (by linarith : (0:ℝ) ≤ r1 - (d - r2)) (by linarith : (0:ℝ) ≤ r1 + (d - r2))]
  have hz0hi : z0 ≤ r1 := by
    rw [hz0, div_le_iff₀ (by linarith)]
    nlinarith [mul_nonneg (by linarith : (0:ℝ) ≤ r2 - (d - r1)) (by linarith : (0:ℝ) ≤ r2 + (d - r1))]
  have key : ∀ z : ℝ, (r1^2 - z^2) - (r2^2 - (z - d)^2) = (z0 - z) * (2 * d) := by
    intro z; rw [sub_mul, hz0d]; ring
  have eA : ∀ z ∈ Set.uIcc (-r1) (d - r2), lensProfile r1 r2 d z = 0 := by
    intro z hz
    rw [Set.uIcc_of_le (by linarith)] at hz
    unfold lensProfile
    apply max_eq_left
    apply (min_le_right _ _).trans
    nlinarith [hz.2]
  have eB : ∀ z ∈ Set.uIcc (d - r2) z0, lensProfile r1 r2 d z = r2^2 - (z - d)^2 := by
    intro z hz
    rw [Set.uIcc_of_le hz0lo] at hz
    unfold lensProfile
    rw [min_eq_right, max_eq_right]
    · nlinarith [mul_nonneg (by linarith [hz.1] : (0:ℝ) ≤ r2 + (z - d)) (by linarith [hz.2] : (0:ℝ) ≤ r2 - (z - d))]
    · have := key z
      have : 0 ≤ (z0 - z) * (2 * d) := mul_nonneg (by linarith [hz.2]) (by linarith)
      linarith
  have eC : ∀ z ∈ Set.uIcc z0 r1, lensProfile r1 r2 d z = r1^2 - z^2 := by
    intro z hz
    rw [Set.uIcc_of_le hz0hi] at hz
    unfold lensProfile
    rw [min_eq_left, max_eq_right]
    · nlinarith [mul_nonneg (by linarith [hz.1] : (0:ℝ) ≤ r1 + z) (by linarith [hz.2] : (0:ℝ) ≤ r1 - z)]
    · have := key z
      have : (z0 - z) * (2 * d) ≤ 0 := mul_nonpos_of_nonpos_of_nonneg (by linarith [hz.1]) (by linarith)
      linarith
  rw [← integral_add_adjacent_intervals (a := -r1) (b := d - r2) (c := r1) (hP.intervalIntegrable _ _)
      (hP.intervalIntegrable _ _),
    ← integral_add_adjacent_intervals (a := d - r2) (b := z0) (c := r1) (hP.intervalIntegrable _ _)
      (hP.intervalIntegrable _ _),
    integral_congr eA, integral_congr eB, integral_congr eC]
  simp only [integral_zero, zero_add]

/-- **two-sphere intersection, every configuration** -/
theorem lens_volume (r1 r2 d : ℝ) (h1 : 0 ≤ r1) (h2 : 0 ≤ r2) (hd0 : 0 ≤ d) :
    lensVolume Real.pi r1 r2 d = Real.pi * ∫ z in (-r1)..r1, lensProfile r1 r2 d z := by
  by_cases hA : r1 + r2 < d
  · exact lens_disjoint r1 r2 d h1 h2 hA
  · by_cases hB : d ≤ |r1 - r2|
    · exact lens_nested r1 r2 d h1 h2 hd0 hB
    · exact lens_proper r1 r2 d h1 h2 (not_le.mp hB) (not_lt.mp hA)

/-- the lens formula is symmetric in the two spheres -/
theorem lens_symm (r1 r2 d : ℝ) : lensVolume Real.pi r1 r2 d = lensVolume Real.pi r2 r1 d := by
  simp only [lensVolume, absK_eq, minK_eq, abs_sub_comm r2 r1, min_comm r2 r1, add_comm r2 r1]
  split_ifs <;> ring

/-! ### sphere ∩ frustum helpers -/

theorem frustum_volume' (r1 k zs : ℝ) :
    frustumVolume Real.pi r1 (r1 + k * zs) zs = Real.pi * ∫ z in (0:ℝ)..zs, (r1 + k * z)^2 := by
  simp only [lin_sq_quad, integral_quadratic, frustumVolume]
  ring

theorem narrow_inside (r1 k zs h : ℝ) (P : ℝ → ℝ) (hh : 0 ≤ h)
    (hlow : ∀ z, 0 ≤ z → z ≤ zs → P z = (r1 + k * z)^2) (hzh : h ≤ zs) :
    frustumVolume Real.pi r1 (r1 + k * h) h = Real.pi * ∫ z in (0:ℝ)..h, P z := by
  have e : ∀ z ∈ Set.uIcc (0:ℝ) h, P z = (r1 + k * z)^2 := by
    intro z hz
    rw [Set.uIcc_of_le hh] at hz
    exact hlow z hz.1 (hz.2.trans hzh)
  rw [integral_congr e, frustum_volume']

theorem narrow_split (r1 k zs b : ℝ) (P : ℝ → ℝ) (hP : Continuous P) (hzs0 : 0 ≤ zs) (hzb : zs ≤ b)
    (hlow : ∀ z, 0 ≤ z → z ≤ zs → P z = (r1 + k * z)^2)
    (hhigh : ∀ z, zs ≤ z → P z = r1^2 - z^2) :
    ∫ z in (0:ℝ)..b, P z = (∫ z in (0:ℝ)..zs, (r1 + k * z)^2) + ∫ z in zs..b, (r1^2 - z^2) := by
  have e1 : ∀ z ∈ Set.uIcc (0:ℝ) zs, P z = (r1 + k * z)^2 := by
    intro z hz
    rw [Set.uIcc_of_le hzs0] at hz
    exact hlow z hz.1 hz.2
  have e2 : ∀ z ∈ Set.uIcc zs b, P z = r1^2 - z^2 := by
    intro z hz
    rw [Set.uIcc_of_le hzb] at hz
    exact hhigh z hz.1
  rw [← integral_add_adjacent_intervals (b := zs) (hP.intervalIntegrable _ _) (hP.intervalIntegrable _ _),
    integral_congr e1, integral_congr e2]

theorem narrow_high (r1 k zs : ℝ) (P : ℝ → ℝ) (hP : Continuous P) (hzs0 : 0 ≤ zs) (hzs1 : zs ≤ r1)
    (hlow : ∀ z, 0 ≤ z → z ≤ zs → P z = (r1 + k * z)^2)
    (hhigh : ∀ z, zs ≤ z → P z = r1^2 - z^2) :
    capVolume Real.pi r1 (r1 - zs) + frustumVolume Real.pi r1 (r1 + k * zs) zs
      = Real.pi * ∫ z in (0:ℝ)..r1, P z := by
  rw [narrow_split r1 k zs r1 P hP hzs0 hzs1 hlow hhigh]
  simp only [lin_sq_quad, sq_sub_sq_quad, integral_quadratic, capVolume, frustumVolume]
  ring

theorem narrow_low (r1 k zs h : ℝ) (P : ℝ → ℝ) (hP : Continuous P) (hzs0 : 0 ≤ zs) (hzh : zs ≤ h)
    (hlow : ∀ z, 0 ≤ z → z ≤ zs → P z = (r1 + k * z)^2)
    (hhigh : ∀ z, zs ≤ z → P z = r1^2 - z^2) :
    capVolume Real.pi r1 (r1 - zs) + frustumVolume Real.pi r1 (r1 + k * zs) zs - capVolume Real.pi r1 (r1 - h)
      = Real.pi * ∫ z in (0:ℝ)..h, P z := by
  rw [narrow_split r1 k zs h P hP hzs0 hzh hlow hhigh]
  simp only [lin_sq_quad, sq_sub_sq_quad, integral_quadratic, capVolume, frustumVolume]
  ring

theorem sfProfile_continuous (r1 r2 h : ℝ) : Continuous (sfProfile r1 r2 h) := by
  unfold sfProfile; fun_prop

/-- geometry of the narrowing frustum: the lateral edge leaves the sphere at height `zs = t·h` -/
theorem sf_geom (r1 r2 h : ℝ) (hh : 0 < h) (hr : r2 < r1) (hr1 : 0 < r1) :
    0 < exitT r1 r2 h * h ∧ exitT r1 r2 h * h ≤ r1 ∧
    (∀ z, 0 ≤ z → z ≤ exitT r1 r2 h * h → sfProfile r1 r2 h z = (r1 + (r2 - r1) / h * z)^2) ∧
    (∀ z, exitT r1 r2 h * h ≤ z → sfProfile r1 r2 h z = r1^2 - z^2) ∧
    r1 + exitT r1 r2 h * (r2 - r1) = r1 + (r2 - r1) / h * (exitT r1 r2 h * h) := by
  have hD : 0 < h * h + (r1 - r2) * (r1 - r2) := by nlinarith [mul_self_nonneg (r1 - r2)]
  have ht : 0 < exitT r1 r2 h := by
    unfold exitT
    apply div_pos _ hD
    have : 0 < r1 - r2 := by linarith
    positivity
  set t := exitT r1 r2 h with htdef
  set k := (r2 - r1) / h with hkdef
  have hkh : k * h = r2 - r1 := by rw [hkdef]; field_simp
  have hk1 : 0 < k^2 + 1 := by positivity
  have hzs0 : 0 < t * h := mul_pos ht hh
  have hzs : (t * h) * (k^2 + 1) = -2 * r1 * k := by
    rw [htdef, hkdef]; unfold exitT; field_simp; ring
  have hzs1 : t * h ≤ r1 := by
    have : t * h * (k^2 + 1) ≤ r1 * (k^2 + 1) := by rw [hzs]; nlinarith [sq_nonneg (k + 1)]
    exact le_of_mul_le_mul_right this hk1
  have key : ∀ z : ℝ, (r1 + k * z)^2 - (r1^2 - z^2) = z * ((k^2 + 1) * z - (t * h) * (k^2 + 1)) := by
    intro z; rw [hzs]; ring
  refine ⟨hzs0, hzs1, ?_, ?_, ?_⟩
  · intro z hz0 hz1
    unfold sfProfile
    apply min_eq_right
    have h2 : z * ((k^2 + 1) * z - (t * h) * (k^2 + 1)) ≤ 0 := by
      apply mul_nonpos_of_nonneg_of_nonpos hz0
      nlinarith
    have := key z
    linarith
  · intro z hz
    unfold sfProfile
    apply min_eq_left
    have h2 : 0 ≤ z * ((k^2 + 1) * z - (t * h) * (k^2 + 1)) := by
      apply mul_nonneg (hzs0.le.trans hz)
      nlinarith
    have := key z
    linarith
  · rw [show k * (t * h) = t * (k * h) by ring, hkh]

/-- sphere ∩ frustum, frustum widening away from the sphere (`r2 ≥ r1`): hemisphere, or the
hemisphere minus the cap above the frustum's far end -/
theorem concentric_wide (eps r1 r2 h t h1 r3 : ℝ) (he : 0 ≤ eps) (hr1 : 0 < r1) (hr : r1 ≤ r2) (hh : 0 < h) :
    concentricCore Real.pi eps h r1 r2 t h1 r3 = Real.pi * ∫ z in (0:ℝ)..(min h r1), sfProfile r1 r2 h z := by
  have hc : r2 - r1 ≥ -eps := by linarith
  have hk : 0 ≤ (r2 - r1) / h := div_nonneg (by linarith) hh.le
  have hprof : ∀ b, 0 ≤ b → ∀ z ∈ Set.uIcc (0:ℝ) b, sfProfile r1 r2 h z = r1^2 - z^2 := by
    intro b hb z hz
    rw [Set.uIcc_of_le hb] at hz
    unfold sfProfile
    apply min_eq_left
    have : 0 ≤ (r2 - r1) / h * z := mul_nonneg hk hz.1
    nlinarith [sq_nonneg z]
  by_cases hhr : h ≥ r1
  · simp only [concentricCore, if_pos hc, if_pos hhr]
    rw [min_eq_right hhr, integral_congr (hprof r1 hr1.le)]
    simp only [sq_sub_sq_quad, integral_quadratic, capVolume]; ring
  · simp only [concentricCore, if_pos hc, if_neg hhr]
    rw [min_eq_left (not_le.mp hhr).le, integral_congr (hprof h hh.le)]
    simp only [sq_sub_sq_quad, integral_quadratic, capVolume]; ring

/-- sphere ∩ frustum, frustum narrowing (`r2 < r1 - eps`), outside the code's `eps` band for `t`:
the frustum lies inside the sphere (`t > 1`), or leaves it at height `t·h` (`t ≤ 1`) -/
theorem concentric_narrow (eps r1 r2 h : ℝ) (he : 0 ≤ eps) (hr2 : 0 ≤ r2) (hr : r2 < r1 - eps) (hh : 0 < h)
    (hband : ¬ (1 < exitT r1 r2 h ∧ exitT r1 r2 h ≤ 1 + eps)) :
    concentricCore Real.pi eps h r1 r2 (exitT r1 r2 h) (exitT r1 r2 h * h) (r1 + exitT r1 r2 h * (r2 - r1))
      = Real.pi * ∫ z in (0:ℝ)..(min h r1), sfProfile r1 r2 h z := by
  have hr1 : 0 < r1 := by linarith
  have hrr : r2 < r1 := by linarith
  have hc : ¬ (r2 - r1 ≥ -eps) := by intro h'; linarith
  obtain ⟨hzs0, hzs1, hlow, hhigh, hr3⟩ := sf_geom r1 r2 h hh hrr hr1
  have hP := sfProfile_continuous r1 r2 h
  have hkh : (r2 - r1) / h * h = r2 - r1 := by field_simp
  by_cases ht : exitT r1 r2 h > 1 + eps
  · -- frustum inside the sphere
    have ht1 : 1 < exitT r1 r2 h := by linarith
    have hzh : h < exitT r1 r2 h * h := by nlinarith
    have hhr : h < r1 := lt_of_lt_of_le hzh hzs1
    simp only [concentricCore, if_neg hc, if_pos ht]
    rw [min_eq_left hhr.le, ← narrow_inside r1 ((r2 - r1) / h) (exitT r1 r2 h * h) h _ hh.le hlow hzh.le,
      hkh]
    congr 1; ring
  · have ht1 : exitT r1 r2 h ≤ 1 := by
      by_contra h'
      exact hband ⟨not_le.mp h', not_lt.mp ht⟩
    have hzh : exitT r1 r2 h * h ≤ h := by nlinarith
    by_cases hhr : h ≥ r1
    · simp only [concentricCore, if_neg hc, if_neg ht, if_pos hhr]
      rw [min_eq_right hhr, hr3]
      exact narrow_high r1 _ _ _ hP hzs0.le hzs1 hlow hhigh
    · simp only [concentricCore, if_neg hc, if_neg ht, if_neg hhr]
      rw [min_eq_left (not_le.mp hhr).le, hr3]
      exact narrow_low r1 _ _ h _ hP hzs0.le hzh hlow hhigh

/-- **sphere ∩ frustum, every configuration outside the two `eps` bands** of the code
(`-eps ≤ r2 - r1 < 0` and `1 < t ≤ 1 + eps`, where the code deliberately rounds to the neighbouring case) -/
theorem concentric_volume (eps r1 r2 h : ℝ) (he : 0 ≤ eps) (hr1 : 0 < r1) (hr2 : 0 ≤ r2) (hh : 0 < h)
    (hband1 : ¬ (-eps ≤ r2 - r1 ∧ r2 < r1))
    (hband2 : ¬ (1 < exitT r1 r2 h ∧ exitT r1 r2 h ≤ 1 + eps)) :
    concentricCore Real.pi eps h r1 r2 (exitT r1 r2 h) (exitT r1 r2 h * h) (r1 + exitT r1 r2 h * (r2 - r1))
      = Real.pi * ∫ z in (0:ℝ)..(min h r1), sfProfile r1 r2 h z := by
  by_cases hr : r1 ≤ r2
  · exact concentric_wide eps r1 r2 h _ _ _ he hr1 hr hh
  · have hrr : r2 < r1 := not_le.mp hr
    have : r2 < r1 - eps := by
      by_contra h'
      exact hband1 ⟨by linarith, hrr⟩
    exact concentric_narrow eps r1 r2 h he hr2 this hh hband2

/-- the exit point really is where the lateral edge meets the sphere: at parameter `t` the edge point
`(r1 + t (r2 - r1), t h)` has distance `r1` from the centre -/
theorem exitT_on_sphere (r1 r2 h : ℝ) (hh : 0 < h) :
    (r1 + exitT r1 r2 h * (r2 - r1))^2 + (exitT r1 r2 h * h)^2 = r1^2 := by
  have hD : 0 < h * h + (r1 - r2) * (r1 - r2) := by nlinarith [mul_self_nonneg (r1 - r2)]
  unfold exitT
  field_simp
  ring

/-- unions by inclusion–exclusion over any finitely additive set function -/
theorem union_volume {α : Type} (m : Set α → ℝ) (hm : Additive.FinAdd m) (A B : Set α) :
    m (A ∪ B) = unionFromParts (m A) (m B) (m (A ∩ B)) ∧ m (A ∪ B) = sfUnionFromParts (m A) (m B) (m (A ∩ B)) := by
  exact ⟨hm.union_inter A B, hm.union_inter A B⟩

-- non-vacuity: hypotheses are satisfiable at concrete non-trivial configurations
example : (0:ℝ) ≤ 2 ∧ (0:ℝ) ≤ 1 ∧ |(2:ℝ) - 1| < 2 ∧ (2:ℝ) ≤ 2 + 1 := by norm_num [abs_of_pos]
example : ¬ (-(1e-6 : ℝ) ≤ 1 - 2 ∧ (1:ℝ) < 2) := by norm_num

end
end C13
