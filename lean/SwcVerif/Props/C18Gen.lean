import SwcVerif.Props.C18
import SwcVerif.Refine.Dsu
import SwcVerif.Refine.Checkers
import SwcVerif.Refine.Normalizer
/-! # C18, tied to the source by the translator

`Gen.Algo.dsu_*` are regenerated from `swcgeom/utils/dsu.py` on every run (`harness/translate_algo.py`).
`RefineDsu.script_refines_init` shows that they compute what the model `Dsu` computes on every script; composed
with `C18.dsu_refines_partition` this states the property about the code as translated. -/
namespace C18
open Dsu RefineDsu Gen.Algo AlgoRun

theorem runOps_append_same (n : Nat) (a b : Nat) (ha : a < n) (hb : b < n) :
    ∀ (ops : List Op) (d : D), d.n = n → (∀ op ∈ ops, ValidOp n op) →
      (runOps d (ops ++ [Op.same a b])).getLast? =
        some (some (same (ops.foldl (fun d op => match stepOp d op with
          | some (d', _) => d'
          | none => d) d) a b).1) := by
  intro ops
  induction ops with
  | nil => intro d hn _; simp [runOps, stepOp, valid, hn, ha, hb]
  | cons op t ih =>
    intro d hn hv
    have hvt : ∀ op ∈ t, ValidOp n op := fun o ho => hv o (List.mem_cons_of_mem _ ho)
    have hop := hv op List.mem_cons_self
    cases op with
    | union x y =>
      obtain ⟨hx, hy⟩ := hop
      have hn' : (union d x y).n = n := by rw [(union_b_le d x y).2, hn]
      have := ih (union d x y) hn' hvt
      simpa [runOps, stepOp, valid, hn, hx, hy] using this
    | same x y =>
      obtain ⟨hx, hy⟩ := hop
      have hn' : (same d x y).2.n = n := by simp [same, hn]
      have := ih (same d x y).2 hn' hvt
      have hne : runOps (same d x y).2 (t ++ [Op.same a b]) ≠ [] := by
        intro c; rw [c] at this; simp at this
      have e : runOps d (Op.same x y :: t ++ [Op.same a b]) =
          some (same d x y).1 :: runOps (same d x y).2 (t ++ [.same a b]) := by
        simp [runOps, stepOp, valid, hn, hx, hy]
      rw [e, List.getLast?_cons_of_ne_nil hne, this]
      simp [stepOp, valid, hn, hx, hy]

/-- **The code of `dsu.py`, as translated on this run, tells the truth for every history**: build the object with
the generated constructor, run any script of valid unions and queries with the generated methods, then ask
`is_same_set(a, b)`: the answer is `True` exactly when some sequence of the unions performed connects `a` and `b`
(and no call raised). -/
theorem generated_dsu_refines_partition (n : Nat) (ops : List Op) (hv : ∀ op ∈ ops, ValidOp n op) (a b : Nat)
    (ha : a < n) (hb : b < n) (g0 : DisjointSetUnion) :
    ∃ g, dsu_init g0 (n : Int) = some (g, ()) ∧
      ∃ ans, (genRun ((ops ++ [Op.same a b]).length + 1) g (ops ++ [Op.same a b])).getLast? = some (some ans) ∧
        (ans = true ↔ Conn (unions ops) a b) := by
  obtain ⟨g, e, r⟩ := script_refines_init n (ops ++ [Op.same a b]) g0
  refine ⟨g, e, (same (stateAfter n ops) a b).1, ?_, dsu_refines_partition n ops hv a b ha hb⟩
  rw [r]
  exact runOps_append_same n a b ha hb ops (init n) rfl hv

/-- non-vacuity: the generated code on a concrete script (kernel-evaluated) -/
example : (do
    let (g, _) ← dsu_init default 5
    pure (genRun 8 g [.union 0 1, .union 3 4, .same 0 1, .same 1 3, .union 1 3, .same 0 4, .same 2 4, .same 7 0])) =
    some [some true, some false, some true, some false, none] := by decide +kernel

/-! ## pointer jumping (`base.get_dsu`), as translated -/

/-- the translated `get_dsu` equals the model on every table with distinct ids, with the model's own pass budget -/
theorem generated_getDsu_eq_model (ids pids : List Int) (hnd : ids.Nodup) (hl : ids.length = pids.length) :
    get_dsu (ids.length * ids.length + 2) ids pids = (getDsu ids pids).map RefineCheckers.castL := by
  rw [RefineCheckers.getDsu_refines ids pids hnd hl]
  rfl

theorem range_nodup (n : Nat) : ((List.range n).map Int.ofNat).Nodup := by
  rw [List.nodup_map_iff (fun a b h => Int.ofNat.inj h)]
  exact List.nodup_range

/-- **The translated `get_dsu` terminates on EVERY table whose parents name rows (forests and tables with cycles
alike), within the modelled pass budget, and labels two rows equally exactly when they are weakly connected** -/
theorem generated_getDsu_total (pids : List Int)
    (hv : ∀ k (h : k < pids.length), pids[k] = -1 ∨ (0 ≤ pids[k] ∧ pids[k] < pids.length)) :
    ∃ l : List Nat, get_dsu (pids.length * pids.length + 2) ((List.range pids.length).map Int.ofNat) pids
        = some (RefineCheckers.castL l) ∧ l.length = pids.length ∧
      ∀ a b, a < pids.length → b < pids.length → (l.getD a 0 = l.getD b 0 ↔ WConn pids.length (ptr pids) a b) := by
  obtain ⟨l, hget, hlen, hlab⟩ := getDsu_total pids hv
  refine ⟨l, ?_, hlen, hlab⟩
  have := generated_getDsu_eq_model ((List.range pids.length).map Int.ofNat) pids (range_nodup _) (by simp)
  simp only [List.length_map, List.length_range] at this
  rw [this, hget]
  rfl

/-! ## `has_cyclic`, as translated -/

/-- the translated `has_cyclic` equals the model on every valid table, hence (by `hasCyclic_spec`) answers `True` exactly when
some row joins two nodes that the earlier rows already connect, and always answers -/
theorem generated_hasCyclic_spec (ids pids : List Int) (hv : ValidTable ids pids) (F : Nat) :
    has_cyclic (ids.length + 1 + F) (ids, pids) = hasCyclic ids pids ∧
    (has_cyclic (ids.length + 1 + F) (ids, pids) = some true ↔
      ∃ k, ∃ h1 : k < ids.length, ∃ h2 : k < pids.length, pids[k] ≠ -1 ∧
        Conn (rowEdges (ids.take k) (pids.take k)) ids[k].toNat pids[k].toNat) ∧
    (has_cyclic (ids.length + 1 + F) (ids, pids) = some true ∨ has_cyclic (ids.length + 1 + F) (ids, pids) = some false) := by
  have e := RefineCheckers.hasCyclic_refines ids pids hv.1 hv.2.1 hv.2.2 F
  have h := hasCyclic_spec ids pids hv
  rw [e]
  exact ⟨rfl, h.1, h.2⟩

example : has_cyclic 9 ([0, 1, 2, 3], [-1, 0, 3, 2]) = some true ∧ has_cyclic 9 ([0, 1, 2, 3], [-1, 0, 1, 1]) = some false := by
  decide +kernel

/-! ## root repair and re-basing, as translated -/

/-- the translated `mark_roots_as_somas_` returns the model's columns on every table with a root; by `repair_somas` the result
is a single-rooted table that keeps the first root and every original edge -/
theorem generated_markRoots_eq_model (ids pids types : List Int) (ut : Option Int) (h1 : ids.length = pids.length)
    (hr : (-1 : Int) ∈ pids) :
    mark_roots_as_somas_ ids pids types ut =
      some ((markRootsAsSomas ids pids types ut).1, (markRootsAsSomas ids pids types ut).2, ()) :=
  RefineNorm.markRoots_refines ids pids types ut h1 hr

/-- the translated `reset_index_`: every id shifted by the first root's id; every parent too — **except the `-1` of every root**
(the clause D04 violated) -/
theorem generated_resetIndex (ids pids : List Int) (h1 : ids.length = pids.length) (hr : (-1 : Int) ∈ pids) :
    reset_index_ ids pids =
      some (ids.map (fun i => i - ids.getD (firstRootLoc pids) 0),
            pids.map (fun p => if p = -1 then -1 else p - ids.getD (firstRootLoc pids) 0), ()) :=
  RefineNorm.resetIndex_refines ids pids h1 hr

example : reset_index_ [5, 6, 7, 9] [-1, 5, -1, 7] = some ([0, 1, 2, 4], [-1, 0, -1, 2], ()) := by decide +kernel

/-! ## `is_bifurcate`, as translated -/

/-- the translated `is_bifurcate` equals the model on every table with equally long columns -/
theorem generated_isBifurcate_eq_model (ids pids : List Int) (hl : ids.length = pids.length) (excl : Bool) :
    is_bifurcate (ids, pids) excl = some (isBifurcate ids pids excl) :=
  RefineCheckers.isBifurcate_refines ids pids hl excl

example : is_bifurcate ([0, 1, 2, 3, 4], [-1, 0, 0, 0, 1]) true = some true ∧
          is_bifurcate ([0, 1, 2, 3, 4], [-1, 0, 0, 0, 1]) false = some false ∧
          is_bifurcate ([0, 1, 2, 3, 4, 5], [-1, 0, 1, 1, 1, 0]) true = some false := by decide +kernel

/-- non-vacuity: the translated `get_dsu` on a table with a cycle and a separate tree (kernel-evaluated) -/
example : get_dsu 40 [0, 1, 2, 3, 4, 5] [1, 2, 0, -1, 3, 3] = some [0, 0, 0, 3, 3, 3] ∨
          get_dsu 40 [0, 1, 2, 3, 4, 5] [1, 2, 0, -1, 3, 3] = some [1, 1, 1, 3, 3, 3] ∨
          get_dsu 40 [0, 1, 2, 3, 4, 5] [1, 2, 0, -1, 3, 3] = some [2, 2, 2, 3, 3, 3] := by decide +kernel

end C18
