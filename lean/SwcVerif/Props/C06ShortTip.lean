import SwcVerif.Refine.ShortTip
/-! # C06, tied to the source by the translator: `CutShortTipBranch`

`Gen/AlgoShortTip.lean` is regenerated on every run from `swcgeom/transforms/tree.py::CutShortTipBranch`: `_leave` (the per-node
`(length, node)` bookkeeping returned up the traversal, the threshold test `dis + n.distance(child) > self.thre`, the `while` walk down the
first children that builds the reported `Tree.Branch`, the loop over the CALLBACK LIST `self.callbacks`), the `lambda br:
removals.append(br[1].id)` that `__call__` appends to that list, and `__call__` itself (the callback list extended by the closure for the
duration of the traversal, `x.traverse(leave=self._leave)` through the generated traversal, the generated `to_subtree`).

What the source does (stated by the theorems below through `Sub.cutShortTip` / `C06.tipRemoved` / `RefineShortTip.tipBranches`):
* a tip returns `(0, tip)`; a node with exactly ONE child whose value is not `None` adds the edge length and passes the chain up;
* every other node — a furcation, or a node whose only child returned `None` — examines each child value that is not `None`: a child whose
  unbranched chain down to a tip, measured from THIS node, is not longer than the threshold is reported (the callbacks are called with the
  branch `[this node, child, …, tip]`; the recording lambda appends the child's id to `removals`), and the node itself returns `None`;
* hence NO CASCADE: a furcation never passes a chain up, so a furcation all of whose short children were removed stays in the result (as a
  tip, or as a continuation) even when the chain through it is short — see the kernel-evaluated example below. -/
namespace C06
open Sub Gen.Algo Trav RefineShortTip

/-- **the translated `CutShortTipBranch.__call__` equals the model `Sub.cutShortTip`** on every tree table, for every threshold, edge-length
function and list of stateful user callbacks; the final callback state is the callbacks folded, in list order, over the reported branches -/
theorem generated_cutShortTip_eq_model {σ : Type} [Inhabited σ] (pids : List Int) (r : Rose) (h : IsTree r pids) (elen : Int → Int) (thre : Int)
    (ucbs : List (σ → List Int → σ)) (s0 : σ) (F : Nat) :
    cut_short_tip (tot ucbs) (fun _ c => elen c) (2 * r.size + F + 1) (rangeI pids.length) pids thre s0 =
      (cutShortTip pids elen thre).map (fun t =>
        ((tipBranches elen thre r).foldl (callUser ucbs) s0, ((Py.range (t.mapping.length : Int), t.newPid), t.mapping))) :=
  cutShortTip_refines pids r h elen thre ucbs s0 F

/-- … hence the translated `__call__` removes precisely `tipRemoved` (the children of a furcation whose hanging chain reaches a tip without
another furcation and is, measured from the furcation, not longer than the threshold) and what lies below them
(`cutShortTip_removed` transported to the generated code) -/
theorem generated_cutShortTip_removed {σ : Type} [Inhabited σ] (pids : List Int) (r : Rose) (h : IsTree r pids) (elen : Int → Int) (thre : Int)
    (ucbs : List (σ → List Int → σ)) (s0 : σ) (F : Nat) :
    (cut_short_tip (tot ucbs) (fun _ c => elen c) (2 * r.size + F + 1) (rangeI pids.length) pids thre s0).map (·.2) =
      (toSubtree pids (tipRemoved elen thre r)).map (fun t => ((Py.range (t.mapping.length : Int), t.newPid), t.mapping)) := by
  rw [generated_cutShortTip_eq_model pids r h elen thre ucbs s0 F, cutShortTip_removed pids r h]
  cases toSubtree pids (tipRemoved elen thre r) <;> rfl

/-- **callbacks are called once per removed branch**: the removal seeds are exactly the second nodes of the branches the callbacks were
called with, in the same order -/
theorem generated_cutShortTip_calls (elen : Int → Int) (thre : Int) (r : Rose) :
    tipRemoved elen thre r = (tipBranches elen thre r).map (fun b => b.getD 1 0) :=
  tipRemoved_eq elen thre r

/-- the translated `_leave` at one node of a tree object, given the values of the children's subtrees: the value of the node's subtree,
and one call of the callback list per short terminal chain hanging from the node -/
theorem generated_tipLeave_node {σ : Type} [Inhabited σ] (ucbs : List (σ → List Int → σ)) (N : Nat) (pids : List Int) (elen : Int → Int) (thre : Int)
    (i : Int) (G : Nat) (ks : List Rose) (c : σ)
    (hA : Agrees (tableKids (rangeI N) pids) (.node i ks)) (hin : ∀ j ∈ (Rose.node i ks).ids, 0 ≤ j ∧ j < (N : Int))
    (hs : (Rose.node i ks).size ≤ G) :
    tip_leave (tot ucbs) (fun _ c => elen c) G (rangeI N) pids thre i (ks.map (val elen)) c
      = some ((if ks.length ≥ 2 then ks.filterMap (brOf elen thre i) else []).foldl (callUser ucbs) c, val elen (.node i ks)) := by
  have hcb : CbOk (tot ucbs) (callUser ucbs) (fun _ => True) N := by
    intro s a x rest _ _ _
    refine ⟨?_, trivial⟩
    have : ∀ (l : List (σ → List Int → σ)) (s : σ) (br : List Int), Py.callAll (tot l) s br = some (callUser l s br) := by
      intro l
      induction l with
      | nil => intro s br; rfl
      | cons cb l ih => intro s br; simpa [tot, Py.callAll, callUser] using ih (cb s br) br
    exact this ucbs s _
  exact (tipLeave_node (tot ucbs) (callUser ucbs) (fun _ => True) N pids elen thre hcb i G ks c hA hin hs trivial).1

/-! non-vacuity (kernel-evaluated, on `exPids = [-1, 0, 1, 1, 0]`, edge lengths `[0, 1, 1, 5, 1]`): the generated definitions run; the user
callback records the branches it is called with -/
def exElen : Int → Int := fun c => [0, 1, 1, 5, 1].getD c.toNat 0
def exRec : List (List (List Int) → List Int → List (List Int)) := [fun s br => s ++ [br]]
example : cut_short_tip (tot exRec) (fun _ c => exElen c) 11 (rangeI 5) exPids 2 []
    = some ([[1, 2], [0, 4]], (([0, 1, 2], [-1, 0, 1]), [0, 1, 3])) := by decide +kernel
example : tipBranches exElen 2 exRose = [[1, 2], [0, 4]] := by decide +kernel
example : tipRemoved exElen 2 exRose = [2, 4] := by decide +kernel
-- no callback at all (what `__init__` leaves without `callback=`)
example : cut_short_tip (σ := Unit) [] (fun _ c => exElen c) 11 (rangeI 5) exPids 2 ()
    = some ((), (([0, 1, 2], [-1, 0, 1]), [0, 1, 3])) := by decide +kernel
-- NO CASCADE: all edges of length 1, threshold 1: both children of node 1 and node 4 are removed; node 1 stays, although it is now a tip
-- hanging from the furcation 0 by an edge of length 1
example : cut_short_tip (tot exRec) (fun _ _ => (1 : Int)) 11 (rangeI 5) exPids 1 []
    = some ([[1, 2], [1, 3], [0, 4]], (([0, 1], [-1, 0]), [0, 1])) := by decide +kernel
-- `_leave` at the furcation 1 of the example, given its children's values
example : tip_leave (tot exRec) (fun _ c => exElen c) 11 (rangeI 5) exPids 2 1 [some (0, 2), some (0, 3)] []
    = some ([[1, 2]], none) := by decide +kernel
-- a handle outside the table raises (outside the theorems' domain)
example : tip_leave (tot exRec) (fun _ c => exElen c) 11 (rangeI 5) exPids 2 1 [some (0, 9), some (0, 3)] [] = none := by decide +kernel

/-! ## `to_subtree_impl` (tree_utils_impl.py): the gather of every column by the kept rows

The tree and the returned `ndata` dictionary are their column variables (`id`, `pid`, `type` and `x`, the latter over a type parameter standing
for every further attribute column: the comprehension `{k: swc_like.get_ndata(k)[mapping].copy() for k in swc_like.keys()}` is translated
column by column); `source` / `names` are opaque values; `out_mapping` is a list. -/

/-- the translated `to_subtree_impl` on a marked topology over a tree with `N` rows: the model's compaction (`KeyError` exactly when the model
fails), ids `0..k−1`, the model's parents, every further column gathered at the kept rows in order, `out_mapping` = the mapping, `source` /
`names` handed on, input columns unchanged -/
theorem generated_toSubtreeImpl_eq_model {A Src Nm : Type} [Inhabited A] [Inhabited Src] [Inhabited Nm]
    (N : Nat) (ids pids types : List Int) (xs : List A) (src : Src) (nm : Nm) (subId subPid out0 : List Int)
    (h1 : ids.length = N) (h2 : pids.length = N) (h3 : types.length = N) (h4 : xs.length = N)
    (hl : subId.length = subPid.length)
    (hnd : (((List.zip subId subPid).filter (fun ip => !decide (ip.1 = -2))).map (·.1)).Nodup)
    (hin : ∀ i ∈ subId, i ≠ REMOVAL → 0 ≤ i ∧ i.toNat < N) :
    to_subtree_impl ids pids types xs src nm (subId, subPid) out0 =
      (toSubTopology subId subPid).map fun r =>
        (r.mapping, ids, pids, types, xs,
          ((r.mapping.length : Int), (Py.range (r.mapping.length : Int), r.newPid, takeRows types r.mapping, takeRows xs r.mapping), src, nm)) :=
  toSubtreeImpl_refines N ids pids types xs src nm subId subPid out0 h1 h2 h3 h4 hl hnd hin


-- non-vacuity: row 2 (marked) is dropped; `out_mapping` [7, 7] is cleared first; a kept row whose parent was dropped raises (KeyError)
def exImpl := to_subtree_impl (A := String) (rangeI 5) exPids [1, 3, 2, 3, 3] ["a", "b", "c", "d", "e"] "file.swc" (0 : Nat) ([0, 1, -2, 3, 4], exPids) [7, 7]
example : exImpl.map (fun r => (r.1, r.2.2.2.2.2.1)) = some ([0, 1, 3, 4], 4) := by decide +kernel
example : exImpl.map (fun r => r.2.2.2.2.2.2.1) = some ([0, 1, 2, 3], [-1, 0, 1, 0], [1, 3, 3, 3], ["a", "b", "d", "e"]) := by decide +kernel
example : exImpl.map (fun r => (r.2.1, r.2.2.1, r.2.2.2.1, r.2.2.2.2.1)) = some (rangeI 5, exPids, [1, 3, 2, 3, 3], ["a", "b", "c", "d", "e"]) := by
  decide +kernel
example : exImpl.map (fun r => r.2.2.2.2.2.2.2) = some ("file.swc", 0) := by decide +kernel
example : to_subtree_impl (A := String) (rangeI 5) exPids [1, 3, 2, 3, 3] ["a", "b", "c", "d", "e"] "file.swc" (0 : Nat) ([0, -2, 2, 3, 4], exPids) [] = none := by
  decide +kernel

/-! ## `to_subtree`, `get_subtree_impl` / `get_subtree`, `to_sub_tree` on ALL columns (they call the translated `to_subtree_impl`) -/

/-- the translated `to_subtree` over all columns equals the model `toSubtree` + the gather of every column; inputs unchanged -/
theorem generated_toSubtreeTree_eq_model {A Src Nm : Type} [Inhabited A] [Inhabited Src] [Inhabited Nm]
    (pids types : List Int) (xs : List A) (src : Src) (nm : Nm) (r : Rose) (h : IsTree r pids) (rm : List Int)
    (hrm : ∀ i ∈ rm, 0 ≤ i ∧ i.toNat < pids.length) (h3 : types.length = pids.length) (h4 : xs.length = pids.length) (out0 : List Int) (F : Nat) :
    to_subtree_tree (2 * r.size + F + 1) (rangeI pids.length) pids types xs src nm rm out0 =
      (toSubtree pids rm).map fun t =>
        (t.mapping, rangeI pids.length, pids, types, xs,
          ((t.mapping.length : Int), (Py.range (t.mapping.length : Int), t.newPid, takeRows types t.mapping, takeRows xs t.mapping), src, nm)) :=
  toSubtreeTree_refines pids types xs src nm r h rm hrm h3 h4 out0 F

/-- the translated `get_subtree` over all columns equals the model `getSubtree` + the gather of every column; inputs unchanged -/
theorem generated_getSubtreeTree_eq_model {A Src Nm : Type} [Inhabited A] [Inhabited Src] [Inhabited Nm]
    (pids types : List Int) (xs : List A) (src : Src) (nm : Nm) (s : Rose)
    (h : Represents s (rangeI pids.length) pids) (hin : ∀ i ∈ s.ids, 0 ≤ i ∧ i.toNat < pids.length)
    (h3 : types.length = pids.length) (h4 : xs.length = pids.length) (out0 : List Int) (F : Nat) :
    get_subtree_tree (2 * s.size + F + 1) (rangeI pids.length) pids types xs src nm s.id out0 =
      (getSubtree pids s.id).map fun r =>
        (r.mapping, rangeI pids.length, pids, types, xs,
          ((r.mapping.length : Int), (Py.range (r.mapping.length : Int), r.newPid, takeRows types r.mapping, takeRows xs r.mapping), src, nm)) :=
  getSubtreeTree_refines pids types xs src nm s h hin h3 h4 out0 F

/-- the translated deprecated wrapper `to_sub_tree` equals the model `toSubtree` + the gather + the old→new dictionary -/
theorem generated_toSubTree_eq_model {A Src Nm : Type} [Inhabited A] [Inhabited Src] [Inhabited Nm]
    (pids types : List Int) (xs : List A) (src : Src) (nm : Nm) (r : Rose) (h : IsTree r pids) (rm l : List Int)
    (hrm : ∀ i ∈ rm, 0 ≤ i ∧ i.toNat < pids.length) (hl : RefineCut.markAll (rangeI pids.length) rm = some l)
    (h3 : types.length = pids.length) (h4 : xs.length = pids.length) (F : Nat) :
    to_sub_tree (2 * r.size + F + 1) (rangeI pids.length) pids types xs src nm (l, pids) =
      (toSubtree pids rm).map fun t =>
        (rangeI pids.length, pids, types, xs,
          (((t.mapping.length : Int), (Py.range (t.mapping.length : Int), t.newPid, takeRows types t.mapping, takeRows xs t.mapping), src, nm),
           idMapOf t.mapping)) :=
  toSubTree_refines pids types xs src nm r h rm l hrm hl h3 h4 F

-- non-vacuity (exPids = [-1, 0, 1, 1, 0]): remove node 1 (and its descendants 2, 3); subtree at node 1; the deprecated wrapper on marks [0,-2,2,3,4]
def exCols : List String := ["a", "b", "c", "d", "e"]
example : (to_subtree_tree (A := String) 11 (rangeI 5) exPids [1, 3, 2, 3, 3] exCols "f" (0 : Nat) [1] [9]).map (fun r => (r.1, r.2.2.2.2.2.2.1))
    = some ([0, 4], ([0, 1], [-1, 0], [1, 3], ["a", "e"])) := by decide +kernel
example : (get_subtree_tree (A := String) 11 (rangeI 5) exPids [1, 3, 2, 3, 3] exCols "f" (0 : Nat) 1 [9]).map (fun r => (r.1, r.2.2.2.2.2.2.1))
    = some ([1, 3, 2], ([0, 1, 2], [-1, 0, 0], [3, 3, 2], ["b", "d", "c"])) := by decide +kernel
example : (to_sub_tree (A := String) 11 (rangeI 5) exPids [1, 3, 2, 3, 3] exCols "f" (0 : Nat) ([0, -2, 2, 3, 4], exPids)).map (fun r => (r.2.2.2.2.1.2.1, r.2.2.2.2.2))
    = some (([0, 1], [-1, 0], [1, 3], ["a", "e"]), [(0, 0), (4, 1)]) := by decide +kernel

end C06
