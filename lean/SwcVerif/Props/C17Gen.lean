import SwcVerif.Props.C17
import SwcVerif.Refine.Mst
/-! # C17, tied to the source by the translator

`Gen.Algo.mst_loop` is regenerated on every run from the greedy loop of `swcgeom/transforms/mst.py::PointsToCuntzMST.__call__`
(`pid = np.full(n, fill_value=-1)` … end of `for _ in range(n - 1)`), with float arrays as arrays over a numeric type parameter (here
`Rat`). `RefineMst.mst_loop_refines` proves it equal to the model `Mst.run … (Mst.init n)` the C17 theorems speak about, for every
`n > 0`, every `n × n` matrix, every `bf`, `furcations`, `exclude_soma`; the theorems below carry `C17.spanning`,
`C17.branching_limit`, `C17.greedy_step`, `C17.prim_minimal` and `C17.prim_attains` over to the generated definition.

`self.furcations = k` is the model's limit `RefineMst.limitOf k` (`-1` = none, otherwise `max k 0`); the C17 theorems need the limit
to be at least 1 (`k = -1 ∨ 1 ≤ k`: with limit 0 every point is closed after… before it could take a child, and numpy's all-masked
`argmin` then returns cell `(0, 0)`). -/
namespace C17
open Mst Gen.Algo RefineMst

/-- what the generated loop returns when it leaves the model state `s` behind: `(pid, acc, furcations, conn, mask, None)` -/
def outOf (s : St) : List Int × List Rat × List Int × List Bool × List (List Bool) × Unit :=
  (s.pid, s.acc, s.furc.map (fun (x : Nat) => (x : Int)), s.conn, s.mask, ())

/-- **the generated greedy loop equals the model** (restatement of `RefineMst.mst_loop_refines`) -/
theorem generated_mst_eq_model (n : Nat) (hn : 0 < n) (dis : List (List Rat)) (hd : SquareQ n dis) (bf : Rat) (k : Int) (ex : Bool) :
    mst_loop (K := Rat) (n : Int) dis bf k ex = some (outOf (run dis bf (limitOf k) ex n (n - 1) (init n))) :=
  mst_loop_refines n hn dis hd bf k ex

/-- … and without points it raises, as the source does -/
theorem generated_mst_raises (n : Int) (hn : n ≤ 0) (dis : List (List Rat)) (bf : Rat) (k : Int) (ex : Bool) :
    mst_loop (K := Rat) n dis bf k ex = none :=
  mst_loop_raises n hn dis bf k ex

theorem limitOf_pos (k : Int) (hk : k = -1 ∨ 1 ≤ k) : ∀ k', limitOf k = some k' → 1 ≤ k' := by
  intro k' h
  unfold limitOf at h
  rcases hk with rfl | hk
  · simp at h
  · have : k ≠ -1 := by omega
    simp [this] at h
    omega

/-- **a single tree containing every point exactly once, rooted at the first point** — for the generated loop: it returns (never
raises), every point is connected, point 0 has no parent, every other point has exactly one parent below `n`, and following parents
from any point reaches point 0 -/
theorem generated_spanning (n : Nat) (hn : 0 < n) (dis : List (List Rat)) (hd : SquareQ n dis) (bf : Rat) (k : Int) (ex : Bool)
    (hk : k = -1 ∨ 1 ≤ k) :
    ∃ s, mst_loop (K := Rat) (n : Int) dis bf k ex = some (outOf s) ∧
      Inv dis n (limitOf k) ex s ∧ (∀ j, j < n → Conn s j) ∧
      s.pid.getD 0 0 = -1 ∧ (∀ j, j < n → j ≠ 0 → ∃ i, i < n ∧ s.pid.getD j 0 = (i : Int)) ∧
      (∀ j, j < n → ∃ d, d ≤ n ∧ up s d j = 0) :=
  ⟨_, generated_mst_eq_model n hn dis hd bf k ex, spanning dis bf n hn (limitOf k) ex (limitOf_pos k hk)⟩

/-- **with a branching limit `k ≥ 1` no point other than the (optionally exempt) root gets more than `k` children** — for the
generated loop -/
theorem generated_branching_limit (n : Nat) (hn : 0 < n) (dis : List (List Rat)) (hd : SquareQ n dis) (bf : Rat) (k : Nat)
    (hk : 1 ≤ k) (ex : Bool) (i : Nat) (hi : i < n) (hex : ex = false ∨ i ≠ 0) :
    ∃ s, mst_loop (K := Rat) (n : Int) dis bf (k : Int) ex = some (outOf s) ∧ children s i ≤ k := by
  refine ⟨_, generated_mst_eq_model n hn dis hd bf k ex, ?_⟩
  have e : limitOf (k : Int) = some k := by
    have : (k : Int) ≠ -1 := by omega
    simp [limitOf, this]
  rw [e]
  exact branching_limit dis bf n hn k hk ex i hi hex

/-- **each new point is attached to the connected, unsaturated point that minimises edge length plus `bf` × that point's path
length** — for the generated loop body (`mst_loop.for1`, one iteration of `for _ in range(n - 1)`): started in the variables
representing a state `s` that satisfies the loop invariant with a point still unconnected, it falls through into the variables
representing `stepAt … s i j` (= `Mst.step`) where `(i, j)` is an open cell (connected unsaturated source, unconnected target) and no
open cell is cheaper (ties: the first in row-major order, `Py.maArgmin_spec`) -/
theorem generated_greedy_step (n : Nat) (hn : 0 < n) (dis : List (List Rat)) (hd : SquareQ n dis) (bf : Rat) (k : Int) (ex : Bool)
    (hk : k = -1 ∨ 1 ≤ k) (s : St) (hinv : Inv dis n (limitOf k) ex s) (hmore : nconn s < n) (hpos : 0 < nconn s)
    (x : Int) (c : Py.Masked2 Rat) (i0 j0 u : Int) :
    ∃ i j c' i' j', mst_loop.for1 x (toV n dis bf k ex s c i0 j0 u) =
        .next (toV n dis bf k ex (stepAt dis (limitOf k) ex n s i j) c' i' j' x) ∧
      step dis bf (limitOf k) ex n s = stepAt dis (limitOf k) ex n s i j ∧
      i < n ∧ j < n ∧ Open s i j ∧
      ∀ a b, a < n → b < n → Open s a b → cellCost dis bf s i j ≤ cellCost dis bf s a b := by
  have hs : Shape n s := by
    obtain ⟨h1, h2, h3, h4, h5, h6⟩ := hinv.len
    exact ⟨h1, h2, h3, h4, h5, h6⟩
  obtain ⟨c', i', j', e⟩ := for1_step n hn dis hd bf k ex x s hs c i0 j0 u
  obtain ⟨g1, g2, g3, g4⟩ := greedy_step dis bf n (limitOf k) ex s hinv (limitOf_pos k hk) hmore hpos
  exact ⟨_, _, c', i', j', by rw [← step_eq]; exact e, step_eq _ _ _ _ _ _, g1, g2, g3, g4⟩

/-- **without a balancing factor and without a branching limit the tree is a minimum spanning tree** — for the generated loop: on a
symmetric non-negative matrix the total length of the edges `(pid[j], j)` it returns is at most the total length of any edge list
that connects all the points -/
theorem generated_prim_minimal (n : Nat) (hn : 0 < n) (dis : List (List Rat)) (hd : SquareQ n dis) (ex : Bool)
    (hsym : ∀ a b, a < n → b < n → dist dis a b = dist dis b a)
    (hnn : ∀ a b, a < n → b < n → 0 ≤ dist dis a b)
    (E : List (Nat × Nat)) (hE : Spans n E) :
    ∃ s, mst_loop (K := Rat) (n : Int) dis 0 (-1) ex = some (outOf s) ∧ treeLength dis n s ≤ wL dis E :=
  ⟨_, generated_mst_eq_model n hn dis hd 0 (-1) ex, prim_minimal dis n hn ex hsym hnn E hE⟩

/-- **the tree the generated loop returns is itself one of the competitors**: its `n - 1` edges connect all the points and have the
total length `treeLength` — with `generated_prim_minimal`: its length EQUALS the minimum over all spanning edge lists -/
theorem generated_prim_attains (n : Nat) (hn : 0 < n) (dis : List (List Rat)) (hd : SquareQ n dis) (bf : Rat) (k : Int) (ex : Bool)
    (hk : k = -1 ∨ 1 ≤ k) :
    ∃ s, mst_loop (K := Rat) (n : Int) dis bf k ex = some (outOf s) ∧
      Spans n (edgesOf n s) ∧ wL dis (edgesOf n s) = treeLength dis n s ∧ (edgesOf n s).length = n - 1 :=
  ⟨_, generated_mst_eq_model n hn dis hd bf k ex, prim_attains dis bf n hn (limitOf k) ex (limitOf_pos k hk)⟩

-- non-vacuity (kernel-evaluated): the hypotheses hold for the 4 points on a line of `exDis`, and the generated loop returns the tree
example : SquareQ 4 exDis := ⟨rfl, by decide⟩
example : (mst_loop (K := Rat) 4 exDis 0 (-1) true).map (fun r => r.1) = some [-1, 3, 1, 0] := by decide +kernel
example : (mst_loop (K := Rat) 4 exDis 0 (-1) true).map (fun r => r.2.1) = some [0, 10, 11, 1] := by decide +kernel
example : (mst_loop (K := Rat) 4 exDis 0 (-1) true).map (fun r => (r.2.2.1, r.2.2.2.1)) =
    some ([1, 1, 0, 1], [true, true, true, true]) := by decide +kernel
example : (mst_loop (K := Rat) 4 exDis 1 2 true).map (·.1) = some [-1, 0, 0, 0] := by decide +kernel
example : limitOf (-1) = none ∧ limitOf 2 = some 2 ∧ limitOf (-3) = some 0 := by decide
example : (mst_loop (K := Rat) 0 [] 0 (-1) true).isNone = true := by decide +kernel

end C17
