import SwcVerif.Gen.VolumeTerms
