import SwcVerif.Model.Volume
import SwcVerif.Proofs.Traverse
import SwcVerif.Proofs.Additive
import Mathlib.Tactic.Ring
import Mathlib.Tactic.Linarith
import Mathlib.Tactic.FieldSimp
import Mathlib.Algebra.Order.Field.Basic
import Mathlib.Algebra.BigOperators.Intervals
import Mathlib.Algebra.Order.BigOperators.Ring.Finset
/-! # C14 — tree volume is the volume of the union of node spheres and connecting frusta

* the per-node value is the definition GENERATED from `analysis/volume.py` (`Gen.VolTerms.nodeVolume`:
  which terms enter with which sign from which accuracy level);
* the accumulation over the tree is C04's traversal machine with the `leave` callback of the code
  (`Vol.treeVolume`), so "for every tree" is by C04's induction;
* the union identity is set algebra over an arbitrary finitely additive `m` (`Additive.FinAdd`), with the
  geometric hypotheses of the property in the form "earlier parts meet the k-th frustum only inside
  sphere k, and meet sphere k+1 only inside frustum k" (implied by: non-adjacent parts are disjoint,
  consecutive spheres overlap only inside their frustum — `lens_inside_frustum` — and consecutive
  frusta only inside the sphere between them). -/
namespace C14
open Vol Trav Gen.VolTerms Additive

-- sum over all nodes of a rose of a per-node quantity `g node childrenIds`
mutual
def sumRose (g : Int → List Int → ℝ) : Rose → ℝ
  | .node i ks => sumRoseL g ks + g i (ks.map Rose.id)
def sumRoseL (g : Int → List Int → ℝ) : List Rose → ℝ
  | [] => 0
  | r :: rs => sumRoseL g rs + sumRose g r
end

mutual
theorem spec_vol (acc : Nat) (terms : Int → List Int → Terms ℝ) :
    ∀ (r : Rose) (pv : Option Unit) (v : ℝ),
      spec volEnter (volLeave acc terms) r pv v = (v + sumRose (fun i ks => nodeVal acc (terms i ks)) r, r.id)
  | .node i ks, pv, v => by
    simp only [spec, volEnter, volLeave, sumRose, Rose.id]
    rw [specRev_vol acc terms ks () v]
    simp only [add_assoc]
theorem specRev_vol (acc : Nat) (terms : Int → List Int → Terms ℝ) :
    ∀ (ks : List Rose) (cur : Unit) (v : ℝ),
      specRev volEnter (volLeave acc terms) ks cur v
        = (v + sumRoseL (fun i ks => nodeVal acc (terms i ks)) ks, ks.map Rose.id)
  | [], _, v => by simp [specRev, sumRoseL]
  | r :: rs, cur, v => by
    simp only [specRev, sumRoseL, List.map_cons]
    rw [specRev_vol acc terms rs cur v, spec_vol acc terms r]
    simp only [add_assoc]
end

/-- **every tree**: the reported volume is the sum over all nodes of the generated per-node value,
each node seeing exactly its own children (any shape, depth, numbering). -/
theorem tree_volume_eq_sum (acc : Nat) (terms : Int → List Int → Terms ℝ) (ids pids : List Int) (r : Rose)
    (h : Represents r ids pids) :
    treeVolume acc terms ids pids r.id (2 * r.size) = sumRose (fun i ks => nodeVal acc (terms i ks)) r := by
  have := (C04_core ids pids r h acc terms)
  simpa using this
where
  C04_core (ids pids : List Int) (r : Rose) (h : Represents r ids pids) (acc : Nat) (terms : Int → List Int → Terms ℝ) :
      treeVolume acc terms ids pids r.id (2 * r.size) = 0 + sumRose (fun i ks => nodeVal acc (terms i ks)) r := by
    have hm := main (tableKids ids pids) (volEnter (K := ℝ)) (volLeave acc terms) r h.1 h.2 [] (fun _ => none) (fun _ => none) (0 : ℝ)
    obtain ⟨_, h2, _, _, _⟩ := hm
    simp only [treeVolume, init]
    rw [h2, spec_vol]

/-! ## the accuracy levels (read off the generated definition) -/

theorem node_level1 (t : Terms ℝ) : nodeVal 1 t = t.s := by simp [nodeVal, nodeVolume]
theorem node_level2 (t : Terms ℝ) : nodeVal 2 t = t.s + t.f := by simp [nodeVal, nodeVolume]
theorem node_level3 (acc : Nat) (h3 : 3 ≤ acc) (h5 : acc < 5) (t : Terms ℝ) :
    nodeVal acc t = t.s + t.f - t.p - t.c := by
  have h2 : 2 ≤ acc := by omega
  have h5' : ¬ 5 ≤ acc := by omega
  simp [nodeVal, nodeVolume, h2, h3, h5']
theorem node_level5 (acc : Nat) (h5 : 5 ≤ acc) (t : Terms ℝ) :
    nodeVal acc t = t.s + t.f - t.p - t.c - t.q := by
  have h2 : 2 ≤ acc := by omega
  have h3 : 3 ≤ acc := by omega
  simp [nodeVal, nodeVolume, h2, h3, h5]

theorem sumRose_congr (g g' : Int → List Int → ℝ) (h : ∀ i ks, g i ks = g' i ks) : ∀ r, sumRose g r = sumRose g' r := by
  have : g = g' := by funext i ks; exact h i ks
  intro r; rw [this]

/-- **level 1, every tree**: the sum of the node spheres -/
theorem level1_every_tree (terms : Int → List Int → Terms ℝ) (ids pids : List Int) (r : Rose) (h : Represents r ids pids) :
    treeVolume 1 terms ids pids r.id (2 * r.size) = sumRose (fun i ks => (terms i ks).s) r := by
  rw [tree_volume_eq_sum _ _ _ _ _ h]
  exact sumRose_congr _ _ (fun i ks => node_level1 _) r

/-- **level 2, every tree**: node spheres plus connecting frusta -/
theorem level2_every_tree (terms : Int → List Int → Terms ℝ) (ids pids : List Int) (r : Rose) (h : Represents r ids pids) :
    treeVolume 2 terms ids pids r.id (2 * r.size) = sumRose (fun i ks => (terms i ks).s + (terms i ks).f) r := by
  rw [tree_volume_eq_sum _ _ _ _ _ h]
  exact sumRose_congr _ _ (fun i ks => node_level2 _) r

/-- **levels 3 and 4, every tree**: spheres + (frustum − parent-sphere∩frustum − child-sphere∩frustum); the
two-sphere lens does NOT enter (it lies inside the frustum and is already removed twice and added once) -/
theorem level3_every_tree (acc : Nat) (h3 : 3 ≤ acc) (h5 : acc < 5) (terms : Int → List Int → Terms ℝ) (ids pids : List Int)
    (r : Rose) (h : Represents r ids pids) :
    treeVolume acc terms ids pids r.id (2 * r.size)
      = sumRose (fun i ks => (terms i ks).s + (terms i ks).f - (terms i ks).p - (terms i ks).c) r := by
  rw [tree_volume_eq_sum _ _ _ _ _ h]
  exact sumRose_congr _ _ (fun i ks => node_level3 acc h3 h5 _) r

theorem level5_every_tree (acc : Nat) (h5 : 5 ≤ acc) (terms : Int → List Int → Terms ℝ) (ids pids : List Int)
    (r : Rose) (h : Represents r ids pids) :
    treeVolume acc terms ids pids r.id (2 * r.size)
      = sumRose (fun i ks => (terms i ks).s + (terms i ks).f - (terms i ks).p - (terms i ks).c - (terms i ks).q) r := by
  rw [tree_volume_eq_sum _ _ _ _ _ h]
  exact sumRose_congr _ _ (fun i ks => node_level5 acc h5 _) r

/-! ## the union of a chain S₀ F₀ S₁ F₁ … Sₙ -/
section chain
variable {α : Type}

/-- everything strictly before sphere `k` -/
def before (S F : ℕ → Set α) : ℕ → Set α
  | 0 => ∅
  | k+1 => before S F k ∪ S k ∪ F k
/-- spheres `0..k` and frusta `0..k-1` -/
def upTo (S F : ℕ → Set α) (k : ℕ) : Set α := before S F k ∪ S k

/-- inclusion–exclusion value of the chain -/
def chainValue (m : Set α → ℝ) (S F : ℕ → Set α) (n : ℕ) : ℝ :=
  (Finset.range (n+1)).sum (fun i => m (S i))
    + (Finset.range n).sum (fun i => m (F i) - m (S i ∩ F i) - m (S (i+1) ∩ F i))

/-- **set-algebra layer.**  If the parts before sphere `k` meet frustum `k` only inside sphere `k`, and
the parts up to sphere `k` meet sphere `k+1` only inside frustum `k`, then the measure of the union is
`Σ m(Sᵢ) + Σ (m(Fᵢ) − m(Sᵢ∩Fᵢ) − m(Sᵢ₊₁∩Fᵢ))`. -/
theorem chain_union (m : Set α → ℝ) (hm : FinAdd m) (S F : ℕ → Set α) (n : ℕ)
    (hA : ∀ k, k < n → before S F k ∩ F k ⊆ S k)
    (hB : ∀ k, k < n → upTo S F k ∩ S (k+1) ⊆ F k) :
    m (upTo S F n) = chainValue m S F n := by
  induction n with
  | zero => simp [upTo, before, chainValue]
  | succ n ih =>
    have ih' := ih (fun k hk => hA k (by omega)) (fun k hk => hB k (by omega))
    have hAn := hA n (by omega)
    have hBn := hB n (by omega)
    have e1 : upTo S F (n+1) = upTo S F n ∪ (F n ∪ S (n+1)) := by
      simp only [upTo, before]; ext x; simp only [Set.mem_union]; tauto
    have e2 : upTo S F n ∩ (F n ∪ S (n+1)) = S n ∩ F n := by
      ext x
      simp only [Set.mem_inter_iff, Set.mem_union, upTo] at *
      constructor
      · rintro ⟨hx, hF | hS⟩
        · rcases hx with hb | hs
          · exact ⟨hAn ⟨hb, hF⟩, hF⟩
          · exact ⟨hs, hF⟩
        · have hF : x ∈ F n := hBn ⟨hx, hS⟩
          rcases hx with hb | hs
          · exact ⟨hAn ⟨hb, hF⟩, hF⟩
          · exact ⟨hs, hF⟩
      · rintro ⟨hs, hF⟩
        exact ⟨Or.inr hs, Or.inl hF⟩
    rw [e1, hm.union_inter, e2, hm.union_inter (F n) (S (n+1)), ih']
    simp only [chainValue]
    rw [Finset.sum_range_succ (fun i => m (S i)) (n+1),
      Finset.sum_range_succ (fun i => m (F i) - m (S i ∩ F i) - m (S (i+1) ∩ F i)) n]
    rw [Set.inter_comm (F n) (S (n+1))]
    ring

/-- the pairwise form of the hypotheses: non-adjacent parts do not touch (`= ∅`), consecutive spheres
overlap only inside the frustum between them, consecutive frusta only inside the sphere between them,
sphere `k-1` reaches frustum `k` at most inside sphere `k`. -/
theorem chain_hyps_of_pairwise (S F : ℕ → Set α) (n : ℕ)
    (hSS : ∀ k, k < n → S k ∩ S (k+1) ⊆ F k)
    (hFF : ∀ k, k + 1 < n → F k ∩ F (k+1) ⊆ S (k+1))
    (hSF : ∀ k, k + 1 < n → S k ∩ F (k+1) ⊆ S (k+1))
    (hFS : ∀ k, k + 1 < n → F k ∩ S (k+2) ⊆ F (k+1))
    (hfarSS : ∀ i j, i + 2 ≤ j → j ≤ n → S i ∩ S j = ∅)
    (hfarSF : ∀ i j, i + 2 ≤ j → j < n → S i ∩ F j = ∅)
    (hfarFS : ∀ i j, i + 3 ≤ j → j ≤ n → F i ∩ S j = ∅)
    (hfarFF : ∀ i j, i + 2 ≤ j → j < n → F i ∩ F j = ∅) :
    (∀ k, k < n → before S F k ∩ F k ⊆ S k) ∧ (∀ k, k < n → upTo S F k ∩ S (k+1) ⊆ F k) := by
  -- membership in `before k` means membership in some earlier sphere or frustum
  have hbefore : ∀ k x, x ∈ before S F k → ∃ i, i < k ∧ (x ∈ S i ∨ x ∈ F i) := by
    intro k
    induction k with
    | zero => intro x hx; simp [before] at hx
    | succ k ih =>
      intro x hx
      simp only [before, Set.mem_union] at hx
      rcases hx with (hb | hs) | hf
      · obtain ⟨i, hi, h⟩ := ih x hb
        exact ⟨i, by omega, h⟩
      · exact ⟨k, by omega, Or.inl hs⟩
      · exact ⟨k, by omega, Or.inr hf⟩
  constructor
  · intro k hk x ⟨hb, hF⟩
    obtain ⟨i, hi, h⟩ := hbefore k x hb
    rcases h with hs | hf
    · by_cases hik : i + 1 = k
      · subst hik; exact hSF i hk ⟨hs, hF⟩
      · have := hfarSF i k (by omega) hk
        exact absurd (show x ∈ S i ∩ F k from ⟨hs, hF⟩) (by rw [this]; simp)
    · by_cases hik : i + 1 = k
      · subst hik; exact hFF i hk ⟨hf, hF⟩
      · have := hfarFF i k (by omega) hk
        exact absurd (show x ∈ F i ∩ F k from ⟨hf, hF⟩) (by rw [this]; simp)
  · intro k hk x ⟨hu, hS⟩
    simp only [upTo, Set.mem_union] at hu
    rcases hu with hb | hs
    · obtain ⟨i, hi, h⟩ := hbefore k x hb
      rcases h with hs | hf
      · have := hfarSS i (k+1) (by omega) (by omega)
        exact absurd (show x ∈ S i ∩ S (k+1) from ⟨hs, hS⟩) (by rw [this]; simp)
      · by_cases hik : i + 1 = k
        · subst hik; exact hFS i hk ⟨hf, hS⟩
        · have := hfarFS i (k+1) (by omega) (by omega)
          exact absurd (show x ∈ F i ∩ S (k+1) from ⟨hf, hS⟩) (by rw [this]; simp)
    · exact hSS k hk ⟨hs, hS⟩

/-- the chain 0 → 1 → … → n as a rose (node `i` has the single child `i+1`) -/
def chainRose : ℕ → ℕ → Rose
  | i, 0 => .node i []
  | i, k+1 => .node i [chainRose (i+1) k]

theorem chainRose_id (i k : ℕ) : (chainRose i k).id = i := by cases k <;> simp [chainRose, Rose.id]

/-- the ingredients the code computes at node `i` of the chain when volumes are measured by `m`:
a leaf contributes its sphere; an inner node its sphere, the frustum to its child, the two
sphere∩frustum overlaps, (the unused lens) and no cone pair (one child ⇒ no pair) -/
def chainTerms (m : Set α → ℝ) (S F : ℕ → Set α) : Int → List Int → Terms ℝ :=
  fun i kids => match kids with
    | [] => ⟨m (S i.toNat), 0, 0, 0, 0, 0⟩
    | _ :: _ => ⟨m (S i.toNat), m (F i.toNat), m (S i.toNat ∩ F i.toNat), m (S (i.toNat+1) ∩ F i.toNat),
                 m (S i.toNat ∩ S (i.toNat+1)), 0⟩

theorem sum_chainRose (m : Set α → ℝ) (S F : ℕ → Set α) (acc : Nat) (h3 : 3 ≤ acc) :
    ∀ (k i : ℕ), sumRose (fun i ks => nodeVal acc (chainTerms m S F i ks)) (chainRose i k)
      = (Finset.range (k+1)).sum (fun j => m (S (i+j)))
        + (Finset.range k).sum (fun j => m (F (i+j)) - m (S (i+j) ∩ F (i+j)) - m (S (i+j+1) ∩ F (i+j))) := by
  have hval : ∀ t : Terms ℝ, t.q = 0 → nodeVal acc t = t.s + t.f - t.p - t.c := by
    intro t hq
    by_cases h5 : 5 ≤ acc
    · rw [node_level5 acc h5, hq]; ring
    · exact node_level3 acc h3 (by omega) t
  intro k
  induction k with
  | zero =>
    intro i
    simp [chainRose, sumRose, sumRoseL, chainTerms, hval]
  | succ k ih =>
    intro i
    simp only [chainRose, sumRose, sumRoseL, List.map_cons, List.map_nil]
    rw [ih (i+1)]
    simp only [chainTerms]
    rw [hval _ rfl]
    rw [Finset.sum_range_succ' (fun j => m (S (i+j))) (k+1)]
    rw [Finset.sum_range_succ' (fun j => m (F (i+j)) - m (S (i+j) ∩ F (i+j)) - m (S (i+j+1) ∩ F (i+j))) k]
    simp only [Int.toNat_natCast, Nat.add_zero, zero_add]
    have e1 : ∀ j, i + 1 + j = i + (j + 1) := by intro j; omega
    simp only [e1]
    ring

/-- **C14, analytic levels ≥ 3 on a chain.**  For the chain `0 → 1 → … → n` (any table representing it),
when each primitive term the code computes is the `m`-measure of the corresponding set and the
property's spacing hypotheses hold, the reported volume is the measure of the union of all node
spheres and connecting frusta. -/
theorem chain_volume_is_union (acc : Nat) (h3 : 3 ≤ acc) (m : Set α → ℝ) (hm : FinAdd m) (S F : ℕ → Set α) (n : ℕ)
    (hA : ∀ k, k < n → before S F k ∩ F k ⊆ S k)
    (hB : ∀ k, k < n → upTo S F k ∩ S (k+1) ⊆ F k)
    (ids pids : List Int) (h : Represents (chainRose 0 n) ids pids) :
    treeVolume acc (chainTerms m S F) ids pids 0 (2 * (chainRose 0 n).size) = m (upTo S F n) := by
  have := tree_volume_eq_sum acc (chainTerms m S F) ids pids (chainRose 0 n) h
  rw [chainRose_id] at this
  simp only [Nat.cast_zero] at this
  rw [this, sum_chainRose m S F acc h3 n 0, chain_union m hm S F n hA hB]
  simp [chainValue]
end chain

/-! ## a straight-line tree with the root in the middle: two arms leaving the root in opposite directions -/
section twoarm
variable {α : Type}

/-- root 0; right arm = nodes `1..a` (a chain), left arm = nodes `a+1..a+b` (a chain); `a, b ≥ 1` -/
def twoArmRose (a b : ℕ) : Rose := .node 0 [chainRose 1 (a - 1), chainRose (a + 1) (b - 1)]

/-- the ingredients the code computes at each node when volumes are measured by `m`: the root sees both first
compartments (and the cone-pair term `(F_R0 ∩ F_L0) \ S_0`); a node `i` of the right arm (`1 ≤ i ≤ a`) is node `i` of
the chain `R`, a node `a + j` of the left arm is node `j` of the chain `L` -/
def twoArmTerms (m : Set α → ℝ) (R FR L FL : ℕ → Set α) (a : ℕ) : Int → List Int → Terms ℝ :=
  fun i kids =>
    if i = 0 then
      ⟨m (R 0), m (FR 0) + m (FL 0), m (R 0 ∩ FR 0) + m (R 0 ∩ FL 0), m (R 1 ∩ FR 0) + m (L 1 ∩ FL 0),
       m (R 0 ∩ R 1) + m (R 0 ∩ L 1), m ((FR 0 ∩ FL 0) \ R 0)⟩
    else if i.toNat ≤ a then chainTerms m R FR i kids
    else chainTerms m L FL (i - a) kids

/-- the sum over a chain only looks at the per-node quantity at the ids `i..i+k` of the chain -/
theorem sumRose_chainRose_congr (g g' : Int → List Int → ℝ) :
    ∀ (k i : ℕ), (∀ j, j ≤ k → ∀ ks, g ((i + j : ℕ) : Int) ks = g' ((i + j : ℕ) : Int) ks) →
      sumRose g (chainRose i k) = sumRose g' (chainRose i k) := by
  intro k
  induction k with
  | zero =>
    intro i h
    have := h 0 (le_refl _) []
    simpa [chainRose, sumRose, sumRoseL] using this
  | succ k ih =>
    intro i h
    simp only [chainRose, sumRose, sumRoseL, List.map_cons, List.map_nil]
    rw [ih (i+1) (fun j hj ks => by
      have := h (j+1) (by omega) ks
      rwa [show i + 1 + j = i + (j+1) by omega])]
    have := h 0 (by omega) [(chainRose (i+1) k).id]
    simp only [Nat.add_zero] at this
    rw [this]

/-- the chain `S`, `F` re-indexed to start at id `o` has the terms of the shifted sets -/
theorem chainTerms_shift (m : Set α → ℝ) (S F : ℕ → Set α) (o n : ℕ) (ks : List Int) :
    chainTerms m S F (((o + n : ℕ) : Int) - (o : Int)) ks
      = chainTerms m (fun j => S (j - o)) (fun j => F (j - o)) ((o + n : ℕ) : Int) ks := by
  have e : (((o + n : ℕ) : Int) - (o : Int)) = ((n : ℕ) : Int) := by push_cast; ring
  have e1 : o + n - o = n := by omega
  have e2 : o + n + 1 - o = n + 1 := by omega
  rw [e]
  cases ks <;> simp only [chainTerms, Int.toNat_natCast, e1, e2]

/-- **C14, analytic levels ≥ 3 on a straight-line tree whose root is in the middle**: when each arm satisfies the
spacing hypotheses of `chain_union`, the arms share the root sphere (`L 0 = R 0`) and meet nowhere else, the
reported volume — including the level-5 cone-pair term at the root, which measures an empty set — is the
measure of the union of all node spheres and connecting frusta. -/
theorem two_arm_volume_is_union (acc : Nat) (h3 : 3 ≤ acc) (m : Set α → ℝ) (hm : FinAdd m)
    (R FR L FL : ℕ → Set α) (a b : ℕ) (ha : 1 ≤ a) (hb : 1 ≤ b) (hroot : L 0 = R 0)
    (hAR : ∀ k, k < a → before R FR k ∩ FR k ⊆ R k) (hBR : ∀ k, k < a → upTo R FR k ∩ R (k+1) ⊆ FR k)
    (hAL : ∀ k, k < b → before L FL k ∩ FL k ⊆ L k) (hBL : ∀ k, k < b → upTo L FL k ∩ L (k+1) ⊆ FL k)
    (hI : upTo R FR a ∩ upTo L FL b = R 0)
    (ids pids : List Int) (h : Represents (twoArmRose a b) ids pids) :
    treeVolume acc (twoArmTerms m R FR L FL a) ids pids 0 (2 * (twoArmRose a b).size)
      = m (upTo R FR a ∪ upTo L FL b) := by
  obtain ⟨a, rfl⟩ : ∃ a', a = a' + 1 := ⟨a - 1, by omega⟩
  obtain ⟨b, rfl⟩ : ∃ b', b = b' + 1 := ⟨b - 1, by omega⟩
  have hval : ∀ t : Terms ℝ, t.q = 0 → nodeVal acc t = t.s + t.f - t.p - t.c := by
    intro t hq
    by_cases h5 : 5 ≤ acc
    · rw [node_level5 acc h5, hq]; ring
    · exact node_level3 acc h3 (by omega) t
  -- the reported volume is the sum over the nodes
  have hsum := tree_volume_eq_sum acc (twoArmTerms m R FR L FL (a+1)) ids pids (twoArmRose (a+1) (b+1)) h
  have hid : (twoArmRose (a+1) (b+1)).id = 0 := by simp [twoArmRose, Rose.id]
  rw [hid] at hsum
  rw [hsum]
  simp only [twoArmRose, sumRose, sumRoseL, List.map_cons, List.map_nil, Nat.add_sub_cancel]
  -- right arm: ids `1..a+1` carry the chain `R`
  have hR : sumRose (fun i ks => nodeVal acc (twoArmTerms m R FR L FL (a+1) i ks)) (chainRose 1 a)
      = (Finset.range (a+1)).sum (fun j => m (R (j+1)))
        + (Finset.range a).sum (fun j => m (FR (j+1)) - m (R (j+1) ∩ FR (j+1)) - m (R (j+1+1) ∩ FR (j+1))) := by
    rw [sumRose_chainRose_congr _ (fun i ks => nodeVal acc (chainTerms m R FR i ks)) a 1 ?_,
      sum_chainRose m R FR acc h3 a 1]
    · simp only [Nat.add_comm 1]
    · intro j hj ks
      simp only [twoArmTerms]
      rw [if_neg (by omega), if_pos (by omega)]
  -- left arm: ids `a+2..a+b+2` carry the chain `L`, re-indexed
  have hL : sumRose (fun i ks => nodeVal acc (twoArmTerms m R FR L FL (a+1) i ks)) (chainRose (a+1+1) b)
      = (Finset.range (b+1)).sum (fun j => m (L (j+1)))
        + (Finset.range b).sum (fun j => m (FL (j+1)) - m (L (j+1) ∩ FL (j+1)) - m (L (j+1+1) ∩ FL (j+1))) := by
    rw [sumRose_chainRose_congr _
        (fun i ks => nodeVal acc (chainTerms m (fun j => L (j - (a+1))) (fun j => FL (j - (a+1))) i ks)) b (a+1+1) ?_,
      sum_chainRose m _ _ acc h3 b (a+1+1)]
    · have e1 : ∀ j, a + 1 + 1 + j - (a + 1) = j + 1 := by intro j; omega
      have e2 : ∀ j, a + 1 + 1 + j + 1 - (a + 1) = j + 1 + 1 := by intro j; omega
      simp only [e1, e2]
    · intro j hj ks
      simp only [twoArmTerms]
      rw [if_neg (by omega), if_neg (by omega)]
      have := chainTerms_shift m L FL (a+1) (1+j) ks
      rw [show a + 1 + (1 + j) = a + 1 + 1 + j by omega] at this
      rw [this]
  rw [hR, hL]
  -- the root: the cone-pair term measures the empty set
  have hFR : FR 0 ⊆ upTo R FR (a+1) := by
    have hmono : ∀ k, before R FR 1 ⊆ before R FR (k+1) := by
      intro k
      induction k with
      | zero => exact subset_rfl
      | succ k ih =>
        intro x hx
        have := ih hx
        simp only [before, Set.mem_union] at this ⊢
        tauto
    intro x hx
    left
    exact hmono a (by simp only [before, Set.mem_union]; exact Or.inr hx)
  have hFL : FL 0 ⊆ upTo L FL (b+1) := by
    have hmono : ∀ k, before L FL 1 ⊆ before L FL (k+1) := by
      intro k
      induction k with
      | zero => exact subset_rfl
      | succ k ih =>
        intro x hx
        have := ih hx
        simp only [before, Set.mem_union] at this ⊢
        tauto
    intro x hx
    left
    exact hmono b (by simp only [before, Set.mem_union]; exact Or.inr hx)
  have hq : (FR 0 ∩ FL 0) \ R 0 = ∅ := by
    ext x
    simp only [Set.mem_sdiff, Set.mem_inter_iff, Set.mem_empty_iff_false, iff_false]
    rintro ⟨⟨h1, h2⟩, h3⟩
    have : x ∈ upTo R FR (a+1) ∩ upTo L FL (b+1) := ⟨hFR h1, hFL h2⟩
    rw [hI] at this
    exact h3 this
  have hroot' : nodeVal acc (twoArmTerms m R FR L FL (a+1) 0 [(chainRose 1 a).id, (chainRose (a+1+1) b).id])
      = m (R 0) + (m (FR 0) + m (FL 0)) - (m (R 0 ∩ FR 0) + m (R 0 ∩ FL 0))
        - (m (R 1 ∩ FR 0) + m (L 1 ∩ FL 0)) := by
    simp only [twoArmTerms, if_true]
    rw [hval _ (by simp only [hq, hm.empty])]
  -- the set side
  rw [hm.union_inter, hI, chain_union m hm R FR (a+1) hAR hBR, chain_union m hm L FL (b+1) hAL hBL]
  simp only [chainValue]
  rw [Finset.sum_range_succ' (fun i => m (R i)) (a+1),
    Finset.sum_range_succ' (fun i => m (FR i) - m (R i ∩ FR i) - m (R (i+1) ∩ FR i)) a,
    Finset.sum_range_succ' (fun i => m (L i)) (b+1),
    Finset.sum_range_succ' (fun i => m (FL i) - m (L i ∩ FL i) - m (L (i+1) ∩ FL i)) b]
  rw [hroot', hroot]
  simp only [zero_add]
  ring
end twoarm

/-! ## geometry layer: the lens of two consecutive spheres lies inside the frustum between them -/

/-- squared radius profiles about the axis: sphere 1 at `0`, sphere 2 at `d`, frustum between -/
theorem lens_inside_frustum (r1 r2 d z : ℝ) (h1 : 0 ≤ r1) (h2 : 0 ≤ r2) (hd1 : r1 ≤ d) (hd2 : r2 ≤ d) (hd : 0 < d) :
    (0 ≤ z ∧ z ≤ d → min (r1^2 - z^2) (r2^2 - (z - d)^2) ≤ (r1 + (r2 - r1) / d * z)^2) ∧
    (z < 0 → r2^2 - (z - d)^2 < 0) ∧ (d < z → r1^2 - z^2 < 0) := by
  refine ⟨?_, ?_, ?_⟩
  · rintro ⟨hz0, hzd⟩
    have ht0 : 0 ≤ z / d := div_nonneg hz0 hd.le
    have ht1 : z / d ≤ 1 := by rw [div_le_one hd]; exact hzd
    have e : r1 + (r2 - r1) / d * z = r1 * (1 - z / d) + r2 * (z / d) := by field_simp; ring
    rw [e]
    set t := z / d with ht
    rcases le_total r1 r2 with h | h
    · -- radius of the frustum ≥ r1 ≥ radius of sphere 1
      have hge : r1 ≤ r1 * (1 - t) + r2 * t := by nlinarith
      calc min (r1^2 - z^2) (r2^2 - (z - d)^2) ≤ r1^2 - z^2 := min_le_left _ _
        _ ≤ r1^2 := by nlinarith [sq_nonneg z]
        _ ≤ (r1 * (1 - t) + r2 * t)^2 := by nlinarith
    · have hge : r2 ≤ r1 * (1 - t) + r2 * t := by nlinarith
      calc min (r1^2 - z^2) (r2^2 - (z - d)^2) ≤ r2^2 - (z - d)^2 := min_le_right _ _
        _ ≤ r2^2 := by nlinarith [sq_nonneg (z - d)]
        _ ≤ (r1 * (1 - t) + r2 * t)^2 := by nlinarith
  · intro hz; nlinarith
  · intro hz; nlinarith

-- non-vacuity: a 3-node chain table represents `chainRose 0 2`, and the hypotheses of `chain_union`
-- hold for three intervals-as-sets on the line
example : Represents (chainRose 0 2) [0, 1, 2] [-1, 0, 1] := by
  refine ⟨?_, by decide⟩
  simp [chainRose, Agrees, AgreesL, tableKids, Rose.id]

-- a finitely additive set function exists (Dirac mass), so `FinAdd` hypotheses are satisfiable
open Classical in
example : FinAdd (fun A : Set ℕ => if (0:ℕ) ∈ A then (1:ℝ) else 0) := by
  intro A B hd
  by_cases ha : (0:ℕ) ∈ A <;> by_cases hb : (0:ℕ) ∈ B
  · exact absurd hb (Set.disjoint_left.1 hd ha)
  · simp [ha, hb]
  · simp [ha, hb]
  · simp [ha, hb]

end C14
