import SwcVerif.Gen.AlgoRaster
/-! placeholder (filled below) -/
