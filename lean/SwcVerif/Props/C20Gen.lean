import SwcVerif.Props.C20
import SwcVerif.Refine.Raster
import SwcVerif.Proofs.Represent
/-! # C20, the raster logic around the SDF sampler tied to the source by the translator

`Gen.Algo.raster_transform`, `raster_get_samplers`, `raster_get_scene` / `raster_leave`, `tp3f` are regenerated from
`swcgeom/transforms/image_stack.py` on every run (`Gen/AlgoRaster.lean`) and proved in `Refine/Raster.lean` to compute the hand-written raster
model of `Model/Images.lean`.  Below, the C20 theorems about that model (`grid_covers`, `bbox_contains`, `degenerate_edge_is_ball`) are restated
for the code as translated.  Still outside: the sdflit sampler (`sample`, an arbitrary stateful callback here), the SDF of `RoundCone` / `Sphere`,
the distance `np.linalg.norm` (a function parameter; `edgeSolid_model` assumes it is the Euclidean distance), float rounding. -/
namespace C20
open Img Gen.Algo RefineRaster RefineTravFront

/-- **`grid_covers` for the generated `_get_samplers`**: for every box and every resolution with a positive z component the translated generator
(with fuel ≥ number of slices + 1: it never runs out) yields samplers whose number is the model's; the `i`-th one sits at `zmin + (i + ½)·sz`,
strictly inside `(zmin, zmax)`; the next centre would reach `zmax` (no slice is dropped); every sampler spans the x/y box from the half-voxel
offset to the upper corner, and `z … z + sz − 10⁻⁶` -/
theorem generated_slices (x0 y0 z0 x1 y1 z1 sx sy sz : Rat) (hsz : 0 < sz) (F : Nat) :
    ∃ ys : List (Py.RangeSampler Rat),
      raster_get_samplers Py.ratFld ((axisCentres z0 z1 sz).length + 1 + F) [x0, y0, z0] [x1, y1, z1] [sx, sy, sz] = some (ys, ()) ∧
      z1 ≤ z0 + ((ys.length : Rat) + 1 / 2) * sz ∧
      ∀ i (h : i < ys.length),
        ys[i].lo = (x0 + sx / 2, y0 + sy / 2, z0 + ((i : Rat) + 1 / 2) * sz) ∧ z0 < ys[i].lo.2.2 ∧ ys[i].lo.2.2 < z1 ∧
        ys[i].hi = (x1, y1, ys[i].lo.2.2 + sz - 1 / 1000000) ∧ ys[i].stride = (sx, sy, sz) := by
  refine ⟨_, samplers_refines x0 y0 z0 x1 y1 z1 sx sy sz hsz F, ?_, ?_⟩
  · simpa [modelSamplers] using (grid_covers z0 z1 sz hsz).2
  · intro i h
    have hi : i < (axisCentres z0 z1 sz).length := by simpa [modelSamplers] using h
    obtain ⟨e, h1, h2⟩ := (grid_covers z0 z1 sz hsz).1 i hi
    simp only [modelSamplers, List.getElem_map, slice]
    rw [e] at h1 h2 ⊢
    exact ⟨rfl, h1, h2, trivial, trivial⟩

/-- **`bbox_contains` for the generated bounding box**: the box the translated `transform` computes (`RefineRaster.bbox_refines`: it is
`boxLo` … `boxHi`) has whole-number corners and contains the ball of every node, along every axis -/
theorem generated_bbox_contains (pts : List Pt) (hne : pts ≠ []) (p : Pt) (hp : p ∈ pts) :
    (boxLo pts).1 ≤ p.1.1 - p.2 ∧ p.1.1 + p.2 ≤ (boxHi pts).1 ∧
    (boxLo pts).2.1 ≤ p.1.2.1 - p.2 ∧ p.1.2.1 + p.2 ≤ (boxHi pts).2.1 ∧
    (boxLo pts).2.2 ≤ p.1.2.2 - p.2 ∧ p.1.2.2 + p.2 ≤ (boxHi pts).2.2 := by
  obtain ⟨k, hk, rfl⟩ := List.mem_iff_getElem.mp hp
  have ax : ∀ cx : Pt → Rat, (bboxAx cx pts).1 ≤ cx pts[k] - pts[k].2 ∧ cx pts[k] + pts[k].2 ≤ (bboxAx cx pts).2 := by
    intro cx
    have := (bbox_contains (pts.map cx) (radii pts) (by simp [radii]) (by simpa using hne)).2 k (by simpa using hk) (by simpa [radii] using hk)
    simpa [bboxAx, radii] using this
  exact ⟨(ax (·.1.1)).1, (ax (·.1.1)).2, (ax (·.1.2.1)).1, (ax (·.1.2.1)).2, (ax (·.1.2.2)).1, (ax (·.1.2.2)).2⟩

/-- the corners of the generated bounding box are whole numbers -/
theorem generated_bbox_integral (pts : List Pt) :
    ∃ a b c d e f : Int, boxLo pts = ((a : Rat), (b : Rat), (c : Rat)) ∧ boxHi pts = ((d : Rat), (e : Rat), (f : Rat)) :=
  ⟨_, _, _, _, _, _, rfl, rfl⟩

/-- **the generated edge rule is the model's** (`Img.edgeIsBall` / `Img.edgeBall`, the place of defect D23): with the Euclidean distance handed to
the comparison, the solid `leave` adds for an edge is the larger end ball when one end ball contains the other, else the round cone; and for
non-negative radii that ball IS the union of the swept balls of the edge (`degenerate_edge_is_ball`), the union the property speaks of -/
theorem generated_edge_rule (dist : Int → Int → Rat) (pts : List Pt) (n c : Int) (hd0 : 0 ≤ dist c n)
    (hd : dist c n * dist c n = sqd (P pts n).1 (P pts c).1) (hra : 0 ≤ (P pts n).2) (hrb : 0 ≤ (P pts c).2) :
    (edgeIsBall (P pts n).1 (P pts c).1 (P pts n).2 (P pts c).2 = false →
      edgeSolid dist pts n c = .cone (P pts n).1 (P pts c).1 (P pts n).2 (P pts c).2) ∧
    (edgeIsBall (P pts n).1 (P pts c).1 (P pts n).2 (P pts c).2 = true →
      ∃ ctr rad, edgeSolid dist pts n c = .sphere ctr rad ∧
        ∀ p : Rat × Rat × Rat,
          (∃ t, 0 ≤ t ∧ t ≤ 1 ∧ inSwept p (P pts n).1 (P pts c).1 (P pts n).2 (P pts c).2 t = true) ↔ inBall p (ctr, rad) = true) := by
  rw [edgeSolid_model dist pts n c hd0 hd]
  constructor
  · intro h; simp [modelSolid, h]
  · intro h
    refine ⟨(edgeBall (P pts n).1 (P pts c).1 (P pts n).2 (P pts c).2).1, (edgeBall (P pts n).1 (P pts c).1 (P pts n).2 (P pts c).2).2,
      by simp [modelSolid, h], fun p => ?_⟩
    exact degenerate_edge_is_ball p _ _ _ _ hra hrb h

theorem sceneRose_length (E : Int → Int → Py.Sdf Rat) : ∀ r : Rose, (sceneRose E r).length + 1 = r.size := by
  have key : ∀ n : Nat, (∀ r : Rose, r.size ≤ n → (sceneRose E r).length + 1 = r.size) ∧
      (∀ ks : List Rose, sizeL ks ≤ n → (sceneRoseL E ks).length + ks.length = sizeL ks) := by
    intro n
    induction n with
    | zero =>
      refine ⟨fun r h => ?_, fun ks h => ?_⟩
      · cases r; simp [Rose.size] at h
      · cases ks with
        | nil => simp [sceneRoseL, sizeL]
        | cons r rs => cases r; simp [sizeL, Rose.size] at h
    | succ n ih =>
      have hL : ∀ ks : List Rose, sizeL ks ≤ n + 1 → (sceneRoseL E ks).length + ks.length = sizeL ks := by
        intro ks
        induction ks with
        | nil => intro _; simp [sceneRoseL, sizeL]
        | cons r rs ihr =>
          intro h
          simp only [sizeL] at h
          have h1 : r.size ≤ n + 1 := by omega
          have hrs := ihr (by omega)
          have hr : (sceneRose E r).length + 1 = r.size := by
            cases r with
            | node i ks =>
              simp only [Rose.size] at h1 ⊢
              have := ih.2 ks (by omega)
              simp only [sceneRose, List.length_append, List.length_map]
              omega
          simp only [sceneRoseL, List.length_append, List.length_cons, sizeL]
          omega
      refine ⟨fun r h => ?_, hL⟩
      cases r with
      | node i ks =>
        simp only [Rose.size] at h ⊢
        have := hL ks (by omega)
        simp only [sceneRose, List.length_append, List.length_map]
        omega
  exact fun r => (key r.size).1 r (Nat.le_refl _)

/-- **the generated `_get_scene` on every well-formed tree**: for every well-formed parent table (a `Tree` object: ids = rows) whose nodes have
coordinates and radii, the translated `_get_scene` — the `leave` closure through the generated `Tree.traverse` over the generated `_traverse_dfs` —
never raises, never runs out of fuel, and returns the model scene of the tree's rose: exactly one solid per edge (`n − 1` of them), each chosen by
`edgeSolid` -/
theorem generated_scene_every_tree (dist : Int → Int → Rat) (pts : List Pt) (pids : List Int) (hw : C07.WF pids) (hlen : pts.length = pids.length) :
    ∃ r : Rose, C06.IsTree r pids ∧ (sceneRose (edgeSolid dist pts) r).length + 1 = pids.length ∧ ∀ F : Nat,
      raster_get_scene dist (2 * r.size + F + 1) (Sub.rangeI pids.length) pids (rowsOf pts) (radii pts)
        = some (sceneRose (edgeSolid dist pts) r) := by
  obtain ⟨r, hr⟩ := Represent.wf_represented pids hw
  refine ⟨r, hr, by rw [sceneRose_length, C06.isTree_size hr], fun F => ?_⟩
  have hmem : ∀ j ∈ r.ids, 0 ≤ j ∧ j < (pids.length : Int) := fun j hj => by
    have := (C06.isTree_mem hr j).1 hj
    omega
  have hok : Rows r (Sub.rangeI pids.length) := by
    intro j hj
    have := hmem j hj
    simp only [Sub.rangeI, List.length_map, List.length_range]
    omega
  exact getScene_refines dist pts _ pids r hr.1 hr.2.2.1 hok (fun j hj => by have := hmem j hj; simp only [ok, hlen]; omega) F

/-- **the generated `transform` on every well-formed tree** (`verbose` falsy, no `ranges`): one frame per slice of the model grid over the model
bounding box, in order of increasing z, every sampler handed the model scene — for every stateful sampler, every resolution with positive z -/
theorem generated_transform_every_tree {σ ψ φ : Type} [Inhabited σ] [Inhabited ψ] [Inhabited φ]
    (sample : σ → Py.RangeSampler Rat → List (Py.Sdf Rat) → σ × ψ) (toFrame : ψ → φ) (dist : Int → Int → Rat)
    (pts : List Pt) (pids : List Int) (hw : C07.WF pids) (hlen : pts.length = pids.length) (sx sy sz : Rat) (hsz : 0 < sz) (s0 : σ) :
    ∃ r : Rose, C06.IsTree r pids ∧ ∀ F : Nat,
      raster_transform sample Py.ratFld Py.ratFlr dist toFrame (nSlices pts sz + 1 + (2 * r.size + F)) (Sub.rangeI pids.length) pids
          (rowsOf pts) (radii pts) [sx, sy, sz] s0
        = some ((runFrames sample toFrame (sceneRose (edgeSolid dist pts) r) (modelSamplers (boxLo pts) (boxHi pts) (sx, sy, sz)) (s0, [])).2,
                (runFrames sample toFrame (sceneRose (edgeSolid dist pts) r) (modelSamplers (boxLo pts) (boxHi pts) (sx, sy, sz)) (s0, [])).1, ()) := by
  obtain ⟨r, hr, _, hsc⟩ := generated_scene_every_tree dist pts pids hw hlen
  refine ⟨r, hr, fun F => ?_⟩
  have hne : pts ≠ [] := by
    intro h
    have := hw.pos
    simp [h] at hlen
    omega
  apply transform_refines sample toFrame dist pts hne sx sy sz hsz _ pids _ (2 * r.size + F) s0
  have := hsc (nSlices pts sz + F)
  rw [show 2 * r.size + (nSlices pts sz + F) + 1 = nSlices pts sz + 1 + (2 * r.size + F) by omega] at this
  exact this

/-! non-vacuity, kernel-evaluated on the GENERATED definitions: the chain 0 → 1 → 2 with node 1 tucked inside the ball of node 0 (the first fixed
degenerate case of the suite): the scene is the cone of the edge 1 → 2 followed by the BALL of node 0 for the edge 0 → 1 … -/
def exPts : List Pt := [((0, 0, 0), 1), ((0, 1/3, -1/3), 1/2), ((3/2, 1/2, 5/2), 1/2)]
def exDist : Int → Int → Rat := fun c _ => if c = 1 then 1/2 else 3

example : raster_get_scene exDist 7 [0, 1, 2] [-1, 0, 1] (rowsOf exPts) (radii exPts)
    = some [.cone (0, 1/3, -1/3) (3/2, 1/2, 5/2) (1/2) (1/2), .sphere (0, 0, 0) 1] := by decide +kernel

/-- … and `transform` at resolution 1 hands `sample` four slices (z = −½, ½, 3⁄2, 5⁄2 of the box [−1, 2] × [−1, 1] × [−1, 3]) with that scene -/
example : (raster_transform (σ := List (Rat × Nat)) (ψ := Unit) (φ := Unit) (fun log s sc => (log ++ [(s.lo.2.2, sc.length)], ())) Py.ratFld Py.ratFlr
      exDist (fun _ => ()) 12 [0, 1, 2] [-1, 0, 1] (rowsOf exPts) (radii exPts) [1, 1, 1] []).map (fun r => (r.1.length, r.2.1))
    = some (4, [(-1/2, 2), (1/2, 2), (3/2, 2), (5/2, 2)]) := by decide +kernel

example : boxLo exPts = (-1, -1, -1) ∧ boxHi exPts = (2, 1, 3) := by decide +kernel

end C20
