import SwcVerif.Props.C19
import SwcVerif.Refine.Population
/-! # C19, tied to the source by the translator

`Gen.Algo.pop_get_idx / chain_* / nest_getitem / lazy_*` are regenerated from `swcgeom/core/population.py` on every run.
The theorems below show that they compute what the models of `Model/Population.lean` compute, so the C19 theorems
(`chain_index`, `load_at_most_once`, `loads_only_on_demand`, …) speak about the code as translated. -/
namespace C19
open Pop Gen.Algo RefinePop

/-- `np.cumsum([0] + lens)` is the model's prefix-sum list -/
theorem py_cumsum_eq (lens : List Nat) :
    Py.cumsum ([(0 : Int)] ++ lens.map (fun (k : Nat) => (k : Int))) = (Pop.cumsum lens).map (fun (k : Nat) => (k : Int)) := by
  have key : ∀ (ls : List Nat) (acc : List Nat) (s : Nat), acc.getLast?.getD 0 = s →
      ((ls.map (fun (k : Nat) => (k : Int))).foldl (fun (a : List Int × Int) x => (a.1 ++ [a.2 + x], a.2 + x))
          (acc.map (fun (k : Nat) => (k : Int)), (s : Int))).1 =
        (ls.foldl (fun a x => a ++ [a.getLast?.getD 0 + x]) acc).map (fun (k : Nat) => (k : Int)) := by
    intro ls
    induction ls with
    | nil => intro acc s _; rfl
    | cons x xs ih =>
      intro acc s hs
      have h' := ih (acc ++ [acc.getLast?.getD 0 + x]) (s + x) (by simp [hs])
      simp only [List.map_cons, List.foldl_cons]
      simp only [List.map_append, List.map_cons, List.map_nil, hs, Int.natCast_add] at h'
      rw [hs]
      exact h'
  have := key lens [0] 0 (by simp)
  simpa [Py.cumsum, Pop.cumsum, List.getLastD_eq_getLast?] using this

/-- `ChainTrees(trees)` as translated: the members and their prefix sums -/
theorem generated_chain_init (c0 : ChainTrees) (trees : List (List Int)) :
    chain_init c0 trees = some (⟨trees, castL (Pop.cumsum (trees.map List.length))⟩, ()) := by
  have hloop : ∀ (ts : List (List Int)) (v : chain_init.V),
      Py.forEach chain_init.for1 ts v = .next (ts.foldl (fun v t => { v with c0_ := v.c0_ ++ [(t.length : Int)], ts := t }) v) :=
    Py.forEach_pure _ _ (fun _ _ => rfl)
  have hf : ∀ (ts : List (List Int)) (v : chain_init.V),
      (ts.foldl (fun (v : chain_init.V) t => { v with c0_ := v.c0_ ++ [(t.length : Int)], ts := t }) v).c0_ =
          v.c0_ ++ ts.map (fun t => (t.length : Int)) ∧
      (ts.foldl (fun (v : chain_init.V) t => { v with c0_ := v.c0_ ++ [(t.length : Int)], ts := t }) v).self = v.self := by
    intro ts
    induction ts with
    | nil => intro v; simp
    | cons t ts ih =>
      intro v
      have := ih { v with c0_ := v.c0_ ++ [(t.length : Int)], ts := t }
      simp only [List.foldl_cons, List.map_cons]
      refine ⟨?_, this.2⟩
      rw [this.1]; simp
  have hc := py_cumsum_eq (trees.map List.length)
  simp only [List.map_map] at hc
  simp only [chain_init, chain_init.body, Py.seq, Py.bindS, hloop, Py.finish, Option.map]
  simp only [(hf trees _).1, (hf trees _).2, List.nil_append]
  have hcomp : (trees.map (fun t => (t.length : Int))) = List.map ((fun (k : Nat) => (k : Int)) ∘ List.length) trees := rfl
  rw [hcomp, hc]
  rfl

/-- `len(chain)` as translated -/
theorem generated_chain_len (trees : List (List Int)) :
    Gen.Algo.chain_len ⟨trees, castL (Pop.cumsum (trees.map List.length))⟩ = some ((chainLen (trees.map List.length) : Nat) : Int) := by
  have hl := (cumsum_full (trees.map List.length)).1
  simp only [List.length_map] at hl
  have hpos : 0 < (Pop.cumsum (trees.map List.length)).length := by omega
  have hn : Py.normIdx (castL (Pop.cumsum (trees.map List.length))).length (-1) =
      some ((Pop.cumsum (trees.map List.length)).length - 1) := by
    simp [Py.normIdx, hl]
  simp only [Gen.Algo.chain_len, chain_len.body, Py.bind, Py.idx, hn, castL_getElem?, Py.finish, chainLen]
  have : (Pop.cumsum (trees.map List.length))[(Pop.cumsum (trees.map List.length)).length - 1]? =
      some ((Pop.cumsum (trees.map List.length)).getLastD 0) := by
    rw [List.getLastD_eq_getLast?, List.getLast?_eq_getElem?]
    cases h : (Pop.cumsum (trees.map List.length))[(Pop.cumsum (trees.map List.length)).length - 1]? with
    | none => rw [List.getElem?_eq_none_iff] at h; omega
    | some x => simp
  simp [this]

/-- **`ChainTrees.__getitem__` as translated** (binary search over the prefix sums as written, then the member's own
indexing): it returns exactly the element the model's `(member, local index)` designates, and raises IndexError exactly
when the model does -/
theorem generated_chain_getitem (trees : List (List Int)) (key : Int) :
    chain_getitem (trees.length + 1) ⟨trees, castL (Pop.cumsum (trees.map List.length))⟩ key =
      (chainGet (trees.map List.length) key).bind (fun mj => (trees[mj.1]?).bind (fun t => t[mj.2]?)) := by
  have hfull := cumsum_full (trees.map List.length)
  simp only [List.length_map] at hfull
  obtain ⟨hl, hlast, hget⟩ := hfull
  have hlen := generated_chain_len trees
  simp only [chainGet, List.length_map]
  cases hk : getIdx key ((Pop.cumsum (trees.map List.length)).getLastD 0) with
  | none =>
    have := getIdx_refines key ((Pop.cumsum (trees.map List.length)).getLastD 0)
    rw [hk] at this
    simp only [chain_getitem, chain_getitem.body, Py.seq, Py.bind, hlen, chainLen, this, Option.map_none, Py.finish, Option.map, Option.bind_none]
  | some idx =>
    have hg := getIdx_refines key ((Pop.cumsum (trees.map List.length)).getLastD 0)
    rw [hk] at hg
    simp only [Option.map_some, Option.bind_some]
    by_cases h0 : trees.length = 0
    · -- no member at all: the total length is 0, no key is valid
      have : trees = [] := List.length_eq_zero_iff.1 h0
      subst this
      simp [Pop.cumsum, getIdx] at hk
      omega
    have h00 : (Pop.cumsum (trees.map List.length)).getD (1 - 1) 0 ≤ idx := by
      have := cumsum_getD (trees.map List.length) 0 (by simp)
      simp at this
      simp [this]
    obtain ⟨v', e, r1, r2, r3, r4, r5, r6⟩ := bsearch_refines trees (Pop.cumsum (trees.map List.length)) trees.length hl idx
      (trees.length + 1) 1 trees.length
      { (default : chain_getitem.V) with self := ⟨trees, castL (Pop.cumsum (trees.map List.length))⟩, key := key, i := 1, j := (trees.length : Int), idx := (idx : Int) }
      (by omega) (by omega) (by omega) (by omega) h00 rfl rfl rfl rfl
    generalize hb : bsearch (Pop.cumsum (trees.map List.length)) idx (trees.length + 1) 1 trees.length = b at *
    have hbi : ((b : Int) - 1) = ((b - 1 : Nat) : Int) := by omega
    have hblt : b - 1 < trees.length := by omega
    have hcl : b - 1 < (Pop.cumsum (trees.map List.length)).length := by omega
    have hcget : Py.idx (castL (Pop.cumsum (trees.map List.length))) ((b - 1 : Nat) : Int) =
        some (((Pop.cumsum (trees.map List.length)).getD (b - 1) 0 : Nat) : Int) := by
      rw [Py.idx_nat _ _ (by simpa using hcl), castL_getElem?]
      simp [List.getD, hcl]
    have htget : Py.idx trees ((b - 1 : Nat) : Int) = trees[b - 1]? := Py.idx_nat _ _ hblt
    have hsub : ((idx : Int) - (((Pop.cumsum (trees.map List.length)).getD (b - 1) 0 : Nat) : Int)) =
        ((idx - (Pop.cumsum (trees.map List.length)).getD (b - 1) 0 : Nat) : Int) := by omega
    simp only [chain_getitem, chain_getitem.body, Py.seq, Py.bind, hlen, chainLen, hg, Option.map_some, Py.len_eq]
    rw [e]
    simp only [r1, r2, r3, hbi, hcget, htget, hsub]
    cases ht : trees[b - 1]? with
    | none => simp [Py.finish]
    | some t =>
      simp only [Option.bind_some]
      by_cases hj : idx - (Pop.cumsum (trees.map List.length)).getD (b - 1) 0 < t.length
      · rw [Py.idx_nat _ _ hj]
        cases t[idx - (Pop.cumsum (trees.map List.length)).getD (b - 1) 0]? <;> simp [Py.finish]
      · rw [Py.idx_nat_none _ _ hj]
        have : t[idx - (Pop.cumsum (trees.map List.length)).getD (b - 1) 0]? = none := by
          rw [List.getElem?_eq_none_iff]; exact Nat.le_of_not_lt hj
        have hj' := hj
        simp at hj'
        simp [Py.finish, this, hj']

/-! ## LazyLoadingTrees as translated: every history of index requests -/

/-- run a history of `trees[key]` requests on the generated object, threading the read log; collects what each request
returns (`none` = IndexError) -/
def genGets : LazyLoadingTrees → List Int → List Int → List (Option Int) × List Int
  | _, log, [] => ([], log)
  | g, log, key :: keys =>
    match lazy_getitem readLog g key log with
    | none => let r := genGets g log keys; (none :: r.1, r.2)
    | some (g', log', t) => let r := genGets g' log' keys; (t :: r.1, r.2)

/-- the initial object: no tree loaded -/
def genInit (n : Nat) : LazyLoadingTrees := ⟨castL (List.range n), List.replicate n none⟩

theorem genInit_rep (n : Nat) : LRep (genInit n) (Lazy.init n) := by
  refine ⟨by simp [genInit, Lazy.init], by simp [genInit, Lazy.init], ?_⟩
  intro i hi
  simp only [Lazy.init, List.length_replicate] at hi
  simp [genInit, Lazy.init, hi]

theorem genGets_refines : ∀ (keys : List Int) (g : LazyLoadingTrees) (l : Lazy), LRep g l →
    (genGets g (castL l.log) keys).2 = castL (l.run (keys.map LOp.get)).log := by
  intro keys
  induction keys with
  | nil => intro g l _; simp [genGets, Lazy.run]
  | cons key keys ih =>
    intro g l h
    have hr := getitem_refines h key
    cases hk : l.get key with
    | none =>
      simp only [hk] at hr
      have : (l.step (.get key)).1 = l := by simp [Lazy.step, hk]
      simp only [genGets, hr, List.map_cons, Lazy.run, List.foldl_cons, this]
      exact ih g l h
    | some r =>
      obtain ⟨l', k⟩ := r
      simp only [hk] at hr
      obtain ⟨g', e, r'⟩ := hr
      have : (l.step (.get key)).1 = l' := by simp [Lazy.step, hk]
      simp only [genGets, e, List.map_cons, Lazy.run, List.foldl_cons, this]
      exact ih g' l' r'

/-- **each file is read at most once, for every history of requests — by the code as translated**: the read log
produced by the generated `__getitem__` / `load` over any sequence of keys has no repetition -/
theorem generated_load_at_most_once (n : Nat) (keys : List Int) :
    (genGets (genInit n) [] keys).2.Nodup := by
  have h := genGets_refines keys (genInit n) (Lazy.init n) (genInit_rep n)
  have h0 : castL (Lazy.init n).log = [] := by simp [Lazy.init, castL]
  rw [h0] at h
  rw [h]
  have := (load_at_most_once n (keys.map LOp.get)).1
  simp only [castL]
  exact List.Pairwise.map _ (fun a b hab c => hab (Int.ofNat.inj c)) this

/-- non-vacuity (kernel-evaluated): negative keys, a repeated key, an out-of-range key -/
example : genGets (genInit 4) [] [2, -1, 2, 7, 0] = ([some 2, some 3, some 2, none, some 0], [2, 3, 0]) := by decide +kernel

end C19
