import SwcVerif.Props.C08Node
/-! # C08: `Tree.Node.branch` returns a branch of the decomposition

The open item of `Props/C08Node.lean`: the chain `Node.branch()` returns for a non-furcation node of a tree with at least two nodes is a
MEMBER of `branchesOf r` (the decomposition `get_branches` computes) and contains the node. -/
namespace C08
open Branches Trav Gen.Algo Sub RefineNodeBranch

/-- the chain of only children below a node is determined by the node -/
theorem downOK_det {K : Int → List Int} : ∀ {c : Int} {l1 l2 : List Int}, DownOK K c l1 → DownOK K c l2 → l1 = l2 := by
  intro c l1 l2 h1
  induction h1 generalizing l2 with
  | stop c hc =>
    intro h2
    cases h2 with
    | stop => rfl
    | step _ j rest hK _ => rw [hK] at hc; simp at hc
  | step c j rest hK _ ih =>
    intro h2
    cases h2 with
    | stop _ hc => rw [hK] at hc; simp at hc
    | step _ j' rest' hK' h' =>
      rw [hK] at hK'
      simp only [List.cons.injEq, and_true] at hK'
      subst hK'
      rw [ih h']

/-- **interior nodes have exactly one child**: in a chain of only children every node but the last has exactly one child, the next node -/
theorem downOK_interior {K : Int → List Int} : ∀ {c : Int} {l : List Int}, DownOK K c l →
    ∀ (pre : List Int) (a b : Int) (post : List Int), c :: l = pre ++ a :: b :: post → K a = [b] := by
  intro c l h
  induction h with
  | stop c _ =>
    intro pre a b post e
    rcases pre with _ | ⟨p, _ | ⟨q, pre⟩⟩ <;> simp at e
  | step c j rest hK _ ih =>
    intro pre a b post e
    rcases pre with _ | ⟨p, pre⟩
    · simp only [List.nil_append, List.cons.injEq] at e
      obtain ⟨rfl, rfl, _⟩ := e
      exact hK
    · simp only [List.cons_append, List.cons.injEq] at e
      exact ih pre a b post e.2

/-- every closed branch below a node is `top :: x :: chain`: `top` a furcation, `x` one of its children, then only children down to a tip or
furcation; the open chain (top-down) is the chain of only children below the subtree's root -/
theorem chain_all (K : Int → List Int) (r : Rose) : Agrees K r →
    (∀ b ∈ (branchVal r).1, ∃ top x rest, b = top :: x :: rest ∧ x ∈ K top ∧ 2 ≤ (K top).length ∧ DownOK K x rest) ∧
    (∃ rest, (branchVal r).2.reverse = r.id :: rest ∧ DownOK K r.id rest) := by
  induction r using rose_ind with
  | h i ks ih =>
    intro hA
    simp only [Agrees] at hA
    obtain ⟨hk, hAL⟩ := hA
    rw [agreesL_iff] at hAL
    rcases ks with _ | ⟨k, _ | ⟨k2, t⟩⟩
    · refine ⟨by simp [branchVal_node, cb_nil], [], by simp [branchVal_node, cb_nil, Rose.id], ?_⟩
      exact .stop i (Or.inl (by rw [hk]; rfl))
    · have hk' := ih k (List.mem_cons_self ..) (hAL k (List.mem_cons_self ..))
      simp only [branchVal_node, List.map_cons, List.map_nil, cb_one]
      refine ⟨hk'.1, ?_⟩
      obtain ⟨rest, e, hd⟩ := hk'.2
      refine ⟨k.id :: rest, by simp [e, Rose.id], ?_⟩
      exact .step i k.id rest (by rw [hk]; rfl) hd
    · have h2 : 2 ≤ (K i).length := by rw [hk]; simp
      rw [branchVal_many]
      refine ⟨?_, [], by simp [Rose.id], .stop i (Or.inr h2)⟩
      intro b hb
      simp only [List.mem_flatMap, List.mem_map, closeAt] at hb
      obtain ⟨sc, ⟨k', hk', rfl⟩, hb⟩ := hb
      have hk'' := ih k' hk' (hAL k' hk')
      simp only [List.mem_reverse, List.mem_append, List.mem_singleton] at hb
      rcases hb with hb | rfl
      · exact hk''.1 b hb
      · obtain ⟨rest, e, hd⟩ := hk''.2
        exact ⟨i, k'.id, rest, by simp [e], by rw [hk]; exact List.mem_map_of_mem hk', h2, hd⟩

/-- every edge out of a furcation starts a closed branch -/
theorem cover_all (K : Int → List Int) (r : Rose) : Agrees K r → ∀ top ∈ r.ids, 2 ≤ (K top).length → ∀ x ∈ K top,
    ∃ rest, top :: x :: rest ∈ (branchVal r).1 := by
  induction r using rose_ind with
  | h i ks ih =>
    intro hA top htop h2 x hx
    have hA' := hA
    simp only [Agrees] at hA
    obtain ⟨hk, hAL⟩ := hA
    rw [agreesL_iff] at hAL
    simp only [Rose.ids, idsL_eq, List.mem_cons, List.mem_flatMap] at htop
    rcases htop with rfl | ⟨k', hk', htop⟩
    · -- the furcation is this node
      rw [hk] at h2 hx
      rcases ks with _ | ⟨k, _ | ⟨k2, t⟩⟩
      · simp at h2
      · simp at h2
      · rw [branchVal_many]
        obtain ⟨k', hk', rfl⟩ := List.mem_map.1 hx
        obtain ⟨rest, e, _⟩ := (chain_all K k' (hAL k' hk')).2
        refine ⟨rest, ?_⟩
        simp only [List.mem_flatMap, List.mem_map, closeAt]
        exact ⟨branchVal k', ⟨k', hk', rfl⟩, by simp [e]⟩
    · obtain ⟨rest, hr⟩ := ih k' hk' (hAL k' hk') top htop h2 x hx
      refine ⟨rest, ?_⟩
      rcases ks with _ | ⟨k, _ | ⟨k2, t⟩⟩
      · simp at hk'
      · simp only [List.mem_singleton] at hk'
        subst hk'
        simpa [branchVal_node, cb_one] using hr
      · rw [branchVal_many]
        simp only [List.mem_flatMap, List.mem_map, closeAt]
        exact ⟨branchVal k', ⟨k', hk', rfl⟩, by simp [hr]⟩

/-- every member of the decomposition is `top :: x :: chain` (`top` the root or a furcation, `x` a child of `top`, then only children) -/
theorem branchesOf_chain (K : Int → List Int) (r : Rose) (hA : Agrees K r) (b : List Int) (hb : b ∈ branchesOf r) :
    ∃ top x rest, b = top :: x :: rest ∧ x ∈ K top ∧ DownOK K x rest := by
  obtain ⟨h1, rest, e, hd⟩ := chain_all K r hA
  simp only [branchesOf, finish] at hb
  split at hb
  · rename_i hlen
    simp only [List.mem_cons] at hb
    rcases hb with rfl | hb
    · rw [e]
      cases hd with
      | stop _ _ => rw [← List.length_reverse, e] at hlen; simp at hlen
      | step _ j rest' hK hd' => exact ⟨r.id, j, rest', rfl, by rw [hK]; simp, hd'⟩
    · obtain ⟨top, x, rest, e1, e2, _, e4⟩ := h1 b hb
      exact ⟨top, x, rest, e1, e2, e4⟩
  · obtain ⟨top, x, rest, e1, e2, _, e4⟩ := h1 b hb
    exact ⟨top, x, rest, e1, e2, e4⟩

/-- reading a bottom-up chain of `Node.branch` top-down: below its top it is a chain of only children -/
theorem upOK_reverse {K : Int → List Int} {pids : List Int} : ∀ {up : List Int}, UpOK K pids up →
    ∀ (c y : Int) (rest d : List Int), up = c :: y :: rest → DownOK K c d →
    ∃ top x tl, (y :: rest).reverse ++ c :: d = top :: x :: tl ∧ top ∈ y :: rest ∧ x ∈ K top ∧
      (2 ≤ (K top).length ∨ pids.getD top.toNat (-1) = -1) ∧ DownOK K x tl := by
  intro up h
  induction h with
  | top c _ => intro c' y rest d e; simp at e
  | step c y rest hnf hpar hne hmem hrest ih =>
    intro c' y' rest' d e hd
    simp only [List.cons.injEq] at e
    obtain ⟨rfl, rfl, rfl⟩ := e
    cases hrest with
    | top _ htop => exact ⟨y, c, d, by simp, by simp, hmem, htop, hd⟩
    | step _ y2 rest2 hnf2 hpar2 hne2 hmem2 hrest2 =>
      -- `y` is not a furcation and has `c` as a child: `c` is its only child
      have hKy : K y = [c] := by
        rcases hK : K y with _ | ⟨a, _ | ⟨b, t⟩⟩
        · rw [hK] at hmem; simp at hmem
        · rw [hK] at hmem; simp at hmem; rw [hmem]
        · rw [hK] at hnf2; simp at hnf2
      obtain ⟨top, x, tl, e, h0, h1, h2, h3⟩ := ih y y2 rest2 (c :: d) rfl (.step y c d hKy hd)
      exact ⟨top, x, tl, by simpa using e, List.mem_cons_of_mem _ h0, h1, h2, h3⟩

theorem mem_finish_of_closed (v : BVal) (b : List Int) (hb : b ∈ v.1) : b ∈ finish v := by
  simp only [finish]; split
  · exact List.mem_cons_of_mem _ hb
  · exact hb

/-- the stem: when the root has exactly one child `x`, `root :: x :: chain` is a member of the decomposition -/
theorem stem_mem (K : Int → List Int) (r : Rose) (hA : Agrees K r) (x : Int) (tl : List Int) (hK : K r.id = [x]) (hd : DownOK K x tl) :
    r.id :: x :: tl ∈ branchesOf r := by
  obtain ⟨_, rest, e, hd2⟩ := chain_all K r hA
  have := downOK_det hd2 (.step r.id x tl hK hd)
  subst this
  have hlen : (branchVal r).2.length > 1 := by rw [← List.length_reverse, e]; simp
  simp only [branchesOf, finish, hlen, if_true, ← e]
  exact List.mem_cons_self ..

/-- **`Tree.Node.branch` returns a branch of the decomposition** (model level): for a node `k` that is not a furcation, in a tree with at
least two nodes, the chain is a member of `branchesOf r` — the list `get_branches` computes — and contains `k` -/
theorem nodeBranch_mem_branchesOf (r : Rose) (pids : List Int) (h : C06.IsTree r pids) (k : Int) (h0 : 0 ≤ k) (hk : k < pids.length)
    (hn : 2 ≤ pids.length) (hnf : ¬ 2 ≤ (KK pids k).length) (F : Nat) (hF : pids.length + 1 ≤ F) :
    nodeBranch pids F k ∈ branchesOf r ∧ k ∈ nodeBranch pids F k := by
  have hw := Represent.represented_wf pids r h
  have hA : Agrees (KK pids) r := h.1.1
  have hD := Represent.D_le hw k h0 hk
  have hDp := Represent.D_pos pids k
  obtain ⟨hup, hhead⟩ := upC_ok hw F k h0 hk (by omega)
  have hdown := downC_ok hw F k h0 hk (by omega)
  have hval := upC_valid hw F k h0 hk
  -- a valid node without parent is the root
  have hroot : ∀ c : Int, 0 ≤ c → c < pids.length → pids.getD c.toNat (-1) = -1 → c = r.id := by
    intro c hc0 hcl hp
    rw [h.2.2.1]
    by_contra hne
    have := (hw.par_valid' c (by omega) hcl).1
    omega
  -- the root of a tree with two or more nodes has a child
  have hkids : KK pids r.id ≠ [] := by
    intro hnil
    have hs := C06.isTree_size h
    cases r with
    | node i ks =>
      simp only [Agrees, Rose.id] at hA hnil
      rw [hA.1] at hnil
      have : ks = [] := by simpa using hnil
      subst this
      simp [Rose.size, sizeL] at hs
      omega
  unfold nodeBranch
  generalize hu : upC (KK pids) pids F k = up at *
  generalize hdn : downC (KK pids) F k = down at *
  constructor
  · cases hup with
    | top c htop =>
      simp only [List.head?_cons, Option.some.injEq] at hhead
      subst hhead
      rcases htop with htop | htop
      · exact absurd htop hnf
      · have hk0 := hroot c h0 hk htop
        subst hk0
        cases hdown with
        | stop _ hc =>
          rcases hc with hc | hc
          · exact absurd (List.eq_nil_of_length_eq_zero hc) hkids
          · exact absurd hc hnf
        | step _ j rest hK hd => simpa using stem_mem _ _ hA j rest hK hd
    | step c y rest hnf' hpar hne hmem hrest =>
      simp only [List.head?_cons, Option.some.injEq] at hhead
      subst hhead
      obtain ⟨top, x, tl, e, htopm, hx, htop, hd⟩ := upOK_reverse (.step c y rest hnf' hpar hne hmem hrest) c y rest down rfl hdown
      have hv := hval top (List.mem_cons_of_mem _ htopm)
      have e' : (c :: y :: rest).reverse ++ down = top :: x :: tl := by rw [← e]; simp
      rw [e']
      by_cases h2 : 2 ≤ (KK pids top).length
      · have hm : top ∈ r.ids := (C06.isTree_mem h top).2 ⟨hv.1, by omega⟩
        obtain ⟨rest', hr'⟩ := cover_all _ r hA top hm h2 x hx
        obtain ⟨top', x', rest'', e1, _, _, hd'⟩ := (chain_all _ r hA).1 _ hr'
        simp only [List.cons.injEq] at e1
        obtain ⟨rfl, rfl, rfl⟩ := e1
        rw [downOK_det hd hd']
        exact mem_finish_of_closed _ _ hr'
      · have ht : pids.getD top.toNat (-1) = -1 := htop.resolve_left h2
        have ht0 := hroot top hv.1 hv.2 ht
        subst ht0
        have hKt : KK pids r.id = [x] := by
          rcases hK : KK pids r.id with _ | ⟨a, _ | ⟨b, t⟩⟩
          · rw [hK] at hx; simp at hx
          · rw [hK] at hx; simp at hx; rw [hx]
          · rw [hK] at h2; simp at h2
        exact stem_mem _ _ hA x tl hKt hd
  · have : k ∈ up := by
      cases up with
      | nil => simp at hhead
      | cons a t => simp only [List.head?_cons, Option.some.injEq] at hhead; simp [hhead]
    simp [this]

/-- **`Tree.Node.branch` as translated returns a branch of `get_branches`**: for every tree with at least two nodes, every node `k` that
is not a furcation and every fuel `≥ n + 1`, the generated method succeeds, and the chain it returns is a member of the decomposition
`branchesOf r` (= what the generated `get_branches` returns, `generated_getBranches_eq`) and contains `k`.  (That no OTHER member contains
a non-furcation `k` is not stated here.) -/
theorem generated_nodeBranch_mem_branches (r : Rose) (pids : List Int) (h : C06.IsTree r pids) (k : Int) (h0 : 0 ≤ k) (hk : k < pids.length)
    (hn : 2 ≤ pids.length) (hnf : ¬ 2 ≤ (tableKids (rangeI pids.length) pids k).length) (F : Nat) (hF : pids.length + 1 ≤ F) :
    ∃ b, node_branch F (rangeI pids.length) pids k = some b ∧ b ∈ branchesOf r ∧ k ∈ b := by
  refine ⟨_, generated_nodeBranch_eq_model r pids h k h0 hk F hF, ?_⟩
  exact nodeBranch_mem_branchesOf r pids h k h0 hk hn hnf F hF

/-- non-vacuity (kernel-evaluated) on `0 → 1 → {2, 3 → 4}`: from the interior node 3 and from the root -/
example : nodeBranch [-1, 0, 1, 1, 3] 6 3 ∈ branchesOf (.node 0 [.node 1 [.node 2 [], .node 3 [.node 4 []]]]) ∧
          nodeBranch [-1, 0, 1, 1, 3] 6 0 ∈ branchesOf (.node 0 [.node 1 [.node 2 [], .node 3 [.node 4 []]]]) := by decide +kernel

end C08
