import SwcVerif.Model.Images
import Mathlib.Algebra.Order.Field.Rat
import Mathlib.Algebra.Order.Floor.Ring
import Mathlib.Tactic.Linarith
import Mathlib.Tactic.FieldSimp
import Mathlib.Tactic.Ring
import Mathlib.Tactic.Positivity
import Mathlib.Tactic.NormNum
import Mathlib.Algebra.Order.Ring.Abs
/-! # C20 — image stacks survive save/load, and rasterised trees match their geometry (PARTIAL)

Theorems about the bookkeeping models of `Model/Images.lean`. The constants (`'ZXYC'`, `AXES_ORDER`,
`UINT_MAX`) are regenerated from `swcgeom/images/io.py` on every run. The codecs and the SDF sampler are
outside these theorems (see DESIGN.md §C20): this property is claimed as partial. -/
namespace C20
open Img

/-- the constants the models were written for -/
theorem consts_pinned :
    Gen.Consts.saveTiffAxes = "ZXYC" ∧
    Gen.Consts.axesOrder = [('X', 0), ('Y', 1), ('Z', 2), ('C', 3), ('I', 2)] ∧
    Gen.Consts.uintMax = [("np.dtype(np.uint8)", 255), ("np.dtype(np.uint16)", 65535), ("np.dtype(np.uint32)", 4294967295),
                          ("np.dtype(np.uint64)", 18446744073709551615)] := ⟨rfl, rfl, rfl⟩

/-! ### closed evaluations used below -/
theorem argsort4 : argsort [2, 0, 1, 3] = [1, 2, 0, 3] := by
  simp [argsort, List.mergeSort, List.MergeSort.Internal.splitInTwo, List.zipIdx]

theorem argsort3 : argsort [2, 0, 1] = [1, 2, 0] := by
  simp [argsort, List.mergeSort, List.MergeSort.Internal.splitInTwo, List.zipIdx]

theorem savedAxes_eq : savedAxes = ['Z', 'X', 'Y', 'C'] := by decide +kernel

theorem ao_X : axisOrder 'X' = some 0 := by decide +kernel

theorem ao_Y : axisOrder 'Y' = some 1 := by decide +kernel

theorem ao_Z : axisOrder 'Z' = some 2 := by decide +kernel

theorem ao_C : axisOrder 'C' = some 3 := by decide +kernel

theorem ao_Q : axisOrder 'Q' = none := by decide +kernel

/-- saving moves the Z axis to the front: element `(x, y, z, c)` is written at `(z, x, y, c)` -/
theorem save_puts_z_first (x y z c : Nat) : saveIdx [x, y, z, c] = [z, x, y, c] := by
  simp [saveIdx, moveaxisIdx]

/-- **axes round trip**: for every `(X, Y, Z, C)` index, reading back with the axes string that was written
returns the element to where it was — for every shape (size-1 axes and C ∈ {1, 3} included, since nothing
depends on the sizes) -/
theorem axes_roundtrip (x y z c : Nat) : loadIdx savedAxes (saveIdx [x, y, z, c]) = some [x, y, z, c] := by
  rw [save_puts_z_first, savedAxes_eq]
  simp [loadIdx, ao_X, ao_Y, ao_Z, ao_C, argsort4, transposeIdx]

/-- a 3-axis file (`ZXY`, no channel axis) comes back as `(X, Y, Z)` -/
theorem axes_roundtrip_3d (x y z : Nat) : loadIdx ['Z', 'X', 'Y'] [z, x, y] = some [x, y, z] := by
  simp [loadIdx, ao_X, ao_Y, ao_Z, argsort3, transposeIdx]

/-- an axis letter the table does not know makes the permutation undefined (the code then falls back to
`ZXYC` with a warning) -/
theorem unknown_axis (idx : List Nat) : loadIdx ['Z', 'Q', 'Y', 'C'] idx = none := by
  simp [loadIdx, ao_Z, ao_Q]

/-! ## rescaling -/

/-- **the documented integer/float rescaling**: floats are multiplied by `UINT_MAX` when stored / read as
unsigned integers, unsigned integers divided by their `UINT_MAX` when turned into floats, nothing else is scaled -/
theorem rescale_table (m m' : Nat) :
    saveFactor .float (.uint m) = (m, 1) ∧ saveFactor (.uint m) .float = (1, m) ∧
    saveFactor (.uint m) (.uint m') = (1, 1) ∧ saveFactor .float .float = (1, 1) ∧
    loadFactor (.uint m) .float = (1, m) ∧ loadFactor .float (.uint m) = (m, 1) ∧
    loadFactor (.uint m) (.uint m') = (1, 1) ∧ loadFactor .float .float = (1, 1) := by
  refine ⟨rfl, rfl, rfl, rfl, rfl, rfl, rfl, rfl⟩

/-- **uint → float → uint is the identity on exact values** -/
theorem uint_float_uint (m v : Nat) (hm : 0 < m) (hv : v ≤ m) :
    toUint (((v : Rat) * ((1 : Rat) / m)) * m) = v := by
  have _ := hv
  have hm' : (m : Rat) ≠ 0 := by exact_mod_cast (by omega : m ≠ 0)
  have : ((v : Rat) * ((1 : Rat) / m)) * m = ((v : Int) : Rat) := by
    field_simp
    simp
  rw [this]
  exact Rat.floor_intCast _

/-- float → uint → float loses at most one unit of `1 / UINT_MAX` (truncation) -/
theorem float_uint_float (m : Nat) (hm : 0 < m) (x : Rat) (h0 : 0 ≤ x) (h1 : x ≤ 1) :
    let back := ((toUint (x * m) : Int) : Rat) * ((1 : Rat) / m)
    back ≤ x ∧ x - back < (1 : Rat) / m := by
  have _ := h0; have _ := h1
  have hm' : (0 : Rat) < m := by exact_mod_cast hm
  have hle := Rat.floor_le (x * m)
  have hlt := Rat.lt_floor_add_one (x * m)
  push_cast at hlt
  simp only [toUint]
  constructor
  · rw [mul_one_div, div_le_iff₀ hm']; exact hle
  · rw [mul_one_div, ← sub_lt_iff_lt_add] at *
    rw [lt_div_iff₀ hm']
    have : (x - ((x * m).floor : Rat) / m) * m = x * m - ((x * m).floor : Rat) := by
      field_simp
    rw [this]; linarith

/-! ## the voxel grid -/

/-- **voxel centres are `min + (i + ½)·res`**, all of them inside `[min, max)`, and the grid stops exactly
when the next centre would reach `max`: the stack covers the bounding box -/
theorem grid_covers (lo hi res : Rat) (hres : 0 < res) :
    let cs := axisCentres lo hi res
    (∀ i (h : i < cs.length), cs[i] = lo + ((i : Rat) + 1 / 2) * res ∧ lo < cs[i] ∧ cs[i] < hi) ∧
    hi ≤ lo + ((cs.length : Rat) + 1 / 2) * res := by
  intro cs
  have hlen : cs.length = ((hi - (lo + res / 2)) / res).ceil.toNat := by simp [cs, axisCentres]
  have hget : ∀ i (h : i < cs.length), cs[i] = lo + res / 2 + (i : Rat) * res := by
    intro i h; simp [cs, axisCentres]
  set q := (hi - (lo + res / 2)) / res with hq
  have hqle : q ≤ (q.ceil : Rat) := Rat.le_ceil
  constructor
  · intro i h
    rw [hget i h]
    rw [hlen] at h
    have hi0 : (0 : Rat) ≤ (i : Rat) := Nat.cast_nonneg i
    have hlt : ((i : Int) : Rat) < q := Rat.lt_ceil_iff.mp (by omega)
    have hlt' : (i : Rat) < q := by simpa using hlt
    rw [hq, lt_div_iff₀ hres] at hlt'
    have : 0 ≤ (i : Rat) * res := mul_nonneg hi0 hres.le
    refine ⟨by ring, by linarith, by linarith⟩
  · rw [hlen]
    have hc : (q.ceil : Rat) ≤ ((q.ceil.toNat : Nat) : Rat) := by
      have : q.ceil ≤ ((q.ceil.toNat : Nat) : Int) := Int.self_le_toNat _
      exact_mod_cast this
    have h2 : q ≤ ((q.ceil.toNat : Nat) : Rat) := le_trans hqle hc
    rw [hq, div_le_iff₀ hres] at h2
    linarith

/-- a running minimum / maximum bounds its start value and every element -/
theorem foldl_min_le (l : List Rat) : ∀ (a : Rat),
    l.foldl (fun a b => if b < a then b else a) a ≤ a ∧
    ∀ x ∈ l, l.foldl (fun a b => if b < a then b else a) a ≤ x := by
  induction l with
  | nil => intro a; simp
  | cons b t ih =>
    intro a
    simp only [List.foldl_cons, List.mem_cons]
    have h := ih (if b < a then b else a)
    have hb : (if b < a then b else a) ≤ b := by split <;> [exact le_rfl; exact not_lt.mp ‹_›]
    have ha : (if b < a then b else a) ≤ a := by split <;> [exact le_of_lt ‹_›; exact le_rfl]
    refine ⟨le_trans h.1 ha, ?_⟩
    rintro x (rfl | hx)
    · exact le_trans h.1 hb
    · exact h.2 x hx

theorem le_foldl_max (l : List Rat) : ∀ (a : Rat),
    a ≤ l.foldl (fun a b => if b > a then b else a) a ∧
    ∀ x ∈ l, x ≤ l.foldl (fun a b => if b > a then b else a) a := by
  induction l with
  | nil => intro a; simp
  | cons b t ih =>
    intro a
    simp only [List.foldl_cons, List.mem_cons]
    have h := ih (if b > a then b else a)
    have hb : b ≤ (if b > a then b else a) := by split <;> [exact le_rfl; exact not_lt.mp ‹_›]
    have ha : a ≤ (if b > a then b else a) := by split <;> [exact le_of_lt ‹_›; exact le_rfl]
    refine ⟨le_trans ha h.1, ?_⟩
    rintro x (rfl | hx)
    · exact le_trans hb h.1
    · exact h.2 x hx

/-- the bounding box contains every node sphere along the axis, and its bounds are whole numbers -/
theorem bbox_contains (cs rs : List Rat) (hl : cs.length = rs.length) (hne : cs ≠ []) :
    (∃ a b : Int, (Img.bbox cs rs).1 = (a : Rat) ∧ (Img.bbox cs rs).2 = (b : Rat)) ∧
    ∀ k (h1 : k < cs.length) (h2 : k < rs.length),
      (Img.bbox cs rs).1 ≤ cs[k] - rs[k] ∧ cs[k] + rs[k] ≤ (Img.bbox cs rs).2 := by
  have _ := hl; have _ := hne
  refine ⟨⟨_, _, rfl, rfl⟩, ?_⟩
  intro k h1 h2
  simp only [Img.bbox]
  constructor
  · refine le_trans (Rat.floor_le _) ?_
    apply (foldl_min_le _ _).2
    refine List.mem_map.mpr ⟨(cs[k], rs[k]), ?_, rfl⟩
    rw [List.mem_iff_getElem]
    exact ⟨k, by simp [h1, h2], by simp⟩
  · refine le_trans ?_ Rat.le_ceil
    apply (le_foldl_max _ _).2
    refine List.mem_map.mpr ⟨(cs[k], rs[k]), ?_, rfl⟩
    rw [List.mem_iff_getElem]
    exact ⟨k, by simp [h1, h2], by simp⟩

/-- the two end balls of a round cone belong to it (`t = 0`, `t = 1` of the swept-sphere description) -/
theorem swept_ends (p a b : Rat × Rat × Rat) (ra rb : Rat) :
    (inSwept p a b ra rb 0 = true ↔
      (p.1 - a.1) * (p.1 - a.1) + (p.2.1 - a.2.1) * (p.2.1 - a.2.1) + (p.2.2 - a.2.2) * (p.2.2 - a.2.2) ≤ ra * ra) ∧
    (inSwept p a b ra rb 1 = true ↔
      (p.1 - b.1) * (p.1 - b.1) + (p.2.1 - b.2.1) * (p.2.1 - b.2.1) + (p.2.2 - b.2.2) * (p.2.2 - b.2.2) ≤ rb * rb) := by
  constructor
  · simp [inSwept]
  · simp [inSwept]

/-- triangle inequality in squared form for three coordinates (via Cauchy–Schwarz) -/
theorem sq_triangle (u1 u2 u3 v1 v2 v3 R S : Rat) (hR : 0 ≤ R) (hS : 0 ≤ S)
    (hu : u1 * u1 + u2 * u2 + u3 * u3 ≤ R * R) (hv : v1 * v1 + v2 * v2 + v3 * v3 ≤ S * S) :
    (u1 + v1) * (u1 + v1) + (u2 + v2) * (u2 + v2) + (u3 + v3) * (u3 + v3) ≤ (R + S) * (R + S) := by
  have hcs : (u1 * v1 + u2 * v2 + u3 * v3) ^ 2 ≤ (R * S) ^ 2 := by
    have h1 : (u1 * v1 + u2 * v2 + u3 * v3) ^ 2
        ≤ (u1 * u1 + u2 * u2 + u3 * u3) * (v1 * v1 + v2 * v2 + v3 * v3) := by
      nlinarith [sq_nonneg (u1 * v2 - u2 * v1), sq_nonneg (u1 * v3 - u3 * v1), sq_nonneg (u2 * v3 - u3 * v2)]
    have h2 : (u1 * u1 + u2 * u2 + u3 * u3) * (v1 * v1 + v2 * v2 + v3 * v3) ≤ (R * R) * (S * S) :=
      mul_le_mul hu hv (add_nonneg (add_nonneg (mul_self_nonneg _) (mul_self_nonneg _)) (mul_self_nonneg _))
        (mul_self_nonneg _)
    calc (u1 * v1 + u2 * v2 + u3 * v3) ^ 2 ≤ _ := h1
      _ ≤ _ := h2
      _ = (R * S) ^ 2 := by ring
  have hdot : u1 * v1 + u2 * v2 + u3 * v3 ≤ R * S := (abs_le_of_sq_le_sq' hcs (mul_nonneg hR hS)).2
  nlinarith [hdot, hu, hv]

/-- **an edge whose parent ball contains the child ball is exactly the parent ball**: when
`|a - b| ≤ ra - rb`, every ball swept between the two ends lies inside the ball at `a` (so the union the
property speaks of is that ball — the solid `_get_scene` adds for such an edge) -/
theorem contained_swept_in_ball (p a b : Rat × Rat × Rat) (ra rb t : Rat) (hrb : 0 ≤ rb) (hr : rb ≤ ra)
    (hc : edgeIsBall a b ra rb = true) (ht0 : 0 ≤ t) (ht1 : t ≤ 1) (h : inSwept p a b ra rb t = true) :
    inBall p (a, ra) = true := by
  obtain ⟨p1, p2, p3⟩ := p
  obtain ⟨a1, a2, a3⟩ := a
  obtain ⟨b1, b2, b3⟩ := b
  simp only [inSwept, inBall, edgeIsBall, sqd, decide_eq_true_eq] at *
  have hc := of_decide_eq_true hc
  have hd : 0 ≤ ra - rb := by linarith
  have hR : 0 ≤ ra + t * (rb - ra) := by
    have : ra + t * (rb - ra) = (1 - t) * ra + t * rb := by ring
    rw [this]
    exact add_nonneg (mul_nonneg (by linarith) (by linarith)) (mul_nonneg ht0 hrb)
  have hS : 0 ≤ t * (ra - rb) := mul_nonneg ht0 hd
  have hv : (t * (b1 - a1)) * (t * (b1 - a1)) + (t * (b2 - a2)) * (t * (b2 - a2))
      + (t * (b3 - a3)) * (t * (b3 - a3)) ≤ (t * (ra - rb)) * (t * (ra - rb)) := by
    have := mul_le_mul_of_nonneg_left hc (mul_nonneg ht0 ht0)
    calc _ = t * t * ((a1 - b1) * (a1 - b1) + (a2 - b2) * (a2 - b2) + (a3 - b3) * (a3 - b3)) := by ring
      _ ≤ _ := this
      _ = _ := by ring
  have key := sq_triangle _ _ _ _ _ _ _ _ hR hS h hv
  refine decide_eq_true ?_
  calc _ = (p1 - (a1 + t * (b1 - a1)) + t * (b1 - a1)) * (p1 - (a1 + t * (b1 - a1)) + t * (b1 - a1))
        + (p2 - (a2 + t * (b2 - a2)) + t * (b2 - a2)) * (p2 - (a2 + t * (b2 - a2)) + t * (b2 - a2))
        + (p3 - (a3 + t * (b3 - a3)) + t * (b3 - a3)) * (p3 - (a3 + t * (b3 - a3)) + t * (b3 - a3)) := by ring
    _ ≤ _ := key
    _ = ra * ra := by ring

/-- the mirror case: the child ball contains the parent ball -/
theorem contained_swept_in_ball' (p a b : Rat × Rat × Rat) (ra rb t : Rat) (hra : 0 ≤ ra) (hr : ra ≤ rb)
    (hc : edgeIsBall a b ra rb = true) (ht0 : 0 ≤ t) (ht1 : t ≤ 1) (h : inSwept p a b ra rb t = true) :
    inBall p (b, rb) = true := by
  obtain ⟨p1, p2, p3⟩ := p
  obtain ⟨a1, a2, a3⟩ := a
  obtain ⟨b1, b2, b3⟩ := b
  simp only [inSwept, inBall, edgeIsBall, sqd, decide_eq_true_eq] at *
  have hc := of_decide_eq_true hc
  have hd : 0 ≤ rb - ra := by linarith
  have hR : 0 ≤ ra + t * (rb - ra) := by
    have : ra + t * (rb - ra) = (1 - t) * ra + t * rb := by ring
    rw [this]
    exact add_nonneg (mul_nonneg (by linarith) hra) (mul_nonneg ht0 (by linarith))
  have hS : 0 ≤ (1 - t) * (rb - ra) := mul_nonneg (by linarith) hd
  have hv : ((1 - t) * (a1 - b1)) * ((1 - t) * (a1 - b1)) + ((1 - t) * (a2 - b2)) * ((1 - t) * (a2 - b2))
      + ((1 - t) * (a3 - b3)) * ((1 - t) * (a3 - b3)) ≤ ((1 - t) * (rb - ra)) * ((1 - t) * (rb - ra)) := by
    have h1t : (0 : Rat) ≤ 1 - t := by linarith
    have := mul_le_mul_of_nonneg_left hc (mul_nonneg h1t h1t)
    calc _ = (1 - t) * (1 - t) * ((a1 - b1) * (a1 - b1) + (a2 - b2) * (a2 - b2) + (a3 - b3) * (a3 - b3)) := by ring
      _ ≤ _ := this
      _ = _ := by ring
  have key := sq_triangle _ _ _ _ _ _ _ _ hR hS h hv
  refine decide_eq_true ?_
  calc _ = (p1 - (a1 + t * (b1 - a1)) + (1 - t) * (a1 - b1)) * (p1 - (a1 + t * (b1 - a1)) + (1 - t) * (a1 - b1))
        + (p2 - (a2 + t * (b2 - a2)) + (1 - t) * (a2 - b2)) * (p2 - (a2 + t * (b2 - a2)) + (1 - t) * (a2 - b2))
        + (p3 - (a3 + t * (b3 - a3)) + (1 - t) * (a3 - b3)) * (p3 - (a3 + t * (b3 - a3)) + (1 - t) * (a3 - b3)) := by ring
    _ ≤ _ := key
    _ = rb * rb := by ring

/-- **the solid chosen for a degenerate edge is the union of its swept balls**: for non-negative radii, a
point lies in some swept ball (`t ∈ [0, 1]`) iff it lies in `edgeBall` -/
theorem degenerate_edge_is_ball (p a b : Rat × Rat × Rat) (ra rb : Rat) (hra : 0 ≤ ra) (hrb : 0 ≤ rb)
    (hc : edgeIsBall a b ra rb = true) :
    (∃ t, 0 ≤ t ∧ t ≤ 1 ∧ inSwept p a b ra rb t = true) ↔ inBall p (edgeBall a b ra rb) = true := by
  by_cases hge : ra ≥ rb
  · have hE : edgeBall a b ra rb = (a, ra) := by simp [edgeBall, hge]
    rw [hE]
    constructor
    · rintro ⟨t, ht0, ht1, h⟩
      exact contained_swept_in_ball p a b ra rb t hrb hge hc ht0 ht1 h
    · intro h
      refine ⟨0, le_rfl, zero_le_one, ?_⟩
      rw [(swept_ends p a b ra rb).1]
      simpa [inBall, sqd, decide_eq_true_eq] using of_decide_eq_true h
  · have hlt : ra ≤ rb := le_of_lt (not_le.mp hge)
    have hE : edgeBall a b ra rb = (b, rb) := by simp [edgeBall, hge]
    rw [hE]
    constructor
    · rintro ⟨t, ht0, ht1, h⟩
      exact contained_swept_in_ball' p a b ra rb t hra hlt hc ht0 ht1 h
    · intro h
      refine ⟨1, zero_le_one, le_rfl, ?_⟩
      rw [(swept_ends p a b ra rb).2]
      simpa [inBall, sqd, decide_eq_true_eq] using of_decide_eq_true h

/-- two nodes at the same position always form a degenerate edge (the case in which the round-cone distance
is not even defined) -/
theorem coincident_is_ball (a : Rat × Rat × Rat) (ra rb : Rat) : edgeIsBall a a ra rb = true := by
  simp only [edgeIsBall, sqd, decide_eq_true_eq, sub_self, mul_zero, add_zero]
  exact mul_self_nonneg _

-- non-vacuity / concrete behaviour
example : edgeIsBall (0, 0, 0) (0, 1/3, -1/3) 1 (1/2) = true := by decide +kernel
example : edgeIsBall (0, 0, 0) (0, 1/2, -1/2) 1 (1/2) = false := by decide +kernel
example : edgeBall (0, 0, 0) (0, 1/3, -1/3) (1/2) 1 = ((0, 1/3, -1/3), 1) := by decide +kernel
example : axisCentres (-2) 3 1 = [-3/2, -1/2, 1/2, 3/2, 5/2] := by decide +kernel
example : axisCentres 0 2 (1/2) = [1/4, 3/4, 5/4, 7/4] := by decide +kernel
example : Img.bbox [0, 1/3] [1, 1/2] = (-1, 1) := by decide +kernel

end C20
