import SwcVerif.Model.Images
import Mathlib.Algebra.Order.Field.Rat
import Mathlib.Algebra.Order.Floor.Ring
import Mathlib.Tactic.Linarith
import Mathlib.Tactic.FieldSimp
import Mathlib.Tactic.Ring
/-! # C20 — image stacks survive save/load, and rasterised trees match their geometry (PARTIAL)

Theorems about the bookkeeping models of `Model/Images.lean`. The constants (`'ZXYC'`, `AXES_ORDER`,
`UINT_MAX`) are regenerated from `swcgeom/images/io.py` on every run. The codecs and the SDF sampler are
outside these theorems (see DESIGN.md §C20): this property is claimed as partial. -/
namespace C20
open Img

/-- the constants the models were written for -/
theorem consts_pinned :
    Gen.Consts.saveTiffAxes = "ZXYC" ∧
    Gen.Consts.axesOrder = [('X', 0), ('Y', 1), ('Z', 2), ('C', 3), ('I', 2)] ∧
    Gen.Consts.uintMax = [("np.dtype(np.uint8)", 255), ("np.dtype(np.uint16)", 65535), ("np.dtype(np.uint32)", 4294967295),
                          ("np.dtype(np.uint64)", 18446744073709551615)] := by
  sorry

/-- saving moves the Z axis to the front: element `(x, y, z, c)` is written at `(z, x, y, c)` -/
theorem save_puts_z_first (x y z c : Nat) : saveIdx [x, y, z, c] = [z, x, y, c] := by
  sorry

/-- **axes round trip**: for every `(X, Y, Z, C)` index, reading back with the axes string that was written
returns the element to where it was — for every shape (size-1 axes and C ∈ {1, 3} included, since nothing
depends on the sizes) -/
theorem axes_roundtrip (x y z c : Nat) : loadIdx savedAxes (saveIdx [x, y, z, c]) = some [x, y, z, c] := by
  sorry

/-- a 3-axis file (`ZXY`, no channel axis) comes back as `(X, Y, Z)` -/
theorem axes_roundtrip_3d (x y z : Nat) : loadIdx ['Z', 'X', 'Y'] [z, x, y] = some [x, y, z] := by
  sorry

/-- an axis letter the table does not know makes the permutation undefined (the code then falls back to
`ZXYC` with a warning) -/
theorem unknown_axis (idx : List Nat) : loadIdx ['Z', 'Q', 'Y', 'C'] idx = none := by
  sorry

/-! ## rescaling -/

/-- **the documented integer/float rescaling**: floats are multiplied by `UINT_MAX` when stored / read as
unsigned integers, unsigned integers divided by their `UINT_MAX` when turned into floats, nothing else is scaled -/
theorem rescale_table (m m' : Nat) :
    saveFactor .float (.uint m) = (m, 1) ∧ saveFactor (.uint m) .float = (1, m) ∧
    saveFactor (.uint m) (.uint m') = (1, 1) ∧ saveFactor .float .float = (1, 1) ∧
    loadFactor (.uint m) .float = (1, m) ∧ loadFactor .float (.uint m) = (m, 1) ∧
    loadFactor (.uint m) (.uint m') = (1, 1) ∧ loadFactor .float .float = (1, 1) := by
  sorry

/-- **uint → float → uint is the identity on exact values** -/
theorem uint_float_uint (m v : Nat) (hm : 0 < m) (hv : v ≤ m) :
    toUint (((v : Rat) * ((1 : Rat) / m)) * m) = v := by
  sorry

/-- float → uint → float loses at most one unit of `1 / UINT_MAX` (truncation) -/
theorem float_uint_float (m : Nat) (hm : 0 < m) (x : Rat) (h0 : 0 ≤ x) (h1 : x ≤ 1) :
    let back := ((toUint (x * m) : Int) : Rat) * ((1 : Rat) / m)
    back ≤ x ∧ x - back < (1 : Rat) / m := by
  sorry

/-! ## the voxel grid -/

/-- **voxel centres are `min + (i + ½)·res`**, all of them inside `[min, max)`, and the grid stops exactly
when the next centre would reach `max`: the stack covers the bounding box -/
theorem grid_covers (lo hi res : Rat) (hres : 0 < res) :
    let cs := axisCentres lo hi res
    (∀ i (h : i < cs.length), cs[i] = lo + ((i : Rat) + 1 / 2) * res ∧ lo < cs[i] ∧ cs[i] < hi) ∧
    hi ≤ lo + ((cs.length : Rat) + 1 / 2) * res := by
  sorry

/-- the bounding box contains every node sphere along the axis, and its bounds are whole numbers -/
theorem bbox_contains (cs rs : List Rat) (hl : cs.length = rs.length) (hne : cs ≠ []) :
    (∃ a b : Int, (Img.bbox cs rs).1 = (a : Rat) ∧ (Img.bbox cs rs).2 = (b : Rat)) ∧
    ∀ k (h1 : k < cs.length) (h2 : k < rs.length),
      (Img.bbox cs rs).1 ≤ cs[k] - rs[k] ∧ cs[k] + rs[k] ≤ (Img.bbox cs rs).2 := by
  sorry

/-- the two end balls of a round cone belong to it (`t = 0`, `t = 1` of the swept-sphere description) -/
theorem swept_ends (p a b : Rat × Rat × Rat) (ra rb : Rat) :
    (inSwept p a b ra rb 0 = true ↔
      (p.1 - a.1) * (p.1 - a.1) + (p.2.1 - a.2.1) * (p.2.1 - a.2.1) + (p.2.2 - a.2.2) * (p.2.2 - a.2.2) ≤ ra * ra) ∧
    (inSwept p a b ra rb 1 = true ↔
      (p.1 - b.1) * (p.1 - b.1) + (p.2.1 - b.2.1) * (p.2.1 - b.2.1) + (p.2.2 - b.2.2) * (p.2.2 - b.2.2) ≤ rb * rb) := by
  sorry

-- non-vacuity / concrete behaviour
example : axisCentres (-2) 3 1 = [-3/2, -1/2, 1/2, 3/2, 5/2] := by decide +kernel
example : axisCentres 0 2 (1/2) = [1/4, 3/4, 5/4, 7/4] := by decide +kernel
example : Img.bbox [0, 1/3] [1, 1/2] = (-1, 1) := by decide +kernel

end C20
