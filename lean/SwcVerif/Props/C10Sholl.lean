import SwcVerif.Props.C10
import SwcVerif.Refine.Sholl
/-! # C10, Sholl analysis and the feature front end, tied to the source by the translator

`Gen/AlgoSholl.lean` is regenerated on every run from `swcgeom/analysis/sholl.py` (`Sholl.__init__`, `intersect`, `get`, `get_rs`, `_get_rs`),
`core/tree.py` (`Tree.get_segments`, `get_compartments`) and `core/compartment.py` (`Compartments.get_ndata`, `Compartment.get_ndata`);
`Gen/AlgoFeatFront.lean` from `analysis/feature_extractor.py` (`PopulationFeatureExtractor._get_impl`, `PopulationsFeatureExtractor._get_impl`).
The theorems below are about those definitions AS TRANSLATED, run at `K = Rat`; the per-node root distances `rad` and the per-tree value
vectors are data (the geometry glue is listed in `harness/algo_specs/45_sholl.py`). -/
namespace C10
open Feat Gen.Algo RefineSholl

/-- the end radii of the segments `(pid[i], i)`, `i = 1 .. n-1`, as pairs (parent, child) -/
def segPairs (pids : List Int) (rad : List Rat) : List (Rat × Rat) :=
  (List.range (pids.length - 1)).map fun (k : Nat) => (rad.getD (pids.getD (k + 1) 0).toNat 0, rad.getD (k + 1) 0)

theorem segRadii_rows (pids : List Int) (rad : List Rat) : segRadii pids rad = rows (segPairs pids rad) := by
  simp only [segRadii, rows, segPairs, List.map_map]
  rfl

/-- the translated straddle count over the segment pairs is the hand-written model's `Feat.shollCount` -/
theorem count_eq_shollCount (pids : List Int) (rad : List Rat) (r : Rat) :
    count (segPairs pids rad) r = ((shollCount pids (fun i => rad.getD i.toNat 0) r : Nat) : Int) := by
  unfold count shollCount segPairs
  congr 1
  have e : (rangeI pids.length).drop 1 = (List.range (pids.length - 1)).map fun (k : Nat) => ((k + 1 : Nat) : Int) := by
    unfold rangeI Sub.rangeI
    cases h : pids.length with
    | zero => simp
    | succ m => rw [List.range_succ_eq_map]; simp [Function.comp_def]
  rw [e, List.filter_map, List.filter_map, List.length_map, List.length_map]
  congr 1

/-- **`Sholl(tree)` as translated** (every tree table with ids = positions and at least two nodes, every assignment of root distances):
nothing raises, `rs` holds for every segment `(pid[i], i)` the root distances of its parent end and its child end, in row order -/
theorem generated_sholl_init (pids : List Int) (rad : List Rat) (step : Option Rat) (hp : ParentsInRange pids)
    (hl : rad.length = pids.length) (hn : 2 ≤ pids.length) :
    ∃ m, sholl_init (Py.range pids.length) pids rad step
      = some (rows (segPairs pids rad), m, step, (if step.isSome then [stepWarning] else []), .ok ()) := by
  obtain ⟨m, _, h⟩ := init_refines pids rad step hp hl hn
  exact ⟨m, by rw [h, segRadii_rows]⟩

/-- **a single-node tree is refused** with `ValueError("invalid tree: …")` -/
theorem generated_sholl_init_single (p : Int) (r0 : Rat) (step : Option Rat) :
    (sholl_init (Py.range 1) [p] [r0] step).map (fun r => r.2.2.2.2) = some (.error ⟨"ValueError", "invalid tree: {tree.source or ''}", []⟩) :=
  init_single p r0 step

/-- **`Sholl(tree).intersect(r)` as translated is the model's straddle count, for every tree and every radius**: the number of parent–child
pairs with `rad parent ≤ r < rad child` or `rad child ≤ r < rad parent` (`sholl_eq_straddle_count`) -/
theorem generated_sholl_intersect (pids : List Int) (rad : List Rat) (step : Option Rat) (hp : ParentsInRange pids)
    (hl : rad.length = pids.length) (hn : 2 ≤ pids.length) :
    ∃ rs m w, sholl_init (Py.range pids.length) pids rad step = some (rs, m, step, w, .ok ()) ∧
      ∀ r, sholl_intersect rs r = some ((shollCount pids (fun i => rad.getD i.toNat 0) r : Nat) : Int) ∧
        shollCount pids (fun i => rad.getD i.toNat 0) r =
          (((rangeI pids.length).drop 1).filter fun i =>
            decide ((rad.getD (pids.getD i.toNat 0).toNat 0 ≤ r ∧ r < rad.getD i.toNat 0) ∨
                    (rad.getD i.toNat 0 ≤ r ∧ r < rad.getD (pids.getD i.toNat 0).toNat 0))).length := by
  obtain ⟨m, h⟩ := generated_sholl_init pids rad step hp hl hn
  refine ⟨_, m, _, h, fun r => ⟨?_, sholl_eq_straddle_count pids _ r⟩⟩
  rw [intersect_refines, ← count_eq_shollCount]; rfl

/-- **`Sholl.get(steps=[r₀, r₁, …])` as translated is `intersect` at every radius, in order** (= the model's counts); an empty list raises -/
theorem generated_sholl_get (pids : List Int) (rad : List Rat) (rmax : Rat) (steps : List Rat) (hs : steps ≠ []) :
    sholl_get_arr Py.ratFld (rows (segPairs pids rad)) rmax none steps
      = some (steps.map fun r => ((shollCount pids (fun i => rad.getD i.toNat 0) r : Nat) : Int)) ∧
    sholl_get_arr Py.ratFld (rows (segPairs pids rad)) rmax none steps = steps.mapM (sholl_intersect (rows (segPairs pids rad))) ∧
    sholl_get_arr Py.ratFld (rows (segPairs pids rad)) rmax none [] = none := by
  refine ⟨?_, get_arr_eq_intersect _ _ _ _ hs, by rw [get_arr_refines]; rfl⟩
  rw [get_arr_refines, if_neg hs]
  congr 1
  exact List.map_congr_left fun r _ => count_eq_shollCount pids rad r

/-- **`Sholl.get(steps=k)` as translated** (an integer step count, or the legacy `Sholl(x, step=…)`): the counts at the radii `_get_rs`
computes — `np.arange(s, rmax, s)` with `s = rmax / (k + 1)`, resp. `np.arange(step, ceil(rmax), step)` -/
theorem generated_sholl_get_steps (pids : List Int) (rad : List Rat) (rmax : Rat) (sstep : Option Rat) (k : Int) :
    sholl_get_int Py.ratFld (rows (segPairs pids rad)) rmax sstep k =
      (match sstep with
        | some st => Py.Sh.arange st ((Py.Fld.ceil rmax : Int) : Rat) st
        | none => (Py.fdiv rmax ((k + 1 : Int) : Rat)).bind fun s => Py.Sh.arange s rmax s).bind fun radii =>
      if radii = [] then none else some (radii.map fun r => ((shollCount pids (fun i => rad.getD i.toNat 0) r : Nat) : Int)) := by
  rw [get_int_refines, get_rs_self_int_eq]
  have e : ∀ radii : List Rat, (if radii = [] then none else some (radii.map (count (segPairs pids rad)))) =
      (if radii = [] then none else some (radii.map fun r => ((shollCount pids (fun i => rad.getD i.toNat 0) r : Nat) : Int))) := by
    intro radii
    by_cases h : radii = []
    · simp [h]
    · rw [if_neg h, if_neg h]
      congr 1
      exact List.map_congr_left fun r _ => count_eq_shollCount pids rad r
  simp only [e]
  cases sstep <;> rfl

/-! ## the front end -/

theorem padRows_eq_stackRows (vals : List (List Rat)) : padRows vals = stackRows vals := by
  unfold padRows stackRows
  apply List.map_congr_left
  intro v hv
  exact (FeatP.pad_eq _ _ (maxLen_ge vals v hv)).symm

/-- **`extract_feature(population).get(f)` as translated** (`PopulationFeatureExtractor._get_impl` on the trees' value vectors): for EVERY
non-empty population and value vectors of any lengths (empty ones included) nothing raises and the answer is the model's `stackRows` —
one row per tree, row `i` = tree `i`'s vector followed by zeros, width = the longest vector (`population_rows`) -/
theorem generated_population_rows (vals : List (List Rat)) (hne : vals ≠ []) :
    population_get_impl vals = some (stackRows vals) ∧
    (stackRows vals).length = vals.length ∧
    ∀ k (h : k < vals.length) (h' : k < (stackRows vals).length),
      ∃ m, (∀ v ∈ vals, v.length ≤ m) ∧ (stackRows vals)[k] = vals[k] ++ List.replicate (m - vals[k].length) 0 := by
  refine ⟨?_, population_rows vals⟩
  rw [population_refines, if_neg hne, padRows_eq_stackRows]

/-- **`extract_feature(populations).get(f)` as translated** (`PopulationsFeatureExtractor._get_impl` on the trees' value vectors): for EVERY
collection with at least one tree in total — one population with one tree included, where `max(*xs)` raised (D31); populations of
different sizes, empty populations, empty vectors — nothing raises and the answer has one block per population, every block has as many
rows as the largest population, row `j` of block `i` is tree `j` of population `i`'s vector followed by zeros up to the longest vector of
the whole collection, and the rows beyond a population's trees are zero -/
theorem generated_populations_blocks (vals : List (List (List Rat))) (hne : vals.flatten ≠ []) :
    ∃ out, populations_get_impl vals = some out ∧ out.length = vals.length ∧
      ∀ i (hi : i < vals.length) (hi' : i < out.length),
        out[i].length = maxLen vals ∧
        (∀ j (hj : j < vals[i].length) (hj' : j < out[i].length),
          out[i][j] = vals[i][j] ++ List.replicate (maxLen vals.flatten - vals[i][j].length) 0) ∧
        (∀ j (hj' : j < out[i].length), vals[i].length ≤ j → out[i][j] = List.replicate (maxLen vals.flatten) 0) := by
  refine ⟨_, by rw [populations_refines, if_neg hne], by simp, ?_⟩
  intro i hi hi'
  have hle : vals[i].length ≤ maxLen vals := maxLen_ge vals _ (List.getElem_mem hi)
  simp only [List.getElem_map, blockOf]
  refine ⟨by simp; omega, ?_, ?_⟩
  · intro j hj hj'
    rw [List.getElem_append_left (by simpa using hj)]
    simp [padF]
  · intro j hj' hge
    rw [List.getElem_append_right (by simpa using hge)]
    simp

/-- with no tree at all the call raises (`max()` of an empty sequence) -/
theorem generated_populations_empty (vals : List (List (List Rat))) (h : vals.flatten = []) : populations_get_impl vals = none := by
  rw [populations_refines, if_pos h]

-- non-vacuity (kernel-evaluated): the tree of `C10.exP` with root distances 0, 2, 3, 5, 1
def exRad : List Rat := [0, 2, 3, 5, 1]
example : (match sholl_init (Py.range 5) exP exRad none with
    | some (rs, m, s, w, .ok _) => decide (rs = [[0, 2], [2, 3], [2, 5], [0, 1]] ∧ m = 5 ∧ s = none ∧ w = [])
    | _ => false) = true := by decide +kernel
example : (match sholl_init (Py.range 1) [-1] [(0 : Rat)] none with | some (_, _, _, _, .error e) => e.kind == "ValueError" | _ => false) = true := by
  decide +kernel
example : [1, 2, 5/2, 3, 5, 6].map (sholl_intersect (K := Rat) [[0, 2], [2, 3], [2, 5], [0, 1]]) = [some 1, some 2, some 2, some 1, some 0, some 0] := by
  decide +kernel
example : sholl_get_arr Py.ratFld [[0, 2], [2, 3], [2, 5], [0, 1]] 5 none [5/2, 1] = some [2, 1] ∧
          sholl_get_int Py.ratFld [[0, 2], [2, 3], [2, 5], [0, 1]] 8 none 3 = some [2, 1, 0] ∧
          sholl_get_rs_self_int Py.ratFld (8 : Rat) none 3 = some [2, 4, 6] ∧
          sholl_get_rs_self_int Py.ratFld (8 : Rat) (some (3/2)) 3 = some [3/2, 3, 9/2, 6, 15/2] := by decide +kernel
example : ParentsInRange exP := by unfold ParentsInRange exP; decide +kernel
example : population_get_impl (K := Rat) [[1, 2, 3], [4], []] = some [[1, 2, 3], [4, 0, 0], [0, 0, 0]] ∧
          population_get_impl (K := Rat) [[], []] = some [[], []] ∧ population_get_impl (K := Rat) [] = none := by decide +kernel
example : populations_get_impl (K := Rat) [[[1, 2], [3]], [[4]]] = some [[[1, 2], [3, 0]], [[4, 0], [0, 0]]] ∧
          populations_get_impl (K := Rat) [[[5]]] = some [[[5]]] ∧ populations_get_impl (K := Rat) [[], [[1]]] = some [[[0]], [[1]]] := by decide +kernel

end C10
