import SwcVerif.Proofs.Polyline
import SwcVerif.Props.C16
/-! # C16 — "total length never grows"

The resamplers (`BranchIsometricResampler`, `BranchLinearResampler`) apply `np.interp` column by column with
the cumulated segment lengths as abscissae.  Here the three coordinate columns of the rational model
(`Resample.interp`) are read as points of Euclidean 3-space, and the polyline through the resampled points is
shown to be no longer — in the Euclidean norm, with real square roots — than the polyline through the
original points.  The abscissae `xp` only have to be sorted: the statement does not depend on how exactly the
code's floating-point arc lengths approximate the true ones. -/
set_option linter.unusedVariables false
namespace C16
open Resample Polyline

abbrev E3 := EuclideanSpace ℝ (Fin 3)

/-- the point with rational coordinates `(a, b, c)` -/
noncomputable def pt (a b c : ℚ) : E3 := !₂[(a : ℝ), (b : ℝ), (c : ℝ)]

/-- the points whose coordinate columns are `X`, `Y`, `Z` -/
noncomputable def pts : List ℚ → List ℚ → List ℚ → List E3
  | a :: X, b :: Y, c :: Z => pt a b c :: pts X Y Z
  | _, _, _ => []

/-- Euclidean length of the polyline whose coordinate columns are `X`, `Y`, `Z` -/
noncomputable def polylineLength (X Y Z : List ℚ) : ℝ := plen (pts X Y Z)

private theorem pt_lin (a b c a' b' c' t : ℚ) :
    pt a b c + (t : ℝ) • (pt a' b' c' - pt a b c) =
      pt (a + t * (a' - a)) (b + t * (b' - b)) (c + t * (c' - c)) := by
  ext i
  fin_cases i <;> simp [pt]

private theorem mono_cast : ∀ l : List ℚ, Mono l → MonoR (l.map fun q : ℚ => (q : ℝ))
  | [], _ => trivial
  | [_], _ => trivial
  | a :: b :: t, h => ⟨by show (a : ℝ) ≤ (b : ℝ); exact_mod_cast h.1, mono_cast (b :: t) h.2⟩

/-- the column-wise rational interpolation is the point-wise one -/
private theorem go_pts (x : ℚ) : ∀ (xr X Y Z : List ℚ) (xa a b c : ℚ), X.length = Y.length → Y.length = Z.length →
    goV (x : ℝ) (xa : ℝ) (pt a b c) (xr.map fun q : ℚ => (q : ℝ)) (pts X Y Z) =
      pt (interp1.go x xa a xr X) (interp1.go x xa b xr Y) (interp1.go x xa c xr Z)
  | [], X, Y, Z, xa, a, b, c, _, _ => by
    cases X <;> cases Y <;> cases Z <;> simp [goV, pts, interp1.go]
  | xb :: xr, [], [], [], xa, a, b, c, _, _ => by simp [goV, pts, interp1.go]
  | xb :: xr, [], _ :: _, _, xa, a, b, c, h, _ => by simp at h
  | xb :: xr, _ :: _, [], _, xa, a, b, c, h, _ => by simp at h
  | xb :: xr, _ :: _, _ :: _, [], xa, a, b, c, _, h => by simp at h
  | xb :: xr, [], [], _ :: _, xa, a, b, c, _, h => by simp at h
  | xb :: xr, a' :: X, b' :: Y, c' :: Z, xa, a, b, c, h1, h2 => by
    simp only [pts, List.map_cons, goV, go_cons]
    by_cases h : x < xb
    · have h' : (x : ℝ) < (xb : ℝ) := by exact_mod_cast h
      rw [if_pos h, if_pos h, if_pos h, if_pos h']
      have := pt_lin a b c a' b' c' ((x - xa) / (xb - xa))
      push_cast at this
      rw [this]
      congr 1 <;> ring
    · have h' : ¬ (x : ℝ) < (xb : ℝ) := by exact_mod_cast h
      rw [if_neg h, if_neg h, if_neg h, if_neg h']
      exact go_pts x xr X Y Z xb a' b' c' (by simpa using h1) (by simpa using h2)

private theorem interp_pts (xp X Y Z : List ℚ) (hXY : X.length = Y.length) (hYZ : Y.length = Z.length)
    (hX : X.length = xp.length) (x : ℚ) :
    pt (interp1 xp X x) (interp1 xp Y x) (interp1 xp Z x) =
      interpV (xp.map fun q : ℚ => (q : ℝ)) (pts X Y Z) (x : ℝ) := by
  match xp, X, Y, Z, hXY, hYZ, hX with
  | [], [], [], [], _, _, _ =>
    simp only [interp1, List.map_nil, interpV, pts]
    ext i; fin_cases i <;> simp [pt]
  | [], _ :: _, _, _, _, _, h => simp at h
  | _ :: _, [], _, _, _, _, h => simp at h
  | _ :: _, _ :: _, [], _, h, _, _ => simp at h
  | _ :: _, _ :: _, _ :: _, [], _, h, _ => simp at h
  | [], [], _ :: _, _, h, _, _ => simp at h
  | [], [], [], _ :: _, _, h, _ => simp at h
  | x0 :: xr, a :: X, b :: Y, c :: Z, h1, h2, _ =>
    simp only [interp1, List.map_cons, interpV, pts]
    by_cases h : x < x0
    · have h' : (x : ℝ) < (x0 : ℝ) := by exact_mod_cast h
      rw [if_pos h, if_pos h, if_pos h, if_pos h']
    · have h' : ¬ (x : ℝ) < (x0 : ℝ) := by exact_mod_cast h
      rw [if_neg h, if_neg h, if_neg h, if_neg h']
      exact (go_pts x xr X Y Z x0 a b c (by simpa using h1) (by simpa using h2)).symm

private theorem pts_interp (xp X Y Z : List ℚ) (hXY : X.length = Y.length) (hYZ : Y.length = Z.length)
    (hX : X.length = xp.length) : ∀ pos : List ℚ,
    pts (interp pos xp X) (interp pos xp Y) (interp pos xp Z) =
      (pos.map fun q : ℚ => (q : ℝ)).map (interpV (xp.map fun q : ℚ => (q : ℝ)) (pts X Y Z))
  | [] => rfl
  | x :: pos => by
    simp only [interp, List.map_cons, pts]
    rw [interp_pts xp X Y Z hXY hYZ hX x]
    congr 1
    exact pts_interp xp X Y Z hXY hYZ hX pos

/-- **resampling never makes a branch longer**: for sorted abscissae `xp` (the code's cumulated segment
lengths) and sorted sample positions `pos` starting at or after `xp`'s first entry, the polyline through the
points `np.interp(pos, xp, ·)` of the three coordinate columns is no longer than the polyline through the
original points — in true Euclidean length -/
theorem resample_length_le (xp X Y Z pos : List ℚ) (hXY : X.length = Y.length) (hYZ : Y.length = Z.length)
    (hX : X.length = xp.length) (hxp : Mono xp) (hpos : Mono pos)
    (h0 : ∀ x0 ∈ xp.head?, ∀ a ∈ pos.head?, x0 ≤ a) :
    polylineLength (interp pos xp X) (interp pos xp Y) (interp pos xp Z) ≤ polylineLength X Y Z := by
  unfold polylineLength
  rw [pts_interp xp X Y Z hXY hYZ hX pos]
  apply plen_samples_le _ _ (mono_cast xp hxp) _ (mono_cast pos hpos)
  intro x0 hx0 a ha
  cases xp with
  | nil => simp at hx0
  | cons x0' xr =>
    cases pos with
    | nil => simp at ha
    | cons a' s =>
      simp at hx0 ha
      subst hx0 ha
      exact_mod_cast h0 x0' (by simp) a' (by simp)

private theorem mono_of_steps : ∀ (l : List ℚ), (∀ i (h : i + 1 < l.length), l[i]'(by omega) ≤ l[i + 1]) → Mono l := by
  intro l
  induction l with
  | nil => intro _; trivial
  | cons a t ih =>
    intro h
    cases t with
    | nil => trivial
    | cons b t =>
      refine ⟨by simpa using h 0 (by simp), ih ?_⟩
      intro i hi
      have := h (i + 1) (by simpa using hi)
      simpa only [List.getElem_cons_succ] using this

/-- the positions `np.linspace(0, L, n)` are sorted when `L ≥ 0` -/
theorem linspace_mono (L : ℚ) (hL : 0 ≤ L) (n : Nat) : Mono (linspace L n) := by
  by_cases hn : 2 ≤ n
  · apply mono_of_steps
    intro i hi
    have hlen := linspace_length L n
    rw [linspace_getElem L n hn i (by omega), linspace_getElem L n hn (i + 1) hi]
    have hi' : i + 1 < n := by omega
    have hpos : (0 : ℚ) < ((n - 1 : Nat) : ℚ) := by exact_mod_cast (by omega : 0 < n - 1)
    have hstep : 0 ≤ L / ((n - 1 : Nat) : ℚ) := div_nonneg hL hpos.le
    rw [if_neg (by omega)]
    by_cases hlast : i + 1 + 1 = n
    · rw [if_pos hlast]
      have : (i : ℚ) ≤ ((n - 1 : Nat) : ℚ) := by exact_mod_cast (by omega : i ≤ n - 1)
      calc (i : ℚ) * (L / ((n - 1 : Nat) : ℚ)) ≤ ((n - 1 : Nat) : ℚ) * (L / ((n - 1 : Nat) : ℚ)) :=
            mul_le_mul_of_nonneg_right this hstep
        _ = L := by field_simp
    · rw [if_neg hlast]
      push_cast
      nlinarith
  · have : n = 0 ∨ n = 1 := by omega
    rcases this with rfl | rfl <;> simp [linspace, Mono]

/-- **`BranchLinearResampler` never makes a branch longer** (every `n`, every branch with segment lengths `≥ 0`) -/
theorem linearResample_length_le (lens X Y Z : List ℚ) (n : Nat) (hl : ∀ l ∈ lens, 0 ≤ l)
    (hXY : X.length = Y.length) (hYZ : Y.length = Z.length) (hX : X.length = lens.length + 1) :
    ∀ X' Y' Z', linearResample lens [X, Y, Z] n = [X', Y', Z'] →
      polylineLength X' Y' Z' ≤ polylineLength X Y Z := by
  intro X' Y' Z' h
  obtain ⟨hlen, hhead, hlast, hmono⟩ := cumdist_spec lens hl
  have hL : 0 ≤ (cumdist lens).getLastD 0 := by
    have : (cumdist lens).getLastD 0 = lens.sum := by
      rw [List.getLastD_eq_getLast?, hlast]; rfl
    rw [this]; exact List.sum_nonneg hl
  simp only [linearResample, List.map_cons, List.map_nil, List.cons.injEq, and_true] at h
  obtain ⟨rfl, rfl, rfl⟩ := h
  apply resample_length_le _ X Y Z _ hXY hYZ (by rw [hX, hlen]) hmono (linspace_mono _ hL n)
  intro x0 hx0 a ha
  rw [hhead] at hx0
  simp at hx0
  subst hx0
  -- the first position is 0
  by_cases hn : 2 ≤ n
  · rw [(linspace_spec _ n hn).2.1] at ha
    simp at ha; rw [← ha]
  · have : n = 0 ∨ n = 1 := by omega
    rcases this with rfl | rfl
    · simp [linspace] at ha
    · simp [linspace] at ha; rw [← ha]

/-- the isometric positions are sorted and start at 0, with or without `adjust_last_gap` -/
theorem isoPositions_mono (L d : ℚ) (hL : 0 ≤ L) (hd : 0 < d) (adj : Bool) :
    Mono (isoPositions L d adj) ∧ ∀ a ∈ (isoPositions L d adj).head?, (0 : ℚ) ≤ a := by
  rcases eq_or_lt_of_le hL with h0 | hpos
  · subst h0; rw [isoPositions_zero d hd adj]; simp [Mono]
  · cases adj with
    | true =>
      rw [isoPositions_adjust L d hpos hd]
      have h2 := (iso_step_le L d hpos hd).1
      refine ⟨linspace_mono L hL _, ?_⟩
      rw [(linspace_spec L _ h2).2.1]; simp
    | false =>
      obtain ⟨hlen, _, _, hstep⟩ := isoPositions_noadjust L d hpos hd
      refine ⟨mono_of_steps _ (fun i h => by have := (hstep i h).2; linarith), ?_⟩
      have hq : 0 < L / d := div_pos hpos hd
      have h1 := ceil_pos hq
      have hpos' : isoPositions L d false = arange L d ++ [L] := by simp [isoPositions]
      rw [hpos']
      obtain ⟨m, hm⟩ : ∃ m, (L / d).ceil.toNat = m + 1 := ⟨(L / d).ceil.toNat - 1, by omega⟩
      simp [arange, hm, List.range_succ_eq_map]

/-- **`BranchIsometricResampler` never makes a branch longer** (every spacing `d > 0`, both gap modes, every
branch with segment lengths `≥ 0`) -/
theorem isoResample_length_le (lens X Y Z : List ℚ) (d : ℚ) (hd : 0 < d) (adj : Bool) (hl : ∀ l ∈ lens, 0 ≤ l)
    (hXY : X.length = Y.length) (hYZ : Y.length = Z.length) (hX : X.length = lens.length + 1) :
    ∀ X' Y' Z', isoResample lens [X, Y, Z] d adj = [X', Y', Z'] →
      polylineLength X' Y' Z' ≤ polylineLength X Y Z := by
  intro X' Y' Z' h
  obtain ⟨hlen, hhead, hlast, hmono⟩ := cumdist_spec lens hl
  have hL : 0 ≤ (cumdist lens).getLastD 0 := by
    have : (cumdist lens).getLastD 0 = lens.sum := by
      rw [List.getLastD_eq_getLast?, hlast]; rfl
    rw [this]; exact List.sum_nonneg hl
  simp only [isoResample, List.map_cons, List.map_nil, List.cons.injEq, and_true] at h
  obtain ⟨rfl, rfl, rfl⟩ := h
  obtain ⟨hm, hfirst⟩ := isoPositions_mono _ d hL hd adj
  apply resample_length_le _ X Y Z _ hXY hYZ (by rw [hX, hlen]) hmono hm
  intro x0 hx0 a ha
  rw [hhead] at hx0
  simp at hx0
  subst hx0
  exact hfirst a ha

-- non-vacuity: a right-angled path (0,0,0) → (3,0,0) → (3,4,0) of length 7 resampled to its two end points has length 5
example : linearResample [3, 4] [[0, 3, 3], [0, 0, 4], [0, 0, 0]] 2 = [[0, 3], [0, 4], [0, 0]] := by decide +kernel

end C16
