import SwcVerif.Props.C05Gen
import SwcVerif.Refine.Redirect
import SwcVerif.Gen.AlgoSortWrap
import SwcVerif.Refine.Ctor
/-! # C05: the wrapper the user calls, `tree_utils.sort_tree`, tied to the source by the translator (T41)

`Gen.Algo.sort_tree` is regenerated from `swcgeom/core/tree_utils.py::sort_tree` (`return _sort_tree(tree.copy())`) on every run
(`harness/algo_specs/72_helpers.py`); the tree is its columns `ids`, `pids`, `types`, the copy is the local columns (trusted: `Tree.copy()` is a
deep copy, `C09.generated_copy`).  The wrapper is a function of its arguments (the caller's columns are not touched: FRAME, by construction
of the translation and observed by the c05 suite), and its result is the generated `_sort_tree` on those columns. -/
namespace C05
open SortM Gen.Algo

/-- the wrapper is the generated `_sort_tree` applied to (a copy of) the columns: for EVERY input and every fuel, errors alike -/
theorem generated_sort_tree_eq (F : Nat) (ids pids types : List Int) : sort_tree F ids pids types = sort_tree_ F ids pids types := by
  simp only [sort_tree, sort_tree.body, Py.bind]
  cases h : sort_tree_ F ids pids types <;> simp [Py.finish]

/-- **`sort_tree(tree)` on every tree table** (any distinct ids, any row order, root anywhere, one further per-node column `types`): it
raises nothing; the new ids are `0..n-1`, the new parents those of the structural pre-order, and the per-node column is carried along by the
same row permutation (`C05.generated_sort_ok` for the wrapper; `sort_perm`, `sort_parent`, `sort_columns`, … speak about this record).
Fuel `n + 1` suffices. -/
theorem generated_sort_tree_ok (r : Rose) (ids pids types : List Int) (h : IsTreeTable r ids pids) (hlt : types.length = ids.length) (F : Nat) :
    sort_tree (ids.length + 1 + F) ids pids types =
      some (Py.range (ids.length : Int), (pre r (-1) 0).map (·.2),
            permute types ((pre r (-1) 0).map (fun op => indexOf ids op.1)), ()) := by
  have hnd : ids.Nodup := h.2.1.nodup_iff.1 h.1.2
  rw [generated_sort_tree_eq]
  exact RefineRedirect.sortTree_refines ids pids types hnd h.2.2.1.symm hlt _ (sort_ok r ids pids h) F

/-- non-vacuity (kernel-evaluated): a shuffled table with a gap in the ids -/
example : sort_tree 6 [7, 3, 9, 4] [3, -1, 3, 9] [1, 2, 3, 4] = some ([0, 1, 2, 3], [-1, 0, 1, 0], [2, 3, 4, 1], ()) := by
  decide +kernel

/-! ## the table forms the user calls: `sort_nodes_` (in place; also the step of `read_swc(sort_nodes=True)`) and `sort_nodes` (copying)

`Gen.Algo.sort_nodes_` (Gen/AlgoRepair.lean) and `Gen.Algo.sort_nodes` (Gen/AlgoCtor.lean) are regenerated from
`swcgeom/core/swc_utils/normalizer.py`; a frame is its columns `ids`, `pids`, `types`, `rs` (two topology columns, two further per-node columns). -/

/-- **`sort_nodes_(df)` as translated**, whenever the model's renumbering succeeds on a table with distinct ids: every column is gathered by the row
permutation, then the two topology columns are replaced by `arange(n)` / the new parents -/
theorem sortNodes_refines (ids pids types rs : List Int) (hnd : ids.Nodup) (hlp : pids.length = ids.length) (hlt : types.length = ids.length)
    (hlr : rs.length = ids.length) (r : Result) (h : sortNodesImpl ids pids = .ok r) (F : Nat) :
    sort_nodes_ (ids.length + 1 + F) ids pids types rs =
      some (Py.range (ids.length : Int), r.newPids, permute types r.indices, permute rs r.indices, ()) := by
  have hs := RefineSort.sort_refines ids pids hnd r h F
  have hlt' := RefineRedirect.indices_lt ids pids r h
  have t1 := RefineRedirect.take_of_lt ids r.indices hlt'
  have t2 := RefineRedirect.take_of_lt pids r.indices (by rw [hlp]; exact hlt')
  have t3 := RefineRedirect.take_of_lt types r.indices (by rw [hlt]; exact hlt')
  have t4 := RefineRedirect.take_of_lt rs r.indices (by rw [hlr]; exact hlt')
  simp only [sort_nodes_, sort_nodes_.body, Py.seq, Py.bind, hs, t1, t2, t3, t4, Py.finish]
  simp

/-- **`sort_nodes_(df)` on every tree table**: raises nothing; ids `0..n-1`, the pre-order parents, both per-node columns carried along by the same row
permutation (`C05.generated_sort_ok` for the in-place table form). Fuel `n + 1` suffices. -/
theorem generated_sort_nodes_inplace_ok (r : Rose) (ids pids types rs : List Int) (h : IsTreeTable r ids pids) (hlt : types.length = ids.length)
    (hlr : rs.length = ids.length) (F : Nat) :
    sort_nodes_ (ids.length + 1 + F) ids pids types rs =
      some (Py.range (ids.length : Int), (pre r (-1) 0).map (·.2),
            permute types ((pre r (-1) 0).map (fun op => indexOf ids op.1)),
            permute rs ((pre r (-1) 0).map (fun op => indexOf ids op.1)), ()) :=
  sortNodes_refines ids pids types rs (h.2.1.nodup_iff.1 h.1.2) h.2.2.1.symm hlt hlr _ (sort_ok r ids pids h) F

/-- the sorted table of a frame: ids `0..n-1`, the pre-order parents, the per-node columns permuted by the pre-order rows -/
def sortedFrame (r : Rose) (fr : Py.Frame) : Py.Frame :=
  ⟨Py.range (fr.ids.length : Int), (pre r (-1) 0).map (·.2), permute fr.types ((pre r (-1) 0).map (fun op => indexOf fr.ids op.1)),
   permute fr.rs ((pre r (-1) 0).map (fun op => indexOf fr.ids op.1))⟩

/-- **`sort_nodes(df)` (the copying form) on every tree table**: it allocates ONE new frame, which holds the sorted table, and returns its reference;
FRAME: every frame that existed before - the argument included - is unchanged (`heap` is a prefix of the new heap). -/
theorem generated_sort_nodes_ok (r : Rose) (heap : Py.Frames) (df : Int) (fr : Py.Frame) (hget : Py.Frames.get? heap df = some fr)
    (h : IsTreeTable r fr.ids fr.pids) (hlt : fr.types.length = fr.ids.length) (hlr : fr.rs.length = fr.ids.length) (F : Nat) :
    sort_nodes (fr.ids.length + 1 + F) heap df =
      some (heap ++ [sortedFrame r fr], (heap.length : Int)) ∧
    Py.Frames.get? (heap ++ [sortedFrame r fr]) df = some fr := by
  refine ⟨?_, RefineCtor.get?_old heap _ df fr hget⟩
  rw [RefineCtor.sort_nodes_eq, hget]
  simp [generated_sort_nodes_inplace_ok r fr.ids fr.pids fr.types fr.rs h hlt hlr F, sortedFrame]

/-- non-vacuity (kernel-evaluated) -/
example : sort_nodes_ 6 [7, 3, 9, 4] [3, -1, 3, 9] [1, 2, 3, 4] [10, 20, 30, 40] =
    some ([0, 1, 2, 3], [-1, 0, 1, 0], [2, 3, 4, 1], [20, 30, 40, 10], ()) := by decide +kernel

end C05
