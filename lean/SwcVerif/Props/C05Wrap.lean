import SwcVerif.Props.C05Gen
import SwcVerif.Refine.Redirect
import SwcVerif.Gen.AlgoSortWrap
/-! # C05: the wrapper the user calls, `tree_utils.sort_tree`, tied to the source by the translator (T41)

`Gen.Algo.sort_tree` is regenerated from `swcgeom/core/tree_utils.py::sort_tree` (`return _sort_tree(tree.copy())`) on every run
(`harness/algo_specs/72_helpers.py`); the tree is its columns `ids`, `pids`, `types`, the copy is the local columns (trusted: `Tree.copy()` is a
deep copy, `C09.generated_copy`).  The wrapper is a function of its arguments (the caller's columns are not touched: FRAME, by construction
of the translation and observed by the c05 suite), and its result is the generated `_sort_tree` on those columns. -/
namespace C05
open SortM Gen.Algo

/-- the wrapper is the generated `_sort_tree` applied to (a copy of) the columns: for EVERY input and every fuel, errors alike -/
theorem generated_sort_tree_eq (F : Nat) (ids pids types : List Int) : sort_tree F ids pids types = sort_tree_ F ids pids types := by
  simp only [sort_tree, sort_tree.body, Py.bind]
  cases h : sort_tree_ F ids pids types <;> simp [Py.finish]

/-- **`sort_tree(tree)` on every tree table** (any distinct ids, any row order, root anywhere, one further per-node column `types`): it
raises nothing; the new ids are `0..n-1`, the new parents those of the structural pre-order, and the per-node column is carried along by the
same row permutation (`C05.generated_sort_ok` for the wrapper; `sort_perm`, `sort_parent`, `sort_columns`, … speak about this record).
Fuel `n + 1` suffices. -/
theorem generated_sort_tree_ok (r : Rose) (ids pids types : List Int) (h : IsTreeTable r ids pids) (hlt : types.length = ids.length) (F : Nat) :
    sort_tree (ids.length + 1 + F) ids pids types =
      some (Py.range (ids.length : Int), (pre r (-1) 0).map (·.2),
            permute types ((pre r (-1) 0).map (fun op => indexOf ids op.1)), ()) := by
  have hnd : ids.Nodup := h.2.1.nodup_iff.1 h.1.2
  rw [generated_sort_tree_eq]
  exact RefineRedirect.sortTree_refines ids pids types hnd h.2.2.1.symm hlt _ (sort_ok r ids pids h) F

/-- non-vacuity (kernel-evaluated): a shuffled table with a gap in the ids -/
example : sort_tree 6 [7, 3, 9, 4] [3, -1, 3, 9] [1, 2, 3, 4] = some ([0, 1, 2, 3], [-1, 0, 1, 0], [2, 3, 4, 1], ()) := by
  decide +kernel

end C05
