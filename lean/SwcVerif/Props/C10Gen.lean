import SwcVerif.Props.C10
import SwcVerif.Refine.LMeasure
import SwcVerif.Proofs.Represent
/-! # C10, tied to the source by the translator

The topological L-Measure functions `LMeasure.branch_order / n_stems / n_tips / n_bifs / n_branch / terminal_degree / fragmentation` of
`swcgeom/analysis/lmeasure.py`, with `Tree.soma`, `Tree.get_tips`, `Tree.Node.subtree`, `SWCLike.number_of_edges` and the node-handle methods
they call, are regenerated on every run (`Gen/AlgoLMeasure.lean`, `Gen/AlgoNode.lean`) and run on the translated traversal.  The theorems below
state that the definitions AS TRANSLATED return the quantities of their textbook definitions on every well-formed tree object (ids =
positions; `C07.WF pids`, or `C06.IsTree r pids` — equivalent by `Represent.wf_represented` / `represented_wf`), for every fuel above a stated
bound (so the loops terminate and nothing raises). -/
namespace C10
open Feat Gen.Algo

/-- **`LMeasure.branch_order` as translated is the number of furcations on the way to the root** (the node and the root included), at every
node of every well-formed tree, for every fuel `≥ n + 2` -/
theorem generated_branch_order (pids : List Int) (hw : C07.WF pids) (k : Nat) (hk : k < pids.length) (F : Nat) :
    lm_branch_order (pids.length + 2 + F) (Sub.rangeI pids.length) pids (k : Int)
      = some ((((Redir.rootPath pids pids.length (k : Int)).filter (Sub.isFurcation pids)).length : Nat) : Int) := by
  rw [← branch_order_eq_furcations_on_path pids hw k hk]
  exact RefineLm.branchOrder_refines pids hw k hk F

/-- the translated function and the hand-written model agree -/
theorem generated_branch_order_eq_model (pids : List Int) (hw : C07.WF pids) (k : Nat) (hk : k < pids.length) (F : Nat) :
    lm_branch_order (pids.length + 2 + F) (Sub.rangeI pids.length) pids (k : Int)
      = some ((branchOrder pids (pids.length + 1) (k : Int) : Nat) : Int) :=
  RefineLm.branchOrder_refines pids hw k hk F

/-- **`LMeasure.n_stems` as translated is the number of children of node 0** when the first row is typed as soma; otherwise it raises
(`Tree.soma`'s `ValueError`) -/
theorem generated_n_stems (pids types : List Int) (hn : 0 < pids.length) :
    (types.head? = some Gen.Consts.type_soma →
      lm_n_stems (Sub.rangeI pids.length) pids types = some (((tableKids (Sub.rangeI pids.length) pids 0).length : Nat) : Int)) ∧
    (types.head? ≠ some Gen.Consts.type_soma → lm_n_stems (Sub.rangeI pids.length) pids types = none) := by
  have := RefineLm.nStems_refines pids types hn
  have e : nStems pids = (tableKids (Sub.rangeI pids.length) pids 0).length := FeatP.nStems_eq pids
  constructor
  · intro h; rw [← e]; simpa [h] using this
  · intro h; simpa [h] using this

/-- **`LMeasure.n_tips` as translated is the number of childless nodes** (rows that no row names as its parent) -/
theorem generated_n_tips (pids types : List Int) :
    lm_n_tips (Sub.rangeI pids.length) pids types
      = some ((((Sub.rangeI pids.length).filter fun i => tableKids (Sub.rangeI pids.length) pids i = []).length : Nat) : Int) := by
  have hd : (Sub.rangeI pids.length).Nodup := FeatP.rangeI_nodup _
  rw [RefineLm.nTips_refines _ pids types hd]
  congr 3
  unfold Branches.getTips
  apply List.filter_congr
  intro i _
  have := C08.tableKids_nil_iff (Sub.rangeI pids.length) pids (by simp [rangeI, Sub.rangeI]) i
  by_cases hc : i ∈ pids <;> simp [hc, this]

/-- … which, on a tree, is the number of leaves of the rose -/
theorem generated_n_tips_tree (pids types : List Int) (r : Rose) (h : C06.IsTree r pids) :
    lm_n_tips (Sub.rangeI pids.length) pids types = some (((C08.tipsOf r).length : Nat) : Int) := by
  have hd : (Sub.rangeI pids.length).Nodup := FeatP.rangeI_nodup _
  rw [RefineLm.nTips_refines _ pids types hd, ← (counts pids r h).1]
  rfl

/-- **`LMeasure.n_bifs` as translated is the number of nodes with two or more children**, for every fuel `≥ 2n + 1` -/
theorem generated_n_bifs (pids types : List Int) (r : Rose) (h : C06.IsTree r pids) (F : Nat) :
    lm_n_bifs (2 * pids.length + F + 1) (Sub.rangeI pids.length) pids types
      = some ((((Sub.rangeI pids.length).filter fun i => decide (2 ≤ (tableKids (Sub.rangeI pids.length) pids i).length)).length : Nat) : Int) := by
  rw [RefineLm.nBifs_refines pids types r h F]
  congr 3
  apply List.filter_congr
  intro i _
  have := C06.isFurcation_iff pids i
  by_cases hc : Sub.isFurcation pids i = true
  · simp [hc, this.1 hc]
  · have h2 : ¬ 2 ≤ (tableKids (Sub.rangeI pids.length) pids i).length := fun c => hc (this.2 c)
    simp [hc, h2]

/-- **`LMeasure.n_branch` as translated is the number of branches** of C08's edge partition -/
theorem generated_n_branch (pids types : List Int) (r : Rose) (h : C06.IsTree r pids) (F : Nat) :
    lm_n_branch (2 * pids.length + F + 1) (Sub.rangeI pids.length) pids types = some (((C08.branchesOf r).length : Nat) : Int) :=
  RefineLm.nBranch_refines pids types r h F

/-- **`LMeasure.fragmentation` as translated is the number of compartments of the branch** -/
theorem generated_fragmentation (b : List Int) (hb : b ≠ []) :
    lm_fragmentation b = some (((C08.pairs b).length : Nat) : Int) := by
  rw [(RefineLm.fragmentation_refines b).2 hb, fragmentation_eq]

/-- **`LMeasure.terminal_degree` as translated is the number of tips at or below the node**: for the subtree `s` hanging at any node of a tree
object, the translated `node.subtree().get_tips()` (translated `get_subtree_impl` over the translated traversal, `to_sub_topology`, then
`np.setdiff1d` on the NEW table) counts exactly the nodes of `s` that no row names as its parent; this is the model's `terminalDegree`.
Every fuel `≥ 2·|s| + 1` suffices. -/
theorem generated_terminal_degree (pids : List Int) (s : Rose) (h : Represents s (Sub.rangeI pids.length) pids)
    (hin : ∀ i ∈ s.ids, 0 ≤ i ∧ i.toNat < pids.length) (F : Nat) :
    lm_terminal_degree (2 * s.size + F + 1) (Sub.rangeI pids.length) pids s.id
        = some (((s.ids.filter fun v => !pids.contains v).length : Nat) : Int) ∧
    lm_terminal_degree (2 * s.size + F + 1) (Sub.rangeI pids.length) pids s.id = some ((terminalDegree pids s.id : Nat) : Int) := by
  have := RefineLm.terminalDegree_refines pids s h hin F
  exact ⟨this, by rw [this, terminal_degree_eq_tips_below pids s h hin]⟩

/-- … at every node of every well-formed tree (`C07.WF`), with the fuel the driver uses (`2n + 3`) or more -/
theorem generated_terminal_degree_wf (pids : List Int) (hw : C07.WF pids) (k : Nat) (hk : k < pids.length) (F : Nat) :
    ∃ s : Rose, s.id = (k : Int) ∧ Represents s (Sub.rangeI pids.length) pids ∧
      lm_terminal_degree (2 * pids.length + F + 1) (Sub.rangeI pids.length) pids (k : Int)
        = some (((s.ids.filter fun v => !pids.contains v).length : Nat) : Int) := by
  obtain ⟨s, hid, hr, hin⟩ := Represent.wf_subtree_represented pids hw k hk
  refine ⟨s, hid, hr, ?_⟩
  have hsz : s.size ≤ pids.length := C06.rose_size_le s _ hr.2 hin
  have := (generated_terminal_degree pids s hr hin (2 * (pids.length - s.size) + F)).1
  rw [hid] at this
  rw [← this]
  congr 1
  omega

-- non-vacuity (kernel-evaluated): the tree of `C10.exP` (root 0 with children 1 and 4; 1 with children 2 and 3)
example : (Sub.rangeI 5).map (lm_branch_order 7 (Sub.rangeI 5) exP) = [some 1, some 2, some 2, some 2, some 1] := by decide +kernel
example : lm_n_stems (Sub.rangeI 5) exP [1, 3, 3, 3, 3] = some 2 ∧ lm_n_stems (Sub.rangeI 5) exP [3, 3, 3, 3, 3] = none ∧
          lm_n_tips (Sub.rangeI 5) exP [] = some 3 ∧ lm_n_bifs 11 (Sub.rangeI 5) exP [] = some 2 ∧ lm_n_branch 11 (Sub.rangeI 5) exP [] = some 4 ∧
          lm_fragmentation [1, 3, 4] = some 2 ∧
          (Sub.rangeI 5).map (lm_terminal_degree 13 (Sub.rangeI 5) exP) = [some 3, some 2, some 1, some 1, some 1] ∧
          lm_partition_asymmetry 13 (Sub.rangeI 5) exP 0 = some (1, 1) ∧ lm_partition_asymmetry 13 (Sub.rangeI 5) exP 2 = none := by decide +kernel
example : C07.WF exP := by unfold C07.WF; decide +kernel

end C10
