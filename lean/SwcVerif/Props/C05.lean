import SwcVerif.Model.Sort
import SwcVerif.Proofs.Sort
/-! # C05 — node renumbering is a pure relabelling with parents before children

Theorems about the model `SortM.sortNodesImpl` of `sort_nodes_impl` (the stack loop; tied to the code by
the `c05.sort` correspondence, which compares new parents, row indices and id map exactly).
`sort_nodes_`, `_sort_tree` and `read_swc(sort_nodes=True)` apply the returned row permutation to every
column (`SortM.permute`). -/
namespace C05
open SortM

-- rows `(old id, new parent id)` emitted for a subtree whose root gets new parent `p` and new id `k`;
-- kids are emitted from the last to the first (the stack pops the most recently pushed child first)
mutual
def pre : Rose → Int → Nat → List (Int × Int)
  | .node i ks, p, k => (i, p) :: preRev ks k (k + 1)
def preRev : List Rose → Nat → Nat → List (Int × Int)
  | [], _, _ => []
  | r :: rs, par, k =>
    let a := preRev rs par k
    a ++ pre r par (k + a.length)
end

-- the (parent, child) edges of a rose
mutual
def edges : Rose → List (Int × Int)
  | .node i ks => ks.map (fun k => (i, k.id)) ++ edgesL ks
def edgesL : List Rose → List (Int × Int)
  | [] => []
  | r :: rs => edges r ++ edgesL rs
end

/-- the table is exactly the tree `r`: children agree, ids distinct, the table has no other rows, and the
only row without a parent is `r`'s root (arbitrary distinct ids, arbitrary row order, root anywhere) -/
def IsTreeTable (r : Rose) (ids pids : List Int) : Prop :=
  Represents r ids pids ∧ r.ids.Perm ids ∧ ids.length = pids.length ∧
  countRoots pids = 1 ∧ firstRoot ids pids = some r.id

/-! ### helper lemmas: the machine against `pre` -/

mutual
theorem pre_length : ∀ (r : Rose) (p : Int) (k : Nat), (pre r p k).length = r.size
  | .node i ks, p, k => by simp [pre, Rose.size, preRev_length ks k (k+1)]; omega
theorem preRev_length : ∀ (ks : List Rose) (par k : Nat), (preRev ks par k).length = sizeL ks
  | [], _, _ => by simp [preRev, sizeL]
  | r :: rs, par, k => by
    simp [preRev, sizeL, preRev_length rs par k, pre_length r]; omega
end

mutual
theorem main (kidsOf : Int → List Int) : ∀ (r : Rose), Agrees kidsOf r →
    ∀ (rest : List (Int × Int)) (out : List (Int × Int)) (p : Int),
    run kidsOf r.size ⟨(r.id, p) :: rest, out⟩ = ⟨rest, out ++ pre r p out.length⟩
  | .node i ks, hA, rest, out, p => by
    simp only [Agrees] at hA
    obtain ⟨hk, hAL⟩ := hA
    have e : (Rose.node i ks).size = 1 + sizeL ks := by simp [Rose.size]
    rw [e, run_add]
    have h1 : run kidsOf 1 ⟨((Rose.node i ks).id, p) :: rest, out⟩ =
        ⟨(ks.map (fun c => (c.id, (out.length : Int)))).reverse ++ rest, out ++ [(i, p)]⟩ := by
      simp [run, step, Rose.id, hk, List.map_map, Function.comp_def]
    rw [h1]
    have := mainL kidsOf ks hAL rest (out ++ [(i, p)]) out.length
    rw [this]
    simp [pre]
theorem mainL (kidsOf : Int → List Int) : ∀ (ks : List Rose), AgreesL kidsOf ks →
    ∀ (rest : List (Int × Int)) (out : List (Int × Int)) (par : Nat),
    run kidsOf (sizeL ks) ⟨(ks.map (fun c => (c.id, (par : Int)))).reverse ++ rest, out⟩
      = ⟨rest, out ++ preRev ks par out.length⟩
  | [], _, rest, out, par => by simp [sizeL, run, preRev]
  | r :: rs, hA, rest, out, par => by
    simp only [AgreesL] at hA
    obtain ⟨hAr, hArs⟩ := hA
    have e : sizeL (r :: rs) = sizeL rs + r.size := by simp [sizeL]; omega
    rw [e, run_add]
    have hstack : ((r :: rs).map (fun c => (c.id, (par : Int)))).reverse ++ rest
        = (rs.map (fun c => (c.id, (par : Int)))).reverse ++ ((r.id, (par : Int)) :: rest) := by simp
    rw [hstack, mainL kidsOf rs hArs, main kidsOf r hAr]
    simp [preRev]
end

-- the emitted old ids are a permutation of the tree's ids
mutual
theorem pre_perm : ∀ (r : Rose) (p : Int) (k : Nat), ((pre r p k).map (·.1)).Perm r.ids
  | .node i ks, p, k => by
    simp only [pre, List.map_cons, Rose.ids]
    exact List.Perm.cons _ (preRev_perm ks k (k+1))
theorem preRev_perm : ∀ (ks : List Rose) (par k : Nat), ((preRev ks par k).map (·.1)).Perm (idsL ks)
  | [], _, _ => by simp [preRev, idsL]
  | r :: rs, par, k => by
    simp only [preRev, List.map_append, idsL]
    exact (List.perm_append_comm).trans ((pre_perm r _ _).append (preRev_perm rs par k))
end

theorem pre_head (r : Rose) (p : Int) (k : Nat) : (pre r p k)[0]? = some (r.id, p) := by
  cases r; simp [pre, Rose.id]

-- parent structure: every row but the first names a strictly earlier row of the same block, and the
-- (old id of that row, old id of this row) pair is an edge of the tree
mutual
theorem pre_parent : ∀ (r : Rose) (p : Int) (k : Nat) (j : Nat) (o q : Int),
    (pre r p k)[j]? = some (o, q) → 0 < j →
    ∃ m o' q', m < j ∧ q = ((k + m : Nat) : Int) ∧ (pre r p k)[m]? = some (o', q') ∧ (o', o) ∈ edges r
  | .node i ks, p, k, j, o, q, h, hj => by
    cases j with
    | zero => omega
    | succ j =>
      simp only [pre, List.getElem?_cons_succ] at h
      rcases preRev_parent ks k (k+1) j o q h with ⟨hq, ho⟩ | ⟨m, o', q', hm, hq, hrow, he⟩
      · refine ⟨0, i, p, by omega, by simp [hq], by simp [pre], ?_⟩
        simp only [edges, List.mem_append, List.mem_map]
        left
        obtain ⟨c, hc, rfl⟩ := List.mem_map.1 ho
        exact ⟨c, hc, rfl⟩
      · refine ⟨m+1, o', q', by omega, ?_, by simpa [pre] using hrow, ?_⟩
        · rw [hq]; congr 1; omega
        · simp [edges, he]
theorem preRev_parent : ∀ (ks : List Rose) (par k : Nat) (j : Nat) (o q : Int),
    (preRev ks par k)[j]? = some (o, q) →
    (q = (par : Int) ∧ o ∈ ks.map Rose.id) ∨
    ∃ m o' q', m < j ∧ q = ((k + m : Nat) : Int) ∧ (preRev ks par k)[m]? = some (o', q') ∧ (o', o) ∈ edgesL ks
  | [], _, _, j, o, q, h => by simp [preRev] at h
  | r :: rs, par, k, j, o, q, h => by
    simp only [preRev] at h ⊢
    by_cases hlt : j < (preRev rs par k).length
    · rw [List.getElem?_append_left hlt] at h
      rcases preRev_parent rs par k j o q h with ⟨hq, ho⟩ | ⟨m, o', q', hm, hq, hrow, he⟩
      · left; exact ⟨hq, by simp only [List.map_cons, List.mem_cons]; exact Or.inr ho⟩
      · right
        refine ⟨m, o', q', hm, hq, ?_, ?_⟩
        · rw [List.getElem?_append_left (by omega)]; exact hrow
        · simp [edgesL, he]
    · rw [List.getElem?_append_right (by omega)] at h
      cases hj' : j - (preRev rs par k).length with
      | zero =>
        rw [hj', pre_head] at h
        simp only [Option.some.injEq, Prod.mk.injEq] at h
        left; exact ⟨h.2.symm, by simp [h.1]⟩
      | succ j'' =>
        rw [hj'] at h
        rcases pre_parent r par _ (j''+1) o q h (by omega) with ⟨m, o', q', hm, hq, hrow, he⟩
        right
        refine ⟨(preRev rs par k).length + m, o', q', by omega, ?_, ?_, ?_⟩
        · rw [hq]; congr 1; omega
        · rw [List.getElem?_append_right (by omega)]
          simpa using hrow
        · simp [edgesL, he]
end

mutual
theorem agrees_edge (kidsOf : Int → List Int) : ∀ (r : Rose), Agrees kidsOf r →
    ∀ a b, (a, b) ∈ edges r → b ∈ kidsOf a
  | .node i ks, hA, a, b, hab => by
    simp only [Agrees] at hA
    simp only [edges, List.mem_append, List.mem_map, Prod.mk.injEq] at hab
    rcases hab with ⟨c, hc, rfl, rfl⟩ | hab
    · rw [hA.1]; exact List.mem_map_of_mem hc
    · exact agreesL_edge kidsOf ks hA.2 a b hab
theorem agreesL_edge (kidsOf : Int → List Int) : ∀ (ks : List Rose), AgreesL kidsOf ks →
    ∀ a b, (a, b) ∈ edgesL ks → b ∈ kidsOf a
  | [], _, a, b, hab => by simp [edgesL] at hab
  | r :: rs, hA, a, b, hab => by
    simp only [AgreesL] at hA
    simp only [edgesL, List.mem_append] at hab
    rcases hab with hab | hab
    · exact agrees_edge kidsOf r hA.1 a b hab
    · exact agreesL_edge kidsOf rs hA.2 a b hab
end

theorem tree_length (r : Rose) (ids pids : List Int) (h : IsTreeTable r ids pids) : ids.length = r.size := by
  rw [← ids_length r]; exact h.2.1.length_eq.symm

/-- **the loop is a structural pre-order**: started at the root with new parent `p`, after exactly `|r|`
pops the stack is empty and the rows emitted are `pre r p 0` — any shape, depth, numbering -/
theorem machine_eq_pre (kidsOf : Int → List Int) (r : Rose) (hA : Agrees kidsOf r) (p : Int) (extra : Nat) :
    run kidsOf (r.size + extra) ⟨[(r.id, p)], []⟩ = ⟨[], pre r p 0⟩ := by
  rw [run_add]
  have := main kidsOf r hA [] [] p
  simp only [List.length_nil, List.nil_append] at this
  rw [this, run_empty]

/-- on a tree table the model does not fail, and returns the pre-order rows -/
theorem sort_ok (r : Rose) (ids pids : List Int) (h : IsTreeTable r ids pids) :
    sortNodesImpl ids pids = .ok ⟨(pre r (-1) 0).map (·.1), (pre r (-1) 0).map (·.2),
                                  (pre r (-1) 0).map (fun op => indexOf ids op.1)⟩ := by
  obtain ⟨hR, hperm, hlen, hcount, hroot⟩ := h
  have hn : ids.length = r.size := by rw [← ids_length r]; exact hperm.length_eq.symm
  unfold sortNodesImpl
  rw [if_neg (by simp [hcount]), hroot]
  simp only
  rw [hn, machine_eq_pre _ r hR.1 (-1) 1]
  simp [pre_length]

/-- the result record, once and for all -/
theorem sort_res (r : Rose) (ids pids : List Int) (h : IsTreeTable r ids pids) (res : Result)
    (hres : sortNodesImpl ids pids = .ok res) :
    res = ⟨(pre r (-1) 0).map (·.1), (pre r (-1) 0).map (·.2),
           (pre r (-1) 0).map (fun op => indexOf ids op.1)⟩ := by
  rw [sort_ok r ids pids h] at hres
  injection hres with hres
  exact hres.symm

/-- **one-to-one**: the map new id ↦ old id lists every old id exactly once -/
theorem sort_perm (r : Rose) (ids pids : List Int) (h : IsTreeTable r ids pids) (res : Result)
    (hres : sortNodesImpl ids pids = .ok res) :
    res.idMap.Perm ids ∧ res.idMap.Nodup ∧ res.idMap.length = ids.length ∧ res.newPids.length = ids.length := by
  have e := sort_res r ids pids h res hres
  subst e
  have hp : ((pre r (-1) 0).map (·.1)).Perm ids := (pre_perm r (-1) 0).trans h.2.1
  refine ⟨hp, ?_, ?_, ?_⟩
  · exact ((pre_perm r (-1) 0).nodup_iff).2 h.1.2
  · exact hp.length_eq
  · simp [pre_length, tree_length r ids pids h]

/-- **the root is 0 and every parent's new id is smaller than its children's** -/
theorem sort_sorted (r : Rose) (ids pids : List Int) (h : IsTreeTable r ids pids) (res : Result)
    (hres : sortNodesImpl ids pids = .ok res) :
    res.newPids.head? = some (-1) ∧
    ∀ k (hk : k < res.newPids.length), 0 < k → 0 ≤ res.newPids[k] ∧ res.newPids[k] < (k : Int) := by
  have e := sort_res r ids pids h res hres
  subst e
  refine ⟨?_, ?_⟩
  · cases r; simp [pre]
  · intro k hk hk0
    simp only [List.length_map] at hk
    simp only [List.getElem_map]
    have hrow : (pre r (-1) 0)[k]? = some ((pre r (-1) 0)[k].1, (pre r (-1) 0)[k].2) := by
      simp [List.getElem?_eq_getElem hk]
    obtain ⟨m, o', q', hm, hq, -, -⟩ := pre_parent r (-1) 0 k _ _ hrow hk0
    rw [hq]; omega

theorem sort_root (r : Rose) (ids pids : List Int) (h : IsTreeTable r ids pids) (res : Result)
    (hres : sortNodesImpl ids pids = .ok res) : res.idMap.head? = some r.id := by
  have e := sort_res r ids pids h res hres
  subst e
  cases r; simp [pre, Rose.id]

/-- **the parent relation is preserved by the relabelling**: for every new node `k > 0`, its new parent `q`
is the new id of the old parent of its old node: `(idMap[q], idMap[k])` is an edge of the tree -/
theorem sort_parent (r : Rose) (ids pids : List Int) (h : IsTreeTable r ids pids) (res : Result)
    (hres : sortNodesImpl ids pids = .ok res) :
    ∀ k (hk : k < res.newPids.length) (hk' : k < res.idMap.length), 0 < k →
      ∃ q : Nat, ∃ hq : q < res.idMap.length, res.newPids[k] = (q : Int) ∧ (res.idMap[q], res.idMap[k]) ∈ edges r := by
  have e := sort_res r ids pids h res hres
  subst e
  intro k hk hk' hk0
  simp only [List.length_map] at hk
  simp only [List.getElem_map, List.length_map]
  have hrow : (pre r (-1) 0)[k]? = some ((pre r (-1) 0)[k].1, (pre r (-1) 0)[k].2) := by
    simp [List.getElem?_eq_getElem hk]
  obtain ⟨m, o', q', hm, hq, hrow', he⟩ := pre_parent r (-1) 0 k _ _ hrow hk0
  have hm' : m < (pre r (-1) 0).length := by omega
  refine ⟨m, hm', by simpa using hq, ?_⟩
  rw [List.getElem?_eq_getElem hm'] at hrow'
  simp only [Option.some.injEq] at hrow'
  rw [hrow']
  exact he

/-- an edge of the representing rose is a row of the table: the child's row names the parent's id -/
theorem edge_is_row (r : Rose) (ids pids : List Int) (h : Represents r ids pids) (a b : Int) (hab : (a, b) ∈ edges r) :
    b ∈ tableKids ids pids a := by
  exact agrees_edge _ r h.1 a b hab

/-- `indices` is the row permutation: row `indices[k]` of the input is the row of old id `idMap[k]` -/
theorem sort_indices (r : Rose) (ids pids : List Int) (h : IsTreeTable r ids pids) (res : Result)
    (hres : sortNodesImpl ids pids = .ok res) :
    res.indices.length = ids.length ∧
    ∀ k (hk : k < res.indices.length) (hk' : k < res.idMap.length),
      ∃ hi : res.indices[k] < ids.length, ids[res.indices[k]] = res.idMap[k] := by
  have e := sort_res r ids pids h res hres
  subst e
  refine ⟨by simp [pre_length, tree_length r ids pids h], ?_⟩
  intro k hk hk'
  simp only [List.length_map] at hk
  simp only [List.getElem_map]
  apply indexOf_spec
  have hp : ((pre r (-1) 0).map (·.1)).Perm ids := (pre_perm r (-1) 0).trans h.2.1
  apply hp.mem_iff.1
  exact List.mem_map_of_mem (List.getElem_mem hk)

/-- **every per-node column (extra columns included) is carried along**: the value at new node `k` is the
value of the old row `indices[k]` -/
theorem sort_columns {α : Type} [Inhabited α] (col : List α) (indices : List Nat) (k : Nat) (hk : k < indices.length) :
    (permute col indices).length = indices.length ∧
    (permute col indices)[k]'(by simp [permute]; exact hk) = col.getD indices[k] default := by
  simp [permute]

-- the relabelled tree, in the NEW table order (children appear from the old last to the old first)
mutual
def relab : Rose → Nat → Rose
  | .node _ ks, k => .node (k : Int) (relabRev ks (k + 1))
def relabRev : List Rose → Nat → List Rose
  | [], _ => []
  | r :: rs, k => relabRev rs k ++ [relab r (k + sizeL rs)]
end

/-! ### helper lemmas: the output table is the table of `relab r 0` -/

mutual
theorem relab_size : ∀ (r : Rose) (k : Nat), (relab r k).size = r.size
  | .node i ks, k => by simp [relab, Rose.size, relabRev_size ks (k+1)]
theorem relabRev_size : ∀ (ks : List Rose) (k : Nat), sizeL (relabRev ks k) = sizeL ks
  | [], _ => by simp [relabRev]
  | r :: rs, k => by
    simp [relabRev, sizeL_append, sizeL, relabRev_size rs k, relab_size r]; omega
end

theorem relab_id (r : Rose) (k : Nat) : (relab r k).id = (k : Int) := by
  cases r; simp [relab, Rose.id]

mutual
theorem relab_ids : ∀ (r : Rose) (k : Nat), (relab r k).ids = (List.range' k r.size).map Int.ofNat
  | .node i ks, k => by
    have e : (Rose.node i ks).size = sizeL ks + 1 := by simp [Rose.size]; omega
    rw [e, List.range'_succ]
    simp [relab, Rose.ids, relabRev_ids ks (k+1)]
theorem relabRev_ids : ∀ (ks : List Rose) (k : Nat),
    idsL (relabRev ks k) = (List.range' k (sizeL ks)).map Int.ofNat
  | [], _ => by simp [relabRev, idsL, sizeL]
  | r :: rs, k => by
    have e : sizeL (r :: rs) = sizeL rs + r.size := by simp [sizeL]; omega
    rw [e, ← List.range'_append_1, List.map_append]
    simp [relabRev, idsL_append, idsL, relabRev_ids rs k, relab_ids r]
end

-- the parent column of a block: the parent handed in, or a new id of the block
mutual
theorem pre_snd_mem : ∀ (r : Rose) (p : Int) (k : Nat) (x : Int), x ∈ (pre r p k).map (·.2) →
    x = p ∨ ((k : Int) ≤ x ∧ x < ((k + r.size : Nat) : Int))
  | .node i ks, p, k, x, hx => by
    simp only [pre, List.map_cons, List.mem_cons] at hx
    rcases hx with hx | hx
    · exact Or.inl hx
    · right
      have := preRev_snd_mem ks k (k+1) x hx
      simp only [Rose.size]
      omega
theorem preRev_snd_mem : ∀ (ks : List Rose) (par k : Nat) (x : Int), x ∈ (preRev ks par k).map (·.2) →
    x = (par : Int) ∨ ((k : Int) ≤ x ∧ x < ((k + sizeL ks : Nat) : Int))
  | [], _, _, x, hx => by simp [preRev] at hx
  | r :: rs, par, k, x, hx => by
    simp only [preRev, List.map_append, List.mem_append] at hx
    simp only [sizeL]
    rcases hx with hx | hx
    · have := preRev_snd_mem rs par k x hx
      omega
    · have := pre_snd_mem r par _ x hx
      rw [preRev_length] at this
      omega
end

-- the rows whose parent is `par` are the heads of the kids' blocks, in table order
theorem preRev_top : ∀ (ks : List Rose) (par k : Nat), par < k →
    tk ((preRev ks par k).map (·.2)) k par = (relabRev ks k).map Rose.id
  | [], _, _, _ => by simp [preRev, relabRev, tk]
  | r :: rs, par, k, hp => by
    simp only [preRev, List.map_append, tk_append, List.length_map, preRev_length, relabRev,
      List.map_cons, List.map_nil, relab_id, preRev_top rs par k hp]
    congr 1
    cases r with
    | node i ks' =>
      simp only [pre, List.map_cons, tk, if_true]
      rw [tk_eq_nil]
      intro hmem
      have := preRev_snd_mem ks' _ _ _ hmem
      omega

mutual
theorem relab_agrees (kidsOf : Int → List Int) : ∀ (r : Rose) (p : Int) (k : Nat), p < (k : Int) →
    (∀ q : Nat, k ≤ q → q < k + r.size → kidsOf (q : Int) = tk ((pre r p k).map (·.2)) k (q : Int)) →
    Agrees kidsOf (relab r k)
  | .node i ks, p, k, hp, hk => by
    simp only [relab, Agrees]
    have hstep : ∀ q : Nat, k ≤ q →
        tk ((pre (.node i ks) p k).map (·.2)) k (q : Int) = tk ((preRev ks k (k+1)).map (·.2)) (k+1) (q : Int) := by
      intro q hq
      simp only [pre, List.map_cons, tk]
      rw [if_neg (by omega)]
    refine ⟨?_, ?_⟩
    · rw [hk k (Nat.le_refl k) (by simp only [Rose.size]; omega), hstep k (Nat.le_refl k), preRev_top ks k (k+1) (by omega)]
    · apply relabRev_agrees kidsOf ks k (k+1) (by omega)
      intro q hq1 hq2
      rw [hk q (by omega) (by simp only [Rose.size]; omega), hstep q (by omega)]
theorem relabRev_agrees (kidsOf : Int → List Int) : ∀ (ks : List Rose) (par k : Nat), par < k →
    (∀ q : Nat, k ≤ q → q < k + sizeL ks →
      kidsOf (q : Int) = tk ((preRev ks par k).map (·.2)) k (q : Int)) →
    AgreesL kidsOf (relabRev ks k)
  | [], _, _, _, _ => by simp [relabRev, AgreesL]
  | r :: rs, par, k, hp, hk => by
    have hsplit : ∀ q : Int, tk ((preRev (r :: rs) par k).map (·.2)) k q =
        tk ((preRev rs par k).map (·.2)) k q ++ tk ((pre r par (k + sizeL rs)).map (·.2)) (k + sizeL rs) q := by
      intro q
      simp only [preRev, List.map_append, tk_append, List.length_map, preRev_length]
    simp only [relabRev, agreesL_append, AgreesL, and_true]
    refine ⟨?_, ?_⟩
    · apply relabRev_agrees kidsOf rs par k hp
      intro q hq1 hq2
      rw [hk q hq1 (by simp only [sizeL]; omega), hsplit]
      rw [tk_eq_nil ((pre r par (k + sizeL rs)).map (·.2)) _ _ ?_, List.append_nil]
      intro hmem
      have := pre_snd_mem r par _ _ hmem
      omega
    · apply relab_agrees kidsOf r par (k + sizeL rs) (by omega)
      intro q hq1 hq2
      rw [hk q (by omega) (by simp only [sizeL]; omega), hsplit]
      rw [tk_eq_nil ((preRev rs par k).map (·.2)) _ _ ?_, List.nil_append]
      intro hmem
      have := preRev_snd_mem rs par k _ hmem
      omega
end

/-- **sorting a sorted result changes nothing but possibly sibling order**: the output table
(`ids = 0..n-1`, `pids = newPids`) is itself a tree table — of the same tree relabelled, siblings in
reverse order — and is sorted; hence every theorem above applies to a second sort. -/
theorem sort_again (r : Rose) (ids pids : List Int) (h : IsTreeTable r ids pids) (res : Result)
    (hres : sortNodesImpl ids pids = .ok res) :
    IsTreeTable (relab r 0) ((List.range ids.length).map Int.ofNat) res.newPids ∧
    isSorted ((List.range ids.length).map Int.ofNat) res.newPids = true ∧
    (relab r 0).size = r.size := by
  have hs := sort_sorted r ids pids h res hres
  have e := sort_res r ids pids h res hres
  subst e
  have hn := tree_length r ids pids h
  simp only at hs ⊢
  have hlen : ((List.range ids.length).map Int.ofNat).length = ((pre r (-1) 0).map (·.2)).length := by
    simp [pre_length, hn]
  have hids : (relab r 0).ids = (List.range ids.length).map Int.ofNat := by
    rw [relab_ids, hn, List.range_eq_range']
  refine ⟨⟨⟨?_, ?_⟩, ?_, hlen, ?_, ?_⟩, ?_, relab_size r 0⟩
  · apply relab_agrees _ r (-1) 0 (by omega)
    intro q _ _
    rw [tableKids_range _ _ (by simp [pre_length, hn])]
  · rw [hids]
    exact List.Pairwise.map _ (fun a b hab he => hab (Int.ofNat.inj he)) List.nodup_range
  · rw [hids]
  · cases r with
    | node i ks =>
      simp only [pre, List.map_cons, countRoots, List.filter_cons, decide_true, if_true, List.length_cons]
      rw [List.filter_eq_nil_iff.2]
      · rfl
      · intro x hx
        have := preRev_snd_mem ks 0 1 x hx
        simp only [decide_eq_true_eq]
        omega
  · cases r with
    | node i ks =>
      have : ids.length = sizeL ks + 1 := by rw [hn]; simp only [Rose.size]; omega
      rw [this, List.range_eq_range', List.range'_succ]
      simp [pre, firstRoot, relab, Rose.id]
  · rw [SortM.isSorted_iff _ _ hlen]
    intro k h1 h2
    simp only [List.getElem_map, List.getElem_range]
    cases k with
    | zero =>
      cases r; simp [pre]
    | succ k =>
      have := (hs.2 (k+1) h2 (by omega)).2
      simpa using this

/-- `is_sorted` says exactly "every row's parent id is smaller than its own id" -/
theorem isSorted_iff (ids pids : List Int) (hl : ids.length = pids.length) :
    isSorted ids pids = true ↔ ∀ k (h1 : k < ids.length) (h2 : k < pids.length), pids[k] < ids[k] := by
  exact SortM.isSorted_iff ids pids hl

-- non-vacuity: a shuffled, non-contiguous 5-row table, its rose, and what the model returns
def exIds : List Int := [9, 4, 7, 12, 5]
def exPids : List Int := [7, 7, -1, 9, 9]
def exRose : Rose := .node 7 [.node 9 [.node 12 [], .node 5 []], .node 4 []]
example : IsTreeTable exRose exIds exPids := by
  refine ⟨⟨?_, by decide⟩, by decide, rfl, by decide, by decide⟩
  simp [exRose, exIds, exPids, Agrees, AgreesL, tableKids, Rose.id]
example : (sortNodesImpl exIds exPids).toOption = some ⟨[7, 4, 9, 5, 12], [-1, 0, 0, 2, 2], [2, 1, 0, 4, 3]⟩ := by decide +kernel

end C05
