import SwcVerif.Model.Sort
/-! # C05 — node renumbering is a pure relabelling with parents before children

Theorems about the model `SortM.sortNodesImpl` of `sort_nodes_impl` (the stack loop; tied to the code by
the `c05.sort` correspondence, which compares new parents, row indices and id map exactly).
`sort_nodes_`, `_sort_tree` and `read_swc(sort_nodes=True)` apply the returned row permutation to every
column (`SortM.permute`). -/
namespace C05
open SortM

-- rows `(old id, new parent id)` emitted for a subtree whose root gets new parent `p` and new id `k`;
-- kids are emitted from the last to the first (the stack pops the most recently pushed child first)
mutual
def pre : Rose → Int → Nat → List (Int × Int)
  | .node i ks, p, k => (i, p) :: preRev ks k (k + 1)
def preRev : List Rose → Nat → Nat → List (Int × Int)
  | [], _, _ => []
  | r :: rs, par, k =>
    let a := preRev rs par k
    a ++ pre r par (k + a.length)
end

-- the (parent, child) edges of a rose
mutual
def edges : Rose → List (Int × Int)
  | .node i ks => ks.map (fun k => (i, k.id)) ++ edgesL ks
def edgesL : List Rose → List (Int × Int)
  | [] => []
  | r :: rs => edges r ++ edgesL rs
end

/-- the table is exactly the tree `r`: children agree, ids distinct, the table has no other rows, and the
only row without a parent is `r`'s root (arbitrary distinct ids, arbitrary row order, root anywhere) -/
def IsTreeTable (r : Rose) (ids pids : List Int) : Prop :=
  Represents r ids pids ∧ r.ids.Perm ids ∧ ids.length = pids.length ∧
  countRoots pids = 1 ∧ firstRoot ids pids = some r.id

/-- **the loop is a structural pre-order**: started at the root with new parent `p`, after exactly `|r|`
pops the stack is empty and the rows emitted are `pre r p 0` — any shape, depth, numbering -/
theorem machine_eq_pre (kidsOf : Int → List Int) (r : Rose) (hA : Agrees kidsOf r) (p : Int) (extra : Nat) :
    run kidsOf (r.size + extra) ⟨[(r.id, p)], []⟩ = ⟨[], pre r p 0⟩ := by
  sorry

/-- on a tree table the model does not fail, and returns the pre-order rows -/
theorem sort_ok (r : Rose) (ids pids : List Int) (h : IsTreeTable r ids pids) :
    sortNodesImpl ids pids = .ok ⟨(pre r (-1) 0).map (·.1), (pre r (-1) 0).map (·.2),
                                  (pre r (-1) 0).map (fun op => indexOf ids op.1)⟩ := by
  sorry

/-- **one-to-one**: the map new id ↦ old id lists every old id exactly once -/
theorem sort_perm (r : Rose) (ids pids : List Int) (h : IsTreeTable r ids pids) (res : Result)
    (hres : sortNodesImpl ids pids = .ok res) :
    res.idMap.Perm ids ∧ res.idMap.Nodup ∧ res.idMap.length = ids.length ∧ res.newPids.length = ids.length := by
  sorry

/-- **the root is 0 and every parent's new id is smaller than its children's** -/
theorem sort_sorted (r : Rose) (ids pids : List Int) (h : IsTreeTable r ids pids) (res : Result)
    (hres : sortNodesImpl ids pids = .ok res) :
    res.newPids.head? = some (-1) ∧
    ∀ k (hk : k < res.newPids.length), 0 < k → 0 ≤ res.newPids[k] ∧ res.newPids[k] < (k : Int) := by
  sorry

theorem sort_root (r : Rose) (ids pids : List Int) (h : IsTreeTable r ids pids) (res : Result)
    (hres : sortNodesImpl ids pids = .ok res) : res.idMap.head? = some r.id := by
  sorry

/-- **the parent relation is preserved by the relabelling**: for every new node `k > 0`, its new parent `q`
is the new id of the old parent of its old node: `(idMap[q], idMap[k])` is an edge of the tree -/
theorem sort_parent (r : Rose) (ids pids : List Int) (h : IsTreeTable r ids pids) (res : Result)
    (hres : sortNodesImpl ids pids = .ok res) :
    ∀ k (hk : k < res.newPids.length) (hk' : k < res.idMap.length), 0 < k →
      ∃ q : Nat, ∃ hq : q < res.idMap.length, res.newPids[k] = (q : Int) ∧ (res.idMap[q], res.idMap[k]) ∈ edges r := by
  sorry

/-- an edge of the representing rose is a row of the table: the child's row names the parent's id -/
theorem edge_is_row (r : Rose) (ids pids : List Int) (h : Represents r ids pids) (a b : Int) (hab : (a, b) ∈ edges r) :
    b ∈ tableKids ids pids a := by
  sorry

/-- `indices` is the row permutation: row `indices[k]` of the input is the row of old id `idMap[k]` -/
theorem sort_indices (r : Rose) (ids pids : List Int) (h : IsTreeTable r ids pids) (res : Result)
    (hres : sortNodesImpl ids pids = .ok res) :
    res.indices.length = ids.length ∧
    ∀ k (hk : k < res.indices.length) (hk' : k < res.idMap.length),
      ∃ hi : res.indices[k] < ids.length, ids[res.indices[k]] = res.idMap[k] := by
  sorry

/-- **every per-node column (extra columns included) is carried along**: the value at new node `k` is the
value of the old row `indices[k]` -/
theorem sort_columns {α : Type} [Inhabited α] (col : List α) (indices : List Nat) (k : Nat) (hk : k < indices.length) :
    (permute col indices).length = indices.length ∧
    (permute col indices)[k]'(by simp [permute]; exact hk) = col.getD indices[k] default := by
  sorry

-- the relabelled tree, in the NEW table order (children appear from the old last to the old first)
mutual
def relab : Rose → Nat → Rose
  | .node _ ks, k => .node (k : Int) (relabRev ks (k + 1))
def relabRev : List Rose → Nat → List Rose
  | [], _ => []
  | r :: rs, k => relabRev rs k ++ [relab r (k + sizeL rs)]
end

/-- **sorting a sorted result changes nothing but possibly sibling order**: the output table
(`ids = 0..n-1`, `pids = newPids`) is itself a tree table — of the same tree relabelled, siblings in
reverse order — and is sorted; hence every theorem above applies to a second sort. -/
theorem sort_again (r : Rose) (ids pids : List Int) (h : IsTreeTable r ids pids) (res : Result)
    (hres : sortNodesImpl ids pids = .ok res) :
    IsTreeTable (relab r 0) ((List.range ids.length).map Int.ofNat) res.newPids ∧
    isSorted ((List.range ids.length).map Int.ofNat) res.newPids = true ∧
    (relab r 0).size = r.size := by
  sorry

/-- `is_sorted` says exactly "every row's parent id is smaller than its own id" -/
theorem isSorted_iff (ids pids : List Int) (hl : ids.length = pids.length) :
    isSorted ids pids = true ↔ ∀ k (h1 : k < ids.length) (h2 : k < pids.length), pids[k] < ids[k] := by
  sorry

-- non-vacuity: a shuffled, non-contiguous 5-row table, its rose, and what the model returns
def exIds : List Int := [9, 4, 7, 12, 5]
def exPids : List Int := [7, 7, -1, 9, 9]
def exRose : Rose := .node 7 [.node 9 [.node 12 [], .node 5 []], .node 4 []]
example : IsTreeTable exRose exIds exPids := by
  refine ⟨⟨?_, by decide⟩, by decide, rfl, by decide, by decide⟩
  simp [exRose, exIds, exPids, Agrees, AgreesL, tableKids, Rose.id]
example : (sortNodesImpl exIds exPids).toOption = some ⟨[7, 4, 9, 5, 12], [-1, 0, 0, 2, 2], [2, 1, 0, 4, 3]⟩ := by decide +kernel

end C05
