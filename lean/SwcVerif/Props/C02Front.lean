import SwcVerif.Refine.ReadFront
import SwcVerif.Props.C02Gen
/-! # C02, the whole of `read_swc` as translated: front end + read loop + tail

`ReadFront.readSwcFull` (Model/AlgoRunReadFront.lean) chains the definitions regenerated on every run from
`utils/file.py::FileReader.__init__ / __enter__ / __exit__`, `detect_encoding`, `io.py::parse_swc` (the `extras` statement, the read loop)
and `io.py::read_swc` (from `# fix swc` to the end).  The source is a `Py.Src` (a text stream with its encoding, a `BytesIO`, a name); the
world is `linesOf` - what iterating the text stream `__enter__` returned yields.  Everything below holds for EVERY source kind, every
`encoding` / `extra_cols` / `fix_roots` / `sort_nodes` / `reset_index`, every chardet answer and every list of lines (domain as in
`Props/C02Gen.lean`: seven standard column names, `7 + |extras|` converted groups per matched row; distinct column keys where a column
is looked up by its key). -/
namespace C02
open Gen.Algo RefineParse RefineReadFront ReadFront Py

variable {F : Type} [Inhabited F] [Add F] [Sub F] [Mul F] [OfNat F 0] [OfNat F 1] [LT F] [DecidableLT F] [LE F] [DecidableLE F]
variable {L Val C σ : Type} [Inhabited L] [Inhabited Val] [Inhabited C] [Inhabited σ]
variable (linesOf : Src → Py.Stream L) (rowOf : L → Option ((List Val) × Bool)) (commentOf : L → Option C) (isHeader : C → Bool)
  (blank : L → Bool)

/-- `detect_encoding` as translated: a text stream's own encoding, else chardet's answer (`utf-8` for None / ""), with the warning exactly
when the confidence is below `low_confidence` -/
theorem generated_detect_encoding (src : Src) (lowc : F) (chardet : Option String × F) (ws : List Int) :
    detect_encoding src lowc chardet ws =
      some (match src.encoding with
        | some e => (ws, e)
        | none => (if chardet.2 < lowc then ws ++ [0] else ws, strOr chardet.1 "utf-8")) :=
  detect_encoding_eq src lowc chardet ws

/-- `FileReader(fname, encoding=…)` + `__enter__()` as translated: never fails, exactly one slot holds the source, the stream returned
is the caller's text stream / a `TextIOWrapper` over the caller's `BytesIO` / the file opened by name, with the effective encoding -/
theorem generated_open_reader (src : Src) (encoding : String) (lowc : F) (chardet : Option String × F) :
    openReader src encoding lowc chardet =
      some (detectWarn src encoding lowc chardet,
        { initSpec src encoding chardet.1 with f := some (streamOf src (effEncoding src encoding chardet.1)) },
        streamOf src (effEncoding src encoding chardet.1)) :=
  openReader_eq src encoding lowc chardet

/-- `extras = list(extra_cols) if extra_cols else []` as translated -/
theorem generated_extras (xs : Option (List String)) : parse_swc_extras xs = some (normExtras xs, ()) := parse_swc_extras_eq xs

/-- `SWCNames.cols` and `get_names` as translated: the seven names in the order id, type, x, y, z, r, pid; `None` = the class defaults -/
theorem generated_names (nm : SWCNames7) (names : Option SWCNames7) :
    swc_names_cols nm = some [nm.id, nm.type, nm.x, nm.y, nm.z, nm.r, nm.pid] ∧ get_names names = some (names.getD defaultNames) ∧
    namesCols defaultNames = ["id", "type", "x", "y", "z", "r", "pid"] :=
  ⟨rfl, rfl, rfl⟩

/-- the first half of `read_swc` as translated: `parse_swc` is called with the file, the DEFAULTED names, `extra_cols` and `encoding` -/
theorem generated_read_swc_front {DF CM : Type} [Inhabited DF] [Inhabited CM]
    (P : Src → SWCNames7 → Option (List String) → String → Option (DF × CM)) (src : Src) (xs : Option (List String)) (encoding : String)
    (names : Option SWCNames7) :
    read_swc_front P src xs encoding names =
      (P src (names.getD defaultNames) xs encoding).map fun r => (names.getD defaultNames, r.1, r.2, ()) :=
  read_swc_front_eq P src xs encoding names

/-- **the prologue of `parse_swc` as translated**: the conversions `int, int, float, float, float, float, int` + `float` per extra column
(0 / 1: the dtype of the column), the regular-expression TEXT for `k` extras (`reSwcText k`: the seven pinned groups + `k` times `RE_FLOAT`,
joined by `\s+`, then the optional tail), the trailing group `7 + k + 1`, the header comment `' '.join(names.cols())` -/
theorem generated_prologue (nm : SWCNames7) (extras : List String) :
    parse_swc_prologue nm extras =
      some ([0, 0, 1, 1, 1, 1, 0] ++ List.replicate extras.length 1, reSwcText extras.length, 7 + (extras.length : Int) + 1,
        Py.strJoin " " (namesCols nm), ()) :=
  parse_swc_prologue_eq nm extras

/-- the regular expression without extras is the one the hand-written recogniser was written for (`C02.consts_pinned`), as TEXT -/
example : reSwcText 0 = "^\\s*([0-9]+)\\s+([0-9]+)\\s+" ++ Gen.Consts.reFloat ++ "\\s+" ++ Gen.Consts.reFloat ++ "\\s+" ++ Gen.Consts.reFloat ++ "\\s+" ++
    Gen.Consts.reFloat ++ "\\s+(-?[0-9]+)((?:\\s+[+-.0-9eE]+)*)\\s*$" := by decide +kernel

/-- **`Tree.from_swc` as translated**: a failed read raises `ValueError("fails to read swc: …")` - never a tree from a partial table -;
a successful one hands `from_data_frame` exactly what `read_swc` returned, with `source` = the absolute path of a `str` name -/
theorem generated_tree_from_swc {KW DF CM T : Type} [Inhabited KW] [Inhabited DF] [Inhabited CM] [Inhabited T]
    (R : Src → KW → Except Py.Exc (DF × CM)) (Fd : DF → String → CM → Except Py.Exc T) (abspath : String → String) (src : Src) (kw : KW) :
    tree_from_swc R Fd abspath src kw =
      some (match R src kw with
        | .error e => if e.isA "Exception" then .error wrapExc else .error e
        | .ok r => Fd r.1 (sourceOf abspath src) r.2) :=
  tree_from_swc_eq R Fd abspath src kw

/-- **`Tree.from_eswc` as translated**: `extra_cols` = the caller's (none for `None`) followed by the five eswc columns -/
theorem generated_from_eswc_extras (xs : Option (List String)) : from_eswc_extras xs = some (normExtras xs ++ eswcNames, ()) :=
  from_eswc_extras_eq xs

example : (match tree_from_swc (KW := Unit) (fun _ _ => (.error ⟨"KeyError", "x", []⟩ : Except Py.Exc (Nat × Nat)))
      (fun a _ _ => (.ok a : Except Py.Exc Nat)) id (.bytes 1) () with
    | some (.error e) => decide (e = wrapExc)
    | _ => false) = true := by decide +kernel
example : from_eswc_extras (some ["a"]) = some (["a", "level", "mode", "timestamp", "teraflyindex", "feature_value"], ()) := by decide +kernel

/-- **which list becomes which column**: under DISTINCT keys, the column stored under the `j`-th key (`names.cols()` then the extras, in
order) holds the `j`-th field of every data row, in file order -/
theorem table_column (cols extras : List String) (rows : List (List Val)) (hnd : (cols ++ extras).Nodup)
    (hrows : ∀ fs ∈ rows, cols.length + extras.length ≤ fs.length) (j : Nat) (hj : j < (cols ++ extras).length) :
    Dict.get? (tableOf cols extras rows) (cols ++ extras)[j] = some (rows.filterMap (·[j]?)) ∧
      (rows.filterMap (·[j]?)).map some = rows.map (·[j]?) := by
  have hj' : j < cols.length + extras.length := by simpa using hj
  obtain ⟨h1, h2⟩ := columns (cols.length + extras.length) rows (List.replicate (cols.length + extras.length) []) (by simp) hrows
  refine ⟨?_, column_length _ rows hrows j hj'⟩
  unfold tableOf
  rw [get?_ofZip _ _ hnd (by rw [h1]; simp) j hj, h2 j hj']
  simp [hj']

/-- the integer column `names.<k>` that the tail of `read_swc` works on -/
def colOf (intOf : Val → Int) (rows : List (List Val)) (j : Nat) : List Int := (rows.filterMap (·[j]?)).map intOf

theorem colInt_table (intOf : Val → Int) (nm : SWCNames7) (extras : List String) (rows : List (List Val))
    (hnd : (namesCols nm ++ extras).Nodup) (hrows : ∀ fs ∈ rows, 7 + extras.length ≤ fs.length) :
    colInt intOf (tableOf (namesCols nm) extras rows) nm.id = some (colOf intOf rows 0) ∧
    colInt intOf (tableOf (namesCols nm) extras rows) nm.type = some (colOf intOf rows 1) ∧
    colInt intOf (tableOf (namesCols nm) extras rows) nm.r = some (colOf intOf rows 5) ∧
    colInt intOf (tableOf (namesCols nm) extras rows) nm.pid = some (colOf intOf rows 6) := by
  have hl : (namesCols nm ++ extras).length = 7 + extras.length := by simp [namesCols_length]
  have hrows' : ∀ fs ∈ rows, (namesCols nm).length + extras.length ≤ fs.length := by simpa [namesCols_length] using hrows
  have h := fun j (hj : j < (namesCols nm ++ extras).length) => (table_column (namesCols nm) extras rows hnd hrows' j hj).1
  have h0 := h 0 (by omega); have h1 := h 1 (by omega); have h5 := h 5 (by omega); have h6 := h 6 (by omega)
  simp only [namesCols, List.cons_append, List.getElem_cons_zero, List.getElem_cons_succ] at h0 h1 h5 h6
  simp [colInt, colOf, namesCols, h0, h1, h5, h6]

/-- **`read_swc` on a file whose lines are all valid** (any source kind, any options): one row per data line in file order - column
`(cols ++ extras)[j]` of the table is field `j` of every data line (`table_column`) -, the kept comments in order, the warning for the
first row with ignored fields; then the tail runs on the columns id / pid / type / r of exactly these rows: repair (`fix_roots`), then
`sort_nodes_` if `sort_nodes` ELSE `reset_index_` if `reset_index`, then the three checks. -/
theorem generated_read_swc_rows (intOf : Val → Int) (norm : σ → Int → σ × List Int) (fuel : Nat) (src : Src)
    (xs : Option (List String)) (mode : Option String) (srt rst : Bool) (encoding : String) (names : Option SWCNames7) (lowc : F)
    (chardet : Option String × F) (cbs : σ)
    (ls : List L) (hnd : (namesCols (names.getD defaultNames) ++ normExtras xs).Nodup)
    (hk : ∀ l fs t, rowOf l = some (fs, t) → 7 + (normExtras xs).length ≤ fs.length)
    (hlines : linesRead linesOf src encoding chardet.1 = ⟨ls, none⟩)
    (hvalid : ∀ l ∈ ls, isInvalid rowOf commentOf blank l = false) :
    readSwcFull linesOf rowOf commentOf isHeader blank intOf norm fuel src xs mode srt rst encoding names lowc chardet cbs =
      let rows := ls.filterMap (rowAt rowOf)
      let ids := colOf intOf rows 0; let pids := colOf intOf rows 6; let types := colOf intOf rows 1; let rs := colOf intOf rows 5
      (RefineRepair.fixStage norm fuel ids pids types mode cbs).bind fun f =>
        (RefineRepair.normStage fuel ids f.1 f.2.1 rs srt rst).bind fun g =>
          (RefineRepair.checkStage fuel g.1 g.2.1 g.2.2.2).map fun w =>
            .ok ⟨tableOf (namesCols (names.getD defaultNames)) (normExtras xs) rows, ls.filterMap (keptComment rowOf commentOf isHeader),
              g.1, g.2.1, g.2.2.1, g.2.2.2,
              detectWarn src encoding lowc chardet, (match firstTail rowOf ls 0 with | some n => [warnExc n] | none => []), w, f.2.2⟩ := by
  have hp := (generated_read_ok_iff rowOf commentOf isHeader blank (namesCols (names.getD defaultNames)) (normExtras xs) ⟨some (), false⟩ ls
    (namesCols_length _) hk _ _ _ _).2 ⟨hvalid, rfl, rfl, rfl, rfl⟩
  obtain ⟨c0, c1, c5, c6⟩ := colInt_table intOf (names.getD defaultNames) (normExtras xs) (ls.filterMap (rowAt rowOf)) hnd
    (rows_long rowOf (normExtras xs) ls hk)
  rw [readSwcFull_eq, hlines, hp]
  simp only [Option.bind_some, backStages]
  rw [c0, c1, c5, c6]
  rfl

/-- **never a shortened or partially filled table**: a line that is neither a data row, a comment nor blank - after any valid prefix,
before any suffix, with or without a later decode failure - makes `read_swc` raise `ValueError("invalid row n")` for the FIRST such line,
for every source kind and whatever `extra_cols` / `fix_roots` / `sort_nodes` / `reset_index` / `encoding` are -/
theorem generated_read_swc_invalid (intOf : Val → Int) (norm : σ → Int → σ × List Int) (fuel : Nat) (src : Src)
    (xs : Option (List String)) (mode : Option String) (srt rst : Bool) (encoding : String) (names : Option SWCNames7) (lowc : F)
    (chardet : Option String × F) (cbs : σ)
    (pre : List L) (bad : L) (post : List L) (fail : Option Py.Exc)
    (hk : ∀ l fs t, rowOf l = some (fs, t) → 7 + (normExtras xs).length ≤ fs.length)
    (hlines : linesRead linesOf src encoding chardet.1 = ⟨pre ++ bad :: post, fail⟩)
    (hpre : ∀ l ∈ pre, isInvalid rowOf commentOf blank l = false) (hbad : isInvalid rowOf commentOf blank bad = true) :
    readSwcFull linesOf rowOf commentOf isHeader blank intOf norm fuel src xs mode srt rst encoding names lowc chardet cbs =
      some (.error (invalidExc (pre.length + 1))) := by
  obtain ⟨ws, hp⟩ := generated_never_partial rowOf commentOf isHeader blank (namesCols (names.getD defaultNames)) (normExtras xs) ⟨some (), false⟩ pre bad post fail
    (namesCols_length _) hk hpre hbad
  rw [readSwcFull_eq, hlines, hp]
  rfl

/-- **bytes that cannot be decoded**: the call raises (never a table); `ValueError("decode failed …")` when every line before the failure
is valid and the failure is a `UnicodeDecodeError` -/
theorem generated_read_swc_decode (intOf : Val → Int) (norm : σ → Int → σ × List Int) (fuel : Nat) (src : Src)
    (xs : Option (List String)) (mode : Option String) (srt rst : Bool) (encoding : String) (names : Option SWCNames7) (lowc : F)
    (chardet : Option String × F) (cbs : σ)
    (ls : List L) (e : Py.Exc)
    (hk : ∀ l fs t, rowOf l = some (fs, t) → 7 + (normExtras xs).length ≤ fs.length)
    (hlines : linesRead linesOf src encoding chardet.1 = ⟨ls, some e⟩) :
    ∃ e', readSwcFull linesOf rowOf commentOf isHeader blank intOf norm fuel src xs mode srt rst encoding names lowc chardet cbs = some (.error e') ∧
      ((∀ l ∈ ls, isInvalid rowOf commentOf blank l = false) → e.kind = "UnicodeDecodeError" → e' = decodeExc) := by
  obtain ⟨ws, e', hp, he⟩ := generated_decode_fails_loudly rowOf commentOf isHeader blank (namesCols (names.getD defaultNames)) (normExtras xs) ⟨some (), false⟩ ls e
    (namesCols_length _) hk
  refine ⟨e', ?_, he⟩
  rw [readSwcFull_eq, hlines, hp]
  rfl

/-- **the dispatch order**: with `sort_nodes` the generated `sort_nodes_` runs INSTEAD of `reset_index_` (the `reset_index` argument is
not looked at); without it `reset_index_` runs exactly when `reset_index`; with neither the columns are left alone -/
theorem generated_norm_dispatch (fuel : Nat) (ids pids types rs : List Int) (rst : Bool) :
    RefineRepair.normStage fuel ids pids types rs true rst = (sort_nodes_ fuel ids pids types rs).map (fun r => (r.1, r.2.1, r.2.2.1, r.2.2.2.1)) ∧
    RefineRepair.normStage fuel ids pids types rs false true = (reset_index_ ids pids).map (fun r => (r.1, r.2.1, types, rs)) ∧
    RefineRepair.normStage fuel ids pids types rs false false = some (ids, pids, types, rs) := by
  simp [RefineRepair.normStage]

/-- … hence the whole call does not depend on `reset_index` when `sort_nodes` is set -/
theorem generated_read_swc_sort_ignores_reset (intOf : Val → Int) (norm : σ → Int → σ × List Int) (fuel : Nat) (src : Src)
    (xs : Option (List String)) (mode : Option String) (rst : Bool) (encoding : String) (names : Option SWCNames7) (lowc : F)
    (chardet : Option String × F) (cbs : σ) :
    readSwcFull linesOf rowOf commentOf isHeader blank intOf norm fuel src xs mode true rst encoding names lowc chardet cbs =
      readSwcFull linesOf rowOf commentOf isHeader blank intOf norm fuel src xs mode true false encoding names lowc chardet cbs := by
  simp only [readSwcFull_eq, backStages, RefineRepair.normStage, if_true]

/-! non-vacuity (kernel-evaluated): a line is `(i, p)`: `i ≥ 0` a data row `[i, 1, 0, 0, 0, 1, p]`, `i = -1` the comment `p` (header iff
`p = 0`), `i = -2` blank, anything else invalid.  A `BytesIO` read with `encoding="detect"`, chardet without an answer and confidence
below the threshold. -/
section
def fxRow (l : Int × Int) : Option (List Int × Bool) := if 0 ≤ l.1 then some ([l.1, 1, 0, 0, 0, 1, l.2], false) else none
def fxCmt (l : Int × Int) : Option Int := if l.1 = -1 then some l.2 else none
def fxLines (good : Bool) : Src → Py.Stream (Int × Int)
  | .wrapped 1 "utf-8" => ⟨[(-1, 7), (0, -1), (1, 0), (-2, 0)] ++ (if good then [] else [(-3, 0)]) ++ [(2, 1)], none⟩
  | _ => ⟨[], none⟩
def fxNorm : Unit → Int → Unit × List Int := fun _ _ => ((), [])

example : (match readSwcFull (F := Int) (fxLines true) fxRow fxCmt (· = 0) (·.1 = -2) id fxNorm 20 (.bytes 1) none none false true
      "detect" none 9 (none, 5) () with
    | some (.ok o) => decide (o.ids = [0, 1, 2] ∧ o.pids = [-1, 0, 1] ∧ o.comments = [7] ∧ o.warnDetect = [0] ∧ o.warnCheck = [] ∧
        Dict.get? o.df "pid" = some [-1, 0, 1])
    | _ => false) = true := by decide +kernel
example : (match readSwcFull (F := Int) (fxLines false) fxRow fxCmt (· = 0) (·.1 = -2) id fxNorm 20 (.bytes 1) (some []) (some "somas") true true
      "detect" none 9 (none, 5) () with
    | some (.error e) => decide (e = invalidExc 5)
    | _ => false) = true := by decide +kernel
end

end C02
