import SwcVerif.Props.C17Gen
import SwcVerif.Refine.MstFront
/-! # C17, the whole `__call__` tied to the source by the translator

`Gen.Algo.mst_call` is regenerated on every run from `swcgeom/transforms/mst.py::PointsToCuntzMST.__call__`, from its first statement to
`t = Tree.from_data_frame(df, names=names)`: the soma handling (`np.concatenate([[soma], points])`), the distance matrix (the vector norm
`np.linalg.norm(·, axis=2)` is the PARAMETER `norm`: nothing is assumed about it), the greedy loop and the assembly of the SWC table
(`ids, types, xs, ys, zs, r, pid`). `RefineMstFront.mst_call_refines` proves, for every cloud of triples, every optional soma triple, every
`norm`, `bf`, `furcations`, `exclude_soma` and type codes: the generated definition returns the table with ONE ROW PER POINT of
`soma :: points` IN INPUT ORDER, that point's coordinates, ids `0 … n-1`, types `[soma, glia, glia, …]`, radius 1, and as parents the result
of the model loop `Mst.run` on `dis[i][j] = norm (p[i] - p[j])`. The C17 theorems about the model are carried over below.
`PointsToMST.__call__` is this same method (inherited) with `bf = 0`.

Not covered: the final `if self.sort: t = sort_tree(t)` (a renumbering, translated and proved separately for `_sort_tree`), the cast of the
coordinate columns to float32 inside `Tree.__init__`, the two `__init__` methods. -/
namespace C17
open Mst Gen.Algo RefineMst RefineMstFront

/-- the table `(ids, types, xs, ys, zs, r, pid, points, dis, None)` over the points `all` with the parent column `pid` -/
def tableWith (all : List (List Rat)) (tg ts : Int) (pid : List Int) (dis : List (List Rat)) :
    List Int × List Int × List Rat × List Rat × List Rat × Int × List Int × List (List Rat) × List (List Rat) × Unit :=
  ((List.range all.length).map (fun (i : Nat) => (i : Int)), (List.replicate all.length tg).set 0 ts,
   all.map (fun r => r.getD 0 0), all.map (fun r => r.getD 1 0), all.map (fun r => r.getD 2 0), 1, pid, all, dis, ())

/-- **the generated `__call__` equals the model**: the table over `soma :: points` whose parents are those of the model loop on
`dis[i][j] = norm (p[i] - p[j])` (restatement of `RefineMstFront.mst_call_refines`) -/
theorem generated_call_eq_model (norm : List Rat → Rat) (pts : List (List Rat)) (soma : Option (List Rat))
    (hp : Rows3 pts) (hs : ∀ s, soma = some s → s.length = 3) (hn : 0 < (allPts soma pts).length)
    (bf : Rat) (k : Int) (ex : Bool) (tg ts : Int) :
    mst_call (K := Rat) norm pts soma bf k ex tg ts =
      some (tableWith (allPts soma pts) tg ts
        (run (disOf norm (allPts soma pts)) bf (limitOf k) ex (allPts soma pts).length ((allPts soma pts).length - 1)
          (init (allPts soma pts).length)).pid
        (disOf norm (allPts soma pts))) :=
  mst_call_refines norm pts soma hp hs hn bf k ex tg ts

/-- **one row per input point, in input order, with that point's coordinates; the first row (the soma / the first point) carries the soma
type, every other row the glia type** — for every table the generated `__call__` returns -/
theorem table_rows (all : List (List Rat)) (h3 : Rows3 all) (tg ts : Int) (pid : List Int) (dis : List (List Rat)) :
    let t := tableWith all tg ts pid dis
    t.1.length = all.length ∧ t.2.1.length = all.length ∧ t.2.2.1.length = all.length ∧ t.2.2.2.1.length = all.length ∧
    t.2.2.2.2.1.length = all.length ∧ t.2.2.2.2.2.1 = 1 ∧
    ∀ i, i < all.length →
      t.1.getD i 0 = (i : Int) ∧ t.2.1.getD i 0 = (if i = 0 then ts else tg) ∧
      [t.2.2.1.getD i 0, t.2.2.2.1.getD i 0, t.2.2.2.2.1.getD i 0] = all.getD i [] := by
  refine ⟨by simp [tableWith], by simp [tableWith], by simp [tableWith], by simp [tableWith], by simp [tableWith], rfl, ?_⟩
  intro i hi
  refine ⟨by simp [tableWith, List.getD_eq_getElem?_getD, hi], ?_, ?_⟩
  · by_cases h0 : i = 0
    · subst h0; simp [tableWith, List.getD_eq_getElem?_getD, hi]
    · have : ¬ 0 = i := fun e => h0 e.symm
      simp [tableWith, List.getD_eq_getElem?_getD, hi, List.getElem?_set, h0, this]
  · have hr : (all.getD i []).length = 3 := h3 _ (getD_mem all i [] hi)
    simp only [tableWith, List.getD_eq_getElem?_getD, List.getElem?_map, List.getElem?_eq_getElem hi, Option.map_some, Option.getD_some]
    match all[i], (by simpa [List.getD_eq_getElem?_getD, List.getElem?_eq_getElem hi] using hr : all[i].length = 3) with
    | [a, b, c], _ => rfl

/-- entry `[a][b]` of the matrix the code computes is the norm of the difference of the two points -/
theorem dist_disOf (norm : List Rat → Rat) (all : List (List Rat)) (a b : Nat) (ha : a < all.length) (hb : b < all.length) :
    dist (disOf norm all) a b = norm (List.zipWith (fun x y => x - y) (all.getD a []) (all.getD b [])) := by
  simp [dist, disOf, List.getD_eq_getElem?_getD, ha, hb]

/-- **a single tree containing every input point exactly once (plus the given soma), rooted at the soma or first point** — for the
generated `__call__`: it returns (never raises) the table over `soma :: points` (one row per point, `table_rows`); row 0 has no parent,
every other row has exactly one parent among the rows, and following parents from any row reaches row 0 -/
theorem generated_call_spanning (norm : List Rat → Rat) (pts : List (List Rat)) (soma : Option (List Rat))
    (hp : Rows3 pts) (hs : ∀ s, soma = some s → s.length = 3) (hn : 0 < (allPts soma pts).length)
    (bf : Rat) (k : Int) (ex : Bool) (tg ts : Int) (hk : k = -1 ∨ 1 ≤ k) :
    ∃ s, mst_call (K := Rat) norm pts soma bf k ex tg ts =
        some (tableWith (allPts soma pts) tg ts s.pid (disOf norm (allPts soma pts))) ∧
      Inv (disOf norm (allPts soma pts)) (allPts soma pts).length (limitOf k) ex s ∧
      (∀ j, j < (allPts soma pts).length → Conn s j) ∧
      s.pid.getD 0 0 = -1 ∧
      (∀ j, j < (allPts soma pts).length → j ≠ 0 → ∃ i, i < (allPts soma pts).length ∧ s.pid.getD j 0 = (i : Int)) ∧
      (∀ j, j < (allPts soma pts).length → ∃ d, d ≤ (allPts soma pts).length ∧ up s d j = 0) :=
  ⟨_, generated_call_eq_model norm pts soma hp hs hn bf k ex tg ts,
    spanning (disOf norm (allPts soma pts)) bf _ hn (limitOf k) ex (limitOf_pos k hk)⟩

/-- **with a branching limit `k ≥ 1` no row other than the (optionally exempt) root gets more than `k` children** — for the generated
`__call__` -/
theorem generated_call_branching_limit (norm : List Rat → Rat) (pts : List (List Rat)) (soma : Option (List Rat))
    (hp : Rows3 pts) (hs : ∀ s, soma = some s → s.length = 3) (hn : 0 < (allPts soma pts).length)
    (bf : Rat) (k : Nat) (hk : 1 ≤ k) (ex : Bool) (tg ts : Int) (i : Nat) (hi : i < (allPts soma pts).length) (hex : ex = false ∨ i ≠ 0) :
    ∃ s, mst_call (K := Rat) norm pts soma bf (k : Int) ex tg ts =
        some (tableWith (allPts soma pts) tg ts s.pid (disOf norm (allPts soma pts))) ∧ children s i ≤ k := by
  refine ⟨_, generated_call_eq_model norm pts soma hp hs hn bf k ex tg ts, ?_⟩
  have e : limitOf (k : Int) = some k := by
    have : (k : Int) ≠ -1 := by omega
    simp [limitOf, this]
  rw [e]
  exact branching_limit _ bf _ hn k hk ex i hi hex

/-- **without a balancing factor and without a branching limit (`PointsToMST(furcations=-1)`) the tree is a minimum spanning tree of the
points** — for the generated `__call__`, for every norm that is symmetric on differences and non-negative: the total length of the edges
`(pid[j], j)` of the returned table is at most the total length of any edge list that connects all the points -/
theorem generated_call_prim_minimal (norm : List Rat → Rat) (pts : List (List Rat)) (soma : Option (List Rat))
    (hp : Rows3 pts) (hs : ∀ s, soma = some s → s.length = 3) (hn : 0 < (allPts soma pts).length) (ex : Bool) (tg ts : Int)
    (hsym : ∀ u v, norm (List.zipWith (fun x y => x - y) u v) = norm (List.zipWith (fun x y => x - y) v u))
    (hnn : ∀ v, 0 ≤ norm v)
    (E : List (Nat × Nat)) (hE : Spans (allPts soma pts).length E) :
    ∃ s, mst_call (K := Rat) norm pts soma 0 (-1) ex tg ts =
        some (tableWith (allPts soma pts) tg ts s.pid (disOf norm (allPts soma pts))) ∧
      treeLength (disOf norm (allPts soma pts)) (allPts soma pts).length s ≤ wL (disOf norm (allPts soma pts)) E :=
  ⟨_, generated_call_eq_model norm pts soma hp hs hn 0 (-1) ex tg ts,
    prim_minimal _ _ hn ex
      (by intro a b ha hb; rw [dist_disOf norm _ a b ha hb, dist_disOf norm _ b a hb ha]; exact hsym _ _)
      (by intro a b ha hb; rw [dist_disOf norm _ a b ha hb]; exact hnn _) E hE⟩

/-- **the tree the generated `__call__` returns is itself a spanning edge list of exactly that length** (with `generated_call_prim_minimal`: its
length EQUALS the minimum) -/
theorem generated_call_prim_attains (norm : List Rat → Rat) (pts : List (List Rat)) (soma : Option (List Rat))
    (hp : Rows3 pts) (hs : ∀ s, soma = some s → s.length = 3) (hn : 0 < (allPts soma pts).length)
    (bf : Rat) (k : Int) (ex : Bool) (tg ts : Int) (hk : k = -1 ∨ 1 ≤ k) :
    ∃ s, mst_call (K := Rat) norm pts soma bf k ex tg ts =
        some (tableWith (allPts soma pts) tg ts s.pid (disOf norm (allPts soma pts))) ∧
      Spans (allPts soma pts).length (edgesOf (allPts soma pts).length s) ∧
      wL (disOf norm (allPts soma pts)) (edgesOf (allPts soma pts).length s) =
        treeLength (disOf norm (allPts soma pts)) (allPts soma pts).length s ∧
      (edgesOf (allPts soma pts).length s).length = (allPts soma pts).length - 1 :=
  ⟨_, generated_call_eq_model norm pts soma hp hs hn bf k ex tg ts,
    prim_attains (disOf norm (allPts soma pts)) bf _ hn (limitOf k) ex (limitOf_pos k hk)⟩

/-- **the generated `__call__` raises on an empty cloud without soma** (as the source does: `conn[0] = True` on an empty array) -/
theorem generated_call_raises_empty (norm : List Rat → Rat) (bf : Rat) (k : Int) (ex : Bool) (tg ts : Int) :
    mst_call (K := Rat) norm [] none bf k ex tg ts = none := by
  simp [mst_call, mst_call.body, Py.seq, Py.bind, Py.skip, Py.pairwiseNorm, Py.rowsOf, Py.full, Py.setIdx, Py.normIdx, Py.finish]

/-- **a soma that is not a triple raises** (`assert soma.shape == (3,)`) -/
theorem generated_call_raises_bad_soma (norm : List Rat → Rat) (pts : List (List Rat)) (s : List Rat) (h : s.length ≠ 3)
    (bf : Rat) (k : Int) (ex : Bool) (tg ts : Int) :
    mst_call (K := Rat) norm pts (some s) bf k ex tg ts = none := by
  have : ¬ ((s.length : Int) = 3) := by omega
  simp [mst_call, mst_call.body, Py.seq, Py.bind, Py.skip, this, Py.finish]

-- non-vacuity (kernel-evaluated): soma (0,0,0) + the cloud (10,0,0), (11,0,0), (1,0,0); as `norm` the squared length (ANY function is allowed)
def exNorm (v : List Rat) : Rat := (v.map (fun x => x * x)).sum
example : Rows3 [[10, 0, 0], [11, 0, 0], [1, 0, 0]] := by simp [Rows3]
example : (mst_call (K := Rat) exNorm [[10, 0, 0], [11, 0, 0], [1, 0, 0]] (some [0, 0, 0]) 0 (-1) true 7 1).map
    (fun r => (r.1, r.2.1, r.2.2.1, r.2.2.2.2.2.2.1)) = some ([0, 1, 2, 3], [1, 7, 7, 7], [0, 10, 11, 1], [-1, 3, 1, 0]) := by decide +kernel
example : (mst_call (K := Rat) exNorm [[10, 0, 0], [11, 0, 0], [1, 0, 0]] (some [0, 0, 0]) 0 (-1) true 7 1).map
    (fun r => (r.2.2.2.2.2.1, r.2.2.2.2.2.2.2.1)) = some (1, [[0, 0, 0], [10, 0, 0], [11, 0, 0], [1, 0, 0]]) := by decide +kernel
example : (mst_call (K := Rat) exNorm [[0, 0, 0], [10, 0, 0], [11, 0, 0], [1, 0, 0]] none 0 (-1) true 7 1).map
    (fun r => (r.1, r.2.1, r.2.2.1, r.2.2.2.2.2.2.1)) = some ([0, 1, 2, 3], [1, 7, 7, 7], [0, 10, 11, 1], [-1, 3, 1, 0]) := by decide +kernel
example : (mst_call (K := Rat) exNorm [[10, 0, 0]] (some [0, 0]) 0 (-1) true 7 1).isNone = true := by decide +kernel

end C17
