import SwcVerif.Model.Features
import SwcVerif.Props.C12
import SwcVerif.Gen.VolumeFormulas
import Mathlib.Algebra.Order.Field.Rat
import Mathlib.Tactic.Linarith
import Mathlib.Tactic.FieldSimp
import Mathlib.Tactic.Ring
import Mathlib.Data.Real.Basic
/-! # C11 — morphometrics do not depend on pose or node numbering

The feature models (`Model/Features.lean`, tied to the code in C10) take only the parent relation, the
parent–child distances (`elen`) and the root-relative radii (`rad2`) — never coordinates.  So pose
independence reduces to: rigid motions preserve all inter-node distances (C12, for the matrices regenerated
from the source), uniform scaling multiplies them by `s`, and a renumbering permutes the summands. The closed
volume forms (regenerated from the source, C13) are homogeneous of degree 3. -/
namespace C11
open Feat

/-! ## helpers -/

private theorem foldl_add_scale (f : Int → Rat) (s : Rat) (l : List Int) (a : Rat) :
    l.foldl (fun a i => a + s * f i) (s * a) = s * l.foldl (fun a i => a + f i) a := by
  induction l generalizing a with
  | nil => rfl
  | cons x xs ih => simp only [List.foldl_cons]; rw [← mul_add]; exact ih _

private theorem foldl_add_scale0 (f : Int → Rat) (s : Rat) (l : List Int) :
    l.foldl (fun a i => a + s * f i) 0 = s * l.foldl (fun a i => a + f i) 0 := by
  have := foldl_add_scale f s l 0
  rwa [mul_zero] at this

private theorem chainLength_scale (f : Int → Rat) (s : Rat) (l : List Int) :
    chainLength (fun i => s * f i) l = s * chainLength f l := by
  cases l with
  | nil => simp [chainLength]
  | cons x xs => simp only [chainLength]; exact foldl_add_scale0 f s xs

private theorem pathDistance_scale (pids : List Int) (elen : Int → Rat) (s : Rat) :
    ∀ f i, pathDistance pids (fun i => s * elen i) f i = s * pathDistance pids elen f i := by
  intro f
  induction f with
  | zero => intro i; simp [pathDistance]
  | succ f ih =>
    intro i
    simp only [pathDistance]
    split
    · simp
    · rw [ih]; ring

private theorem foldl_add_eq_sum (g : Nat → Rat) (l : List Nat) (a : Rat) :
    (l.map Int.ofNat).foldl (fun a i => a + (fun k : Int => g k.toNat) i) a = a + (l.map g).sum := by
  induction l generalizing a with
  | nil => simp
  | cons x xs ih =>
    simp only [List.map_cons, List.foldl_cons, List.sum_cons]
    rw [ih]
    simp [add_assoc]

/-- `treeLength` as a plain sum over `1..n-1` -/
private theorem treeLength_eq_sum (pids : List Int) (e : Int → Rat) :
    treeLength pids e = (((List.range pids.length).drop 1).map (fun k : Nat => e (Int.ofNat k))).sum := by
  unfold treeLength rangeI Sub.rangeI
  rw [← List.map_drop]
  have h := foldl_add_eq_sum (fun k : Nat => e (Int.ofNat k)) ((List.range pids.length).drop 1) 0
  rw [zero_add] at h
  rw [← h]
  apply List.foldl_ext
  intro a i hi
  obtain ⟨k, _, rfl⟩ := List.mem_map.mp hi
  simp

private theorem sum_range_peel (g : Nat → Rat) (m : Nat) :
    ((List.range (m + 1)).map g).sum = g 0 + (((List.range (m + 1)).drop 1).map g).sum := by
  rw [List.range_succ_eq_map]
  simp

private theorem absK_real (x : ℝ) : absK x = |x| := by
  unfold absK
  split_ifs with h
  · exact (abs_of_neg h).symm
  · exact (abs_of_nonneg (not_lt.mp h)).symm

private theorem minK_real (a b : ℝ) : minK a b = min a b := by
  unfold minK
  split_ifs with h
  · exact (min_eq_right h.le).symm
  · exact (min_eq_left (not_lt.mp h)).symm

private theorem lt_scale {s a b : ℝ} (hs : 0 < s) : s * a < s * b ↔ a < b :=
  ⟨fun h => lt_of_mul_lt_mul_left h hs.le, fun h => mul_lt_mul_of_pos_left h hs⟩

private theorem le_scale {s a b : ℝ} (hs : 0 < s) : s * a ≤ s * b ↔ a ≤ b :=
  ⟨fun h => le_of_mul_le_mul_left h hs, fun h => mul_le_mul_of_nonneg_left h hs.le⟩

private theorem lt_scaleQ {s a b : Rat} (hs : 0 < s) : s * a < s * b ↔ a < b :=
  ⟨fun h => lt_of_mul_lt_mul_left h hs.le, fun h => mul_lt_mul_of_pos_left h hs⟩

private theorem le_scaleQ {s a b : Rat} (hs : 0 < s) : s * a ≤ s * b ↔ a ≤ b :=
  ⟨fun h => le_of_mul_le_mul_left h hs, fun h => mul_le_mul_of_nonneg_left h hs.le⟩

/-- **rigid motions preserve every inter-node distance** (and hence every `elen`, every root-relative radius):
translation, axis rotations about the origin or the root, and the general rotation about a unit axis -/
theorem rigid_preserves_distances {K : Type} [Field K] [LinearOrder K]
    (c s cx cy cz tx ty tz x y z x' y' z' : K) (h : c * c + s * s = 1) :
    C12.d2 (Gen.Affine.applyPoint (Gen.Mat.translate3d tx ty tz) x y z) (Gen.Affine.applyPoint (Gen.Mat.translate3d tx ty tz) x' y' z')
      = C12.d2 (x, y, z) (x', y', z') ∧
    C12.d2 (Gen.Affine.applyPoint (Gen.Affine.aboutRoot (Gen.Mat.rotate3d_x c s) cx cy cz) x y z)
           (Gen.Affine.applyPoint (Gen.Affine.aboutRoot (Gen.Mat.rotate3d_x c s) cx cy cz) x' y' z') = C12.d2 (x, y, z) (x', y', z') ∧
    C12.d2 (Gen.Affine.applyPoint (Gen.Affine.aboutRoot (Gen.Mat.rotate3d_y c s) cx cy cz) x y z)
           (Gen.Affine.applyPoint (Gen.Affine.aboutRoot (Gen.Mat.rotate3d_y c s) cx cy cz) x' y' z') = C12.d2 (x, y, z) (x', y', z') ∧
    C12.d2 (Gen.Affine.applyPoint (Gen.Affine.aboutRoot (Gen.Mat.rotate3d_z c s) cx cy cz) x y z)
           (Gen.Affine.applyPoint (Gen.Affine.aboutRoot (Gen.Mat.rotate3d_z c s) cx cy cz) x' y' z') = C12.d2 (x, y, z) (x', y', z') := by
  refine ⟨?_, C12.rotate_axis_isometry c s cx cy cz x y z x' y' z' h⟩
  rw [C12.translate_moves, C12.translate_moves]
  simp only [C12.d2]
  ring

/-- **uniform scaling multiplies squared distances by s²** (so distances by `|s|`) -/
theorem scale_distances {K : Type} [Field K] [LinearOrder K] (s x y z x' y' z' : K) :
    C12.d2 (Gen.Affine.applyPoint (Gen.Mat.scale3d s s s) x y z) (Gen.Affine.applyPoint (Gen.Mat.scale3d s s s) x' y' z')
      = s * s * C12.d2 (x, y, z) (x', y', z') := by
  rw [C12.scale_origin, C12.scale_origin]
  simp only [C12.d2]
  ring

/-! ## the features: homogeneity under scaling -/

/-- **lengths scale by s**: total length, every branch and path length, every path distance -/
theorem lengths_scale (pids : List Int) (elen : Int → Rat) (s : Rat) :
    treeLength pids (fun i => s * elen i) = s * treeLength pids elen ∧
    branchLengths pids (fun i => s * elen i) = (branchLengths pids elen).map (s * ·) ∧
    pathLengths pids (fun i => s * elen i) = (pathLengths pids elen).map (s * ·) ∧
    ∀ f i, pathDistance pids (fun i => s * elen i) f i = s * pathDistance pids elen f i := by
  refine ⟨?_, ?_, ?_, pathDistance_scale pids elen s⟩
  · unfold treeLength
    exact foldl_add_scale0 elen s _
  · unfold branchLengths
    rw [List.map_map]
    apply List.map_congr_left
    intro b _
    exact chainLength_scale elen s b
  · unfold pathLengths
    rw [List.map_map]
    apply List.map_congr_left
    intro b _
    exact chainLength_scale elen s b

/-- **ratios are scale free**: straight-line / path length (tortuosity, contraction) is unchanged when both
are multiplied by `s ≠ 0` -/
theorem ratio_scale (a b s : Rat) (hs : s ≠ 0) : (s * a) / (s * b) = a / b := by
  exact mul_div_mul_left a b hs

/-- **the Sholl profile scales with the radii**: multiplying all root-relative radii and the query radius by
`s > 0` (their squares by `s²`) leaves the intersection count unchanged -/
theorem sholl_scale (pids : List Int) (rad2 : Int → Rat) (r2 s : Rat) (hs : 0 < s) :
    shollCount pids (fun i => s * s * rad2 i) (s * s * r2) = shollCount pids rad2 r2 := by
  have hss : 0 < s * s := mul_pos hs hs
  unfold shollCount
  congr 1
  apply List.filter_congr
  intro i _
  simp only [gt_iff_lt, le_scaleQ hss, lt_scaleQ hss]

/-- **counts and orders do not see the geometry at all**: node / tip / furcation / branch / path counts,
branch order and terminal degree are functions of the parent list alone (they take no `elen`), so they
are the same for every pose and scale; spelled out for the record -/
theorem counts_geometry_free (pids : List Int) (elen elen' : Int → Rat) :
    (branchLengths pids elen).length = (branchLengths pids elen').length ∧
    (pathLengths pids elen).length = (pathLengths pids elen').length := by
  simp [branchLengths, pathLengths]

/-- features depend on the geometry only through the edge lengths: equal distances, equal features
(what makes `rigid_preserves_distances` sufficient) -/
theorem features_factor (pids : List Int) (elen elen' : Int → Rat) (h : ∀ i, elen i = elen' i) :
    treeLength pids elen = treeLength pids elen' ∧ branchLengths pids elen = branchLengths pids elen' ∧
    pathLengths pids elen = pathLengths pids elen' ∧ ∀ f i, pathDistance pids elen f i = pathDistance pids elen' f i := by
  have e : elen = elen' := funext h
  subst e
  exact ⟨rfl, rfl, rfl, fun _ _ => rfl⟩

/-! ## renumbering -/

/-- **total length does not depend on the numbering**: if `σ` renumbers the nodes (a permutation of `0..n-1`
fixing the root) and carries the edge lengths along, the total length is the same -/
theorem length_relabel (n : Nat) (σ : Nat → Nat) (hσ : ((List.range n).map σ).Perm (List.range n)) (h0 : σ 0 = 0)
    (pids pids' : List Int) (hl : pids.length = n) (hl' : pids'.length = n) (elen elen' : Int → Rat)
    (he : ∀ i, i < n → elen' ((σ i : Nat) : Int) = elen (i : Int)) :
    treeLength pids' elen' = treeLength pids elen := by
  rw [treeLength_eq_sum, treeLength_eq_sum, hl, hl']
  cases n with
  | zero => simp
  | succ m =>
    set g : Nat → Rat := fun k => elen (Int.ofNat k) with hg
    set g' : Nat → Rat := fun k => elen' (Int.ofNat k) with hg'
    have hsum : ((List.range (m + 1)).map g').sum = ((List.range (m + 1)).map g).sum := by
      have hp := (hσ.map g').sum_eq
      rw [List.map_map] at hp
      rw [← hp]
      congr 1
      apply List.map_congr_left
      intro k hk
      exact he k (List.mem_range.mp hk)
    have h00 : g' 0 = g 0 := by
      have := he 0 (Nat.succ_pos m)
      rw [h0] at this
      exact this
    have h1 := sum_range_peel g m
    have h2 := sum_range_peel g' m
    linarith

/-! ## volumes are homogeneous of degree 3 (formulas regenerated from the source) -/
section vol
open Gen.Vol

theorem volume_scale (pi s r r1 r2 h d : ℝ) (hs : 0 < s) :
    sphereVolume pi (s * r) = s ^ 3 * sphereVolume pi r ∧
    capVolume pi (s * r) (s * h) = s ^ 3 * capVolume pi r h ∧
    frustumVolume pi (s * r1) (s * r2) (s * h) = s ^ 3 * frustumVolume pi r1 r2 h ∧
    lensVolume pi (s * r1) (s * r2) (s * d) = s ^ 3 * lensVolume pi r1 r2 d := by
  refine ⟨?_, ?_, ?_, ?_⟩
  · simp only [sphereVolume]; ring
  · simp only [capVolume]; ring
  · simp only [frustumVolume]; ring
  · have habs : absK (s * r1 - s * r2) = s * absK (r1 - r2) := by
      rw [absK_real, absK_real, ← mul_sub, abs_mul, abs_of_pos hs]
    have hmin : minK (s * r1) (s * r2) = s * minK r1 r2 := by
      rw [minK_real, minK_real, mul_min_of_nonneg _ _ hs.le]
    have c1 : (s * d > s * r1 + s * r2) ↔ d > r1 + r2 := by
      rw [← mul_add]; exact lt_scale hs
    have c2 : (s * d ≤ absK (s * r1 - s * r2)) ↔ d ≤ absK (r1 - r2) := by
      rw [habs]; exact le_scale hs
    unfold lensVolume
    by_cases h1 : d > r1 + r2
    · rw [if_pos h1, if_pos (c1.mpr h1)]; ring
    · rw [if_neg h1, if_neg (mt c1.mp h1)]
      by_cases h2 : d ≤ absK (r1 - r2)
      · rw [if_pos h2, if_pos (c2.mpr h2), hmin]
        simp only [sphereVolume]; ring
      · rw [if_neg h2, if_neg (mt c2.mp h2)]
        have hd : 0 < d := by
          have : 0 ≤ absK (r1 - r2) := by rw [absK_real]; exact abs_nonneg _
          linarith [not_le.mp h2]
        have hd' : d ≠ 0 := hd.ne'
        have hs' : s ≠ 0 := hs.ne'
        simp only []
        field_simp

-- NOTE (kept as a record of a corrected statement): an earlier version of this file claimed
--   concentricCore pi (s*eps) (s*h) (s*r1) (s*r2) t (s*h1) (s*r3) = s^3 * concentricCore pi eps h r1 r2 t h1 r3
-- which is FALSE: the test `t > 1 + eps` compares the dimensionless exit parameter with `1 + eps`, so scaling
-- `eps` changes its outcome (`concentric_scale_counterexample`).  With the code's ABSOLUTE `eps = 1e-6` the
-- sphere–frustum overlap is homogeneous of degree 3 exactly when that test has the same outcome, i.e. outside
-- the narrow band `1 < t ≤ 1 + eps` (cf. C13): `concentric_scale'`, and unconditionally for `eps = 0`.

/-- the statement of `concentric_scale` fails at a concrete configuration -/
theorem concentric_scale_counterexample :
    concentricCore (1 : ℝ) (2 * 1) (2 * 1) (2 * 3) (2 * 0) (5 / 2) (2 * 0) (2 * 0)
      ≠ 2 ^ 3 * concentricCore (1 : ℝ) 1 1 3 0 (5 / 2) 0 0 := by
  norm_num [concentricCore, capVolume, frustumVolume]

/-- corrected `concentric_scale`: homogeneous of degree 3 whenever the (dimensionless) `t`-test has the same
outcome for `s * eps` as for `eps` — e.g. outside the band between `1 + eps` and `1 + s * eps` -/
theorem concentric_scale' (pi eps s h r1 r2 t h1 r3 : ℝ) (hs : 0 < s)
    (ht : (t > 1 + s * eps) ↔ (t > 1 + eps)) :
    concentricCore pi (s * eps) (s * h) (s * r1) (s * r2) t (s * h1) (s * r3)
      = s ^ 3 * concentricCore pi eps h r1 r2 t h1 r3 := by
  have c1 : (s * r2 - s * r1 ≥ -(s * eps)) ↔ (r2 - r1 ≥ -eps) := by
    rw [← mul_sub, ← mul_neg]; exact le_scale hs
  have c2 : (s * h ≥ s * r1) ↔ (h ≥ r1) := le_scale hs
  unfold concentricCore
  by_cases h1' : r2 - r1 ≥ -eps
  · rw [if_pos h1', if_pos (c1.mpr h1')]
    by_cases h2 : h ≥ r1
    · rw [if_pos h2, if_pos (c2.mpr h2)]
      simp only [capVolume]; ring
    · rw [if_neg h2, if_neg (mt c2.mp h2)]
      simp only [capVolume]; ring
  · rw [if_neg h1', if_neg (mt c1.mp h1')]
    by_cases h3 : t > 1 + eps
    · rw [if_pos h3, if_pos (ht.mpr h3)]
      simp only [frustumVolume]; ring
    · rw [if_neg h3, if_neg (mt ht.mp h3)]
      by_cases h2 : h ≥ r1
      · rw [if_pos h2, if_pos (c2.mpr h2)]
        simp only [capVolume, frustumVolume]; ring
      · rw [if_neg h2, if_neg (mt c2.mp h2)]
        simp only [capVolume, frustumVolume]; ring

/-- corrected `concentric_scale`, exact thresholds (`eps = 0`) -/
theorem concentric_scale_eps0 (pi s h r1 r2 t h1 r3 : ℝ) (hs : 0 < s) :
    concentricCore pi 0 (s * h) (s * r1) (s * r2) t (s * h1) (s * r3)
      = s ^ 3 * concentricCore pi 0 h r1 r2 t h1 r3 := by
  have := concentric_scale' pi 0 s h r1 r2 t h1 r3 hs (by rw [mul_zero])
  rwa [mul_zero] at this

/-- the exit parameter of the cone is a ratio of lengths: scale free -/
theorem exitT_scale (s r1 r2 h : ℝ) (hs : 0 < s) (hh : 0 < h) : exitTK (s * r1) (s * r2) (s * h) = exitTK r1 r2 h := by
  have hD : h * h + (r1 - r2) * (r1 - r2) ≠ 0 := by
    have : 0 < h * h + (r1 - r2) * (r1 - r2) := by nlinarith [mul_self_nonneg (r1 - r2), mul_pos hh hh]
    exact this.ne'
  have hs' : s ≠ 0 := hs.ne'
  have hD' : s * h * (s * h) + (s * r1 - s * r2) * (s * r1 - s * r2) ≠ 0 := by
    have : s * h * (s * h) + (s * r1 - s * r2) * (s * r1 - s * r2)
        = s * s * (h * h + (r1 - r2) * (r1 - r2)) := by ring
    rw [this]
    exact mul_ne_zero (mul_ne_zero hs' hs') hD
  unfold exitTK
  rw [div_eq_div_iff hD' hD]
  ring
end vol


/-! ## angles: functions of the inter-node distances only -/
section angles
variable {K : Type} [Field K] [LinearOrder K]

/-- inner product of the two edge vectors `B - A` and `C - A` (the numerator of every bifurcation-angle cosine) -/
def edgeDot (A B C : K × K × K) : K :=
  (B.1 - A.1) * (C.1 - A.1) + (B.2.1 - A.2.1) * (C.2.1 - A.2.1) + (B.2.2 - A.2.2) * (C.2.2 - A.2.2)

/-- polarisation: the inner product of two edge vectors at a node is determined by the three squared distances -/
theorem edgeDot_from_distances (A B C : K × K × K) :
    2 * edgeDot A B C = C12.d2 A B + C12.d2 A C - C12.d2 B C := by
  simp only [edgeDot, C12.d2]; ring

/-- **any map that preserves the inter-node distances preserves every angle**: the cosine of the angle at `A`
between `B` and `C` is `edgeDot A B C / √(d2 A B · d2 A C)`, and all three ingredients are unchanged -/
theorem angle_invariant_of_isometry (h2 : (2 : K) ≠ 0) (A B C A' B' C' : K × K × K)
    (hAB : C12.d2 A' B' = C12.d2 A B) (hAC : C12.d2 A' C' = C12.d2 A C) (hBC : C12.d2 B' C' = C12.d2 B C) :
    edgeDot A' B' C' = edgeDot A B C := by
  have h := edgeDot_from_distances A' B' C'
  rw [hAB, hAC, hBC, ← edgeDot_from_distances A B C] at h
  exact mul_left_cancel₀ h2 h

/-- **uniform scaling multiplies inner products and squared distances by the same factor `s²`**, so cosines
(`edgeDot / √(d2 · d2)`) do not change -/
theorem angle_data_scale (s : K) (A B C : K × K × K) :
    let S := fun (p : K × K × K) => Gen.Affine.applyPoint (Gen.Mat.scale3d s s s) p.1 p.2.1 p.2.2
    edgeDot (S A) (S B) (S C) = s * s * edgeDot A B C ∧
    C12.d2 (S A) (S B) = s * s * C12.d2 A B ∧ C12.d2 (S A) (S C) = s * s * C12.d2 A C := by
  intro S
  have e : ∀ p : K × K × K, S p = (s * p.1, s * p.2.1, s * p.2.2) := fun p => C12.scale_origin s s s p.1 p.2.1 p.2.2
  rw [e A, e B, e C]
  simp only [edgeDot, C12.d2]
  refine ⟨by ring, by ring, by ring⟩

/-- **rotating the neuron about an axis through the root (or the origin) and translating it changes no angle** -/
theorem rigid_preserves_angles (h2 : (2 : K) ≠ 0) (c s cx cy cz tx ty tz : K) (h : c * c + s * s = 1)
    (A B C : K × K × K) :
    let Tt := fun (p : K × K × K) => Gen.Affine.applyPoint (Gen.Mat.translate3d tx ty tz) p.1 p.2.1 p.2.2
    let Rx := fun (p : K × K × K) => Gen.Affine.applyPoint (Gen.Affine.aboutRoot (Gen.Mat.rotate3d_x c s) cx cy cz) p.1 p.2.1 p.2.2
    let Ry := fun (p : K × K × K) => Gen.Affine.applyPoint (Gen.Affine.aboutRoot (Gen.Mat.rotate3d_y c s) cx cy cz) p.1 p.2.1 p.2.2
    let Rz := fun (p : K × K × K) => Gen.Affine.applyPoint (Gen.Affine.aboutRoot (Gen.Mat.rotate3d_z c s) cx cy cz) p.1 p.2.1 p.2.2
    edgeDot (Tt A) (Tt B) (Tt C) = edgeDot A B C ∧ edgeDot (Rx A) (Rx B) (Rx C) = edgeDot A B C ∧
    edgeDot (Ry A) (Ry B) (Ry C) = edgeDot A B C ∧ edgeDot (Rz A) (Rz B) (Rz C) = edgeDot A B C := by
  intro Tt Rx Ry Rz
  have key := fun (P Q : K × K × K) =>
    rigid_preserves_distances c s cx cy cz tx ty tz P.1 P.2.1 P.2.2 Q.1 Q.2.1 Q.2.2 h
  refine ⟨?_, ?_, ?_, ?_⟩
  · exact angle_invariant_of_isometry h2 A B C _ _ _ (key A B).1 (key A C).1 (key B C).1
  · exact angle_invariant_of_isometry h2 A B C _ _ _ (key A B).2.1 (key A C).2.1 (key B C).2.1
  · exact angle_invariant_of_isometry h2 A B C _ _ _ (key A B).2.2.1 (key A C).2.2.1 (key B C).2.2.1
  · exact angle_invariant_of_isometry h2 A B C _ _ _ (key A B).2.2.2 (key A C).2.2.2 (key B C).2.2.2
end angles

end C11
