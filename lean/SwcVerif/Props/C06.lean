import SwcVerif.Model.Subtree
import SwcVerif.Props.C04
import SwcVerif.Props.C05
/-! # C06 — subtree extraction and pruning keep exactly the specified nodes

Theorems about the models of `Model/Subtree.lean` (tied to the code by the `c06.ops` correspondence:
new parents and new→old mapping compared exactly, exhaustively for all small sorted trees).
The traversals are C04's machine; by `Trav.main` they equal structural recursion on the rose that
represents the table, so every statement is for every tree shape, depth and numbering. -/
namespace C06
open Sub Trav

/-! ## helper lemmas: lists, `mapM`, `pos?`, the table `(0..n-1, pids)`, fuel -/

theorem mapM_some_iff {α β : Type} (f : α → Option β) : ∀ (l : List α) (out : List β),
    l.mapM f = some out ↔
      out.length = l.length ∧ ∀ k (h1 : k < l.length) (h2 : k < out.length), f l[k] = some out[k]
  | [], out => by
    cases out <;> simp
  | a :: as, out => by
    rw [List.mapM_cons]
    cases hfa : f a with
    | none =>
      simp only [Option.bind_eq_bind, Option.bind_none]
      constructor
      · intro h; cases h
      · rintro ⟨hl, hk⟩
        cases out with
        | nil => simp at hl
        | cons b bs =>
          have := hk 0 (by simp) (by simp)
          simp [hfa] at this
    | some b =>
      cases hm : as.mapM f with
      | none =>
        simp only [Option.bind_eq_bind, Option.bind_some, Option.bind_none]
        constructor
        · intro h; cases h
        · rintro ⟨hl, hk⟩
          cases out with
          | nil => simp at hl
          | cons b' bs =>
            exfalso
            have : as.mapM f = some bs := by
              rw [mapM_some_iff f as bs]
              refine ⟨by simpa using hl, fun k h1 h2 => ?_⟩
              have := hk (k+1) (by simpa using h1) (by simpa using h2)
              simpa using this
            rw [hm] at this; cases this
      | some bs =>
        have ih := (mapM_some_iff f as bs).1 hm
        simp only [Option.bind_eq_bind, Option.bind_some, Option.pure_def, Option.some.injEq]
        constructor
        · rintro rfl
          refine ⟨by simp [ih.1], fun k h1 h2 => ?_⟩
          cases k with
          | zero => simpa using hfa
          | succ k => simpa using ih.2 k (by simpa using h1) (by simpa using h2)
        · rintro ⟨hl, hk⟩
          cases out with
          | nil => simp at hl
          | cons b' bs' =>
            have h0 := hk 0 (by simp) (by simp)
            simp [hfa] at h0
            have : as.mapM f = some bs' := by
              rw [mapM_some_iff f as bs']
              refine ⟨by simpa using hl, fun k h1 h2 => ?_⟩
              have := hk (k+1) (by simpa using h1) (by simpa using h2)
              simpa using this
            rw [hm] at this
            simp at this
            simp [h0, this]


theorem getD_eq_getElem {α} (l : List α) (d : α) {i : Nat} (h : i < l.length) : l.getD i d = l[i] := by
  simp [List.getD_eq_getElem?_getD, List.getElem?_eq_getElem h]

theorem zip_filter_fst (p : Int → Bool) : ∀ (a b : List Int), a.length ≤ b.length →
    ((List.zip a b).filter (fun ip => p ip.1)).map (·.1) = a.filter p
  | [], _, _ => by simp
  | x :: a, [], h => by simp at h
  | x :: a, y :: b, h => by
    have ih := zip_filter_fst p a b (by simpa using h)
    simp only [List.zip_cons_cons, List.filter_cons]
    by_cases hp : p x = true
    · simp [hp, ih]
    · simp [hp, ih]

theorem pos?_some (l : List Int) (i j : Int) (h : pos? l i = some j) :
    0 ≤ j ∧ ∃ hj : j.toNat < l.length, l[j.toNat] = i := by
  unfold pos? at h
  simp only at h
  split at h
  · rename_i hlt
    simp only [Option.some.injEq] at h
    subst h
    refine ⟨by omega, ?_⟩
    have e : ((List.idxOf i l : Nat) : Int).toNat = List.idxOf i l := by simp
    refine ⟨by rw [e]; exact hlt, ?_⟩
    simp only [e]
    exact List.getElem_idxOf hlt
  · cases h

theorem pos?_isSome (l : List Int) (i : Int) : (pos? l i).isSome ↔ i ∈ l := by
  unfold pos?
  simp only
  split
  · rename_i hlt
    simp [List.idxOf_lt_length_iff.1 hlt]
  · rename_i hlt
    simp only [Option.isSome_none, Bool.false_eq_true, false_iff]
    intro hm
    exact hlt (List.idxOf_lt_length_of_mem hm)

theorem tk_length (ps : List Int) (k : Nat) (q : Int) :
    (SortM.tk ps k q).length = (ps.filter (· = q)).length := by
  induction ps generalizing k with
  | nil => simp [SortM.tk]
  | cons p ps ih =>
    simp only [SortM.tk, List.filter_cons]
    by_cases h : p = q <;> simp [h, ih]

theorem tableKids_rangeI (pids : List Int) (q : Int) :
    tableKids (rangeI pids.length) pids q = SortM.tk pids 0 q :=
  SortM.tableKids_range pids pids.length rfl q

theorem mem_tk (ps : List Int) (k : Nat) (q j : Int) :
    j ∈ SortM.tk ps k q ↔ ∃ m, ∃ h : m < ps.length, j = ((k + m : Nat) : Int) ∧ ps[m] = q := by
  induction ps generalizing k with
  | nil => simp [SortM.tk]
  | cons p ps ih =>
    simp only [SortM.tk]
    constructor
    · intro h
      by_cases hp : p = q
      · rw [if_pos hp] at h
        rcases List.mem_cons.1 h with h | h
        · exact ⟨0, by simp, by simp [h], by simpa using hp⟩
        · obtain ⟨m, hm, e, hq⟩ := (ih (k+1)).1 h
          exact ⟨m+1, by simpa using hm, by rw [e]; congr 1; omega, by simpa using hq⟩
      · rw [if_neg hp] at h
        obtain ⟨m, hm, e, hq⟩ := (ih (k+1)).1 h
        exact ⟨m+1, by simpa using hm, by rw [e]; congr 1; omega, by simpa using hq⟩
    · rintro ⟨m, hm, e, hq⟩
      cases m with
      | zero =>
        simp only [List.getElem_cons_zero] at hq
        rw [if_pos hq]; simp [e]
      | succ m =>
        have : j ∈ SortM.tk ps (k+1) q := (ih (k+1)).2 ⟨m, by simpa using hm, by rw [e]; congr 1; omega, by simpa using hq⟩
        split
        · exact List.mem_cons_of_mem _ this
        · exact this

/-- a row of the table `(0..n-1, pids)`: `j` is a child of `q` iff `pids[j] = q` -/
theorem mem_tableKids (pids : List Int) (q j : Int) :
    j ∈ tableKids (rangeI pids.length) pids q ↔ 0 ≤ j ∧ ∃ h : j.toNat < pids.length, pids[j.toNat] = q := by
  rw [tableKids_rangeI, mem_tk]
  constructor
  · rintro ⟨m, hm, e, hq⟩
    subst e
    refine ⟨by omega, ?_⟩
    simp only [Nat.zero_add, Int.toNat_natCast]
    exact ⟨hm, hq⟩
  · rintro ⟨h0, hm, hq⟩
    exact ⟨j.toNat, hm, by omega, hq⟩

theorem mem_rangeI (n : Nat) (i : Int) : i ∈ rangeI n ↔ 0 ≤ i ∧ i.toNat < n := by
  simp only [rangeI, List.mem_map, List.mem_range]
  constructor
  · rintro ⟨a, ha, rfl⟩
    exact ⟨by simp, by simpa using ha⟩
  · rintro ⟨h0, h1⟩
    exact ⟨i.toNat, h1, by simp; omega⟩

theorem nodup_bound : ∀ (n : Nat) (l : List Int), l.Nodup → (∀ i ∈ l, 0 ≤ i ∧ i.toNat < n) → l.length ≤ n
  | 0, l, _, h => by
    cases l with
    | nil => simp
    | cons a l => have := h a (by simp); omega
  | n+1, l, hd, h => by
    have ih := nodup_bound n (l.erase (n : Int)) (hd.erase _) (by
      intro i hi
      rw [hd.mem_erase_iff] at hi
      have := h i hi.2
      refine ⟨this.1, ?_⟩
      have hne := hi.1
      omega)
    rw [List.length_erase] at ih
    split at ih <;> omega

theorem run_model {σ T K : Type} (ids pids : List Int) (r : Rose) (h : Represents r ids pids) (n : Nat) (hn : r.size ≤ n)
    (enter : σ → Int → Option T → σ × T) (leave : σ → Int → List K → σ × K) (s : σ) :
    (run (tableKids ids pids) enter leave (2 * n + 2) (init r.id s)).s = (spec enter leave r none s).1 := by
  have e : 2 * n + 2 = 2 * r.size + (2 * n + 2 - 2 * r.size) := by omega
  rw [e, C04.fuel_suffices ids pids r h]
  exact (C04.traverse_eq_spec ids pids r h enter leave s).2.1

theorem rose_size_le (r : Rose) (n : Nat) (hd : r.ids.Nodup) (h : ∀ i ∈ r.ids, 0 ≤ i ∧ i.toNat < n) : r.size ≤ n := by
  rw [← SortM.ids_length]; exact nodup_bound n _ hd h

/-! ## compaction: `to_sub_topology` -/

/-- **compaction keeps exactly the unmarked rows, in order, and remaps parents**: the mapping lists the
old ids of the kept rows; new ids are positions; a kept row without parent stays without parent; a kept
row with parent `p` gets as new parent the position of `p` among the kept rows (`mapping[newPid] = p`). -/
theorem toSubTopology_spec (subId subPid : List Int) (hl : subId.length = subPid.length) (res : SubTopo)
    (h : toSubTopology subId subPid = some res) :
    res.mapping = subId.filter (· ≠ REMOVAL) ∧
    res.newPid.length = res.mapping.length ∧
    ∀ k (hk : k < res.newPid.length),
      let p := (((List.zip subId subPid).filter (fun ip => ip.1 ≠ REMOVAL)).map (·.2)).getD k 0
      (p = -1 → res.newPid[k] = -1) ∧
      (p ≠ -1 → 0 ≤ res.newPid[k] ∧ res.mapping.getD res.newPid[k].toNat 0 = p) := by
  unfold toSubTopology at h
  simp only [Option.map_eq_some_iff] at h
  obtain ⟨np, hnp, rfl⟩ := h
  rw [mapM_some_iff] at hnp
  obtain ⟨hlen, hk⟩ := hnp
  refine ⟨zip_filter_fst (fun x => decide (x ≠ REMOVAL)) subId subPid (by omega), by simp [hlen], ?_⟩
  intro k hkn
  simp only at hkn ⊢
  have hk1 : k < ((List.zip subId subPid).filter (fun ip => decide (ip.1 ≠ REMOVAL))).length := by omega
  have hkk := hk k hk1 hkn
  rw [getD_eq_getElem _ _ (by simpa using hk1)]
  simp only [List.getElem_map]
  constructor
  · intro hp
    rw [if_pos hp] at hkk
    simpa using hkk.symm
  · intro hp
    rw [if_neg hp] at hkk
    obtain ⟨h0, hj, hget⟩ := pos?_some _ _ _ hkk
    refine ⟨h0, ?_⟩
    rw [getD_eq_getElem _ _ hj]
    exact hget

-- the same with the weaker hypothesis `subId.length ≤ subPid.length` (`List.zip` truncates)
theorem toSubTopology_ok_iff' (subId subPid : List Int) (hl : subId.length ≤ subPid.length) :
    (toSubTopology subId subPid).isSome ↔
      ∀ ip ∈ (List.zip subId subPid).filter (fun ip => ip.1 ≠ REMOVAL),
        ip.2 = -1 ∨ ip.2 ∈ subId.filter (· ≠ REMOVAL) := by
  rw [← zip_filter_fst (fun x => decide (x ≠ REMOVAL)) subId subPid hl]
  unfold toSubTopology
  simp only [Option.isSome_map]
  generalize (List.zip subId subPid).filter (fun ip => decide (ip.1 ≠ REMOVAL)) = kept
  generalize hK : kept.map (·.1) = keptIds
  clear hK
  induction kept with
  | nil => simp
  | cons a as ih =>
    rw [List.mapM_cons]
    simp only [List.mem_cons, forall_eq_or_imp]
    rw [← ih]
    by_cases ha : a.2 = -1
    · simp only [ha, if_true, true_or, true_and]
      generalize List.mapM (m := Option) _ as = M
      cases M <;> simp
    · simp only [ha, if_false, false_or]
      rw [← pos?_isSome]
      generalize List.mapM (m := Option) _ as = M
      cases pos? keptIds a.2 <;> cases M <;> simp

/-- compaction fails (KeyError in the code) exactly when some kept row's parent is neither `-1` nor kept -/
theorem toSubTopology_ok_iff (subId subPid : List Int) (hl : subId.length = subPid.length) :
    (toSubTopology subId subPid).isSome ↔
      ∀ ip ∈ (List.zip subId subPid).filter (fun ip => ip.1 ≠ REMOVAL),
        ip.2 = -1 ∨ ip.2 ∈ subId.filter (· ≠ REMOVAL) :=
  toSubTopology_ok_iff' subId subPid (by omega)

/-- every per-node column is read through the mapping: the survivors keep all their attributes -/
theorem attrs_preserved {α : Type} [Inhabited α] (col : List α) (mapping : List Int) (k : Nat) (hk : k < mapping.length) :
    (takeRows col mapping).length = mapping.length ∧
    (takeRows col mapping)[k]'(by simp [takeRows]; exact hk) = col.getD (mapping[k]).toNat default := by
  simp [takeRows]

/-! ## `get_subtree` -/

mutual
theorem spec_logEnter : ∀ (r : Rose) (pv : Option Unit) (acc : List Int),
    spec logEnterIds noLeave r pv acc = (acc ++ C04.enterOrder r, ())
  | .node i ks, pv, acc => by
    simp only [spec, logEnterIds, noLeave, C04.enterOrder]
    rw [specRev_logEnter ks () (acc ++ [i])]
    simp
theorem specRev_logEnter : ∀ (ks : List Rose) (cur : Unit) (acc : List Int),
    (specRev logEnterIds noLeave ks cur acc).1 = acc ++ C04.enterOrderRev ks
  | [], _, acc => by simp [specRev, C04.enterOrderRev]
  | r :: rs, cur, acc => by
    simp only [specRev, C04.enterOrderRev]
    rw [spec_logEnter r, specRev_logEnter rs]
    simp
end

mutual
theorem edge_of_mem : ∀ (r : Rose) (v : Int), v ∈ r.ids →
    v = r.id ∨ ∃ a, a ∈ r.ids ∧ (a, v) ∈ C05.edges r
  | .node i ks, v, hv => by
    simp only [Rose.ids, List.mem_cons] at hv
    rcases hv with hv | hv
    · left; simp [Rose.id, hv]
    · right
      rcases edge_of_memL ks v hv with ⟨k, hk, rfl⟩ | ⟨a, ha, he⟩
      · refine ⟨i, by simp [Rose.ids], ?_⟩
        simp only [C05.edges, List.mem_append, List.mem_map]
        exact Or.inl ⟨k, hk, rfl⟩
      · exact ⟨a, by simp [Rose.ids, ha], by simp [C05.edges, he]⟩
theorem edge_of_memL : ∀ (ks : List Rose) (v : Int), v ∈ idsL ks →
    (∃ k ∈ ks, v = k.id) ∨ ∃ a, a ∈ idsL ks ∧ (a, v) ∈ C05.edgesL ks
  | [], v, hv => by simp [idsL] at hv
  | r :: rs, v, hv => by
    simp only [idsL, List.mem_append] at hv
    rcases hv with hv | hv
    · rcases edge_of_mem r v hv with h | ⟨a, ha, he⟩
      · exact Or.inl ⟨r, by simp, h⟩
      · exact Or.inr ⟨a, by simp [idsL, ha], by simp [C05.edgesL, he]⟩
    · rcases edge_of_memL rs v hv with ⟨k, hk, h⟩ | ⟨a, ha, he⟩
      · exact Or.inl ⟨k, by simp [hk], h⟩
      · exact Or.inr ⟨a, by simp [idsL, ha], by simp [C05.edgesL, he]⟩
end

/-- an edge of the representing rose is a row of the table `(0..n-1, pids)` -/
theorem edge_parent (pids : List Int) (r : Rose) (h : Represents r (rangeI pids.length) pids) (a v : Int)
    (he : (a, v) ∈ C05.edges r) : 0 ≤ v ∧ v.toNat < pids.length ∧ pids.getD v.toNat (-1) = a := by
  have := C05.edge_is_row r _ _ h a v he
  rw [mem_tableKids] at this
  obtain ⟨h0, hlt, hq⟩ := this
  exact ⟨h0, hlt, by rw [getD_eq_getElem _ _ hlt]; exact hq⟩

/-- **the subtree at a node is precisely that node and its descendants**: the kept old ids are the
`enter` order of the rose hanging at `n` (a permutation of its ids, `C04.enterOrder_perm`), the node
itself becomes the new root, and every other survivor's new parent is the new id of its old parent. -/
theorem subtree_nodes (pids : List Int) (s : Rose) (h : Represents s (rangeI pids.length) pids)
    (hin : ∀ i ∈ s.ids, 0 ≤ i ∧ i.toNat < pids.length) :
    ∃ res, getSubtree pids s.id = some res ∧
      res.mapping = C04.enterOrder s ∧ res.mapping.Perm s.ids ∧
      res.newPid.head? = some (-1) ∧
      ∀ k (hk : k < res.newPid.length), 0 < k →
        0 ≤ res.newPid[k] ∧ res.mapping.getD res.newPid[k].toNat 0 = pids.getD (res.mapping.getD k 0).toNat (-1) := by
  have hsz : s.size ≤ pids.length := rose_size_le s _ h.2 hin
  have hperm := C04.enterOrder_perm s
  unfold getSubtree
  simp only
  rw [run_model _ _ s h _ hsz, spec_logEnter]
  simp only [List.nil_append]
  generalize hE : C04.enterOrder s = E at hperm ⊢
  have hEmem : ∀ v ∈ E, 0 ≤ v ∧ v.toNat < pids.length := fun v hv => hin v (hperm.mem_iff.1 hv)
  -- every entry but the first has its parent among the entered ids
  have hpar : ∀ k (hk : k < E.length), 0 < k → pids.getD (E[k]).toNat (-1) ∈ E := by
    intro k hk hk0
    cases s with
    | node i ks =>
      simp only [C04.enterOrder] at hE
      subst hE
      cases k with
      | zero => omega
      | succ k =>
        simp only [List.getElem_cons_succ]
        have hk2 : k < (C04.enterOrderRev ks).length := by simpa using hk
        have hmem : (C04.enterOrderRev ks)[k] ∈ idsL ks :=
          (C04.enterOrderRev_perm ks).mem_iff.1 (List.getElem_mem _)
        have hmem' : (C04.enterOrderRev ks)[k] ∈ (Rose.node i ks).ids := by simp [Rose.ids, hmem]
        rcases edge_of_mem _ _ hmem' with hroot | ⟨a, ha, he⟩
        · -- a kid cannot carry the root's id
          exfalso
          have := h.2
          simp only [Rose.ids, List.nodup_cons] at this
          simp only [Rose.id] at hroot
          exact this.1 (hroot ▸ hmem)
        · rw [(edge_parent pids _ h a _ he).2.2]
          exact hperm.mem_iff.2 ha
  generalize hP : (E.map fun i => pids.getD i.toNat (-1)).set 0 (-1) = subPid
  have hlen : E.length = subPid.length := by rw [← hP]; simp
  have hkeep : ∀ ip ∈ List.zip E subPid, decide (ip.1 ≠ REMOVAL) = true := by
    rintro ⟨a, b⟩ hab
    have := (hEmem a (List.of_mem_zip hab).1).1
    have : a ≠ REMOVAL := by simp only [REMOVAL, Gen.Consts.removalMarker]; omega
    simpa using this
  have hkeepE : E.filter (fun x => decide (x ≠ REMOVAL)) = E := by
    rw [List.filter_eq_self]
    intro a ha
    have := (hEmem a ha).1
    have : a ≠ REMOVAL := by simp only [REMOVAL, Gen.Consts.removalMarker]; omega
    simpa using this
  have hsub : ∀ k (hk : k < subPid.length), (k = 0 → subPid[k] = -1) ∧
      (0 < k → subPid[k] = pids.getD (E[k]'(by omega)).toNat (-1)) := by
    intro k hk
    subst hP
    constructor
    · rintro rfl; simp
    · intro hk0
      rw [List.getElem_set_ne (by omega)]
      simp
  have hok : (toSubTopology E subPid).isSome := by
    rw [toSubTopology_ok_iff' E subPid (by omega), List.filter_eq_self.2 hkeep, hkeepE]
    intro ip hip
    obtain ⟨k, hk, rfl⟩ := List.mem_iff_getElem.1 hip
    simp only [List.getElem_zip]
    have hk' : k < subPid.length := by simp at hk; omega
    cases k with
    | zero => left; exact (hsub 0 hk').1 rfl
    | succ k =>
      right
      rw [(hsub (k+1) hk').2 (by omega)]
      exact hpar (k+1) (by omega) (by omega)
  obtain ⟨res, hres⟩ := Option.isSome_iff_exists.1 hok
  obtain ⟨hmap, hnl, hrows⟩ := toSubTopology_spec E subPid hlen res hres
  rw [hkeepE] at hmap
  have hrows' : ∀ k (hk : k < res.newPid.length),
      (subPid.getD k 0 = -1 → res.newPid[k] = -1) ∧
      (subPid.getD k 0 ≠ -1 → 0 ≤ res.newPid[k] ∧ res.mapping.getD res.newPid[k].toNat 0 = subPid.getD k 0) := by
    intro k hk
    have := hrows k hk
    simp only at this
    rw [List.filter_eq_self.2 hkeep] at this
    have e : (List.zip E subPid).map (fun x => x.2) = subPid := List.map_snd_zip (by omega)
    rw [e] at this
    exact this
  have hElen : 0 < E.length := by rw [← hE]; cases s; simp [C04.enterOrder]
  refine ⟨res, hres, hmap, hmap ▸ hperm, ?_, ?_⟩
  · have h0 : 0 < res.newPid.length := by rw [hnl, hmap]; exact hElen
    rw [List.head?_eq_getElem?, List.getElem?_eq_getElem h0]
    congr 1
    apply (hrows' 0 h0).1
    rw [getD_eq_getElem _ _ (by omega)]
    exact (hsub 0 (by omega)).1 rfl
  · intro k hk hk0
    have hkE : k < E.length := by rw [hnl, hmap] at hk; exact hk
    have hkS : k < subPid.length := by omega
    have hp : subPid.getD k 0 = pids.getD (E[k]).toNat (-1) := by
      rw [getD_eq_getElem _ _ hkS]; exact (hsub k hkS).2 hk0
    have hne : subPid.getD k 0 ≠ -1 := by
      rw [hp]
      have := (hEmem _ (hpar k hkE hk0)).1
      omega
    have := (hrows' k hk).2 hne
    rw [hp] at this
    refine ⟨this.1, ?_⟩
    rw [this.2, hmap, getD_eq_getElem _ _ hkE]

/-! ## removal marks: `propagate_removal` -/

-- ids that end up marked: a node is marked when it was marked initially or its parent ends up marked
mutual
def removedSet (marked : Int → Bool) : Rose → Bool → List Int
  | .node i ks, inh => (if inh || marked i then [i] else []) ++ removedSetL marked ks (inh || marked i)
def removedSetL (marked : Int → Bool) : List Rose → Bool → List Int
  | [], _ => []
  | r :: rs, inh => removedSet marked r inh ++ removedSetL marked rs inh
end

/-- the whole table is the tree `r` rooted at node 0 (whose row has no parent) -/
def IsTree (r : Rose) (pids : List Int) : Prop :=
  Represents r (rangeI pids.length) pids ∧ r.ids.Perm (rangeI pids.length) ∧ r.id = 0 ∧ pids.head? = some (-1)

theorem isTree_size {r : Rose} {pids : List Int} (h : IsTree r pids) : r.size = pids.length := by
  rw [← SortM.ids_length]
  have := h.2.1.length_eq
  simpa [rangeI] using this

theorem isTree_mem {r : Rose} {pids : List Int} (h : IsTree r pids) (v : Int) :
    v ∈ r.ids ↔ 0 ≤ v ∧ v.toNat < pids.length := by
  rw [h.2.1.mem_iff, mem_rangeI]

/-- on a tree table every model traversal (fuel `2n+2`, start node 0) is structural recursion on `r` -/
theorem run_tree {σ T K : Type} {r : Rose} {pids : List Int} (h : IsTree r pids)
    (enter : σ → Int → Option T → σ × T) (leave : σ → Int → List K → σ × K) (s : σ) :
    (run (tableKids (rangeI pids.length) pids) enter leave (2 * pids.length + 2) (init 0 s)).s
      = (spec enter leave r none s).1 := by
  have := run_model _ _ r h.1 pids.length (Nat.le_of_eq (isTree_size h)) enter leave s
  rw [h.2.2.1] at this
  exact this

mutual
theorem removedSet_sub (m : Int → Bool) : ∀ (r : Rose) (inh : Bool) (v : Int), v ∈ removedSet m r inh → v ∈ r.ids
  | .node i ks, inh, v, hv => by
    simp only [removedSet, List.mem_append] at hv
    simp only [Rose.ids, List.mem_cons]
    rcases hv with hv | hv
    · left; split at hv <;> simp_all
    · right; exact removedSetL_sub m ks _ v hv
theorem removedSetL_sub (m : Int → Bool) : ∀ (ks : List Rose) (inh : Bool) (v : Int), v ∈ removedSetL m ks inh → v ∈ idsL ks
  | [], _, v, hv => by simp [removedSetL] at hv
  | r :: rs, inh, v, hv => by
    simp only [removedSetL, List.mem_append] at hv
    simp only [idsL, List.mem_append]
    rcases hv with hv | hv
    · exact Or.inl (removedSet_sub m r inh v hv)
    · exact Or.inr (removedSetL_sub m rs inh v hv)
end

mutual
theorem spec_prop (m0 : Int → Bool) : ∀ (r : Rose) (pv : Option Bool) (m : Int → Bool), r.ids.Nodup →
    (∀ v ∈ r.ids, m v = m0 v) →
    spec propEnter noLeave r pv m
      = (fun v => if v ∈ r.ids then decide (v ∈ removedSet m0 r (pv.getD false)) else m v, ())
  | .node i ks, pv, m, hd, hm => by
    simp only [Rose.ids, List.nodup_cons] at hd
    have hmi : m i = m0 i := hm i (by simp [Rose.ids])
    simp only [spec, noLeave]
    have hm' : ∀ v ∈ idsL ks, (propEnter m i pv).1 v = m0 v := by
      intro v hv
      have hne : v ≠ i := fun e => hd.1 (e ▸ hv)
      have := hm v (by simp [Rose.ids, hv])
      simp only [propEnter]
      split <;> simp [upd, hne, this]
    rw [specRev_prop m0 ks _ _ hd.2 hm']
    congr 1
    funext v
    have hrm : (propEnter m i pv).2 = (pv.getD false || m0 i) := by simp [propEnter, hmi]
    rw [hrm]
    simp only [removedSet, Rose.ids, List.mem_cons, List.mem_append]
    by_cases hvi : v = i
    · subst hvi
      have hnot : v ∉ removedSetL m0 ks (pv.getD false || m0 v) := fun hh => hd.1 (removedSetL_sub m0 ks _ v hh)
      simp only [hd.1, if_false, true_or, if_true, hnot, or_false]
      simp only [propEnter, hmi]
      cases hb : (pv.getD false || m0 v) <;> simp [upd, hb]
      simp at hb
      rw [hmi]; exact hb.2
    · by_cases hvk : v ∈ idsL ks
      · have : v ∉ (if (pv.getD false || m0 i) = true then [i] else []) := by
          split <;> simp [hvi]
        simp [hvk, hvi]
      · simp only [hvk, if_false, hvi, or_self]
        simp only [propEnter]
        split <;> simp [upd, hvi]
theorem specRev_prop (m0 : Int → Bool) : ∀ (ks : List Rose) (cur : Bool) (m : Int → Bool), (idsL ks).Nodup →
    (∀ v ∈ idsL ks, m v = m0 v) →
    (specRev propEnter noLeave ks cur m).1
      = fun v => if v ∈ idsL ks then decide (v ∈ removedSetL m0 ks cur) else m v
  | [], _, m, _, _ => by simp [specRev, idsL]
  | r :: rs, cur, m, hd, hm => by
    simp only [idsL, List.nodup_append] at hd
    obtain ⟨hdr, hdrs, hdisj⟩ := hd
    simp only [specRev]
    rw [specRev_prop m0 rs cur m hdrs (fun v hv => hm v (by simp [idsL, hv]))]
    rw [spec_prop m0 r (some cur) _ hdr (by
      intro v hv
      have : v ∉ idsL rs := fun hh => hdisj v hv v hh rfl
      simp only [this, if_false]
      exact hm v (by simp [idsL, hv]))]
    funext v
    simp only [Option.getD_some, idsL, removedSetL, List.mem_append]
    by_cases h1 : v ∈ r.ids
    · have : v ∉ removedSetL m0 rs cur := fun hh => hdisj v h1 v (removedSetL_sub m0 rs _ v hh) rfl
      simp [h1, this]
    · have : v ∉ removedSet m0 r cur := fun hh => h1 (removedSet_sub m0 r _ v hh)
      simp [h1, this]
end

/-- **marks reach exactly the marked nodes and everything below them** -/
theorem propagate_marks (pids : List Int) (r : Rose) (h : IsTree r pids) (marked : Int → Bool) (v : Int) :
    propagateRemoval pids marked v = if v ∈ r.ids then decide (v ∈ removedSet marked r false) else marked v := by
  unfold propagateRemoval
  rw [run_tree h, spec_prop marked r none marked h.1.2 (fun _ _ => rfl)]
  simp

mutual
theorem removedSet_true (m : Int → Bool) : ∀ r : Rose, removedSet m r true = r.ids
  | .node i ks => by simp [removedSet, Rose.ids, removedSetL_true m ks]
theorem removedSetL_true (m : Int → Bool) : ∀ ks : List Rose, removedSetL m ks true = idsL ks
  | [] => by simp [removedSetL, idsL]
  | r :: rs => by simp [removedSetL, idsL, removedSet_true m r, removedSetL_true m rs]
end

/-- once a node is removed, its whole subtree is; below an unmarked, uninherited node nothing is forced -/
theorem removedSet_all (marked : Int → Bool) (r : Rose) : (removedSet marked r true).Perm r.ids := by
  rw [removedSet_true]

mutual
theorem removedSet_sound' (m : Int → Bool) : ∀ (r : Rose) (inh : Bool) (v : Int), v ∈ removedSet m r inh →
    (inh = true ∧ v = r.id) ∨ m v = true ∨ ∃ a, a ∈ removedSet m r inh ∧ (a, v) ∈ C05.edges r
  | .node i ks, inh, v, hv => by
    simp only [removedSet, List.mem_append] at hv
    rcases hv with hv | hv
    · split at hv
      · rename_i hb
        simp only [List.mem_singleton] at hv
        subst hv
        simp only [Bool.or_eq_true] at hb
        rcases hb with hb | hb
        · exact Or.inl ⟨hb, rfl⟩
        · exact Or.inr (Or.inl hb)
      · simp at hv
    · rcases removedSetL_sound' m ks _ v hv with ⟨hb, k, hk, rfl⟩ | hmv | ⟨a, ha, he⟩
      · right; right
        refine ⟨i, ?_, ?_⟩
        · simp [removedSet, hb]
        · simp only [C05.edges, List.mem_append, List.mem_map]
          exact Or.inl ⟨k, hk, rfl⟩
      · exact Or.inr (Or.inl hmv)
      · right; right
        exact ⟨a, by simp [removedSet, ha], by simp [C05.edges, he]⟩
theorem removedSetL_sound' (m : Int → Bool) : ∀ (ks : List Rose) (inh : Bool) (v : Int), v ∈ removedSetL m ks inh →
    (inh = true ∧ ∃ k ∈ ks, v = k.id) ∨ m v = true ∨ ∃ a, a ∈ removedSetL m ks inh ∧ (a, v) ∈ C05.edgesL ks
  | [], _, v, hv => by simp [removedSetL] at hv
  | r :: rs, inh, v, hv => by
    simp only [removedSetL, List.mem_append] at hv
    rcases hv with hv | hv
    · rcases removedSet_sound' m r inh v hv with ⟨hb, hv⟩ | hmv | ⟨a, ha, he⟩
      · exact Or.inl ⟨hb, r, by simp, hv⟩
      · exact Or.inr (Or.inl hmv)
      · exact Or.inr (Or.inr ⟨a, by simp [removedSetL, ha], by simp [C05.edgesL, he]⟩)
    · rcases removedSetL_sound' m rs inh v hv with ⟨hb, k, hk, hv⟩ | hmv | ⟨a, ha, he⟩
      · exact Or.inl ⟨hb, k, by simp [hk], hv⟩
      · exact Or.inr (Or.inl hmv)
      · exact Or.inr (Or.inr ⟨a, by simp [removedSetL, ha], by simp [C05.edgesL, he]⟩)
end

/-- a node that is neither marked nor below a marked node survives: the removed set only contains marked
nodes and nodes with a removed parent -/
theorem removedSet_sound (marked : Int → Bool) (r : Rose) (v : Int) (hv : v ∈ removedSet marked r false) :
    marked v = true ∨ ∃ a, a ∈ removedSet marked r false ∧ (a, v) ∈ C05.edges r := by
  rcases removedSet_sound' marked r false v hv with ⟨hb, _⟩ | h | h
  · cases hb
  · exact Or.inl h
  · exact Or.inr h

/-! ## `to_subtree` -/

mutual
theorem edges_src : ∀ (r : Rose) (a v : Int), (a, v) ∈ C05.edges r → a ∈ r.ids
  | .node i ks, a, v, h => by
    simp only [C05.edges, List.mem_append, List.mem_map, Prod.mk.injEq] at h
    simp only [Rose.ids, List.mem_cons]
    rcases h with ⟨k, _, rfl, _⟩ | h
    · exact Or.inl rfl
    · exact Or.inr (edgesL_src ks a v h)
theorem edgesL_src : ∀ (ks : List Rose) (a v : Int), (a, v) ∈ C05.edgesL ks → a ∈ idsL ks
  | [], a, v, h => by simp [C05.edgesL] at h
  | r :: rs, a, v, h => by
    simp only [C05.edgesL, List.mem_append] at h
    simp only [idsL, List.mem_append]
    rcases h with h | h
    · exact Or.inl (edges_src r a v h)
    · exact Or.inr (edgesL_src rs a v h)
end

-- the removed set is closed under "child of" (needs distinct ids: the edge and the removal must be about
-- the same occurrence of the parent id)
mutual
theorem removedSet_down (m : Int → Bool) : ∀ (r : Rose) (inh : Bool), r.ids.Nodup → ∀ a v : Int,
    (a, v) ∈ C05.edges r → a ∈ removedSet m r inh → v ∈ removedSet m r inh
  | .node i ks, inh, hd, a, v, he, ha => by
    simp only [Rose.ids, List.nodup_cons] at hd
    simp only [C05.edges, List.mem_append, List.mem_map, Prod.mk.injEq] at he
    simp only [removedSet, List.mem_append] at ha ⊢
    right
    rcases he with ⟨k, hk, rfl, rfl⟩ | he
    · rcases ha with ha | ha
      · have hb : (inh || m i) = true := by
          cases hb : (inh || m i)
          · simp [hb] at ha
          · rfl
        rw [hb, removedSetL_true]
        exact mem_idsL_of_mem hk
      · exact absurd (removedSetL_sub m ks _ _ ha) hd.1
    · have hsrc := edgesL_src ks a v he
      rcases ha with ha | ha
      · have : a = i := by split at ha <;> simp_all
        exact absurd (this ▸ hsrc) hd.1
      · exact removedSetL_down m ks _ hd.2 a v he ha
theorem removedSetL_down (m : Int → Bool) : ∀ (ks : List Rose) (inh : Bool), (idsL ks).Nodup → ∀ a v : Int,
    (a, v) ∈ C05.edgesL ks → a ∈ removedSetL m ks inh → v ∈ removedSetL m ks inh
  | [], _, _, a, v, he, _ => by simp [C05.edgesL] at he
  | r :: rs, inh, hd, a, v, he, ha => by
    simp only [idsL, List.nodup_append] at hd
    obtain ⟨hdr, hdrs, hdisj⟩ := hd
    simp only [C05.edgesL, List.mem_append] at he
    simp only [removedSetL, List.mem_append] at ha ⊢
    rcases he with he | he
    · have hsrc := edges_src r a v he
      rcases ha with ha | ha
      · exact Or.inl (removedSet_down m r inh hdr a v he ha)
      · exact absurd rfl (hdisj a hsrc a (removedSetL_sub m rs _ _ ha))
    · have hsrc := edgesL_src rs a v he
      rcases ha with ha | ha
      · exact absurd rfl (hdisj a (removedSet_sub m r _ _ ha) a hsrc)
      · exact Or.inr (removedSetL_down m rs inh hdrs a v he ha)
end

theorem filter_marked (M : Int → Bool) : ∀ l : List Int, (∀ i ∈ l, i ≠ REMOVAL) →
    (l.map (fun i => if M i = true then REMOVAL else i)).filter (fun x => decide (x ≠ REMOVAL))
      = l.filter (fun v => !M v)
  | [], _ => rfl
  | a :: l, h => by
    have ih := filter_marked M l (fun i hi => h i (List.mem_cons_of_mem _ hi))
    have ha : a ≠ REMOVAL := h a (by simp)
    simp only [List.map_cons, List.filter_cons, ih]
    cases hM : M a <;> simp [ha]

/-- **removing a set of nodes returns precisely the nodes that are neither removed nor below a removed
node**, in increasing id order, with parents remapped and the root (if it survives) still a root -/
theorem toSubtree_kept (pids : List Int) (r : Rose) (h : IsTree r pids) (removals : List Int) :
    ∃ res, toSubtree pids removals = some res ∧
      res.mapping = (rangeI pids.length).filter (fun v => !decide (v ∈ removedSet (fun i => removals.contains i) r false)) ∧
      res.newPid.length = res.mapping.length ∧
      ∀ k (hk : k < res.newPid.length),
        let p := pids.getD (res.mapping.getD k 0).toNat (-1)
        (p = -1 → res.newPid[k] = -1) ∧ (p ≠ -1 → 0 ≤ res.newPid[k] ∧ res.mapping.getD res.newPid[k].toNat 0 = p) := by
  obtain ⟨hrep, hperm, hroot, hhead⟩ := id h
  unfold toSubtree
  simp only
  generalize hM : propagateRemoval pids (fun i => removals.contains i) = M
  have hMv : ∀ v, v ∈ r.ids → M v = decide (v ∈ removedSet (fun i => removals.contains i) r false) := by
    intro v hv; rw [← hM, propagate_marks pids r h, if_pos hv]
  have hnoR : ∀ i ∈ rangeI pids.length, i ≠ REMOVAL := by
    intro i hi
    have := ((mem_rangeI _ _).1 hi).1
    simp only [REMOVAL, Gen.Consts.removalMarker]; omega
  have hfilter := filter_marked M _ hnoR
  have hfilter2 : (rangeI pids.length).filter (fun v => !M v)
      = (rangeI pids.length).filter (fun v => !decide (v ∈ removedSet (fun i => removals.contains i) r false)) :=
    List.filter_congr (fun v hv => by rw [hMv v (hperm.mem_iff.2 hv)])
  generalize hS : (rangeI pids.length).map (fun i => if M i = true then REMOVAL else i) = subId at hfilter
  have hlen : subId.length = pids.length := by rw [← hS]; simp [rangeI]
  have hzip : ∀ ip ∈ List.zip subId pids, ip.1 ≠ REMOVAL →
      0 ≤ ip.1 ∧ ip.1.toNat < pids.length ∧ M ip.1 = false ∧ ip.2 = pids.getD ip.1.toNat (-1) := by
    intro ip hip hne
    obtain ⟨j, hj, rfl⟩ := List.mem_iff_getElem.1 hip
    have hj' : j < pids.length := by simp at hj; omega
    subst hS
    simp only [List.getElem_zip, List.getElem_map] at hne ⊢
    have e : (rangeI pids.length)[j]'(by simp [rangeI]; exact hj') = (j : Int) := by simp [rangeI]
    rw [e] at hne ⊢
    cases hMj : M (j : Int)
    · simp only [hMj, Bool.false_eq_true, if_false, Int.toNat_natCast]
      exact ⟨by omega, hj', trivial, (getD_eq_getElem _ _ hj').symm⟩
    · simp [hMj] at hne
  have hok : (toSubTopology subId pids).isSome := by
    rw [toSubTopology_ok_iff' subId pids (by omega), hfilter]
    intro ip hip
    obtain ⟨hip, hne⟩ := List.mem_filter.1 hip
    have hne' : ip.1 ≠ REMOVAL := by simpa using hne
    obtain ⟨h0, hlt, hMc, hp⟩ := hzip ip hip hne'
    by_cases hc : ip.1 = 0
    · left
      rw [hp, hc]
      cases pids with
      | nil => simp at hhead
      | cons a as => simpa using hhead
    · right
      have hmem : ip.1 ∈ r.ids := (isTree_mem h _).2 ⟨h0, hlt⟩
      rcases edge_of_mem r _ hmem with hr | ⟨a, ha, he⟩
      · exact absurd (hr.trans hroot) hc
      · rw [hp, (edge_parent pids r hrep a _ he).2.2]
        apply List.mem_filter.2
        refine ⟨hperm.mem_iff.1 ha, ?_⟩
        rw [hMv a ha]
        simp only [Bool.not_eq_eq_eq_not, Bool.not_true, decide_eq_false_iff_not]
        intro hrs
        have := removedSet_down _ r false hrep.2 a _ he hrs
        rw [hMv _ hmem] at hMc
        simp only [decide_eq_false_iff_not] at hMc
        exact hMc this
  obtain ⟨res, hres⟩ := Option.isSome_iff_exists.1 hok
  obtain ⟨hmap, hnl, hrows⟩ := toSubTopology_spec subId pids hlen res hres
  refine ⟨res, hres, by rw [hmap, hfilter, hfilter2], hnl, ?_⟩
  intro k hk
  have hrow := hrows k hk
  simp only at hrow ⊢
  have hmap' : res.mapping = ((List.zip subId pids).filter (fun ip => decide (ip.1 ≠ REMOVAL))).map (·.1) := by
    rw [hmap, zip_filter_fst (fun x => decide (x ≠ REMOVAL)) subId pids (by omega)]
  have hk1 : k < ((List.zip subId pids).filter (fun ip => decide (ip.1 ≠ REMOVAL))).length := by
    have := congrArg List.length hmap'
    simp only [List.length_map] at this
    omega
  have hp : (((List.zip subId pids).filter (fun ip => decide (ip.1 ≠ REMOVAL))).map (·.2)).getD k 0
      = pids.getD (res.mapping.getD k 0).toNat (-1) := by
    rw [getD_eq_getElem _ _ (by simpa using hk1), getD_eq_getElem _ _ (by omega : k < res.mapping.length)]
    simp only [hmap', List.getElem_map]
    have hmem := List.getElem_mem hk1
    obtain ⟨hmz, hne⟩ := List.mem_filter.1 hmem
    exact (hzip _ hmz (by simpa using hne)).2.2.2
  rw [hp] at hrow
  exact hrow

/-! ## `cut_tree` -/
section cut
variable {T K : Type}

-- ids the `enter`-mode wrapper collects: where the user callback says "remove", and everything below
-- (without calling the user callback there)
mutual
def cutSpec (ue : Int → Option T → T × Bool) : Rose → Option (T × Bool) → List Int
  | .node i ks, parent =>
    match parent with
    | some (pv, true) => i :: cutSpecRev ue ks (pv, true)
    | _ =>
      let r := ue i (parent.map (·.1))
      (if r.2 then [i] else []) ++ cutSpecRev ue ks r
def cutSpecRev (ue : Int → Option T → T × Bool) : List Rose → T × Bool → List Int
  | [], _ => []
  | r :: rs, cur => cutSpecRev ue rs cur ++ cutSpec ue r (some cur)
end

mutual
theorem spec_cutEnter (ue : Int → Option T → T × Bool) : ∀ (r : Rose) (pv : Option (T × Bool)) (rem : List Int),
    (spec (cutEnter ue) noLeave r pv rem).1 = rem ++ cutSpec ue r pv
  | .node i ks, pv, rem => by
    simp only [spec, noLeave]
    rw [specRev_cutEnter ue ks]
    match pv with
    | some (p, true) => simp [cutEnter, cutSpec]
    | some (p, false) =>
      simp only [cutEnter, cutSpec]
      split <;> simp
    | none =>
      simp only [cutEnter, cutSpec]
      split <;> simp
theorem specRev_cutEnter (ue : Int → Option T → T × Bool) : ∀ (ks : List Rose) (cur : T × Bool) (rem : List Int),
    (specRev (cutEnter ue) noLeave ks cur rem).1 = rem ++ cutSpecRev ue ks cur
  | [], _, rem => by simp [specRev, cutSpecRev]
  | r :: rs, cur, rem => by
    simp only [specRev, cutSpecRev]
    rw [spec_cutEnter ue r, specRev_cutEnter ue rs]
    simp
end

/-- **cutting by an `enter` callback removes precisely the nodes the callback designates and their
descendants**: the collected removal list is `cutSpec`, which is then handed to `to_subtree` -/
theorem cutEnter_removed (pids : List Int) (r : Rose) (h : IsTree r pids) (ue : Int → Option T → T × Bool) :
    cutTreeEnter pids ue = toSubtree pids (cutSpec ue r none) := by
  unfold cutTreeEnter
  simp only
  rw [run_tree h, spec_cutEnter]
  simp

-- ids the `leave`-mode wrapper collects, in post-order
mutual
def leaveVal (ul : Int → List K → K × Bool) : Rose → K
  | .node i ks => (ul i (leaveValL ul ks)).1
def leaveValL (ul : Int → List K → K × Bool) : List Rose → List K
  | [] => []
  | r :: rs => leaveVal ul r :: leaveValL ul rs
end
mutual
def cutLeaveSpec (ul : Int → List K → K × Bool) : Rose → List Int
  | .node i ks => cutLeaveSpecRev ul ks ++ (if (ul i (leaveValL ul ks)).2 then [i] else [])
def cutLeaveSpecRev (ul : Int → List K → K × Bool) : List Rose → List Int
  | [] => []
  | r :: rs => cutLeaveSpecRev ul rs ++ cutLeaveSpec ul r
end

mutual
theorem spec_cutLeave (ul : Int → List K → K × Bool) : ∀ (r : Rose) (pv : Option Unit) (rem : List Int),
    spec noEnter (cutLeave ul) r pv rem = (rem ++ cutLeaveSpec ul r, leaveVal ul r)
  | .node i ks, pv, rem => by
    simp only [spec, noEnter]
    rw [specRev_cutLeave ul ks]
    simp only [cutLeave, cutLeaveSpec, leaveVal]
    split <;> simp
theorem specRev_cutLeave (ul : Int → List K → K × Bool) : ∀ (ks : List Rose) (cur : Unit) (rem : List Int),
    specRev noEnter (cutLeave ul) ks cur rem = (rem ++ cutLeaveSpecRev ul ks, leaveValL ul ks)
  | [], _, rem => by simp [specRev, cutLeaveSpecRev, leaveValL]
  | r :: rs, cur, rem => by
    simp only [specRev, cutLeaveSpecRev, leaveValL]
    rw [specRev_cutLeave ul rs, spec_cutLeave ul r]
    simp
end

theorem cutLeave_removed (pids : List Int) (r : Rose) (h : IsTree r pids) (ul : Int → List K → K × Bool) :
    cutTreeLeave pids ul = toSubtree pids (cutLeaveSpec ul r) := by
  unfold cutTreeLeave
  simp only
  rw [run_tree h, spec_cutLeave]
  simp
end cut

/-! ## `CutByType` -/

-- a node is kept when it has the type or some node below it has
mutual
def keepT (types : Int → Int) (ty : Int) : Rose → Bool
  | .node i ks => types i == ty || keepTL types ty ks
def keepTL (types : Int → Int) (ty : Int) : List Rose → Bool
  | [] => false
  | r :: rs => keepT types ty r || keepTL types ty rs
end
mutual
def droppedT (types : Int → Int) (ty : Int) : Rose → List Int
  | .node i ks => (if keepT types ty (.node i ks) then [] else [i]) ++ droppedTL types ty ks
def droppedTL (types : Int → Int) (ty : Int) : List Rose → List Int
  | [] => []
  | r :: rs => droppedT types ty r ++ droppedTL types ty rs
end

mutual
theorem droppedT_sub (types : Int → Int) (ty : Int) : ∀ (r : Rose) (v : Int), v ∈ droppedT types ty r → v ∈ r.ids
  | .node i ks, v, hv => by
    simp only [droppedT, List.mem_append] at hv
    simp only [Rose.ids, List.mem_cons]
    rcases hv with hv | hv
    · left; split at hv <;> simp_all
    · right; exact droppedTL_sub types ty ks v hv
theorem droppedTL_sub (types : Int → Int) (ty : Int) : ∀ (ks : List Rose) (v : Int), v ∈ droppedTL types ty ks → v ∈ idsL ks
  | [], v, hv => by simp [droppedTL] at hv
  | r :: rs, v, hv => by
    simp only [droppedTL, List.mem_append] at hv
    simp only [idsL, List.mem_append]
    rcases hv with hv | hv
    · exact Or.inl (droppedT_sub types ty r v hv)
    · exact Or.inr (droppedTL_sub types ty rs v hv)
end

theorem keepTL_any (types : Int → Int) (ty : Int) : ∀ ks : List Rose,
    (ks.map (keepT types ty)).any id = keepTL types ty ks
  | [] => by simp [keepTL]
  | r :: rs => by simp [keepTL, keepTL_any types ty rs]

mutual
theorem spec_type (types : Int → Int) (ty : Int) : ∀ (r : Rose) (pv : Option Unit) (m : Int → Bool), r.ids.Nodup →
    (∀ v ∈ r.ids, m v = (types v != ty)) →
    spec noEnter typeLeave r pv m
      = (fun v => if v ∈ r.ids then decide (v ∈ droppedT types ty r) else m v, keepT types ty r)
  | .node i ks, pv, m, hd, hm => by
    simp only [Rose.ids, List.nodup_cons] at hd
    have hmi : m i = (types i != ty) := hm i (by simp [Rose.ids])
    simp only [spec, noEnter]
    rw [specRev_type types ty ks _ m hd.2 (fun v hv => hm v (by simp [Rose.ids, hv]))]
    simp only [typeLeave, keepTL_any]
    have hnd : i ∉ droppedTL types ty ks := fun hh => hd.1 (droppedTL_sub types ty ks i hh)
    simp only [hd.1, if_false, hmi]
    have hk : keepT types ty (.node i ks) = (!(types i != ty) || keepTL types ty ks) := by
      simp [keepT, bne]
    cases hb : (types i != ty) <;> cases hA : keepTL types ty ks
    all_goals
      rw [hb, hA] at hk
      simp only [Bool.and_true, Bool.and_false, Bool.true_and, Bool.false_and, Bool.false_eq_true, if_false, if_true]
      refine Prod.ext ?_ ?_
      · funext v
        simp only [droppedT, hk, Rose.ids, List.mem_cons, List.mem_append]
        by_cases hvi : v = i
        · subst hvi
          simp [hd.1, hnd, hmi, hb, upd]
        · simp [hvi, upd]
      · simp [hk, hd.1, hmi, hb, upd]
theorem specRev_type (types : Int → Int) (ty : Int) : ∀ (ks : List Rose) (cur : Unit) (m : Int → Bool), (idsL ks).Nodup →
    (∀ v ∈ idsL ks, m v = (types v != ty)) →
    specRev noEnter typeLeave ks cur m
      = (fun v => if v ∈ idsL ks then decide (v ∈ droppedTL types ty ks) else m v, ks.map (keepT types ty))
  | [], _, m, _, _ => by simp [specRev, idsL]
  | r :: rs, cur, m, hd, hm => by
    simp only [idsL, List.nodup_append] at hd
    obtain ⟨hdr, hdrs, hdisj⟩ := hd
    simp only [specRev]
    rw [specRev_type types ty rs cur m hdrs (fun v hv => hm v (by simp [idsL, hv]))]
    rw [spec_type types ty r (some cur) _ hdr (by
      intro v hv
      have : v ∉ idsL rs := fun hh => hdisj v hv v hh rfl
      simp only [this, if_false]
      exact hm v (by simp [idsL, hv]))]
    refine Prod.ext ?_ (by simp)
    funext v
    simp only [idsL, droppedTL, List.mem_append]
    by_cases h1 : v ∈ r.ids
    · have : v ∉ droppedTL types ty rs := fun hh => hdisj v h1 v (droppedTL_sub types ty rs v hh) rfl
      simp [h1, this]
    · have : v ∉ droppedT types ty r := fun hh => h1 (droppedT_sub types ty r v hh)
      simp [h1, this]
end

/-- **cutting by type keeps exactly the nodes that have the type or an own descendant of that type**
(the typed nodes and their ancestors) -/
theorem cutByType_kept (pids types : List Int) (ty : Int) (r : Rose) (h : IsTree r pids) (hl : types.length = pids.length) :
    ∃ rm : List Int, cutByType pids types ty = toSubtree pids rm ∧
      ∀ v, v ∈ rm ↔ v ∈ droppedT (fun i => types.getD i.toNat 0) ty r := by
  unfold cutByType
  simp only
  rw [run_tree h, spec_type (fun i => types.getD i.toNat 0) ty r none _ h.1.2 (by
    intro v hv
    have := (isTree_mem h v).1 hv
    simp [this.1, this.2])]
  refine ⟨_, rfl, ?_⟩
  intro v
  simp only [List.mem_filter]
  constructor
  · rintro ⟨hv, hd⟩
    have hv' : v ∈ r.ids := h.2.1.mem_iff.2 hv
    simpa only [hv', if_true, decide_eq_true_eq] using hd
  · intro hd
    have hv' : v ∈ r.ids := droppedT_sub _ _ r v hd
    exact ⟨h.2.1.mem_iff.1 hv', by simp only [hv', if_true, decide_eq_true_eq]; exact hd⟩

/-! ## `CutByFurcationOrder` -/

/-- the level rule: the root has level 0, a furcation raises the level by one, a node is cut when its
level reaches the maximum (its descendants then go with it, `cutEnter_removed`) -/
theorem cutByOrder_rule (pids : List Int) (m : Int) (n : Int) (pl : Option Int) :
    orderEnter pids m n pl =
      ((match pl with | none => 0 | some l => if isFurcation pids n then l + 1 else l),
       decide ((match pl with | none => (0 : Int) | some l => if isFurcation pids n then l + 1 else l) ≥ m)) ∧
    cutByOrder pids m = cutTreeEnter pids (orderEnter pids m) := ⟨rfl, rfl⟩

/-- `is_furcation` = two or more children in the table -/
theorem isFurcation_iff (pids : List Int) (n : Int) :
    isFurcation pids n = true ↔ 2 ≤ (tableKids (rangeI pids.length) pids n).length := by
  rw [tableKids_rangeI, tk_length]
  simp [isFurcation]
  omega

/-! ## `CutShortTipBranch` -/

/-- length of the unbranched chain hanging below a node down to a tip (`none` if it branches) -/
def chainLen? (elen : Int → Int) : Rose → Option Int
  | .node _ [] => some 0
  | .node _ [k] => (chainLen? elen k).map (· + elen k.id)
  | .node _ _ => none

-- the children of a branching node whose hanging chain reaches a tip without branching and is short
mutual
def tipRemoved (elen : Int → Int) (thre : Int) : Rose → List Int
  | .node _ ks => tipRemovedRev elen thre ks ++
      (if ks.length ≥ 2 then ks.filterMap (fun k => match chainLen? elen k with
          | some L => if L + elen k.id > thre then none else some k.id
          | none => none) else [])
def tipRemovedRev (elen : Int → Int) (thre : Int) : List Rose → List Int
  | [] => []
  | r :: rs => tipRemovedRev elen thre rs ++ tipRemoved elen thre r
end

theorem tip_foldl (elen : Int → Int) (thre : Int) : ∀ (cs : List (Option (Int × Int))) (rem : List Int),
    cs.foldl (fun acc c => match c with
        | none => acc
        | some (dis, child) => if dis + elen child > thre then acc else acc ++ [child]) rem
      = rem ++ cs.filterMap (fun c => match c with
        | none => none
        | some (dis, child) => if dis + elen child > thre then none else some child)
  | [], rem => by simp
  | none :: cs, rem => by
    simp only [List.foldl_cons, List.filterMap_cons]
    exact tip_foldl elen thre cs rem
  | some (dis, child) :: cs, rem => by
    simp only [List.foldl_cons, List.filterMap_cons]
    rw [tip_foldl elen thre cs]
    split <;> simp

theorem tip_filterMap (elen : Int → Int) (thre : Int) : ∀ (ks : List Rose),
    (ks.map (fun k => (chainLen? elen k).map (·, k.id))).filterMap (fun c => match c with
        | none => none
        | some (dis, child) => if dis + elen child > thre then none else some child)
      = ks.filterMap (fun k => match chainLen? elen k with
          | some L => if L + elen k.id > thre then none else some k.id
          | none => none)
  | [] => rfl
  | k :: ks => by
    simp only [List.map_cons, List.filterMap_cons]
    rw [tip_filterMap elen thre ks]
    cases chainLen? elen k <;> simp

theorem tipLeave_many (elen : Int → Int) (thre : Int) (rem : List Int) (i : Int)
    (v1 v2 : Option (Int × Int)) (vs : List (Option (Int × Int))) :
    tipLeave elen thre rem i (v1 :: v2 :: vs)
      = (rem ++ (v1 :: v2 :: vs).filterMap (fun c => match c with
          | none => none
          | some (dis, child) => if dis + elen child > thre then none else some child), none) := by
  rw [← tip_foldl]
  cases v1 with
  | none => rfl
  | some p => obtain ⟨d, c⟩ := p; rfl

mutual
theorem spec_tip (elen : Int → Int) (thre : Int) : ∀ (r : Rose) (pv : Option Unit) (rem : List Int),
    spec noEnter (tipLeave elen thre) r pv rem
      = (rem ++ tipRemoved elen thre r, (chainLen? elen r).map (·, r.id))
  | .node i ks, pv, rem => by
    simp only [spec, noEnter]
    rw [specRev_tip elen thre ks]
    rw [show (Rose.node i ks).id = i from rfl]
    match ks with
    | [] => simp [tipLeave, tipRemoved, tipRemovedRev, chainLen?]
    | [k] =>
      simp only [List.map_cons, List.map_nil]
      cases hc : chainLen? elen k with
      | none => simp [tipLeave, tipRemoved, chainLen?, hc]
      | some L => simp [tipLeave, tipRemoved, chainLen?, hc]
    | k1 :: k2 :: ks =>
      simp only [List.map_cons]
      rw [tipLeave_many]
      have := tip_filterMap elen thre (k1 :: k2 :: ks)
      simp only [List.map_cons] at this
      rw [this]
      simp [tipRemoved, chainLen?]
theorem specRev_tip (elen : Int → Int) (thre : Int) : ∀ (ks : List Rose) (cur : Unit) (rem : List Int),
    specRev noEnter (tipLeave elen thre) ks cur rem
      = (rem ++ tipRemovedRev elen thre ks, ks.map (fun k => (chainLen? elen k).map (·, k.id)))
  | [], _, rem => by simp [specRev, tipRemovedRev]
  | r :: rs, cur, rem => by
    simp only [specRev, tipRemovedRev]
    rw [specRev_tip elen thre rs, spec_tip elen thre r]
    simp
end

/-- **cutting short terminal branches removes precisely the chains that hang from a furcation, reach a tip
without another furcation, and are no longer than the threshold** (measured from the furcation) -/
theorem cutShortTip_removed (pids : List Int) (r : Rose) (h : IsTree r pids) (elen : Int → Int) (thre : Int) :
    cutShortTip pids elen thre = toSubtree pids (tipRemoved elen thre r) := by
  unfold cutShortTip
  simp only
  rw [run_tree h, spec_tip]
  simp

-- non-vacuity / concrete behaviour
def exPids : List Int := [-1, 0, 1, 1, 0]
def exRose : Rose := .node 0 [.node 1 [.node 2 [], .node 3 []], .node 4 []]
example : IsTree exRose exPids := by
  refine ⟨⟨?_, by decide⟩, by decide, rfl, rfl⟩
  simp [exRose, exPids, Agrees, AgreesL, tableKids, Rose.id, rangeI, List.range, List.range.loop]
example : getSubtree exPids 1 = some ⟨[-1, 0, 0], [1, 3, 2]⟩ := by decide +kernel
example : toSubtree exPids [2] = some ⟨[-1, 0, 1, 0], [0, 1, 3, 4]⟩ := by decide +kernel
example : cutByType exPids [1, 3, 2, 3, 3] 2 = some ⟨[-1, 0, 1], [0, 1, 2]⟩ := by decide +kernel
example : cutByOrder exPids 1 = some ⟨[-1, 0], [0, 4]⟩ := by decide +kernel
example : cutShortTip exPids (fun c => [0, 1, 1, 5, 1].getD c.toNat 0) 2 = some ⟨[-1, 0, 1], [0, 1, 3]⟩ := by decide +kernel

end C06
