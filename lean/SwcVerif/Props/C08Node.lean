import SwcVerif.Props.C08
import SwcVerif.Proofs.Represent
import SwcVerif.Refine.NodeBranch
/-! # C08, node-level methods tied to the source by the translator

`Gen.Algo.get_tips`, `Gen.Algo.node_branch` (`Tree.get_tips`, `Tree.Node.branch`) and the node-handle methods `node_parent`,
`node_children`, `node_is_root`, `node_is_furcation`, `node_is_tip` are regenerated from `swcgeom/core/tree.py` / `node.py` on every run. -/
namespace C08
open Branches Trav Gen.Algo Sub

/-- **`Tree.get_tips` as translated returns exactly the childless nodes** (any table with equally long columns) -/
theorem generated_tips_childless (ids pids : List Int) (hl : ids.length = pids.length) :
    ∃ l, get_tips ids pids = some l ∧ ∀ j, j ∈ l ↔ j ∈ ids ∧ tableKids ids pids j = [] :=
  ⟨_, RefineNodeBranch.getTips_refines ids pids, tips_eq_childless ids pids hl⟩

/-- on a tree: the translated `get_tips` returns the leaves of the rose (`tipsOf`), each once -/
theorem generated_tips_eq_tipsOf (r : Rose) (pids : List Int) (h : C06.IsTree r pids) :
    ∃ l, get_tips (rangeI pids.length) pids = some l ∧ l.Nodup ∧ ∀ j, j ∈ l ↔ j ∈ tipsOf r := by
  refine ⟨_, RefineNodeBranch.getTips_refines _ pids, ?_, ?_⟩
  · exact (Represent.rangeI_nodup _).filter _
  · intro j
    rw [tips_eq_childless _ pids (by simp [rangeI]) j, tipsOf_childless _ r h.1.1 j, h.2.1.mem_iff]

example : get_tips (rangeI 5) [-1, 0, 1, 1, 3] = some [2, 4] := by decide +kernel

end C08
