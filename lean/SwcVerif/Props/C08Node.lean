import SwcVerif.Props.C08
import SwcVerif.Proofs.Represent
import SwcVerif.Refine.NodeBranch
/-! # C08, node-level methods tied to the source by the translator

`Gen.Algo.get_tips`, `Gen.Algo.node_branch` (`Tree.get_tips`, `Tree.Node.branch`) and the node-handle methods `node_parent`,
`node_children`, `node_is_root`, `node_is_furcation`, `node_is_tip` are regenerated from `swcgeom/core/tree.py` / `node.py` on every run. -/
namespace C08
open Branches Trav Gen.Algo Sub

/-- **`Tree.get_tips` as translated returns exactly the childless nodes** (any table with equally long columns and distinct ids) -/
theorem generated_tips_childless (ids pids : List Int) (hl : ids.length = pids.length) (hd : ids.Nodup) :
    ∃ l, get_tips ids pids = some l ∧ ∀ j, j ∈ l ↔ j ∈ ids ∧ tableKids ids pids j = [] :=
  ⟨_, RefineNodeBranch.getTips_refines ids pids hd, tips_eq_childless ids pids hl⟩

/-- on a tree: the translated `get_tips` returns the leaves of the rose (`tipsOf`), each once -/
theorem generated_tips_eq_tipsOf (r : Rose) (pids : List Int) (h : C06.IsTree r pids) :
    ∃ l, get_tips (rangeI pids.length) pids = some l ∧ l.Nodup ∧ ∀ j, j ∈ l ↔ j ∈ tipsOf r := by
  refine ⟨_, RefineNodeBranch.getTips_refines _ pids (Represent.rangeI_nodup _), ?_, ?_⟩
  · exact (Represent.rangeI_nodup _).filter _
  · intro j
    rw [tips_eq_childless _ pids (by simp [rangeI]) j, tipsOf_childless _ r h.1.1 j, h.2.1.mem_iff]

example : get_tips (rangeI 5) [-1, 0, 1, 1, 3] = some [2, 4] := by decide +kernel

/-! ### `Tree.Node.branch` -/
open RefineNodeBranch

/-- **`Tree.Node.branch` as translated equals the model `nodeBranch`** on every tree (`IsTree r pids`: any shape, any numbering with the
root first), for every node handle `0 ≤ k < n` and every fuel `≥ n + 1`: neither `while` loop runs out of fuel, nothing raises -/
theorem generated_nodeBranch_eq_model (r : Rose) (pids : List Int) (h : C06.IsTree r pids) (k : Int) (h0 : 0 ≤ k) (hk : k < pids.length)
    (F : Nat) (hF : pids.length + 1 ≤ F) :
    node_branch F (rangeI pids.length) pids k = some (nodeBranch pids F k) :=
  nodeBranch_refines (Represent.represented_wf pids r h) k h0 hk F hF

/-- **shape of `Tree.Node.branch` as translated** (`_partial` with respect to "the branch of `branchesOf` through the node", see the
notes): the result is `up.reverse ++ down` where `up` starts at the node and climbs parent by parent through non-furcations to the nearest
furcation or the root (`UpOK`), and `down` descends from the node through ONLY children to the next furcation or tip (`DownOK`).  So the
result is a parent→child chain through the node, starts at a furcation / the root (or is the node alone when the node is a furcation),
ends at a furcation / tip, and every interior node has exactly one child.

Missing for the full statement: that this chain IS the member of `branchesOf r` through `k` (for a non-furcation `k` of a tree with ≥ 2
nodes) — it needs the converse of `C08.branch_shape` (uniqueness of the shaped chain through an edge). -/
theorem generated_nodeBranch_shape_partial (r : Rose) (pids : List Int) (h : C06.IsTree r pids) (k : Int) (h0 : 0 ≤ k)
    (hk : k < pids.length) (F : Nat) (hF : pids.length + 1 ≤ F) :
    ∃ up down, node_branch F (rangeI pids.length) pids k = some (up.reverse ++ down) ∧ up.head? = some k ∧
      UpOK (KK pids) pids up ∧ DownOK (KK pids) k down := by
  have hw := Represent.represented_wf pids r h
  obtain ⟨up, down, e, h1, h2, h3⟩ := nodeBranch_shape hw k h0 hk F hF
  exact ⟨up, down, by rw [nodeBranch_refines hw k h0 hk F hF, e], h1, h2, h3⟩

/-- the quirk of DESIGN.md §6, for the code as translated: **`Node.branch()` of a furcation is the one-node branch** -/
theorem generated_nodeBranch_furcation (r : Rose) (pids : List Int) (h : C06.IsTree r pids) (k : Int) (h0 : 0 ≤ k) (hk : k < pids.length)
    (hf : 2 ≤ (tableKids (rangeI pids.length) pids k).length) :
    node_branch (pids.length + 1) (rangeI pids.length) pids k = some [k] := by
  rw [generated_nodeBranch_eq_model r pids h k h0 hk _ (Nat.le_refl _)]
  exact congrArg some (nodeBranch_furcation pids k pids.length hf)

/-- non-vacuity (kernel-evaluated) on `0 → 1 → {2, 3 → 4}`: the stem through the root, the one-node branch of the furcation 1, and the
branch `1, 3, 4` found from its interior node 3 and from its tip 4 -/
example : node_branch 6 (rangeI 5) [-1, 0, 1, 1, 3] 0 = some [0, 1] ∧ node_branch 6 (rangeI 5) [-1, 0, 1, 1, 3] 1 = some [1] ∧
          node_branch 6 (rangeI 5) [-1, 0, 1, 1, 3] 3 = some [1, 3, 4] ∧ node_branch 6 (rangeI 5) [-1, 0, 1, 1, 3] 4 = some [1, 3, 4] ∧
          node_branch 6 (rangeI 5) [-1, 0, 1, 1, 3] 5 = none ∧ nodeBranch [-1, 0, 1, 1, 3] 6 3 = [1, 3, 4] := by decide +kernel
/-- the hypothesis `IsTree` is satisfiable (and, by `Represent.wf_represented`, holds for EVERY well-formed parent list) -/
example : ∃ r, C06.IsTree r [-1, 0, 1, 1, 3] :=
  Represent.wf_represented _ ⟨rfl, by decide, by decide +kernel⟩
