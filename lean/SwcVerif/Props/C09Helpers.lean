import SwcVerif.Props.C09Gen
import SwcVerif.Refine.Helpers
/-! # C09, the remaining object helpers (T41), tied to the source by the translator

`Gen/AlgoHelpers.lean` is regenerated on every run from `swcgeom/core/path.py` (`Path.get_node`, `Path.__iter__`), `branch.py`
(`Branch.detach`) and `compartment.py` (`Compartment.detach`) (`harness/algo_specs/72_helpers.py`).  Conventions as in `C09Gen.lean`:
`T` is a tree / DictSWC, `⟨T, idx, nm⟩` a Path / Branch / Compartment over it; a handle is (path, position). -/
namespace C09
open Gen.Algo RefineViews RefineHelpers

/-- `path.get_node(i)` is `path.node(i)`: the handle (path, i) -/
theorem generated_get_node (P : Path) (i : Int) : path_get_node P i = some ⟨P, i, P.names⟩ ∧ path_get_node P i = path_node P i :=
  ⟨path_get_node_eq P i, path_get_node_eq_node P i⟩

/-- **iterating a path** yields exactly the handles `path[0]`, …, `path[n-1]` (same owner, same position, in order), and read through them
every column reports what the path reports: the owner's column gathered by `idx` -/
theorem generated_path_iter (T : DictSWC) (idx : List Int) (nm : SWCNames) (idc : List Int)
    (hid : Py.Dict.get? T.ndata nm.id = some idc) (hri : InRange idx idc.length) :
    path_iter ⟨T, idx, nm⟩ = some ((arangeL idx.length).map fun i => (⟨⟨T, idx, nm⟩, i, nm⟩ : PNode)) ∧
    (∀ k : Nat, k < idx.length → path_getitem_int ⟨T, idx, nm⟩ (k : Int) = some ⟨⟨T, idx, nm⟩, (k : Int), nm⟩) ∧
    ∀ key col, Py.Dict.get? T.ndata key = some col → InRange idx col.length →
      (path_iter ⟨T, idx, nm⟩).bind (fun hs => hs.mapM fun n => pnode_getitem n key) = some (gather col idx) := by
  have hg := path_get_ndata_spec T idx nm nm.id idc hid hri
  have h1 := path_iter_eq ⟨T, idx, nm⟩ _ hg
  simp only [gather_length] at h1
  refine ⟨h1, ?_, ?_⟩
  · intro k hk
    obtain ⟨hs, e1, _, e3⟩ := path_iter_getitem ⟨T, idx, nm⟩ _ hg
    rw [e3 k (by simpa using hk)]
    rw [h1] at e1
    cases e1
    simp [arangeL, hk]
  · intro key col hk hr
    exact path_iter_read ⟨T, idx, nm⟩ _ hg key _ (path_get_ndata_spec T idx nm key col hk hr)

/-- **the handles are LIVE windows**: the positions produced by iterating a path BEFORE `tree[j][k] = x`, dereferenced over the owner AFTER
the store (a handle holds a reference to its path, the path to its owner: the reference structure of `harness/algo_specs/70_views.py`),
report `x` exactly at the positions that refer to row `j` and the old value elsewhere; every other column reads as before the store.
Composes `generated_path_iter` with `generated_node_write_through` / `generated_write_then_view_read`. -/
theorem generated_iter_live (T : DictSWC) (idx : List Int) (nm : SWCNames) (idc : List Int)
    (hid : Py.Dict.get? T.ndata nm.id = some idc) (hri : InRange idx idc.length)
    (k : String) (col : List Int) (j : Nat) (x : Int) (hr : InRange idx col.length) :
    ∃ hs, path_iter ⟨T, idx, nm⟩ = some hs ∧
      (hs.map fun h => ({ h with attach := ⟨written T k col j x, idx, nm⟩ } : PNode)).mapM (fun n => pnode_getitem n k) =
        some (idx.map fun i => if i.toNat = j then x else col.getD i.toNat 0) ∧
      ∀ k' gk, k' ≠ k → path_get_ndata ⟨T, idx, nm⟩ k' = some gk →
        (hs.map fun h => ({ h with attach := ⟨written T k col j x, idx, nm⟩ } : PNode)).mapM (fun n => pnode_getitem n k') = some gk := by
  have h1 := (generated_path_iter T idx nm idc hid hri).1
  refine ⟨_, h1, ?_, ?_⟩
  · have hw := RefineViews.write_then_view_read T k col j x idx nm hr
    have := handles_read ⟨written T k col j x, idx, nm⟩ k _ hw idx.length (by simp)
    simpa [List.map_map, Function.comp_def] using this
  · intro k' gk hne hk
    have hw : path_get_ndata ⟨written T k col j x, idx, nm⟩ k' = some gk := by
      rw [RefineViews.write_frame T k k' col j x idx nm hne]; exact hk
    have hl := path_get_ndata_length _ k' gk hk
    have := handles_read ⟨written T k col j x, idx, nm⟩ k' _ hw idx.length (by simpa using hl.symm)
    simpa [List.map_map, Function.comp_def] using this

/-- **iterating a tree** yields exactly the handles `tree[0]`, …, `tree[n-1]` (same owner, row k, in order), and read through them every
column (as long as the id column) reports the owner's column -/
theorem generated_tree_iter (T : DictSWC) (idc : List Int) (hid : Py.Dict.get? T.ndata T.names.id = some idc) :
    tree_iter T = some ((arangeL idc.length).map fun i => (⟨T, i, T.names⟩ : TNode)) ∧
    (∀ k : Nat, k < idc.length → tree_getitem_int T (k : Int) = some ⟨T, (k : Int), T.names⟩) ∧
    ∀ key col, Py.Dict.get? T.ndata key = some col → col.length = idc.length →
      (tree_iter T).bind (fun hs => hs.mapM fun n => tnode_getitem n key) = some col := by
  refine ⟨tree_iter_eq T idc hid, ?_, ?_⟩
  · intro k hk
    rw [tree_getitem_int_eq T idc hid]
    have h1 : ¬ ((k : Int) < -(idc.length : Int) ∨ (k : Int) ≥ idc.length) := by omega
    have h2 : ¬ (k : Int) < 0 := by omega
    simp [h1, normKey, h2, hk]
  · intro key col hk hl
    rw [tree_iter_eq T idc hid, Option.bind_some, ← hl]
    exact tree_handles_read T T.names key col hk

/-- **the handles of a tree are LIVE windows**: the handles produced by iterating the tree BEFORE `tree[i][k] = x` (row `j`), dereferenced over the
owner AFTER the store, report the written column `col.set j x`; every other column reads as before the store -/
theorem generated_tree_iter_live (T : DictSWC) (idc : List Int) (hid : Py.Dict.get? T.ndata T.names.id = some idc)
    (k : String) (col : List Int) (j : Nat) (x : Int) (hl : col.length = idc.length) :
    ∃ hs, tree_iter T = some hs ∧
      (hs.map fun h => ({ h with attach := written T k col j x } : TNode)).mapM (fun n => tnode_getitem n k) = some (col.set j x) ∧
      ∀ k' col', k' ≠ k → Py.Dict.get? T.ndata k' = some col' → col'.length = idc.length →
        (hs.map fun h => ({ h with attach := written T k col j x } : TNode)).mapM (fun n => tnode_getitem n k') = some col' := by
  refine ⟨_, tree_iter_eq T idc hid, ?_, ?_⟩
  · have := tree_handles_read (written T k col j x) T.names k (col.set j x) (by simp [written_get])
    rw [List.length_set, hl] at this
    simpa [List.map_map, Function.comp_def] using this
  · intro k' col' hne hk hl'
    have := tree_handles_read (written T k col j x) T.names k' col' (by simp [written_get, hne, hk])
    rw [hl'] at this
    simpa [List.map_map, Function.comp_def] using this

/-- from the content of a detached object to what a user reads -/
theorem detached_content_reads (T : DictSWC) (idx : List Int) (nm : SWCNames) (D : Py.Dict String (List Int)) (n : Nat)
    (h2 : DetachedContent ⟨T, idx, nm⟩ n D) :
    Py.Dict.get? D nm.pid = some (pidL n) ∧ (nm.id ≠ nm.pid → Py.Dict.get? D nm.id = some (arangeL n)) ∧
    ∀ key gk, key ≠ nm.id → key ≠ nm.pid → path_get_ndata ⟨T, idx, nm⟩ key = some gk →
      Py.Dict.get? D key = some gk ∧ (n = idx.length → path_get_ndata ⟨⟨D, nm⟩, arangeL n, nm⟩ key = some gk) := by
  unfold DetachedContent at h2
  refine ⟨by simp [h2], fun hne => by simp [h2, hne], fun key gk n1 n2 hk => ?_⟩
  have hmem : key ∈ Py.Dict.keys T.ndata := by
    rw [path_get_ndata_eq] at hk
    cases hc : Py.Dict.get? T.ndata key with
    | none => simp [hc] at hk
    | some col =>
      by_cases hm : key ∈ Py.Dict.keys T.ndata
      · exact hm
      · rw [Py.Dict.get?_none_of_not_mem T.ndata key (by simpa [Py.Dict.keys] using hm)] at hc
        cases hc
  have hD : Py.Dict.get? D key = path_get_ndata ⟨T, idx, nm⟩ key := by simp [h2, n1, n2, hmem]
  exact ⟨by rw [hD, hk], fun hn => detach_equal_content ⟨T, idx, nm⟩ _ D n rfl hn key gk hD hk⟩

/-- **`branch.detach()`**: a Branch with positions `0 .. n-1` over a NEW object whose id / pid are `0 .. n-1` / `-1 .. n-2` and whose every
other column is the branch's column in window order; read through the detached branch every such column equals what the branch reported.
(The new object is a value built from the gathered columns: it shares nothing with `T`; a later store into `T` cannot reach it.) -/
theorem generated_branch_detach (T : DictSWC) (idx : List Int) (nm : SWCNames) (idc : List Int)
    (hid : Py.Dict.get? T.ndata nm.id = some idc) (hri : InRange idx idc.length)
    (hall : ∀ k ∈ Py.Dict.keys T.ndata, (path_get_ndata ⟨T, idx, nm⟩ k).isSome) :
    ∃ D, branch_detach ⟨T, idx, nm⟩ = some ⟨⟨D, nm⟩, arangeL idx.length, nm⟩ ∧
      Py.Dict.get? D nm.pid = some (pidL idx.length) ∧ (nm.id ≠ nm.pid → Py.Dict.get? D nm.id = some (arangeL idx.length)) ∧
      ∀ key gk, key ≠ nm.id → key ≠ nm.pid → path_get_ndata ⟨T, idx, nm⟩ key = some gk →
        Py.Dict.get? D key = some gk ∧ path_get_ndata ⟨⟨D, nm⟩, arangeL idx.length, nm⟩ key = some gk := by
  have hg := path_get_ndata_spec T idx nm nm.id idc hid hri
  obtain ⟨D, h1, h2⟩ := branch_detach_eq ⟨T, idx, nm⟩ _ hg hall
  simp only [gather_length] at h1 h2
  obtain ⟨a, b, c⟩ := detached_content_reads T idx nm D idx.length h2
  exact ⟨D, h1, a, b, fun key gk n1 n2 hk => ⟨(c key gk n1 n2 hk).1, (c key gk n1 n2 hk).2 rfl⟩⟩

/-- `Branch.detach` and `Path.detach` agree: same window, same id / pid, the same value under every key -/
theorem generated_branch_detach_agrees (T : DictSWC) (idx : List Int) (nm : SWCNames) (idc : List Int)
    (hid : Py.Dict.get? T.ndata nm.id = some idc) (hri : InRange idx idc.length)
    (hall : ∀ k ∈ Py.Dict.keys T.ndata, (path_get_ndata ⟨T, idx, nm⟩ k).isSome) :
    ∃ b p, branch_detach ⟨T, idx, nm⟩ = some b ∧ path_detach ⟨T, idx, nm⟩ = some p ∧ b.idx = p.idx ∧ b.names = p.names ∧
      b.attach.names = p.attach.names ∧ ∀ key, Py.Dict.get? b.attach.ndata key = Py.Dict.get? p.attach.ndata key := by
  have hg := path_get_ndata_spec T idx nm nm.id idc hid hri
  obtain ⟨D, h1, h2⟩ := branch_detach_eq ⟨T, idx, nm⟩ _ hg hall
  obtain ⟨D', h1', h2'⟩ := path_detach_eq ⟨T, idx, nm⟩ _ hg hall
  exact ⟨_, _, h1, h1', rfl, rfl, rfl, fun key => by rw [h2 key, h2' key]⟩

/-- **`compartment.detach()`** for a compartment of a tree (a window of two rows): a Compartment with positions `[0, 1]` over a NEW object
whose id / pid are `[0, 1]` / `[-1, 0]` and whose every other column is the compartment's column (parent row, child row); read through the
detached compartment every such column equals what the compartment reported -/
theorem generated_compartment_detach (T : DictSWC) (idx : List Int) (nm : SWCNames) (idc : List Int) (hlen : idx.length = 2)
    (hid : Py.Dict.get? T.ndata nm.id = some idc) (hri : InRange idx idc.length)
    (hall : ∀ k ∈ Py.Dict.keys T.ndata, (path_get_ndata ⟨T, idx, nm⟩ k).isSome) :
    ∃ D, tcomp_detach ⟨T, idx, nm⟩ = some ⟨⟨D, nm⟩, [0, 1], nm⟩ ∧
      Py.Dict.get? D nm.pid = some [-1, 0] ∧ (nm.id ≠ nm.pid → Py.Dict.get? D nm.id = some [0, 1]) ∧
      ∀ key gk, key ≠ nm.id → key ≠ nm.pid → path_get_ndata ⟨T, idx, nm⟩ key = some gk →
        Py.Dict.get? D key = some gk ∧ path_get_ndata ⟨⟨D, nm⟩, [0, 1], nm⟩ key = some gk := by
  have hg := path_get_ndata_spec T idx nm nm.id idc hid hri
  obtain ⟨D, h1, h2⟩ := tcomp_detach_eq ⟨T, idx, nm⟩ _ hg hall
  simp only [gather_length, hlen] at h1 h2
  obtain ⟨a, b, c⟩ := detached_content_reads T idx nm D 2 h2
  have e1 : arangeL 2 = [0, 1] := by decide
  have e2 : pidL 2 = [-1, 0] := by decide
  rw [e1] at b c; rw [e2] at a
  exact ⟨D, h1, a, b, fun key gk n1 n2 hk => ⟨(c key gk n1 n2 hk).1, (c key gk n1 n2 hk).2 hlen.symm⟩⟩

/-! ## kernel-evaluated examples on the generated definitions (non-vacuity) -/
section Examples
def hxT : DictSWC := ⟨[("id", [0, 1, 2, 3]), ("type", [1, 3, 3, 2]), ("x", [10, 11, 12, 13]), ("pid", [-1, 0, 1, 1])], ⟨"id", "pid"⟩⟩
def hxP : Path := ⟨hxT, [1, 3], ⟨"id", "pid"⟩⟩

example : (path_iter hxP).map (fun hs => hs.map (·.idx)) = some [0, 1] := by decide +kernel
example : (path_iter hxP).bind (fun hs => hs.mapM fun n => pnode_getitem n "x") = some [11, 13] := by decide +kernel
example : (path_get_node hxP (-1)).bind (fun n => pnode_getitem n "x") = some 13 := by decide +kernel
example : (branch_detach hxP).map (fun d => (d.idx, Py.Dict.get? d.attach.ndata "x", Py.Dict.get? d.attach.ndata "pid")) =
    some ([0, 1], some [11, 13], some [-1, 0]) := by decide +kernel
example : (tcomp_detach hxP).map (fun d => (d.idx, Py.Dict.get? d.attach.ndata "type", Py.Dict.get? d.attach.ndata "id")) =
    some ([0, 1], some [3, 2], some [0, 1]) := by decide +kernel
example : (tree_iter hxT).bind (fun hs => hs.mapM fun n => tnode_getitem n "x") = some [10, 11, 12, 13] := by decide +kernel
-- the hypotheses of the theorems hold for this input
example : InRange hxP.idx 4 ∧ ∀ k ∈ Py.Dict.keys hxT.ndata, (path_get_ndata hxP k).isSome := by unfold InRange; decide +kernel
end Examples

end C09
