import SwcVerif.Refine.CtorFromDf
/-! # C03, the constructor every operation ends in, tied to the source by the translator

`Gen.Algo.tree_init` / `padding1d` are regenerated from `swcgeom/core/tree.py::Tree.__init__` and `swcgeom/utils/numpy_helper.py::padding1d` on
every run (`Gen/AlgoCtorInit.lean`), over a heap of numpy buffers (`Model/PyCtor.lean`: an array object is a window onto a buffer, two arrays
share storage iff they name the same buffer).  "The result shares no storage with what was handed in" is therefore decided by theorems about the
code as translated: **the constructor does alias** — a column handed in with the dtype the constructor asks for (int32 for id / type / pid,
float32 for x / y / z / r) and at least `n` elements becomes the view `a[:n]` of the caller's array, and every non-standard column is stored as
the caller's array object — and it never WRITES a buffer that existed before.  So an operation returns fresh storage exactly when it hands the
constructor fresh arrays (or arrays of another dtype / too short). -/
namespace C03
open Gen.Algo Py RefineCtorInit

/-- **`padding1d(n, v, padding_value=pad, dtype=dt)` as translated**, for every heap, `n ≥ 0`, and `v` = `None` or an array valid in the heap:
it succeeds, writes no existing buffer, returns an array of dtype `dt`, length `n` with the values `colVals`; the result shares storage with
an existing buffer iff `v` is an array of dtype `dt` with at least `n` elements, and is then `v[:n]` with nothing allocated -/
theorem generated_padding1d_spec (h : Bufs) (n pad dt : Int) (hn : 0 ≤ n) (v : Option Arr)
    (hv : ∀ a, v = some a → ∃ l, Bufs.vals h a = some l ∧ (l.length : Int) = a.len) :
    ∃ h' r, padding1d h n v pad (some dt) = some (h', r) ∧ PadOk h n v (v.bind (Bufs.vals h)) pad dt h' r := by
  cases v with
  | none => exact padding1d_none_ok h n pad dt hn
  | some a =>
    obtain ⟨l, hl, hlen⟩ := hv a rfl
    obtain ⟨h', r, he, ok⟩ := padding1d_some_ok h n pad dt a l hn hl hlen
    exact ⟨h', r, he, by simpa [Option.bind, hl] using ok⟩

/-- **`Tree.__init__` as translated** — see `RefineCtorInit.tree_init_ok` for the statement in words -/
theorem generated_tree_init_spec (h : Bufs) (n : Int) (kw : Dict String Arr) (hn : 0 ≤ n)
    (hv : AllValid (defaults h n kw).1 (defaults h n kw).2) (hnd : ((defaults h n kw).2.map (·.1)).Nodup) :
    ∃ hF nd, tree_init h n kw = some (hF, nd, ()) ∧ (∃ ext, hF = (defaults h n kw).1 ++ ext) ∧
      nd.map (·.1) = STD.map (·.1) ++ ((defaults h n kw).2.filter fun p => decide (p.1 ∉ STD.map (·.1))).map (·.1) ∧
      (∀ s ∈ STD, ∃ r, Dict.get? nd s.1 = some r ∧
        ColOk (defaults h n kw).1 hF n (Dict.get? (defaults h n kw).2 s.1) s.2.1 s.2.2 r) ∧
      (∀ k, k ∉ STD.map (·.1) → Dict.get? nd k = Dict.get? (defaults h n kw).2 k) :=
  tree_init_ok h n kw hn hv hnd

/-- the case every tree operation and `from_data_frame` is in: `id` and `pid` are handed in, so the statement is about the caller's own heap and
dict.  **No buffer of the caller is written; a standard column of the new tree shares storage with the caller's buffers iff the caller's array
has the constructor's dtype and at least `n` elements.** -/
theorem generated_tree_init_given (h : Bufs) (n : Int) (kw : Dict String Arr) (hn : 0 ≤ n) (hv : AllValid h kw) (hnd : (kw.map (·.1)).Nodup)
    (h1 : Dict.contains kw "id" = true) (h2 : Dict.contains kw "pid" = true) :
    ∃ hF nd, tree_init h n kw = some (hF, nd, ()) ∧ (∃ ext, hF = h ++ ext) ∧
      (∀ s ∈ STD, ∃ r, Dict.get? nd s.1 = some r ∧ ColOk h hF n (Dict.get? kw s.1) s.2.1 s.2.2 r) ∧
      (∀ k, k ∉ STD.map (·.1) → Dict.get? nd k = Dict.get? kw k) := by
  have hd := defaults_given h n kw h1 h2
  obtain ⟨hF, nd, he, hfr, _, hc, hx⟩ := tree_init_ok h n kw hn (by rw [hd]; exact hv) (by rw [hd]; exact hnd)
  rw [hd] at hfr hc hx
  exact ⟨hF, nd, he, hfr, hc, hx⟩

/-- non-vacuity (kernel-evaluated): `Tree(3, id=int32[0,1,2], x=float32[5,6], foo=float64[1,2,3], pid=int64[-1,0,1,2])`: `id` IS the caller's
buffer 0, `foo` the caller's buffer 2; `pid` (another dtype) and `x` (too short) are new buffers; a missing `r` is zeros, not ones -/
example :
    tree_init [[0, 1, 2], [5, 6], [1, 2, 3], [-1, 0, 1, 2]] 3
        [("id", ⟨0, 3, 0⟩), ("x", ⟨1, 2, 1⟩), ("foo", ⟨2, 3, 3⟩), ("pid", ⟨3, 4, 2⟩)] =
      some ([[0, 1, 2], [5, 6], [1, 2, 3], [-1, 0, 1, 2], [0, 0, 0], [0], [5, 6, 0], [0, 0, 0], [0, 0, 0], [0, 0, 0], [-1, 0, 1, 2]],
            [("id", ⟨0, 3, 0⟩), ("type", ⟨4, 3, 0⟩), ("x", ⟨6, 3, 1⟩), ("y", ⟨7, 3, 1⟩), ("z", ⟨8, 3, 1⟩), ("r", ⟨9, 3, 1⟩),
             ("pid", ⟨10, 3, 0⟩), ("foo", ⟨2, 3, 3⟩)], ()) := by decide +kernel

/-- **`Tree.from_data_frame(df)` as translated** (`Gen.Algo.from_data_frame`, regenerated from `tree.py` on every run, running on the generated
constructor): see `RefineCtorInit.from_data_frame_ok`.  In particular a frame whose columns already have the dtypes int32 / float32 (what `read_swc`
produces) yields a tree whose standard columns are VIEWS of the frame's column arrays: tree and frame share storage. -/
theorem generated_from_data_frame_spec (h : Bufs) (df : Dict String Arr) (n : Int) (hn : 0 ≤ n) (hv : AllValid h df)
    (hnd : (df.map (·.1)).Nodup) (hstd : ∀ k ∈ STD.map (·.1), ∃ a, Dict.get? df k = some a) :
    ∃ hF nd, from_data_frame h df n = some (hF, nd) ∧ (∃ ext, hF = h ++ ext) ∧
      (∀ s ∈ STD, ∃ r, Dict.get? nd s.1 = some r ∧ ColOk h hF n (Dict.get? df s.1) s.2.1 s.2.2 r) ∧
      (∀ k, k ∉ STD.map (·.1) → Dict.get? nd k = Dict.get? df k) :=
  from_data_frame_ok h df n hn hv hnd hstd

/-- non-vacuity (kernel-evaluated): a frame with the columns in another order, `r` as float64 and `pid` as int64, one extra column: five columns of
the tree are the frame's own buffers (no allocation), `r` and `pid` are converted copies, `foo` is the frame's array; a frame without `z` raises -/
example :
    from_data_frame [[0, 1, 2], [1, 3, 3], [1, 2, 3], [4, 5, 6], [0, 0, 0], [1, 1, 1], [-1, 0, 1], [5, 5, 5]]
        [("pid", ⟨6, 3, 2⟩), ("id", ⟨0, 3, 0⟩), ("type", ⟨1, 3, 0⟩), ("foo", ⟨7, 3, 3⟩), ("x", ⟨2, 3, 1⟩), ("y", ⟨3, 3, 1⟩), ("z", ⟨4, 3, 1⟩),
         ("r", ⟨5, 3, 3⟩)] 3 =
      some ([[0, 1, 2], [1, 3, 3], [1, 2, 3], [4, 5, 6], [0, 0, 0], [1, 1, 1], [-1, 0, 1], [5, 5, 5], [1, 1, 1], [-1, 0, 1]],
            [("id", ⟨0, 3, 0⟩), ("type", ⟨1, 3, 0⟩), ("x", ⟨2, 3, 1⟩), ("y", ⟨3, 3, 1⟩), ("z", ⟨4, 3, 1⟩), ("r", ⟨8, 3, 1⟩), ("pid", ⟨9, 3, 0⟩),
             ("foo", ⟨7, 3, 3⟩)]) ∧
    from_data_frame [[0], [1], [0], [0], [1], [-1]]
        [("id", ⟨0, 1, 0⟩), ("type", ⟨1, 1, 0⟩), ("x", ⟨2, 1, 1⟩), ("y", ⟨3, 1, 1⟩), ("r", ⟨4, 1, 1⟩), ("pid", ⟨5, 1, 0⟩)] 1 = none := by
  decide +kernel

end C03
