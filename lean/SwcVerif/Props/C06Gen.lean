import SwcVerif.Props.C06
import SwcVerif.Refine.Subtree
/-! # C06, tied to the source by the translator

`Gen.Algo.to_sub_topology` is regenerated from `swcgeom/core/swc_utils/subtree.py` on every run; it is the compaction +
parent remap + mapping step behind `get_subtree`, `to_subtree`, `cut_tree` and every cut transform.
`RefineSub.toSubTopology_refines` proves it equal to the model `Sub.toSubTopology` the C06 theorems speak about. -/
namespace C06
open Sub Gen.Algo

/-- the translated `to_sub_topology` and the model agree (results and KeyError alike) on every marked table with distinct
kept ids and equally long columns -/
theorem generated_toSubTopology_eq_model (subId subPid : List Int) (hl : subId.length = subPid.length)
    (hnd : (((List.zip subId subPid).filter (fun ip => !decide (ip.1 = -2))).map (·.1)).Nodup) :
    to_sub_topology (subId, subPid) =
      (toSubTopology subId subPid).map (fun r => ((Py.range (r.mapping.length : Int), r.newPid), r.mapping)) :=
  RefineSub.toSubTopology_refines subId subPid hl hnd

/-- non-vacuity (kernel-evaluated): rows 1 and 3 removed; and a kept row whose parent was removed raises -/
example : to_sub_topology ([0, -2, 2, -2, 4], [-1, 0, 0, 2, 2]) = some (([0, 1, 2], [-1, 0, 1]), [0, 2, 4]) := by decide +kernel
example : to_sub_topology ([0, -2, 2], [-1, 0, 1]) = none := by decide +kernel

end C06
