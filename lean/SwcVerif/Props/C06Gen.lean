import SwcVerif.Props.C06
import SwcVerif.Refine.Subtree
import SwcVerif.Refine.Closures
/-! # C06, tied to the source by the translator

`Gen.Algo.to_sub_topology` is regenerated from `swcgeom/core/swc_utils/subtree.py` on every run; it is the compaction +
parent remap + mapping step behind `get_subtree`, `to_subtree`, `cut_tree` and every cut transform.
`RefineSub.toSubTopology_refines` proves it equal to the model `Sub.toSubTopology` the C06 theorems speak about. -/
namespace C06
open Sub Gen.Algo

/-- the translated `to_sub_topology` and the model agree (results and KeyError alike) on every marked table with distinct
kept ids and equally long columns -/
theorem generated_toSubTopology_eq_model (subId subPid : List Int) (hl : subId.length = subPid.length)
    (hnd : (((List.zip subId subPid).filter (fun ip => !decide (ip.1 = -2))).map (·.1)).Nodup) :
    to_sub_topology (subId, subPid) =
      (toSubTopology subId subPid).map (fun r => ((Py.range (r.mapping.length : Int), r.newPid), r.mapping)) :=
  RefineSub.toSubTopology_refines subId subPid hl hnd

/-- non-vacuity (kernel-evaluated): rows 1 and 3 removed; and a kept row whose parent was removed raises -/
example : to_sub_topology ([0, -2, 2, -2, 4], [-1, 0, 0, 2, 2]) = some (([0, 1, 2], [-1, 0, 1]), [0, 2, 4]) := by decide +kernel
example : to_sub_topology ([0, -2, 2], [-1, 0, 1]) = none := by decide +kernel

/-! ## `get_subtree_impl`, as translated (closure + translated traversal + fancy indexing + translated compaction) -/

theorem take_getD (pids : List Int) : ∀ (ids : List Int), (∀ i ∈ ids, 0 ≤ i ∧ i.toNat < pids.length) →
    Py.take pids ids = some (ids.map fun i => pids.getD i.toNat (-1)) := by
  intro ids
  induction ids with
  | nil => intro _; rfl
  | cons i is ih =>
    intro h
    have hi := h i List.mem_cons_self
    have e : i = ((i.toNat : Nat) : Int) := by omega
    have h1 : Py.idx pids i = some (pids.getD i.toNat (-1)) := by
      have h0 : Py.idx pids ((i.toNat : Nat) : Int) = pids[i.toNat]? := Py.idx_nat _ _ hi.2
      rw [← e] at h0
      rw [h0]; simp [List.getD, hi.2]
    have := ih (fun j hj => h j (List.mem_cons_of_mem _ hj))
    simp only [Py.take] at this ⊢
    simp [List.mapM_cons, h1, this]

/-- **the translated `get_subtree_impl` equals the model** on the subtree `s` at any node of a tree object (ids = positions):
the ids collected by the translated `enter` lambda on the translated traversal, the gathered parents, the root's parent reset,
and the translated compaction together return what `Sub.getSubtree` returns — the record `subtree_nodes` characterises -/
theorem generated_getSubtree_eq_model (pids : List Int) (s : Rose) (h : Represents s (rangeI pids.length) pids)
    (hin : ∀ i ∈ s.ids, 0 ≤ i ∧ i.toNat < pids.length) (F : Nat) :
    get_subtree_impl (2 * s.size + F + 1) (rangeI pids.length) pids s.id =
      (getSubtree pids s.id).map (fun r => ((Py.range (r.mapping.length : Int), r.newPid), r.mapping)) := by
  have hsz : s.size ≤ pids.length := rose_size_le s _ h.2 hin
  have hperm := C04.enterOrder_perm s
  have hcall := RefineClosures.traverse_closures (S := List Int) (T := Unit) (K := Unit) subtree_collect Py.noLeave logEnterIds noLeave
    (fun st n pv => by simp [subtree_collect, subtree_collect.body, Py.finish, logEnterIds]) (fun st n ks => rfl)
    (rangeI pids.length) pids s h [] F
  rw [spec_logEnter] at hcall
  simp only [List.nil_append] at hcall
  have hmem : ∀ i ∈ C04.enterOrder s, 0 ≤ i ∧ i.toNat < pids.length := fun i hi => hin i (hperm.mem_iff.1 hi)
  have htake := take_getD pids (C04.enterOrder s) hmem
  have hne : 0 < (C04.enterOrder s).length := by
    rw [hperm.length_eq, SortM.ids_length]; exact SortM.size_pos s
  have hset : Py.setIdx ((C04.enterOrder s).map fun i => pids.getD i.toNat (-1)) (0 : Int) (-1) =
      some (((C04.enterOrder s).map fun i => pids.getD i.toNat (-1)).set 0 (-1)) := by
    have := Py.setIdx_nat ((C04.enterOrder s).map fun i => pids.getD i.toNat (-1)) 0 (-1) (by simpa using hne)
    simpa using this
  have hnd : (C04.enterOrder s).Nodup := hperm.nodup_iff.2 h.2
  have hsub := RefineSub.toSubTopology_refines (C04.enterOrder s) (((C04.enterOrder s).map fun i => pids.getD i.toNat (-1)).set 0 (-1))
    (by simp) (by
      have h2 : (((List.zip (C04.enterOrder s) (((C04.enterOrder s).map fun i => pids.getD i.toNat (-1)).set 0 (-1))).filter
          (fun ip => !decide (ip.1 = -2))).map (·.1)).Sublist
          ((List.zip (C04.enterOrder s) (((C04.enterOrder s).map fun i => pids.getD i.toNat (-1)).set 0 (-1))).map (·.1)) :=
        (List.filter_sublist).map _
      have h3 : (List.zip (C04.enterOrder s) (((C04.enterOrder s).map fun i => pids.getD i.toNat (-1)).set 0 (-1))).map (·.1) =
          C04.enterOrder s := List.map_fst_zip (by simp)
      rw [h3] at h2
      exact List.Nodup.sublist h2 hnd)
  have hmodel : getSubtree pids s.id = toSubTopology (C04.enterOrder s) (((C04.enterOrder s).map fun i => pids.getD i.toNat (-1)).set 0 (-1)) := by
    unfold getSubtree
    simp only
    rw [run_model _ _ s h _ hsz, spec_logEnter]
    simp
  rw [hmodel, ← hsub]
  simp only [get_subtree_impl, get_subtree_impl.body, Py.seq, Py.bind, hcall, htake, hset]
  cases to_sub_topology (C04.enterOrder s, ((C04.enterOrder s).map fun i => pids.getD i.toNat (-1)).set 0 (-1)) <;> simp [Py.finish]

/-! ## `propagate_removal`, as translated (closure over the marker array + translated traversal) -/

/-- the list-level total callback the translated closure `propagate` computes on nodes of the table -/
def propL (s : List Int) (n : Int) (pv : Option Bool) : List Int × Bool :=
  let rm := pv.getD false || decide (s.getD n.toNat 0 = -2)
  (if rm then s.set n.toNat (-2) else s, rm)

/-- marker array ↦ the model's marking function -/
def absMark (s : List Int) : Int → Bool := fun j => decide (0 ≤ j) && decide (s.getD j.toNat 0 = -2)

theorem propagate_closure (s : List Int) (n : Int) (pv : Option Bool) (hn : 0 ≤ n ∧ n.toNat < s.length) :
    propagate s n pv = some (propL s n pv) := by
  have e : n = ((n.toNat : Nat) : Int) := by omega
  have h0 : Py.idx s n = some (s.getD n.toNat 0) := by
    have h1 : Py.idx s ((n.toNat : Nat) : Int) = s[n.toNat]? := Py.idx_nat _ _ hn.2
    rw [← e] at h1
    rw [h1]; simp [List.getD, hn.2]
  have hs : Py.setIdx s n (-2) = some (s.set n.toNat (-2)) := by
    have h1 := Py.setIdx_nat s n.toNat (-2) hn.2
    rw [← e] at h1
    exact h1
  cases hp : pv.getD false with
  | true =>
    simp [propagate, propagate.body, Py.seq, Py.bind, hp, hs, Py.finish, propL]
  | false =>
    by_cases hm : s.getD n.toNat 0 = -2
    · have hm' := hm
      simp only [List.getD_eq_getElem?_getD] at hm'
      simp [propagate, propagate.body, Py.seq, Py.bind, hp, h0, hm, hm', hs, Py.finish, propL]
    · have hm' := hm
      simp only [List.getD_eq_getElem?_getD] at hm'
      simp [propagate, propagate.body, Py.seq, Py.bind, hp, h0, hm, hm', Py.finish, propL, Py.skip]

theorem absMark_step (s : List Int) (n : Int) (pv : Option Bool) (hn : 0 ≤ n ∧ n.toNat < s.length) :
    propEnter (absMark s) n pv = (absMark (propL s n pv).1, (propL s n pv).2) := by
  have hm : absMark s n = decide (s.getD n.toNat 0 = -2) := by simp [absMark, hn.1]
  unfold propEnter propL
  simp only [hm]
  cases hrm : (pv.getD false || decide (s.getD n.toNat 0 = -2)) with
  | false => simp
  | true =>
    simp only [if_true]
    refine Prod.ext ?_ rfl
    funext j
    by_cases e : j = n
    · subst e
      have : (s.set j.toNat (-2))[j.toNat]?.getD 0 = -2 := by simp [hn.2]
      simp [upd, absMark, hn.1, this]
    · simp only [upd, e, if_false, absMark]
      by_cases hj : 0 ≤ j
      · have hne : n.toNat ≠ j.toNat := by omega
        have : (s.set n.toNat (-2))[j.toNat]?.getD 0 = s[j.toNat]?.getD 0 := by
          simp [List.getElem?_set_ne hne]
        simp [hj, this]
      · simp [hj]

/-- **the translated `propagate_removal` equals the model**: on every tree table (ids = positions, root 0) and every marker array of
the same length it raises nothing, leaves the parents alone, changes markers only to `REMOVAL`, and the rows it marks are exactly those
the model `Sub.propagateRemoval` marks — by `propagate_marks`, the marked nodes and all their descendants -/
theorem generated_propagateRemoval (pids : List Int) (r : Rose) (h : IsTree r pids) (l : List Int) (hl : l.length = pids.length) (F : Nat) :
    ∃ l', propagate_removal (2 * r.size + F + 1) (l, pids) = some (l', pids) ∧ l'.length = l.length ∧
      (∀ j, absMark l' j = propagateRemoval pids (absMark l) j) ∧
      (∀ i : Nat, l'[i]? = l[i]? ∨ l'[i]? = some (-2)) := by
  have hsize := isTree_size h
  have hin : ∀ j ∈ r.ids, 0 ≤ j ∧ j.toNat < l.length := by
    intro j hj
    have := (h.2.1.mem_iff).1 hj
    simp only [rangeI, List.mem_map, List.mem_range] at this
    obtain ⟨k, hk, rfl⟩ := this
    simp; omega
  -- invariant of the marker array along the traversal
  let P : List Int → Prop := fun s => s.length = l.length ∧ ∀ i : Nat, s[i]? = l[i]? ∨ s[i]? = some (-2)
  have hP0 : P l := ⟨rfl, fun _ => Or.inl rfl⟩
  have hstep : ∀ (s : List Int) (n : Int) (pv : Option Bool), P s → (0 ≤ n ∧ n.toNat < l.length) → P (propL s n pv).1 := by
    intro s n pv hp _
    simp only [propL]
    split
    · refine ⟨by simp [hp.1], fun i => ?_⟩
      by_cases e : i = n.toNat
      · subst e
        by_cases hlt : n.toNat < s.length
        · right; simp [hlt]
        · rw [List.set_eq_of_length_le (by omega)]; exact hp.2 _
      · rw [List.getElem?_set_ne (fun c => e c.symm)]; exact hp.2 i
    · exact hp
  have hcall := RefineClosures.traverse_closures_on (S := List Int) (T := Bool) (K := Unit) P (fun j => 0 ≤ j ∧ j.toNat < l.length)
    propagate Py.noLeave propL noLeave
    (fun s n pv hp hn => ⟨propagate_closure s n pv (by rw [hp.1]; exact hn), hstep s n pv hp hn⟩)
    (fun s n ks hp _ => ⟨rfl, hp⟩)
    (rangeI pids.length) pids r h.1 l hP0 hin F
  have habs := (RefineClosures.spec_abs (S := List Int) (S' := Int → Bool) (T := Bool) (K := Unit) absMark P
    (fun j => 0 ≤ j ∧ j.toNat < l.length) propL noLeave propEnter noLeave
    (fun s n pv hp hn => ⟨absMark_step s n pv (by rw [hp.1]; exact hn), hstep s n pv hp hn⟩)
    (fun s n ks hp _ => ⟨rfl, hp⟩) r none l hP0 hin)
  obtain ⟨e2, p2⟩ := habs
  rw [h.2.2.1] at hcall
  refine ⟨(Trav.spec propL noLeave r none l).1, ?_, p2.1, ?_, p2.2⟩
  · have harange : Py.arange (Py.len pids) = rangeI pids.length := by simp [Py.arange, Py.range, Py.len, rangeI]
    simp only [propagate_removal, propagate_removal.body, Py.seq, Py.bind, harange, hcall, Py.finish, Option.map]
  · intro j
    unfold propagateRemoval
    rw [run_tree h, e2]

end C06
